import OptiModel.Num
/-!
  Material model (property C18): `optiland/materials/material_file.py`, `material.py`, `abbe.py`,
  `base.py`.

  * the nine refractiveindex.info dispersion formulas, twice:
      `formulaK_spec`  – written from the published document "Dispersion formulas" (database/doc):
                         a fixed expression in the 1-based coefficients `C 1 … C 17`, absent
                         coefficients being zero;
      `formulaK_code`  – what `MaterialFile._formula_K` computes: a left fold over the coefficient
                         list in the code's order of evaluation, `none` where the code raises
                         `ValueError` (an `IndexError` inside the loop, or the explicit length test);
  * `interp`           – `np.interp(x, xp, fp)` on a knot list, linear piece in NumPy's own order
                         `slope*(x - xp[j]) + fp[j]`;
  * `abbe`, `polyval` (Horner, as `np.polyval`), `abbeCoeffs` (`AbbeMaterial._get_coefficients`);
  * `levDP`            – `Material._levenshtein_distance`, the matrix DP row by row, and `levSpec`,
                         the Wagner–Fischer recurrence on prefixes;
  * `lookup_spec` / `lookup_code` – `Material._find_material_matches/_retrieve_file` over a row table;
                         the final choice (`sort_values` then `.loc[0]`, unstable sort) is modelled as
                         *any* row of minimal score, i.e. the functions return the whole set of
                         minimal-score candidates.  `_spec`: the name is a literal substring (what the
                         property requires); `_code`: the name is a regular expression (what pandas
                         `str.contains` does), modelled for patterns whose only metacharacters are
                         `.`, `(` and `)` – enough to recognise finding F10.
  This file must not import Mathlib.
-/
namespace Model.Mat
open scoped Num

/-- `x ** y` with a float exponent (C `pow` / `np.power`); ℝ instance: `Real.rpow` (Proofs/MaterialReal.lean) -/
class NumPow (α : Type) where
  pow : α → α → α

instance : NumPow Float := ⟨Float.pow⟩

section formulas
variable {α : Type} [Num α] [NumPow α]

/-- `x**2` -/
def sq (x : α) : α := x * x
/-- `x ** y` -/
def rpow (x y : α) : α := NumPow.pow x y

/-- 1-based coefficient `C i` of the published formulas; absent coefficients are zero -/
def coef (c : List α) (i : Nat) : α := c.getD (i - 1) 0

/-- `for k in range(k0, len(c), 2): n += term(c[k], c[k+1])` on the remaining list `c[k0:]`;
`c[k+1]` past the end is an `IndexError`, which the code turns into `ValueError` (`none`) -/
def foldPairs (term : α → α → α) : α → List α → Option α
  | acc, [] => some acc
  | _, [_] => none
  | acc, a :: b :: rest => foldPairs term (acc + term a b) rest

/-! ### formula 1 – Sellmeier:  n² − 1 = C1 + Σ C(2i) λ² / (λ² − C(2i+1)²) -/
def formula1_code (c : List α) (w : α) : Option α :=
  match c with
  | [] => none
  | c0 :: rest => (foldPairs (fun a b => a * sq w / (sq w - sq b)) (1 + c0) rest).map Num.sqrt

/-- right-hand side of the published equation, `n² − 1` -/
def formula1_rhs (C : Nat → α) (l : α) : α :=
  C 1 + C 2 * sq l / (sq l - sq (C 3)) + C 4 * sq l / (sq l - sq (C 5))
    + C 6 * sq l / (sq l - sq (C 7)) + C 8 * sq l / (sq l - sq (C 9))
    + C 10 * sq l / (sq l - sq (C 11)) + C 12 * sq l / (sq l - sq (C 13))
    + C 14 * sq l / (sq l - sq (C 15)) + C 16 * sq l / (sq l - sq (C 17))
def formula1_spec (C : Nat → α) (l : α) : α := Num.sqrt (1 + formula1_rhs C l)

/-! ### formula 2 – Sellmeier-2:  n² − 1 = C1 + Σ C(2i) λ² / (λ² − C(2i+1)) -/
def formula2_code (c : List α) (w : α) : Option α :=
  match c with
  | [] => none
  | c0 :: rest => (foldPairs (fun a b => a * sq w / (sq w - b)) (1 + c0) rest).map Num.sqrt

def formula2_rhs (C : Nat → α) (l : α) : α :=
  C 1 + C 2 * sq l / (sq l - C 3) + C 4 * sq l / (sq l - C 5)
    + C 6 * sq l / (sq l - C 7) + C 8 * sq l / (sq l - C 9)
    + C 10 * sq l / (sq l - C 11) + C 12 * sq l / (sq l - C 13)
    + C 14 * sq l / (sq l - C 15) + C 16 * sq l / (sq l - C 17)
def formula2_spec (C : Nat → α) (l : α) : α := Num.sqrt (1 + formula2_rhs C l)

/-! ### formula 3 – Polynomial:  n² = C1 + Σ C(2i) λ^C(2i+1) -/
def formula3_code (c : List α) (w : α) : Option α :=
  match c with
  | [] => none
  | c0 :: rest => (foldPairs (fun a b => a * rpow w b) c0 rest).map Num.sqrt

def formula3_rhs (C : Nat → α) (l : α) : α :=
  C 1 + C 2 * rpow l (C 3) + C 4 * rpow l (C 5) + C 6 * rpow l (C 7) + C 8 * rpow l (C 9)
    + C 10 * rpow l (C 11) + C 12 * rpow l (C 13) + C 14 * rpow l (C 15) + C 16 * rpow l (C 17)
def formula3_spec (C : Nat → α) (l : α) : α := Num.sqrt (formula3_rhs C l)

/-! ### formula 4 – RefractiveIndex.INFO:
  n² = C1 + C2 λ^C3 / (λ² − C4^C5) + C6 λ^C7 / (λ² − C8^C9) + C10 λ^C11 + … + C16 λ^C17 -/
def formula4_code (c : List α) (w : α) : Option α :=
  match c with
  | c0 :: c1 :: c2 :: c3 :: c4 :: c5 :: c6 :: c7 :: c8 :: rest =>
    let n := c0 + c1 * rpow w c2 / (sq w - rpow c3 c4) + c5 * rpow w c6 / (sq w - rpow c7 c8)
    (foldPairs (fun a b => a * rpow w b) n rest).map Num.sqrt
  | _ => none

def formula4_rhs (C : Nat → α) (l : α) : α :=
  C 1 + C 2 * rpow l (C 3) / (sq l - rpow (C 4) (C 5)) + C 6 * rpow l (C 7) / (sq l - rpow (C 8) (C 9))
    + C 10 * rpow l (C 11) + C 12 * rpow l (C 13) + C 14 * rpow l (C 15) + C 16 * rpow l (C 17)
def formula4_spec (C : Nat → α) (l : α) : α := Num.sqrt (formula4_rhs C l)

/-! ### formula 5 – Cauchy:  n = C1 + Σ C(2i) λ^C(2i+1)   (published up to C11) -/
def formula5_code (c : List α) (w : α) : Option α :=
  match c with
  | [] => none
  | c0 :: rest => foldPairs (fun a b => a * rpow w b) c0 rest

def formula5_spec (C : Nat → α) (l : α) : α :=
  C 1 + C 2 * rpow l (C 3) + C 4 * rpow l (C 5) + C 6 * rpow l (C 7) + C 8 * rpow l (C 9)
    + C 10 * rpow l (C 11)

/-! ### formula 6 – Gases:  n − 1 = C1 + Σ C(2i) / (C(2i+1) − λ⁻²)   (published up to C11) -/
def formula6_code (c : List α) (w : α) : Option α :=
  match c with
  | [] => none
  | c0 :: rest => foldPairs (fun a b => a / (b - rpow w (Num.neg Num.two))) (1 + c0) rest

def formula6_spec (C : Nat → α) (l : α) : α :=
  1 + (C 1 + C 2 / (C 3 - 1 / sq l) + C 4 / (C 5 - 1 / sq l) + C 6 / (C 7 - 1 / sq l)
    + C 8 / (C 9 - 1 / sq l) + C 10 / (C 11 - 1 / sq l))

/-! ### formula 7 – Herzberger:
  n = C1 + C2/(λ² − 0.028) + C3 (1/(λ² − 0.028))² + C4 λ² + C5 λ⁴ + C6 λ⁶ -/
/-- `for k in range(k, len(c)): n += c[k] * w**(2*(k-2))` on the remaining list `c[k:]` -/
def herzTail (w : α) : Nat → α → List α → α
  | _, acc, [] => acc
  | k, acc, a :: rest => herzTail w (k + 1) (acc + a * Num.npow w (2 * (k - 2))) rest

def formula7_code (c : List α) (w : α) : Option α :=
  match c with
  | c0 :: c1 :: c2 :: rest =>
    let L := sq w - Num.ofRat 28 1000
    some (herzTail w 3 (c0 + c1 / L + c2 * sq (1 / L)) rest)
  | _ => none

def formula7_spec (C : Nat → α) (l : α) : α :=
  C 1 + C 2 / (sq l - Num.ofRat 28 1000) + C 3 * sq (1 / (sq l - Num.ofRat 28 1000))
    + C 4 * sq l + C 5 * Num.npow l 4 + C 6 * Num.npow l 6

/-! ### formula 8 – Retro:  (n² − 1)/(n² + 2) = C1 + C2 λ²/(λ² − C3) + C4 λ² -/
def formula8_code (c : List α) (w : α) : Option α :=
  match c with
  | [c0, c1, c2, c3] =>
    let b := c0 + c1 * sq w / (sq w - c2) + c3 * sq w
    some (Num.sqrt ((1 + 2 * b) / (1 - b)))
  | _ => none

def formula8_rhs (C : Nat → α) (l : α) : α := C 1 + C 2 * sq l / (sq l - C 3) + C 4 * sq l
/-- solving `(n²−1)/(n²+2) = b` for `n` -/
def formula8_spec (C : Nat → α) (l : α) : α :=
  Num.sqrt ((1 + 2 * formula8_rhs C l) / (1 - formula8_rhs C l))

/-! ### formula 9 – Exotic:  n² = C1 + C2/(λ² − C3) + C4 (λ − C5)/((λ − C5)² + C6) -/
def formula9_code (c : List α) (w : α) : Option α :=
  match c with
  | [c0, c1, c2, c3, c4, c5] =>
    some (Num.sqrt (c0 + c1 / (sq w - c2) + c3 * (w - c4) / (sq (w - c4) + c5)))
  | _ => none

def formula9_rhs (C : Nat → α) (l : α) : α :=
  C 1 + C 2 / (sq l - C 3) + C 4 * (l - C 5) / (sq (l - C 5) + C 6)
def formula9_spec (C : Nat → α) (l : α) : α := Num.sqrt (formula9_rhs C l)

/-- `MaterialFile.n` dispatch on the number in the type string `formula K` -/
def formula_code (k : Nat) (c : List α) (w : α) : Option α :=
  match k with
  | 1 => formula1_code c w | 2 => formula2_code c w | 3 => formula3_code c w
  | 4 => formula4_code c w | 5 => formula5_code c w | 6 => formula6_code c w
  | 7 => formula7_code c w | 8 => formula8_code c w | 9 => formula9_code c w
  | _ => none

def formula_spec (k : Nat) (c : List α) (l : α) : α :=
  match k with
  | 1 => formula1_spec (coef c) l | 2 => formula2_spec (coef c) l | 3 => formula3_spec (coef c) l
  | 4 => formula4_spec (coef c) l | 5 => formula5_spec (coef c) l | 6 => formula6_spec (coef c) l
  | 7 => formula7_spec (coef c) l | 8 => formula8_spec (coef c) l | _ => formula9_spec (coef c) l

end formulas

section interp
variable {α : Type} [Num α]

/-- `x == y` as the C code evaluates it -/
def feq (x y : α) : Bool := Num.le x y && Num.le y x

/-- NumPy's linear piece between knots `p` and `q`: `slope*(x - xp[j]) + fp[j]` -/
def linPiece (x : α) (p q : α × α) : α := (q.2 - p.2) / (q.1 - p.1) * (x - p.1) + p.2

/-- `p` is the knot `xp[j]` reached so far (`xp[j] ≤ x`); advance while the next knot is `≤ x`
(binary search result: the last `j` with `xp[j] ≤ x`), then `j == len-1` ⇒ `fp[j]`,
`xp[j] == x` ⇒ `fp[j]`, else the linear piece -/
def interpFrom (x : α) : α × α → List (α × α) → α
  | p, [] => p.2
  | p, q :: rest =>
    if Num.le q.1 x then interpFrom x q rest
    else if feq p.1 x then p.2
    else linPiece x p q

/-- `np.interp(x, xp, fp)` for knots given as `(xp[j], fp[j])` pairs: `x < xp[0]` ⇒ `fp[0]`,
`x > xp[-1]` ⇒ `fp[-1]`; empty table ⇒ `ValueError` (`none`) -/
def interp (x : α) : List (α × α) → Option α
  | [] => none
  | p :: rest => some (if Num.lt x p.1 then p.2 else interpFrom x p rest)

/-! ### Abbe number, model glass -/
def lamD : α := Num.ofRat 5875618 10000000
def lamF : α := Num.ofRat 4861327 10000000
def lamC : α := Num.ofRat 6562725 10000000

/-- `BaseMaterial.abbe` for an index function `n` -/
def abbe (n : α → α) : α := (n lamD - 1) / (n lamF - n lamC)

/-- `np.polyval(p, x)`: `y = 0; for pv in p: y = y*x + pv` -/
def polyval (p : List α) (x : α) : α := p.foldl (fun y pv => y * x + pv) 0

/-- `sum_k X[k] * col[k]` from the left -/
def dot : List α → List α → α
  | a :: as, b :: bs => as.zip bs |>.foldl (fun s ab => s + ab.1 * ab.2) (a * b)
  | _, _ => 0

/-- `AbbeMaterial._get_coefficients`: `X_poly = [n, V, n², V², n³, V³]`, `p = X_poly @ coefficients`
(`cols` = the columns of the 6×m coefficient matrix) -/
def abbeCoeffs (n v : α) (cols : List (List α)) : List α :=
  let X := [n, v, sq n, sq v, sq n * n, sq v * v]
  cols.map (dot X)

end interp

/-! ### strings

Python strings are sequences of Unicode code points; the model carries them as `List Nat`.  (Lean's
`String` is useless inside the kernel: `String.toList` of one literal costs ~0.1 s of kernel
reduction, so no finite-table theorem about 2593 rows could be checked by `decide +kernel`.) -/
abbrev Str := List Nat

/-- base of the packed representation used by the generated catalogue (code points are `< 2^21`) -/
def strBase : Nat := 2097152

/-- `unpack len n`: the `len` little-endian base-`2^21` digits of `n` -/
def unpack : Nat → Nat → Str
  | 0, _ => []
  | len + 1, n => (n % strBase) :: unpack len (n / strBase)

/-- a string stored as (length, packed code points).  `Gen/Catalog.lean` writes every CSV field this
way: one numeral per field instead of one per character, and the kernel can compare, test
well-formedness and compute the case-insensitive key of a field in O(1) reduction steps -/
structure PStr where
  len : Nat
  code : Nat
deriving Repr, Inhabited, DecidableEq

/-- the string itself -/
def PStr.str (p : PStr) : Str := unpack p.len p.code

/-- `str.lower()` on one code point.  Only ASCII letters are folded; the harness checks on every run
that Python's `lower` agrees on every string of the table -/
def lowerCode (c : Nat) : Nat := if 65 ≤ c && c ≤ 90 then c + 32 else c
def lowerL (s : Str) : Str := s.map lowerCode

/-! ### Levenshtein distance -/

/-- one row of the matrix: `a = s1[i-1]`; `bs` the rest of `s2`; the second argument is the previous
row from column `j-1` on; `left = D[i][j-1]`.  Emits `D[i][j-1]`, … -/
def levRowGo (a : Nat) : Str → List Nat → Nat → List Nat
  | b :: bs, pd :: pu :: ps, left =>
    let cost := if a = b then 0 else 1
    let v := min (min (pu + 1) (left + 1)) (pd + cost)
    left :: levRowGo a bs (pu :: ps) v
  | _, _, left => [left]

/-- rows `i+1, …` from row `i` (`prev`); returns the last row -/
def levRows (s2 : Str) : Str → Nat → List Nat → List Nat
  | [], _, prev => prev
  | a :: s1, i, prev => levRows s2 s1 (i + 1) (levRowGo a s2 prev (i + 1))

/-- `Material._levenshtein_distance(s1, s2)`: row 0 is `[0, 1, …, len s2]`, `distance_matrix[i][0] = i`,
answer `distance_matrix[-1][-1]` -/
def levDP (s1 s2 : Str) : Nat :=
  (levRows s2 s1 0 (List.range (s2.length + 1))).getLastD 0

/-- Wagner–Fischer recurrence on prefixes; a prefix is represented by its reversal, so that its
last character is the head:  D(ua, vb) = min (D(u, vb) + 1, D(ua, v) + 1, D(u, v) + [a ≠ b]),
D(ε, v) = |v|, D(u, ε) = |u| -/
def levP : Str → Str → Nat
  | [], rt => rt.length
  | _ :: rs, [] => rs.length + 1
  | a :: rs, b :: rt =>
    min (min (levP rs (b :: rt) + 1) (levP (a :: rs) rt + 1)) (levP rs rt + (if a = b then 0 else 1))

/-- the edit distance as specified by the recurrence -/
def levSpec (s t : Str) : Nat := levP s.reverse t.reverse

/-! ### catalogue lookup -/

/-- one line of `catalog_nk.csv`, every field as written in the file -/
structure Row where
  group : PStr
  cat : PStr
  catFull : PStr
  ref : PStr
  name : PStr
  file : PStr
  wmin : PStr
  wmax : PStr
deriving Repr, Inhabited, DecidableEq

/-- a row with its position in the file and the lower-cased columns the filter reads
(`df[col].str.lower()`) -/
structure LRow where
  idx : Nat
  row : Row
  cat : Str
  catFull : Str
  ref : Str
  name : Str
  file : Str

def LRow.of (i : Nat) (r : Row) : LRow :=
  ⟨i, r, lowerL r.cat.str, lowerL r.catFull.str, lowerL r.ref.str, lowerL r.name.str, lowerL r.file.str⟩

/-- the data frame: rows numbered from `i` -/
def lrowsFrom : Nat → List Row → List LRow
  | _, [] => []
  | i, r :: rs => LRow.of i r :: lrowsFrom (i + 1) rs

def lrows (rows : List Row) : List LRow := lrowsFrom 0 rows

def isPrefix : Str → Str → Bool
  | [], _ => true
  | _ :: _, [] => false
  | a :: as, b :: bs => a == b && isPrefix as bs

/-- literal substring test `pat in hay` -/
def isInfix (pat : Str) : Str → Bool
  | [] => isPrefix pat []
  | b :: bs => isPrefix pat (b :: bs) || isInfix pat bs

/-- the name filter: `category_name` or `name` contains the query -/
def nameMatch (m : Str → Bool) (r : LRow) : Bool := m r.cat || m r.name
/-- the reference filter over five columns -/
def refMatch (m : Str → Bool) (r : LRow) : Bool :=
  m r.cat || m r.catFull || m r.ref || m r.name || m r.file

/-- `similarity_score` -/
def score (q : Str) (r : LRow) : Nat := min (levDP q r.cat) (levDP q r.name)

def candidates (mName : Str → Bool) (mRef : Option (Str → Bool)) (rows : List LRow) : List LRow :=
  rows.filter fun r => nameMatch mName r && (match mRef with | none => true | some m => refMatch m r)

/-- minimum of a list (0 for the empty list) -/
def minNat : List Nat → Nat
  | [] => 0
  | [a] => a
  | a :: b :: rest => min a (minNat (b :: rest))

/-- the rows that can come first after `sort_values(by='similarity_score')` (pandas' default sort is
not stable, so any row of minimal score may be the one `.loc[0]` picks) -/
def minimal (q : Str) (cands : List LRow) : List LRow :=
  let m := minNat (cands.map (score q))
  cands.filter fun r => score q r == m

/-- lookup as the property requires it: name (and reference) are literal substrings.
Returns every row the final `.loc[0]` may pick; `[]` = "No matches found" -/
def lookup_spec (rows : List LRow) (name : Str) (ref : Option Str) : List LRow :=
  let q := lowerL name
  minimal q (candidates (isInfix q) (ref.map fun s => isInfix (lowerL s)) rows)

/-! regular-expression semantics of pandas `str.contains` (default `regex=True`), for patterns whose
only metacharacters are `.`, `(`, `)` -/
inductive Tok where
  | lit (c : Nat)
  | any
deriving Repr, DecidableEq

inductive ReErr where
  /-- `re.error` (unbalanced parenthesis): propagates as a non-`ValueError` exception -/
  | bad
  /-- pattern uses metacharacters outside the modelled subset -/
  | unmodelled
deriving Repr, DecidableEq

/-- `\ ^ $ * + ? { } [ ] |` -/
def otherMeta (c : Nat) : Bool := [92, 94, 36, 42, 43, 63, 123, 125, 91, 93, 124].contains c

/-- groups only group (no alternation or quantifier in the subset), so a balanced pattern denotes the
concatenation of its atoms; `(` = 40, `)` = 41, `.` = 46 -/
def regexSimple : Str → Nat → Except ReErr (List Tok)
  | [], depth => if depth = 0 then .ok [] else .error .bad
  | c :: cs, depth =>
    if otherMeta c then .error .unmodelled
    else if c = 40 then regexSimple cs (depth + 1)
    else if c = 41 then (if depth = 0 then .error .bad else regexSimple cs (depth - 1))
    else do
      let rest ← regexSimple cs depth
      pure ((if c = 46 then Tok.any else Tok.lit c) :: rest)

def matchPrefix : List Tok → Str → Bool
  | [], _ => true
  | _ :: _, [] => false
  | .lit c :: ts, b :: bs => c == b && matchPrefix ts bs
  | .any :: ts, b :: bs => b != 10 && matchPrefix ts bs

/-- `re.search(pat, hay) is not None` -/
def searchRe (toks : List Tok) : Str → Bool
  | [] => matchPrefix toks []
  | b :: bs => matchPrefix toks (b :: bs) || searchRe toks bs

inductive LookupOut where
  | rows (l : List LRow)
  | reError
  | unmodelled

/-- lookup as the tree computes it (names and references are regular expressions) -/
def lookup_code (rows : List LRow) (name : Str) (ref : Option Str) : LookupOut :=
  let q := lowerL name
  match regexSimple q 0 with
  | .error .bad => .reError
  | .error .unmodelled => .unmodelled
  | .ok tq =>
    match ref with
    | none => .rows (minimal q (candidates (searchRe tq) none rows))
    | some s =>
      -- `if self.reference:` – the empty string is falsy
      if s.isEmpty then .rows (minimal q (candidates (searchRe tq) none rows)) else
      match regexSimple (lowerL s) 0 with
      | .error .bad => .reError
      | .error .unmodelled => .unmodelled
      | .ok tr => .rows (minimal q (candidates (searchRe tq) (some (searchRe tr)) rows))

/-! ### certificate for the finite-table theorem (Props/C18 `catalog_unambiguous`)

The kernel evaluates call-by-name at roughly 0.2 ms per reduction step, so the check must cost a few
dozen steps per row and never walk over characters.
  * `PStr.key`: OR-ing 32 into every character (one `Nat.lor` on the packed numeral) identifies at least
    the strings that have the same lower-case form (`(lowerCode c) ||| 32 = c ||| 32`); that is all the
    argument needs – equal lower-case forms ⇒ equal keys (Props/C18 `key_congr`).
  * the generator emits a search tree `key ↦ verdict`; `rowCheck` looks up the keys of a row's `name`
    and `category_name` (two descents) and compares the verdict with the row.  The tree need not be
    well formed for soundness: `find` is a function of the key, nothing more is used. -/
def orMask (len : Nat) : Nat := 32 * ((strBase ^ len - 1) / (strBase - 1))
def PStr.key (p : PStr) : Nat := p.code ||| orMask p.len
/-- no digits beyond `len` -/
def PStr.wf (p : PStr) : Bool := decide (p.code < strBase ^ p.len)
def PStr.beq (p q : PStr) : Bool := p.len == q.len && p.code == q.code

inductive Verdict where
  /-- every row whose `name` or `category_name` has this key has exactly this name -/
  | uniq (nm : PStr)
  /-- no row's `name` has this key -/
  | free
  /-- key of a name on the exception list -/
  | amb
deriving Repr

inductive KTree where
  | leaf
  | node (l : KTree) (k : Nat) (v : Verdict) (r : KTree)

def KTree.find : KTree → Nat → Option Verdict
  | .leaf, _ => none
  | .node l k v r, q => if q < k then l.find q else if k < q then r.find q else some v

/-- `= t.find q`; the match only forces `q` to a numeral before the descent uses it ~12 times -/
def KTree.findF (t : KTree) (q : Nat) : Option Verdict :=
  match q with
  | 0 => t.find 0
  | n + 1 => t.find (Nat.succ n)

def rowCheck (t : KTree) (amb : List PStr) (r : Row) : Bool :=
  r.name.wf && r.cat.wf &&
  (match t.findF r.name.key with
   | some (.uniq nm) => nm.beq r.name
   | some .amb => amb.any (·.beq r.name)
   | _ => false) &&
  (match t.findF r.cat.key with
   | some (.uniq nm) => nm.beq r.name
   | some .free => true
   | some .amb => true
   | none => false)

/-- each listed exception is genuine: row `i` has the name, row `j` another name and score 0 -/
def ambCheck (rows : List Row) (amb : List PStr) (wit : List (Nat × Nat)) : Bool :=
  amb.length == wit.length &&
  (amb.zip wit).all fun aw =>
    match rows[aw.2.1]?, rows[aw.2.2]? with
    | some r, some x =>
      r.name.beq aw.1 && !(x.name.beq aw.1) && x.name.wf && aw.1.wf &&
        (lowerL x.cat.str == lowerL aw.1.str || lowerL x.name.str == lowerL aw.1.str)
    | _, _ => false

end Model.Mat
