import OptiModel.Model.Real
/-!
  Meridional restriction of the real tracer (x = 0, L = 0): the same expressions and the
  same branch order as `Model/Real.lean`, written for one ray in the y–z plane of the
  surface frame.  Used for the jet theorem (C05) and the closed-form stigmatic systems
  (C06); `Props/C05.lean` proves that it agrees with the 3-D model on meridional rays.
-/
namespace Model
open scoped Num
variable {α : Type} [Num α]

/-- meridional ray in the local frame of a surface -/
structure MRay (α : Type) where
  y : α
  z : α
  M : α
  N : α

/-- `StandardGeometry.distance` restricted to x = 0, L = 0 -/
def mdist (k R : α) (r : MRay α) : α :=
  let a := k * (r.N * r.N) + r.M * r.M + r.N * r.N
  let b := 2 * k * r.N * r.z + 2 * r.M * r.y - 2 * r.N * R + 2 * r.N * r.z
  let c := k * (r.z * r.z) - 2 * R * r.z + r.y * r.y + r.z * r.z
  selectRoot a b c r.z r.N

/-- `StandardGeometry.surface_normal`, y–z components -/
def mnormal (k R : α) (y : α) : α × α :=
  let denom := R * Num.sqrt (1 - (1 + k) * (y * y) / (R * R))
  let dfdy := y / denom
  let mag := Num.sqrt (dfdy * dfdy + 1)
  (dfdy / mag, (-1) / mag)

/-- `_align_surface_normal` in the plane -/
def malign (M N ny nz : α) : α × α × α :=
  let d0 := M * ny + N * nz
  let sgn := Num.sign d0
  (ny * sgn, nz * sgn, Num.abs d0)

/-- `RealRays.refract`, y–z components -/
def mrefract (n1 n2 : α) (M N ny nz : α) : α × α :=
  let u := n1 / n2
  let (ny, nz, d) := malign M N ny nz
  let root := Num.sqrt (1 - u * u * (1 - d * d))
  (u * M + ny * root - u * ny * d, u * N + nz * root - u * nz * d)

/-- `RealRays.reflect`, y–z components -/
def mreflect (M N ny nz : α) : α × α :=
  let (ny, nz, d) := malign M N ny nz
  (M - 2 * d * ny, N - 2 * d * nz)

/-- one refracting conic surface in its own frame; also returns the distance travelled -/
def mstep (k R n1 n2 : α) (r : MRay α) : MRay α × α :=
  let t := mdist k R r
  let y := r.y + t * r.M
  let z := r.z + t * r.N
  let (ny, nz) := mnormal k R y
  let (M', N') := mrefract n1 n2 r.M r.N ny nz
  (⟨y, z, M', N'⟩, t)

/-- one reflecting conic surface in its own frame -/
def mstepMirror (k R : α) (r : MRay α) : MRay α × α :=
  let t := mdist k R r
  let y := r.y + t * r.M
  let z := r.z + t * r.N
  let (ny, nz) := mnormal k R y
  let (M', N') := mreflect r.M r.N ny nz
  (⟨y, z, M', N'⟩, t)

/-- refraction at a plane (normal (0,0,1)) -/
def mstepPlane (n1 n2 : α) (r : MRay α) : MRay α × α :=
  let t := maskNeg (-r.z / r.N) (Num.zero / Num.zero)
  let y := r.y + t * r.M
  let z := r.z + t * r.N
  let (M', N') := mrefract n1 n2 r.M r.N 0 1
  (⟨y, z, M', N'⟩, t)

end Model
