import OptiModel.Model.Real
/-!
  Meridional restriction of the real tracer (x = 0, L = 0): the same expressions and the
  same branch order as `Model/Real.lean`, written for one ray in the y–z plane of the
  surface frame.  Used for the jet theorem (C05) and the closed-form stigmatic systems
  (C06); `Props/C05.lean` proves that it agrees with the 3-D model on meridional rays.
-/
namespace Model
open scoped Num
variable {α : Type} [Num α]

/-- meridional ray in the local frame of a surface -/
structure MRay (α : Type) where
  y : α
  z : α
  M : α
  N : α

/-- `StandardGeometry.distance` restricted to x = 0, L = 0 -/
def mdist (k R : α) (r : MRay α) : α :=
  let a := k * (r.N * r.N) + r.M * r.M + r.N * r.N
  let b := 2 * k * r.N * r.z + 2 * r.M * r.y - 2 * r.N * R + 2 * r.N * r.z
  let c := k * (r.z * r.z) - 2 * R * r.z + r.y * r.y + r.z * r.z
  selectRoot a b c r.z r.N

/-- `StandardGeometry.surface_normal`, y–z components -/
def mnormal (k R : α) (y : α) : α × α :=
  let denom := R * Num.sqrt (1 - (1 + k) * (y * y) / (R * R))
  let dfdy := y / denom
  let mag := Num.sqrt (dfdy * dfdy + 1)
  (dfdy / mag, (-1) / mag)

/-- `_align_surface_normal` in the plane -/
def malign (M N ny nz : α) : α × α × α :=
  let d0 := M * ny + N * nz
  let sgn := Num.sign d0
  (ny * sgn, nz * sgn, Num.abs d0)

/-- `RealRays.refract`, y–z components -/
def mrefract (n1 n2 : α) (M N ny nz : α) : α × α :=
  let u := n1 / n2
  let (ny, nz, d) := malign M N ny nz
  let root := Num.sqrt (1 - u * u * (1 - d * d))
  (u * M + ny * root - u * ny * d, u * N + nz * root - u * nz * d)

/-- `RealRays.reflect`, y–z components -/
def mreflect (M N ny nz : α) : α × α :=
  let (ny, nz, d) := malign M N ny nz
  (M - 2 * d * ny, N - 2 * d * nz)

/-- one refracting conic surface in its own frame; also returns the distance travelled -/
def mstep (k R n1 n2 : α) (r : MRay α) : MRay α × α :=
  let t := mdist k R r
  let y := r.y + t * r.M
  let z := r.z + t * r.N
  let (ny, nz) := mnormal k R y
  let (M', N') := mrefract n1 n2 r.M r.N ny nz
  (⟨y, z, M', N'⟩, t)

/-- one reflecting conic surface in its own frame -/
def mstepMirror (k R : α) (r : MRay α) : MRay α × α :=
  let t := mdist k R r
  let y := r.y + t * r.M
  let z := r.z + t * r.N
  let (ny, nz) := mnormal k R y
  let (M', N') := mreflect r.M r.N ny nz
  (⟨y, z, M', N'⟩, t)

/-- refraction at a plane (normal (0,0,1)) -/
def mstepPlane (n1 n2 : α) (r : MRay α) : MRay α × α :=
  let t := maskNeg (-r.z / r.N) (Num.zero / Num.zero)
  let y := r.y + t * r.M
  let z := r.z + t * r.N
  let (M', N') := mrefract n1 n2 r.M r.N 0 1
  (⟨y, z, M', N'⟩, t)

/-! ### whole-lens meridional trace (rotationally symmetric lens: every `cs` is a pure z-shift)

`mtrace` mirrors `traceLens`/`traceSurf` of `Model/Real.lean` for one meridional ray:
`Cs.localize` = `translate(0, 0, -cs.z)` (the rotations are skipped because `rx = ry = rz = 0`
is falsy), distance, propagate, interact (refract / reflect at the conic or plane normal;
nothing at the image surface), `Cs.globalize` = `translate(0, 0, +cs.z)`.  The recorded rays
are in global coordinates, as in `SurfaceGroup.trace`.  Intensity, OPD and the aperture clip
do not act on the geometry of the ray and are left out. -/

/-- reflection at a plane (normal (0,0,1)) -/
def mstepPlaneMirror (r : MRay α) : MRay α × α :=
  let t := maskNeg (-r.z / r.N) (Num.zero / Num.zero)
  let y := r.y + t * r.M
  let z := r.z + t * r.N
  let (M', N') := mreflect r.M r.N 0 1
  (⟨y, z, M', N'⟩, t)

/-- the image surface: a plane without interaction -/
def mstepImage (r : MRay α) : MRay α × α :=
  let t := maskNeg (-r.z / r.N) (Num.zero / Num.zero)
  (⟨r.y + t * r.M, r.z + t * r.N, r.M, r.N⟩, t)

inductive MKind where
  | object | conic | conicMirror | plane | planeMirror | image
deriving DecidableEq, Repr, Inhabited

/-- what the meridional tracer reads from one surface of a rotationally symmetric lens -/
structure MSurf (α : Type) where
  kind : MKind
  /-- `geometry.cs.z`: the vertex position -/
  z : α
  /-- conic constant (unused for planes) -/
  k : α
  /-- radius of curvature (unused for planes) -/
  R : α
  n1 : α
  n2 : α

/-- propagate + interact in the local frame of the surface -/
def mstepLocal (s : MSurf α) (rl : MRay α) : MRay α :=
  match s.kind with
  | .object => rl
  | .conic => (mstep s.k s.R s.n1 s.n2 rl).1
  | .conicMirror => (mstepMirror s.k s.R rl).1
  | .plane => (mstepPlane s.n1 s.n2 rl).1
  | .planeMirror => (mstepPlaneMirror rl).1
  | .image => (mstepImage rl).1

/-- `Surface._trace_real` for one meridional ray: localize, step, globalize
(`ObjectSurface.trace` only records the ray) -/
def mstepSurf (s : MSurf α) (r : MRay α) : MRay α :=
  match s.kind with
  | .object => r
  | _ =>
    let o := mstepLocal s ⟨r.y, r.z + (-s.z), r.M, r.N⟩
    ⟨o.y, o.z + s.z, o.M, o.N⟩

/-- `SurfaceGroup.trace` for one meridional ray: the per-surface records -/
def mtrace : MRay α → List (MSurf α) → List (MRay α)
  | _, [] => []
  | r, s :: ss => let r' := mstepSurf s r; r' :: mtrace r' ss

end Model
