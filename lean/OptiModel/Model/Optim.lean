import OptiModel.Model.Presc
/-!
  Optimisation layer: `optimization/variable/*.py` (nine variable types: value, update, scale,
  inverse_scale, bounds), `Operand.delta/fun`, `OptimizationProblem.sum_squared`,
  `OptimizerGeneric._fun` (update variables → update_optics → weighted squares, NaN → 1e10),
  the history stack `_x` and `undo`.

  scipy is not modelled: an optimiser is an arbitrary *oracle* which, given the start vector and the
  log of the evaluations made so far, names the next point at which `_fun` is called (or stops), and
  finally returns `(x*, f*)`.  All five front ends (`OptimizerGeneric`, `LeastSquares`,
  `DualAnnealing`, `DifferentialEvolution`, `CompensatorOptimizer.run`) are instances: only the
  in-process calls of `_fun` touch the lens (calls made in worker processes act on copies).

  Where the tree is wrong with respect to C14 two variants are kept:
    * `Variable.boundsCode` / `boundsSpec`   (F5: bounds are scaled even when `apply_scaling=False`);
    * `optimizeCode` / `optimizeSpec`        (F6: the lens is left at the last evaluated point);
    * `undoCode` / `undoSpec`                (F6: `undo` does not re-apply pickups and solves);
    * `lensUpdate` / `lensUpdateSpec`        (F-C14-2: a non-finite solve shift is applied and poisons
                                              the vertex positions for the rest of the run).
-/
namespace Model.Optim
open Model
open scoped Num
variable {α : Type} [Num α]

/-! ### the lens as the optimisation layer sees it -/

/-- prescription + the 2-D coefficient tables `geometry.c` of polynomial / Chebyshev surfaces
(indexed by surface; `[]` for every other surface) -/
structure Lens (α : Type) where
  presc : Presc α
  poly : List (List (List α)) := []

/-- the nine variable types of `Variable._get_variable` (tilt / decenter carry their axis) -/
inductive VKind where
  | radius
  | conic
  | thickness
  | tilt (x : Bool)
  | decenter (x : Bool)
  | index
  | asphere (i : Nat)
  | poly (i j : Nat)
  | cheb (i j : Nat)
deriving DecidableEq, Repr, Inhabited

/-- `10 ** n` (a Python int, converted exactly for n ≤ 22) -/
def pow10 (n : Nat) : α := Num.ofNat (10 ^ n)

/-- `VariableBehavior.scale` of each type -/
def VKind.scale : VKind → α → α
  | .radius, v => v / Num.ofNat 100 - 1
  | .thickness, v => v / Num.ofNat 10 - 1
  | .index, v => v - Num.ofRat 3 2
  | .asphere i, v => v * pow10 (4 + 2 * i)
  | _, v => v

/-- `VariableBehavior.inverse_scale` of each type -/
def VKind.invScale : VKind → α → α
  | .radius, s => (s + 1) * Num.ofNat 100
  | .thickness, s => (s + 1) * Num.ofNat 10
  | .index, s => s + Num.ofRat 3 2
  | .asphere i, s => s / pow10 (4 + 2 * i)
  | _, s => s

/-- entry `(i,j)` of a coefficient table; 0 outside (what `get_value` returns after padding) -/
def matGet (c : List (List α)) (i j : Nat) : α := (c.getD i []).getD j 0

/-- `c[i][j] = v` with the `np.pad` fallback of `PolynomialCoeffVariable.update_value` -/
def matSet (c : List (List α)) (i j : Nat) (v : α) : List (List α) :=
  let rows := max c.length (i + 1)
  let cols := max (c.headD []).length (j + 1)
  (List.range rows).map fun a => (List.range cols).map fun b =>
    if a = i ∧ b = j then v else matGet c a b

/-- the quantity in lens units (what `get_value` reads before scaling) -/
def VKind.rawGet (L : Lens α) (k : Nat) : VKind → α
  | .radius => (L.presc.surfs.map (·.radius)).getD k 0
  | .conic => (L.presc.surfs.map (·.conic)).getD k 0
  | .thickness => Model.thickness L.presc k
  | .tilt x => (L.presc.surfs.map fun s => if x then s.rx else s.ry).getD k 0
  | .decenter x => (L.presc.surfs.map fun s => if x then s.dx else s.dy).getD k 0
  | .index => (L.presc.surfs.map fun s => matN L.presc s.mPost).getD k 0
  | .asphere i => ((L.presc.surfs.map (·.coeffs)).getD k []).getD i 0
  | .poly i j => matGet (L.poly.getD k []) i j
  | .cheb i j => matGet (L.poly.getD k []) i j

/-- the setter each type calls (`Optic.set_radius`, …, direct assignment for tilt/decentre/tables) -/
def VKind.rawSet (L : Lens α) (k : Nat) (v : α) : VKind → Lens α
  | .radius => { L with presc := setRadius L.presc v k }
  | .conic => { L with presc := setConic L.presc v k }
  | .thickness => { L with presc := setThickness L.presc v k }
  | .tilt x => { L with presc := { L.presc with surfs := modifyAt L.presc.surfs k fun s =>
                    if x then { s with rx := v } else { s with ry := v } } }
  | .decenter x => { L with presc := { L.presc with surfs := modifyAt L.presc.surfs k fun s =>
                    if x then { s with dx := v } else { s with dy := v } } }
  | .index => { L with presc := setIndex L.presc v k }
  | .asphere i => { L with presc := setCoeff L.presc v k i }
  | .poly i j => { L with poly := modifyAt L.poly k fun c => matSet c i j v }
  | .cheb i j => { L with poly := modifyAt L.poly k fun c => matSet c i j v }

/-- `Variable(optic, type, min_val, max_val, apply_scaling, surface_number=…, …)` -/
structure Variable (α : Type) where
  kind : VKind
  surf : Nat
  scaling : Bool := true
  minVal : Option α := none
  maxVal : Option α := none

/-- `Variable.value` -/
def Variable.value (v : Variable α) (L : Lens α) : α :=
  let raw := v.kind.rawGet L v.surf
  if v.scaling then v.kind.scale raw else raw

/-- `Variable.update` -/
def Variable.update (v : Variable α) (L : Lens α) (x : α) : Lens α :=
  v.kind.rawSet L v.surf (if v.scaling then v.kind.invScale x else x)

/-- `Variable.bounds` as the tree computes it: scaled unconditionally (F5) -/
def Variable.boundsCode (v : Variable α) : Option α × Option α :=
  (v.minVal.map v.kind.scale, v.maxVal.map v.kind.scale)

/-- `Variable.bounds` as C14 requires it: in the units of `value` -/
def Variable.boundsSpec (v : Variable α) : Option α × Option α :=
  if v.scaling then (v.minVal.map v.kind.scale, v.maxVal.map v.kind.scale) else (v.minVal, v.maxVal)

/-! ### merit function (operands are abstract functions of the lens state) -/

structure Operand (σ α : Type) where
  value : σ → α
  target : α
  weight : α

/-- `Operand.delta` -/
def Operand.delta {σ : Type} (op : Operand σ α) (s : σ) : α := op.value s - op.target
/-- `Operand.fun` -/
def Operand.fn {σ : Type} (op : Operand σ α) (s : σ) : α := op.weight * op.delta s

/-- `np.sum` of a short array: left to right from 0 -/
def sumList (l : List α) : α := l.foldl (· + ·) 0

/-- `np.sum(np.array([op.fun() …])**2)` from the three columns weight, value, target -/
def meritOf (wvt : List (α × α × α)) : α :=
  sumList (wvt.map fun (w, v, t) => let f := w * (v - t); f * f)

/-- `OptimizationProblem.sum_squared` -/
def sumSquared {σ : Type} (ops : List (Operand σ α)) (s : σ) : α :=
  meritOf (ops.map fun op => (op.weight, op.value s, op.target))

/-- `np.isnan` -/
def isNaN (r : α) : Bool := !(Num.le r r)
/-- the literal `1e10` -/
def big : α := Num.ofNat 10000000000
/-- the value `_fun` returns for a merit `r` -/
def guardNaN (r : α) : α := if isNaN r then big else r

/-! ### the protocol, generic in the lens state `σ` -/

/-- a variable as a handle on the state -/
structure Handle (σ α : Type) where
  get : σ → α
  set : σ → α → σ

structure Problem (σ α : Type) where
  vars : List (Handle σ α)
  /-- `OptimizationProblem.update_optics` -/
  upd : σ → σ
  ops : List (Operand σ α)

variable {σ : Type}

/-- `[var.value for var in problem.variables]` -/
def values (pb : Problem σ α) (s : σ) : List α := pb.vars.map (·.get s)

/-- `for idvar, var in enumerate(variables): var.update(x[idvar])` -/
def setAll (vars : List (Handle σ α)) (x : List α) (s : σ) : σ :=
  (vars.zip x).foldl (fun s p => p.1.set s p.2) s

/-- state part of `_fun(x)`: update the variables, then `update_optics` -/
def applyX (pb : Problem σ α) (x : List α) (s : σ) : σ := pb.upd (setAll pb.vars x s)

/-- value part of `_fun(x)`, computed on the updated state -/
def funVal (pb : Problem σ α) (s : σ) : α := guardNaN (sumSquared pb.ops s)

/-- `OptimizerGeneric._fun` -/
def funEval (pb : Problem σ α) (s : σ) (x : List α) : σ × α :=
  let s' := applyX pb x s
  (s', funVal pb s')

/-- lens after `_fun` has been called at the points `pts` in turn -/
def evalPts (pb : Problem σ α) (s : σ) (pts : List (List α)) : σ :=
  pts.foldl (fun s x => applyX pb x s) s

/-- an optimiser: given `x0` and the log of evaluations so far (oldest first) the next point, or stop;
finally the returned `(x*, f*)` -/
structure Oracle (α : Type) where
  next : List α → List (List α × α) → Option (List α)
  result : List α → List (List α × α) → List α × α
  fuel : Nat

def runOracle (pb : Problem σ α) (o : Oracle α) (x0 : List α) :
    Nat → σ → List (List α × α) → σ × List (List α × α)
  | 0, s, log => (s, log)
  | n + 1, s, log =>
    match o.next x0 log with
    | none => (s, log)
    | some x =>
      let r := funEval pb s x
      runOracle pb o x0 n r.1 (log ++ [(x, r.2)])

/-- optimiser object: the lens it works on and the stack `_x` (most recent first) -/
structure OptState (σ α : Type) where
  lens : σ
  hist : List (List α) := []

/-- `optimize()` as the tree does it: push `x0`, let scipy call `_fun`, return its result -/
def optimizeCode (pb : Problem σ α) (o : Oracle α) (st : OptState σ α) : OptState σ α × (List α × α) :=
  let x0 := values pb st.lens
  let r := runOracle pb o x0 o.fuel st.lens []
  ({ lens := r.1, hist := x0 :: st.hist }, o.result x0 r.2)

/-- `optimize()` as C14 requires it: additionally put the lens at the returned vector -/
def optimizeSpec (pb : Problem σ α) (o : Oracle α) (st : OptState σ α) : OptState σ α × (List α × α) :=
  let x0 := values pb st.lens
  let r := runOracle pb o x0 o.fuel st.lens []
  let res := o.result x0 r.2
  ({ lens := applyX pb res.1 r.1, hist := x0 :: st.hist }, res)

/-- `undo()` as the tree does it: variables back, no `update_optics` -/
def undoCode (pb : Problem σ α) (st : OptState σ α) : OptState σ α :=
  match st.hist with
  | [] => st
  | x0 :: h => { lens := setAll pb.vars x0 st.lens, hist := h }

/-- `undo()` as C14 requires it: variables back and pickups / solves re-applied -/
def undoSpec (pb : Problem σ α) (st : OptState σ α) : OptState σ α :=
  match st.hist with
  | [] => st
  | x0 :: h => { lens := applyX pb x0 st.lens, hist := h }

/-- a user-level step on an optimiser object -/
inductive OStep (α : Type) where
  | opt (o : Oracle α)
  | undo

def stepSpec (pb : Problem σ α) (st : OptState σ α) : OStep α → OptState σ α
  | .opt o => (optimizeSpec pb o st).1
  | .undo => undoSpec pb st

def stepCode (pb : Problem σ α) (st : OptState σ α) : OStep α → OptState σ α
  | .opt o => (optimizeCode pb o st).1
  | .undo => undoCode pb st

/-- the oracle that replays a recorded run: evaluates `pts` in order, returns `res` -/
def replayOracle (pts : List (List α)) (res : List α × α) : Oracle α :=
  { next := fun _ log => pts[log.length]?, result := fun _ _ => res, fuel := pts.length }

/-! ### the concrete problem on a `Lens` -/

def Variable.toHandle (v : Variable α) : Handle (Lens α) α := ⟨v.value, v.update⟩

/-- `Optic.update` on the lens -/
def lensUpdate (L : Lens α) : Lens α := { L with presc := update L.presc }

def lensProblem (vars : List (Variable α)) (ops : List (Operand (Lens α) α)) : Problem (Lens α) α :=
  { vars := vars.map Variable.toHandle, upd := lensUpdate, ops := ops }

/-! ### F-C14-2: a non-finite solve shift poisons the vertex positions for good

`MarginalRayHeightSolve.apply` (`Presc.applySolve`, the code variant) adds the shift whatever it is; once a
probe of the optimiser makes it NaN/inf every later `set_thickness` / solve only adds to NaN.  The spec
variant does not apply a shift that is not finite. -/

/-- `np.isfinite` -/
def isFinite (x : α) : Bool := Num.lt (Num.abs x) Num.inf

def applySolveSpec (P : Presc α) (s : Solve α) : Presc α :=
  let rs := marginalRay (toPSys P)
  let ya := nth (ys rs) s.idx
  let ua := nth (us rs) (s.idx - 1)
  let offset := (s.height - ya) / ua
  if isFinite offset then
    { P with surfs := P.surfs.mapIdx fun i t => if s.idx ≤ i then { t with z := t.z + offset } else t }
  else P

/-- `Optic.update` with the guarded solve -/
def updateSpec (P : Presc α) : Presc α :=
  let P := P.pickups.foldl applyPickup P
  P.solves.foldl applySolveSpec P

/-- one public call of the prescription state machine, solves guarded -/
def stepGuarded (P : Presc α) : Op α → Except String (Presc α)
  | .solveAdd s => .ok (let P' := applySolveSpec P s; { P' with solves := P'.solves ++ [s] })
  | .update => .ok (updateSpec P)
  | op => step P op

def runOpsGuarded (P : Presc α) (ops : List (Op α)) : Presc α :=
  ops.foldl (fun P op => match stepGuarded P op with | .ok P' => P' | .error _ => P) P

def lensUpdateSpec (L : Lens α) : Lens α := { L with presc := updateSpec L.presc }

def lensProblemGuarded (vars : List (Variable α)) (ops : List (Operand (Lens α) α)) : Problem (Lens α) α :=
  { vars := vars.map Variable.toHandle, upd := lensUpdateSpec, ops := ops }

end Model.Optim
