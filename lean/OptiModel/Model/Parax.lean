import OptiModel.Num
/-!
  Paraxial model: `Surface._trace_paraxial`, `ImageSurface._trace_paraxial`,
  `ObjectSurface.trace`, `SurfaceGroup.trace/inverted`, and every public method of
  `optiland.paraxial.Paraxial`, operation for operation.

  Encoding of planes: `Plane.radius = np.inf`; over `Float` the carrier value is `inf`
  and `(n2-n1)/inf = 0`.  Over ℝ a plane is encoded as `r = 0` (Mathlib's `x/0 = 0`), so
  that the same expression gives power 0; see `Props/C04.lean`.
-/
namespace Model
open scoped Num
variable {α : Type} [Num α]

inductive SKind where
  | object | standard | image
deriving DecidableEq, Repr, Inhabited

/-- what the paraxial tracer reads from one surface at one wavelength -/
structure PSurf (α : Type) where
  kind : SKind
  /-- `geometry.cs.y` (decentre; 0 for axially symmetric lenses) -/
  dy : α
  /-- `geometry.cs.z` -/
  z : α
  /-- `geometry.radius` -/
  r : α
  /-- `material_pre.n(w)` -/
  n1 : α
  /-- `material_post.n(w)` -/
  n2 : α
  refl : Bool
  stop : Bool

structure PRay (α : Type) where
  y : α
  u : α
  z : α

/-- `Surface._trace_paraxial` -/
def pstepStd (ray : PRay α) (s : PSurf α) : PRay α :=
  -- localize: translate(-x, -y, -z)
  let y := ray.y - s.dy
  let z := ray.z - s.z
  -- propagate to this surface
  let t := - z
  let z := z + t
  let y := y + t * ray.u
  let u := if s.refl then - ray.u - 2 * y / s.r
           else
             let power := (s.n2 - s.n1) / s.r
             1 / s.n2 * (s.n1 * ray.u - y * power)
  -- globalize
  ⟨y + s.dy, u, z + s.z⟩

/-- `ImageSurface._trace_paraxial`: localize, propagate, record (no refraction, no globalize) -/
def pstepImg (ray : PRay α) (s : PSurf α) : PRay α :=
  let y := ray.y - s.dy
  let z := ray.z - s.z
  let t := - z
  ⟨y + t * ray.u, ray.u, z + t⟩

/-- `surface.trace(rays)` for paraxial rays; the object surface only records -/
def pstep (ray : PRay α) (s : PSurf α) : PRay α :=
  match s.kind with
  | .object => ray
  | .standard => pstepStd ray s
  | .image => pstepImg ray s

/-- `SurfaceGroup.trace`: the list of recorded ray states, one per traced surface -/
def ptrace : PRay α → List (PSurf α) → List (PRay α)
  | _, [] => []
  | r, s :: ss => let r' := pstep r s; r' :: ptrace r' ss

/-- `SurfaceGroup.inverted` -/
def inverted (ss : List (PSurf α)) : List (PSurf α) :=
  match ss.getLast? with
  | none => []
  | some last =>
    ss.reverse.map fun s =>
      { s with r := s.r * (-1), z := last.z - s.z, n1 := s.n2, n2 := s.n1 }

inductive ApType where
  | EPD | imageFNO | objectNA
deriving DecidableEq, Repr, Inhabited

inductive FieldType where
  | angle | objectHeight
deriving DecidableEq, Repr, Inhabited

/-- everything `Paraxial` reads from the `Optic` at the primary wavelength -/
structure PSys (α : Type) where
  surfs : List (PSurf α)
  apType : ApType
  apValue : α
  fieldType : FieldType
  /-- `fields.max_y_field` -/
  maxYField : α
  /-- `object_surface.is_infinite` -/
  objInf : Bool

def stopIndex (ss : List (PSurf α)) : Option Nat := ss.findIdx? (·.stop)

def ys (rs : List (PRay α)) : List α := rs.map (·.y)
def us (rs : List (PRay α)) : List α := rs.map (·.u)
def first (l : List α) : α := l.headD 0
def last (l : List α) : α := l.getLastD 0
def nth (l : List α) (i : Nat) : α := l.getD i 0
def posOf (ss : List (PSurf α)) (i : Nat) : α := ((ss.map (·.z)).getD i 0)

/-- `Paraxial._trace_generic` -/
def traceGeneric (ss : List (PSurf α)) (y u z : α) (reverse : Bool) (skip : Nat) : List (PRay α) :=
  let surfaces := if reverse then inverted ss else ss
  ptrace ⟨y, u, z⟩ (surfaces.drop skip)

def tenth : α := Num.ofRat 1 10

def f2raw (S : PSys α) : α :=
  let zs := posOf S.surfs 1 - 1
  let rs := traceGeneric S.surfs 1 0 zs false 0
  Num.neg (first (ys rs)) / last (us rs)

/-- `Paraxial.f2` (signed, after the repair of F8) -/
def f2 (S : PSys α) : α := f2raw S

def F2 (S : PSys α) : α :=
  let zs := posOf S.surfs 1 - 1
  let rs := traceGeneric S.surfs 1 0 zs false 0
  Num.neg (last (ys rs)) / last (us rs)

def f1 (S : PSys α) : α :=
  let zs := posOf (inverted S.surfs) 0 - 1
  let rs := traceGeneric S.surfs 1 0 zs true 0
  first (ys rs) / last (us rs)

def F1 (S : PSys α) : α :=
  let zs := posOf (inverted S.surfs) 0 - 1
  let rs := traceGeneric S.surfs 1 0 zs true 0
  last (ys rs) / last (us rs)

def P1 (S : PSys α) : α := F1 S - f1 S
def P2 (S : PSys α) : α := F2 S - f2 S
def N1 (S : PSys α) : α := P1 S + f1 S + f2 S
def N2 (S : PSys α) : α := P2 S + f1 S + f2 S

def EPL (S : PSys α) : α :=
  match stopIndex S.surfs with
  | some 0 => posOf S.surfs 1
  | _ =>
    let inv := inverted S.surfs
    let si := (stopIndex inv).getD 0
    let z0 := posOf inv si
    let rs := traceGeneric S.surfs 0 tenth z0 true (si + 1)
    last (ys rs) / last (us rs)

def EPD (S : PSys α) : α :=
  match S.apType with
  | .EPD => S.apValue
  | .imageFNO => Num.abs (f2 S) / S.apValue
  | .objectNA =>
    let objZ := posOf S.surfs 0
    let n0 := (S.surfs.map (·.n2)).headD 0
    let u0 := Num.asin (S.apValue / n0)
    let z := EPL S - objZ
    2 * z * Num.tan u0

def XPL (S : PSys α) : α :=
  let si := (stopIndex S.surfs).getD 0
  let n := S.surfs.length
  if si + 2 = n then
    posOf S.surfs (n - 2) - posOf S.surfs (n - 1)
  else
    let zs := posOf S.surfs si
    let rs := traceGeneric S.surfs 0 tenth zs false (si + 1)
    Num.neg (last (ys rs)) / last (us rs)

/-- `Paraxial.marginal_ray` -/
def marginalRay (S : PSys α) : List (PRay α) :=
  let epd := EPD S
  if S.objInf then
    let objZ := posOf S.surfs 1 - Num.ofRat 10 1
    traceGeneric S.surfs (epd / 2) 0 objZ false 0
  else
    let objZ := posOf S.surfs 0
    let z := EPL S - objZ
    traceGeneric S.surfs 0 (epd / (2 * z)) objZ false 0

def XPD (S : PSys α) : α :=
  let rs := marginalRay S
  let yi := last (ys rs)
  let ui := last (us rs)
  let xpl := XPL S
  2 * (yi + ui * xpl)

def FNO (S : PSys α) : α :=
  match S.apType with
  | .imageFNO => S.apValue
  | _ => Num.abs (f2 S) / EPD S

/-- `optic.n()`: `material_post.n` of every surface -/
def nList (S : PSys α) : List α := S.surfs.map (·.n2)

/-- `(-1)**num_mirrors`: every reflecting surface reverses the sign of the index for the light behind it -/
def mirrorSign (ss : List (PSurf α)) : α :=
  ss.foldl (fun σ s => if s.refl then Num.neg σ else σ) Num.one

/-- `Paraxial.magnification`: `n[0]*ua[0] / ((-1)**num_mirrors * n[-1] * ua[-1])` -/
def magnification (S : PSys α) : α :=
  let ua := us (marginalRay S)
  let n := nList S
  first n * first ua / (mirrorSign S.surfs * last n * last ua)

def deg2rad (x : α) : α := x * (Num.pi / Num.ofRat 180 1)

/-- `Paraxial.chief_ray` -/
def chiefRay (S : PSys α) : List (PRay α) :=
  let inv := inverted S.surfs
  let si := (stopIndex inv).getD 0
  let z0 := posOf inv si
  let rs := traceGeneric S.surfs 0 tenth z0 true (si + 1)
  let u1 := match S.fieldType with
    | .objectHeight =>
      let t := posOf S.surfs 1 - posOf S.surfs 0
      tenth * S.maxYField / (last (ys rs) + last (us rs) * t)
    | .angle => tenth * Num.tan (deg2rad S.maxYField) / last (us rs)
  let rn := traceGeneric S.surfs 0 u1 z0 true (si + 1)
  let zf := posOf S.surfs 1
  traceGeneric S.surfs (- last (ys rn)) (last (us rn)) zf false 0

def invariant (S : PSys α) : α :=
  let a := marginalRay S
  let b := chiefRay S
  let n := nList S
  nth (ys b) 1 * nth n 1 * nth (us a) 1 - nth (ys a) 1 * nth n 1 * nth (us b) 1

end Model
