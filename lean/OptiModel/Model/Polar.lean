import OptiModel.Num
/-!
  Polarization model (property C17): `jones.py` (`JonesFresnel` and all `Jones*` elements),
  `coatings.py` (`BaseCoating._compute_aoi`, `FresnelCoating.interact`),
  `rays/polarized_rays.py` (`update`, `_get_3d_electric_field`, `get_output_field`,
  `update_intensity`), `rays/polarization_state.py` (`PolarizationState`, `create_polarization`)
  — operation for operation as the NumPy code evaluates them.

  Complex numbers are pairs `(re, im)` over the carrier; `exp(1j*x)` is `cis x = (cos x, sin x)`,
  so every theorem about the model is a real identity.  No Mathlib import (linked into `optidrv`).
-/
namespace Model.Polar
open scoped Num
variable {α : Type} [Num α]

/-! ### complex numbers as pairs -/

structure Cx (α : Type) where
  re : α
  im : α
deriving Inhabited

namespace Cx
def zero : Cx α := ⟨0, 0⟩
def one : Cx α := ⟨1, 0⟩
/-- `1j` -/
def I : Cx α := ⟨0, 1⟩
/-- real → complex (`astype(complex)`, or NumPy's promotion of a real operand) -/
def ofReal (x : α) : Cx α := ⟨x, 0⟩
def add (a b : Cx α) : Cx α := ⟨a.re + b.re, a.im + b.im⟩
def sub (a b : Cx α) : Cx α := ⟨a.re - b.re, a.im - b.im⟩
def neg (a : Cx α) : Cx α := ⟨Num.neg a.re, Num.neg a.im⟩
def mul (a b : Cx α) : Cx α := ⟨a.re * b.re - a.im * b.im, a.re * b.im + a.im * b.re⟩
def conj (a : Cx α) : Cx α := ⟨a.re, Num.neg a.im⟩
/-- complex × real (the imaginary part of the real operand is an exact zero) -/
def smul (a : Cx α) (x : α) : Cx α := ⟨a.re * x, a.im * x⟩
/-- real × complex -/
def rmul (x : α) (a : Cx α) : Cx α := ⟨x * a.re, x * a.im⟩
/-- `np.exp(1j * x)` -/
def cis (x : α) : Cx α := ⟨Num.cos x, Num.sin x⟩
/-- `np.abs(z)` -/
def abs (a : Cx α) : α := Num.sqrt (a.re * a.re + a.im * a.im)
/-- `|z|²` (specification side) -/
def abs2 (a : Cx α) : α := a.re * a.re + a.im * a.im
/-- NumPy's complex division (Smith's algorithm, `loops.c.src`) -/
def div (a b : Cx α) : Cx α :=
  if Num.le (Num.abs b.im) (Num.abs b.re) then
    let rat := b.im / b.re
    let scl := 1 / (b.re + b.im * rat)
    ⟨(a.re + a.im * rat) * scl, (a.im - a.re * rat) * scl⟩
  else
    let rat := b.re / b.im
    let scl := 1 / (b.im + b.re * rat)
    ⟨(a.re * rat + a.im) * scl, (a.im * rat - a.re) * scl⟩
/-- `np.sqrt(x.astype(complex))` for a real `x`: principal root, on the positive imaginary
axis for negative `x` (total internal reflection) -/
def sqrtReal (x : α) : Cx α :=
  if Num.le 0 x then ⟨Num.sqrt x, 0⟩ else ⟨0, Num.sqrt (Num.neg x)⟩
end Cx

/-! ### 3-vectors and 3×3 matrices -/

structure V3 (β : Type) where
  x : β
  y : β
  z : β
deriving Inhabited

structure M3 (β : Type) where
  a00 : β
  a01 : β
  a02 : β
  a10 : β
  a11 : β
  a12 : β
  a20 : β
  a21 : β
  a22 : β
deriving Inhabited

/-- `np.cross(a, b)` -/
def cross (a b : V3 α) : V3 α :=
  ⟨a.y * b.z - a.z * b.y, a.z * b.x - a.x * b.z, a.x * b.y - a.y * b.x⟩

def dot (a b : V3 α) : α := a.x * b.x + a.y * b.y + a.z * b.z

/-- `np.linalg.norm(v, axis=1)` -/
def vnorm (a : V3 α) : α := Num.sqrt (a.x * a.x + a.y * a.y + a.z * a.z)

/-- `v /= m` -/
def V3.sdiv (a : V3 α) (m : α) : V3 α := ⟨a.x / m, a.y / m, a.z / m⟩

/-- `np.array([1.0, 0.0, 0.0])` -/
def xhat : V3 α := ⟨1, 0, 0⟩

def M3.one : M3 α := ⟨1, 0, 0, 0, 1, 0, 0, 0, 1⟩

/-- `np.stack((a, b, c), axis=1)`: the vectors are the rows -/
def M3.ofRows (a b c : V3 α) : M3 α := ⟨a.x, a.y, a.z, b.x, b.y, b.z, c.x, c.y, c.z⟩
/-- `np.stack((a, b, c), axis=2)`: the vectors are the columns -/
def M3.ofCols (a b c : V3 α) : M3 α := ⟨a.x, b.x, c.x, a.y, b.y, c.y, a.z, b.z, c.z⟩

/-- `np.matmul` on real 3×3 matrices -/
def M3.mul (a b : M3 α) : M3 α :=
  ⟨a.a00 * b.a00 + a.a01 * b.a10 + a.a02 * b.a20,
   a.a00 * b.a01 + a.a01 * b.a11 + a.a02 * b.a21,
   a.a00 * b.a02 + a.a01 * b.a12 + a.a02 * b.a22,
   a.a10 * b.a00 + a.a11 * b.a10 + a.a12 * b.a20,
   a.a10 * b.a01 + a.a11 * b.a11 + a.a12 * b.a21,
   a.a10 * b.a02 + a.a11 * b.a12 + a.a12 * b.a22,
   a.a20 * b.a00 + a.a21 * b.a10 + a.a22 * b.a20,
   a.a20 * b.a01 + a.a21 * b.a11 + a.a22 * b.a21,
   a.a20 * b.a02 + a.a21 * b.a12 + a.a22 * b.a22⟩

def M3.transpose {β : Type} (a : M3 β) : M3 β :=
  ⟨a.a00, a.a10, a.a20, a.a01, a.a11, a.a21, a.a02, a.a12, a.a22⟩

/-- real matrix × real vector -/
def M3.mulVec (a : M3 α) (v : V3 α) : V3 α :=
  ⟨a.a00 * v.x + a.a01 * v.y + a.a02 * v.z,
   a.a10 * v.x + a.a11 * v.y + a.a12 * v.z,
   a.a20 * v.x + a.a21 * v.y + a.a22 * v.z⟩

/-- promotion of a real matrix to complex -/
def M3.toC (a : M3 α) : M3 (Cx α) :=
  ⟨.ofReal a.a00, .ofReal a.a01, .ofReal a.a02, .ofReal a.a10, .ofReal a.a11, .ofReal a.a12,
   .ofReal a.a20, .ofReal a.a21, .ofReal a.a22⟩

/-- `np.matmul` / `einsum` on complex 3×3 matrices -/
def M3.cmul (a b : M3 (Cx α)) : M3 (Cx α) :=
  ⟨((a.a00.mul b.a00).add (a.a01.mul b.a10)).add (a.a02.mul b.a20),
   ((a.a00.mul b.a01).add (a.a01.mul b.a11)).add (a.a02.mul b.a21),
   ((a.a00.mul b.a02).add (a.a01.mul b.a12)).add (a.a02.mul b.a22),
   ((a.a10.mul b.a00).add (a.a11.mul b.a10)).add (a.a12.mul b.a20),
   ((a.a10.mul b.a01).add (a.a11.mul b.a11)).add (a.a12.mul b.a21),
   ((a.a10.mul b.a02).add (a.a11.mul b.a12)).add (a.a12.mul b.a22),
   ((a.a20.mul b.a00).add (a.a21.mul b.a10)).add (a.a22.mul b.a20),
   ((a.a20.mul b.a01).add (a.a21.mul b.a11)).add (a.a22.mul b.a21),
   ((a.a20.mul b.a02).add (a.a21.mul b.a12)).add (a.a22.mul b.a22)⟩

/-- complex matrix × complex vector -/
def M3.cmulVec (a : M3 (Cx α)) (v : V3 (Cx α)) : V3 (Cx α) :=
  ⟨((a.a00.mul v.x).add (a.a01.mul v.y)).add (a.a02.mul v.z),
   ((a.a10.mul v.x).add (a.a11.mul v.y)).add (a.a12.mul v.z),
   ((a.a20.mul v.x).add (a.a21.mul v.y)).add (a.a22.mul v.z)⟩

/-- real matrix × complex vector -/
def M3.rmulVec (a : M3 α) (v : V3 (Cx α)) : V3 (Cx α) :=
  ⟨((Cx.rmul a.a00 v.x).add (Cx.rmul a.a01 v.y)).add (Cx.rmul a.a02 v.z),
   ((Cx.rmul a.a10 v.x).add (Cx.rmul a.a11 v.y)).add (Cx.rmul a.a12 v.z),
   ((Cx.rmul a.a20 v.x).add (Cx.rmul a.a21 v.y)).add (Cx.rmul a.a22 v.z)⟩

/-! ### `BaseCoating._compute_aoi` -/

/-- `np.clip(x, -1, 1)` (NaN passes through) -/
def clip1 (x : α) : α :=
  if Num.lt 1 x then 1 else if Num.lt x (Num.neg 1) then Num.neg 1 else x

/-- `_compute_aoi(rays, nx, ny, nz)` with `(L0, M0, N0) = k0` -/
def computeAoi (n k0 : V3 α) : α :=
  let d := Num.abs (n.x * k0.x + n.y * k0.y + n.z * k0.z)
  Num.acos (clip1 d)

/-! ### `JonesFresnel.calculate_matrix` -/

/-- the three diagonal entries `[0,0]` (s), `[1,1]` (p), `[2,2]` of the Fresnel Jones matrix;
every other entry is zero -/
structure FresnelJ (α : Type) where
  s : Cx α
  p : Cx α
  k : Cx α

/-- `root = sqrt(((n2/n1)**2 - sin(aoi)**2).astype(complex))` -/
def fresnelRoot (n1 n2 aoi : α) : Cx α :=
  let n := n2 / n1
  let sn := Num.sin aoi
  Cx.sqrtReal (n * n - sn * sn)

/-- amplitude reflection coefficient `s` of the code (`r_s`) -/
def fresnelRs (n1 n2 aoi : α) : Cx α :=
  let c := Cx.ofReal (Num.cos aoi)
  let root := fresnelRoot n1 n2 aoi
  (c.sub root).div (c.add root)

/-- amplitude reflection coefficient `p` of the code (`r_p`; the matrix holds `-p`) -/
def fresnelRp (n1 n2 aoi : α) : Cx α :=
  let n := n2 / n1
  let nc := Cx.ofReal (n * n * Num.cos aoi)
  let root := fresnelRoot n1 n2 aoi
  (nc.sub root).div (nc.add root)

/-- amplitude transmission coefficient `s` of the code (`t_s`) -/
def fresnelTs (n1 n2 aoi : α) : Cx α :=
  let c := Num.cos aoi
  let root := fresnelRoot n1 n2 aoi
  (Cx.ofReal (2 * c)).div ((Cx.ofReal c).add root)

/-- amplitude transmission coefficient `p` of the code (`t_p`) -/
def fresnelTp (n1 n2 aoi : α) : Cx α :=
  let c := Num.cos aoi
  let n := n2 / n1
  let root := fresnelRoot n1 n2 aoi
  (Cx.ofReal (2 * n * c)).div ((Cx.ofReal (n * n * c)).add root)

/-- `JonesFresnel(material_pre, material_post).calculate_matrix(rays, reflect, aoi)` with
`n1 = material_pre.n(w)`, `n2 = material_post.n(w)` -/
def fresnel (n1 n2 aoi : α) (reflect : Bool) : FresnelJ α :=
  if reflect then
    ⟨fresnelRs n1 n2 aoi, (fresnelRp n1 n2 aoi).neg, Cx.ofReal (Num.neg 1)⟩
  else
    ⟨fresnelTs n1 n2 aoi, fresnelTp n1 n2 aoi, Cx.ofReal 1⟩

def FresnelJ.toM3 (j : FresnelJ α) : M3 (Cx α) :=
  ⟨j.s, .zero, .zero, .zero, j.p, .zero, .zero, .zero, j.k⟩

/-! ### Jones elements (2×2 block; the 3×3 matrix is padded with `[2,2] = 1`) -/

/-- 2×2 block `[[a, b], [c, d]]` -/
structure J2 (β : Type) where
  a : β
  b : β
  c : β
  d : β

def J2.toM3 (j : J2 (Cx α)) : M3 (Cx α) :=
  ⟨j.a, j.b, .zero, j.c, j.d, .zero, .zero, .zero, .one⟩

def half : α := Num.ofRat 1 2

def polarizerH : J2 (Cx α) := ⟨.ofReal 1, .zero, .zero, .ofReal 0⟩
def polarizerV : J2 (Cx α) := ⟨.ofReal 0, .zero, .zero, .ofReal 1⟩
def polarizerL45 : J2 (Cx α) := ⟨.ofReal half, .ofReal half, .ofReal half, .ofReal half⟩
def polarizerL135 : J2 (Cx α) :=
  ⟨.ofReal half, .ofReal (Num.neg half), .ofReal (Num.neg half), .ofReal half⟩
/-- `[[0.5, 0.5j], [-0.5j, 0.5]]` -/
def polarizerRCP : J2 (Cx α) := ⟨.ofReal half, ⟨0, half⟩, ⟨0, Num.neg half⟩, .ofReal half⟩
/-- `[[0.5, -0.5j], [0.5j, 0.5]]` -/
def polarizerLCP : J2 (Cx α) := ⟨.ofReal half, ⟨0, Num.neg half⟩, ⟨0, half⟩, .ofReal half⟩

/-- `JonesLinearDiattenuator.calculate_matrix` as the tree computes it: the off-diagonal entry is
`t_max - t_min*cos*sin` (precedence slip, finding F14 / F-C17-1) -/
def diattenuator_code (tmin tmax theta : α) : J2 (Cx α) :=
  let c := Num.cos theta
  let s := Num.sin theta
  let j00 := tmax * (c * c) + tmin * (s * s)
  let j0x := tmax - tmin * c * s
  let j11 := tmax * (s * s) + tmin * (c * c)
  ⟨.ofReal j00, .ofReal j0x, .ofReal j0x, .ofReal j11⟩

/-- what the property requires: the rotation of `diag(t_max, t_min)`: off-diagonal
`(t_max - t_min)*cos*sin` -/
def diattenuator_spec (tmin tmax theta : α) : J2 (Cx α) :=
  let c := Num.cos theta
  let s := Num.sin theta
  let j00 := tmax * (c * c) + tmin * (s * s)
  let j0x := (tmax - tmin) * c * s
  let j11 := tmax * (s * s) + tmin * (c * c)
  ⟨.ofReal j00, .ofReal j0x, .ofReal j0x, .ofReal j11⟩

/-- `JonesLinearRetarder(retardance = d, theta = t).calculate_matrix` -/
def retarder (d t : α) : J2 (Cx α) :=
  let em : Cx α := Cx.cis (Num.neg d / 2)      -- np.exp(-1j * d / 2)
  let ep : Cx α := Cx.cis (d / 2)              -- np.exp(1j * d / 2)
  let c := Num.cos t
  let s := Num.sin t
  let c2 := c * c
  let s2 := s * s
  let j00 := (em.smul c2).add (ep.smul s2)
  let j0x : Cx α := ⟨0, Num.neg (Num.sin (d / 2)) * Num.sin (2 * t)⟩   -- -1j*sin(d/2)*sin(2t)
  let j11 := (ep.smul c2).add (em.smul s2)
  ⟨j00, j0x, j0x, j11⟩

/-- `JonesQuarterWaveRetarder(theta)` -/
def quarterWave (t : α) : J2 (Cx α) := retarder (Num.pi / 2) t
/-- `JonesHalfWaveRetarder(theta)` -/
def halfWave (t : α) : J2 (Cx α) := retarder Num.pi t

/-! ### `PolarizationState`, `create_polarization` -/

structure PolState (α : Type) where
  isPol : Bool
  Ex : α
  Ey : α
  px : α
  py : α

/-- `PolarizationState(is_polarized=True, Ex, Ey, phase_x, phase_y)`: amplitudes are normalised -/
def polarized (Ex Ey px py : α) : PolState α :=
  let mag := Num.sqrt (Ex * Ex + Ey * Ey)
  ⟨true, Ex / mag, Ey / mag, px, py⟩

/-- `PolarizationState(is_polarized=False)` (the numeric fields are `None` in Python) -/
def unpolarized : PolState α := ⟨false, 0, 0, 0, 0⟩

inductive PolName where
  | H | V | Lp45 | Lm45 | RCP | LCP | unpolarized
deriving DecidableEq, Repr

def PolName.ofString : String → Option PolName
  | "H" => some .H
  | "V" => some .V
  | "L+45" => some .Lp45
  | "L-45" => some .Lm45
  | "RCP" => some .RCP
  | "LCP" => some .LCP
  | "unpolarized" => some .unpolarized
  | _ => none

/-- `create_polarization(pol_type)` -/
def createPolarization : PolName → PolState α
  | .unpolarized => unpolarized
  | .H => polarized 1 0 0 0
  | .V => polarized 0 1 0 0
  | .Lp45 => polarized 1 1 0 0
  | .Lm45 => polarized 1 (Num.neg 1) 0 0
  | .RCP => polarized (Num.sqrt 2 / 2) (Num.sqrt 2 / 2) 0 (Num.neg Num.pi / 2)
  | .LCP => polarized (Num.sqrt 2 / 2) (Num.sqrt 2 / 2) 0 (Num.pi / 2)

/-- complex Jones vector `(Ex·e^{iφx}, Ey·e^{iφy})` of a state -/
def PolState.jones (st : PolState α) : Cx α × Cx α :=
  (Cx.rmul st.Ex (Cx.cis st.px), Cx.rmul st.Ey (Cx.cis st.py))

/-! ### `PolarizedRays` -/

/-- the polarization matrix `rays.p` with NumPy's dtype: real until the first Jones matrix -/
inductive PMat (α : Type) where
  | real (m : M3 α)
  | cplx (m : M3 (Cx α))

def PMat.toC : PMat α → M3 (Cx α)
  | .real m => m.toC
  | .cplx m => m

/-- `np.matmul(p, q)` with promotion -/
def PMat.mul : PMat α → PMat α → PMat α
  | .real a, .real b => .real (a.mul b)
  | a, b => .cplx (a.toC.cmul b.toC)

/-- rounding guard of the parallel test (`mag < 1e-8`, after the repair of F-C17-2) -/
def parTol : α := Num.ofRat 1 100000000

/-- the `s` vector of `PolarizedRays.update`: `k0 × k1` normalised; when the directions are parallel
(magnitude below the rounding guard), `k0 × x̂` normalised -/
def sVector (k0 k1 : V3 α) : V3 α :=
  let s := cross k0 k1
  let mag := vnorm s
  if Num.lt mag parTol then
    let s' := cross k0 xhat
    s'.sdiv (vnorm s')
  else s.sdiv mag

/-- real part of one surface: `o_out @ o_in` -/
def surfaceMatrix (k0 k1 : V3 α) : M3 α :=
  let s := sVector k0 k1
  let p0 := cross k0 s
  let p1 := cross k1 s
  (M3.ofCols s p1 k1).mul (M3.ofRows s p0 k0)

/-- what the property requires of a *tilted* surface (finding F-C17-3): the tree calls `update`
between `localize` and `globalize`, so `surfaceMatrix` is built from direction cosines in the surface
frame (`surfaceMatrix` is the `_code` variant for every surface); expressed in the global frame in
which `rays.p` accumulates it is `R · P_local · Rᵀ`, `R` the rotation local → global -/
def surfaceMatrix_spec (R : M3 α) (k0 k1 : V3 α) : M3 α :=
  (R.mul (surfaceMatrix k0 k1)).mul R.transpose

/-- `einsum('nij,njk,nkl->nil', o_out, jones, o_in)` -/
def surfaceMatrixJ (k0 k1 : V3 α) (j : M3 (Cx α)) : M3 (Cx α) :=
  let s := sVector k0 k1
  let p0 := cross k0 s
  let p1 := cross k1 s
  ((M3.ofCols s p1 k1).toC.cmul j).cmul (M3.ofRows s p0 k0).toC

/-- one call of `PolarizedRays.update(jones_matrix)`: `k0 = (L0,M0,N0)`, `k1 = (L,M,N)` -/
structure PolEvent (α : Type) where
  k0 : V3 α
  k1 : V3 α
  jones : Option (M3 (Cx α))

def polSurface (e : PolEvent α) : PMat α :=
  match e.jones with
  | none => .real (surfaceMatrix e.k0 e.k1)
  | some j => .cplx (surfaceMatrixJ e.k0 e.k1 j)

/-- `self.p = np.matmul(p, self.p)` -/
def update (p : PMat α) (e : PolEvent α) : PMat α := (polSurface e).mul p

/-- the polarization matrix after a sequence of surfaces, starting from `np.eye(3)` -/
def tracePol (evs : List (PolEvent α)) : PMat α := evs.foldl update (.real M3.one)

/-- `FresnelCoating.interact(rays, reflect, nx, ny, nz)`: angle of incidence from the pre-surface
direction, Fresnel Jones matrix, `rays.update(jones)` -/
def fresnelEvent (k0 k1 n : V3 α) (n1 n2 : α) (reflect : Bool) : PolEvent α :=
  ⟨k0, k1, some (fresnel n1 n2 (computeAoi n k0) reflect).toM3⟩

/-- `_get_3d_electric_field(state)` for the initial direction `k` (raises when `k ∥ x̂`; the model
then yields NaN) -/
def field3d (st : PolState α) (k : V3 α) : V3 (Cx α) :=
  let p := cross k xhat
  let p := p.sdiv (vnorm p)
  let s := cross p k
  let ax := Cx.rmul st.Ex (Cx.cis st.px)
  let ay := Cx.rmul st.Ey (Cx.cis st.py)
  ⟨(ax.smul s.x).add (ay.smul p.x), (ax.smul s.y).add (ay.smul p.y), (ax.smul s.z).add (ay.smul p.z)⟩

/-- `get_output_field(E)` -/
def outputField (p : PMat α) (E : V3 (Cx α)) : V3 (Cx α) :=
  match p with
  | .real m => m.rmulVec E
  | .cplx m => m.cmulVec E

/-- `np.sum(np.abs(E)**2, axis=1)` -/
def sumAbsSq (E : V3 (Cx α)) : α :=
  E.x.abs * E.x.abs + E.y.abs * E.y.abs + E.z.abs * E.z.abs

/-- intensity of one fully polarized input state -/
def polIntensity (p : PMat α) (st : PolState α) (k : V3 α) : α :=
  sumAbsSq (outputField p (field3d st k))

/-- `update_intensity(state)`: `k` the initial direction, `i0` the initial intensity -/
def updateIntensity (p : PMat α) (st : PolState α) (k : V3 α) (i0 : α) : α :=
  if st.isPol then polIntensity p st k
  else
    (polIntensity p (polarized 1 0 0 0) k + polIntensity p (polarized 0 1 0 0) k) * i0 / 2

end Model.Polar
