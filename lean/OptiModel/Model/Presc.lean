import OptiModel.Model.Parax
/-!
  Prescription state machine: `SurfaceFactory._configure_cs/_configure_material`,
  `SurfaceGroup.add_surface/remove_surface`, `Optic.set_radius/set_conic/set_thickness/
  set_index/set_asphere_coeff`, tilt/decentre variables, `WavelengthGroup.add_wavelength`,
  `Pickup.apply`, `MarginalRayHeightSolve.apply`, `Optic.update`, `Optic.image_solve`.
  Media are identifiers into a table of indices at the primary wavelength: object identity
  is what `material_pre := previous.material_post` shares.
-/
namespace Model
open scoped Num
variable {α : Type} [Num α]

inductive GKind where
  | plane | standard | evenAsphere | polynomial | chebyshev
deriving DecidableEq, Repr, Inhabited

structure SRec (α : Type) where
  kind : SKind
  gk : GKind
  z : α
  dx : α
  dy : α
  rx : α
  ry : α
  radius : α
  /-- what `SurfaceGroup.conic` reports (`geometry.k`, 0 when the geometry has none) -/
  conic : α
  coeffs : List α
  mPre : Nat
  mPost : Nat
  stop : Bool
  refl : Bool

inductive MatSpec (α : Type) where
  | air
  | mirror
  /-- `IdealMaterial(n)` or a catalogue glass with index `n` at the primary wavelength -/
  | ideal (n : α)

inductive PickAttr where
  | radius | conic | thickness
deriving DecidableEq, Repr, Inhabited

structure Pickup (α : Type) where
  src : Nat
  attr : PickAttr
  tgt : Nat
  scale : α
  offset : α

structure Solve (α : Type) where
  idx : Nat
  height : α

structure Presc (α : Type) where
  surfs : List (SRec α) := []
  lastThickness : α
  /-- material table: identifier → index at the primary wavelength -/
  mats : List α := []
  /-- wavelengths with their primary flag -/
  waves : List (α × Bool) := []
  pickups : List (Pickup α) := []
  solves : List (Solve α) := []
  apType : ApType := .EPD
  apValue : α
  fieldType : FieldType := .angle
  maxYField : α
  objInf : Bool := true

structure AddArgs (α : Type) where
  index : Nat
  gk : GKind
  /-- `radius` is `np.inf` (the factory then builds a `Plane` for surface type 'standard') -/
  radiusInf : Bool
  radius : α
  conic : α
  thickness : α
  material : MatSpec α
  stop : Bool
  dx : α
  dy : α
  rx : α
  ry : α
  coeffs : List α

inductive Op (α : Type) where
  | add (a : AddArgs α)
  | remove (index : Nat)
  | setRadius (v : α) (k : Nat)
  | setConic (v : α) (k : Nat)
  | setThickness (v : α) (k : Nat)
  | setIndex (v : α) (k : Nat)
  | setCoeff (v : α) (k i : Nat)
  | setTiltX (v : α) (k : Nat)
  | setTiltY (v : α) (k : Nat)
  | setDecX (v : α) (k : Nat)
  | setDecY (v : α) (k : Nat)
  | addWave (v : α) (primary : Bool)
  | pickupAdd (p : Pickup α)
  | solveAdd (s : Solve α)
  | update
  | imageSolve
  /-- `Optic.scale_system`; the flags say which radii / thicknesses are infinite (`np.isinf`) -/
  | scale (s : α) (radiusInf : List Bool) (thickInf : List Bool)

def modifyAt {β : Type} (l : List β) (k : Nat) (f : β → β) : List β :=
  l.mapIdx fun i x => if i = k then f x else x

/-- `SurfaceGroup.positions` -/
def positions (P : Presc α) : List α := P.surfs.map (·.z)
def posAt (P : Presc α) (k : Nat) : α := (positions P).getD k 0
/-- `SurfaceGroup.get_thickness` -/
def thickness (P : Presc α) (k : Nat) : α := posAt P (k+1) - posAt P k

/-- `SurfaceFactory._configure_cs`: z of the new surface -/
def newZ (P : Presc α) (index : Nat) (thickness : α) : α :=
  match index with
  | 0 => Num.neg thickness
  | 1 => 0
  | i+2 => posAt P (i+1) + P.lastThickness

/-- `SurfaceFactory.create_surface` + `SurfaceGroup.add_surface` -/
def addSurface (P : Presc α) (a : AddArgs α) : Except String (Presc α) :=
  if P.surfs.length < a.index then .error "ValueError" else
  let z := newZ P a.index a.thickness
  -- `_configure_material`
  let pre? : Option Nat := if a.index = 0 then none else (P.surfs.map (·.mPost))[a.index - 1]?
  match (if a.index = 0 then some 0 else pre?) with
  | none => .error "IndexError"
  | some pre0 =>
    let (mats, post) : List α × Nat := match a.material with
      | .air => (P.mats ++ [1], P.mats.length)
      | .ideal n => (P.mats ++ [n], P.mats.length)
      | .mirror => (P.mats, pre0)
    let pre := if a.index = 0 then post else pre0
    let gk : GKind := match a.gk with
      | .standard => if a.radiusInf then .plane else .standard
      | g => g
    let conic : α := match gk with | .plane => 0 | _ => a.conic
    let refl := match a.material with | .mirror => true | _ => false
    let kind : SKind := if a.index = 0 then .object else .standard
    let stop := if a.index = 0 then false else a.stop
    let s : SRec α := ⟨kind, gk, z, a.dx, a.dy, a.rx, a.ry, a.radius, conic, a.coeffs, pre, post, stop, refl⟩
    let olds := if stop then P.surfs.map fun t => { t with stop := false } else P.surfs
    .ok { P with surfs := olds.take a.index ++ [s] ++ olds.drop a.index, mats := mats,
                 lastThickness := a.thickness }

/-- `SurfaceGroup.remove_surface` -/
def removeSurface (P : Presc α) (index : Nat) : Except String (Presc α) :=
  if index = 0 then .error "ValueError"
  else if P.surfs.length ≤ index then .error "IndexError"
  else .ok { P with surfs := P.surfs.eraseIdx index }

def inRange (P : Presc α) (k : Nat) : Bool := k < P.surfs.length

/-- `Optic.set_radius` -/
def setRadius (P : Presc α) (v : α) (k : Nat) : Presc α :=
  { P with surfs := modifyAt P.surfs k fun s =>
      match s.gk with
      | .plane => { s with gk := .standard, radius := v, conic := 0 }
      | _ => { s with radius := v } }

/-- `Optic.set_conic` -/
def setConic (P : Presc α) (v : α) (k : Nat) : Presc α :=
  { P with surfs := modifyAt P.surfs k fun s => { s with conic := v } }

/-- `Optic.set_thickness` on the vector of vertex positions -/
def setThicknessPos (pos : List α) (v : α) (k : Nat) : List α :=
  let delta := v - pos.getD (k+1) 0 + pos.getD k 0
  let p1 := pos.mapIdx fun i z => if k + 1 ≤ i then z + delta else z
  let z1 := p1.getD 1 0
  p1.map fun z => z - z1

def assignZ (ss : List (SRec α)) (pos : List α) : List (SRec α) :=
  ss.mapIdx fun i s => { s with z := pos.getD i s.z }

def setThickness (P : Presc α) (v : α) (k : Nat) : Presc α :=
  { P with surfs := assignZ P.surfs (setThicknessPos (positions P) v k) }

/-- `Optic.set_index` -/
def setIndex (P : Presc α) (v : α) (k : Nat) : Presc α :=
  let id := P.mats.length
  let ss := modifyAt P.surfs k fun s => { s with mPost := id }
  let ss := modifyAt ss (k+1) fun s => { s with mPre := id }
  { P with surfs := ss, mats := P.mats ++ [v] }

def setCoeff (P : Presc α) (v : α) (k i : Nat) : Presc α :=
  { P with surfs := modifyAt P.surfs k fun s => { s with coeffs := modifyAt s.coeffs i fun _ => v } }

/-- `WavelengthGroup.add_wavelength` -/
def addWave (P : Presc α) (v : α) (primary : Bool) : Presc α :=
  let ws := if primary then P.waves.map fun w => (w.1, false) else P.waves
  let primary := if ws.isEmpty then true else primary
  { P with waves := ws ++ [(v, primary)] }

def primaryIndex (P : Presc α) : Option Nat := P.waves.findIdx? (·.2)
def stopIndexP (P : Presc α) : Option Nat := P.surfs.findIdx? (·.stop)

/-- index of material `id` at the primary wavelength -/
def matN (P : Presc α) (id : Nat) : α := P.mats.getD id 0

/-- what the paraxial tracer reads -/
def toPSys (P : Presc α) : PSys α :=
  { surfs := P.surfs.map fun s =>
      { kind := s.kind, dy := s.dy, z := s.z, r := s.radius, n1 := matN P s.mPre, n2 := matN P s.mPost,
        refl := s.refl, stop := s.stop },
    apType := P.apType, apValue := P.apValue, fieldType := P.fieldType, maxYField := P.maxYField,
    objInf := P.objInf }

/-- `Pickup.apply` -/
def applyPickup (P : Presc α) (p : Pickup α) : Presc α :=
  match p.attr with
  | .radius =>
    let old := ((P.surfs.map (·.radius)).getD p.src 0)
    setRadius P (p.scale * old + p.offset) p.tgt
  | .conic =>
    let old := ((P.surfs.map (·.conic)).getD p.src 0)
    setConic P (p.scale * old + p.offset) p.tgt
  | .thickness =>
    let old := thickness P p.src
    setThickness P (p.scale * old + p.offset) p.tgt

/-- `MarginalRayHeightSolve.apply` (after the repair of F2: incoming slope `ua[idx-1]`) -/
def applySolve (P : Presc α) (s : Solve α) : Presc α :=
  let rs := marginalRay (toPSys P)
  let ya := nth (ys rs) s.idx
  let ua := nth (us rs) (s.idx - 1)
  let offset := (s.height - ya) / ua
  { P with surfs := P.surfs.mapIdx fun i t => if s.idx ≤ i then { t with z := t.z + offset } else t }

/-- `Optic.update` -/
def update (P : Presc α) : Presc α :=
  let P := P.pickups.foldl applyPickup P
  P.solves.foldl applySolve P

/-- `Optic.image_solve` -/
def imageSolve (P : Presc α) : Presc α :=
  let rs := marginalRay (toPSys P)
  -- slope with which the ray arrives at the image surface (`ua[-2]`, after the repair)
  let offset := last (ys rs) / nth (us rs) ((us rs).length - 2)
  let n := P.surfs.length
  { P with surfs := modifyAt P.surfs (n - 1) fun s => { s with z := s.z - offset } }

/-- `Optic.scale_system` (radii, thicknesses, EPD; surface apertures are not part of `Presc`) -/
def scaleSystem (P : Presc α) (s : α) (radiusInf thickInf : List Bool) : Presc α :=
  let n := P.surfs.length
  let radii := P.surfs.map (·.radius)
  let thick := (List.range (n - 1)).map fun k => thickness P k
  let P := (List.range n).foldl (fun P k =>
    let P := if radiusInf.getD k false then P else setRadius P (radii.getD k 0 * s) k
    if k ≠ n - 1 ∧ !(thickInf.getD k false) then setThickness P (thick.getD k 0 * s) k else P) P
  match P.apType with
  | .EPD => { P with apValue := P.apValue * s }
  | _ => P

def guardIdx (P : Presc α) (k : Nat) (r : Presc α) : Except String (Presc α) :=
  if inRange P k then .ok r else .error "IndexError"

/-- one public call -/
def step (P : Presc α) : Op α → Except String (Presc α)
  | .add a => addSurface P a
  | .remove i => removeSurface P i
  | .setRadius v k => guardIdx P k (setRadius P v k)
  | .setConic v k => guardIdx P k (setConic P v k)
  | .setThickness v k => guardIdx P (k+1) (setThickness P v k)
  | .setIndex v k => guardIdx P (k+1) (setIndex P v k)
  | .setCoeff v k i =>
    match P.surfs[k]? with
    | none => .error "IndexError"
    | some s => if s.gk = .evenAsphere ∧ i < s.coeffs.length then .ok (setCoeff P v k i)
                else .error "AttributeError/IndexError"
  | .setTiltX v k => guardIdx P k { P with surfs := modifyAt P.surfs k fun s => { s with rx := v } }
  | .setTiltY v k => guardIdx P k { P with surfs := modifyAt P.surfs k fun s => { s with ry := v } }
  | .setDecX v k => guardIdx P k { P with surfs := modifyAt P.surfs k fun s => { s with dx := v } }
  | .setDecY v k => guardIdx P k { P with surfs := modifyAt P.surfs k fun s => { s with dy := v } }
  | .addWave v p => .ok (addWave P v p)
  | .pickupAdd p => .ok (let P' := applyPickup P p; { P' with pickups := P'.pickups ++ [p] })
  | .solveAdd s => .ok (let P' := applySolve P s; { P' with solves := P'.solves ++ [s] })
  | .update => .ok (update P)
  | .imageSolve => .ok (imageSolve P)
  | .scale s ri ti => .ok (scaleSystem P s ri ti)

/-- run a history; an op that raises leaves the state unchanged (the exception propagates to the
caller, the lens is not modified) -/
def runOps (P : Presc α) (ops : List (Op α)) : Presc α :=
  ops.foldl (fun P op => match step P op with | .ok P' => P' | .error _ => P) P

end Model
