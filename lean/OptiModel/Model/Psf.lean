import OptiModel.Num
/-!
  FFT point-spread function, Strehl ratio, FFT-MTF and geometric MTF:
  `optiland/psf.py` (`FFTPSF._generate_pupils/_pad_pupils/_get_normalization/_compute_psf/
  strehl_ratio/_get_psf_units`) and `optiland/mtf.py` (`FFTMTF._generate_mtf_data/_get_fno/
  _get_mtf_units`, the frequency axis of `view()`, `GeometricMTF._generate_mtf_data/
  _compute_field_data`).

  Complex numbers are pairs over the carrier.  The FFT is modelled by the *defining* sum
  (naive separable DFT, ascending summation) – the values agree with `np.fft.fft2` to rounding,
  not bit for bit.  Two-dimensional data are functions `Nat → Nat → β` (row, column); results that
  are read many times are memoised in tables (`tab`, `tab2`) – the tables have no mathematical
  content (`look_tab`).

  The sampled pupil (OPD in waves and intensity of the rays inside the unit disk, in raster
  order) is an *input*: the wavefront itself belongs to property C09.

  Where the tree is wrong with respect to the property two variants are kept:
  `meanCode`/`meanSpec` (F17), `psfTab`/`psfTabSpec`, `strehlCode`/`strehlSpec` and
  `sliceStartCode`/`sliceStartSpec` (odd `grid − num_rays`, F-C11-2), `freqStepCode`/`freqStepSpec`
  (F9), `inDisk`/`inDiskSpec` (mask test of `_generate_pupils` vs. the ray generator, F-C11-1).
  `dft1` is the reference definition of the inner sum; `dft1Fast` (same operations, same order,
  scalar accumulators) replaces it in compiled code through the proved `@[csimp]` lemma
  `dft1_eq_fast`.
-/
namespace Model
namespace Psf
open scoped Num
variable {α : Type} [Num α]

/-! ### complex numbers as pairs -/
abbrev Cx (α : Type) := α × α

def czero : Cx α := (Num.zero, Num.zero)
def cadd (a b : Cx α) : Cx α := (a.1 + b.1, a.2 + b.2)
def cmul (a b : Cx α) : Cx α := (a.1 * b.1 - a.2 * b.2, a.1 * b.2 + a.2 * b.1)
/-- `real(a * conj a)` -/
def cnormSq (a : Cx α) : α := a.1 * a.1 + a.2 * a.2
/-- `np.abs` of a complex number -/
def cabs (a : Cx α) : α := Num.sqrt (cnormSq a)
def ofReal (a : α) : Cx α := (a, Num.zero)

/-! ### sums and memo tables -/
/-- `Σ_{j<n} f j`, ascending -/
def csum (f : Nat → Cx α) : Nat → Cx α
  | 0 => czero
  | n+1 => cadd (csum f n) (f n)

def rsum (f : Nat → α) : Nat → α
  | 0 => Num.zero
  | n+1 => rsum f n + f n

/-- running maximum of `f 0 … f n` (`np.max`) -/
def rmax (f : Nat → α) : Nat → α
  | 0 => f 0
  | n+1 => let m := rmax f n; if Num.lt m (f (n+1)) then f (n+1) else m

def tab {β : Type} (n : Nat) (f : Nat → β) : Array β := Array.ofFn (n := n) fun i => f i.val
def look {β : Type} (d : β) (a : Array β) (i : Nat) : β := a.getD i d
def tab2 {β : Type} (n m : Nat) (f : Nat → Nat → β) : Array (Array β) := tab n fun r => tab m (f r)
def look2 {β : Type} (d : β) (a : Array (Array β)) (r c : Nat) : β := look d (look #[] a r) c

/-! ### discrete Fourier transform -/
/-- `exp(-2πi m/n)` -/
def twiddle (n m : Nat) : Cx α :=
  let a := 2 * Num.pi * Num.ofNat m / Num.ofNat n
  (Num.cos a, Num.neg (Num.sin a))

/-- `X[k] = Σ_j x[j] w[(j k) mod n]` – the defining sum, ascending -/
def dft1 (n : Nat) (wt xs : Array (Cx α)) (k : Nat) : Cx α :=
  csum (fun j => cmul (look czero xs j) (look czero wt ((j * k) % n))) n

/-- the same sum, same order, with scalar accumulators (what the compiled driver runs; see
`dft1_eq_fast`) -/
def dft1Go (n : Nat) (wt xs : Array (Cx α)) (k : Nat) : Nat → Nat → α → α → Cx α
  | 0, _, re, im => (re, im)
  | m+1, j, re, im =>
    let a := look czero xs j
    let b := look czero wt ((j * k) % n)
    dft1Go n wt xs k m (j + 1) (re + (a.1 * b.1 - a.2 * b.2)) (im + (a.1 * b.2 + a.2 * b.1))

def dft1Fast (n : Nat) (wt xs : Array (Cx α)) (k : Nat) : Cx α :=
  dft1Go n wt xs k n 0 Num.zero Num.zero

theorem dft1Go_succ (n : Nat) (wt xs : Array (Cx α)) (k : Nat) :
    ∀ (m j : Nat) (re im : α), dft1Go n wt xs k (m + 1) j re im =
      cadd (dft1Go n wt xs k m j re im)
        (cmul (look czero xs (j + m)) (look czero wt (((j + m) * k) % n))) := by
  intro m
  induction m with
  | zero => intro j re im; rfl
  | succ m ih =>
    intro j re im
    show dft1Go n wt xs k (m + 1) (j + 1) _ _ = _
    rw [ih (j + 1)]
    have h : j + 1 + m = j + (m + 1) := by omega
    rw [h]
    rfl

@[csimp] theorem dft1_eq_fast : @dft1 = @dft1Fast := by
  funext α inst n wt xs k
  unfold dft1 dft1Fast
  -- generalise the summation length away from the modulus `n`
  suffices h : ∀ m, csum (fun j => cmul (look czero xs j) (look czero wt ((j * k) % n))) m
      = dft1Go n wt xs k m 0 Num.zero Num.zero from h n
  intro m
  induction m with
  | zero => rfl
  | succ m ih =>
    rw [dft1Go_succ, ← ih, Nat.zero_add]
    rfl

/-- table of the `n` twiddle factors -/
def twTab (n : Nat) : Array (Cx α) := tab n (twiddle n)

/-- transform every row of an `n × n` table -/
def dftRows (n : Nat) (wt : Array (Cx α)) (xt : Array (Array (Cx α))) : Array (Array (Cx α)) :=
  tab2 n n fun r k => dft1 n wt (look #[] xt r) k

def transpose {β : Type} (d : β) (n : Nat) (t : Array (Array β)) : Array (Array β) :=
  tab2 n n fun r c => look2 d t c r

/-- `np.fft.fft2` of an `n × n` table: along the rows, then along the columns -/
def dft2Tab (n : Nat) (xt : Array (Array (Cx α))) : Array (Array (Cx α)) :=
  let wt := twTab n
  let yt := dftRows n wt xt
  let zt := dftRows n wt (transpose czero n yt)
  transpose czero n zt

/-- entry (k1, k2) of `np.fft.fft2(x)` -/
def dft2 (n : Nat) (xt : Array (Array (Cx α))) (k1 k2 : Nat) : Cx α := look2 czero (dft2Tab n xt) k1 k2

/-- index read by `np.fft.fftshift` at output position `i`: `out[i] = in[(i - n/2) mod n]` -/
def shiftIdx (n i : Nat) : Nat := (i + (n - n / 2)) % n

/-! ### `FFTPSF._generate_pupils` -/
/-- `np.linspace(a, b, n)[i]` -/
def linspace (n : Nat) (a b : α) (i : Nat) : α :=
  if n ≤ 1 then a
  else if i + 1 == n then b
  else Num.ofNat i * ((b - a) / Num.ofNat (n - 1)) + a

/-- `R <= 1` at row `r`, column `c` of the `num_rays × num_rays` raster -/
def inDisk (n r c : Nat) : Bool :=
  let x : α := linspace n (Num.neg 1) 1 c
  let y : α := linspace n (Num.neg 1) 1 r
  Num.le (Num.sqrt (x * x + y * y)) 1

/-- what the property needs: the same test as the ray generator (`x² + y² <= 1`,
`distribution.py`), so that mask and ray list always have the same length -/
def inDiskSpec (n r c : Nat) : Bool :=
  let x : α := linspace n (Num.neg 1) 1 c
  let y : α := linspace n (Num.neg 1) 1 r
  Num.le (x * x + y * y) 1

/-- position in the list of in-disk samples of every raster index (row-major), and their number -/
def ranks (mask : Nat → Nat → Bool) (n : Nat) : Array Nat × Nat :=
  (List.range (n * n)).foldl (fun (acc : Array Nat × Nat) idx =>
    if mask (idx / n) (idx % n) then (acc.1.push acc.2, acc.2 + 1) else (acc.1.push 0, acc.2))
    (Array.mkEmpty (n * n), 0)

/-- `np.mean(intensity)`: sum over *all* traced samples divided by their number -/
def meanCode (inten : Nat → α) (m : Nat) : α := rsum inten m / Num.ofNat m

/-- number of transmitted samples (`intensity != 0`) -/
def countNonzero (inten : Nat → α) : Nat → Nat
  | 0 => 0
  | m+1 => countNonzero inten m + (if Num.isZero (inten m) then 0 else 1)

/-- what the property needs: mean over the transmitted samples, so that `Σ amplitude = #support` -/
def meanSpec (inten : Nat → α) (m : Nat) : α := rsum inten m / Num.ofNat (countNonzero inten m)

/-- one pupil sample: `intensity / mean * exp(1j * 2π * opd)`; zero outside the mask -/
def pupilVal (mean : α) (inside : Bool) (i w : α) : Cx α :=
  if inside then
    let amp := i / mean
    let ph := 2 * Num.pi * w
    (amp * Num.cos ph, amp * Num.sin ph)
  else czero

/-- the `num_rays × num_rays` pupil as a function of (row, column) -/
def pupil (mean : α) (mask : Nat → Nat → Bool) (I W : Nat → Nat → α) (r c : Nat) : Cx α :=
  pupilVal mean (mask r c) (I r c) (W r c)

/-! ### `_pad_pupils`, `_get_normalization`, `_compute_psf`, `strehl_ratio` -/
def padWidth (n g : Nat) : Nat := (g - n) / 2
/-- side of the padded array: `grid_size` when `grid_size - num_rays` is even, else one less -/
def paddedSize (n g : Nat) : Nat := n + 2 * padWidth n g

/-- `np.pad(pupil, ((pad,pad),(pad,pad)))` -/
def padFn (n pad : Nat) (P : Nat → Nat → Cx α) (r c : Nat) : Cx α :=
  if pad ≤ r && r < pad + n && pad ≤ c && c < pad + n then P (r - pad) (c - pad) else czero

def isNonzero (a : Cx α) : Bool := !(Num.isZero a.1 && Num.isZero a.2)

/-- `P_nom[P_nom != 0] = 1` -/
def nominal (P : Nat → Nat → Cx α) (r c : Nat) : Cx α :=
  if isNonzero (P r c) then (Num.one, Num.zero) else czero

/-- `np.max(|fft2(P_nom)|²)` over the `n × n` array (`len(pupils) = 1`) -/
def normFactor (n : Nat) (P : Nat → Nat → Cx α) : α :=
  let Pn := tab2 n n (nominal P)
  let F := dft2Tab n Pn
  let v := tab (n * n) fun idx => cnormSq (look2 czero F (idx / n) (idx % n))
  rmax (look Num.zero v) (n * n - 1)

/-- `real(amp * conj(amp)) / norm_factor * 100` -/
def psfVal (norm : α) (amp : Cx α) : α := cnormSq amp / norm * Num.ofNat 100

/-- `_compute_psf` for an array of side `gp` with `pad` zero rows/columns in front of the pupil -/
def psfTabG (n gp pad : Nat) (P : Nat → Nat → Cx α) (norm : α) : Array (Array α) :=
  let X := tab2 gp gp (padFn n pad P)
  let F := dft2Tab gp X
  tab2 gp gp fun r c => psfVal norm (look2 czero F (shiftIdx gp r) (shiftIdx gp c))

/-- what the tree computes: symmetric padding, side `paddedSize n g` -/
def psfTab (n g : Nat) (P : Nat → Nat → Cx α) (norm : α) : Array (Array α) :=
  psfTabG n (paddedSize n g) (padWidth n g) P norm

/-- what the property needs: a `grid_size × grid_size` array (one more zero row/column behind the
pupil when `grid_size − num_rays` is odd) -/
def psfTabSpec (n g : Nat) (P : Nat → Nat → Cx α) (norm : α) : Array (Array α) :=
  psfTabG n g (padWidth n g) P norm

/-- entry (r, c) of the PSF -/
def psfGrid (n g : Nat) (P : Nat → Nat → Cx α) (norm : α) (r c : Nat) : α :=
  look2 Num.zero (psfTab n g P norm) r c

/-- pixel (c, c) / 100 -/
def strehlAt (c : Nat) (psf : Nat → Nat → α) : α := psf c c / Num.ofNat 100
/-- `strehl_ratio`: reads pixel `grid_size // 2` -/
def strehlCode (g : Nat) (psf : Nat → Nat → α) : α := strehlAt (g / 2) psf
/-- the central (zero-frequency) pixel of the array of side `gp` that was actually transformed -/
def strehlSpec (gp : Nat) (psf : Nat → Nat → α) : α := strehlAt (gp / 2) psf

/-! ### `FFTMTF` -/
/-- entry (r, c) of `np.abs(fftshift(fft2(psf)))`; `ytT` is the transposed row-transformed table,
so that only the entries that are read need the second pass -/
def mtfData (gp : Nat) (wt : Array (Cx α)) (ytT : Array (Array (Cx α))) (r c : Nat) : α :=
  cabs (dft1 gp wt (look #[] ytT (shiftIdx gp c)) (shiftIdx gp r))

/-- `data[grid_size//2:, …]` -/
def sliceStartCode (g : Nat) : Nat := g / 2
/-- the zero-frequency index of the array of side `gp` -/
def sliceStartSpec (gp : Nat) : Nat := gp / 2

/-- `data[c0:, c0]` (unnormalised tangential slice) -/
def tanRaw (c0 : Nat) (data : Nat → Nat → α) (k : Nat) : α := data (c0 + k) c0
/-- `data[c0, c0:]` -/
def sagRaw (c0 : Nat) (data : Nat → Nat → α) (k : Nat) : α := data c0 (c0 + k)

/-- `slice / np.max(slice)` for a slice of `len` entries -/
def normSlice (s : Nat → α) (len : Nat) (k : Nat) : α := s k / rmax s (len - 1)

/-- `FFTMTF._generate_mtf_data` for one field: (tangential, sagittal), slices starting at `c0` -/
def mtfSlices (gp c0 : Nat) (psf : Nat → Nat → α) : Array α × Array α :=
  let wt := twTab gp
  let yt := dftRows gp wt (tab2 gp gp fun r c => ofReal (psf r c))
  let ytT := transpose czero gp yt
  let len := gp - c0
  let tr := tab len (tanRaw c0 (mtfData gp wt ytT))
  let sr := tab len (sagRaw c0 (mtfData gp wt ytT))
  (tab len (normSlice (look Num.zero tr) len), tab len (normSlice (look Num.zero sr) len))

/-- `_get_fno`: working F-number, corrected for a finite object -/
def workingFno (fno : α) (infinite : Bool) (xpd epd m : α) : α :=
  if infinite then fno
  else
    let p := xpd / epd
    fno * (1 + Num.abs m / p)

/-- `max_freq = 1 / (wavelength * 1e-3 * FNO)` in cycles/mm (wavelength in µm) -/
def maxFreq (wl fno : α) : α := 1 / (wl * Num.ofRat 1 1000 * fno)

/-- `_get_mtf_units`: `Q / (wavelength * FNO)` with `Q = grid_size / num_rays` -/
def freqStepCode (n g : Nat) (wl fno : α) : α :=
  let Q : α := Num.ofNat g / Num.ofNat n
  Q / (wl * fno)

/-- what the property needs: sample `k` of an MTF slice is the frequency
`k / (grid · Δx)` with `Δx = λ·FNO/Q` µm, i.e. `k · 10³ / (num_rays · λ · FNO)` cycles/mm -/
def freqStepSpec (n : Nat) (wl fno : α) : α :=
  Num.ofNat 1000 / (Num.ofNat n * (wl * fno))

/-- `freq = np.arange(grid_size - grid_size // 2) * dx` (entry `k` of the axis) -/
def freqAxis (step : α) (k : Nat) : α := Num.ofNat k * step

/-- `_get_psf_units`: extent of an image of `pixels` samples, µm -/
def psfExtent (n g pixels : Nat) (wl fno : α) : α :=
  let Q : α := Num.ofNat g / Num.ofNat n
  let dx := wl * fno / Q
  Num.ofNat pixels * dx

/-! ### diffraction limit of a circular pupil and `GeometricMTF` -/
/-- `2/π (φ − cos φ sin φ)`, `φ = arccos(ratio)` -/
def diffLimit (ratio : α) : α :=
  let phi := Num.acos ratio
  2 / Num.pi * (phi - Num.cos phi * Num.sin phi)

/-- minimum / maximum of `x 0 … x (m-1)` (m ≥ 1) -/
def rmin (f : Nat → α) : Nat → α
  | 0 => f 0
  | n+1 => let m := rmin f n; if Num.lt (f (n+1)) m then f (n+1) else m

/-- `np.histogram` outer edges: the data range, widened by ±0.5 when empty -/
def histRange (x : Nat → α) (m : Nat) : α × α :=
  let lo := rmin x (m - 1)
  let hi := rmax x (m - 1)
  if Num.le hi lo && Num.le lo hi then (lo - Num.ofRat 1 2, hi + Num.ofRat 1 2) else (lo, hi)

/-- bin of a value: number of interior edges `e_1 … e_{nb-1}` that are `≤ v`
(half-open bins, the last one closed – what `np.histogram` returns after its edge corrections) -/
def binOf (edge : Nat → α) (nb : Nat) (v : α) : Nat :=
  (List.range (nb - 1)).foldl (fun acc i => if Num.le (edge (i + 1)) v then acc + 1 else acc) 0

/-- counts per bin -/
def histogram (edge : Nat → α) (nb : Nat) (x : Nat → α) (m : Nat) : Array Nat :=
  (List.range m).foldl (fun (acc : Array Nat) i =>
    let b := binOf edge nb (x i)
    acc.modify b (· + 1)) (Array.replicate nb 0)

/-- one frequency of `_compute_field_data` before scaling:
`sqrt(Ac² + As²)`, `Ac = Σ(A cos(2π ν x) dx) / Σ(A dx)` -/
def geoMtfAt (A : Nat → α) (xc : Nat → α) (dx : α) (nb : Nat) (v : α) : α :=
  let den := rsum (fun j => A j * dx) nb
  let ac := rsum (fun j => A j * Num.cos (2 * Num.pi * v * xc j) * dx) nb / den
  let as := rsum (fun j => A j * Num.sin (2 * Num.pi * v * xc j) * dx) nb / den
  Num.sqrt (ac * ac + as * as)

/-- `GeometricMTF._compute_field_data(xi, freq, scale_factor)` with
`freq = linspace(0, max_freq, num_points)`; `scale = true` multiplies by the diffraction limit.
Returns (mtf, diff_limited_mtf, freq). -/
def geoMtf (xi : Array α) (numPoints : Nat) (maxF : α) (scale : Bool) :
    Array α × Array α × Array α :=
  let m := xi.size
  let x := look Num.zero xi
  let nb := numPoints + 1
  let (lo, hi) := histRange x m
  let edges := tab (nb + 1) (linspace (nb + 1) lo hi)
  let edge := look Num.zero edges
  let counts := histogram edge nb x m
  let At := tab nb fun j => (Num.ofNat (look 0 counts j) : α)
  let xct := tab nb fun j => (edge (j + 1) + edge j) / 2
  let A := look Num.zero At
  let xc := look Num.zero xct
  let dx := xc 1 - xc 0
  let freq := tab numPoints (linspace numPoints Num.zero maxF)
  let dl := tab numPoints fun k => if scale then diffLimit (look Num.zero freq k / maxF) else Num.one
  let mtf := tab numPoints fun k => geoMtfAt A xc dx nb (look Num.zero freq k) * look Num.zero dl k
  (mtf, dl, freq)

end Psf
end Model
