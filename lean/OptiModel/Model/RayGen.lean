import OptiModel.Model.Parax
import OptiModel.Model.Real
/-!
  Ray generation model: `FieldGroup.get_vig_factor` (with `np.interp`),
  `RayGenerator.generate_rays/_get_ray_origins/_get_starting_z_offset`, the pupil scaling
  of `Optic.trace` / `Optic.trace_generic`, and every named pupil distribution.
-/
namespace Model
open scoped Num
variable {α : Type} [Num α]

/-! ### np.interp on increasing knots -/

/-- `np.interp(x, xp, fp)` for knots `(xp, fp)` in increasing order: clamp outside, on
`[xp_j, xp_{j+1})` return `slope*(x - xp_j) + fp_j` (NumPy's own order of evaluation). -/
def interp (x : α) : List (α × α) → α
  | [] => 0
  | [p] => p.2
  | p :: q :: rest =>
      if Num.lt x p.1 then p.2
      else if Num.lt x q.1 then
        if Num.le x p.1 then p.2       -- x == xp_j
        else (q.2 - p.2) / (q.1 - p.1) * (x - p.1) + p.2
      else interp x (q :: rest)

/-- insertion sort by the first component (`np.argsort` on distinct keys) -/
def insertBy {β : Type} (p : α × β) : List (α × β) → List (α × β)
  | [] => [p]
  | q :: l => if Num.lt q.1 p.1 then q :: insertBy p l else p :: q :: l
def sortBy {β : Type} (l : List (α × β)) : List (α × β) := l.foldr insertBy []

structure FieldRec (α : Type) where
  x : α
  y : α
  vx : α
  vy : α

def npMaxL : List α → α
  | [] => 0
  | a :: l => l.foldl (fun acc v => if Num.lt acc v then v else acc) a
def npMinL : List α → α
  | [] => 0
  | a :: l => l.foldl (fun acc v => if Num.lt v acc then v else acc) a

/-- `FieldGroup.get_vig_factor` (fields along y; the caller checks all x = 0) -/
def vigFactor (fs : List (FieldRec α)) (Hx Hy : α) : α × α :=
  let maxY := npMaxL (fs.map (·.y))
  let sorted := sortBy (fs.map fun f => (f.y, (f.vx, f.vy)))
  let hs : List α := if Num.isZero maxY then sorted.map (fun _ => (0 : α)) else sorted.map fun p => p.1 / maxY
  let h := Num.sqrt (Hx * Hx + Hy * Hy)
  let kx := hs.zip (sorted.map (·.2.1))
  let ky := hs.zip (sorted.map (·.2.2))
  (interp h kx, interp h ky)

/-- everything the ray generator reads -/
structure RGSys (α : Type) where
  psys : PSys α
  fields : List (FieldRec α)
  telecentric : Bool
  /-- object surface shape: radius (inf for a plane) and conic -/
  objPlane : Bool
  objR : α
  objK : α

def maxField (fs : List (FieldRec α)) : α :=
  npMaxL (fs.map fun f => Num.sqrt (f.x * f.x + f.y * f.y))

def radians (x : α) : α := x * (Num.pi / Num.ofRat 180 1)

inductive GenErr where
  | valueError | notImplemented
deriving DecidableEq, Repr

/-- `RayGenerator._get_starting_z_offset` -/
def startOffset (S : RGSys α) : α :=
  let zs := (S.psys.surfs.map (·.z))
  let mid := (zs.drop 1).dropLast
  EPD S.psys - npMinL mid

/-- `RayGenerator._get_ray_origins` for one ray; `vx vy` are already `1 - vignetting` -/
def rayOrigin (S : RGSys α) (Hx Hy Px Py vx vy : α) : Except GenErr (α × α × α) :=
  let mf := maxField S.fields
  let fx := mf * Hx
  let fy := mf * Hy
  if S.psys.objInf then
    match S.psys.fieldType with
    | .objectHeight => .error .valueError
    | .angle =>
      if S.telecentric then .error .valueError else
      let epl := EPL S.psys
      let epd := EPD S.psys
      let offset := startOffset S
      let x := Num.tan (radians fx) * (offset + epl)
      let y := Num.neg (Num.tan (radians fy)) * (offset + epl)
      let z := posOf S.psys.surfs 1 - offset
      .ok (Px * epd / 2 * vx + x, Py * epd / 2 * vy + y, z)
  else
    match S.psys.fieldType with
    | .objectHeight =>
      let sag : α := if S.objPlane then 0 else conicSag S.objR S.objK fx fy
      .ok (fx, fy, sag + posOf S.psys.surfs 0)
    | .angle =>
      let epl := EPL S.psys
      let z := posOf S.psys.surfs 0
      .ok (Num.tan (radians fx) * (epl - z), Num.neg (Num.tan (radians fy)) * (epl - z), z)

/-- `RayGenerator.generate_rays` for one ray (intensity 1, path 0) -/
def generateRay (S : RGSys α) (Hx Hy Px Py : α) : Except GenErr (Ray α) :=
  if S.fields.any (fun f => !(Num.isZero f.x)) then .error .notImplemented else
  let v := vigFactor S.fields Hx Hy
  let vx := 1 - v.1
  let vy := 1 - v.2
  match rayOrigin S Hx Hy Px Py vx vy with
  | .error e => .error e
  | .ok (x0, y0, z0) =>
    let aim : Except GenErr (α × α × α) :=
      if S.telecentric then
        match S.psys.fieldType, S.psys.apType with
        | .angle, _ => .error .valueError
        | _, .EPD => .error .valueError
        | _, .imageFNO => .error .valueError
        | _, .objectNA =>
          let sin := S.psys.apValue
          let z := Num.sqrt (1 - sin * sin) / sin + z0
          .ok (Px * vx + x0, Py * vy + y0, z)
      else
        let epl := EPL S.psys
        let epd := EPD S.psys
        .ok (Px * epd * vx / 2, Py * epd * vy / 2, epl)
    match aim with
    | .error e => .error e
    | .ok (x1, y1, z1) =>
      let mag := Num.sqrt ((x1 - x0) * (x1 - x0) + (y1 - y0) * (y1 - y0) + (z1 - z0) * (z1 - z0))
      .ok ⟨x0, y0, z0, (x1 - x0) / mag, (y1 - y0) / mag, (z1 - z0) / mag, 1, 0⟩

/-- `Optic.trace_generic` launch: the caller's pupil coordinates are scaled by `(1 - v)` once
more before `generate_rays` -/
def genericLaunch (S : RGSys α) (Hx Hy Px Py : α) : Except GenErr (Ray α) :=
  if S.fields.any (fun f => !(Num.isZero f.x)) then .error .notImplemented else
  let v := vigFactor S.fields Hx Hy
  generateRay S Hx Hy (Px * (1 - v.1)) (Py * (1 - v.2))

/-! ### pupil distributions (points before any vignetting scaling) -/

/-- `np.linspace(a, b, n)` -/
def linspace (a b : α) (n : Nat) : List α :=
  match n with
  | 0 => []
  | 1 => [a]
  | n+2 =>
    let step := (b - a) / Num.ofNat (n + 1)
    ((List.range (n + 1)).map fun i => Num.ofNat i * step + a) ++ [b]

def distLineX (n : Nat) (positive : Bool) : List (α × α) :=
  (linspace (if positive then 0 else Num.neg 1) 1 n).map fun x => (x, 0)
def distLineY (n : Nat) (positive : Bool) : List (α × α) :=
  (linspace (if positive then 0 else Num.neg 1) 1 n).map fun y => (0, y)

/-- `UniformDistribution`: square grid masked to the unit disk, row-major -/
def distUniform (n : Nat) : List (α × α) :=
  let xs : List α := linspace (Num.neg 1) 1 n
  (xs.flatMap fun y => xs.map fun x => (x, y)).filter fun p => Num.le (p.1 * p.1 + p.2 * p.2) 1

def twoPi : α := 2 * Num.pi

/-- `HexagonalDistribution` -/
def distHexapolar (rings : Nat) : List (α × α) :=
  let r : List α := linspace 0 1 (rings + 1)
  (0, 0) :: (List.range rings).flatMap fun i =>
    let ri := r.getD (i + 1) 0
    let th : List α := (linspace 0 twoPi (6 * (i + 1) + 1)).dropLast
    th.map fun t => (ri * Num.cos t, ri * Num.sin t)

def distCross (n : Nat) : List (α × α) :=
  let l : List α := linspace (Num.neg 1) 1 n
  (l.map fun y => ((0 : α), y)) ++ (l.map fun x => (x, (0 : α)))

def distRing (n : Nat) : List (α × α) :=
  ((linspace 0 twoPi (n + 1)).dropLast).map fun t => (Num.cos t, Num.sin t)

/-- `GaussianQuadrature._get_radius` (1–6 rings) as exact decimals -/
def gqRadius (rings : Nat) : Option (List α) :=
  let d (p : Nat) : α := Num.ofRat p 100000
  match rings with
  | 1 => some [d 70711]
  | 2 => some [d 45970, d 88807]
  | 3 => some [d 33571, d 70711, d 94196]
  | 4 => some [d 26350, d 57446, d 81853, d 96466]
  | 5 => some [d 21659, d 48038, d 70711, d 87706, d 97626]
  | 6 => some [d 18375, d 41158, d 61700, d 78696, d 91138, d 98300]
  | _ => none

def distGQ (rings : Nat) (symmetric : Bool) : Option (List (α × α)) :=
  match gqRadius rings with
  | none => none
  | some rs =>
    let th : List α := if symmetric then [0] else
      [Num.neg (Num.ofRat 104719755 100000000), 0, Num.ofRat 104719755 100000000]
    some (rs.flatMap fun r => th.map fun t => (r * Num.cos t, r * Num.sin t))

/-- `RandomDistribution` given its two uniform streams -/
def distRandom (rs ths : List α) : List (α × α) :=
  (rs.zip ths).map fun p => (Num.sqrt p.1 * Num.cos p.2, Num.sqrt p.1 * Num.sin p.2)

/-- documented number of points -/
def countHexapolar (rings : Nat) : Nat := 1 + 3 * rings * (rings + 1)

end Model
