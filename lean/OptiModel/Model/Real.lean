import OptiModel.Num
/-!
  Real ray tracing model: `RealRays` (rotate/translate/propagate/refract/reflect/clip),
  `CoordinateSystem.localize/globalize`, `Plane`, `StandardGeometry`,
  `NewtonRaphsonGeometry` (+ `EvenAsphere`, `PolynomialGeometry`,
  `ChebyshevPolynomialGeometry`), `RadialAperture.clip`, `SimpleCoating`,
  `Surface._trace_real`, `ObjectSurface.trace`, `SurfaceGroup.trace` — operation for
  operation as the NumPy code evaluates them.  A batch of rays is a `List`; the only place
  where rays of one batch interact is the Newton–Raphson stopping test.
-/
namespace Model
open scoped Num
variable {α : Type} [Num α]

structure Ray (α : Type) where
  x : α
  y : α
  z : α
  L : α
  M : α
  N : α
  /-- intensity -/
  i : α
  /-- accumulated optical path -/
  opd : α
deriving Inhabited

/-! ### RealRays: rigid motions -/

def Ray.translate (r : Ray α) (dx dy dz : α) : Ray α :=
  { r with x := r.x + dx, y := r.y + dy, z := r.z + dz }

def Ray.rotateX (r : Ray α) (rx : α) : Ray α :=
  let c := Num.cos rx
  let s := Num.sin rx
  { r with y := r.y * c - r.z * s, z := r.y * s + r.z * c,
           M := r.M * c - r.N * s, N := r.M * s + r.N * c }

def Ray.rotateY (r : Ray α) (ry : α) : Ray α :=
  let c := Num.cos ry
  let s := Num.sin ry
  { r with x := r.x * c + r.z * s, z := -r.x * s + r.z * c,
           L := r.L * c + r.N * s, N := -r.L * s + r.N * c }

def Ray.rotateZ (r : Ray α) (rz : α) : Ray α :=
  let c := Num.cos rz
  let s := Num.sin rz
  { r with x := r.x * c - r.y * s, y := r.x * s + r.y * c,
           L := r.L * c - r.M * s, M := r.L * s + r.M * c }

/-- `CoordinateSystem` without a reference frame (the factory never sets one) -/
structure Cs (α : Type) where
  x : α
  y : α
  z : α
  rx : α
  ry : α
  rz : α

/-- Python truthiness of a float: `if self.rx:` -/
def truthy (a : α) : Bool := !(Num.isZero a)

/-- `CoordinateSystem.localize` -/
def Cs.localize (c : Cs α) (r : Ray α) : Ray α :=
  let r := r.translate (-c.x) (-c.y) (-c.z)
  let r := if truthy c.rx then r.rotateX (-c.rx) else r
  let r := if truthy c.ry then r.rotateY (-c.ry) else r
  if truthy c.rz then r.rotateZ (-c.rz) else r

/-- `CoordinateSystem.globalize` -/
def Cs.globalize (c : Cs α) (r : Ray α) : Ray α :=
  let r := if truthy c.rz then r.rotateZ c.rz else r
  let r := if truthy c.ry then r.rotateY c.ry else r
  let r := if truthy c.rx then r.rotateX c.rx else r
  r.translate c.x c.y c.z

/-! ### RealRays: propagate / refract / reflect -/

/-- `RealRays.propagate(t, material)`; `k` is `material.k(w)`, `w` the wavelength in µm -/
def Ray.propagate (r : Ray α) (t : α) (k w : α) : Ray α :=
  let alpha := Num.ofRat 4 1 * Num.pi * k / w
  { r with x := r.x + t * r.L, y := r.y + t * r.M, z := r.z + t * r.N,
           i := r.i * Num.exp (-alpha * t * Num.ofRat 1000 1) }

/-- `_align_surface_normal`: returns the aligned normal and `|k·n|` -/
def alignNormal (L M N nx ny nz : α) : α × α × α × α :=
  let dot := L * nx + M * ny + N * nz
  let sgn := Num.sign dot
  (nx * sgn, ny * sgn, nz * sgn, Num.abs dot)

/-- `RealRays.refract` -/
def Ray.refract (r : Ray α) (nx ny nz n1 n2 : α) : Ray α :=
  let u := n1 / n2
  let (nx, ny, nz, dot) := alignNormal r.L r.M r.N nx ny nz
  let root := Num.sqrt (1 - u * u * (1 - dot * dot))
  { r with L := u * r.L + nx * root - u * nx * dot,
           M := u * r.M + ny * root - u * ny * dot,
           N := u * r.N + nz * root - u * nz * dot }

/-- `RealRays.reflect` -/
def Ray.reflect (r : Ray α) (nx ny nz : α) : Ray α :=
  let (nx, ny, nz, dot) := alignNormal r.L r.M r.N nx ny nz
  { r with L := r.L - 2 * dot * nx, M := r.M - 2 * dot * ny, N := r.N - 2 * dot * nz }

/-! ### geometries -/

inductive Geom (α : Type) where
  | plane
  | standard (R k : α)
  | evenAsphere (R k tol : α) (maxIter : Nat) (c : List α)
  | polynomial (R k tol : α) (maxIter : Nat) (c : List (List α))
  | chebyshev (R k tol : α) (maxIter : Nat) (c : List (List α)) (normX normY : α)

/-- `t[t < 0] = v` -/
def maskNeg (t v : α) : α := if Num.lt t 0 then v else t

/-- `Plane.distance` -/
def planeDistance (r : Ray α) : α :=
  let t := -r.z / r.N
  maskNeg t (Num.zero / Num.zero)   -- np.nan

/-- quadratic coefficients of `StandardGeometry.distance` -/
def conicABC (R k : α) (r : Ray α) : α × α × α :=
  let a := k * (r.N * r.N) + r.L * r.L + r.M * r.M + r.N * r.N
  let b := 2 * k * r.N * r.z + 2 * r.L * r.x + 2 * r.M * r.y - 2 * r.N * R + 2 * r.N * r.z
  let c := k * (r.z * r.z) - 2 * R * r.z + r.x * r.x + r.y * r.y + r.z * r.z
  (a, b, c)

/-- root selection shared by `StandardGeometry.distance` and `_intersection_sphere` -/
def selectRoot (a b c : α) (z N : α) : α :=
  let d := b * b - Num.ofRat 4 1 * a * c
  let t1 := (-b + Num.sqrt d) / (2 * a)
  let t2 := (-b - Num.sqrt d) / (2 * a)
  let t1 := maskNeg t1 Num.inf
  let t2 := maskNeg t2 Num.inf
  let z1 := z + t1 * N
  let z2 := z + t2 * N
  let t := if Num.le (Num.abs z1) (Num.abs z2) then t1 else t2
  if Num.isZero a then -c / b else t

/-- `StandardGeometry.distance` -/
def stdDistance (R k : α) (r : Ray α) : α :=
  let (a, b, c) := conicABC R k r
  selectRoot a b c r.z r.N

/-- conic part of every sag formula -/
def conicSag (R k x y : α) : α :=
  let r2 := x * x + y * y
  r2 / (R * (1 + Num.sqrt (1 - (1 + k) * r2 / (R * R))))

/-- conic part of every surface-normal formula: `(x/denom, y/denom)` -/
def conicSlope (R k x y : α) : α × α :=
  let r2 := x * x + y * y
  let denom := R * Num.sqrt (1 - (1 + k) * r2 / (R * R))
  (x / denom, y / denom)

/-- `StandardGeometry.surface_normal` -/
def stdNormal (R k x y : α) : α × α × α :=
  let (dfdx, dfdy) := conicSlope R k x y
  let dfdz : α := -1
  let mag := Num.sqrt (dfdx * dfdx + dfdy * dfdy + dfdz * dfdz)
  (dfdx / mag, dfdy / mag, dfdz / mag)

/-- normalisation used by the Newton–Raphson geometries -/
def nrNormalize (dzdx dzdy : α) : α × α × α :=
  let norm := Num.sqrt (dzdx * dzdx + dzdy * dzdy + 1)
  (dzdx / norm, dzdy / norm, -1 / norm)

/-- `x ** n` as NumPy evaluates it for float arrays and an integer exponent -/
def ipow (x : α) (n : Nat) : α := Num.npow x n

/-- `EvenAsphere.sag` -/
def asphSag (R k : α) (c : List α) (x y : α) : α :=
  let r2 := x * x + y * y
  let z := conicSag R k x y
  (c.zipIdx).foldl (fun z (ci : α × Nat) => z + ci.1 * ipow r2 (ci.2 + 1)) z

/-- `EvenAsphere._surface_normal` -/
def asphNormal (R k : α) (c : List α) (x y : α) : α × α × α :=
  let r2 := x * x + y * y
  let (dfdx, dfdy) := conicSlope R k x y
  let (dfdx, dfdy) := (c.zipIdx).foldl (fun (d : α × α) (ci : α × Nat) =>
    (d.1 + 2 * Num.ofNat (ci.2 + 1) * x * ci.1 * ipow r2 ci.2,
     d.2 + 2 * Num.ofNat (ci.2 + 1) * y * ci.1 * ipow r2 ci.2)) (dfdx, dfdy)
  nrNormalize dfdx dfdy

/-- flattened `(i, j, c[i][j])` of a coefficient matrix, row-major -/
def coefIdx (c : List (List α)) : List (Nat × Nat × α) :=
  (c.zipIdx).flatMap fun (row : List α × Nat) => (row.1.zipIdx).map fun (v : α × Nat) => (row.2, v.2, v.1)

/-- `PolynomialGeometry.sag` -/
def polySag (R k : α) (c : List (List α)) (x y : α) : α :=
  (coefIdx c).foldl (fun z (e : Nat × Nat × α) => z + e.2.2 * ipow x e.1 * ipow y e.2.1) (conicSag R k x y)

/-- `PolynomialGeometry._surface_normal` -/
def polyNormal (R k : α) (c : List (List α)) (x y : α) : α × α × α :=
  let (dzdx, dzdy) := conicSlope R k x y
  let dzdx := ((coefIdx c).filter fun e => 1 ≤ e.1).foldl
    (fun d (e : Nat × Nat × α) => d + Num.ofNat e.1 * e.2.2 * ipow x (e.1 - 1) * ipow y e.2.1) dzdx
  let dzdy := ((coefIdx c).filter fun e => 1 ≤ e.2.1).foldl
    (fun d (e : Nat × Nat × α) => d + Num.ofNat e.2.1 * e.2.2 * ipow x e.1 * ipow y (e.2.1 - 1)) dzdy
  nrNormalize dzdx dzdy

/-- `_chebyshev(n, x) = cos(n arccos x)` -/
def cheb (n : Nat) (x : α) : α := Num.cos (Num.ofNat n * Num.acos x)
/-- `_chebyshev_derivative` -/
def chebD (n : Nat) (x : α) : α := Num.ofNat n * Num.sin (Num.ofNat n * Num.acos x) / Num.sqrt (1 - x * x)

/-- entries with `c != 0` (`np.argwhere`, row-major) -/
def nonZero (c : List (List α)) : List (Nat × Nat × α) :=
  (coefIdx c).filter fun e => !(Num.isZero e.2.2)

/-- `_validate_inputs` for one point -/
def chebOutside (xn yn : α) : Bool := Num.lt 1 (Num.abs xn) || Num.lt 1 (Num.abs yn)

def chebSag (R k : α) (c : List (List α)) (nx ny x y : α) : α :=
  let xn := x / nx
  let yn := y / ny
  (nonZero c).foldl (fun z (e : Nat × Nat × α) => z + e.2.2 * cheb e.1 xn * cheb e.2.1 yn) (conicSag R k x y)

def chebNormal (R k : α) (c : List (List α)) (nx ny x y : α) : α × α × α :=
  let xn := x / nx
  let yn := y / ny
  let (dzdx, dzdy) := conicSlope R k x y
  let (dzdx, dzdy) := (nonZero c).foldl (fun (d : α × α) (e : Nat × Nat × α) =>
    (d.1 + chebD e.1 xn * e.2.2 * cheb e.2.1 yn, d.2 + chebD e.2.1 yn * e.2.2 * cheb e.1 xn)) (dzdx, dzdy)
  nrNormalize dzdx dzdy

/-- `Geom.sag` for the Newton–Raphson families -/
def Geom.nrSag : Geom α → α → α → α
  | .evenAsphere R k _ _ c, x, y => asphSag R k c x y
  | .polynomial R k _ _ c, x, y => polySag R k c x y
  | .chebyshev R k _ _ c nx ny, x, y => chebSag R k c nx ny x y
  | .standard R k, x, y => conicSag R k x y
  | .plane, _, _ => 0

/-- `_intersection_sphere`: first guess on the base sphere (conic constant ignored) -/
def sphereGuess (R : α) (r : Ray α) : α × α × α :=
  let a := r.L * r.L + r.M * r.M + r.N * r.N
  let b := 2 * r.L * r.x + 2 * r.M * r.y - 2 * r.N * R + 2 * r.N * r.z
  let c := r.x * r.x + r.y * r.y + r.z * r.z - 2 * R * r.z
  let t := selectRoot a b c r.z r.N
  (r.x + r.L * t, r.y + r.M * t, r.z + r.N * t)

def isNaN (a : α) : Bool := !(Num.le a a)

/-- `np.max` of a non-empty array (NaN-propagating) -/
def npMax : List α → α
  | [] => 0
  | a :: l => l.foldl (fun acc v => if isNaN acc then acc else if isNaN v then v
                                     else if Num.lt acc v then v else acc) a

/-- one Newton–Raphson sweep over the whole batch: new points and the batch-wide `max |dz|` -/
def nrSweep (g : Geom α) (rays : List (Ray α)) (pts : List (α × α × α)) : List (α × α × α) × α :=
  let stepped := (pts.zip rays).map fun (pr : (α × α × α) × Ray α) =>
    let (p, r) := pr
    let zs := g.nrSag p.1 p.2.1
    let dz := p.2.2 - zs
    let dist := dz / r.N
    ((p.1 - dist * r.L, p.2.1 - dist * r.M, p.2.2 - dist * r.N), Num.abs dz)
  (stepped.map (·.1), npMax (stepped.map (·.2)))

/-- the `for i in range(max_iter)` loop with its `break` -/
def nrLoop (g : Geom α) (rays : List (Ray α)) (tol : α) : Nat → List (α × α × α) → List (α × α × α)
  | 0, pts => pts
  | n+1, pts =>
    let (pts', m) := nrSweep g rays pts
    if Num.lt m tol then pts' else nrLoop g rays tol n pts'

/-- `NewtonRaphsonGeometry.distance` for a batch -/
def nrDistance (g : Geom α) (R tol : α) (maxIter : Nat) (rays : List (Ray α)) : List α :=
  let pts := rays.map (sphereGuess R)
  let pts := nrLoop g rays tol maxIter pts
  (pts.zip rays).map fun (pr : (α × α × α) × Ray α) =>
    let (p, r) := pr
    let dx := p.1 - r.x
    let dy := p.2.1 - r.y
    let dz := p.2.2 - r.z
    Num.sqrt (dx * dx + dy * dy + dz * dz)

/-- does a Chebyshev surface reject this batch at these points (`ValueError`)? -/
def chebRejects (nx ny : α) (pts : List (α × α)) : Bool :=
  pts.any fun p => chebOutside (p.1 / nx) (p.2 / ny)

/-- `geometry.distance(rays)` -/
def Geom.distance (g : Geom α) (rays : List (Ray α)) : List α :=
  match g with
  | .plane => rays.map planeDistance
  | .standard R k => rays.map (stdDistance R k)
  | .evenAsphere R _ tol mi _ => nrDistance g R tol mi rays
  | .polynomial R _ tol mi _ => nrDistance g R tol mi rays
  | .chebyshev R _ tol mi _ _ _ => nrDistance g R tol mi rays

/-- `geometry.surface_normal(rays)` for one ray (already propagated to the surface) -/
def Geom.normal (g : Geom α) (r : Ray α) : α × α × α :=
  match g with
  | .plane => (0, 0, 1)
  | .standard R k => stdNormal R k r.x r.y
  | .evenAsphere R k _ _ c => asphNormal R k c r.x r.y
  | .polynomial R k _ _ c => polyNormal R k c r.x r.y
  | .chebyshev R k _ _ c nx ny => chebNormal R k c nx ny r.x r.y

/-! ### surfaces -/

inductive RKind where
  | object | standard | image
deriving DecidableEq, Repr, Inhabited

/-- what the real tracer reads from one surface at the ray wavelength -/
structure RSurf (α : Type) where
  kind : RKind
  cs : Cs α
  geom : Geom α
  n1 : α
  n2 : α
  /-- `material_pre.k(w)` -/
  k1 : α
  refl : Bool
  /-- `RadialAperture(r_max, r_min)` -/
  aperture : Option (α × α)
  /-- `SimpleCoating(T, R)` -/
  coating : Option (α × α)

/-- `RadialAperture.clip` -/
def clip (ap : Option (α × α)) (r : Ray α) : Ray α :=
  match ap with
  | none => r
  | some (rmax, rmin) =>
    let radius2 := r.x * r.x + r.y * r.y
    if Num.lt (rmax * rmax) radius2 || Num.lt radius2 (rmin * rmin) then { r with i := 0 } else r

/-- `Surface._interact` (no BSDF, no polarization) -/
def interact (s : RSurf α) (r : Ray α) : Ray α :=
  match s.kind with
  | .image => r
  | _ =>
    let (nx, ny, nz) := s.geom.normal r
    let r := if s.refl then r.reflect nx ny nz else r.refract nx ny nz s.n1 s.n2
    match s.coating with
    | none => r
    | some (T, R) => if s.refl then { r with i := r.i * R } else { r with i := r.i * T }

/-- `Surface._trace_real` on a batch; `w` is the wavelength (µm) -/
def traceSurf (s : RSurf α) (w : α) (rays : List (Ray α)) : List (Ray α) :=
  match s.kind with
  | .object => rays
  | _ =>
    let rays := rays.map s.cs.localize
    let ts := s.geom.distance rays
    (rays.zip ts).map fun (rt : Ray α × α) =>
      let (r, t) := rt
      let r := r.propagate t s.k1 w
      let r := { r with opd := r.opd + Num.abs (t * s.n1) }
      let r := clip s.aperture r
      let r := interact s r
      s.cs.globalize r

/-- `SurfaceGroup.trace`: the per-surface records -/
def traceLens (w : α) : List (RSurf α) → List (Ray α) → List (List (Ray α))
  | [], _ => []
  | s :: ss, rays => let rays' := traceSurf s w rays; rays' :: traceLens w ss rays'

/-- would the implementation raise `ValueError` from a Chebyshev surface?  (checked at the
points where `sag`/`_surface_normal` are evaluated first: the sphere guess) -/
def lensRejects (w : α) : List (RSurf α) → List (Ray α) → Bool
  | [], _ => false
  | s :: ss, rays =>
    let rej := match s.geom, s.kind with
      | .chebyshev R _ _ _ _ nx ny, .standard =>
        chebRejects nx ny ((rays.map s.cs.localize).map fun r => let p := sphereGuess R r; (p.1, p.2.1))
      | _, _ => false
    rej || lensRejects w ss (traceSurf s w rays)

end Model
