import OptiModel.Num
/-!
  Dictionary form of a lens (C19): `Optic.to_dict / from_dict` and every `to_dict / from_dict /
  _from_dict` below it (surfaces, geometries, coordinate systems, materials, coatings, scatter
  models, physical apertures, fields, wavelengths, aperture, pickups, solves), key by key, with the
  type-tag registries and the defaults of every `data.get(key, default)`.

  `J ν` is the tree a Python dictionary form can hold: the six JSON kinds plus the two non-JSON
  leaves that the code as it stands puts there (`numpy.ndarray`, a live Python object).
  `jsonOk` is what `json.dump` accepts.

  Numbers are an abstract carrier `ν` with `[Num ν]` (only the literals `0, 1, 1e-10, 100, -1, inf`
  and, for the pickups that `PickupManager.from_dict` re-applies, `* + -` are used).

  Conventions.  `fromDict_code` is what the tree does; `fromDict_spec` is what the property requires
  (pickups are *not* re-applied, an `ImageSurface` is rebuilt).  The model follows the Python on
  well-typed trees; a leaf of the wrong JSON kind (a string where a number is expected …) gives
  `.error` in the model while the Python may store it unchecked.  Errors are compared as a class only.
  No Mathlib import (linked into the driver).
-/
namespace Serial
open scoped Num

/-- a Python dictionary form -/
inductive J (ν : Type) where
  | null
  | bool (b : Bool)
  | num (x : ν)
  /-- a Python `int` used as a surface index (all other numbers, also integral ones such as
  `max_iter`, travel as `num`: Python compares `100 == 100.0`) -/
  | int (n : Nat)
  | str (s : String)
  | arr (l : List (J ν))
  | obj (kv : List (String × J ν))
  /-- `numpy.ndarray` of numbers (1-D) — `json.dump` raises `TypeError` -/
  | ndarray (l : List ν)
  /-- a live Python object (class name, its own dictionary form) — `json.dump` raises `TypeError` -/
  | pyobj (cls : String) (d : J ν)

variable {ν : Type}

namespace J
/-- `data[key]` / `data.get(key)` on an insertion-ordered dict -/
def lookup (key : String) : List (String × J ν) → Option (J ν)
  | [] => none
  | (k, v) :: rest => if k = key then some v else lookup key rest

mutual
/-- what `json.dump` accepts (`allow_nan=True`: `Infinity` is written and read back) -/
def jsonOk : J ν → Bool
  | .null | .bool _ | .num _ | .int _ | .str _ => true
  | .arr l => jsonOkL l
  | .obj kv => jsonOkKV kv
  | .ndarray _ => false
  | .pyobj _ _ => false
def jsonOkL : List (J ν) → Bool
  | [] => true
  | x :: xs => jsonOk x && jsonOkL xs
def jsonOkKV : List (String × J ν) → Bool
  | [] => true
  | (_, v) :: rest => jsonOk v && jsonOkKV rest
end

/-- Python truthiness of the values that occur under `if data['aperture']` etc. -/
def truthy : J ν → Bool
  | .null => false
  | .bool b => b
  | .str s => s ≠ ""
  | .arr l => !l.isEmpty
  | .obj kv => !kv.isEmpty
  | _ => true
end J

abbrev R (α : Type) := Except String α

/-- `data[key]` -/
def req (key : String) (kv : List (String × J ν)) : R (J ν) :=
  match J.lookup key kv with
  | some v => .ok v
  | none => .error ("KeyError " ++ key)

/-- `data.get(key, default)` -/
def getD (key : String) (kv : List (String × J ν)) (dflt : J ν) : J ν :=
  (J.lookup key kv).getD dflt

def asObj : J ν → R (List (String × J ν))
  | .obj kv => .ok kv
  | _ => .error "TypeError: dict expected"
def asNum : J ν → R ν
  | .num x => .ok x
  | _ => .error "TypeError: number expected"
def asNat : J ν → R Nat
  | .int n => .ok n
  | _ => .error "TypeError: index expected"
def asBool : J ν → R Bool
  | .bool b => .ok b
  | _ => .error "TypeError: bool expected"
def asStr : J ν → R String
  | .str s => .ok s
  | _ => .error "TypeError: str expected"
def asOptStr : J ν → R (Option String)
  | .null => .ok none
  | .str s => .ok (some s)
  | _ => .error "TypeError: str or None expected"
def asOptNum : J ν → R (Option ν)
  | .null => .ok none
  | .num x => .ok (some x)
  | _ => .error "TypeError: number or None expected"

/-- `[f(x) for x in l]` where `f` may raise -/
def mapE {α β : Type} (f : α → R β) : List α → R (List β)
  | [] => .ok []
  | a :: as => match f a with
    | .error e => .error e
    | .ok b => match mapE f as with
      | .error e => .error e
      | .ok bs => .ok (b :: bs)

def optJ {α : Type} (f : α → J ν) : Option α → J ν
  | none => .null
  | some a => f a

/-! ## records -/

/-- `cs.z`: a Python float, or the 1-element `ndarray` that `set_thickness` / a solve leaves there -/
inductive ZRep (ν : Type) where
  | scalar (v : ν)
  | arr1 (v : ν)

def ZRep.val : ZRep ν → ν
  | .scalar v => v
  | .arr1 v => v

structure Frame (ν : Type) where
  x : ν
  y : ν
  z : ZRep ν
  rx : ν
  ry : ν
  rz : ν

/-- `CoordinateSystem` with its chain of reference systems -/
inductive CsRec (ν : Type) where
  | root (f : Frame ν)
  | child (f : Frame ν) (ref : CsRec ν)

def CsRec.frame : CsRec ν → Frame ν
  | .root f => f
  | .child f _ => f
def CsRec.hasRef : CsRec ν → Bool
  | .root _ => false
  | .child _ _ => true
def CsRec.setFrame (c : CsRec ν) (f : Frame ν) : CsRec ν :=
  match c with
  | .root _ => .root f
  | .child _ r => .child f r

/-- `EvenAsphere.c`: the list the caller passed, or an `ndarray` if the caller passed one -/
inductive CoefRep (ν : Type) where
  | list (l : List ν)
  | ndarray (l : List ν)

inductive GeomRec (ν : Type) where
  /-- `k`: the attribute `set_conic` leaves on a `Plane` (not part of its dictionary form) -/
  | plane (cs : CsRec ν) (k : Option ν)
  | standard (cs : CsRec ν) (radius conic : ν)
  | evenAsphere (cs : CsRec ν) (radius conic tol maxIter : ν) (c : CoefRep ν)
  | polynomial (cs : CsRec ν) (radius conic tol maxIter : ν) (c : List (List ν))
  | chebyshev (cs : CsRec ν) (radius conic tol maxIter : ν) (c : List (List ν)) (normX normY : ν)

inductive MatRec (ν : Type) where
  | ideal (n k : ν)
  /-- `Mirror()` : index −1, absorp 0 -/
  | mirror
  | abbe (n v : ν)
  /-- `Material(name, reference, robust_search, min_wavelength, max_wavelength)`; `filename` is what
  the catalogue lookup returned when the object was made -/
  | material (filename name : String) (reference : Option String) (robust : Bool) (minWl maxWl : Option ν)
  | file (filename : String)

inductive ApRec (ν : Type) where
  | radial (rMax rMin : ν)

inductive CoatRec (ν : Type) where
  | simple (t r : ν)
  /-- holds the two material *objects* -/
  | fresnel (pre post : MatRec ν)

inductive BsdfRec (ν : Type) where
  | lambertian
  | gaussian (sigma : ν)

inductive SurfRec (ν : Type) where
  | object (g : GeomRec ν) (post : MatRec ν)
  | standard (g : GeomRec ν) (pre post : MatRec ν) (isStop : Bool) (ap : Option (ApRec ν))
      (coat : Option (CoatRec ν)) (bsdf : Option (BsdfRec ν)) (refl : Bool)
  /-- `ImageSurface(geometry, material_pre, aperture)` -/
  | image (g : GeomRec ν) (pre : MatRec ν) (ap : Option (ApRec ν))

structure FieldRec (ν : Type) where
  fieldType : Option String
  x : ν
  y : ν
  vx : ν
  vy : ν

inductive WUnit where
  | nm | um | mm | cm | m
deriving DecidableEq, Repr

def WUnit.name : WUnit → String
  | .nm => "nm" | .um => "um" | .mm => "mm" | .cm => "cm" | .m => "m"

/-- `unit.lower()` followed by the table of `_convert_to_um` (`ValueError` otherwise) -/
def WUnit.parse (s : String) : R WUnit :=
  -- a lower-case name is its own `lower()`: exact match first (this is the branch the theorems use)
  if s = "nm" then .ok .nm else if s = "um" then .ok .um else if s = "mm" then .ok .mm
  else if s = "cm" then .ok .cm else if s = "m" then .ok .m else
  let t := s.toLower
  if t = "nm" then .ok .nm else if t = "um" then .ok .um else if t = "mm" then .ok .mm
  else if t = "cm" then .ok .cm else if t = "m" then .ok .m
  else .error "ValueError: unsupported unit"

structure WaveRec (ν : Type) where
  value : ν
  primary : Bool
  unit : WUnit

inductive PolRec (ν : Type) where
  | ignore
  /-- a `PolarizationState` object -/
  | state (polarized : Bool) (ex ey px py : Option ν)

inductive ApType where
  | EPD | imageFNO | objectNA
deriving DecidableEq, Repr

def ApType.name : ApType → String
  | .EPD => "EPD" | .imageFNO => "imageFNO" | .objectNA => "objectNA"

structure SysAp (ν : Type) where
  ty : ApType
  value : ν
  telecentric : Bool

inductive PickAttr where
  | radius | conic | thickness
deriving DecidableEq, Repr

def PickAttr.name : PickAttr → String
  | .radius => "radius" | .conic => "conic" | .thickness => "thickness"

structure PickRec (ν : Type) where
  src : Nat
  attr : PickAttr
  tgt : Nat
  scale : ν
  offset : ν

structure SolveRec (ν : Type) where
  idx : Nat
  height : ν

structure LensRec (ν : Type) where
  aperture : Option (SysAp ν)
  surfaces : List (SurfRec ν)
  fields : List (FieldRec ν)
  /-- `FieldGroup.telecentric` -/
  fgTelecentric : Bool
  /-- `Optic.field_type` -/
  fieldType : Option String
  /-- `Optic.obj_space_telecentric` -/
  objTelecentric : Bool
  waves : List (WaveRec ν)
  polarization : PolRec ν
  pickups : List (PickRec ν)
  solves : List (SolveRec ν)

/-! ## `to_dict` -/
section toDict
variable [Num ν]

/-- literals of the code -/
def tolDefault : ν := Num.ofRat 1 10000000000      -- 1e-10
def maxIterDefault : ν := Num.ofNat 100
def negOne : ν := Num.neg Num.one

def zToJ : ZRep ν → J ν
  | .scalar v => .num v
  | .arr1 v => .ndarray [v]

def frameKV (f : Frame ν) (ref : J ν) : List (String × J ν) :=
  [("x", .num f.x), ("y", .num f.y), ("z", zToJ f.z), ("rx", .num f.rx), ("ry", .num f.ry),
   ("rz", .num f.rz), ("reference_cs", ref)]

/-- `CoordinateSystem.to_dict` -/
def csToDict : CsRec ν → J ν
  | .root f => .obj (frameKV f .null)
  | .child f r => .obj (frameKV f (csToDict r))

def numsJ (l : List ν) : J ν := .arr (l.map .num)
def coefToJ : CoefRep ν → J ν
  | .list l => numsJ l
  | .ndarray l => .ndarray l
/-- `self.c.tolist()` of a 2-D array -/
def matrixJ (m : List (List ν)) : J ν := .arr (m.map numsJ)

/-- `Plane/StandardGeometry/NewtonRaphsonGeometry/EvenAsphere/PolynomialGeometry/
ChebyshevPolynomialGeometry.to_dict` (the `super().to_dict()` + `update` chain, in insertion order) -/
def geomToDict : GeomRec ν → J ν
  | .plane cs _ => .obj [("type", .str "Plane"), ("cs", csToDict cs), ("radius", .num Num.inf)]
  | .standard cs r k => .obj [("type", .str "StandardGeometry"), ("cs", csToDict cs), ("radius", .num r),
      ("conic", .num k)]
  | .evenAsphere cs r k tol mi c => .obj [("type", .str "EvenAsphere"), ("cs", csToDict cs),
      ("radius", .num r), ("conic", .num k), ("tol", .num tol), ("max_iter", .num mi),
      ("coefficients", coefToJ c)]
  | .polynomial cs r k tol mi c => .obj [("type", .str "PolynomialGeometry"), ("cs", csToDict cs),
      ("radius", .num r), ("conic", .num k), ("tol", .num tol), ("max_iter", .num mi),
      ("coefficients", matrixJ c)]
  | .chebyshev cs r k tol mi c nx ny => .obj [("type", .str "ChebyshevPolynomialGeometry"),
      ("cs", csToDict cs), ("radius", .num r), ("conic", .num k), ("tol", .num tol), ("max_iter", .num mi),
      ("coefficients", matrixJ c), ("norm_x", .num nx), ("norm_y", .num ny)]

def optNumJ : Option ν → J ν := optJ .num
def optStrJ : Option String → J ν := optJ .str

def matClass : MatRec ν → String
  | .ideal _ _ => "IdealMaterial" | .mirror => "Mirror" | .abbe _ _ => "AbbeMaterial"
  | .material .. => "Material" | .file _ => "MaterialFile"

/-- `IdealMaterial/Mirror/AbbeMaterial/Material/MaterialFile.to_dict` -/
def matToDict : MatRec ν → J ν
  | .ideal n k => .obj [("type", .str "IdealMaterial"), ("index", .num n), ("absorp", .num k)]
  | .mirror => .obj [("type", .str "Mirror"), ("index", .num negOne), ("absorp", .num Num.zero)]
  | .abbe n v => .obj [("type", .str "AbbeMaterial"), ("index", .num n), ("abbe", .num v)]
  | .material fn name ref robust lo hi => .obj [("type", .str "Material"), ("filename", .str fn),
      ("name", .str name), ("reference", optStrJ ref), ("robust_search", .bool robust),
      ("min_wavelength", optNumJ lo), ("max_wavelength", optNumJ hi)]
  | .file fn => .obj [("type", .str "MaterialFile"), ("filename", .str fn)]

/-- `RadialAperture.to_dict` -/
def apToDict : ApRec ν → J ν
  | .radial rmax rmin => .obj [("type", .str "RadialAperture"), ("r_max", .num rmax), ("r_min", .num rmin)]

/-- the material *object* inside `FresnelCoating.to_dict` -/
def matObj (m : MatRec ν) : J ν := .pyobj (matClass m) (matToDict m)

/-- `SimpleCoating/FresnelCoating.to_dict` (code: the Fresnel coating returns its material objects) -/
def coatToDict_code : CoatRec ν → J ν
  | .simple t r => .obj [("type", .str "SimpleCoating"), ("transmittance", .num t), ("reflectance", .num r)]
  | .fresnel pre post => .obj [("type", .str "FresnelCoating"), ("material_pre", matObj pre),
      ("material_post", matObj post)]

/-- spec: the materials in their own dictionary form -/
def coatToDict_spec : CoatRec ν → J ν
  | .simple t r => .obj [("type", .str "SimpleCoating"), ("transmittance", .num t), ("reflectance", .num r)]
  | .fresnel pre post => .obj [("type", .str "FresnelCoating"), ("material_pre", matToDict pre),
      ("material_post", matToDict post)]

/-- `LambertianBSDF/GaussianBSDF.to_dict` -/
def bsdfToDict : BsdfRec ν → J ν
  | .lambertian => .obj [("type", .str "LambertianBSDF")]
  | .gaussian s => .obj [("type", .str "GaussianBSDF"), ("sigma", .num s)]

/-- `Surface.to_dict` / `ObjectSurface.to_dict` (an `ImageSurface` inherits `Surface.to_dict`) -/
def surfToDictWith (coat : CoatRec ν → J ν) : SurfRec ν → J ν
  | .object g post => .obj [("type", .str "ObjectSurface"), ("geometry", geomToDict g),
      ("material_post", matToDict post)]
  | .standard g pre post stop ap c b refl => .obj [("type", .str "Surface"), ("geometry", geomToDict g),
      ("material_pre", matToDict pre), ("material_post", matToDict post), ("is_stop", .bool stop),
      ("aperture", optJ apToDict ap), ("coating", optJ coat c), ("bsdf", optJ bsdfToDict b),
      ("is_reflective", .bool refl)]
  | .image g pre ap => .obj [("type", .str "ImageSurface"), ("geometry", geomToDict g),
      ("material_pre", matToDict pre), ("material_post", matToDict pre), ("is_stop", .bool false),
      ("aperture", optJ apToDict ap), ("coating", .null), ("bsdf", .null), ("is_reflective", .bool false)]

/-- `Field.to_dict` -/
def fieldToDict (f : FieldRec ν) : J ν :=
  .obj [("field_type", optStrJ f.fieldType), ("x", .num f.x), ("y", .num f.y), ("vx", .num f.vx),
        ("vy", .num f.vy)]

/-- `Wavelength.to_dict` -/
def waveToDict (w : WaveRec ν) : J ν :=
  .obj [("value", .num w.value), ("is_primary", .bool w.primary), ("unit", .str w.unit.name)]

/-- `Optic.polarization` as stored in the dictionary (code: the object itself) -/
def polToJ_code : PolRec ν → J ν
  | .ignore => .str "ignore"
  | .state p ex ey px py => .pyobj "PolarizationState" (.obj [("is_polarized", .bool p), ("Ex", optNumJ ex),
      ("Ey", optNumJ ey), ("phase_x", optNumJ px), ("phase_y", optNumJ py)])

/-- spec: a dictionary of its five attributes -/
def polToJ_spec : PolRec ν → J ν
  | .ignore => .str "ignore"
  | .state p ex ey px py => .obj [("is_polarized", .bool p), ("Ex", optNumJ ex),
      ("Ey", optNumJ ey), ("phase_x", optNumJ px), ("phase_y", optNumJ py)]

/-- `Aperture.to_dict` -/
def sysApToDict (a : SysAp ν) : J ν :=
  .obj [("type", .str a.ty.name), ("value", .num a.value), ("object_space_telecentric", .bool a.telecentric)]

/-- `Pickup.to_dict` -/
def pickToDict (p : PickRec ν) : J ν :=
  .obj [("source_surface_idx", .int p.src), ("attr_type", .str p.attr.name),
        ("target_surface_idx", .int p.tgt), ("scale", .num p.scale), ("offset", .num p.offset)]

/-- `MarginalRayHeightSolve.to_dict` -/
def solveToDict (s : SolveRec ν) : J ν :=
  .obj [("type", .str "MarginalRayHeightSolve"), ("surface_idx", .int s.idx), ("height", .num s.height)]

/-- `Optic.to_dict` -/
def toDictWith (coat : CoatRec ν → J ν) (pol : PolRec ν → J ν) (p : LensRec ν) : J ν :=
  .obj [("version", .num Num.one),
        ("aperture", optJ sysApToDict p.aperture),
        ("surface_group", .obj [("surfaces", .arr (p.surfaces.map (surfToDictWith coat)))]),
        ("fields", .obj [("fields", .arr (p.fields.map fieldToDict)), ("telecentric", .bool p.fgTelecentric),
                         ("field_type", optStrJ p.fieldType),
                         ("object_space_telecentric", .bool p.objTelecentric)]),
        ("wavelengths", .obj [("wavelengths", .arr (p.waves.map waveToDict)), ("polarization", pol p.polarization)]),
        ("pickups", .arr (p.pickups.map pickToDict)),
        ("solves", .obj [("solves", .arr (p.solves.map solveToDict))])]

/-- what the tree does -/
def toDict_code (p : LensRec ν) : J ν := toDictWith coatToDict_code polToJ_code p
/-- what the property requires (a dictionary that `json.dump` accepts) -/
def toDict_spec (p : LensRec ν) : J ν := toDictWith coatToDict_spec polToJ_spec p

end toDict

/-! ## `from_dict` -/
section fromDict
variable [Num ν]

/-- which variant: the tree as it stands, or what the property requires -/
structure Mode where
  /-- `PickupManager.from_dict` calls `manager.add`, which applies the pickup -/
  reapplyPickups : Bool
  /-- `ImageSurface` has no `_from_dict` of its own: `Surface._from_dict` calls its 3-argument
  constructor with 8 arguments (`TypeError`) -/
  imageRaises : Bool
  /-- Fresnel-coating materials and the polarization state are stored as objects, not dictionaries -/
  liveObjects : Bool
  /-- `Aperture.from_dict(None)` raises `TypeError` (a lens on which `set_aperture` was never called) -/
  noApertureRaises : Bool

def Mode.code : Mode := ⟨true, true, true, true⟩
def Mode.spec : Mode := ⟨false, false, false, false⟩

/-- the catalogue lookup `Material._retrieve_file` (subject of C18; an oracle here) -/
structure Env (ν : Type) where
  lookup : String → Option String → Bool → Option ν → Option ν → R String

def asZ : J ν → R (ZRep ν)
  | .num x => .ok (.scalar x)
  | .ndarray [x] => .ok (.arr1 x)
  | _ => .error "TypeError: number expected"

/-- the six `data.get(key, 0)` of `CoordinateSystem.from_dict` -/
def frameFrom (kv : List (String × J ν)) : R (Frame ν) := do
  let x ← asNum (getD "x" kv (.num Num.zero))
  let y ← asNum (getD "y" kv (.num Num.zero))
  let z ← asZ (getD "z" kv (.num Num.zero))
  let rx ← asNum (getD "rx" kv (.num Num.zero))
  let ry ← asNum (getD "ry" kv (.num Num.zero))
  let rz ← asNum (getD "rz" kv (.num Num.zero))
  pure ⟨x, y, z, rx, ry, rz⟩

mutual
/-- `CoordinateSystem.from_dict` -/
def csFrom : J ν → R (CsRec ν)
  | .obj kv =>
    match refOf kv with
    | none => .error "KeyError reference_cs"
    | some none => (frameFrom kv).map .root
    | some (some (.error e)) => .error e
    | some (some (.ok r)) => (frameFrom kv).map (fun f => .child f r)
  | _ => .error "TypeError: dict expected"
/-- `cls.from_dict(data['reference_cs']) if data['reference_cs'] else None` -/
def refOf : List (String × J ν) → Option (Option (R (CsRec ν)))
  | [] => none
  | (k, v) :: rest =>
    if k = "reference_cs" then some (if J.truthy v then some (csFrom v) else none) else refOf rest
end

def coefFrom : J ν → R (CoefRep ν)
  | .arr l => (mapE asNum l).map .list
  | .ndarray l => .ok (.ndarray l)
  | _ => .error "TypeError: list expected"

def rowFrom : J ν → R (List ν)
  | .arr l => mapE asNum l
  | _ => .error "ValueError: inhomogeneous shape"

/-- all rows as long as the first one -/
def rect : List (List ν) → Bool
  | [] => false
  | r :: rs => rs.all (fun q => q.length == r.length)

def isNumJ : J ν → Bool
  | .num _ => true
  | _ => false

/-- `np.atleast_2d(coefficients)` of a (nested) list -/
def matrixFrom : J ν → R (List (List ν))
  | .arr [] => .ok [[]]
  | .arr (x :: xs) =>
    if isNumJ x then (mapE asNum (x :: xs)).map (fun r => [r])
    else match mapE rowFrom (x :: xs) with
      | .error e => .error e
      | .ok rows => if rect rows then .ok rows else .error "ValueError: inhomogeneous shape"
  | _ => .error "TypeError: list expected"

/-- `BaseGeometry.from_dict` (registry) and the `from_dict` of the five classes -/
def geomFrom (j : J ν) : R (GeomRec ν) := do
  let kv ← asObj j
  match J.lookup "type" kv with
  | some (.str t) =>
    if t = "Plane" then do
      let cs ← csFrom (← req "cs" kv)
      pure (.plane cs none)
    else if t = "StandardGeometry" ∨ t = "EvenAsphere" ∨ t = "PolynomialGeometry"
            ∨ t = "ChebyshevPolynomialGeometry" then do
      -- required_keys = {'cs', 'radius'}
      let csj ← req "cs" kv
      let rj ← req "radius" kv
      let cs ← csFrom csj
      let r ← asNum rj
      let k ← asNum (getD "conic" kv (.num Num.zero))
      if t = "StandardGeometry" then pure (.standard cs r k) else do
      let tol ← asNum (getD "tol" kv (.num tolDefault))
      let mi ← asNum (getD "max_iter" kv (.num maxIterDefault))
      if t = "EvenAsphere" then do
        let c ← coefFrom (getD "coefficients" kv (.arr []))
        pure (.evenAsphere cs r k tol mi c)
      else do
        let c ← matrixFrom (getD "coefficients" kv (.arr []))
        if t = "PolynomialGeometry" then pure (.polynomial cs r k tol mi c) else do
        let nx ← asNum (getD "norm_x" kv (.num Num.one))
        let ny ← asNum (getD "norm_y" kv (.num Num.one))
        pure (.chebyshev cs r k tol mi c nx ny)
    else if t = "NewtonRaphsonGeometry" then .error "TypeError: abstract class"
    else .error "ValueError: unknown geometry type"
  | _ => .error "ValueError: unknown geometry type"

/-- `BaseMaterial.from_dict` (registry) and the `from_dict` of the five classes -/
def matFrom (env : Env ν) (j : J ν) : R (MatRec ν) := do
  let kv ← asObj j
  match J.lookup "type" kv with
  | some (.str t) =>
    if t = "IdealMaterial" then do
      let n ← asNum (← req "index" kv)
      let k ← asNum (getD "absorp" kv (.num Num.zero))
      pure (.ideal n k)
    else if t = "Mirror" then pure .mirror
    else if t = "AbbeMaterial" then do
      let n ← asNum (← req "index" kv)
      let v ← asNum (← req "abbe" kv)
      pure (.abbe n v)
    else if t = "Material" then do
      let name ← asStr (← req "name" kv)
      let ref ← asOptStr (getD "reference" kv .null)
      let robust ← asBool (getD "robust_search" kv (.bool true))
      let lo ← asOptNum (getD "min_wavelength" kv .null)
      let hi ← asOptNum (getD "max_wavelength" kv .null)
      let fn ← env.lookup name ref robust lo hi
      pure (.material fn name ref robust lo hi)
    else if t = "MaterialFile" then do
      let fn ← asStr (← req "filename" kv)
      pure (.file fn)
    else .error "ValueError: unknown material type"
  | _ => .error "ValueError: unknown material type"

/-- `BaseAperture.from_dict` -/
def apFrom (j : J ν) : R (ApRec ν) := do
  let kv ← asObj j
  let t ← asStr (← req "type" kv)
  if t = "RadialAperture" then do
    let rmax ← asNum (← req "r_max" kv)
    let rmin ← asNum (← req "r_min" kv)
    pure (.radial rmax rmin)
  else .error "KeyError: aperture type"

/-- a material handed to `FresnelCoating(...)` -/
def matObjFrom (m : Mode) (env : Env ν) : J ν → R (MatRec ν)
  | .pyobj _ d => if m.liveObjects then matFrom env d else .error "TypeError: dict expected"
  | j => if m.liveObjects then .error "unusable coating: material is a dict, not a material object"
         else matFrom env j

/-- `BaseCoating.from_dict` -/
def coatFrom (m : Mode) (env : Env ν) (j : J ν) : R (CoatRec ν) := do
  let kv ← asObj j
  let t ← asStr (← req "type" kv)
  if t = "SimpleCoating" then do
    let tr ← asNum (← req "transmittance" kv)
    let rf ← asNum (← req "reflectance" kv)
    pure (.simple tr rf)
  else if t = "FresnelCoating" then do
    let pre ← matObjFrom m env (← req "material_pre" kv)
    let post ← matObjFrom m env (← req "material_post" kv)
    pure (.fresnel pre post)
  else if t = "BaseCoatingPolarized" then .error "TypeError: abstract class"
  else .error "KeyError: coating type"

/-- `BaseBSDF.from_dict` -/
def bsdfFrom (j : J ν) : R (BsdfRec ν) := do
  let kv ← asObj j
  let t ← asStr (← req "type" kv)
  if t = "LambertianBSDF" then pure .lambertian
  else if t = "GaussianBSDF" then do
    let s ← asNum (← req "sigma" kv)
    pure (.gaussian s)
  else .error "KeyError: bsdf type"

/-- `X.from_dict(data[k]) if data[k] else None` -/
def optFrom {α : Type} (f : J ν → R α) (j : J ν) : R (Option α) :=
  if J.truthy j then (f j).map some else .ok none

/-- `Surface.from_dict` → `_from_dict` of the registered class -/
def surfFrom (m : Mode) (env : Env ν) (j : J ν) : R (SurfRec ν) := do
  let kv ← asObj j
  match J.lookup "type" kv with
  | none => .error "ValueError: missing type"
  | some tj =>
    let t ← asStr tj
    if t = "ObjectSurface" then do
      let g ← geomFrom (← req "geometry" kv)
      let post ← matFrom env (← req "material_post" kv)
      pure (.object g post)
    else do
      let g ← geomFrom (← req "geometry" kv)
      let pre ← matFrom env (← req "material_pre" kv)
      let post ← matFrom env (← req "material_post" kv)
      let ap ← optFrom apFrom (← req "aperture" kv)
      let coat ← optFrom (coatFrom m env) (← req "coating" kv)
      let bsdf ← optFrom bsdfFrom (← req "bsdf" kv)
      let stop ← asBool (← req "is_stop" kv)
      let refl ← asBool (← req "is_reflective" kv)
      if t = "ImageSurface" then
        if m.imageRaises then .error "TypeError: ImageSurface.__init__() takes from 3 to 4 positional arguments"
        else pure (.image g pre ap)
      else pure (.standard g pre post stop ap coat bsdf refl)

/-- `Field.from_dict` -/
def fieldFrom (j : J ν) : R (FieldRec ν) := do
  let kv ← asObj j
  match J.lookup "field_type" kv with
  | none => .error "ValueError: missing field_type"
  | some ft =>
    let ft ← asOptStr ft
    let x ← asNum (getD "x" kv (.num Num.zero))
    let y ← asNum (getD "y" kv (.num Num.zero))
    let vx ← asNum (getD "vx" kv (.num Num.zero))
    let vy ← asNum (getD "vy" kv (.num Num.zero))
    pure ⟨ft, x, y, vx, vy⟩

def clearPrimary (w : WaveRec ν) : WaveRec ν := { w with primary := false }

/-- `WavelengthGroup.add_wavelength` -/
def addWave (ws : List (WaveRec ν)) (w : WaveRec ν) : List (WaveRec ν) :=
  let ws' := if w.primary then ws.map clearPrimary else ws
  let p := if ws.isEmpty then true else w.primary
  ws' ++ [{ w with primary := p }]

/-- the keyword arguments of `add_wavelength(**wave_data)` -/
def waveArgs (j : J ν) : R (WaveRec ν) := do
  let kv ← asObj j
  if !(kv.all fun e => e.1 = "value" || e.1 = "is_primary" || e.1 = "unit") then
    .error "TypeError: unexpected keyword argument"
  else do
  let v ← asNum (← req "value" kv)
  let p ← asBool (getD "is_primary" kv (.bool true))
  let u ← WUnit.parse (← asStr (getD "unit" kv (.str "um")))
  pure ⟨v, p, u⟩

def asArr : J ν → R (List (J ν))
  | .arr l => .ok l
  | _ => .error "TypeError: list expected"

/-- `WavelengthGroup.from_dict` -/
def wavesFrom (l : List (J ν)) : R (List (WaveRec ν)) :=
  (mapE waveArgs l).map (fun ws => ws.foldl addWave [])

def polFrom (m : Mode) : J ν → R (PolRec ν)
  | .str s => if s = "ignore" then .ok .ignore else .error "ValueError: invalid polarization"
  | .pyobj c (.obj kv) =>
    if m.liveObjects ∧ c = "PolarizationState" then do
      let p ← asBool (← req "is_polarized" kv)
      let ex ← asOptNum (← req "Ex" kv)
      let ey ← asOptNum (← req "Ey" kv)
      let px ← asOptNum (← req "phase_x" kv)
      let py ← asOptNum (← req "phase_y" kv)
      pure (.state p ex ey px py)
    else .error "TypeError: polarization"
  | .obj kv =>
    if m.liveObjects then .error "unusable: polarization is a dict, not a PolarizationState"
    else do
      let p ← asBool (← req "is_polarized" kv)
      let ex ← asOptNum (← req "Ex" kv)
      let ey ← asOptNum (← req "Ey" kv)
      let px ← asOptNum (← req "phase_x" kv)
      let py ← asOptNum (← req "phase_y" kv)
      pure (.state p ex ey px py)
  | _ => .error "TypeError: polarization"

def ApType.parse (s : String) : R ApType :=
  if s = "EPD" then .ok .EPD else if s = "imageFNO" then .ok .imageFNO
  else if s = "objectNA" then .ok .objectNA else .error "ValueError: aperture type"

/-- `Aperture.from_dict` (+ the constructor's checks); `Aperture.from_dict(None)` raises `TypeError` -/
def sysApFrom (m : Mode) : J ν → R (Option (SysAp ν))
  | .null => if m.noApertureRaises then .error "TypeError: 'NoneType' object is not iterable" else .ok none
  | .obj kv => do
    let tj ← req "type" kv
    let vj ← req "value" kv
    let ty ← ApType.parse (← asStr tj)
    let v ← asNum vj
    let tele ← asBool (getD "object_space_telecentric" kv (.bool false))
    if (ty = .EPD ∨ ty = .imageFNO) ∧ tele then .error "ValueError: telecentric with EPD/imageFNO"
    else pure (some ⟨ty, v, tele⟩)
  | _ => .error "TypeError: dict expected"

def PickAttr.parse (s : String) : R PickAttr :=
  if s = "radius" then .ok .radius else if s = "conic" then .ok .conic
  else if s = "thickness" then .ok .thickness else .error "ValueError: Invalid source attribute"

/-- the keyword arguments of `PickupManager.add(**pickup_data)` -/
def pickFrom (j : J ν) : R (PickRec ν) := do
  let kv ← asObj j
  if !(kv.all fun e => e.1 = "source_surface_idx" || e.1 = "attr_type" || e.1 = "target_surface_idx"
                        || e.1 = "scale" || e.1 = "offset") then
    .error "TypeError: unexpected keyword argument"
  else do
  let src ← asNat (← req "source_surface_idx" kv)
  let attr ← asStr (← req "attr_type" kv)
  let tgt ← asNat (← req "target_surface_idx" kv)
  let scale ← asNum (getD "scale" kv (.num Num.one))
  let offset ← asNum (getD "offset" kv (.num Num.zero))
  let attr ← PickAttr.parse attr
  pure ⟨src, attr, tgt, scale, offset⟩

/-- `BaseSolve.from_dict` -/
def solveFrom (j : J ν) : R (SolveRec ν) := do
  let kv ← asObj j
  let t ← asStr (← req "type" kv)
  if t = "MarginalRayHeightSolve" then do
    let i ← asNat (← req "surface_idx" kv)
    let h ← asNum (← req "height" kv)
    pure ⟨i, h⟩
  else .error "ValueError: unknown solve type"

end fromDict

/-! ## the edits that `PickupManager.from_dict` re-applies (`Optic.set_radius / set_conic /
set_thickness` on the record) and the other edits of a history -/
section edits
variable [Num ν]

def GeomRec.cs : GeomRec ν → CsRec ν
  | .plane cs _ => cs | .standard cs .. => cs | .evenAsphere cs .. => cs
  | .polynomial cs .. => cs | .chebyshev cs .. => cs

def GeomRec.setCs (g : GeomRec ν) (c : CsRec ν) : GeomRec ν :=
  match g with
  | .plane _ k => .plane c k
  | .standard _ r k => .standard c r k
  | .evenAsphere _ r k t m co => .evenAsphere c r k t m co
  | .polynomial _ r k t m co => .polynomial c r k t m co
  | .chebyshev _ r k t m co nx ny => .chebyshev c r k t m co nx ny

/-- `geometry.radius` -/
def GeomRec.radius : GeomRec ν → ν
  | .plane .. => Num.inf
  | .standard _ r _ => r | .evenAsphere _ r .. => r | .polynomial _ r .. => r | .chebyshev _ r .. => r

/-- `geometry.k` (`AttributeError` on a `Plane` that never had `set_conic` called on it) -/
def GeomRec.conic : GeomRec ν → R ν
  | .plane _ (some k) => .ok k
  | .plane _ none => .error "AttributeError: 'Plane' object has no attribute 'k'"
  | .standard _ _ k => .ok k | .evenAsphere _ _ k .. => .ok k | .polynomial _ _ k .. => .ok k
  | .chebyshev _ _ k .. => .ok k

/-- `Optic.set_radius` on one geometry: a `Plane` becomes `StandardGeometry(cs, value, 0)` -/
def GeomRec.setRadius (g : GeomRec ν) (v : ν) : GeomRec ν :=
  match g with
  | .plane cs _ => .standard cs v Num.zero
  | .standard cs _ k => .standard cs v k
  | .evenAsphere cs _ k t m co => .evenAsphere cs v k t m co
  | .polynomial cs _ k t m co => .polynomial cs v k t m co
  | .chebyshev cs _ k t m co nx ny => .chebyshev cs v k t m co nx ny

/-- `Optic.set_conic`: `surface.geometry.k = value` -/
def GeomRec.setConic (g : GeomRec ν) (v : ν) : GeomRec ν :=
  match g with
  | .plane cs _ => .plane cs (some v)
  | .standard cs r _ => .standard cs r v
  | .evenAsphere cs r _ t m co => .evenAsphere cs r v t m co
  | .polynomial cs r _ t m co => .polynomial cs r v t m co
  | .chebyshev cs r _ t m co nx ny => .chebyshev cs r v t m co nx ny

def SurfRec.geom : SurfRec ν → GeomRec ν
  | .object g _ => g | .standard g .. => g | .image g .. => g

def SurfRec.setGeom (s : SurfRec ν) (g : GeomRec ν) : SurfRec ν :=
  match s with
  | .object _ post => .object g post
  | .standard _ pre post st ap c b r => .standard g pre post st ap c b r
  | .image _ pre ap => .image g pre ap

def modifyAt {β : Type} (l : List β) (k : Nat) (f : β → β) : List β :=
  l.mapIdx fun i x => if i = k then f x else x

/-- `SurfaceGroup.positions` for surfaces without a reference frame (`position_in_gcs[2] = cs.z`);
with a reference frame the model does not follow the rotation chain (`.error`, counted as outside the model) -/
def positions (ss : List (SurfRec ν)) : R (List ν) :=
  mapE (fun s => if s.geom.cs.hasRef then .error "model: reference frame" else .ok s.geom.cs.frame.z.val) ss

/-- how `set_thickness` / a solve write `cs.z` back: the code stores the 1-element array slice,
the repaired code a float -/
def mkZ (arrays : Bool) (v : ν) : ZRep ν := if arrays then .arr1 v else .scalar v

def setZ (arrays : Bool) (s : SurfRec ν) (v : ν) : SurfRec ν :=
  let f := s.geom.cs.frame
  s.setGeom (s.geom.setCs (s.geom.cs.setFrame { f with z := mkZ arrays v }))

/-- `Optic.set_thickness` -/
def setThickness (arrays : Bool) (ss : List (SurfRec ν)) (v : ν) (k : Nat) : R (List (SurfRec ν)) := do
  let pos ← positions ss
  match pos[k+1]?, pos[k]? with
  | some a, some b =>
    let delta := v - a + b
    let p1 := pos.mapIdx fun i z => if k + 1 ≤ i then z + delta else z
    let z1 := p1.getD 1 Num.zero
    let p2 := p1.map fun z => z - z1
    pure (ss.mapIdx fun i s => setZ arrays s (p2.getD i Num.zero))
  | _, _ => .error "IndexError"

def setRadiusAt (ss : List (SurfRec ν)) (v : ν) (k : Nat) : R (List (SurfRec ν)) :=
  if k < ss.length then .ok (modifyAt ss k fun s => s.setGeom (s.geom.setRadius v)) else .error "IndexError"

def setConicAt (ss : List (SurfRec ν)) (v : ν) (k : Nat) : R (List (SurfRec ν)) :=
  if k < ss.length then .ok (modifyAt ss k fun s => s.setGeom (s.geom.setConic v)) else .error "IndexError"

/-- `Pickup.apply` -/
def applyPickup (arrays : Bool) (ss : List (SurfRec ν)) (p : PickRec ν) : R (List (SurfRec ν)) :=
  match ss[p.src]? with
  | none => .error "IndexError"
  | some s =>
    match p.attr with
    | .radius => setRadiusAt ss (p.scale * s.geom.radius + p.offset) p.tgt
    | .conic => do
      let old ← s.geom.conic
      setConicAt ss (p.scale * old + p.offset) p.tgt
    | .thickness => do
      let pos ← positions ss
      match pos[p.src+1]?, pos[p.src]? with
      | some a, some b => setThickness arrays ss (p.scale * (a - b) + p.offset) p.tgt
      | _, _ => .error "IndexError"

/-- `PickupManager.apply` / the loop of `PickupManager.from_dict` -/
def applyPickups (arrays : Bool) (ss : List (SurfRec ν)) : List (PickRec ν) → R (List (SurfRec ν))
  | [] => .ok ss
  | p :: ps => match applyPickup arrays ss p with
    | .error e => .error e
    | .ok ss' => applyPickups arrays ss' ps

end edits

/-! ## `Optic.from_dict` -/
section optic
variable [Num ν]

def fromDictWith (m : Mode) (env : Env ν) (j : J ν) : R (LensRec ν) := do
  let kv ← asObj j
  let ap ← sysApFrom m (← req "aperture" kv)
  let sg ← asObj (← req "surface_group" kv)
  let surfaces ← mapE (surfFrom m env) (← asArr (← req "surfaces" sg))
  let fkv ← asObj (← req "fields" kv)
  let fields ← mapE fieldFrom (← asArr (← req "fields" fkv))
  let fgTele ← asBool (← req "telecentric" fkv)
  let wkv ← asObj (← req "wavelengths" kv)
  let waves ← match J.lookup "wavelengths" wkv with
    | none => .error "ValueError: missing wavelengths"
    | some wl => do wavesFrom (← asArr wl)
  let pickups ← mapE pickFrom (← asArr (← req "pickups" kv))
  let surfaces ← if m.reapplyPickups then applyPickups true surfaces pickups else pure surfaces
  let skv ← asObj (← req "solves" kv)
  let solves ← mapE solveFrom (← asArr (← req "solves" skv))
  let pol ← polFrom m (← req "polarization" wkv)
  let ft ← asOptStr (← req "field_type" fkv)
  let tele ← asBool (← req "object_space_telecentric" fkv)
  pure ⟨ap, surfaces, fields, fgTele, ft, tele, waves, pol, pickups, solves⟩

/-- what the tree does -/
def fromDict_code (env : Env ν) (j : J ν) : R (LensRec ν) := fromDictWith .code env j
/-- what the property requires -/
def fromDict_spec (env : Env ν) (j : J ν) : R (LensRec ν) := fromDictWith .spec env j

end optic

/-! ## edit histories (for "a lens remains serialisable after any sequence of edits")

`scale_system` and an optimisation run are sequences of these primitives (`set_radius`,
`set_thickness`, … followed by `update`); the offsets of the paraxial solves are computed by the
paraxial model of C04 and enter here as given numbers: serialisability depends only on *where* a
value is written and in which Python representation. -/
section history
variable [Num ν]

inductive Edit (ν : Type) where
  | setRadius (v : ν) (k : Nat)
  | setConic (v : ν) (k : Nat)
  | setThickness (v : ν) (k : Nat)
  | setIndex (v : ν) (k : Nat)
  | setTilt (aboutX : Bool) (v : ν) (k : Nat)
  | setDecenter (alongX : Bool) (v : ν) (k : Nat)
  | pickupAdd (p : PickRec ν)
  /-- `solves.add('marginal_ray_height', idx, height)`; `offset` = the shift the solve computes -/
  | solveAdd (s : SolveRec ν) (offset : ν)
  /-- `Optic.update()`; one offset per registered solve -/
  | update (offsets : List ν)
  | imageSolve (offset : ν)
  | addWave (w : WaveRec ν)
  | setPolarization (pol : PolRec ν)

def SurfRec.setPost (s : SurfRec ν) (m : MatRec ν) : SurfRec ν :=
  match s with
  | .object g _ => .object g m
  | .standard g pre _ st ap c b r => .standard g pre m st ap c b r
  | .image g pre ap => .image g pre ap
def SurfRec.setPre (s : SurfRec ν) (m : MatRec ν) : SurfRec ν :=
  match s with
  | .object g post => .object g post
  | .standard g _ post st ap c b r => .standard g m post st ap c b r
  | .image g _ ap => .image g m ap

def mapFrame (s : SurfRec ν) (f : Frame ν → Frame ν) : SurfRec ν :=
  s.setGeom (s.geom.setCs (s.geom.cs.setFrame (f s.geom.cs.frame)))

/-- `MarginalRayHeightSolve.apply`: `cs.z += offset` on the surfaces from `idx` on; `offset` is a
1-element array in the code (`ya[idx]` is one), so the sum is an array -/
def applySolve (arrays : Bool) (ss : List (SurfRec ν)) (idx : Nat) (offset : ν) : List (SurfRec ν) :=
  ss.mapIdx fun i s => if idx ≤ i then mapFrame s (fun f => { f with z := mkZ arrays (f.z.val + offset) }) else s

def applySolves (arrays : Bool) (ss : List (SurfRec ν)) : List (SolveRec ν) → List ν → List (SurfRec ν)
  | s :: rest, o :: os => applySolves arrays (applySolve arrays ss s.idx o) rest os
  | _, _ => ss

/-- `cs.z -= float`: keeps the representation -/
def subZ (z : ZRep ν) (d : ν) : ZRep ν :=
  match z with
  | .scalar v => .scalar (v - d)
  | .arr1 v => .arr1 (v - d)

def orKeep {α : Type} (old : α) : R α → α
  | .ok a => a
  | .error _ => old

/-- one public call; a call that raises leaves the lens as it was -/
def step (arrays : Bool) (p : LensRec ν) : Edit ν → LensRec ν
  | .setRadius v k => { p with surfaces := orKeep p.surfaces (setRadiusAt p.surfaces v k) }
  | .setConic v k => { p with surfaces := orKeep p.surfaces (setConicAt p.surfaces v k) }
  | .setThickness v k => { p with surfaces := orKeep p.surfaces (setThickness arrays p.surfaces v k) }
  | .setIndex v k =>
    if k + 1 < p.surfaces.length then
      { p with surfaces := modifyAt (modifyAt p.surfaces k fun s => s.setPost (.ideal v Num.zero)) (k+1)
                             fun s => s.setPre (.ideal v Num.zero) }
    else p
  | .setTilt ax v k => { p with surfaces := modifyAt p.surfaces k (fun s =>
      mapFrame s (fun f => if ax then { f with rx := v } else { f with ry := v })) }
  | .setDecenter ax v k => { p with surfaces := modifyAt p.surfaces k (fun s =>
      mapFrame s (fun f => if ax then { f with x := v } else { f with y := v })) }
  | .pickupAdd q =>
    match applyPickup arrays p.surfaces q with
    | .ok ss => { p with surfaces := ss, pickups := p.pickups ++ [q] }
    | .error _ => p
  | .solveAdd s o => { p with surfaces := applySolve arrays p.surfaces s.idx o, solves := p.solves ++ [s] }
  | .update os =>
    let ss := orKeep p.surfaces (applyPickups arrays p.surfaces p.pickups)
    { p with surfaces := applySolves arrays ss p.solves os }
  | .imageSolve o => { p with surfaces := modifyAt p.surfaces (p.surfaces.length - 1) (fun s =>
      mapFrame s (fun f => { f with z := subZ f.z o })) }
  | .addWave w => { p with waves := addWave p.waves w }
  | .setPolarization pol => { p with polarization := pol }

def run (arrays : Bool) (p : LensRec ν) (es : List (Edit ν)) : LensRec ν := es.foldl (step arrays) p

end history

/-! ## surface indices counted from the image (added for C19, round 7)

`Pickup`, `MarginalRayHeightSolve`, `Optic.set_radius / set_conic` address a surface as
`surface_group.surfaces[i]` with the Python `int` the caller passed; a negative `i` counts from the image.
`to_dict` writes that `int` verbatim, `Pickup(optic, **data)` / `BaseSolve.from_dict` read it verbatim. -/
section pyindex

/-- `surfaces[i]` for a list of length `n`: the position read (`none` = `IndexError`) -/
def pyIndex (n : Nat) (i : Int) : Option Nat :=
  if 0 ≤ i then (if i < (n : Int) then some i.toNat else none)
  else if -(n : Int) ≤ i then some (i + (n : Int)).toNat else none

/-- a pickup as the caller registered it (indices are Python `int`s of either sign) -/
structure PickRecZ (ν : Type) where
  src : Int
  attr : PickAttr
  tgt : Int
  scale : ν
  offset : ν

/-- a solve as the caller registered it -/
structure SolveRecZ (ν : Type) where
  idx : Int
  height : ν

/-- the leaves of a pickup / solve dictionary (a Python `int` of either sign, a number, a string) -/
inductive JV (ν : Type) where
  | int (i : Int)
  | num (x : ν)
  | str (s : String)

def JV.lookup (key : String) : List (String × JV ν) → Option (JV ν)
  | [] => none
  | (k, v) :: rest => if k = key then some v else JV.lookup key rest

def JV.asInt : Option (JV ν) → R Int
  | some (.int i) => .ok i
  | some _ => .error "TypeError: index expected"
  | none => .error "KeyError"
def JV.asNum : Option (JV ν) → R ν
  | some (.num x) => .ok x
  | some _ => .error "TypeError: number expected"
  | none => .error "KeyError"
def JV.asStr : Option (JV ν) → R String
  | some (.str s) => .ok s
  | some _ => .error "TypeError: str expected"
  | none => .error "KeyError"

/-- `Pickup.to_dict`: the indices as they are stored on the object -/
def pickZToDict (p : PickRecZ ν) : List (String × JV ν) :=
  [("source_surface_idx", .int p.src), ("attr_type", .str p.attr.name),
   ("target_surface_idx", .int p.tgt), ("scale", .num p.scale), ("offset", .num p.offset)]

/-- seeded slip: a `to_dict` that 'normalises' an index counted from the image with `len - 1` for `len` -/
def normIdxSlip (n : Nat) (i : Int) : Int := if i < 0 then ((n : Int) - 1) + i else i

/-- the correct normalisation, for comparison -/
def normIdx (n : Nat) (i : Int) : Int := if i < 0 then (n : Int) + i else i

def pickZToDict_slip (n : Nat) (p : PickRecZ ν) : List (String × JV ν) :=
  pickZToDict { p with src := normIdxSlip n p.src, tgt := normIdxSlip n p.tgt }

/-- `Pickup(optic, **pickup_data)` -/
def pickZFrom (kv : List (String × JV ν)) : R (PickRecZ ν) := do
  let src ← JV.asInt (JV.lookup "source_surface_idx" kv)
  let attr ← JV.asStr (JV.lookup "attr_type" kv)
  let tgt ← JV.asInt (JV.lookup "target_surface_idx" kv)
  let scale ← JV.asNum (JV.lookup "scale" kv)
  let offset ← JV.asNum (JV.lookup "offset" kv)
  let attr ← PickAttr.parse attr
  pure ⟨src, attr, tgt, scale, offset⟩

/-- `MarginalRayHeightSolve.to_dict` / `BaseSolve.from_dict` -/
def solveZToDict (s : SolveRecZ ν) : List (String × JV ν) :=
  [("type", .str "MarginalRayHeightSolve"), ("surface_idx", .int s.idx), ("height", .num s.height)]

def solveZFrom (kv : List (String × JV ν)) : R (SolveRecZ ν) := do
  let t ← JV.asStr (JV.lookup "type" kv)
  if t = "MarginalRayHeightSolve" then do
    let i ← JV.asInt (JV.lookup "surface_idx" kv)
    let h ← JV.asNum (JV.lookup "height" kv)
    pure ⟨i, h⟩
  else .error "ValueError: unknown solve type"

/-- the surfaces a pickup addresses in a lens of `n` surfaces: the record of the index-resolved model
(`none` = `IndexError` at the next `apply`) -/
def PickRecZ.resolve (n : Nat) (p : PickRecZ ν) : Option (PickRec ν) :=
  match pyIndex n p.src, pyIndex n p.tgt with
  | some s, some t => some ⟨s, p.attr, t, p.scale, p.offset⟩
  | _, _ => none

def SolveRecZ.resolve (n : Nat) (s : SolveRecZ ν) : Option (SolveRec ν) :=
  (pyIndex n s.idx).map fun k => ⟨k, s.height⟩

/-- `Pickup.apply` with the indices as registered (radius and conic pickups; a thickness pickup reads
`positions[src + 1]`, which for `src = -1` is `positions[0]` — not followed here) -/
def applyPickupZ [Num ν] (arrays : Bool) (ss : List (SurfRec ν)) (p : PickRecZ ν) : R (List (SurfRec ν)) :=
  match p.resolve ss.length with
  | none => .error "IndexError"
  | some q => applyPickup arrays ss q

/-- start of the slice `surfaces[i:]` over which `MarginalRayHeightSolve.apply` shifts `cs.z` (a slice never
raises; out-of-range bounds are clamped) -/
def pySliceStart (n : Nat) (i : Int) : Nat :=
  if 0 ≤ i then (if i < (n : Int) then i.toNat else n)
  else if -(n : Int) ≤ i then (i + (n : Int)).toNat else 0

/-- the shift of `MarginalRayHeightSolve.apply` with the index as registered -/
def applySolveZ [Num ν] (arrays : Bool) (ss : List (SurfRec ν)) (idx : Int) (offset : ν) : List (SurfRec ν) :=
  applySolve arrays ss (pySliceStart ss.length idx) offset

end pyindex

/-! ## which object owns the object-space-telecentric flag (added for C19, round 7)

Three copies exist: `Optic.obj_space_telecentric` (`LensRec.objTelecentric`), `FieldGroup.telecentric`
(`LensRec.fgTelecentric`) and `Aperture.object_space_telecentric` (`SysAp.telecentric`).
`Optic.to_dict` writes `fields.object_space_telecentric` from the first. -/
section flags
variable [Num ν]

/-- seeded slip: `data['fields']['object_space_telecentric'] = self.fields.telecentric` -/
def toDict_fgFlag (p : LensRec ν) : J ν := toDict_code { p with objTelecentric := p.fgTelecentric }

/-- seeded slip: `... = self.aperture.object_space_telecentric` (`False` without an aperture) -/
def toDict_apFlag (p : LensRec ν) : J ν :=
  toDict_code { p with objTelecentric := match p.aperture with
                                          | some a => a.telecentric
                                          | none => false }

end flags

end Serial
