import OptiModel.Model.Presc
/-!
  Tolerancing model: `optiland/tolerancing/{perturbation,core,sensitivity_analysis,monte_carlo,
  compensator}.py` and `optimization/variable/*.py`.

  * `Sys`     – what a `Variable` needs from a lens: read one quantity, write one quantity.
                `prescSys` is the instance on the prescription state machine `Presc`
                (`RadiusVariable`, `ConicVariable`, `ThicknessVariable`, `IndexVariable`,
                `AsphereCoeffVariable`, `TiltVariable`, `DecenterVariable`).
  * `TVar`    – a `Variable` (quantity + `scale`/`inverse_scale`; perturbations are built with
                `apply_scaling=False`, compensators with the default `apply_scaling=True`).
  * `PVar`    – a `Variable` together with its `initial_value` (read at construction).
  * `Sampler` – `ScalarSampler`, `RangeSampler` (wrap-around), `DistributionSampler`: the values
                NumPy's *global* generator is going to return are an input stream shared by all
                distribution samplers (they all call `np.random.normal/uniform`).
  * `Tol`     – `Tolerancing`: perturbation variables, compensator variables, operands and the
                compensator optimiser as an arbitrary oracle (`oracle j s` = values, in the scaled
                units of the variables, at which the j-th optimiser run started on lens `s` leaves
                the compensator variables).
  * `runSA`, `runMC_code`, `runMC_spec` – `SensitivityAnalysis.run`, `MonteCarlo.run` as it is
                in the tree (no reset after the last trial, finding F7) and as the property requires.

  The lens update of a perturbation never influences what a sampler returns, so one trial is
  written as "draw all values of the trial (`drawMany`), then update the lens in the same order
  (`applyVals`)": the same sequence of sampler calls and the same sequence of lens updates as the
  Python loop `for p in perturbations: p.apply()`.
-/
namespace Model
open scoped Num

/-! ## samplers -/
section Samplers
variable {α : Type} [Num α]

/-- `np.tolLinspace(start, stop, steps)` (endpoint included), as NumPy computes it:
`arange(steps) * step + start` with `step = (stop-start)/(steps-1)`, last element overwritten by
`stop`; `arange/div*delta + start` when `step == 0`. -/
def tolLinspace (start stop : α) (steps : Nat) : List α :=
  let delta := stop - start
  match steps with
  | 0 => []
  | 1 => [Num.ofNat 0 * delta + start]
  | n+2 =>
    let div : α := Num.ofNat (n+1)
    let step := delta / div
    (List.range (n+2)).map fun i =>
      if i = n+1 then stop
      else if Num.isZero step then Num.ofNat i / div * delta + start
      else Num.ofNat i * step + start

inductive Sampler (α : Type) where
  /-- `ScalarSampler(value)` -/
  | scalar (v : α)
  /-- `RangeSampler`: `values = tolLinspace(start,end,steps)`, running `index` -/
  | range (values : List α) (index : Nat)
  /-- `DistributionSampler`: draws from NumPy's global generator -/
  | dist

/-- `RangeSampler(start, end, steps)` -/
def Sampler.mkRange (start stop : α) (steps : Nat) : Sampler α := .range (tolLinspace start stop steps) 0

/-- `sampler.size` (what `SensitivityAnalysis.run` iterates over) -/
def Sampler.size : Sampler α → Nat
  | .scalar _ => 1
  | .range vs _ => vs.length
  | .dist => 0

def Sampler.isRange : Sampler α → Bool
  | .range _ _ => true
  | _ => false

/-- `sampler.sample()`: value, new sampler state, rest of the global random stream -/
def Sampler.sample : Sampler α → List α → α × Sampler α × List α
  | .scalar v, st => (v, .scalar v, st)
  | .range vs i, st =>
    let i := if vs.length ≤ i then 0 else i      -- loop over values
    (vs.getD i 0, .range vs (i+1), st)
  | .dist, st => (st.headD 0, .dist, st.tail)

/-- `perturbation.apply()` of perturbation number `i` (sampler part): `np` = number of perturbations -/
def drawOne (np : Nat) (smps : List (Sampler α)) (st : List α) (i : Nat) :
    (List (Sampler α) × List α) × Option α :=
  if i < np then
    match smps[i]? with
    | some smp =>
      let r := smp.sample st
      ((smps.set i r.2.1, r.2.2), some r.1)
    | none => ((smps, st), none)
  else ((smps, st), none)

/-- the sampler calls of one trial, in order; result: new sampler states/stream and the recorded
`(perturbation number, perturbation.value)` pairs -/
def drawMany (np : Nat) : List (Sampler α) → List α → List Nat →
    (List (Sampler α) × List α) × List (Nat × α)
  | smps, st, [] => ((smps, st), [])
  | smps, st, i :: is =>
    match drawOne np smps st i with
    | (d, some v) => let r := drawMany np d.1 d.2 is; (r.1, (i, v) :: r.2)
    | (d, none) => drawMany np d.1 d.2 is

/-- sampler calls of a whole run: the perturbation values of every row, independent of the lens -/
def drawTrials (np : Nat) : List (Sampler α) → List α → List (List Nat) →
    (List (Sampler α) × List α) × List (List (Nat × α))
  | smps, st, [] => ((smps, st), [])
  | smps, st, t :: ts =>
    let d := drawMany np smps st t
    let r := drawTrials np d.1.1 d.1.2 ts
    (r.1, d.2 :: r.2)

/-- `k` consecutive `sample()` calls on one sampler -/
def sampleSeq : Sampler α → List α → Nat → List α
  | _, _, 0 => []
  | s, st, k+1 => let r := s.sample st; r.1 :: sampleSeq r.2.1 r.2.2 k

end Samplers

/-! ## variables -/

/-- a lens as seen by `Variable`: quantities `ι` that can be read and written -/
structure Sys (σ ι α : Type) where
  get : σ → ι → α
  set : σ → ι → α → σ

/-- `Variable`: quantity, `scale`, `inverse_scale` -/
structure TVar (ι α : Type) where
  idx : ι
  sc : α → α
  un : α → α

section Vars
variable {σ ι α β : Type}

/-- `Variable.value` -/
def TVar.value (S : Sys σ ι α) (v : TVar ι α) (s : σ) : α := v.sc (S.get s v.idx)
/-- `Variable.update(new_value)` -/
def TVar.update (S : Sys σ ι α) (v : TVar ι α) (s : σ) (x : α) : σ := S.set s v.idx (v.un x)

/-- a `Variable` with its `initial_value` -/
structure PVar (ι α : Type) where
  var : TVar ι α
  init : α

/-- `Variable.__init__`: `initial_value = self.value` on the lens at construction time -/
def PVar.make (S : Sys σ ι α) (v : TVar ι α) (N : σ) : PVar ι α := ⟨v, v.value S N⟩
/-- `Variable.reset()` / `Perturbation.reset()` -/
def PVar.reset (S : Sys σ ι α) (s : σ) (p : PVar ι α) : σ := p.var.update S s p.init

/-! ## Tolerancing -/

structure Tol (σ ι α β : Type) where
  perts : List (PVar ι α)
  comps : List (PVar ι α)
  operands : List (σ → β)
  oracle : Nat → σ → List α

/-- `Tolerancing.reset`: perturbations first, then compensator variables -/
def Tol.reset (S : Sys σ ι α) (T : Tol σ ι α β) (s : σ) : σ :=
  T.comps.foldl (PVar.reset S) (T.perts.foldl (PVar.reset S) s)

/-- the optimiser leaves the compensator variables at `xs` -/
def assignAll (S : Sys σ ι α) : List (PVar ι α) → List α → σ → σ
  | p :: ps, x :: xs, s => assignAll S ps xs (p.var.update S s x)
  | _, _, s => s

/-- `Tolerancing.apply_compensators` (`j` = number of the optimiser run): new lens and the recorded
`var.value` of every compensator variable -/
def Tol.applyCompensators (S : Sys σ ι α) (T : Tol σ ι α β) (j : Nat) (s : σ) : σ × List α :=
  if T.comps.isEmpty then (s, [])
  else
    let s' := assignAll S T.comps (T.oracle j s) s
    (s', T.comps.map fun p => p.var.value S s')

/-- `Tolerancing.evaluate` -/
def Tol.evaluate (T : Tol σ ι α β) (s : σ) : List β := T.operands.map fun f => f s

/-- the lens updates `variable.update(value)` of one trial, in order -/
def applyVals (S : Sys σ ι α) (T : Tol σ ι α β) : σ → List (Nat × α) → σ
  | s, [] => s
  | s, iv :: l =>
    match T.perts[iv.1]? with
    | some p => applyVals S T (p.var.update S s iv.2) l
    | none => applyVals S T s l

/-- one row of the result table -/
structure Row (α β : Type) where
  applied : List (Nat × α)
  ops : List β
  comp : List α

structure Run (σ α : Type) where
  lens : σ
  samplers : List (Sampler α)
  stream : List α

variable [Num α]

/-- loop body shared by `SensitivityAnalysis.run` and `MonteCarlo.run`:
reset, apply the perturbations `idxs`, compensate, evaluate, record -/
def trial (S : Sys σ ι α) (T : Tol σ ι α β) (j : Nat) (r : Run σ α) (idxs : List Nat) :
    Run σ α × Row α β :=
  let s0 := T.reset S r.lens
  let d := drawMany T.perts.length r.samplers r.stream idxs
  let s1 := applyVals S T s0 d.2
  let c := T.applyCompensators S j s1
  ({ lens := c.1, samplers := d.1.1, stream := d.1.2 }, ⟨d.2, T.evaluate c.1, c.2⟩)

def runTrials (S : Sys σ ι α) (T : Tol σ ι α β) : Nat → Run σ α → List (List Nat) →
    Run σ α × List (Row α β)
  | _, r, [] => (r, [])
  | j, r, t :: ts =>
    let a := trial S T j r t
    let b := runTrials S T (j+1) a.1 ts
    (b.1, a.2 :: b.2)

/-- `for perturbation in perturbations: for _ in range(perturbation.sampler.size)` -/
def saTrials (sizes : List Nat) : List (List Nat) :=
  (sizes.mapIdx fun i n => List.replicate n [i]).flatten

/-- `for _ in range(num_iterations)`: every perturbation, in order -/
def mcTrials (np n : Nat) : List (List Nat) := List.replicate n (List.range np)

/-- `SensitivityAnalysis.run` (raises `ValueError` unless every sampler is a `RangeSampler`):
trials, then `self.tolerancing.reset()` -/
def runSA (S : Sys σ ι α) (T : Tol σ ι α β) (r : Run σ α) : Run σ α × List (Row α β) :=
  let a := runTrials S T 0 r (saTrials (r.samplers.map Sampler.size))
  ({ a.1 with lens := T.reset S a.1.lens }, a.2)

def saAccepts (r : Run σ α) : Bool := r.samplers.all Sampler.isRange

/-- `MonteCarlo.run(n)` as in the tree: no reset after the last trial (finding F7) -/
def runMC_code (S : Sys σ ι α) (T : Tol σ ι α β) (r : Run σ α) (n : Nat) : Run σ α × List (Row α β) :=
  runTrials S T 0 r (mcTrials T.perts.length n)

/-- `MonteCarlo.run(n)` as the property requires: lens back at nominal when the run completes -/
def runMC_spec (S : Sys σ ι α) (T : Tol σ ι α β) (r : Run σ α) (n : Nat) : Run σ α × List (Row α β) :=
  let a := runMC_code S T r n
  ({ a.1 with lens := T.reset S a.1.lens }, a.2)

/-- the table the property describes: every row evaluated on the *nominal* lens `N` with the recorded
values and the same compensation — no reference to the lens the run started from -/
def specRows (S : Sys σ ι α) (T : Tol σ ι α β) (N : σ) : Nat → List (Sampler α) → List α →
    List (List Nat) → List (Row α β)
  | _, _, _, [] => []
  | j, smps, st, t :: ts =>
    let d := drawMany T.perts.length smps st t
    let c := T.applyCompensators S j (applyVals S T N d.2)
    ⟨d.2, T.evaluate c.1, c.2⟩ :: specRows S T N (j+1) d.1.1 d.1.2 ts

end Vars

/-! ## the instance on `Presc` -/
section PrescVars
variable {α : Type} [Num α]

inductive VKind where
  | radius | conic | thickness | index | coeff (i : Nat) | tiltX | tiltY | decX | decY
deriving DecidableEq, Repr

structure Var where
  kind : VKind
  surf : Nat
deriving DecidableEq, Repr

def surfField (P : Presc α) (f : SRec α → α) (k : Nat) : α := (P.surfs.map f).getD k 0

/-- `VariableBehavior.get_value` without scaling -/
def Var.get (P : Presc α) (v : Var) : α :=
  match v.kind with
  | .radius => surfField P (·.radius) v.surf
  | .conic => surfField P (·.conic) v.surf
  | .thickness => thickness P v.surf
  | .index => matN P ((P.surfs.map (·.mPost)).getD v.surf 0)
  | .coeff i => ((P.surfs.map (·.coeffs)).getD v.surf []).getD i 0
  | .tiltX => surfField P (·.rx) v.surf
  | .tiltY => surfField P (·.ry) v.surf
  | .decX => surfField P (·.dx) v.surf
  | .decY => surfField P (·.dy) v.surf

/-- `VariableBehavior.update_value` without scaling -/
def Var.set (P : Presc α) (v : Var) (x : α) : Presc α :=
  match v.kind with
  | .radius => setRadius P x v.surf
  | .conic => setConic P x v.surf
  | .thickness => setThickness P x v.surf
  | .index => setIndex P x v.surf
  | .coeff i => setCoeff P x v.surf i
  | .tiltX => { P with surfs := modifyAt P.surfs v.surf fun s => { s with rx := x } }
  | .tiltY => { P with surfs := modifyAt P.surfs v.surf fun s => { s with ry := x } }
  | .decX => { P with surfs := modifyAt P.surfs v.surf fun s => { s with dx := x } }
  | .decY => { P with surfs := modifyAt P.surfs v.surf fun s => { s with dy := x } }

def prescSys : Sys (Presc α) Var α := ⟨Var.get, Var.set⟩

/-- `scale` of each `VariableBehavior` -/
def VKind.scale : VKind → α → α
  | .radius, v => v / Num.ofRat 100 1 - Num.ofRat 1 1
  | .thickness, v => v / Num.ofRat 10 1 - Num.ofRat 1 1
  | .index, v => v - Num.ofRat 3 2
  | .coeff i, v => v * Num.ofNat (10 ^ (4 + 2 * i))
  | _, v => v

/-- `inverse_scale` of each `VariableBehavior` -/
def VKind.unscale : VKind → α → α
  | .radius, s => (s + Num.ofRat 1 1) * Num.ofRat 100 1
  | .thickness, s => (s + Num.ofRat 1 1) * Num.ofRat 10 1
  | .index, s => s + Num.ofRat 3 2
  | .coeff i, s => s / Num.ofNat (10 ^ (4 + 2 * i))
  | _, s => s

/-- `Variable(optic, kind, apply_scaling=False, surface_number=k, …)`: a perturbation target -/
def pertVar (v : Var) : TVar Var α := ⟨v, id, id⟩
/-- `Variable(optic, kind, surface_number=k, …)` with the default `apply_scaling=True`: a compensator -/
def compVar (v : Var) : TVar Var α := ⟨v, v.kind.scale, v.kind.unscale⟩

/-! ### finding F-C15-1 (index variable on a dispersive glass)
A medium observed at two wavelengths `(n at the variable's wavelength, n at another wavelength)`.
`IndexVariable.update_value` → `Optic.set_index` installs `IdealMaterial(n=v)`: the same index at
every wavelength. -/
def indexUpdate (_m : α × α) (v : α) : α × α := (v, v)
/-- `Perturbation.reset` of an index perturbation as in the tree: `update(initial_value)` -/
def indexReset_code (_nominal cur : α × α) (init : α) : α × α := indexUpdate cur init
/-- what the property requires: the nominal medium is back -/
def indexReset_spec (nominal _cur : α × α) (_init : α) : α × α := nominal

end PrescVars
end Model
