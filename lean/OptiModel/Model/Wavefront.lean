import OptiModel.Model.Real
/-!
  Wavefront model: `optiland/wavefront.py` (`Wavefront._generate_data`, `_generate_field_data`,
  `_get_reference_sphere`, `_get_path_length`, `_correct_tilt`, `_opd_image_to_xp`, `OPD.rms`,
  `OPDFan` slicing), `analysis/rms_vs_field.py` (`RmsWavefrontErrorVsField`),
  `optimization/operand/ray.py` (`RayOperand.OPD_difference`) and the pieces of
  `distribution.py` they depend on (`np.linspace`, `CrossDistribution`, `GaussianQuadrature`
  points and weights), operation for operation.

  INPUT of the model: the image-surface records (`Model.Ray`: x y z L M N intensity opd) of the
  chief-ray trace and of the pupil trace that `Wavefront` itself makes, the pupil coordinates of
  the distribution, `paraxial.XPL()`, `paraxial.EPD()`, the z position of the image surface, the
  wavelength and the field data.  Ray tracing is the subject of C02 and not repeated here.

  Two variants where the tree does not do what the property requires (findings F-C09-1, F-C09-2):
    * `pathLengthCode`  – `opd − t`          (what `_get_path_length` does: geometric distance)
    * `pathLengthSpec`  – `opd − n_img · t`   (optical path; `n_img` is the index of the medium *behind*
      the image surface, `material_post` of the last surface: in this tree the image surface is an
      ordinary interface and the recorded direction is the one after it)
  and likewise `tiltCorrectionCode` / `tiltCorrectionSpec` (index of the object space).  With
  `n_img = n_obj = 1` they coincide (`Props/C09.lean`, `code_eq_spec`).
-/
namespace Model
namespace Wf
open scoped Num
variable {α : Type} [Num α]

/-- `x ** 2` of a float64 array: NumPy evaluates it as `x * x` -/
def sq (x : α) : α := x * x
def four : α := Num.ofNat 4
/-- the literal `1e-3` -/
def milli : α := Num.ofRat 1 1000
/-- `np.radians` -/
def radians (x : α) : α := x * (Num.pi / Num.ofNat 180)

/-! ### reference sphere -/

structure Sphere (α : Type) where
  xc : α
  yc : α
  zc : α
  R : α

/-- `pupil_z = paraxial.XPL() + surface_group.positions[-1]` (`_generate_data`) -/
def pupilZ (xpl zimg : α) : α := xpl + zimg

/-- `_get_reference_sphere`: centre = chief-ray point on the image surface, radius = distance of
that point from the axial point `(0, 0, pupil_z)` of the paraxial exit pupil -/
def referenceSphere (chief : Ray α) (pz : α) : Sphere α :=
  ⟨chief.x, chief.y, chief.z, Num.sqrt (sq chief.x + sq chief.y + sq (chief.z - pz))⟩

/-! ### `_opd_image_to_xp`: from the image surface back along the ray to the sphere -/

def qa (r : Ray α) : α := sq (Num.neg r.L) + sq (Num.neg r.M) + sq (Num.neg r.N)

def qb (s : Sphere α) (r : Ray α) : α :=
  2 * Num.neg r.L * (r.x - s.xc) + 2 * Num.neg r.M * (r.y - s.yc) + 2 * Num.neg r.N * (r.z - s.zc)

def qc (s : Sphere α) (r : Ray α) : α :=
  sq r.x + sq r.y + sq r.z - 2 * r.x * s.xc + sq s.xc - 2 * r.y * s.yc + sq s.yc -
    2 * r.z * s.zc + sq s.zc - sq s.R

def disc (s : Sphere α) (r : Ray α) : α := sq (qb s r) - four * qa r * qc s r

/-- first root `(-b - sqrt d)/(2a)` -/
def rootMinus (s : Sphere α) (r : Ray α) : α :=
  (Num.neg (qb s r) - Num.sqrt (disc s r)) / (2 * qa r)
/-- second root `(-b + sqrt d)/(2a)` -/
def rootPlus (s : Sphere α) (r : Ray α) : α :=
  (Num.neg (qb s r) + Num.sqrt (disc s r)) / (2 * qa r)

/-- `_opd_image_to_xp`: `t = (-b - sqrt d)/(2a)`; `t[t < 0] = (-b + sqrt d)/(2a)` -/
def imageToXp (s : Sphere α) (r : Ray α) : α :=
  let t := rootMinus s r
  if Num.lt t 0 then rootPlus s r else t

/-- the back-propagated point `P_img + t·(−dir)` -/
def backPoint (r : Ray α) (t : α) : α × α × α :=
  (r.x + t * Num.neg r.L, r.y + t * Num.neg r.M, r.z + t * Num.neg r.N)

/-! ### `_get_path_length` -/

/-- what the tree does: recorded optical path minus the *geometric* distance to the sphere -/
def pathLengthCode (s : Sphere α) (r : Ray α) : α := r.opd - imageToXp s r
/-- what the property requires: minus the *optical* path `n_img · t` in the image space -/
def pathLengthSpec (nImg : α) (s : Sphere α) (r : Ray α) : α := r.opd - nImg * imageToXp s r

/-! ### `_correct_tilt` -/

/-- everything `_generate_data` reads besides the ray records -/
structure Cfg (α : Type) where
  /-- `optic.field_type == 'angle'` -/
  isAngle : Bool
  /-- `fields.max_x_field`, `fields.max_y_field` -/
  maxX : α
  maxY : α
  /-- the field tuple -/
  Hx : α
  Hy : α
  /-- `paraxial.EPD()` -/
  epd : α
  /-- `paraxial.XPL()` -/
  xpl : α
  /-- `surface_group.positions[-1]` -/
  zimg : α
  /-- refractive index behind the image surface / of the object space at the wavelength (spec variants only) -/
  nImg : α
  nObj : α
  /-- wavelength in µm -/
  wavelength : α

def tiltCorrectionCode (c : Cfg α) (x y : α) : α :=
  if c.isAngle then
    let xTilt := c.maxX * c.Hx
    let yTilt := c.maxY * c.Hy
    (1 - x) * Num.sin (radians xTilt) * c.epd / 2 + (1 - y) * Num.sin (radians yTilt) * c.epd / 2
  else 0

/-- optical (not geometric) distance between the start plane and the oblique plane wavefront -/
def tiltCorrectionSpec (c : Cfg α) (x y : α) : α := c.nObj * tiltCorrectionCode c x y

def correctTiltCode (c : Cfg α) (opd x y : α) : α := opd - tiltCorrectionCode c x y
def correctTiltSpec (c : Cfg α) (opd x y : α) : α := opd - tiltCorrectionSpec c x y

/-! ### `_generate_data` / `_generate_field_data` -/

def sphereOf (c : Cfg α) (chief : Ray α) : Sphere α := referenceSphere chief (pupilZ c.xpl c.zimg)

/-- `opd_ref` of `_generate_data` -/
def opdRefCode (c : Cfg α) (chief : Ray α) : α :=
  correctTiltCode c (pathLengthCode (sphereOf c chief) chief) 0 0
def opdRefSpec (c : Cfg α) (chief : Ray α) : α :=
  correctTiltSpec c (pathLengthSpec c.nImg (sphereOf c chief) chief) 0 0

/-- one entry of `data[i][j][0]`: `(opd_ref - opd) / (wavelength * 1e-3)` -/
def opdOfRayCode (c : Cfg α) (chief r : Ray α) (px py : α) : α :=
  let opd := correctTiltCode c (pathLengthCode (sphereOf c chief) r) px py
  (opdRefCode c chief - opd) / (c.wavelength * milli)
def opdOfRaySpec (c : Cfg α) (chief r : Ray α) (px py : α) : α :=
  let opd := correctTiltSpec c (pathLengthSpec c.nImg (sphereOf c chief) r) px py
  (opdRefSpec c chief - opd) / (c.wavelength * milli)

/-- `data[i][j][0]` for the whole pupil sample -/
def opdsCode (c : Cfg α) (chief : Ray α) (rays : List (Ray α)) (pts : List (α × α)) : List α :=
  List.zipWith (fun r p => opdOfRayCode c chief r p.1 p.2) rays pts
def opdsSpec (c : Cfg α) (chief : Ray α) (rays : List (Ray α)) (pts : List (α × α)) : List α :=
  List.zipWith (fun r p => opdOfRaySpec c chief r p.1 p.2) rays pts
/-- `data[i][j][1]`: the image-surface intensity record -/
def intensities (rays : List (Ray α)) : List α := rays.map (·.i)

/-! ### `OPD.rms`, `RmsWavefrontErrorVsField._rms_wavefront_error` -/

def sumL (l : List α) : α := l.foldl (fun a b => a + b) 0
/-- `np.mean` -/
def mean (l : List α) : α := sumL l / Num.ofNat l.length
/-- `np.sqrt(np.mean(opd**2))` -/
def rms (opds : List α) : α := Num.sqrt (mean (opds.map sq))
/-- `_rms_wavefront_error`: entry `[i][j]` is the rms of `data[i][j][0]` -/
def rmsVsField (data : List (List (List α))) : List (List α) := data.map (·.map rms)

/-! ### `np.linspace`, `CrossDistribution`, `OPDFan` slicing -/

def linspace (start stop : α) (n : Nat) : List α :=
  let div := n - 1
  let delta := stop - start
  if div = 0 then (List.range n).map (fun i => Num.ofNat i * delta + start)
  else
    let step := delta / Num.ofNat div
    (List.range n).map (fun i => if i + 1 = n then stop else Num.ofNat i * step + start)

/-- `CrossDistribution.generate_points(n)` with zero vignetting: first the y-fan `(0, t)`, then the
x-fan `(t, 0)`, `t = linspace(-1, 1, n)` -/
def crossPoints (n : Nat) : List (α × α) :=
  let t : List α := linspace (Num.neg 1) 1 n
  let z : List α := List.replicate n 0
  List.zip (z ++ t) (t ++ z)

/-- `OPDFan.view`: `wy = data[:num_rays]`, `wx = data[num_rays:]` -/
def fanY (n : Nat) (data : List α) : List α := data.take n
def fanX (n : Nat) (data : List α) : List α := data.drop n

/-- the fields of `RmsWavefrontErrorVsField`: `(0, Hy)` for `Hy in linspace(0, 1, num_fields)` -/
def rmsFields (n : Nat) : List (α × α) := (linspace (0 : α) 1 n).map (fun h => ((0 : α), h))

/-! ### `GaussianQuadrature` and `RayOperand.OPD_difference` -/

def lit (p q : Nat) : α := Num.ofRat p q

def gqRadius : Nat → List α
  | 1 => [lit 70711 100000]
  | 2 => [lit 45970 100000, lit 88807 100000]
  | 3 => [lit 33571 100000, lit 70711 100000, lit 94196 100000]
  | 4 => [lit 26350 100000, lit 57446 100000, lit 81853 100000, lit 96466 100000]
  | 5 => [lit 21659 100000, lit 48038 100000, lit 70711 100000, lit 87706 100000, lit 97626 100000]
  | 6 => [lit 18375 100000, lit 41158 100000, lit 61700 100000, lit 78696 100000, lit 91138 100000,
          lit 98300 100000]
  | _ => []

def gqWeightsRaw : Nat → List α
  | 1 => [lit 5 10]
  | 2 => [lit 25 100, lit 25 100]
  | 3 => [lit 13889 100000, lit 22222 100000, lit 13889 100000]
  | 4 => [lit 8696 100000, lit 16304 100000, lit 16304 100000, lit 8696 100000]
  | 5 => [lit 59231 1000000, lit 11966 100000, lit 14222 100000, lit 11966 100000, lit 59231 1000000]
  | 6 => [lit 4283 100000, lit 9019 100000, lit 11698 100000, lit 11698 100000, lit 9019 100000,
          lit 4283 100000]
  | _ => []

/-- `get_weights`: `weights *= 6.0` (symmetric) or `2.0` -/
def gqWeights (sym : Bool) (n : Nat) : List α :=
  (gqWeightsRaw n).map (fun w => w * (if sym then Num.ofNat 6 else 2))

def gqThetas (sym : Bool) : List α :=
  if sym then [0] else [Num.neg (lit 104719755 100000000), 0, lit 104719755 100000000]

/-- `np.outer(radius, f(theta)).flatten()`: ring-major -/
def outerFlat (rs : List α) (cs : List α) : List α := rs.flatMap (fun r => cs.map (fun c => r * c))

/-- `generate_points(num_rings)` with zero vignetting -/
def gqPoints (sym : Bool) (n : Nat) : List (α × α) :=
  List.zip (outerFlat (gqRadius n) ((gqThetas sym).map Num.cos))
           (outerFlat (gqRadius n) ((gqThetas sym).map Num.sin))

/-- `np.repeat(w, 3)` -/
def repeat3 (l : List α) : List α := l.flatMap (fun w => [w, w, w])

/-- the `weights` of `OPD_difference` for `distribution='gaussian_quad'`: `Hx == Hy == 0` selects the
symmetric form -/
def opdDiffWeights (onAxis : Bool) (n : Nat) : List α :=
  if onAxis then gqWeights true n else repeat3 (gqWeights false n)

/-- `delta = (opd - mean(opd)) * weights; mean(|delta|)`; `weights = none` is the scalar `1.0` of every
other distribution -/
def opdDifference (opds : List α) (ws : Option (List α)) : α :=
  let m := mean opds
  let delta := match ws with
    | none => opds.map (fun o => (o - m) * 1)
    | some w => List.zipWith (fun o w => (o - m) * w) opds w
  mean (delta.map Num.abs)

/-! ### start points of an infinite-object bundle (`RayGenerator._get_ray_origins`, `generate_rays`)
Needed only to state what `_correct_tilt` subtracts (C03 owns the correspondence of these). -/

structure Launch (α : Type) where
  epl : α
  epd : α
  /-- `_get_starting_z_offset()` -/
  offset : α
  /-- `surface_group.positions[1]` -/
  pos1 : α
  /-- `max_field * Hx`, `max_field * Hy` in degrees -/
  fieldX : α
  fieldY : α
  /-- `1 - vignetting factor` -/
  vx : α
  vy : α

def Launch.start (g : Launch α) (px py : α) : α × α × α :=
  let x := Num.tan (radians g.fieldX) * (g.offset + g.epl)
  let y := Num.neg (Num.tan (radians g.fieldY)) * (g.offset + g.epl)
  let z := g.pos1 - g.offset
  (px * g.epd / 2 * g.vx + x, py * g.epd / 2 * g.vy + y, z)

def Launch.aim (g : Launch α) (px py : α) : α × α × α :=
  (px * g.epd * g.vx / 2, py * g.epd * g.vy / 2, g.epl)

def Launch.dir (g : Launch α) (px py : α) : α × α × α :=
  let p0 := g.start px py
  let p1 := g.aim px py
  let dx := p1.1 - p0.1
  let dy := p1.2.1 - p0.2.1
  let dz := p1.2.2 - p0.2.2
  let mag := Num.sqrt (sq dx + sq dy + sq dz)
  (dx / mag, dy / mag, dz / mag)

end Wf
end Model
