import OptiModel.Num
/-!
  Zernike model: `optiland/zernike.py` — `ZernikeStandard`, `ZernikeFringe`, `ZernikeNoll`
  (`_generate_indices`, `_radial_term`, `_norm_constant`, `_azimuthal_term`, `get_term`, `terms`,
  `poly`), operation for operation.

  Indices are pairs `(n, m) : Int × Int`.  The discrete part (index generation, including the
  `sorted(zip(number, indices))` tie-breaking: tuples compare lexicographically, so the order is by
  `(number, n, m)`) lives over `Int`; the float computations of the ordering numbers are exact for
  every pair the loops produce (they are integers or half-integers far below 2^53), so they are
  modelled over `Int` with truncation where the code calls `int()`.

  `r ** e` is C `pow` for Python floats and NumPy float64 arrays; the carrier supplies it through
  the separate class `PowNat` (Float: `Float.pow`, ℝ: `x ^ e` in `Proofs/Zernike.lean`).

  `ZernikeFit` is *not* modelled (scipy `least_squares`); its specification (least squares /
  normal equations) is stated in `Props/C10.lean`.
-/
namespace Model.Zern
open scoped Num

/-- `x ** e` for a non-negative integer exponent, as the platform computes it -/
class PowNat (α : Type) where
  pow : α → Nat → α

instance : PowNat Float := ⟨fun x e => Float.pow x (Float.ofNat e)⟩

inductive Family where
  | standard | fringe | noll
deriving DecidableEq, Repr, Inhabited

/-! ### index generation -/

/-- `for n in range(N): for m in range(-n, n+1): if (n - m) % 2 == 0:` — the visited pairs in order -/
def nmLoop (N : Nat) : List (Int × Int) :=
  (List.range N).flatMap fun n =>
    ((List.range (2*n+1)).map fun (i : Nat) => ((i:Int) - (n:Int))).filterMap fun m =>
      if ((n:Int) - m) % 2 = 0 then some ((n:Int), m) else none

/-- `np.sign` on an int -/
def isign (m : Int) : Int := if 0 < m then 1 else if m < 0 then -1 else 0

/-- `ZernikeStandard._generate_indices` -/
def standardIndices : List (Int × Int) := nmLoop 15

/-- `int((1 + (n + |m|)/2)**2 - 2|m| + (1 - sign m)/2)`; four times the float value is the integer
`(2+n+|m|)^2 - 8|m| + 2(1 - sign m)` and `int()` truncates toward zero -/
def fringeNumberCode (n m : Int) : Int :=
  Int.tdiv ((2 + n + (m.natAbs:Int))^2 - 8 * (m.natAbs:Int) + 2 * (1 - isign m)) 4

/-- the `c` of `ZernikeNoll._generate_indices`, branch order as coded (the four branches are
exhaustive: `Props/C10.lean`, `noll_branches_exhaustive`; the final `else` is never taken) -/
def nollC (n m : Int) : Int :=
  let mod := n % 4
  if 0 < m ∧ mod ≤ 1 then 0
  else if m < 0 ∧ 2 ≤ mod then 0
  else if 0 ≤ m ∧ 2 ≤ mod then 1
  else if m ≤ 0 ∧ mod ≤ 1 then 1
  else 1

/-- `n * (n + 1) / 2 + np.abs(m) + c` (`n(n+1)` is even, the float value is this integer) -/
def nollNumberCode (n m : Int) : Int := n * (n + 1) / 2 + (m.natAbs:Int) + nollC n m

/-- tuple comparison `(a, (n, m)) <= (a', (n', m'))` -/
def keyLe (x y : Int × Int × Int) : Bool :=
  x.1 < y.1 || (x.1 == y.1 && (x.2.1 < y.2.1 || (x.2.1 == y.2.1 && x.2.2 ≤ y.2.2)))

def insertKey (x : Int × Int × Int) : List (Int × Int × Int) → List (Int × Int × Int)
  | [] => [x]
  | y :: ys => if keyLe x y then x :: y :: ys else y :: insertKey x ys

/-- `sorted(zip(number, indices))`: the order is total on distinct tuples, so every correct
sorting algorithm returns the same list; insertion sort here -/
def sortKeys (l : List (Int × Int × Int)) : List (Int × Int × Int) := l.foldr insertKey []

/-- `[element for _, element in sorted(zip(number, indices))]` -/
def sortedBy (number : Int → Int → Int) (idx : List (Int × Int)) : List (Int × Int) :=
  (sortKeys (idx.map fun p => (number p.1 p.2, p.1, p.2))).map fun t => t.2

/-- `ZernikeFringe._generate_indices` -/
def fringeIndices : List (Int × Int) := (sortedBy fringeNumberCode (nmLoop 20)).take 120

/-- `ZernikeNoll._generate_indices` -/
def nollIndices : List (Int × Int) := sortedBy nollNumberCode (nmLoop 15)

def indices : Family → List (Int × Int)
  | .standard => standardIndices
  | .fringe => fringeIndices
  | .noll => nollIndices

/-! ### radial term -/

def fact : Nat → Nat
  | 0 => 1
  | n+1 => (n+1) * fact n

/-- `s_max = int((n - abs(m)) / 2 + 1)` -/
def sMax (n m : Int) : Nat := (Int.tdiv (n - (m.natAbs:Int) + 2) 2).toNat

/-- magnitude of the `k`-th coefficient as the code forms it:
`math.factorial(n-k) / (math.factorial(k) * math.factorial(int((n+m)/2 - k)) * math.factorial(int((n-m)/2 - k)))`
(numerator, denominator) — Python divides the two integers with one correctly rounded division -/
def coeffFrac (n m : Int) (k : Nat) : Nat × Nat :=
  (fact (n - (k:Int)).toNat,
   fact k * fact (Int.tdiv (n + m - 2*(k:Int)) 2).toNat * fact (Int.tdiv (n - m - 2*(k:Int)) 2).toNat)

/-- the exponent `n - 2k` -/
def expo (n : Int) (k : Nat) : Nat := (n - 2*(k:Int)).toNat

/-- `(-1)**k * a / b` as an exact rational -/
def coeffQ (n m : Int) (k : Nat) : Rat :=
  let f := coeffFrac n m k
  let q : Rat := (f.1 : Rat) / (f.2 : Rat)
  if k % 2 = 0 then q else -q

/-- rational-coefficient form of `_radial_term`: `(exponent, coefficient)` for k = 0 … s_max-1 -/
def radialCoeffs (n m : Int) : List (Nat × Rat) :=
  (List.range (sMax n m)).map fun k => (expo n k, coeffQ n m k)

/-- exact evaluation of a coefficient list at a rational radius -/
def evalQ (p : List (Nat × Rat)) (r : Rat) : Rat :=
  p.foldl (fun v a => v + a.2 * r ^ a.1) 0

/-- `∫₀¹ p q r dr` for coefficient lists, by `∫₀¹ r^k dr = 1/(k+1)` (justified in `Proofs/Zernike.lean`) -/
def innerR (p q : List (Nat × Rat)) : Rat :=
  (p.map fun a => (q.map fun b => a.2 * b.2 / ((a.1 + b.1 + 2 : Nat) : Rat)).sum).sum

section generic
variable {α : Type} [Num α] [PowNat α]

/-- the float coefficient: `(-1)**k * a` is an int, `/ b` one true division; the quotient is reduced
first (for every valid (n,m) it is an integer below 2^53, so the conversion is exact) -/
def coeffNum (n m : Int) (k : Nat) : α :=
  let f := coeffFrac n m k
  let g := Nat.gcd f.1 f.2
  let q : α := Num.ofRat (f.1 / g) (f.2 / g)
  if k % 2 = 0 then q else Num.neg q

/-- `ZernikeStandard._radial_term(n, m, r)`: `value = 0; value += coeff * r ** (n - 2k)` -/
def radialTerm (n m : Int) (r : α) : α :=
  (List.range (sMax n m)).foldl (fun v k => v + coeffNum n m k * PowNat.pow r (expo n k)) 0

/-- `_azimuthal_term(m, phi)`: `cos(m*phi)` for m ≥ 0, else `sin(m*phi)` (m negative inside the sine) -/
def azimuthalTerm (m : Int) (phi : α) : α :=
  if 0 ≤ m then Num.cos (Num.ofNat m.toNat * phi)
  else Num.sin (Num.neg (Num.ofNat m.natAbs) * phi)

/-- `_norm_constant(n, m)` per family -/
def normConstant : Family → Int → Int → α
  | .standard, n, m => Num.sqrt (Num.ofNat (2*n+2).toNat / (if m = 0 then 2 else 1))
  | .fringe, _, _ => 1
  | .noll, n, m => if m = 0 then Num.sqrt (Num.ofNat (n+1).toNat) else Num.sqrt (Num.ofNat (2*n+2).toNat)

/-- `get_term(coeff, n, m, r, phi)` -/
def getTerm (f : Family) (coeff : α) (n m : Int) (r phi : α) : α :=
  coeff * normConstant f n m * radialTerm n m r * azimuthalTerm m phi

/-- `terms(r, phi)`: one value per coefficient, at most `len(indices)` -/
def termsOn (f : Family) (idx : List (Int × Int)) (coeffs : List α) (r phi : α) : List α :=
  List.zipWith (fun c p => getTerm f c p.1 p.2 r phi) coeffs idx

def terms (f : Family) (coeffs : List α) (r phi : α) : List α := termsOn f (indices f) coeffs r phi

/-- `poly(r, phi) = sum(terms(r, phi))` (Python `sum` starts from 0 and adds left to right) -/
def polyOn (f : Family) (idx : List (Int × Int)) (coeffs : List α) (r phi : α) : α :=
  (termsOn f idx coeffs r phi).foldl (· + ·) 0

def poly (f : Family) (coeffs : List α) (r phi : α) : α := polyOn f (indices f) coeffs r phi

end generic

/-! ### published index rules (specification side, independent of the code's loops) -/

/-- a valid Zernike index: `|m| ≤ n`, `n - m` even -/
def validNM (n m : Int) : Prop := 0 ≤ n ∧ -n ≤ m ∧ m ≤ n ∧ (n - m) % 2 = 0

instance (n m : Int) : Decidable (validNM n m) := by unfold validNM; infer_instance

/-- OSA/ANSI single index `j = (n(n+2) + m)/2` -/
def osaIndex (n m : Int) : Int := (n * (n + 2) + m) / 2

/-- Fringe (University of Arizona) number `(1 + (n+|m|)/2)² − 2|m| + ⌊(1 − sgn m)/2⌋` -/
def fringeNumber (n m : Int) : Int :=
  (1 + (n + (m.natAbs:Int)) / 2)^2 - 2 * (m.natAbs:Int) + (if m < 0 then 1 else 0)

/-- Noll's sequential index in closed form: `n(n+1)/2 + |m| + c`, c from `m` and `n mod 4` -/
def nollNumber (n m : Int) : Int :=
  n * (n + 1) / 2 + (m.natAbs:Int) +
    (if (0 < m ∧ n % 4 ≤ 1) ∨ (m < 0 ∧ 2 ≤ n % 4) then 0 else 1)

/-- Noll's rule as Noll states it (J. Opt. Soc. Am. 66, 207): the j-th polynomial (j ≥ 1) has the
largest `n` with `n(n+1)/2 < j`; within one `n` the values `|m| = n mod 2, n mod 2 + 2, …` follow in
increasing order, each non-zero `|m|` taking two consecutive j; even j carry the cosine term
(`m > 0`), odd j the sine term (`m < 0`). -/
def nollRule (j : Nat) : Int × Int :=
  let n := ((List.range (j+1)).filter fun n => n * (n + 1) / 2 < j).length - 1
  let p := j - n * (n + 1) / 2 - 1          -- position inside the row, 0 … n
  let am := if n % 2 = 0 then 2 * ((p + 1) / 2) else 2 * (p / 2) + 1
  ((n:Int), if am = 0 then 0 else if j % 2 = 0 then (am:Int) else -(am:Int))

/-- OSA/ANSI rule inverted: the j-th pair (j ≥ 0): largest `n` with `n(n+1)/2 ≤ j`, `m = 2j − n(n+2)` -/
def osaRule (j : Nat) : Int × Int :=
  let n := ((List.range (j+1)).filter fun n => n * (n + 1) / 2 ≤ j).length - 1
  ((n:Int), 2 * (j:Int) - (n:Int) * ((n:Int) + 2))

/-- Fringe rule inverted: the j-th pair (j ≥ 1): `s = (n+|m|)/2` is the largest `s` with `s² < j`;
with `d = (s+1)² − j`: `|m| = ⌈d/2⌉`, sine term iff `d` odd, `n = 2s − |m|` -/
def fringeRule (j : Nat) : Int × Int :=
  let s := ((List.range (j+1)).filter fun s => s * s < j).length - 1
  let d := (s + 1) * (s + 1) - j
  let am := (d + 1) / 2
  ((2 * s - am : Nat), if d % 2 = 1 then -(am:Int) else (am:Int))

end Model.Zern
