import OptiModel.Num
/-!
  Line-level model of `optiland.fileio.zemax_handler.ZemaxFileReader` and of
  `optiland.fileio.converters.ZemaxToOpticConverter` (no Mathlib).

  Two layers.  The lexer (`Model/ZmxLex.lean`, used by the driver only) turns one text line into one
  `ZLine ν` exactly as `line.split()` + the keyword table + the `_read_*` method would consume it
  (which tokens are touched, in which order, which exception ends the line).  This file is the state
  machine over `ZLine ν` with the numbers an *abstract* type `ν`:

  * `zstep`/`zparse`   — `_read_file` main loop: keyword dispatch, `SURF` flushing the previous
                          surface (the last block is never flushed), `PARM n → param_{n-1}`,
                          first `num_fields` / `num_wavelengths` values, `PWAV − 1`, sticky error for
                          `MODE` ≠ `SEQ` and for `float()`/`int()` failures;
  * `zfinish`          — tail of `_read_file`: "aperture empty ⇒ ValueError", field de-duplication
                          (a Python `set`) and `sorted(key = y)`;
  * `convert`          — `ZemaxToOpticConverter.convert`: one `add_surface` call per flushed surface
                          (`CURV 0 → inf`, `DISZ INFINITY → inf`, default conic `0.0`, the eight
                          even-asphere coefficients, material decision), the default image surface,
                          first aperture entry, field type and fields, wavelengths with the primary flag
                          as `WavelengthGroup.add_wavelength` resolves it;
  * `printZmx`         — the *specification* of what a well-formed sequential file says about a
                          prescription `ZPresc` (header, then one block per surface, image block last).
-/
namespace Zmx
open scoped Num

/-- `type_map` of `_read_surf_type` -/
inductive SType where
  | standard | evenAsph | unsupported
deriving DecidableEq, Repr, Inhabited

/-- keys of `data['aperture']` -/
inductive ApKey where
  | imageFNO | paraxialImageFNO | EPD | objectNA | objectConeAngle | floatingStop
deriving DecidableEq, Repr, Inhabited

/-- exceptions that leave `load_zemax_file` (compared as a small enum) -/
inductive ZErr where
  | value   -- ValueError
  | key     -- KeyError
deriving DecidableEq, Repr, Inhabited

/-- one line of the file as the reader consumes it -/
inductive ZLine (ν : Type) where
  | mode (seq : Bool)
  | enpd (v : ν)
  /-- `FNUM v k`, `k = int(data[2])` (only 0 and 1 have an effect) -/
  | fnum (v : ν) (kind : Nat)
  | obna (v : ν) (kind : Nat)
  | floa
  | gcat (names : List String)
  /-- `FTYP` with at least five tokens (`afocal_image_space`, token 8, is not modelled) -/
  | ftyp (ftype : Nat) (tele : Bool) (nf nw : Nat)
  /-- `FTYP` with exactly four tokens: `num_fields` and `type` are written, then `IndexError` -/
  | ftyp4 (ftype : Nat) (nf : Nat)
  /-- all tokens after the keyword; `none` = a token `float()` rejects (only the first
      `num_fields` are converted) -/
  | xfln (vs : List (Option ν))
  | yfln (vs : List (Option ν))
  | wavm (v : ν)
  | pwav (i : Int)
  | surf
  | stop
  | stype (t : SType)
  | parm (n : Int) (v : ν)
  | curv (v : ν)
  /-- `none` = the literal `INFINITY` -/
  | disz (v : Option ν)
  | coni (v : ν)
  | glas (name : String) (nd vd : ν)
  /-- `GLAS name` with fewer than six tokens: the material *string* is stored, then `IndexError` -/
  | glasShort (name : String)
  /-- `float()` / `int()` raised `ValueError`: the load fails -/
  | bad
  /-- a line whose Python semantics the lexer does not model (negative counts in `FTYP`) -/
  | unmodelled
  /-- unknown keyword, blank line, or too few tokens without any effect -/
  | other
deriving Repr, BEq, Inhabited

def ZLine.isOther {ν : Type} : ZLine ν → Bool
  | .other => true
  | _ => false

/-- what `_read_glass` leaves in `_current_surf_data` -/
inductive ZGlass (ν : Type) where
  /-- complete `GLAS` line; `cats` = `data['glass_catalogs']` at that moment (`[]` if absent) -/
  | full (name : String) (nd vd : ν) (cats : List String)
  /-- only the material name string was stored -/
  | nameOnly (name : String)
deriving Repr, BEq, Inhabited

/-- `_current_surf_data` (defaults as `_read_surface` writes them) -/
structure ZSurf (ν : Type) where
  stype : SType := .standard
  isStop : Bool := false
  /-- token of the `CURV` line; `none` = no `radius` key -/
  curv : Option ν := none
  /-- `none` = no `thickness` key; `some none` = `np.inf` -/
  thick : Option (Option ν) := none
  /-- `none` = the default `0.0` -/
  conic : Option ν := none
  /-- `none` = the default `'air'` -/
  glass : Option (ZGlass ν) := none
  /-- `param_k` keys in writing order (a later write of the same key wins) -/
  parms : List (Int × ν) := []
deriving Repr, BEq, Inhabited

structure ZState (ν : Type) where
  /-- surface being filled (after a `SURF` line) -/
  cur : Option (ZSurf ν) := none
  /-- flushed surfaces `data['surfaces']`, oldest first -/
  done : List (ZSurf ν) := []
  /-- `data['aperture']`, an insertion-ordered dict (`floating_stop` has no number) -/
  ap : List (ApKey × Option ν) := []
  gcat : Option (List String) := none
  ftype : Option Nat := none
  tele : Option Bool := none
  nf : Option Nat := none
  nw : Option Nat := none
  xs : Option (List ν) := none
  ys : Option (List ν) := none
  waves : List ν := []
  pw : Option Int := none
  err : Bool := false
  unmodelled : Bool := false
deriving Repr, Inhabited

variable {ν : Type}

/-- `d[k] = v` on an insertion-ordered dict -/
def apSet (d : List (ApKey × Option ν)) (k : ApKey) (v : Option ν) : List (ApKey × Option ν) :=
  if d.any (fun e => e.1 == k) then d.map (fun e => if e.1 == k then (k, v) else e) else d ++ [(k, v)]

/-- write into `_current_surf_data`; before the first `SURF` the Python writes into a scratch dict
that is never flushed -/
def upd (st : ZState ν) (f : ZSurf ν → ZSurf ν) : ZState ν :=
  match st.cur with
  | some s => { st with cur := some (f s) }
  | none => st

/-- `[float(v) for v in data[1:n+1]]`: `none` when one of the first `n` tokens is rejected -/
def takeFloats (n : Nat) (vs : List (Option ν)) : Option (List ν) :=
  (vs.take n).foldr (fun o acc => match o, acc with
    | some v, some l => some (v :: l)
    | _, _ => none) (some [])

/-- one dispatched line -/
def zstep (st : ZState ν) : ZLine ν → ZState ν
  | .mode seq => if seq then st else { st with err := true }
  | .bad => { st with err := true }
  | .unmodelled => { st with unmodelled := true }
  | .enpd v => { st with ap := apSet st.ap .EPD (some v) }
  | .fnum v k =>
    if k = 0 then { st with ap := apSet st.ap .imageFNO (some v) }
    else if k = 1 then { st with ap := apSet st.ap .paraxialImageFNO (some v) } else st
  | .obna v k =>
    if k = 0 then { st with ap := apSet st.ap .objectNA (some v) }
    else if k = 1 then { st with ap := apSet st.ap .objectConeAngle (some v) } else st
  | .floa => { st with ap := apSet st.ap .floatingStop none }
  | .gcat ns => { st with gcat := some ns }
  | .ftyp ft tele nf nw => { st with ftype := some ft, tele := some tele, nf := some nf, nw := some nw }
  | .ftyp4 ft nf => { st with ftype := some ft, nf := some nf }
  | .xfln vs =>
    match st.nf with
    | none => st                                   -- KeyError 'num_fields': line skipped
    | some n => match takeFloats n vs with
      | some l => { st with xs := some l }
      | none => { st with err := true }
  | .yfln vs =>
    match st.nf with
    | none => st
    | some n => match takeFloats n vs with
      | some l => { st with ys := some l }
      | none => { st with err := true }
  | .wavm v =>
    match st.nw with
    | none => st                                   -- KeyError 'num_wavelengths': line skipped
    | some n => if st.waves.length < n then { st with waves := st.waves ++ [v] } else st
  | .pwav i => { st with pw := some (i - 1) }
  | .surf => { st with cur := some {}, done := st.done ++ st.cur.toList }
  | .stop => upd st fun s => { s with isStop := true }
  | .stype t => upd st fun s => { s with stype := t }
  | .parm n v => upd st fun s => { s with parms := s.parms ++ [(n - 1, v)] }
  | .curv v => upd st fun s => { s with curv := some v }
  | .disz v => upd st fun s => { s with thick := some v }
  | .coni v => upd st fun s => { s with conic := some v }
  | .glas nm a b => upd st fun s => { s with glass := some (.full nm a b (st.gcat.getD [])) }
  | .glasShort nm => upd st fun s => { s with glass := some (.nameOnly nm) }
  | .other => st

/-- the main loop of `_read_file` over all dispatched lines -/
def zparse (ls : List (ZLine ν)) : ZState ν := ls.foldl zstep {}

/-! ### tail of `_read_file` -/

/-- first occurrences only (`set.add` in reading order; `==` of the carrier) -/
def dedup [BEq ν] : List (ν × ν) → List (ν × ν)
  | [] => []
  | a :: l => a :: (dedup l).filter (fun b => !(b == a))

/-- `sorted(unique_fields, key=lambda x: x[1])`: stable, decided by `<` on the keys -/
def sortY [Num ν] (l : List (ν × ν)) : List (ν × ν) :=
  l.mergeSort (fun a b => !(Num.lt b.2 a.2))

/-- the dictionary `ZemaxFileReader.data` after `_read_file` -/
structure ZData (ν : Type) where
  surfaces : List (ZSurf ν)
  ap : List (ApKey × Option ν)
  gcat : Option (List String)
  ftype : Option Nat
  tele : Option Bool
  nf : Option Nat
  nw : Option Nat
  /-- `(x, y)` pairs after de-duplication and sorting -/
  fields : List (ν × ν)
  waves : List ν
  pw : Option Int
  /-- the block that is still open at the end of the file (the image surface); not part of
      `data['surfaces']` -/
  last : Option (ZSurf ν)
deriving Repr, Inhabited

def zfinish [Num ν] [BEq ν] (st : ZState ν) : Except ZErr (ZData ν) :=
  if st.err then .error .value
  else if st.ap.isEmpty then .error .value                  -- 'Failed to read Zemax file.'
  else match st.xs, st.ys with
    | some xs, some ys =>
      let pairs := dedup (xs.zip ys)
      if pairs.isEmpty then .error .value                   -- zip(*[]) cannot be unpacked
      else .ok { surfaces := st.done, ap := st.ap, gcat := st.gcat, ftype := st.ftype, tele := st.tele,
                 nf := st.nf, nw := st.nw, fields := sortY pairs, waves := st.waves, pw := st.pw,
                 last := st.cur }
    | _, _ => .error .key                                   -- data['fields']['x'] missing

/-- `ZemaxFileReader(source).data` -/
def zread [Num ν] [BEq ν] (ls : List (ZLine ν)) : Except ZErr (ZData ν) := zfinish (zparse ls)

/-! ### `ZemaxToOpticConverter` -/

/-- medium after a surface -/
inductive Medium (ν : Type) where
  | air
  | mirror
  /-- `Material(name)` / `Material(name, reference)` found the glass -/
  | catalog (name : String) (ref : Option String)
  /-- `AbbeMaterial(n_d, V_d)` with the numbers of the `GLAS` line -/
  | abbe (nd vd : ν)
deriving Repr, BEq, Inhabited

/-- `_read_glass`: catalogue name, then the vendor catalogues of `GCAT` in order, then model glass.
`known name ref` says whether `Material(name, ref)` succeeds. -/
def resolveGlass (known : String → Option String → Bool) (name : String) (cats : List String)
    (nd vd : ν) : Medium ν :=
  if known name none then .catalog name none
  else match cats.find? (fun c => known name (some c.toLower)) with
    | some c => .catalog name (some c.toLower)
    | none => .abbe nd vd

/-- `1 / float(data[1])`, `ZeroDivisionError → np.inf` -/
def radiusOf [Num ν] (c : ν) : ν := if Num.isZero c then Num.inf else 1 / c

/-- `np.inf` for `INFINITY` -/
def thickOf [Num ν] : Option ν → ν
  | none => Num.inf
  | some t => t

/-- value of key `param_k` (the latest write wins) -/
def lookupParm (ps : List (Int × ν)) (k : Int) : Option ν :=
  ps.foldl (fun acc p => if p.1 == k then some p.2 else acc) none

/-- `[data[f'param_{k}'] for k in range(8)]`, `none` = `KeyError` -/
def coeffsOf (ps : List (Int × ν)) : Option (List ν) :=
  match lookupParm ps 0, lookupParm ps 1, lookupParm ps 2, lookupParm ps 3,
        lookupParm ps 4, lookupParm ps 5, lookupParm ps 6, lookupParm ps 7 with
  | some a0, some a1, some a2, some a3, some a4, some a5, some a6, some a7 =>
    some [a0, a1, a2, a3, a4, a5, a6, a7]
  | _, _, _, _, _, _, _, _ => none

/-- arguments of one `Optic.add_surface` call -/
structure OSurf (ν : Type) where
  evenAsph : Bool
  radius : ν
  conic : ν
  thick : ν
  isStop : Bool
  medium : Medium ν
  /-- `None` for a standard surface -/
  coeffs : Option (List ν)
deriving Repr, BEq, Inhabited

/-- `_configure_surface` -/
def convSurf [Num ν] (known : String → Option String → Bool) (s : ZSurf ν) : Except ZErr (OSurf ν) :=
  let coeffs : Except ZErr (Option (List ν)) :=
    match s.stype with
    | .standard => .ok none
    | .evenAsph => match coeffsOf s.parms with
      | some cs => .ok (some cs)
      | none => .error .key
    | .unsupported => .error .value
  match coeffs with
  | .error e => .error e
  | .ok cs =>
    match s.curv with
    | none => .error .key
    | some c =>
      match s.thick with
      | none => .error .key
      | some t =>
        let med : Except ZErr (Medium ν) :=
          match s.glass with
          | none => .ok .air
          | some (.full nm nd vd cats) => .ok (resolveGlass known nm cats nd vd)
          | some (.nameOnly nm) =>
            -- the string goes to `SurfaceFactory._configure_material`
            if nm == "air" then .ok .air
            else if nm == "mirror" then .ok .mirror
            else if known nm none then .ok (.catalog nm none) else .error .value
        match med with
        | .error e => .error e
        | .ok m => .ok { evenAsph := s.stype == .evenAsph, radius := radiusOf c,
                         conic := s.conic.getD 0, thick := thickOf t, isStop := s.isStop,
                         medium := m, coeffs := cs }

def convSurfs [Num ν] (known : String → Option String → Bool) : List (ZSurf ν) → Except ZErr (List (OSurf ν))
  | [] => .ok []
  | s :: ss => match convSurf known s with
    | .error e => .error e
    | .ok o => match convSurfs known ss with
      | .error e => .error e
      | .ok os => .ok (o :: os)

/-- `WavelengthGroup.add_wavelength` on the list of primary flags -/
def addWave (flags : List Bool) (isPrimary : Bool) : List Bool :=
  let flags' := if isPrimary then flags.map (fun _ => false) else flags
  let isP := if flags'.length = 0 then true else isPrimary
  flags' ++ [isP]

/-- `_configure_wavelengths`: flags after adding wavelengths `idx, idx+1, …` -/
def addWaves (pw : Int) : List Bool → Nat → Nat → List Bool
  | flags, _, 0 => flags
  | flags, idx, n + 1 => addWaves pw (addWave flags (decide ((idx : Int) = pw))) (idx + 1) n

/-- `WavelengthGroup.primary_index`: index of the first flagged wavelength -/
def primaryIndex : List Bool → Option Nat
  | [] => none
  | b :: bs => if b then some 0 else (primaryIndex bs).map (· + 1)

/-- index of the surface that ends up flagged as stop: every `add_surface(is_stop=True)` clears the
earlier flags; the object surface (index 0) never takes the flag -/
def lastStopFrom (i : Nat) : List Bool → Option Nat
  | [] => none
  | b :: bs => match lastStopFrom (i + 1) bs with
    | some j => some j
    | none => if b then some i else none

def stopIndex (flags : List Bool) : Option Nat :=
  match flags with
  | [] => none
  | _ :: rest => lastStopFrom 1 rest

/-- vertex positions `cs.z` as `SurfaceFactory._configure_cs` places them: object at `-t₀`,
surface 1 at `0`, surface `k ≥ 2` at `z_{k-1} + t_{k-1}`; the image surface included -/
def posFrom [Num ν] (z : ν) : List ν → List ν
  | [] => [z]
  | t :: ts => z :: posFrom (z + t) ts

def positions [Num ν] : List ν → List ν
  | [] => [Num.neg 0]
  | t0 :: ts => Num.neg t0 :: posFrom 0 ts

/-- the lens `load_zemax_file` builds, as the arguments of the public `Optic` calls -/
structure OPresc (ν : Type) where
  /-- surfaces 0 … N; the default image surface (plane, air, thickness 0) follows -/
  surfs : List (OSurf ν)
  apKey : ApKey
  apValue : ν
  /-- `FTYP` code: 0 angle, 1 object_height, … -/
  fieldType : Nat
  fields : List (ν × ν)
  waves : List ν
  /-- `wavelengths.primary_index` (`none`: no wavelength) -/
  primary : Option Nat
deriving Repr, BEq, Inhabited

def convert [Num ν] (known : String → Option String → Bool) (d : ZData ν) : Except ZErr (OPresc ν) :=
  match convSurfs known d.surfaces with
  | .error e => .error e
  | .ok surfs =>
    match d.ap with
    | [] => .error .value
    | (k, v) :: _ =>
      match k, v with
      | .EPD, some a | .imageFNO, some a | .objectNA, some a =>
        match d.ftype with
        | none => .error .key
        | some ft =>
          match d.pw with
          | none => .error .key
          | some pw =>
            .ok { surfs := surfs, apKey := k, apValue := a, fieldType := ft, fields := d.fields,
                  waves := d.waves, primary := primaryIndex (addWaves pw [] 0 d.waves.length) }
      | _, _ => .error .value                         -- Aperture() rejects the type

/-- `load_zemax_file` on dispatched lines -/
def zload [Num ν] [BEq ν] (known : String → Option String → Bool) (ls : List (ZLine ν)) :
    Except ZErr (OPresc ν) :=
  match zread ls with
  | .error e => .error e
  | .ok d => convert known d

/-- `_spec` variant for finding F-C20-1 (what the property requires of the image surface): the block
that is open at the end of the file is a surface of the lens too; `surfs` then *includes* the image
surface and no default plane is appended -/
def convertSpec [Num ν] (known : String → Option String → Bool) (d : ZData ν) : Except ZErr (OPresc ν) :=
  convert known { d with surfaces := d.surfaces ++ d.last.toList, last := none }

def zloadSpec [Num ν] [BEq ν] (known : String → Option String → Bool) (ls : List (ZLine ν)) :
    Except ZErr (OPresc ν) :=
  match zread ls with
  | .error e => .error e
  | .ok d => convertSpec known d

/-! ### specification side: what a well-formed file says -/

/-- one surface of the prescription written into the file -/
structure ZPSurf (ν : Type) where
  evenAsph : Bool
  isStop : Bool
  /-- curvature (the `CURV` token) -/
  curv : ν
  /-- `none` = `INFINITY` -/
  thick : Option ν
  /-- `none`: no `CONI` line (Zemax omits it for 0) -/
  conic : Option ν
  /-- `GLAS name … n_d V_d` -/
  glass : Option (String × ν × ν)
  /-- `PARM 1 … PARM n` (eight for `EVENASPH`) -/
  coeffs : List ν
deriving Repr, BEq, Inhabited

inductive ApKind where
  | epd | fno | na
deriving DecidableEq, Repr, Inhabited

def ApKind.key : ApKind → ApKey
  | .epd => .EPD | .fno => .imageFNO | .na => .objectNA

structure ZPresc (ν : Type) where
  gcat : Option (List String)
  apKind : ApKind
  apValue : ν
  fieldType : Nat
  tele : Bool
  /-- the `num_fields` field points `(x, y)` -/
  fields : List (ν × ν)
  /-- unused slots written after the first `num_fields` values of `XFLN` / `YFLN` -/
  xpad : List ν
  ypad : List ν
  waves : List ν
  /-- unused `WAVM` slots after the first `num_wavelengths` -/
  wpad : List ν
  /-- zero-based index of the primary wavelength -/
  primary : Nat
  obj : ZPSurf ν
  surfs : List (ZPSurf ν)
  /-- the image block (last `SURF`) -/
  img : ZPSurf ν
deriving Repr, Inhabited

/-- `PARM k+1 v₀, PARM k+2 v₁, …` -/
def parmLines (k : Nat) : List ν → List (ZLine ν)
  | [] => []
  | v :: vs => .parm ((k : Int) + 1) v :: parmLines (k + 1) vs

/-- the keys `param_k, param_{k+1}, …` those lines write -/
def enumParms (k : Nat) : List ν → List (Int × ν)
  | [] => []
  | v :: vs => ((k : Int), v) :: enumParms (k + 1) vs

def printSurf (s : ZPSurf ν) : List (ZLine ν) :=
  [.surf] ++ (if s.isStop then [.stop] else []) ++
  [.stype (if s.evenAsph then .evenAsph else .standard), .curv s.curv] ++
  parmLines 0 s.coeffs ++ [.disz s.thick] ++
  (match s.glass with | some g => [.glas g.1 g.2.1 g.2.2] | none => []) ++
  (match s.conic with | some c => [.coni c] | none => [])

def apLine (k : ApKind) (v : ν) : ZLine ν :=
  match k with
  | .epd => .enpd v
  | .fno => .fnum v 0
  | .na => .obna v 0

def header (p : ZPresc ν) : List (ZLine ν) :=
  [.mode true, apLine p.apKind p.apValue] ++
  (match p.gcat with | some g => [.gcat g] | none => []) ++
  [.ftyp p.fieldType p.tele p.fields.length p.waves.length,
   .xfln ((p.fields.map (fun f => f.1) ++ p.xpad).map some),
   .yfln ((p.fields.map (fun f => f.2) ++ p.ypad).map some),
   .pwav ((p.primary : Int) + 1)] ++
  (p.waves ++ p.wpad).map .wavm

def blocks (p : ZPresc ν) : List (ZPSurf ν) := p.obj :: (p.surfs ++ [p.img])

/-- the file of a prescription, line by line -/
def printZmx (p : ZPresc ν) : List (ZLine ν) := header p ++ (blocks p).flatMap printSurf

/-- record `_read_file` must hold for a written surface -/
def recOf (cats : List String) (s : ZPSurf ν) : ZSurf ν :=
  { stype := if s.evenAsph then .evenAsph else .standard
    isStop := s.isStop
    curv := some s.curv
    thick := some s.thick
    conic := s.conic
    glass := s.glass.map fun g => .full g.1 g.2.1 g.2.2 cats
    parms := enumParms 0 s.coeffs }

/-- the `add_surface` arguments a written surface must lead to -/
def expSurf [Num ν] (known : String → Option String → Bool) (cats : List String) (s : ZPSurf ν) : OSurf ν :=
  { evenAsph := s.evenAsph
    radius := radiusOf s.curv
    conic := s.conic.getD 0
    thick := thickOf s.thick
    isStop := s.isStop
    medium := match s.glass with
      | none => .air
      | some g => resolveGlass known g.1 cats g.2.1 g.2.2
    coeffs := if s.evenAsph then some s.coeffs else none }

/-- the lens a well-formed file must load as -/
def expected [Num ν] [BEq ν] (known : String → Option String → Bool) (p : ZPresc ν) : OPresc ν :=
  { surfs := (p.obj :: p.surfs).map (expSurf known (p.gcat.getD []))
    apKey := p.apKind.key
    apValue := p.apValue
    fieldType := p.fieldType
    fields := sortY (dedup p.fields)
    waves := p.waves
    primary := some p.primary }

/-- `_spec` variant: every written block, the image block included -/
def expectedSpec [Num ν] [BEq ν] (known : String → Option String → Bool) (p : ZPresc ν) : OPresc ν :=
  { expected known p with surfs := (blocks p).map (expSurf known (p.gcat.getD [])) }

end Zmx
