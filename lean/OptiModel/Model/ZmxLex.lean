import OptiModel.Model.Zmx
/-!
  Lexer layer of the Zemax reader model (driver only, carrier `Float`): one decoded text line →
  one `ZLine Float`, consuming the tokens exactly as `line.split()`, the keyword table and the
  `_read_*` method do — which token is touched first decides between `IndexError` (line skipped,
  possibly after a partial write) and `ValueError` (load fails).

  `pyFloat?` is Python's `float(str)` for the decimal syntax (sign, digits with `_` separators, point,
  exponent, `inf`/`infinity`/`nan`), correctly rounded: the decimal value is an exact rational
  `m·10^e`, reduced to an integer of at least 64 bits with a sticky bit and rounded once (ties to even).
-/
namespace Zmx

/-- `str.isspace` characters, on which `str.split()` splits -/
def isPySpace (c : Char) : Bool :=
  let n := c.toNat
  (9 ≤ n && n ≤ 13) || (28 ≤ n && n ≤ 32) || n == 0x85 || n == 0xA0 || n == 0x1680 ||
  (0x2000 ≤ n && n ≤ 0x200A) || n == 0x2028 || n == 0x2029 || n == 0x202F || n == 0x205F || n == 0x3000

/-- `line.split()` -/
def pySplit (s : List Char) : List (List Char) :=
  let rec go (cur : List Char) (acc : List (List Char)) : List Char → List (List Char)
    | [] => (if cur.isEmpty then acc else cur.reverse :: acc).reverse
    | c :: cs =>
      if isPySpace c then go [] (if cur.isEmpty then acc else cur.reverse :: acc) cs
      else go (c :: cur) acc cs
  go [] [] s

/-- a run `d(_?d)*`; returns the digits and the rest -/
def digitRun : List Char → Option (List Nat × List Char)
  | c :: cs =>
    if c.isDigit then
      let rec go (acc : List Nat) : List Char → List Nat × List Char
        | '_' :: d :: r => if d.isDigit then go ((d.toNat - 48) :: acc) r else (acc.reverse, '_' :: d :: r)
        | d :: r => if d.isDigit then go ((d.toNat - 48) :: acc) r else (acc.reverse, d :: r)
        | [] => (acc.reverse, [])
      some (go [c.toNat - 48] cs)
    else none
  | [] => none

def digitsToNat (ds : List Nat) : Nat := ds.foldl (fun a d => a * 10 + d) 0

/-- `q · 2^e` (plus something in `(0,1)·2^e` when `sticky`) rounded to the nearest double, ties to
even; 53 significant bits, fewer in the subnormal range.  Callers supply at least 64 bits of `q`
whenever `sticky` is set. -/
def roundScaled (q : Nat) (sticky : Bool) (e : Int) : Float :=
  if q == 0 then 0.0 else
  let b : Int := q.log2 + 1
  let top : Int := e + b - 1
  let p : Int := if top < -1022 then top + 1075 else 53
  let shift : Int := b - p
  if shift ≤ 0 then (q.toUInt64.toFloat).scaleB e
  else
    let s := shift.toNat
    let hi := q >>> s
    let rem := q % (2 ^ s)
    let half := 2 ^ (s - 1)
    let up := rem > half || (rem == half && (sticky || hi % 2 == 1))
    let r := if up then hi + 1 else hi
    (r.toUInt64.toFloat).scaleB (e + s)

/-- the double nearest to `m · 10^e10` -/
def decToFloat (m : Nat) (e10 : Int) : Float :=
  if m == 0 then 0.0
  else if e10 ≥ 0 then
    if e10 > 400 then 1.0 / 0.0 else roundScaled (m * 10 ^ e10.toNat) false 0
  else
    let d := (-e10).toNat
    let digits := (Nat.toDigits 10 m).length
    if d > digits + 400 then 0.0 else
    let den := 10 ^ d
    let k := (66 + den.log2) - m.log2
    let num := m <<< k
    roundScaled (num / den) (num % den != 0) (-(k : Int))

def lowerAscii (cs : List Char) : List Char := cs.map Char.toLower

/-- Python `float(token)` -/
def pyFloat? (tok : List Char) : Option Float :=
  let (neg, r) := match tok with
    | '-' :: r => (true, r)
    | '+' :: r => (false, r)
    | r => (false, r)
  let sign (x : Float) : Float := if neg then -x else x
  let lr := String.ofList (lowerAscii r)
  if lr == "inf" || lr == "infinity" then some (sign (1.0 / 0.0))
  else if lr == "nan" then some (0.0 / 0.0)
  else
    -- integer part
    let (ip, r1) := match digitRun r with
      | some (ds, rest) => (ds, rest)
      | none => ([], r)
    -- fraction
    let frac : Option (List Nat × List Char × Bool) := match r1 with
      | '.' :: r2 => match digitRun r2 with
        | some (fs, rest) => some (fs, rest, true)
        | none => some ([], r2, true)
      | _ => some ([], r1, false)
    match frac with
    | none => none
    | some (fp, r3, _) =>
      if ip.isEmpty && fp.isEmpty then none else
      -- exponent
      let ex : Option Int := match r3 with
        | [] => some 0
        | c :: r4 =>
          if c == 'e' || c == 'E' then
            let (eneg, r5) := match r4 with
              | '-' :: r => (true, r)
              | '+' :: r => (false, r)
              | r => (false, r)
            match digitRun r5 with
            | some (es, []) =>
              -- cap the exponent: everything beyond ±100000 is 0 or inf anyway
              let ev := if es.length > 7 then 10000000 else digitsToNat es
              some (if eneg then -(ev : Int) else (ev : Int))
            | _ => none
          else none
      match ex with
      | none => none
      | some e =>
        let m := digitsToNat (ip ++ fp)
        some (sign (decToFloat m (e - fp.length)))

/-- Python `int(token)` for decimal literals -/
def pyInt? (tok : List Char) : Option Int :=
  let (neg, r) := match tok with
    | '-' :: r => (true, r)
    | '+' :: r => (false, r)
    | r => (false, r)
  match digitRun r with
  | some (ds, []) => some (if neg then -(digitsToNat ds : Int) else (digitsToNat ds : Int))
  | _ => none

/-- `FNUM` / `OBNA`: `int(data[2])` is evaluated first, `float(data[1])` only in a taken branch -/
def lexKind (mk : Float → Nat → ZLine Float) (data : List (List Char)) : ZLine Float :=
  match data with
  | _ :: v :: k :: _ =>
    match pyInt? k with
    | none => .bad
    | some k =>
      if k == 0 || k == 1 then
        match pyFloat? v with
        | some x => mk x k.toNat
        | none => .bad
      else .other
  | _ => .other

def lexFloat1 (mk : Float → ZLine Float) (data : List (List Char)) : ZLine Float :=
  match data with
  | _ :: v :: _ => match pyFloat? v with
    | some x => mk x
    | none => .bad
  | _ => .other

def lexFtyp (data : List (List Char)) : ZLine Float :=
  match data with
  | _ :: t1 :: t2 :: t3 :: rest =>
    match pyInt? t3 with
    | none => .bad
    | some nf =>
      match pyInt? t1 with
      | none => .bad
      | some ft =>
        let ftn : Nat := if ft < 0 then 5 else ft.toNat
        match rest with
        | [] => if nf < 0 then .unmodelled else .ftyp4 ftn nf.toNat
        | t4 :: rest2 =>
          match pyInt? t4 with
          | none => .bad
          | some nw =>
            match pyInt? t2 with
            | none => .bad
            | some tele =>
              -- data[7]
              let tail : Option Unit := match rest2 with
                | _ :: _ :: t7 :: _ => (pyInt? t7).map fun _ => ()
                | _ => some ()
              match tail with
              | none => .bad
              | some _ => if nf < 0 || nw < 0 then .unmodelled else .ftyp ftn (tele == 1) nf.toNat nw.toNat
  | _ => .other

def lexGlas (data : List (List Char)) : ZLine Float :=
  match data with
  | [_] | [] => .other
  | _ :: nm :: rest =>
    let name := String.ofList nm
    match rest with
    | _ :: _ :: t4 :: rest2 =>
      match pyFloat? t4 with
      | none => .bad
      | some nd =>
        match rest2 with
        | t5 :: _ => match pyFloat? t5 with
          | none => .bad
          | some vd => .glas name nd vd
        | [] => .glasShort name
    | _ => .glasShort name

/-- one text line → the dispatched line -/
def lexLine (line : List Char) : ZLine Float :=
  let data := pySplit line
  match data with
  | [] => .other
  | kw :: args =>
    match String.ofList kw with
    | "FNUM" => lexKind .fnum data
    | "ENPD" => lexFloat1 .enpd data
    | "OBNA" => lexKind .obna data
    | "FLOA" => .floa
    | "FTYP" => lexFtyp data
    | "XFLN" => .xfln (args.map pyFloat?)
    | "YFLN" => .yfln (args.map pyFloat?)
    | "WAVM" => match data with
      | _ :: _ :: v :: _ => (match pyFloat? v with | some x => .wavm x | none => .bad)
      | _ => .other
    | "PWAV" => match args with
      | v :: _ => (match pyInt? v with | some i => .pwav i | none => .bad)
      | [] => .other
    | "SURF" => .surf
    | "TYPE" => match args with
      | t :: _ =>
        let t := String.ofList t
        .stype (if t == "STANDARD" then .standard else if t == "EVENASPH" then .evenAsph else .unsupported)
      | [] => .other
    | "PARM" => match args with
      | n :: rest => match pyInt? n with
        | none => .bad
        | some n => match rest with
          | v :: _ => (match pyFloat? v with | some x => .parm n x | none => .bad)
          | [] => .other
      | [] => .other
    | "CURV" => lexFloat1 .curv data
    | "DISZ" => match args with
      | v :: _ =>
        if String.ofList v == "INFINITY" then .disz none
        else (match pyFloat? v with | some x => .disz (some x) | none => .bad)
      | [] => .other
    | "CONI" => lexFloat1 .coni data
    | "GLAS" => lexGlas data
    | "STOP" => .stop
    | "MODE" => match args with
      | m :: _ => .mode (String.ofList m == "SEQ")
      | [] => .other
    | "GCAT" => .gcat (args.map String.ofList)
    | _ => .other

/-- split the decoded text at the line breaks the harness put between the lines -/
def splitLines (s : List Char) : List (List Char) :=
  let rec go (cur : List Char) (acc : List (List Char)) : List Char → List (List Char)
    | [] => (cur.reverse :: acc).reverse
    | c :: cs => if c == '\n' then go [] (cur.reverse :: acc) cs else go (c :: cur) acc cs
  go [] [] s

def lexText (s : String) : List (ZLine Float) := (splitLines s.toList).map lexLine

end Zmx
