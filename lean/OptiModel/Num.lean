/-
  Numeric carrier for the optiland model.

  Every model function is written once, over an arbitrary carrier `α` with `[Num α]`,
  operation for operation as the Python/NumPy code computes it.  Carriers:
    * `Float`  – executable, IEEE double, used by the native driver `optidrv`
                 (correspondence with the implementation);
    * `ℝ`      – noncomputable, in `OptiModel/Proofs/NumReal.lean` (theorems);
    * `Dual`   – first-order jets over ℝ (C05).
  Notation instances are *scoped* so that they never hijack Mathlib's `+`/numerals.
  This file must not import Mathlib (the driver is linked from it).
-/

/-- numeric carrier: exactly the operations the Python code uses -/
class Num (α : Type) where
  add : α → α → α
  sub : α → α → α
  mul : α → α → α
  div : α → α → α
  neg : α → α
  zero : α
  one : α
  two : α
  /-- the literal `p/q` (e.g. `0.1 = ofRat 1 10`) -/
  ofRat : Nat → Nat → α
  /-- `np.inf` (junk value over ℝ; theorems guard the branches that produce it) -/
  inf : α
  sqrt : α → α
  abs : α → α
  lt : α → α → Bool
  le : α → α → Bool
  sin : α → α
  cos : α → α
  tan : α → α
  asin : α → α
  acos : α → α
  exp : α → α
  atan2 : α → α → α
  pi : α

namespace Num
variable {α : Type} [Num α]
scoped instance instAdd : Add α := ⟨Num.add⟩
scoped instance instSub : Sub α := ⟨Num.sub⟩
scoped instance instMul : Mul α := ⟨Num.mul⟩
scoped instance instDiv : Div α := ⟨Num.div⟩
scoped instance instNeg : Neg α := ⟨Num.neg⟩
scoped instance inst0 : OfNat α 0 := ⟨Num.zero⟩
scoped instance inst1 : OfNat α 1 := ⟨Num.one⟩
scoped instance inst2 : OfNat α 2 := ⟨Num.two⟩

/-- `x == 0` as NumPy evaluates it (false for NaN) -/
def isZero (a : α) : Bool := Num.le a Num.zero && Num.le Num.zero a
/-- natural-number literal by repeated addition is avoided: small literals via ofRat -/
def ofNat (n : Nat) : α := Num.ofRat n 1
/-- `x ** n` for a natural exponent, as repeated multiplication from the left -/
def npow (x : α) : Nat → α
  | 0 => Num.one
  | n+1 => Num.mul (npow x n) x
/-- `np.sign` -/
def sign (d : α) : α :=
  if Num.lt Num.zero d then Num.one else if Num.lt d Num.zero then Num.neg Num.one else d
end Num

instance : Num Float where
  add := Float.add
  sub := Float.sub
  mul := Float.mul
  div := Float.div
  neg := Float.neg
  zero := 0.0
  one := 1.0
  two := 2.0
  ofRat a b := Float.ofNat a / Float.ofNat b
  inf := 1.0 / 0.0
  sqrt := Float.sqrt
  abs := Float.abs
  lt a b := a < b
  le a b := a ≤ b
  sin := Float.sin
  cos := Float.cos
  tan := Float.tan
  asin := Float.asin
  acos := Float.acos
  exp := Float.exp
  atan2 := Float.atan2
  pi := 3.141592653589793
