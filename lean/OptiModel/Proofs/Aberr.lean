import OptiModel.Model.Aberr
import OptiModel.Props.C04
import OptiModel.Proofs.NumReal
import Mathlib.Tactic.FieldSimp
import Mathlib.Tactic.Ring
import Mathlib.Tactic.LinearCombination
import Mathlib.Tactic.Linarith
import Mathlib.Tactic.NormNum
/-!
Helper lemmas for `Props/C08.lean`: bridge facts for the carrier ℝ, scalar algebra, and the
index bookkeeping that turns the recursive paraxial trace (`ptrace`), the running mirror
orientation (`sigmas`) and the media chain (`C04.Chained`) into statements about entry `k` of the
arrays that `Aberrations._precalculations` stores.
-/
namespace C08
open Model Model.Classical

theorem isZero_real (a : ℝ) : Num.isZero a = true ↔ a = 0 := by
  unfold Num.isZero
  rw [Bool.and_eq_true]
  num_real
  constructor
  · rintro ⟨h1, h2⟩; exact le_antisymm h1 h2
  · rintro rfl; exact ⟨le_refl _, le_refl _⟩

theorem isZero_false {a : ℝ} (h : a ≠ 0) : Num.isZero a = false := by
  cases hz : Num.isZero a with
  | false => rfl
  | true => exact absurd ((isZero_real a).1 hz) h

/-- slope after the surface from the refraction invariant `n'(u'+yc) = n(u+yc)` -/
theorem slope_after {n n' c y u u' : ℝ} (hn' : n' ≠ 0) (hR : n' * (u' + y * c) = n * (u + y * c)) :
    u' = n * (u + y * c) / n' - y * c := by
  field_simp
  linarith [hR]

theorem half_eq : (Model.half : ℝ) = 1 / 2 := by
  unfold Model.half; num_real; norm_num

theorem three_eq : (Model.three : ℝ) = 3 := by
  unfold Model.three; num_real; norm_num

theorem pysum_eq (l : List ℝ) : pysum l = l.sum := by
  unfold pysum
  have h : ∀ (l : List ℝ) (a : ℝ), l.foldl (fun a b => a + b) a = a + l.sum := by
    intro l
    induction l with
    | nil => intro a; simp
    | cons x xs ih => intro a; rw [List.foldl_cons, List.sum_cons, ih]; ring
  show List.foldl (fun a b => a + b) 0 l = l.sum
  rw [h l 0, zero_add]

/-- default elements for `getD` -/
def dS : PSurf ℝ := ⟨.object, 0, 0, 0, 1, 1, false, false⟩
def dR : PRay ℝ := ⟨0, 0, 0⟩

theorem ptrace_getD_zero (s : PSurf ℝ) (ss : List (PSurf ℝ)) (r : PRay ℝ) :
    (ptrace r (s :: ss)).getD 0 dR = pstep r s := by
  simp [ptrace]

theorem ptrace_getD_succ : ∀ (ss : List (PSurf ℝ)) (r : PRay ℝ) (k : ℕ), k + 1 < ss.length →
    (ptrace r ss).getD (k + 1) dR = pstep ((ptrace r ss).getD k dR) (ss.getD (k + 1) dS)
  | [], _, _, h => by simp at h
  | [_], _, _, h => by simp at h
  | s :: s2 :: ss, r, 0, _ => by simp [ptrace]
  | s :: s2 :: ss, r, k + 1, h => by
    have ih := ptrace_getD_succ (s2 :: ss) (pstep r s) k (by simpa using h)
    simpa [ptrace] using ih

/-- orientation after a surface (the model's Boolean test) -/
noncomputable def flipS (σ : ℝ) (s : PSurf ℝ) : ℝ := if s.kind == SKind.standard && s.refl then -σ else σ

theorem flipS_eq_sgnIdx (σ : ℝ) (s : PSurf ℝ) : flipS σ s = C04.sgnIdx σ s := by
  unfold flipS C04.sgnIdx
  cases hk : s.kind <;> cases hr : s.refl <;> simp

theorem sigmas_cons (σ : ℝ) (s : PSurf ℝ) (ss : List (PSurf ℝ)) :
    sigmas σ (s :: ss) = flipS σ s :: sigmas (flipS σ s) ss := by
  simp only [sigmas, flipS]
  num_real

theorem sigmas_getD_zero (σ : ℝ) (s : PSurf ℝ) (ss : List (PSurf ℝ)) :
    nth (sigmas σ (s :: ss)) 0 = flipS σ s := by
  rw [sigmas_cons]; simp [nth]

theorem sigmas_getD_succ : ∀ (ss : List (PSurf ℝ)) (σ : ℝ) (k : ℕ), k + 1 < ss.length →
    nth (sigmas σ ss) (k + 1) = flipS (nth (sigmas σ ss) k) (ss.getD (k + 1) dS)
  | [], _, _, h => by simp at h
  | [_], _, _, h => by simp at h
  | s :: s2 :: ss, σ, 0, _ => by simp [sigmas_cons, nth]
  | s :: s2 :: ss, σ, k + 1, h => by
    have ih := sigmas_getD_succ (s2 :: ss) (flipS σ s) k (by simpa using h)
    rw [sigmas_cons]
    simpa [nth] using ih

/-- entry `k` of the signed index array -/
theorem signedN_getD : ∀ (ss : List (PSurf ℝ)) (σ : ℝ) (k : ℕ), k < ss.length →
    nth (mulLists (sigmas σ ss) (ss.map (·.n2))) k = nth (sigmas σ ss) k * (ss.getD k dS).n2
  | [], _, _, h => by simp at h
  | s :: ss, σ, 0, _ => by
    rw [sigmas_cons]; simp [mulLists, nth]
  | s :: ss, σ, k + 1, h => by
    have ih := signedN_getD ss (flipS σ s) k (by simpa using h)
    rw [sigmas_cons]
    simpa [mulLists, nth] using ih

theorem chained_getD : ∀ (ss : List (PSurf ℝ)) (n : ℝ) (k : ℕ), C04.Chained n ss → k + 1 < ss.length →
    (ss.getD (k + 1) dS).n1 = (ss.getD k dS).n2 ∧
    ((ss.getD (k + 1) dS).kind ≠ .standard ∨ (ss.getD (k + 1) dS).refl = true →
      (ss.getD (k + 1) dS).n2 = (ss.getD (k + 1) dS).n1)
  | [], _, _, _, h => by simp at h
  | [_], _, _, _, h => by simp at h
  | s :: s2 :: ss, n, 0, hc, _ => by
    obtain ⟨-, -, h2, h3, -⟩ := hc
    simpa using ⟨h2, h3⟩
  | s :: s2 :: ss, n, k + 1, hc, h => by
    have ih := chained_getD (s2 :: ss) s.n2 k hc.2.2 (by simpa using h)
    simpa using ih

theorem getD_map' {β γ : Type} (f : β → γ) : ∀ (l : List β) (k : ℕ) (d : β),
    (l.map f).getD k (f d) = f (l.getD k d)
  | [], _, _ => by simp
  | _ :: _, 0, _ => by simp
  | _ :: l, k + 1, d => by simp

theorem nth_ys (rs : List (PRay ℝ)) (k : ℕ) : nth (ys rs) k = (rs.getD k dR).y := by
  unfold nth ys
  rw [show (0 : ℝ) = dR.y from rfl, getD_map']

theorem nth_us (rs : List (PRay ℝ)) (k : ℕ) : nth (us rs) k = (rs.getD k dR).u := by
  unfold nth us
  rw [show (0 : ℝ) = dR.u from rfl, getD_map']

theorem nth_curv (ss : List (PSurf ℝ)) (k : ℕ) : nth (curvatures ss) k = 1 / (ss.getD k dS).r := by
  unfold nth curvatures
  have : (0 : ℝ) = (fun s : PSurf ℝ => 1 / s.r) dS := by simp [dS]
  rw [this, getD_map']

theorem getD_mem (ss : List (PSurf ℝ)) (k : ℕ) (h : k < ss.length) : ss.getD k dS ∈ ss := by
  rw [List.getD_eq_getElem?_getD, List.getElem?_eq_getElem h]
  exact List.getElem_mem h

/-- one ordinary surface with `dy = 0`: the record sits on the vertex plane and the refraction
(reflection) invariant holds with the orientation carried along -/
theorem refr_step (r : PRay ℝ) (s : PSurf ℝ) (σ : ℝ) (hdy : s.dy = 0) (hk : s.kind = .standard)
    (hn2 : s.n2 ≠ 0) (hmir : s.refl = true → s.n2 = s.n1) :
    (pstep r s).z = s.z ∧
    flipS σ s * s.n2 * ((pstep r s).u + (pstep r s).y * (1 / s.r))
      = σ * s.n1 * (r.u + (pstep r s).y * (1 / s.r)) := by
  unfold pstep flipS
  rw [hk]
  simp only [pstepStd, beq_self_eq_true, Bool.true_and]
  num_real
  rw [hdy]
  rcases Bool.eq_false_or_eq_true s.refl with h | h
  · simp only [h, if_true]
    rw [hmir h]
    refine ⟨by ring, ?_⟩
    simp only [div_eq_mul_inv]
    ring
  · simp only [h, Bool.false_eq_true, if_false]
    refine ⟨by ring, ?_⟩
    simp only [div_eq_mul_inv, one_mul]
    generalize s.r⁻¹ = c
    field_simp
    ring

theorem flipS_ne_zero {σ : ℝ} (s : PSurf ℝ) (h : σ ≠ 0) : flipS σ s ≠ 0 := by
  unfold flipS; split_ifs
  · exact neg_ne_zero.2 h
  · exact h

theorem sigmas_ne_zero : ∀ (ss : List (PSurf ℝ)) (σ : ℝ) (k : ℕ), σ ≠ 0 → k < ss.length →
    nth (sigmas σ ss) k ≠ 0
  | [], _, _, _, h => by simp at h
  | s :: ss, σ, 0, hσ, _ => by rw [sigmas_getD_zero]; exact flipS_ne_zero s hσ
  | s :: ss, σ, k + 1, hσ, h => by
    have ih := sigmas_ne_zero ss (flipS σ s) k (flipS_ne_zero s hσ) (by simpa using h)
    rw [sigmas_cons]
    simpa [nth] using ih

theorem marginal_is_trace (S : PSys ℝ) : ∃ r, marginalRay S = ptrace r S.surfs := by
  unfold marginalRay
  by_cases h : S.objInf = true
  · simp only [h, if_true]; exact ⟨_, rfl⟩
  · simp only [h]; exact ⟨_, rfl⟩

theorem chief_is_trace (S : PSys ℝ) : ∃ r, chiefRay S = ptrace r S.surfs := ⟨_, rfl⟩

theorem flipS_no_mirror (σ : ℝ) (s : PSurf ℝ) (h : s.refl = false) : flipS σ s = σ := by
  unfold flipS; simp [h]

theorem mulLists_sigmas_one : ∀ (ss : List (PSurf ℝ)) (l : List ℝ), (∀ s ∈ ss, s.refl = false) →
    l.length ≤ ss.length → mulLists (sigmas 1 ss) l = l
  | _, [], _, _ => by simp [mulLists]
  | [], _ :: _, _, h => by simp at h
  | s :: ss, x :: l, hm, h => by
    rw [sigmas_cons, flipS_no_mirror 1 s (hm s (by simp))]
    have ih := mulLists_sigmas_one ss l (fun t ht => hm t (by simp [ht])) (by simpa using h)
    unfold mulLists at ih ⊢
    rw [List.zipWith_cons_cons, ih, one_mul]

theorem real_core (μ a c C C' : ℝ) (hC : C ^ 2 = 1 - a ^ 2) (hC' : C' ^ 2 = 1 - (μ * a) ^ 2) (hc : c ≠ 0)
    (hμ : 1 - μ ≠ 0) (hD1 : (1 + C) * (1 + C') - μ * a ^ 2 ≠ 0) (hD2 : C * C' + μ * a ^ 2 ≠ 0) :
    a / c + (1 / ((1 - μ) * c) - (1 - C) / c) * ((μ * a * C - C' * a) / (C' * C + μ * a * a))
      = -2 * μ ^ 2 * a ^ 3 / (c * ((1 + C) * (1 + C') - μ * a ^ 2) * (C * C' + μ * a ^ 2)) := by
  have key1 : (μ + (1 - μ) * C) * (μ * C - C') =
      μ * ((1 - μ) + μ * C - C') - (1 - μ) * (C * C' + μ * a ^ 2) := by
    linear_combination ((1 - μ) * μ) * hC
  have key2 : ((1 - μ) + μ * C - C') * ((1 + C) * (1 + C') - μ * a ^ 2) = -2 * μ * (1 - μ) * a ^ 2 := by
    linear_combination (μ * (1 + C')) * hC - (1 + C) * hC'
  have hX : (1 - μ) + μ * C - C' = -2 * μ * (1 - μ) * a ^ 2 / ((1 + C) * (1 + C') - μ * a ^ 2) := by
    rw [eq_div_iff hD1]; exact key2
  have e1 : a / c + (1 / ((1 - μ) * c) - (1 - C) / c) * ((μ * a * C - C' * a) / (C' * C + μ * a * a))
      = a / c + a / (c * (1 - μ) * (C * C' + μ * a ^ 2)) * ((μ + (1 - μ) * C) * (μ * C - C')) := by
    have : C' * C + μ * a * a = C * C' + μ * a ^ 2 := by ring
    rw [this]; field_simp; ring
  rw [e1, key1, hX]
  generalize (1 + C) * (1 + C') - μ * a ^ 2 = d1 at *
  generalize C * C' + μ * a ^ 2 = d2 at *
  field_simp
  ring

theorem denom_ne (P : Pre ℝ) (k : ℕ) (hn' : nth P.n k ≠ 0) (hH : P.inv ≠ 0) : P.denom k ≠ 0 := by
  unfold Pre.denom; num_real; exact mul_ne_zero (mul_ne_zero two_ne_zero hn') hH

theorem B_eq (P : Pre ℝ) (k : ℕ) (hn' : nth P.n k ≠ 0) (hH : P.inv ≠ 0) :
    P.B k = nth P.n (k - 1) * (nth P.n k - nth P.n (k - 1)) * nth P.ya k * (nth P.ua k + P.i k)
              / (2 * nth P.n k * P.inv) := by
  unfold Pre.B
  rw [isZero_false (denom_ne P k hn' hH)]
  simp only [Pre.denom, Bool.false_eq_true, if_false]

theorem Bp_eq (P : Pre ℝ) (k : ℕ) (hn' : nth P.n k ≠ 0) (hH : P.inv ≠ 0) :
    P.Bp k = nth P.n (k - 1) * (nth P.n k - nth P.n (k - 1)) * nth P.yb k * (nth P.ub k + P.ip k)
              / (2 * nth P.n k * P.inv) := by
  unfold Pre.Bp
  rw [isZero_false (denom_ne P k hn' hH)]
  simp only [Pre.denom, Bool.false_eq_true, if_false]

theorem seidelOf_eq (P : Pre ℝ) (l : List ℝ) : P.seidelOf l = -2 * P.nL * P.uL * l.sum := by
  unfold Pre.seidelOf
  rw [pysum_eq]
  num_real
  ring

theorem sum_arr (P : Pre ℝ) (c : ℝ) (f g : ℕ → ℝ)
    (h : ∀ k, 1 ≤ k → k ≤ P.N - 2 → c * f k = g k) :
    c * (P.arr f).sum = (P.arr g).sum := by
  unfold Pre.arr
  rw [← List.sum_map_mul_left]
  congr 1
  apply List.map_congr_left
  intro j hj
  have hj' : j < P.N - 2 := List.mem_range.1 hj
  exact h (j + 1) (by omega) (by omega)

end C08
