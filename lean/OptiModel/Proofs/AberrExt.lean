import OptiModel.Model.Aberr
import OptiModel.Model.Presc
import OptiModel.Proofs.Aberr
import OptiModel.Proofs.NumReal
import Mathlib.Tactic.Ring
import Mathlib.Tactic.NormNum
/-!
Further helper lemmas for `Props/C08.lean` (round 7): list bookkeeping for `modifyAt`, scaled arrays,
the running mirror orientation is `±1`, `B = B̄ = 0` at an index-matched surface.
-/
namespace C08
open Model Model.Classical

theorem B_matched (P : Pre ℝ) (k : ℕ) (hm : nth P.n k = nth P.n (k - 1)) : P.B k = 0 ∧ P.Bp k = 0 := by
  unfold Pre.B Pre.Bp
  rw [hm]
  num_real
  constructor <;> split_ifs <;> simp

theorem nth_nList (S : PSys ℝ) (k : ℕ) (h : k < S.surfs.length) :
    nth (nList S) k = (S.surfs.getD k dS).n2 := by
  simp [nth, nList, List.getD_eq_getElem?_getD, h]

theorem nth_map_mul (c : ℝ) (l : List ℝ) (k : ℕ) : nth (l.map fun x => c * x) k = c * nth l k := by
  unfold nth
  rw [show (0 : ℝ) = (fun x => c * x) 0 by simp, getD_map']
  simp

theorem last_map_mul (c : ℝ) (l : List ℝ) : last (l.map fun x => c * x) = c * last l := by
  unfold last
  induction l using List.reverseRecOn with
  | nil => simp
  | append_singleton l a _ => simp

theorem map_modifyAt {β γ : Type} (g : β → γ) (f : β → β) (l : List β) (k : ℕ) (h : ∀ s, g (f s) = g s) :
    (modifyAt l k f).map g = l.map g := by
  apply List.ext_getElem
  · simp [modifyAt]
  · intro i h1 h2
    simp only [modifyAt, List.getElem_map, List.getElem_mapIdx]
    split_ifs
    · exact h _
    · rfl

theorem modifyAt_modifyAt {β : Type} (f g : β → β) (l : List β) (k : ℕ) :
    modifyAt (modifyAt l k f) k g = modifyAt l k (fun s => g (f s)) := by
  apply List.ext_getElem
  · simp [modifyAt]
  · intro i h1 h2
    simp only [modifyAt, List.getElem_mapIdx]
    split_ifs <;> rfl

theorem modifyAt_fix {β : Type} (f : β → β) (l : List β) (k : ℕ) (h : ∀ s, l[k]? = some s → f s = s) :
    modifyAt l k f = l := by
  apply List.ext_getElem
  · simp [modifyAt]
  · intro i h1 h2
    simp only [modifyAt, List.getElem_mapIdx]
    split_ifs with hi
    · subst hi; exact h _ (List.getElem?_eq_getElem h2)
    · rfl

theorem flipS_pm {σ : ℝ} (s : PSurf ℝ) (h : σ = 1 ∨ σ = -1) : flipS σ s = 1 ∨ flipS σ s = -1 := by
  unfold flipS; split_ifs
  · rcases h with h | h <;> rw [h] <;> simp
  · exact h

theorem sigmas_pm : ∀ (ss : List (PSurf ℝ)) (σ : ℝ) (k : ℕ), (σ = 1 ∨ σ = -1) → k < ss.length →
    nth (sigmas σ ss) k = 1 ∨ nth (sigmas σ ss) k = -1
  | [], _, _, _, h => by simp at h
  | s :: ss, σ, 0, hσ, _ => by rw [sigmas_getD_zero]; exact flipS_pm s hσ
  | s :: ss, σ, k + 1, hσ, h => by
    have ih := sigmas_pm ss (flipS σ s) k (flipS_pm s hσ) (by simpa using h)
    rw [sigmas_cons]
    simpa [nth] using ih

end C08
