import OptiModel.Model.Analysis
import OptiModel.Proofs.NumReal
import Mathlib.Tactic.Ring
import Mathlib.Tactic.FieldSimp
import Mathlib.Tactic.Linarith
import Mathlib.Tactic.Positivity
import Mathlib.Tactic.NormNum
/-! Helper lemmas for C12: the NumPy helpers of `Model/Analysis.lean` over ℝ
(`sumL` = `List.sum`, `mean`, `npMax` = running maximum). -/
namespace AnProofs
open Model Model.An

theorem sumFrom_eq (l : List ℝ) : ∀ acc : ℝ, sumFrom acc l = acc + l.sum := by
  induction l with
  | nil => intro acc; simp [sumFrom]
  | cons a l ih =>
    intro acc
    simp only [sumFrom, List.sum_cons]
    rw [ih]
    num_real
    ring

theorem sumL_eq (l : List ℝ) : sumL l = l.sum := by
  unfold sumL
  rw [sumFrom_eq]
  num_real
  ring

theorem ofNat_eq (n : ℕ) : (Num.ofNat n : ℝ) = (n : ℝ) := by
  unfold Num.ofNat
  num_real
  simp

theorem mean_eq (l : List ℝ) : mean l = l.sum / (l.length : ℝ) := by
  unfold mean
  rw [sumL_eq, ofNat_eq]

theorem sum_map_sub (l : List ℝ) (a : ℝ) : (l.map (fun x => x - a)).sum = l.sum - l.length * a := by
  induction l with
  | nil => simp
  | cons b l ih => simp only [List.map_cons, List.sum_cons, List.length_cons, ih]; push_cast; ring

theorem length_pos_real {β : Type} (l : List β) (h : l ≠ []) : (0 : ℝ) < (l.length : ℝ) := by
  have : 0 < l.length := List.length_pos_of_ne_nil h
  exact_mod_cast this

theorem mean_map_sub (l : List ℝ) (a : ℝ) (h : l ≠ []) :
    (l.map (fun x => x - a)).sum / ((l.map (fun x => x - a)).length : ℝ) = l.sum / (l.length : ℝ) - a := by
  have hn := length_pos_real l h
  rw [sum_map_sub, List.length_map]
  field_simp

theorem sum_le_of_forall_le (l : List ℝ) (B : ℝ) (h : ∀ v ∈ l, v ≤ B) : l.sum ≤ l.length * B := by
  induction l with
  | nil => simp
  | cons b l ih =>
    have hb : b ≤ B := h b (by simp)
    have hl := ih (fun v hv => h v (by simp [hv]))
    simp only [List.sum_cons, List.length_cons]
    push_cast
    linarith

theorem sum_nonneg_of_forall (l : List ℝ) (h : ∀ v ∈ l, 0 ≤ v) : 0 ≤ l.sum := by
  induction l with
  | nil => simp
  | cons b l ih =>
    have hb : 0 ≤ b := h b (by simp)
    have hl := ih (fun v hv => h v (by simp [hv]))
    simp only [List.sum_cons]
    linarith

theorem mean_le_of_forall_le (l : List ℝ) (B : ℝ) (hne : l ≠ []) (h : ∀ v ∈ l, v ≤ B) :
    l.sum / (l.length : ℝ) ≤ B := by
  have hn := length_pos_real l hne
  rw [div_le_iff₀ hn]
  have := sum_le_of_forall_le l B h
  linarith

/-! ### `npMax` over ℝ is the running maximum -/

theorem npMax_step (acc v : ℝ) :
    (if isNaN acc then acc else if isNaN v then v else if Num.lt acc v then v else acc) = max acc v := by
  have h1 : isNaN acc = false := NumReal.isNaN_false acc
  have h2 : isNaN v = false := NumReal.isNaN_false v
  rw [h1, h2]
  simp only [Bool.false_eq_true, if_false]
  by_cases h : acc < v
  · have : Num.lt acc v = true := by rw [NumReal.lt_eq]; exact h
    rw [this]; simp only [if_true]; exact (max_eq_right h.le).symm
  · have : Num.lt acc v = false := by
      rw [NumReal.lt_decide]; exact decide_eq_false h
    rw [this]; simp only [Bool.false_eq_true, if_false]; exact (max_eq_left (not_lt.mp h)).symm

theorem npMax_cons (a : ℝ) (l : List ℝ) : npMax (a :: l) = l.foldl max a := by
  show List.foldl _ a l = List.foldl max a l
  congr 1
  funext acc v
  exact npMax_step acc v

theorem foldl_max_spec (l : List ℝ) : ∀ acc : ℝ,
    acc ≤ l.foldl max acc ∧ (∀ v ∈ l, v ≤ l.foldl max acc) ∧ (l.foldl max acc = acc ∨ l.foldl max acc ∈ l) := by
  induction l with
  | nil => intro acc; simp
  | cons b l ih =>
    intro acc
    obtain ⟨h1, h2, h3⟩ := ih (max acc b)
    simp only [List.foldl_cons]
    refine ⟨le_trans (le_max_left _ _) h1, ?_, ?_⟩
    · intro v hv
      rcases List.mem_cons.mp hv with rfl | hv
      · exact le_trans (le_max_right _ _) h1
      · exact h2 v hv
    · rcases h3 with h | h
      · rcases max_choice acc b with hm | hm
        · left; rw [h, hm]
        · right; rw [h, hm]; simp
      · right; exact List.mem_cons_of_mem _ h

theorem npMax_ge (l : List ℝ) : ∀ v ∈ l, v ≤ npMax l := by
  cases l with
  | nil => intro v hv; simp at hv
  | cons a l =>
    intro v hv
    rw [npMax_cons]
    obtain ⟨h1, h2, _⟩ := foldl_max_spec l a
    rcases List.mem_cons.mp hv with rfl | hv
    · exact h1
    · exact h2 v hv

theorem npMax_mem (l : List ℝ) (h : l ≠ []) : npMax l ∈ l := by
  cases l with
  | nil => exact absurd rfl h
  | cons a l =>
    rw [npMax_cons]
    obtain ⟨_, _, h3⟩ := foldl_max_spec l a
    rcases h3 with h | h
    · rw [h]; simp
    · exact List.mem_cons_of_mem _ h

end AnProofs
