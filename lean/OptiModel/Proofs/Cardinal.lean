import OptiModel.Model.Parax
import OptiModel.Proofs.NumReal
import Mathlib.Tactic.Ring
import Mathlib.Tactic.FieldSimp
import Mathlib.Tactic.LinearCombination
/-!
# Helper lemmas for C04 (cardinal points, pupils, marginal/chief ray)

List plumbing that connects the records the Python code reads (`y[0]`, `y[-1]`, `y[1]`,
`positions[i]`, `stop_index`) with the fold `ss.foldl pstep r` (called `pfinal` in `Props/C04.lean`),
for an arbitrary carrier.  No optics here.
-/
namespace Cardinal
open Model
open scoped Num
variable {α : Type} [Num α]

theorem ptrace_append (r : PRay α) (a b : List (PSurf α)) :
    ptrace r (a ++ b) = ptrace r a ++ ptrace (a.foldl pstep r) b := by
  induction a generalizing r with
  | nil => simp [ptrace]
  | cons s a ih => simp [ptrace, ih]

theorem ptrace_length (r : PRay α) (a : List (PSurf α)) : (ptrace r a).length = a.length := by
  induction a generalizing r with
  | nil => simp [ptrace]
  | cons s a ih => simp [ptrace, ih]

theorem ptrace_ne_nil (r : PRay α) (a : List (PSurf α)) (h : a ≠ []) : ptrace r a ≠ [] := by
  cases a with
  | nil => contradiction
  | cons s a => simp [ptrace]

/-- the last record of a trace is the fold of `pstep` over the surfaces -/
theorem ptrace_getLast? (r : PRay α) (a : List (PSurf α)) (h : a ≠ []) :
    (ptrace r a).getLast? = some (a.foldl pstep r) := by
  induction a generalizing r with
  | nil => contradiction
  | cons s a ih =>
    by_cases ha : a = []
    · subst ha; simp [ptrace]
    · have hne := ptrace_ne_nil (pstep r s) a ha
      simp only [ptrace, List.foldl_cons]
      cases hp : ptrace (pstep r s) a with
      | nil => exact absurd hp hne
      | cons x xs =>
        rw [List.getLast?_cons_cons, ← hp]
        exact ih (pstep r s) ha

/-- `y[-1]` of a trace -/
theorem last_ys (r : PRay α) (a : List (PSurf α)) (h : a ≠ []) :
    last (ys (ptrace r a)) = (a.foldl pstep r).y := by
  have := ptrace_getLast? r a h
  simp only [last, ys, List.getLastD_eq_getLast?, List.getLast?_map, this, Option.map_some,
    Option.getD_some]

/-- `u[-1]` of a trace -/
theorem last_us (r : PRay α) (a : List (PSurf α)) (h : a ≠ []) :
    last (us (ptrace r a)) = (a.foldl pstep r).u := by
  have := ptrace_getLast? r a h
  simp only [last, us, List.getLastD_eq_getLast?, List.getLast?_map, this, Option.map_some,
    Option.getD_some]

/-- `y[0]` of a trace -/
theorem first_ys (r : PRay α) (s : PSurf α) (a : List (PSurf α)) :
    first (ys (ptrace r (s :: a))) = (pstep r s).y := by
  simp [first, ys, ptrace]

theorem first_us (r : PRay α) (s : PSurf α) (a : List (PSurf α)) :
    first (us (ptrace r (s :: a))) = (pstep r s).u := by
  simp [first, us, ptrace]

/-- `y[k]` where `k` surfaces precede the surface `s` -/
theorem nth_ys_append (r : PRay α) (a : List (PSurf α)) (s : PSurf α) (b : List (PSurf α)) :
    nth (ys (ptrace r (a ++ s :: b))) a.length = (pstep (a.foldl pstep r) s).y := by
  rw [ptrace_append]
  simp only [nth, ys, List.map_append, ptrace, List.map_cons]
  rw [List.getD_eq_getElem?_getD, List.getElem?_append_right (by simp [ptrace_length])]
  simp [ptrace_length]

theorem nth_us_append (r : PRay α) (a : List (PSurf α)) (s : PSurf α) (b : List (PSurf α)) :
    nth (us (ptrace r (a ++ s :: b))) a.length = (pstep (a.foldl pstep r) s).u := by
  rw [ptrace_append]
  simp only [nth, us, List.map_append, ptrace, List.map_cons]
  rw [List.getD_eq_getElem?_getD, List.getElem?_append_right (by simp [ptrace_length])]
  simp [ptrace_length]

/-- `positions[k]` where `k` surfaces precede `s` -/
theorem posOf_append (a : List (PSurf α)) (s : PSurf α) (b : List (PSurf α)) :
    posOf (a ++ s :: b) a.length = s.z := by
  simp only [posOf, List.map_append, List.map_cons]
  rw [List.getD_eq_getElem?_getD, List.getElem?_append_right (by simp)]
  simp

omit [Num α] in
/-- `stop_index`: the first surface flagged as stop -/
theorem stopIndex_append (a : List (PSurf α)) (s : PSurf α) (b : List (PSurf α))
    (ha : ∀ x ∈ a, x.stop = false) (hs : s.stop = true) :
    stopIndex (a ++ s :: b) = some a.length := by
  induction a with
  | nil => simp [stopIndex, List.findIdx?_cons, hs]
  | cons x a ih =>
    have hx := ha x (by simp)
    have ih' := ih (fun y hy => ha y (by simp [hy]))
    simp only [stopIndex] at ih' ⊢
    simp [List.findIdx?_cons, hx, ih']

end Cardinal
