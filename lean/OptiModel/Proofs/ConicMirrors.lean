import OptiModel.Model.Merid
import OptiModel.Proofs.NumReal
import Mathlib.Tactic.FieldSimp
import Mathlib.Tactic.Ring
import Mathlib.Tactic.LinearCombination
import Mathlib.Tactic.Positivity
import Mathlib.Tactic.Linarith
/-!
# Conic mirrors between their foci (helper lemmas for C06)

The optiland conic `(1+k) z² − 2 R z + y² = 0` (vertex at the origin of the surface frame).  With a
*signed* eccentricity `ε` (`ε² = −k`; `ε = +e` for the focus next to the vertex, `ε = −e` for the other
one) the foci are `z = R/(1+ε)` and `z = R/(1−ε)`; a ray leaving `R/(1+ε)` in the unit direction `(M,N)`
meets the conic at distance `R/(1−εN)` and at `−R/(1+εN)`.  The lemmas below are about the model's own
`selectRoot`, `mdist`, `mnormal`, `malign`, `mreflect`, `mstepMirror` over ℝ.
-/
namespace ConicMirrors
open Model

theorem inf_real : (Num.inf : ℝ) = 0 := rfl

/-! ### `selectRoot` over ℝ, branch by branch -/

/-- linear branch (`a == 0`) -/
theorem selectRoot_linear (a b c z N : ℝ) (ha : a = 0) : selectRoot a b c z N = -c / b := by
  simp only [selectRoot]
  num_real
  rw [if_pos ha]

/-- quadratic branch, second root negative (masked), first root kept -/
theorem selectRoot_t1_masked (a b c z N r : ℝ) (ha : a ≠ 0) (hr : 0 ≤ r) (hd : b*b - 4*a*c = r^2)
    (h1 : 0 ≤ (-b + r)/(2*a)) (h2 : (-b - r)/(2*a) < 0)
    (hsel : |z + (-b + r)/(2*a) * N| ≤ |z|) :
    selectRoot a b c z N = (-b + r)/(2*a) := by
  simp only [selectRoot, maskNeg]
  num_real
  have e4 : ((4:ℕ):ℝ)/((1:ℕ):ℝ) = 4 := by norm_num
  rw [e4, hd, Real.sqrt_sq hr]
  have p1 : ¬ ((-b + r)/(2*a) < 0) := not_lt.mpr h1
  have hsel' : |z + (-b + r)/(2*a) * N| ≤ |z + 0 * N| := by simpa using hsel
  simp only [ha, p1, h2, if_true, if_false, inf_real, hsel']

/-- quadratic branch, both roots non-negative, first root has the smaller `|z|` -/
theorem selectRoot_t1_both (a b c z N r : ℝ) (ha : a ≠ 0) (hr : 0 ≤ r) (hd : b*b - 4*a*c = r^2)
    (h1 : 0 ≤ (-b + r)/(2*a)) (h2 : 0 ≤ (-b - r)/(2*a))
    (hsel : |z + (-b + r)/(2*a) * N| ≤ |z + (-b - r)/(2*a) * N|) :
    selectRoot a b c z N = (-b + r)/(2*a) := by
  simp only [selectRoot, maskNeg]
  num_real
  have e4 : ((4:ℕ):ℝ)/((1:ℕ):ℝ) = 4 := by norm_num
  rw [e4, hd, Real.sqrt_sq hr]
  have p1 : ¬ ((-b + r)/(2*a) < 0) := not_lt.mpr h1
  have p2 : ¬ ((-b - r)/(2*a) < 0) := not_lt.mpr h2
  simp only [ha, p1, p2, if_true, if_false, hsel]

/-- quadratic branch, both roots non-negative, second root has the strictly smaller `|z|` -/
theorem selectRoot_t2_both (a b c z N r : ℝ) (ha : a ≠ 0) (hr : 0 ≤ r) (hd : b*b - 4*a*c = r^2)
    (h1 : 0 ≤ (-b + r)/(2*a)) (h2 : 0 ≤ (-b - r)/(2*a))
    (hsel : |z + (-b - r)/(2*a) * N| < |z + (-b + r)/(2*a) * N|) :
    selectRoot a b c z N = (-b - r)/(2*a) := by
  simp only [selectRoot, maskNeg]
  num_real
  have e4 : ((4:ℕ):ℝ)/((1:ℕ):ℝ) = 4 := by norm_num
  rw [e4, hd, Real.sqrt_sq hr]
  have p1 : ¬ ((-b + r)/(2*a) < 0) := not_lt.mpr h1
  have p2 : ¬ ((-b - r)/(2*a) < 0) := not_lt.mpr h2
  have p3 : ¬ (|z + (-b + r)/(2*a) * N| ≤ |z + (-b - r)/(2*a) * N|) := not_le.mpr hsel
  simp only [ha, p1, p2, p3, if_false]

/-- quadratic branch, first root negative (masked; over ℝ the junk value 0 stands for `inf`, so the
comparison is against `|z|`), second root kept -/
theorem selectRoot_t2_masked (a b c z N r : ℝ) (ha : a ≠ 0) (hr : 0 ≤ r) (hd : b*b - 4*a*c = r^2)
    (h1 : (-b + r)/(2*a) < 0) (h2 : 0 ≤ (-b - r)/(2*a))
    (hsel : |z + (-b - r)/(2*a) * N| < |z|) :
    selectRoot a b c z N = (-b - r)/(2*a) := by
  simp only [selectRoot, maskNeg]
  num_real
  have e4 : ((4:ℕ):ℝ)/((1:ℕ):ℝ) = 4 := by norm_num
  rw [e4, hd, Real.sqrt_sq hr]
  have p2 : ¬ ((-b - r)/(2*a) < 0) := not_lt.mpr h2
  have p3 : ¬ (|z + 0 * N| ≤ |z + (-b - r)/(2*a) * N|) := by
    rw [zero_mul, add_zero]; exact not_le.mpr hsel
  simp only [ha, h1, p2, p3, if_true, if_false, inf_real]

/-! ### `mreflect`: the sign alignment never matters for a mirror -/

theorem abs_mul_sign (d : ℝ) : |d| * Num.sign d = d := by
  simp only [Num.sign]
  num_real
  rcases lt_trichotomy d 0 with h | h | h
  · have : ¬ (0 < d) := not_lt.mpr h.le
    simp only [this, h, if_true, if_false, abs_of_neg h]; ring
  · subst h; simp
  · simp only [h, if_true, abs_of_pos h]; ring

theorem mreflect_eq (M N ny nz : ℝ) :
    mreflect M N ny nz = (M - 2 * (M*ny + N*nz) * ny, N - 2 * (M*ny + N*nz) * nz) := by
  simp only [mreflect, malign]
  num_real
  have h := abs_mul_sign (M*ny + N*nz)
  simp only [Prod.mk.injEq]
  constructor
  · linear_combination (-2 * ny) * h
  · linear_combination (-2 * nz) * h


/-! ### the ray leaving the focus `R/(1+ε)` -/

/-- quadratic coefficients of `mdist` for a ray through the focus -/
theorem focus_coeffs (k R ε M N : ℝ) (hk : k = -ε^2) (hε : 1 + ε ≠ 0) (hu : M^2 + N^2 = 1) :
    k * (N * N) + M * M + N * N = 1 - ε^2 * N^2 ∧
    2 * k * N * (R / (1 + ε)) + 2 * M * 0 - 2 * N * R + 2 * N * (R / (1 + ε)) = -(2 * N * ε * R) ∧
    k * (R / (1 + ε) * (R / (1 + ε))) - 2 * R * (R / (1 + ε)) + 0 * 0 + R / (1 + ε) * (R / (1 + ε)) = -(R*R) := by
  subst hk
  refine ⟨?_, ?_, ?_⟩
  · linear_combination hu
  · field_simp; ring
  · field_simp; ring

/-- **root selection at the focus**: for `R > 0`, `ε > −1` (`ε² = −k`, so ellipsoid, paraboloid limit
excluded only through `ε ≠ ±1` elsewhere, and hyperboloid with `ε = +e`) and a ray leaving the focus
`(0, R/(1+ε))` towards the vertex side (`N < 0`), `StandardGeometry.distance` returns `R/(1−εN)`:
the quadratic branch with the second root masked when `|εN| < 1`, the linear branch when `εN = −1`, and
the `|z|` comparison of two positive roots when `εN < −1`. -/
theorem mdist_focus (k R ε M N : ℝ) (hR : 0 < R) (hk : k = -ε^2) (hε : -1 < ε) (hN : N < 0)
    (hu : M^2 + N^2 = 1) :
    mdist k R ⟨0, R / (1 + ε), M, N⟩ = R / (1 - ε * N) := by
  have hε' : 1 + ε ≠ 0 := by linarith
  have hε0 : 0 < 1 + ε := by linarith
  obtain ⟨ea, eb, ec⟩ := focus_coeffs k R ε M N hk hε' hu
  have hN1 : -1 ≤ N := by nlinarith [sq_nonneg M]
  have hp : 0 < 1 - ε * N := by nlinarith
  have hp' : 1 - ε * N ≠ 0 := ne_of_gt hp
  have hp'' : 1 - N * ε ≠ 0 := by rw [mul_comm]; exact hp'
  simp only [mdist]
  num_real
  rw [ea, eb, ec]
  have hd : -(2 * N * ε * R) * -(2 * N * ε * R) - 4 * (1 - ε^2 * N^2) * -(R*R) = (2*R)^2 := by ring
  have hr : (0:ℝ) ≤ 2 * R := by linarith
  have hfac : 1 - ε^2 * N^2 = (1 - ε*N) * (1 + ε*N) := by ring
  rcases lt_trichotomy (1 + ε * N) 0 with hq | hq | hq
  · -- both roots positive
    have hq' : 1 + ε * N ≠ 0 := ne_of_lt hq
    have hq'' : 1 + N * ε ≠ 0 := by rw [mul_comm]; exact hq'
    have ha : 1 - ε^2 * N^2 ≠ 0 := by rw [hfac]; exact mul_ne_zero hp' hq'
    have t1 : (-(-(2 * N * ε * R)) + 2 * R) / (2 * (1 - ε^2 * N^2)) = R / (1 - ε * N) := by
      rw [hfac]; field_simp; ring
    have t2 : (-(-(2 * N * ε * R)) - 2 * R) / (2 * (1 - ε^2 * N^2)) = R / (-(1 + ε * N)) := by
      rw [hfac]; field_simp; ring
    have hnq : 0 < -(1 + ε * N) := by linarith
    rw [selectRoot_t1_both _ _ _ _ _ (2*R) ha hr hd (by rw [t1]; positivity)
      (by rw [t2]; exact (div_pos hR hnq).le) ?_, t1]
    rw [t1, t2]
    have z1 : R / (1 + ε) + R / (1 - ε * N) * N = R * (1 + N) / ((1 + ε) * (1 - ε * N)) := by
      field_simp; ring
    have z2 : R / (1 + ε) + R / (-(1 + ε * N)) * N = -(R * (1 - N) / ((1 + ε) * (-(1 + ε * N)))) := by
      field_simp; ring
    have hz1 : 0 ≤ R * (1 + N) / ((1 + ε) * (1 - ε * N)) := by
      apply div_nonneg (mul_nonneg hR.le (by linarith)) (mul_pos hε0 hp).le
    have hz2 : 0 ≤ R * (1 - N) / ((1 + ε) * (-(1 + ε * N))) := by
      apply div_nonneg (mul_nonneg hR.le (by linarith)) (mul_pos hε0 hnq).le
    rw [z1, z2, abs_neg, abs_of_nonneg hz1, abs_of_nonneg hz2, div_le_div_iff₀ (mul_pos hε0 hp) (mul_pos hε0 hnq)]
    have : 0 < ε := by nlinarith
    nlinarith [mul_pos hR hε0, mul_pos (mul_pos hR hε0) this, sq_nonneg N]
  · -- linear branch
    have ha : 1 - ε^2 * N^2 = 0 := by rw [hfac, hq, mul_zero]
    rw [selectRoot_linear _ _ _ _ _ ha]
    have hNε : N * ε ≠ 0 := by intro h; nlinarith
    have : N ≠ 0 := ne_of_lt hN
    have hε2 : ε ≠ 0 := by intro h; rw [h] at hq; norm_num at hq
    have hR' : R ≠ 0 := ne_of_gt hR
    field_simp
    linear_combination (-1 : ℝ) * hq
  · -- second root negative
    have hq' : 1 + ε * N ≠ 0 := ne_of_gt hq
    have hq'' : 1 + N * ε ≠ 0 := by rw [mul_comm]; exact hq'
    have ha : 1 - ε^2 * N^2 ≠ 0 := by rw [hfac]; exact mul_ne_zero hp' hq'
    have t1 : (-(-(2 * N * ε * R)) + 2 * R) / (2 * (1 - ε^2 * N^2)) = R / (1 - ε * N) := by
      rw [hfac]; field_simp; ring
    have t2 : (-(-(2 * N * ε * R)) - 2 * R) / (2 * (1 - ε^2 * N^2)) = -(R / (1 + ε * N)) := by
      rw [hfac]; field_simp; ring
    rw [selectRoot_t1_masked _ _ _ _ _ (2*R) ha hr hd (by rw [t1]; positivity)
      (by rw [t2]; exact neg_neg_of_pos (div_pos hR hq)) ?_, t1]
    rw [t1]
    have z1 : R / (1 + ε) + R / (1 - ε * N) * N = R * (1 + N) / ((1 + ε) * (1 - ε * N)) := by
      field_simp; ring
    have hz1 : 0 ≤ R * (1 + N) / ((1 + ε) * (1 - ε * N)) := by
      apply div_nonneg (mul_nonneg hR.le (by linarith)) (mul_pos hε0 hp).le
    rw [z1, abs_of_nonneg hz1, abs_of_pos (div_pos hR hε0), div_le_div_iff₀ (mul_pos hε0 hp) hε0]
    nlinarith [mul_pos hR hε0, mul_pos (mul_pos hR hε0) hε0]


/-! ### the surface normal at a point of the sag sheet is the normalised gradient -/

/-- For a point `(y, z)` of the conic `(1+k) z² − 2 R z + y² = 0` on the sag sheet (`R − (1+k) z > 0`,
`R > 0`), `StandardGeometry.surface_normal` is the normalised gradient `(y, −(R − (1+k) z))` of the
implicit equation (divided by 2). -/
theorem mnormal_on_conic (k R y z : ℝ) (hR : 0 < R) (hc : (1 + k) * z^2 - 2 * R * z + y^2 = 0)
    (hD : 0 < R - (1 + k) * z) :
    mnormal k R y = (y / Real.sqrt (y^2 + (R - (1 + k) * z)^2),
                     -(R - (1 + k) * z) / Real.sqrt (y^2 + (R - (1 + k) * z)^2)) := by
  have hR' : R ≠ 0 := ne_of_gt hR
  set D := R - (1 + k) * z with hDdef
  have hD' : D ≠ 0 := ne_of_gt hD
  have hQ : 0 < y^2 + D^2 := by positivity
  set S := Real.sqrt (y^2 + D^2) with hSdef
  have hS : 0 < S := Real.sqrt_pos.mpr hQ
  have hs : S^2 = y^2 + D^2 := Real.sq_sqrt hQ.le
  have hS' : S ≠ 0 := ne_of_gt hS
  simp only [mnormal]
  num_real
  have e1 : 1 - (1 + k) * (y * y) / (R * R) = (D / R)^2 := by
    rw [hDdef]; field_simp; linear_combination (-(1 + k)) * hc
  rw [e1, Real.sqrt_sq (div_pos hD hR).le]
  have e2 : R * (D / R) = D := by field_simp
  rw [e2]
  have e3 : y / D * (y / D) + 1 = (S / D)^2 := by
    rw [div_pow, hs]; field_simp
  rw [e3, Real.sqrt_sq (div_pos hS hD).le]
  simp only [Prod.mk.injEq]
  constructor <;> field_simp

/-- `mreflect` with the normalised gradient `(y, −D)/√(y²+D²)`, in rational form -/
theorem mreflect_normalised (M N y D : ℝ) (hQ : 0 < y^2 + D^2) :
    mreflect M N (y / Real.sqrt (y^2 + D^2)) (-D / Real.sqrt (y^2 + D^2)) =
      (M - 2 * (M * y - N * D) * y / (y^2 + D^2), N + 2 * (M * y - N * D) * D / (y^2 + D^2)) := by
  rw [mreflect_eq]
  have hQ' : y^2 + D^2 ≠ 0 := ne_of_gt hQ
  set S := Real.sqrt (y^2 + D^2) with hSdef
  have hS : 0 < S := Real.sqrt_pos.mpr hQ
  have hs : S^2 = y^2 + D^2 := Real.sq_sqrt hQ.le
  have hS' : S ≠ 0 := ne_of_gt hS
  simp only [Prod.mk.injEq]
  constructor
  · have : M - 2 * (M * (y / S) + N * (-D / S)) * (y / S) = M - 2 * (M * y - N * D) * y / S^2 := by
      field_simp; ring
    rw [this, hs]
  · have : N - 2 * (M * (y / S) + N * (-D / S)) * (-D / S) = N + 2 * (M * y - N * D) * D / S^2 := by
      field_simp; ring
    rw [this, hs]

/-! ### geometry of the ray leaving a focus (pure algebra) -/

/-- hit point `(y, z) = F + t (M, N)`, `t = R/(1−εN)`, of the ray leaving `F = (0, R/(1+ε))`:
it lies on the conic; `R − (1+k) z = R (ε − N)/(1−εN)`; `y² + (R − (1+k) z)² = R² (1 − 2εN + ε²)/(1−εN)²`;
and `(M, N)·(y, −(R − (1+k) z)) = R`. -/
theorem focus_geometry (k R ε M N : ℝ) (hk : k = -ε^2) (hε : 1 + ε ≠ 0) (hp : 1 - ε * N ≠ 0)
    (hu : M^2 + N^2 = 1) :
    let y := 0 + R / (1 - ε * N) * M
    let z := R / (1 + ε) + R / (1 - ε * N) * N
    (1 + k) * z^2 - 2 * R * z + y^2 = 0 ∧
    R - (1 + k) * z = R * (ε - N) / (1 - ε * N) ∧
    y^2 + (R - (1 + k) * z)^2 = R^2 * (1 - 2 * ε * N + ε^2) / (1 - ε * N)^2 ∧
    M * y - N * (R - (1 + k) * z) = R := by
  intro y z
  have hp'' : 1 - N * ε ≠ 0 := by rw [mul_comm]; exact hp
  have hε'' : ε + 1 ≠ 0 := by rw [add_comm]; exact hε
  subst hk
  have hD : R - (1 + -ε^2) * z = R * (ε - N) / (1 - ε * N) := by
    simp only [z]; field_simp; ring
  refine ⟨?_, hD, ?_, ?_⟩
  · have key : (1 + -ε^2) * z^2 - 2 * R * z + y^2 = R^2 / (1 - ε * N)^2 * (M^2 + N^2 - 1) := by
      simp only [y, z]; field_simp; ring
    rw [key, hu]; ring
  · rw [hD]
    have key : y^2 + (R * (ε - N) / (1 - ε * N))^2 - R^2 * (1 - 2 * ε * N + ε^2) / (1 - ε * N)^2
        = R^2 / (1 - ε * N)^2 * (M^2 + N^2 - 1) := by
      simp only [y]; field_simp; ring
    linear_combination key + R^2 / (1 - ε * N)^2 * hu
  · rw [hD]
    have key : M * y - N * (R * (ε - N) / (1 - ε * N)) - R = R / (1 - ε * N) * (M^2 + N^2 - 1) := by
      simp only [y]; field_simp; ring
    linear_combination key + R / (1 - ε * N) * hu


/-! ### one mirror step from a focus -/

/-- **closed form of `mstepMirror` for the ray leaving the focus `(0, R/(1+ε))`**, given the value of
`mdist` (root selection is proved separately), `1 − εN > 0` and `N < ε` (the hit point lies on the sag
sheet, i.e. strictly before the equator of an ellipsoid). -/
theorem focus_mirror_step (k R ε M N : ℝ) (hR : 0 < R) (hk : k = -ε^2) (hε : 1 + ε ≠ 0)
    (hp : 0 < 1 - ε * N) (hD : N < ε) (hu : M^2 + N^2 = 1)
    (ht : mdist k R ⟨0, R / (1 + ε), M, N⟩ = R / (1 - ε * N)) :
    mstepMirror k R ⟨0, R / (1 + ε), M, N⟩ =
      (⟨R * M / (1 - ε * N), R * (1 + N) / ((1 + ε) * (1 - ε * N)),
        -(M * (1 - ε^2)) / (1 - 2 * ε * N + ε^2), (2 * ε - N * (1 + ε^2)) / (1 - 2 * ε * N + ε^2)⟩,
       R / (1 - ε * N)) := by
  have hp' : 1 - ε * N ≠ 0 := ne_of_gt hp
  have hp'' : 1 - N * ε ≠ 0 := by rw [mul_comm]; exact hp'
  have hε'' : ε + 1 ≠ 0 := by rw [add_comm]; exact hε
  obtain ⟨hc, hDv, hQv, hdot⟩ := focus_geometry k R ε M N hk hε hp' hu
  have hq : 0 < 1 - 2 * ε * N + ε^2 := by nlinarith [sq_nonneg M, sq_nonneg (ε - N)]
  have hq' : 1 - 2 * ε * N + ε^2 ≠ 0 := ne_of_gt hq
  have hq'' : 1 - 2 * N * ε + ε^2 ≠ 0 := by
    have : 1 - 2 * N * ε + ε^2 = 1 - 2 * ε * N + ε^2 := by ring
    rw [this]; exact hq'
  have hDpos : 0 < R - (1 + k) * (R / (1 + ε) + R / (1 - ε * N) * N) := by
    rw [hDv]; exact div_pos (mul_pos hR (by linarith)) hp
  simp only [mstepMirror, ht]
  num_real
  rw [mnormal_on_conic k R _ _ hR hc hDpos]
  rw [mreflect_normalised M N _ _ (by positivity), hdot, hQv, hDv]
  simp only [Prod.mk.injEq, MRay.mk.injEq, and_true]
  refine ⟨?_, ?_, ?_, ?_⟩
  · field_simp; ring
  · field_simp; ring
  · field_simp; ring
  · obtain ⟨q, hqdef⟩ : ∃ q, q = 1 - 2 * ε * N + ε^2 := ⟨_, rfl⟩
    rw [← hqdef] at hq' ⊢
    field_simp
    subst hqdef
    ring


/-- everything C06 says about a conic mirror and a ray leaving the focus `(0, R/(1+ε))`, from the closed
form of the step -/
theorem focus_mirror_facts (k R ε M N : ℝ) (hR : 0 < R) (hk : k = -ε^2) (hε : 1 + ε ≠ 0) (hε1 : 1 - ε ≠ 0)
    (hp : 0 < 1 - ε * N) (hD : N < ε) (hu : M^2 + N^2 = 1)
    (ht : mdist k R ⟨0, R / (1 + ε), M, N⟩ = R / (1 - ε * N)) :
    let out := mstepMirror k R ⟨0, R / (1 + ε), M, N⟩
    let s := R * (1 - 2 * ε * N + ε^2) / ((1 - ε * N) * (1 - ε^2))
    out.2 = R / (1 - ε * N) ∧
    (1 + k) * out.1.z^2 - 2 * R * out.1.z + out.1.y^2 = 0 ∧
    out.1.y + s * out.1.M = 0 ∧ out.1.z + s * out.1.N = R / (1 - ε) ∧
    out.1.M^2 + out.1.N^2 = 1 ∧ out.2 + s = 2 * R / (1 + k) := by
  intro out s
  have hout := focus_mirror_step k R ε M N hR hk hε hp hD hu ht
  have hp' : 1 - ε * N ≠ 0 := ne_of_gt hp
  have hq : 0 < 1 - 2 * ε * N + ε^2 := by nlinarith [sq_nonneg M, sq_nonneg (ε - N)]
  obtain ⟨hc, -, -, -⟩ := focus_geometry k R ε M N hk hε hp' hu
  obtain ⟨q, hqdef⟩ : ∃ q, q = 1 - 2 * ε * N + ε^2 := ⟨_, rfl⟩
  obtain ⟨p, hpdef⟩ : ∃ p, p = 1 - ε * N := ⟨_, rfl⟩
  have hq' : q ≠ 0 := by rw [hqdef]; exact ne_of_gt hq
  have hpp : p ≠ 0 := by rw [hpdef]; exact hp'
  have hε2 : 1 - ε^2 ≠ 0 := by
    have : 1 - ε^2 = (1 - ε) * (1 + ε) := by ring
    rw [this]; exact mul_ne_zero hε1 hε
  have hk1 : 1 + k ≠ 0 := by rw [hk]; exact hε2
  simp only [out, s, hout]
  refine ⟨trivial, ?_, ?_, ?_, ?_, ?_⟩
  · have e1 : R * (1 + N) / ((1 + ε) * (1 - ε * N)) = R / (1 + ε) + R / (1 - ε * N) * N := by
      rw [← hpdef]; field_simp; subst hpdef; ring
    have e2 : R * M / (1 - ε * N) = 0 + R / (1 - ε * N) * M := by ring
    rw [e1, e2]; exact hc
  · rw [← hqdef, ← hpdef]
    obtain ⟨w, hw⟩ : ∃ w, w = 1 - ε^2 := ⟨_, rfl⟩
    rw [← hw] at hε2 ⊢
    field_simp; ring
  · rw [← hqdef, ← hpdef]
    obtain ⟨w, hw⟩ : ∃ w, w = 1 - ε^2 := ⟨_, rfl⟩
    rw [← hw] at hε2 ⊢
    have hε'' : ε + 1 ≠ 0 := by rw [add_comm]; exact hε
    field_simp
    subst hw hpdef
    ring
  · rw [← hqdef]
    field_simp
    subst hqdef
    linear_combination ((1 - ε^2)^2) * hu
  · subst hk
    rw [← hqdef, ← hpdef]
    have hk1' : 1 + -ε^2 ≠ 0 := hk1
    obtain ⟨w, hw⟩ : ∃ w, w = 1 - ε^2 := ⟨_, rfl⟩
    have hw2 : 1 + -ε^2 = w := by rw [hw]; ring
    rw [hw2, ← hw]
    rw [← hw] at hε2
    field_simp
    subst hw hpdef hqdef
    ring

/-! ### mirror symmetry `z ↦ −z` of the surface frame (`R ↦ −R`, `N ↦ −N`) -/

theorem selectRoot_flip (a b c z N : ℝ) : selectRoot a b c (-z) (-N) = selectRoot a b c z N := by
  simp only [selectRoot]
  num_real
  have h : ∀ t : ℝ, |(-z) + t * (-N)| = |z + t * N| := fun t => by
    rw [← abs_neg]; congr 1; ring
  simp only [h]

theorem mdist_flip (k R y z M N : ℝ) : mdist k (-R) ⟨y, -z, M, -N⟩ = mdist k R ⟨y, z, M, N⟩ := by
  simp only [mdist]
  num_real
  have ea : k * (-N * -N) + M * M + -N * -N = k * (N * N) + M * M + N * N := by ring
  have eb : 2 * k * -N * -z + 2 * M * y - 2 * -N * -R + 2 * -N * -z
      = 2 * k * N * z + 2 * M * y - 2 * N * R + 2 * N * z := by ring
  have ec : k * (-z * -z) - 2 * -R * -z + y * y + -z * -z = k * (z * z) - 2 * R * z + y * y + z * z := by ring
  rw [ea, eb, ec, selectRoot_flip]

theorem mnormal_flip (k R y : ℝ) : mnormal k (-R) y = (-(mnormal k R y).1, (mnormal k R y).2) := by
  simp only [mnormal]
  num_real
  have e1 : -R * -R = R * R := by ring
  rw [e1]
  have e2 : y / (-R * Real.sqrt (1 - (1 + k) * (y * y) / (R * R)))
      = -(y / (R * Real.sqrt (1 - (1 + k) * (y * y) / (R * R)))) := by
    rw [neg_mul, div_neg]
  rw [e2, neg_mul_neg, neg_div]

theorem mreflect_flip (M N ny nz : ℝ) :
    mreflect M (-N) (-ny) nz = ((mreflect M N ny nz).1, -(mreflect M N ny nz).2) := by
  simp only [mreflect_eq, Prod.mk.injEq]
  constructor <;> ring

theorem mstepMirror_flip (k R y z M N : ℝ) :
    mstepMirror k (-R) ⟨y, -z, M, -N⟩ =
      (⟨(mstepMirror k R ⟨y, z, M, N⟩).1.y, -(mstepMirror k R ⟨y, z, M, N⟩).1.z,
        (mstepMirror k R ⟨y, z, M, N⟩).1.M, -(mstepMirror k R ⟨y, z, M, N⟩).1.N⟩,
       (mstepMirror k R ⟨y, z, M, N⟩).2) := by
  simp only [mstepMirror, mdist_flip, mnormal_flip, mreflect_flip]
  num_real
  simp only [Prod.mk.injEq, MRay.mk.injEq, and_true, true_and]
  ring


/-! ### the same facts for `R < 0` (vertex on the +z side of the foci: the layout of the test lenses,
rays travelling in +z), obtained through the mirror symmetry -/

theorem mdist_focus_neg (k R ε M N : ℝ) (hR : R < 0) (hk : k = -ε^2) (hε : -1 < ε) (hN : 0 < N)
    (hu : M^2 + N^2 = 1) :
    mdist k R ⟨0, R / (1 + ε), M, N⟩ = -R / (1 + ε * N) := by
  have h := mdist_focus k (-R) ε M (-N) (by linarith) hk hε (by linarith) (by rw [neg_sq]; exact hu)
  have hf := mdist_flip k (-R) 0 (-R / (1 + ε)) M (-N)
  rw [neg_neg, neg_neg, neg_div, neg_neg] at hf
  rw [hf, ← neg_div, h]
  congr 1; ring

theorem focus_mirror_facts_neg (k R ε M N : ℝ) (hR : R < 0) (hk : k = -ε^2) (hε : 1 + ε ≠ 0) (hε1 : 1 - ε ≠ 0)
    (hp : 0 < 1 + ε * N) (hD : -ε < N) (hu : M^2 + N^2 = 1)
    (ht : mdist k R ⟨0, R / (1 + ε), M, N⟩ = -R / (1 + ε * N)) :
    let out := mstepMirror k R ⟨0, R / (1 + ε), M, N⟩
    let s := -R * (1 + 2 * ε * N + ε^2) / ((1 + ε * N) * (1 - ε^2))
    out.2 = -R / (1 + ε * N) ∧
    (1 + k) * out.1.z^2 - 2 * R * out.1.z + out.1.y^2 = 0 ∧
    out.1.y + s * out.1.M = 0 ∧ out.1.z + s * out.1.N = R / (1 - ε) ∧
    out.1.M^2 + out.1.N^2 = 1 ∧ out.2 + s = -(2 * R) / (1 + k) := by
  intro out s
  have hf := mdist_flip k (-R) 0 (-R / (1 + ε)) M (-N)
  rw [neg_neg, neg_neg, neg_div, neg_neg] at hf
  have e1 : 1 - ε * -N = 1 + ε * N := by ring
  have ht' : mdist k (-R) ⟨0, -R / (1 + ε), M, -N⟩ = -R / (1 - ε * -N) := by
    rw [neg_div, ← hf, ht, e1, neg_div]
  have h := focus_mirror_facts k (-R) ε M (-N) (by linarith) hk hε hε1 (by rw [e1]; exact hp) (by linarith)
    (by rw [neg_sq]; exact hu) ht'
  have hs := mstepMirror_flip k (-R) 0 (-R / (1 + ε)) M (-N)
  rw [neg_neg, neg_neg, neg_div, neg_neg] at hs
  simp only at h
  obtain ⟨h1, h2, h3, h4, h5, h6⟩ := h
  rw [neg_div] at h1 h2 h3 h4 h5 h6
  have e2 : 1 - 2 * ε * -N + ε^2 = 1 + 2 * ε * N + ε^2 := by ring
  rw [e1, e2] at h3 h4 h6
  rw [e1] at h1
  simp only [out, s, hs]
  refine ⟨by rw [h1, neg_div], ?_, h3, ?_, ?_, ?_⟩
  · linear_combination h2
  · linear_combination (-1 : ℝ) * h4
  · linear_combination h5
  · linear_combination h6


/-! ### a ray *aimed at* the focus from outside (virtual object; the Cassegrain secondary) -/

/-- reversing a ray that meets the surface at the same point reverses the reflected direction:
the reflected *line* is the same -/
theorem mstep_same_point (k R y0 z0 y1 z1 M N t0 t1 : ℝ)
    (h0 : mdist k R ⟨y0, z0, M, N⟩ = t0) (h1 : mdist k R ⟨y1, z1, -M, -N⟩ = t1)
    (hy : y0 + t0 * M = y1 + t1 * -M) (hz : z0 + t0 * N = z1 + t1 * -N) :
    mstepMirror k R ⟨y0, z0, M, N⟩ =
      (⟨(mstepMirror k R ⟨y1, z1, -M, -N⟩).1.y, (mstepMirror k R ⟨y1, z1, -M, -N⟩).1.z,
        -(mstepMirror k R ⟨y1, z1, -M, -N⟩).1.M, -(mstepMirror k R ⟨y1, z1, -M, -N⟩).1.N⟩, t0) := by
  simp only [mstepMirror, h0, h1]
  num_real
  rw [hy, hz]
  simp only [mreflect_eq, Prod.mk.injEq, MRay.mk.injEq, and_true, true_and]
  constructor <;> ring

/-- quadratic coefficients for the ray through the focus, started `u` before it -/
theorem aimed_coeffs (k R ε M N u : ℝ) (hk : k = -ε^2) (hε : 1 + ε ≠ 0) (hu : M^2 + N^2 = 1) :
    k * (N * N) + M * M + N * N = (1 - ε * N) * (1 + ε * N) ∧
    2 * k * N * (R / (1 + ε) - u * N) + 2 * M * -(u * M) - 2 * N * R + 2 * N * (R / (1 + ε) - u * N)
      = -(2 * N * ε * R) - 2 * u * ((1 - ε * N) * (1 + ε * N)) ∧
    k * ((R / (1 + ε) - u * N) * (R / (1 + ε) - u * N)) - 2 * R * (R / (1 + ε) - u * N) + -(u * M) * -(u * M)
        + (R / (1 + ε) - u * N) * (R / (1 + ε) - u * N)
      = (1 - ε * N) * (1 + ε * N) * u^2 + 2 * N * ε * R * u - R * R := by
  subst hk
  have hε'' : ε + 1 ≠ 0 := by rw [add_comm]; exact hε
  refine ⟨?_, ?_, ?_⟩
  · linear_combination hu
  · have key : 2 * -ε^2 * N * (R / (1 + ε) - u * N) + 2 * M * -(u * M) - 2 * N * R + 2 * N * (R / (1 + ε) - u * N)
        - (-(2 * N * ε * R) - 2 * u * ((1 - ε * N) * (1 + ε * N))) = (-2 * u) * (M^2 + N^2 - 1) := by
      field_simp; ring
    linear_combination key + (-2 * u) * hu
  · have key : -ε^2 * ((R / (1 + ε) - u * N) * (R / (1 + ε) - u * N)) - 2 * R * (R / (1 + ε) - u * N)
        + -(u * M) * -(u * M) + (R / (1 + ε) - u * N) * (R / (1 + ε) - u * N)
        - ((1 - ε * N) * (1 + ε * N) * u^2 + 2 * N * ε * R * u - R * R) = u^2 * (M^2 + N^2 - 1) := by
      field_simp; ring
    linear_combination key + u^2 * hu

theorem aimed_roots (R N ε u w p : ℝ) (hw : w ≠ 0) (hp : p ≠ 0) (hwd : w = 1 - ε * N) (hpd : p = 1 + ε * N) :
    (-(-(2 * N * ε * R) - 2 * u * (w * p)) + 2 * R) / (2 * (w * p)) = u + R / w ∧
    (-(-(2 * N * ε * R) - 2 * u * (w * p)) - 2 * R) / (2 * (w * p)) = u - R / p := by
  constructor
  · field_simp
    subst hwd hpd
    ring
  · field_simp
    subst hwd hpd
    ring

theorem aimed_z (R N ε u w p : ℝ) (hε : 1 + ε ≠ 0) (hw : w ≠ 0) (hp : p ≠ 0) (hwd : w = 1 - ε * N)
    (hpd : p = 1 + ε * N) :
    R / (1 + ε) - u * N + (u + R / w) * N = R * (1 + N) / ((1 + ε) * w) ∧
    R / (1 + ε) - u * N + (u - R / p) * N = R * (1 - N) / ((1 + ε) * p) := by
  have hε'' : ε + 1 ≠ 0 := by rw [add_comm]; exact hε
  constructor
  · field_simp
    subst hwd
    ring
  · field_simp
    subst hpd
    ring

/-- **root selection for a ray aimed at the focus `R/(1+ε)` of a hyperboloid from the convex side**
(`R > 0`, `ε > 1`, `N > 0`, start point `F − u (M,N)`): `distance` returns `u − R/(1+εN)` — the second
root `t₂`; `t₁ = u + R/(1−εN)` is the concave-side hit behind the focus (`εN < 1`), absent (`εN = 1`, linear
branch), or the hit on the other sheet (`εN > 1`), which is either behind the start point (masked) or has
the larger `|z|`.  Guard `hfar`: the start point lies further from the vertex plane than the hit point
(`z₀ < −z_hit`); the real code needs only `t₂ ≥ 0` here because it compares with `inf`, ℝ compares with
`|z₀|`. -/
theorem mdist_aimed (k R ε M N u : ℝ) (hR : 0 < R) (hk : k = -ε^2) (hε : 1 < ε) (hN : 0 < N)
    (hu : M^2 + N^2 = 1)
    (hfar : R / (1 + ε) - u * N < -(R * (1 - N) / ((1 + ε) * (1 + ε * N)))) :
    mdist k R ⟨-(u * M), R / (1 + ε) - u * N, M, N⟩ = u - R / (1 + ε * N) := by
  have hε' : 1 + ε ≠ 0 := by linarith
  have hε0 : 0 < 1 + ε := by linarith
  have hεpos : 0 < ε := by linarith
  obtain ⟨ea, eb, ec⟩ := aimed_coeffs k R ε M N u hk hε' hu
  have hN1 : N ≤ 1 := by nlinarith [sq_nonneg M]
  have hp : 0 < 1 + ε * N := by nlinarith
  have hp' : 1 + ε * N ≠ 0 := ne_of_gt hp
  -- the hit point
  have hz2 : 0 ≤ R * (1 - N) / ((1 + ε) * (1 + ε * N)) :=
    div_nonneg (mul_nonneg hR.le (by linarith)) (mul_pos hε0 hp).le
  simp only [mdist]
  num_real
  rw [ea, eb, ec]
  have hd : (-(2 * N * ε * R) - 2 * u * ((1 - ε * N) * (1 + ε * N))) *
      (-(2 * N * ε * R) - 2 * u * ((1 - ε * N) * (1 + ε * N)))
      - 4 * ((1 - ε * N) * (1 + ε * N)) * ((1 - ε * N) * (1 + ε * N) * u^2 + 2 * N * ε * R * u - R * R)
      = (2*R)^2 := by ring
  have hr : (0:ℝ) ≤ 2 * R := by linarith
  rcases lt_trichotomy (1 - ε * N) 0 with hw | hw | hw
  · -- εN > 1: the first root is on the other sheet
    have hw' : 1 - ε * N ≠ 0 := ne_of_lt hw
    have ha : (1 - ε * N) * (1 + ε * N) ≠ 0 := mul_ne_zero hw' hp'
    have hnw : 0 < -(1 - ε * N) := by linarith
    obtain ⟨t1, t2⟩ := aimed_roots R N ε u _ _ hw' hp' rfl rfl
    obtain ⟨z1, z2⟩ := aimed_z R N ε u _ _ hε' hw' hp' rfl rfl
    -- t₂ ≥ 0 follows from the guard
    have ht2 : 0 ≤ u - R / (1 + ε * N) := by
      by_contra hneg
      have hlt : u - R / (1 + ε * N) < 0 := not_le.mp hneg
      have : (u - R / (1 + ε * N)) * N < 0 := mul_neg_of_neg_of_pos hlt hN
      have hf : 0 < R / (1 + ε) := div_pos hR hε0
      linarith
    rcases lt_or_ge (u + R / (1 - ε * N)) 0 with h1 | h1
    · rw [selectRoot_t2_masked _ _ _ _ _ (2*R) ha hr hd (by rw [t1]; exact h1) (by rw [t2]; exact ht2) ?_, t2]
      rw [t2, z2, abs_of_nonneg hz2]
      have : R / (1 + ε) - u * N < 0 := by linarith
      rw [abs_of_neg this]; linarith
    · rw [selectRoot_t2_both _ _ _ _ _ (2*R) ha hr hd (by rw [t1]; exact h1) (by rw [t2]; exact ht2) ?_, t2]
      rw [t1, t2, z1, z2, abs_of_nonneg hz2]
      have e1 : R * (1 + N) / ((1 + ε) * (1 - ε * N)) = -(R * (1 + N) / ((1 + ε) * (-(1 - ε * N)))) := by
        rw [mul_neg, div_neg, neg_neg]
      have hz1 : 0 < R * (1 + N) / ((1 + ε) * (-(1 - ε * N))) :=
        div_pos (mul_pos hR (by linarith)) (mul_pos hε0 hnw)
      rw [e1, abs_neg, abs_of_pos hz1, div_lt_div_iff₀ (mul_pos hε0 hp) (mul_pos hε0 hnw)]
      have key : R * (1 + N) * ((1 + ε) * (1 + ε * N)) - R * (1 - N) * ((1 + ε) * (-(1 - ε * N)))
          = R * (1 + ε) * (2 + 2 * ε * N^2) := by ring
      have : 0 < R * (1 + ε) * (2 + 2 * ε * N^2) := by positivity
      linarith
  · -- εN = 1: linear branch
    have ha : (1 - ε * N) * (1 + ε * N) = 0 := by rw [hw, zero_mul]
    rw [selectRoot_linear _ _ _ _ _ ha, hw]
    have hεN : ε * N = 1 := by linarith
    have e1 : N * ε = 1 := by rw [mul_comm]; exact hεN
    have e2 : 2 * N * ε * R = 2 * R := by rw [mul_assoc 2 N ε, e1]; ring
    rw [e2, hεN]
    have hR' : R ≠ 0 := ne_of_gt hR
    have hden : -(2 * R) - 2 * u * (0 * (1 + 1)) = -(2 * R) := by ring
    rw [hden]
    field_simp
    ring
  · -- εN < 1: the first root is the concave-side hit behind the focus
    have hw' : 1 - ε * N ≠ 0 := ne_of_gt hw
    have ha : (1 - ε * N) * (1 + ε * N) ≠ 0 := mul_ne_zero hw' hp'
    obtain ⟨t1, t2⟩ := aimed_roots R N ε u _ _ hw' hp' rfl rfl
    obtain ⟨z1, z2⟩ := aimed_z R N ε u _ _ hε' hw' hp' rfl rfl
    have ht2 : 0 ≤ u - R / (1 + ε * N) := by
      by_contra hneg
      have hlt : u - R / (1 + ε * N) < 0 := not_le.mp hneg
      have : (u - R / (1 + ε * N)) * N < 0 := mul_neg_of_neg_of_pos hlt hN
      have hf : 0 < R / (1 + ε) := div_pos hR hε0
      linarith
    have h1 : 0 ≤ u + R / (1 - ε * N) := by
      have : 0 < R / (1 - ε * N) := div_pos hR hw
      have : 0 < R / (1 + ε * N) := div_pos hR hp
      linarith
    rw [selectRoot_t2_both _ _ _ _ _ (2*R) ha hr hd (by rw [t1]; exact h1) (by rw [t2]; exact ht2) ?_, t2]
    rw [t1, t2, z1, z2, abs_of_nonneg hz2]
    have hz1 : 0 < R * (1 + N) / ((1 + ε) * (1 - ε * N)) :=
      div_pos (mul_pos hR (by linarith)) (mul_pos hε0 hw)
    rw [abs_of_pos hz1, div_lt_div_iff₀ (mul_pos hε0 hp) (mul_pos hε0 hw)]
    have key : R * (1 + N) * ((1 + ε) * (1 + ε * N)) - R * (1 - N) * ((1 + ε) * (1 - ε * N))
        = R * (1 + ε) * (2 * N + 2 * ε * N) := by ring
    have : 0 < R * (1 + ε) * (2 * N + 2 * ε * N) := by positivity
    linarith


/-- everything C06 says about the hyperboloid secondary: ray aimed at the focus `R/(1+ε)` from the convex
side, started `u` before the focus; `s > 0` is the parameter of the other focus along the reflected ray -/
theorem aimed_mirror_facts (k R ε M N u : ℝ) (hR : 0 < R) (hk : k = -ε^2) (hε : 1 < ε) (hN : 0 < N)
    (hu : M^2 + N^2 = 1)
    (hfar : R / (1 + ε) - u * N < -(R * (1 - N) / ((1 + ε) * (1 + ε * N)))) :
    let out := mstepMirror k R ⟨-(u * M), R / (1 + ε) - u * N, M, N⟩
    let s := R * (1 + 2 * ε * N + ε^2) / ((1 + ε * N) * (ε^2 - 1))
    out.2 = u - R / (1 + ε * N) ∧
    (1 + k) * out.1.z^2 - 2 * R * out.1.z + out.1.y^2 = 0 ∧
    out.1.y + s * out.1.M = 0 ∧ out.1.z + s * out.1.N = R / (1 - ε) ∧
    out.1.M^2 + out.1.N^2 = 1 ∧ out.2 + s = u - 2 * R / (1 + k) := by
  intro out s
  have hu' : (-M)^2 + (-N)^2 = 1 := by rw [neg_sq, neg_sq]; exact hu
  have hp : 0 < 1 + ε * N := by nlinarith
  have hp' : 1 + ε * N ≠ 0 := ne_of_gt hp
  have e1 : 1 - ε * -N = 1 + ε * N := by ring
  have e2 : 1 - 2 * ε * -N + ε^2 = 1 + 2 * ε * N + ε^2 := by ring
  have h0 := mdist_aimed k R ε M N u hR hk hε hN hu hfar
  have h1 := mdist_focus k R ε (-M) (-N) hR hk (by linarith) (by linarith) hu'
  have hf := focus_mirror_facts k R ε (-M) (-N) hR hk (by linarith) (by linarith) (by rw [e1]; exact hp)
    (by linarith) hu' h1
  rw [e1] at h1
  simp only [e1, e2] at hf
  have hy : -(u * M) + (u - R / (1 + ε * N)) * M = 0 + R / (1 + ε * N) * -M := by ring
  have hz : R / (1 + ε) - u * N + (u - R / (1 + ε * N)) * N = R / (1 + ε) + R / (1 + ε * N) * -N := by ring
  have hstep := mstep_same_point k R _ _ _ _ M N _ _ h0 h1 hy hz
  obtain ⟨f1, f2, f3, f4, f5, f6⟩ := hf
  have hw : ε^2 - 1 ≠ 0 := by nlinarith
  have hw' : 1 - ε^2 ≠ 0 := by nlinarith
  have hs : s = -(R * (1 + 2 * ε * N + ε^2) / ((1 + ε * N) * (1 - ε^2))) := by
    simp only [s]
    rw [← neg_div_neg_eq, neg_div]; congr 2; ring
  have hk1 : 1 + k ≠ 0 := by rw [hk]; intro h; apply hw'; linarith
  simp only [out, hstep]
  rw [hs]
  refine ⟨trivial, f2, ?_, ?_, ?_, ?_⟩
  · linear_combination f3
  · linear_combination f4
  · linear_combination f5
  · rw [f1] at f6
    have : 2 * R / (1 + k) = R / (1 + ε * N) + R * (1 + 2 * ε * N + ε^2) / ((1 + ε * N) * (1 - ε^2)) := f6.symm
    rw [this]; ring

/-- the same for `R < 0`, `N < 0` (layout of the Cassegrain test lens: rays return from the primary in
the −z direction, converging on the prime focus `R/(1+ε)` behind the convex secondary) -/
theorem aimed_mirror_facts_neg (k R ε M N u : ℝ) (hR : R < 0) (hk : k = -ε^2) (hε : 1 < ε) (hN : N < 0)
    (hu : M^2 + N^2 = 1)
    (hfar : -(R * (1 + N) / ((1 + ε) * (1 - ε * N))) < R / (1 + ε) - u * N) :
    let out := mstepMirror k R ⟨-(u * M), R / (1 + ε) - u * N, M, N⟩
    let s := -R * (1 - 2 * ε * N + ε^2) / ((1 - ε * N) * (ε^2 - 1))
    out.2 = u + R / (1 - ε * N) ∧
    (1 + k) * out.1.z^2 - 2 * R * out.1.z + out.1.y^2 = 0 ∧
    out.1.y + s * out.1.M = 0 ∧ out.1.z + s * out.1.N = R / (1 - ε) ∧
    out.1.M^2 + out.1.N^2 = 1 ∧ out.2 + s = u + 2 * R / (1 + k) := by
  intro out s
  have e1 : 1 + ε * -N = 1 - ε * N := by ring
  have e2 : 1 + 2 * ε * -N + ε^2 = 1 - 2 * ε * N + ε^2 := by ring
  have e3 : -R / (1 + ε) - u * -N = -(R / (1 + ε) - u * N) := by ring
  have e4 : (1:ℝ) - -N = 1 + N := by ring
  have hfar' : -R / (1 + ε) - u * -N < -(-R * (1 - -N) / ((1 + ε) * (1 + ε * -N))) := by
    rw [e1, e3, e4, neg_mul, neg_div]; linarith
  have h := aimed_mirror_facts k (-R) ε M (-N) u (by linarith) hk hε (by linarith)
    (by rw [neg_sq]; exact hu) hfar'
  have hs := mstepMirror_flip k (-R) (-(u * M)) (-R / (1 + ε) - u * -N) M (-N)
  rw [neg_neg, neg_neg, e3, neg_neg] at hs
  simp only [e1, e2, e3] at h
  obtain ⟨h1, h2, h3, h4, h5, h6⟩ := h
  simp only [out, s, hs]
  refine ⟨?_, ?_, h3, ?_, ?_, ?_⟩
  · rw [h1]; ring
  · linear_combination h2
  · linear_combination (-1 : ℝ) * h4
  · linear_combination h5
  · linear_combination h6

end ConicMirrors
