import OptiModel.Model.Merid
import OptiModel.Proofs.NumReal
import Mathlib.Tactic.FieldSimp
import Mathlib.Tactic.Ring
import Mathlib.Tactic.LinearCombination
import Mathlib.Tactic.Positivity
import Mathlib.Tactic.Linarith
/-!
# Helper lemmas for the refracting closed-form configurations of C06
(plano-hyperbolic singlet with conic `-n²`, aplanatic points of a refracting sphere).
All lemmas are about the model's own meridional functions over ℝ.
-/
namespace ConicRefract
open Model

/-- `mrefract` when the raw normal points against the ray (`k·n < 0`, the case of every surface hit
on its sag sheet by a ray travelling in +z): the alignment flips the normal, `ρ` is the value of the
square root (`cos` of the refraction angle). -/
theorem mrefract_of_neg (n1 n2 M N ny nz ρ : ℝ) (hd : M*ny + N*nz < 0) (hρ0 : 0 ≤ ρ)
    (hρ : ρ^2 = 1 - (n1/n2)*(n1/n2)*(1 - (M*ny+N*nz)*(M*ny+N*nz))) :
    mrefract n1 n2 M N ny nz =
      (n1/n2*M - ny*ρ - n1/n2*ny*(M*ny+N*nz), n1/n2*N - nz*ρ - n1/n2*nz*(M*ny+N*nz)) := by
  simp only [mrefract, malign, Num.sign]
  num_real
  have c1 : ¬ (0 < M*ny + N*nz) := not_lt.mpr hd.le
  have c3 : |M*ny + N*nz| = -(M*ny+N*nz) := abs_of_neg hd
  simp only [c1, hd, c3, if_true, if_false]
  have e : Real.sqrt (1 - n1/n2*(n1/n2)*(1 - -(M*ny+N*nz) * -(M*ny+N*nz))) = ρ := by
    rw [show (1 - n1/n2*(n1/n2)*(1 - -(M*ny+N*nz) * -(M*ny+N*nz))) = ρ^2 by rw [hρ]; ring]
    exact Real.sqrt_sq hρ0
  rw [e]
  simp only [Prod.mk.injEq]
  constructor <;> ring

/-! ### conic `k = -n²` hit by collimated light from the inside of the glass -/

theorem mdist_hyperbola (n R h z0 : ℝ) (hn : 1 < n) (hR : R < 0) (hz0 : z0 ≤ 0)
    (hg : h^2 ≤ (n^2 - 1) * z0^2 + 2 * R * z0) :
    mdist (-n^2) R ⟨h, z0, 0, 1⟩ = (R + Real.sqrt (R^2 + (n^2 - 1) * h^2)) / (1 - n^2) - z0 := by
  have hn2 : 0 < n^2 - 1 := by nlinarith
  have hA : 1 - n^2 < 0 := by linarith
  have hA0 : 1 - n^2 ≠ 0 := ne_of_lt hA
  have hq : 0 < R^2 + (n^2 - 1) * h^2 := by
    have := mul_nonneg hn2.le (sq_nonneg h)
    nlinarith [sq_pos_of_neg hR]
  set W := Real.sqrt (R^2 + (n^2 - 1) * h^2) with hWdef
  have hW : 0 < W := Real.sqrt_pos.mpr hq
  have hW2 : W^2 = R^2 + (n^2 - 1) * h^2 := Real.sq_sqrt hq.le
  simp only [mdist, selectRoot, maskNeg]
  num_real
  have e4 : ((4:ℕ):ℝ)/((1:ℕ):ℝ) = 4 := by norm_num
  have ea : -n^2 * (1 * 1) + 0 * 0 + 1 * 1 = 1 - n^2 := by ring
  have eb : 2 * -n^2 * 1 * z0 + 2 * 0 * h - 2 * 1 * R + 2 * 1 * z0 = 2 * ((1 - n^2) * z0 - R) := by ring
  have ec : -n^2 * (z0 * z0) - 2 * R * z0 + h * h + z0 * z0 = (1 - n^2) * z0^2 - 2 * R * z0 + h^2 := by ring
  simp only [e4, ea, eb, ec]
  have ed : 2 * ((1 - n^2) * z0 - R) * (2 * ((1 - n^2) * z0 - R)) -
      4 * (1 - n^2) * ((1 - n^2) * z0^2 - 2 * R * z0 + h^2) = (2 * W)^2 := by
    rw [mul_pow, hW2]; ring
  rw [ed, Real.sqrt_sq (by positivity)]
  have t1 : (-(2 * ((1 - n^2) * z0 - R)) + 2 * W) / (2 * (1 - n^2)) = (R + W) / (1 - n^2) - z0 := by
    field_simp; ring
  have t2 : (-(2 * ((1 - n^2) * z0 - R)) - 2 * W) / (2 * (1 - n^2)) = (R - W) / (1 - n^2) - z0 := by
    field_simp; ring
  rw [t1, t2]
  have hy : 0 ≤ (1 - n^2) * z0 - R := by
    nlinarith [mul_nonneg_of_nonpos_of_nonpos hA.le hz0]
  have hWy : W ≤ (1 - n^2) * z0 - R := by
    by_contra hc
    push Not at hc
    have h1 : ((1 - n^2) * z0 - R)^2 < W^2 := by nlinarith
    have h2 : W^2 ≤ ((1 - n^2) * z0 - R)^2 := by
      rw [hW2]; nlinarith [mul_le_mul_of_nonneg_left hg hn2.le]
    linarith
  have hWR : -R ≤ W := by
    by_contra hc
    push Not at hc
    have h1 : W^2 < R^2 := by nlinarith
    have := mul_nonneg hn2.le (sq_nonneg h)
    linarith
  have p1 : ¬ ((R + W) / (1 - n^2) - z0 < 0) := by
    rw [not_lt, sub_nonneg, le_div_iff_of_neg hA]; linarith
  have p2 : ¬ ((R - W) / (1 - n^2) - z0 < 0) := by
    rw [not_lt, sub_nonneg, le_div_iff_of_neg hA]; linarith
  have pabs : |z0 + ((R + W) / (1 - n^2) - z0) * 1| ≤ |z0 + ((R - W) / (1 - n^2) - z0) * 1| := by
    have e1 : z0 + ((R + W) / (1 - n^2) - z0) * 1 = (R + W) / (1 - n^2) := by ring
    have e2 : z0 + ((R - W) / (1 - n^2) - z0) * 1 = (R - W) / (1 - n^2) := by ring
    rw [e1, e2, abs_div, abs_div, abs_of_nonneg (by linarith : 0 ≤ R + W),
      abs_of_nonpos (by linarith : R - W ≤ 0)]
    exact div_le_div_of_nonneg_right (by linarith) (abs_nonneg _)
  simp only [p1, p2, hA0, pabs, if_true, if_false]

/-- the distance of `mdist_hyperbola` is not negative (the start plane is not behind the hit point) -/
theorem hyperbola_dist_nonneg (n R h z0 : ℝ) (hn : 1 < n) (hR : R < 0) (hz0 : z0 ≤ 0)
    (hg : h^2 ≤ (n^2 - 1) * z0^2 + 2 * R * z0) :
    0 ≤ (R + Real.sqrt (R^2 + (n^2 - 1) * h^2)) / (1 - n^2) - z0 := by
  have hn2 : 0 < n^2 - 1 := by nlinarith
  have hA : 1 - n^2 < 0 := by linarith
  have hq : 0 < R^2 + (n^2 - 1) * h^2 := by
    have := mul_nonneg hn2.le (sq_nonneg h)
    nlinarith [sq_pos_of_neg hR]
  set W := Real.sqrt (R^2 + (n^2 - 1) * h^2) with hWdef
  have hW : 0 < W := Real.sqrt_pos.mpr hq
  have hW2 : W^2 = R^2 + (n^2 - 1) * h^2 := Real.sq_sqrt hq.le
  have hy : 0 ≤ (1 - n^2) * z0 - R := by
    nlinarith [mul_nonneg_of_nonpos_of_nonpos hA.le hz0]
  have hWy : W ≤ (1 - n^2) * z0 - R := by
    by_contra hc
    push Not at hc
    have h1 : ((1 - n^2) * z0 - R)^2 < W^2 := by nlinarith
    have h2 : W^2 ≤ ((1 - n^2) * z0 - R)^2 := by
      rw [hW2]; nlinarith [mul_le_mul_of_nonneg_left hg hn2.le]
    linarith
  rw [sub_nonneg, le_div_iff_of_neg hA]; linarith

/-- surface normal of the conic `k = -n²` (`R < 0`) at height `h` -/
theorem mnormal_hyperbola (n R h : ℝ) (hn : 1 < n) (hR : R < 0) :
    mnormal (-n^2) R h =
      (-h / Real.sqrt (R^2 + n^2 * h^2),
       -Real.sqrt (R^2 + (n^2 - 1) * h^2) / Real.sqrt (R^2 + n^2 * h^2)) := by
  have hn2 : 0 < n^2 - 1 := by nlinarith
  have hq : 0 < R^2 + (n^2 - 1) * h^2 := by
    have := mul_nonneg hn2.le (sq_nonneg h)
    nlinarith [sq_pos_of_neg hR]
  have hqG : 0 < R^2 + n^2 * h^2 := by nlinarith [sq_nonneg h]
  set W := Real.sqrt (R^2 + (n^2 - 1) * h^2) with hWdef
  have hW : 0 < W := Real.sqrt_pos.mpr hq
  have hW2 : W^2 = R^2 + (n^2 - 1) * h^2 := Real.sq_sqrt hq.le
  set G := Real.sqrt (R^2 + n^2 * h^2) with hGdef
  have hG : 0 < G := Real.sqrt_pos.mpr hqG
  have hG2 : G^2 = R^2 + n^2 * h^2 := Real.sq_sqrt hqG.le
  have hRn : R ≠ 0 := ne_of_lt hR
  have hWn : W ≠ 0 := ne_of_gt hW
  have hGn : G ≠ 0 := ne_of_gt hG
  simp only [mnormal]
  num_real
  have e1 : Real.sqrt (1 - (1 + -n^2) * (h * h) / (R * R)) = W / (-R) := by
    rw [show 1 - (1 + -n^2) * (h * h) / (R * R) = (W / (-R))^2 by
      rw [div_pow, hW2]; field_simp; ring]
    exact Real.sqrt_sq (div_nonneg hW.le (by linarith))
  have e2 : R * (W / (-R)) = -W := by field_simp
  rw [e1, e2]
  have e3 : Real.sqrt (h / -W * (h / -W) + 1) = G / W := by
    rw [show h / -W * (h / -W) + 1 = (G / W)^2 by
      rw [div_pow, hG2]; field_simp; rw [hW2]; ring]
    exact Real.sqrt_sq (div_nonneg hG.le hW.le)
  rw [e3]
  simp only [Prod.mk.injEq]
  constructor <;> field_simp

/-- refraction glass (index `n`) → air at the conic `k = -n²` of collimated light -/
theorem mrefract_hyperbola (n R h : ℝ) (hn : 1 < n) (hR : R < 0) :
    mrefract n 1 0 1 (-h / Real.sqrt (R^2 + n^2 * h^2))
        (-Real.sqrt (R^2 + (n^2 - 1) * h^2) / Real.sqrt (R^2 + n^2 * h^2)) =
      (-h * (R + n * Real.sqrt (R^2 + (n^2 - 1) * h^2)) / (R^2 + n^2 * h^2),
       (n * h^2 - R * Real.sqrt (R^2 + (n^2 - 1) * h^2)) / (R^2 + n^2 * h^2)) := by
  have hn2 : 0 < n^2 - 1 := by nlinarith
  have hq : 0 < R^2 + (n^2 - 1) * h^2 := by
    have := mul_nonneg hn2.le (sq_nonneg h)
    nlinarith [sq_pos_of_neg hR]
  have hqG : 0 < R^2 + n^2 * h^2 := by nlinarith [sq_nonneg h]
  set W := Real.sqrt (R^2 + (n^2 - 1) * h^2) with hWdef
  have hW : 0 < W := Real.sqrt_pos.mpr hq
  have hW2 : W^2 = R^2 + (n^2 - 1) * h^2 := Real.sq_sqrt hq.le
  set G := Real.sqrt (R^2 + n^2 * h^2) with hGdef
  have hG : 0 < G := Real.sqrt_pos.mpr hqG
  have hG2 : G^2 = R^2 + n^2 * h^2 := Real.sq_sqrt hqG.le
  rw [← hG2]
  have hGn : G ≠ 0 := ne_of_gt hG
  have hd : 0 * (-h / G) + 1 * (-W / G) < 0 := by
    have : 0 < W / G := div_pos hW hG
    have e : 0 * (-h / G) + 1 * (-W / G) = -(W / G) := by ring
    rw [e]; linarith
  rw [mrefract_of_neg n 1 0 1 (-h / G) (-W / G) (-R / G) hd (div_nonneg (by linarith) hG.le)
    (by field_simp; linear_combination (-n^2) * hW2 + (n^2 - 1) * hG2)]
  simp only [Prod.mk.injEq]
  constructor
  · field_simp; ring
  · field_simp; linear_combination n * hG2 - n * hW2

/-- the closed-form algebra behind `hyperbolic_surface_stigmatic` (`W = √(R² + (n²-1)h²)`) -/
theorem hyperbola_algebra (n R h z0 W : ℝ) (hn : 1 < n) (hR : R < 0)
    (hW : 0 < W) (hW2 : W^2 = R^2 + (n^2 - 1) * h^2) :
    h + (n * W - R) / (n^2 - 1) * (-h * (R + n * W) / (R^2 + n^2 * h^2)) = 0 ∧
    z0 + ((R + W) / (1 - n^2) - z0) * 1 +
        (n * W - R) / (n^2 - 1) * ((n * h^2 - R * W) / (R^2 + n^2 * h^2)) = -R / (n - 1) ∧
    (-h * (R + n * W) / (R^2 + n^2 * h^2))^2 + ((n * h^2 - R * W) / (R^2 + n^2 * h^2))^2 = 1 ∧
    n * ((R + W) / (1 - n^2) - z0) + 1 * ((n * W - R) / (n^2 - 1)) = -R / (n - 1) - n * z0 ∧
    0 < (n * W - R) / (n^2 - 1) := by
  have hn2 : 0 < n^2 - 1 := by nlinarith
  have hn2' : n^2 - 1 ≠ 0 := ne_of_gt hn2
  have hA0 : 1 - n^2 ≠ 0 := by intro h0; apply hn2'; linarith
  have hn1 : n - 1 ≠ 0 := by intro h0; linarith
  have hD : R^2 + n^2 * h^2 ≠ 0 := by nlinarith [sq_nonneg h, sq_pos_of_neg hR, mul_nonneg (sq_nonneg n) (sq_nonneg h)]
  have hRn : R ≠ 0 := ne_of_lt hR
  refine ⟨?_, ?_, ?_, ?_, ?_⟩
  · field_simp
    linear_combination (-h * n^2) * hW2
  · field_simp
    linear_combination (R * n * (n - 1)^2 * (n + 1)) * hW2
  · field_simp
    linear_combination (h^2 * n^2 + R^2) * hW2
  · field_simp
    ring
  · apply div_pos _ hn2
    nlinarith [mul_pos (by linarith : (0:ℝ) < n) hW]

/-- collimated light passes a plane surface (normal incidence) unchanged, for any pair of indices -/
theorem mstepPlane_collimated (n1 n2 h zs : ℝ) (hzs : zs ≤ 0) :
    mstepPlane n1 n2 ⟨h, zs, 0, 1⟩ = (⟨h, 0, 0, 1⟩, -zs) := by
  simp only [mstepPlane, maskNeg, mrefract, malign, Num.sign]
  num_real
  have p0 : ¬ (-zs / 1 < 0) := by rw [div_one]; linarith
  have e1 : (0:ℝ) * 0 + 1 * 1 = 1 := by norm_num
  have p1 : (0:ℝ) < 1 := one_pos
  simp only [p0, e1]
  simp only [p1, if_true, if_false, abs_one, mul_one, sub_self, mul_zero, sub_zero, Real.sqrt_one,
    div_one, add_zero, MRay.mk.injEq, Prod.mk.injEq]
  exact ⟨⟨trivial, by ring, trivial, by ring⟩, trivial⟩

/-! ### refracting sphere, rays aimed at an axial point at distance `q` behind the centre -/

/-- A ray aimed at the axial point `(0, R + q)` (it is there at parameter `s`) meets the sphere
`k = 0` at `t = s - N q - w`, `w = ±√(R² - M² q²)` with the sign of `R`: the root selection takes
the intersection on the vertex side of the sphere for both signs of `R`.  Guards: the start point
is before both intersections (`hs1`, `hs2`; otherwise the code masks a negative root). -/
theorem mdist_sphere_aimed (R q M N s w : ℝ) (hN : 0 < N) (hu : M^2 + N^2 = 1)
    (hw2 : w^2 = R^2 - M^2 * q^2) (hwR : 0 < w * R)
    (hs1 : 0 ≤ s - N * q) (hs2 : R^2 - M^2 * q^2 ≤ (s - N * q)^2) :
    mdist 0 R ⟨-s * M, R + q - s * N, M, N⟩ = s - N * q - w := by
  have hNN : N^2 = 1 - M^2 := by linarith
  simp only [mdist, selectRoot, maskNeg]
  num_real
  have e4 : ((4:ℕ):ℝ)/((1:ℕ):ℝ) = 4 := by norm_num
  have ea : 0 * (N * N) + M * M + N * N = (1:ℝ) := by nlinarith
  have eb : 2 * 0 * N * (R + q - s * N) + 2 * M * (-s * M) - 2 * N * R + 2 * N * (R + q - s * N)
      = -(2 * (s - N * q)) := by linear_combination (-2 * s) * hu
  have ec : 0 * ((R + q - s * N) * (R + q - s * N)) - 2 * R * (R + q - s * N) + -s * M * (-s * M)
      + (R + q - s * N) * (R + q - s * N) = (s - N * q)^2 - w^2 := by
    linear_combination (s^2 - q^2) * hu + hw2
  simp only [e4, ea, eb, ec]
  have ed : -(2 * (s - N * q)) * -(2 * (s - N * q)) - 4 * 1 * ((s - N * q)^2 - w^2) = (2 * w)^2 := by ring
  rw [ed, Real.sqrt_sq_eq_abs, abs_mul, abs_two]
  have t1 : (- -(2 * (s - N * q)) + 2 * |w|) / (2 * 1) = s - N * q + |w| := by ring
  have t2 : (- -(2 * (s - N * q)) - 2 * |w|) / (2 * 1) = s - N * q - |w| := by ring
  rw [t1, t2]
  have hwB : |w| ≤ s - N * q := abs_le_of_sq_le_sq (by rw [hw2]; exact hs2) hs1
  have hw0 : w ≠ 0 := by
    intro h0; rw [h0, zero_mul] at hwR; exact lt_irrefl _ hwR
  have hR0 : R ≠ 0 := by
    intro h0; rw [h0, mul_zero] at hwR; exact lt_irrefl _ hwR
  have hwabs : 0 < |w| := abs_pos.mpr hw0
  have p1 : ¬ (s - N * q + |w| < 0) := by linarith
  have p2 : ¬ (s - N * q - |w| < 0) := by linarith
  have p3 : ¬ ((1:ℝ) = 0) := one_ne_zero
  simp only [p1, p2, p3, if_false]
  have hMle : M^2 ≤ 1 := by nlinarith [sq_nonneg N]
  have hw2pos : 0 < w^2 := by positivity
  have hM1 : (M^2 * q)^2 < R^2 := by
    have e : (M^2 * q)^2 = M^2 * (M^2 * q^2) := by ring
    have := mul_le_mul_of_nonneg_right hMle (by positivity : 0 ≤ M^2 * q^2)
    rw [e]; linarith
  have key : ∀ a : ℝ, (R + q - s * N + (s - N * q + a) * N)^2 - (R + q - s * N + (s - N * q - a) * N)^2
      = 4 * ((R + M^2 * q) * (a * N)) := by
    intro a; rw [show R + M^2 * q = R + q - N^2 * q by rw [hNN]; ring]; ring
  have haN : 0 < |w| * N := mul_pos hwabs hN
  rcases lt_or_gt_of_ne hR0 with hRneg | hRpos
  · have hw : w < 0 := by
      by_contra hc
      push Not at hc
      nlinarith [mul_nonneg hc (neg_nonneg.mpr hRneg.le)]
    have hM1' : (M^2 * q)^2 < (-R)^2 := by rw [neg_sq]; exact hM1
    have hc := (abs_lt_of_sq_lt_sq' hM1' (by linarith)).2
    have cond : |R + q - s * N + (s - N * q + |w|) * N| ≤ |R + q - s * N + (s - N * q - |w|) * N| := by
      apply sq_le_sq.mp
      have := key |w|
      have : (R + M^2 * q) * (|w| * N) < 0 := mul_neg_of_neg_of_pos (by linarith) haN
      linarith
    rw [if_pos cond, abs_of_neg hw]; ring
  · have hw : 0 < w := by
      by_contra hc
      push Not at hc
      nlinarith [mul_nonneg (neg_nonneg.mpr hc) hRpos.le]
    have hc := (abs_lt_of_sq_lt_sq' hM1 hRpos.le).1
    have cond : ¬ (|R + q - s * N + (s - N * q + |w|) * N| ≤ |R + q - s * N + (s - N * q - |w|) * N|) := by
      rw [not_le]
      apply sq_lt_sq.mp
      have := key |w|
      have : 0 < (R + M^2 * q) * (|w| * N) := mul_pos (by linarith) haN
      linarith
    rw [if_neg cond, abs_of_pos hw]

/-- `surface_normal` of a sphere at a point `(y, z)` of its sag sheet (`(R - z)/R > 0`: the half of
the sphere on the vertex side): the unit vector `(P - C)/R`, for both signs of `R`. -/
theorem mnormal_sphere (R y z : ℝ) (hs : y^2 + (z - R)^2 = R^2) (hz : 0 < (R - z) / R) :
    mnormal 0 R y = (y / R, (z - R) / R) := by
  have hR : R ≠ 0 := by
    intro h0; rw [h0, div_zero] at hz; exact lt_irrefl _ hz
  have hRz : R - z ≠ 0 := by
    intro h0; rw [h0, zero_div] at hz; exact lt_irrefl _ hz
  simp only [mnormal]
  num_real
  have e1 : Real.sqrt (1 - (1 + 0) * (y * y) / (R * R)) = (R - z) / R := by
    rw [show 1 - (1 + 0) * (y * y) / (R * R) = ((R - z) / R)^2 by
      field_simp; linear_combination (-1 : ℝ) * hs]
    exact Real.sqrt_sq hz.le
  have e2 : R * ((R - z) / R) = R - z := by field_simp
  rw [e1, e2]
  have hz' : 0 < R / (R - z) := by
    have := inv_pos.mpr hz
    rwa [inv_div] at this
  have e3 : Real.sqrt (y / (R - z) * (y / (R - z)) + 1) = R / (R - z) := by
    rw [show y / (R - z) * (y / (R - z)) + 1 = (R / (R - z))^2 by
      field_simp; linear_combination hs]
    exact Real.sqrt_sq hz'.le
  rw [e3]
  simp only [Prod.mk.injEq]
  constructor <;> field_simp
  ring

/-- the hit point of a ray aimed at the aplanatic point `(0, R + R n2/n1)` lies on the sag sheet -/
theorem aplanatic_geometry (R n1 n2 M N w y z : ℝ) (h1 : 0 < n1) (h2 : 0 < n2) (hN : 0 < N)
    (hu : M^2 + N^2 = 1) (hw2 : w^2 = R^2 - M^2 * (R * n2 / n1)^2) (hwR : 0 < w * R)
    (hap : M^2 * n2^2 < N^2 * n1^2)
    (hy : y = (-N * (R * n2 / n1) - w) * M) (hz : z = R + R * n2 / n1 + (-N * (R * n2 / n1) - w) * N) :
    y^2 + (z - R)^2 = R^2 ∧ 0 < (R - z) / R := by
  have hR0 : R ≠ 0 := by
    intro h0; rw [h0, mul_zero] at hwR; exact lt_irrefl _ hwR
  have hn1 : n1 ≠ 0 := ne_of_gt h1
  constructor
  · subst hy hz
    linear_combination ((-N * (R * n2 / n1) - w)^2 - (R * n2 / n1)^2) * hu + hw2
  · set a := w / R with ha
    set b := n2 / n1 with hb
    have ha0 : 0 < a := by
      have : a = w * R / R^2 := by rw [ha]; field_simp
      rw [this]; exact div_pos hwR (by positivity)
    have hb0 : 0 < b := div_pos h2 h1
    have ha2 : a^2 = 1 - M^2 * b^2 := by
      rw [ha, hb, div_pow, hw2]; field_simp
    have hMb : M^2 * b^2 < N^2 := by
      rw [hb, div_pow]
      have : M^2 * (n2^2 / n1^2) = M^2 * n2^2 / n1^2 := by ring
      rw [this, div_lt_iff₀ (by positivity)]; exact hap
    have e : (N * a)^2 - (M^2 * b)^2 = N^2 - M^2 * b^2 := by
      linear_combination N^2 * ha2 - M^2 * b^2 * hu
    have hlt : M^2 * b < N * a := by
      have h3 : (M^2 * b)^2 < (N * a)^2 := by linarith
      exact (abs_lt_of_sq_lt_sq' h3 (by positivity)).2
    have ez : (R - z) / R = N * a - M^2 * b := by
      subst hz
      rw [ha, hb]; field_simp
      linear_combination (R * n2) * hu
    rw [ez]; linarith

/-- refraction at that hit point: the refracted direction is `(M n2/n1, w/R)` -/
theorem aplanatic_refract (R n1 n2 M N w y z : ℝ) (h1 : 0 < n1) (h2 : 0 < n2) (hN : 0 < N)
    (hu : M^2 + N^2 = 1) (hw2 : w^2 = R^2 - M^2 * (R * n2 / n1)^2) (hwR : 0 < w * R)
    (hy : y = (-N * (R * n2 / n1) - w) * M) (hz : z = R + R * n2 / n1 + (-N * (R * n2 / n1) - w) * N) :
    mrefract n1 n2 M N (y / R) ((z - R) / R) = (n2 / n1 * M, w / R) := by
  have hR0 : R ≠ 0 := by
    intro h0; rw [h0, mul_zero] at hwR; exact lt_irrefl _ hwR
  have hn1 : n1 ≠ 0 := ne_of_gt h1
  have hn2 : n2 ≠ 0 := ne_of_gt h2
  have hw2' : w^2 * n1^2 = R^2 * n1^2 - M^2 * R^2 * n2^2 := by rw [hw2]; field_simp
  have ha0 : 0 < w / R := by
    have : w / R = w * R / R^2 := by field_simp
    rw [this]; exact div_pos hwR (by positivity)
  have ed : M * (y / R) + N * ((z - R) / R) = -(w / R) := by
    subst hy hz
    field_simp
    linear_combination (-(N * R * n2 + n1 * w)) * hu
  have hd : M * (y / R) + N * ((z - R) / R) < 0 := by rw [ed]; linarith
  have hρ : N^2 = 1 - n1 / n2 * (n1 / n2) *
      (1 - (M * (y / R) + N * ((z - R) / R)) * (M * (y / R) + N * ((z - R) / R))) := by
    rw [ed]
    field_simp
    linear_combination (-1 : ℝ) * hw2' + (n2^2 * R^2) * hu
  rw [mrefract_of_neg n1 n2 M N (y / R) ((z - R) / R) N hd hN.le hρ, ed]
  simp only [Prod.mk.injEq]
  subst hy hz
  constructor
  · field_simp
    linear_combination (-M) * hw2' + (M * R^2 * n2^2) * hu
  · field_simp
    linear_combination (-N) * hw2' + (N * R^2 * n2^2) * hu

/-! ### conic `k = -n²`, `R > 0`, hit from the air side by light leaving the far focus -/

theorem mdist_hyperbola_focus (n R M N : ℝ) (hn : 1 < n) (hR : 0 < R) (hN : 0 < N) (hu : M^2 + N^2 = 1)
    (hap : 1 < n * N^2) :
    mdist (-n^2) R ⟨0, -(R / (n - 1)), M, N⟩ = R / (n * N - 1) := by
  have hn1 : n - 1 ≠ 0 := by intro h0; linarith
  have hN1 : N ≤ 1 := by nlinarith [sq_nonneg M, sq_nonneg (N - 1)]
  have hnN : 1 < n * N := by nlinarith [mul_nonneg (mul_nonneg (by linarith : (0:ℝ) ≤ n) hN.le) (by linarith : 0 ≤ 1 - N)]
  have hnN1 : n * N - 1 ≠ 0 := by intro h0; linarith
  have hnN2 : 1 + n * N ≠ 0 := by intro h0; nlinarith
  have hA : 1 - n^2 * N^2 ≠ 0 := by
    intro h0
    have : (1 - n * N) * (1 + n * N) = 0 := by linear_combination h0
    rcases mul_eq_zero.mp this with h | h
    · apply hnN1; linarith
    · exact hnN2 h
  simp only [mdist, selectRoot, maskNeg]
  num_real
  have e4 : ((4:ℕ):ℝ)/((1:ℕ):ℝ) = 4 := by norm_num
  have ea : -n^2 * (N * N) + M * M + N * N = 1 - n^2 * N^2 := by linear_combination hu
  have eb : 2 * -n^2 * N * -(R / (n - 1)) + 2 * M * 0 - 2 * N * R + 2 * N * -(R / (n - 1)) = 2 * n * N * R := by
    field_simp; ring
  have ec : -n^2 * (-(R / (n - 1)) * -(R / (n - 1))) - 2 * R * -(R / (n - 1)) + 0 * 0
      + -(R / (n - 1)) * -(R / (n - 1)) = -(R^2) := by
    field_simp; ring
  simp only [e4, ea, eb, ec]
  have ed : 2 * n * N * R * (2 * n * N * R) - 4 * (1 - n^2 * N^2) * -(R^2) = (2 * R)^2 := by ring
  rw [ed, Real.sqrt_sq (by positivity)]
  have t1 : (-(2 * n * N * R) + 2 * R) / (2 * (1 - n^2 * N^2)) = R / (1 + n * N) := by
    field_simp; ring
  have t2 : (-(2 * n * N * R) - 2 * R) / (2 * (1 - n^2 * N^2)) = R / (n * N - 1) := by
    field_simp; ring
  rw [t1, t2]
  have p1 : ¬ (R / (1 + n * N) < 0) := not_lt.mpr (div_nonneg hR.le (by nlinarith))
  have p2 : ¬ (R / (n * N - 1) < 0) := not_lt.mpr (div_nonneg hR.le (by linarith))
  simp only [p1, p2, hA, if_false]
  have ez1 : -(R / (n - 1)) + R / (1 + n * N) * N = -(R * (1 + N) / ((n - 1) * (1 + n * N))) := by
    field_simp; ring
  have ez2 : -(R / (n - 1)) + R / (n * N - 1) * N = R * (1 - N) / ((n - 1) * (n * N - 1)) := by
    field_simp; ring
  have hz1 : 0 < R * (1 + N) / ((n - 1) * (1 + n * N)) := by
    apply div_pos (by nlinarith) (mul_pos (by linarith) (by nlinarith))
  have hz2 : 0 ≤ R * (1 - N) / ((n - 1) * (n * N - 1)) := by
    apply div_nonneg (mul_nonneg hR.le (by linarith)) (mul_nonneg (by linarith) (by linarith))
  have cond : ¬ (|-(R / (n - 1)) + R / (1 + n * N) * N| ≤ |-(R / (n - 1)) + R / (n * N - 1) * N|) := by
    rw [ez1, ez2, abs_neg, abs_of_pos hz1, abs_of_nonneg hz2, not_le]
    rw [div_lt_div_iff₀ (mul_pos (by linarith) (by linarith)) (mul_pos (by linarith) (by nlinarith))]
    have := mul_pos (mul_pos hR (by linarith : 0 < n - 1)) (by linarith : 0 < n * N^2 - 1)
    nlinarith
  rw [if_neg cond]

theorem mnormal_hyperbola_focus (n R M N : ℝ) (hn : 1 < n) (hR : 0 < R) (hN : 0 < N) (hu : M^2 + N^2 = 1)
    (hap : 1 < n * N^2) :
    mnormal (-n^2) R (0 + R / (n * N - 1) * M) =
      (M / Real.sqrt (1 + n^2 - 2 * n * N), -(n - N) / Real.sqrt (1 + n^2 - 2 * n * N)) := by
  have hN1 : N ≤ 1 := by nlinarith [sq_nonneg M, sq_nonneg (N - 1)]
  have hnN : 1 < n * N := by nlinarith [mul_nonneg (mul_nonneg (by linarith : (0:ℝ) ≤ n) hN.le) (by linarith : 0 ≤ 1 - N)]
  have hnN1 : n * N - 1 ≠ 0 := by intro h0; linarith
  have hnmN : 0 < n - N := by linarith
  have hnmN' : n - N ≠ 0 := ne_of_gt hnmN
  have hR0 : R ≠ 0 := ne_of_gt hR
  have hq : 0 < 1 + n^2 - 2 * n * N := by nlinarith [sq_nonneg M, sq_pos_of_pos hnmN]
  set G := Real.sqrt (1 + n^2 - 2 * n * N) with hGdef
  have hG : 0 < G := Real.sqrt_pos.mpr hq
  have hG2 : G^2 = 1 + n^2 - 2 * n * N := Real.sq_sqrt hq.le
  have hG0 : G ≠ 0 := ne_of_gt hG
  simp only [mnormal]
  num_real
  have e1 : Real.sqrt (1 - (1 + -n^2) * ((0 + R / (n * N - 1) * M) * (0 + R / (n * N - 1) * M)) / (R * R))
      = (n - N) / (n * N - 1) := by
    rw [show 1 - (1 + -n^2) * ((0 + R / (n * N - 1) * M) * (0 + R / (n * N - 1) * M)) / (R * R)
        = ((n - N) / (n * N - 1))^2 by
      field_simp
      linear_combination (R^2 * (n^2 - 1)) * hu]
    exact Real.sqrt_sq (div_nonneg hnmN.le (by linarith))
  rw [e1]
  have e3 : (0 + R / (n * N - 1) * M) / (R * ((n - N) / (n * N - 1))) = M / (n - N) := by
    field_simp
    ring
  rw [e3]
  have e4 : Real.sqrt (M / (n - N) * (M / (n - N)) + 1) = G / (n - N) := by
    rw [show M / (n - N) * (M / (n - N)) + 1 = (G / (n - N))^2 by
      rw [div_pow, hG2]; field_simp
      linear_combination hu]
    exact Real.sqrt_sq (div_nonneg hG.le hnmN.le)
  rw [e4]
  simp only [Prod.mk.injEq]
  constructor <;> field_simp

theorem mrefract_hyperbola_focus (n M N : ℝ) (hn : 1 < n) (hN : 0 < N) (hu : M^2 + N^2 = 1)
    (hap : 1 < n * N^2) :
    mrefract 1 n M N (M / Real.sqrt (1 + n^2 - 2 * n * N)) (-(n - N) / Real.sqrt (1 + n^2 - 2 * n * N))
      = (0, 1) := by
  have hN1 : N ≤ 1 := by nlinarith [sq_nonneg M, sq_nonneg (N - 1)]
  have hnN : 1 < n * N := by nlinarith [mul_nonneg (mul_nonneg (by linarith : (0:ℝ) ≤ n) hN.le) (by linarith : 0 ≤ 1 - N)]
  have hnmN : 0 < n - N := by linarith
  have hn0 : n ≠ 0 := by intro h0; linarith
  have hq : 0 < 1 + n^2 - 2 * n * N := by nlinarith [sq_nonneg M, sq_pos_of_pos hnmN]
  set G := Real.sqrt (1 + n^2 - 2 * n * N) with hGdef
  have hG : 0 < G := Real.sqrt_pos.mpr hq
  have hG2 : G^2 = 1 + n^2 - 2 * n * N := Real.sq_sqrt hq.le
  have hG0 : G ≠ 0 := ne_of_gt hG
  have ed : M * (M / G) + N * (-(n - N) / G) = -((n * N - 1) / G) := by
    field_simp
    linear_combination hu
  have hd : M * (M / G) + N * (-(n - N) / G) < 0 := by
    rw [ed]
    have : 0 < (n * N - 1) / G := div_pos (by linarith) hG
    linarith
  have hρ : ((n - N) / G)^2 = 1 - 1 / n * (1 / n) *
      (1 - (M * (M / G) + N * (-(n - N) / G)) * (M * (M / G) + N * (-(n - N) / G))) := by
    rw [ed]
    field_simp
    linear_combination (-(n^2 - 1)) * hG2
  rw [mrefract_of_neg 1 n M N (M / G) (-(n - N) / G) ((n - N) / G) hd (div_nonneg hnmN.le hG.le) hρ, ed]
  simp only [Prod.mk.injEq]
  constructor
  · field_simp
    linear_combination M * hG2
  · field_simp
    linear_combination (N - n) * hG2

end ConicRefract
