import OptiModel.Model.Real
import OptiModel.Proofs.NumReal
import Mathlib.Tactic.FieldSimp
import Mathlib.Tactic.Ring
import Mathlib.Tactic.LinearCombination
import Mathlib.Tactic.Positivity
import Mathlib.Tactic.Linarith
/-!
# Helpers for C07: from step-level equivariance to a whole surface and a whole lens

* `traceSurf_eq_map` : for a plane / standard-conic geometry `traceSurf` acts ray by ray
  (`List.map` of `surfRay`); only the Newton–Raphson geometries couple the rays of one batch.
* `traceLens_equivariant` : the induction over the surface list, once and for all, for an
  arbitrary ray transformation `φ` and an arbitrary pairing of surfaces.
* `traceLens_append`, `finalRays` : the record list of a concatenated lens.
* rigid motions commute with advancing a ray along its direction (`localize_advance`).
-/
namespace Cov
open Model

/-! ### lists -/

theorem zip_map_self {β γ : Type} (l : List β) (f : β → γ) :
    l.zip (l.map f) = l.map (fun a => (a, f a)) := by
  induction l with
  | nil => rfl
  | cons a l ih => simp only [List.map_cons, List.zip_cons_cons, ih]

/-! ### one ray through one surface -/

/-- a geometry whose `distance` is evaluated ray by ray: `Plane`, `StandardGeometry` -/
def Simple (g : Geom ℝ) : Prop := g = .plane ∨ ∃ R k, g = .standard R k

/-- the per-ray distance of the simple geometries -/
noncomputable def dist1 : Geom ℝ → Ray ℝ → ℝ
  | .plane, r => planeDistance r
  | .standard R k, r => stdDistance R k r
  | _, _ => 0

/-- the body of the `map` in `traceSurf`: what happens to one localised ray `r` once its
distance `t` is known (propagate, add `|t·n1|`, clip, interact, globalize) -/
noncomputable def surfStep (s : RSurf ℝ) (w : ℝ) (r : Ray ℝ) (t : ℝ) : Ray ℝ :=
  s.cs.globalize (interact s (clip s.aperture
    { (r.propagate t s.k1 w) with opd := (r.propagate t s.k1 w).opd + Num.abs (t * s.n1) }))

/-- one global ray through one simple surface -/
noncomputable def surfRay (s : RSurf ℝ) (w : ℝ) (r : Ray ℝ) : Ray ℝ :=
  surfStep s w (s.cs.localize r) (dist1 s.geom (s.cs.localize r))

theorem distance_simple (g : Geom ℝ) (hg : Simple g) (rays : List (Ray ℝ)) :
    g.distance rays = rays.map (dist1 g) := by
  rcases hg with h | ⟨R, k, h⟩ <;> subst h <;> rfl

/-- `traceSurf` for any geometry: localise the batch, one batch-wide `distance`, then ray by ray -/
theorem traceSurf_eq_zip (s : RSurf ℝ) (w : ℝ) (rays : List (Ray ℝ)) (hk : s.kind ≠ .object) :
    traceSurf s w rays =
      ((rays.map s.cs.localize).zip (s.geom.distance (rays.map s.cs.localize))).map
        (fun rt : Ray ℝ × ℝ => surfStep s w rt.1 rt.2) := by
  unfold traceSurf
  cases hkk : s.kind
  · exact absurd hkk hk
  · rfl
  · rfl

/-- `traceSurf` on a simple geometry is a `map` -/
theorem traceSurf_eq_map (s : RSurf ℝ) (w : ℝ) (rays : List (Ray ℝ))
    (hk : s.kind ≠ .object) (hg : Simple s.geom) :
    traceSurf s w rays = rays.map (surfRay s w) := by
  rw [traceSurf_eq_zip s w rays hk, distance_simple _ hg, zip_map_self, List.map_map, List.map_map]
  rfl

theorem traceSurf_object (s : RSurf ℝ) (w : ℝ) (rays : List (Ray ℝ)) (hk : s.kind = .object) :
    traceSurf s w rays = rays := by
  unfold traceSurf
  rw [hk]

/-! ### the induction over the surface list -/

/-- If surface `s'` does to the transformed batch what `s` does to the original batch, pairwise
along two surface lists, then the whole record list of the transformed batch through `ss'` is
the transformed record list of the original batch through `ss`. -/
theorem traceLens_equivariant (φ : Ray ℝ → Ray ℝ) (w w' : ℝ) :
    ∀ (ss ss' : List (RSurf ℝ)),
      List.Forall₂ (fun s s' => ∀ rays, traceSurf s' w' (rays.map φ) = (traceSurf s w rays).map φ) ss ss' →
      ∀ rays, traceLens w' ss' (rays.map φ) = (traceLens w ss rays).map (List.map φ) := by
  intro ss ss' h
  induction h with
  | nil => intro rays; rfl
  | cons h1 _ ih =>
    intro rays
    simp only [traceLens, List.map_cons]
    rw [h1 rays, ih]

/-- the batch that leaves the last surface of `ss` -/
noncomputable def finalRays (w : ℝ) : List (RSurf ℝ) → List (Ray ℝ) → List (Ray ℝ)
  | [], rays => rays
  | s :: ss, rays => finalRays w ss (traceSurf s w rays)

theorem traceLens_append (w : ℝ) (a b : List (RSurf ℝ)) (rays : List (Ray ℝ)) :
    traceLens w (a ++ b) rays = traceLens w a rays ++ traceLens w b (finalRays w a rays) := by
  induction a generalizing rays with
  | nil => rfl
  | cons s a ih => simp only [List.cons_append, traceLens, finalRays, ih]

/-- `finalRays` is the last record (or the input batch for an empty lens) -/
theorem finalRays_eq_getLastD (w : ℝ) (ss : List (RSurf ℝ)) (rays : List (Ray ℝ)) :
    finalRays w ss rays = (traceLens w ss rays).getLastD rays := by
  induction ss generalizing rays with
  | nil => rfl
  | cons s ss ih => simp only [finalRays, traceLens, List.getLastD_cons, ih]

theorem traceLens_length (w : ℝ) (ss : List (RSurf ℝ)) (rays : List (Ray ℝ)) :
    (traceLens w ss rays).length = ss.length := by
  induction ss generalizing rays with
  | nil => rfl
  | cons s ss ih => simp only [traceLens, List.length_cons, ih]

/-! ### advancing a ray along its own direction -/

/-- the first two lines of the `map` body of `traceSurf`: move the ray by `t` along its direction
through a medium with extinction coefficient `k` and index `n` (position, intensity, path) -/
noncomputable def advance (r : Ray ℝ) (t k w n : ℝ) : Ray ℝ :=
  { (r.propagate t k w) with opd := (r.propagate t k w).opd + Num.abs (t * n) }

theorem surfStep_eq (s : RSurf ℝ) (w : ℝ) (r : Ray ℝ) (t : ℝ) :
    surfStep s w r t = s.cs.globalize (interact s (clip s.aperture (advance r t s.k1 w s.n1))) := rfl

theorem advance_eq (r : Ray ℝ) (t k w n : ℝ) : advance r t k w n =
    { r with x := r.x + t * r.L, y := r.y + t * r.M, z := r.z + t * r.N,
             i := r.i * Real.exp (-(4 * Real.pi * k / w) * t * 1000), opd := r.opd + |t * n| } := by
  unfold advance Ray.propagate
  num_real
  norm_num

theorem translate_advance (r : Ray ℝ) (dx dy dz t k w n : ℝ) :
    (advance r t k w n).translate dx dy dz = advance (r.translate dx dy dz) t k w n := by
  rw [advance_eq, advance_eq]
  unfold Ray.translate
  num_real
  simp only [Ray.mk.injEq, true_and, and_true]
  refine ⟨by ring, by ring, by ring⟩

theorem rotateX_advance (r : Ray ℝ) (a t k w n : ℝ) :
    (advance r t k w n).rotateX a = advance (r.rotateX a) t k w n := by
  rw [advance_eq, advance_eq]
  unfold Ray.rotateX
  num_real
  simp only [Ray.mk.injEq, true_and, and_true]
  refine ⟨by ring, by ring⟩

theorem rotateY_advance (r : Ray ℝ) (a t k w n : ℝ) :
    (advance r t k w n).rotateY a = advance (r.rotateY a) t k w n := by
  rw [advance_eq, advance_eq]
  unfold Ray.rotateY
  num_real
  simp only [Ray.mk.injEq, true_and, and_true]
  refine ⟨by ring, by ring⟩

theorem rotateZ_advance (r : Ray ℝ) (a t k w n : ℝ) :
    (advance r t k w n).rotateZ a = advance (r.rotateZ a) t k w n := by
  rw [advance_eq, advance_eq]
  unfold Ray.rotateZ
  num_real
  simp only [Ray.mk.injEq, true_and, and_true]
  refine ⟨by ring, by ring⟩

/-- a rigid motion commutes with advancing the ray (any decentre, any tilts) -/
theorem localize_advance (cs : Cs ℝ) (r : Ray ℝ) (t k w n : ℝ) :
    cs.localize (advance r t k w n) = advance (cs.localize r) t k w n := by
  unfold Cs.localize
  simp only
  cases truthy cs.rx <;> cases truthy cs.ry <;> cases truthy cs.rz <;>
    simp only [Bool.false_eq_true, if_false, if_true, rotateX_advance, rotateY_advance, rotateZ_advance,
      translate_advance]

/-- two consecutive forward segments in the same medium are one segment: positions add, the
Beer–Lambert factors multiply, `|t·n| + |u·n| = |(t+u)·n|` -/
theorem advance_add (r : Ray ℝ) (t u k w n : ℝ) (ht : 0 ≤ t) (hu : 0 ≤ u) :
    advance (advance r t k w n) u k w n = advance r (t + u) k w n := by
  rw [advance_eq, advance_eq, advance_eq]
  simp only [Ray.mk.injEq, true_and, and_true]
  refine ⟨by ring, by ring, by ring, ?_, ?_⟩
  · rw [mul_assoc, ← Real.exp_add]
    congr 2
    ring
  · rw [abs_mul, abs_mul, abs_mul, abs_of_nonneg ht, abs_of_nonneg hu, abs_of_nonneg (add_nonneg ht hu)]
    ring

/-! ### the distance to the next surface after an advance -/

theorem conicABC_eq (R k : ℝ) (r : Ray ℝ) : conicABC R k r =
    (k*(r.N*r.N) + r.L*r.L + r.M*r.M + r.N*r.N,
     2*k*r.N*r.z + 2*r.L*r.x + 2*r.M*r.y - 2*r.N*R + 2*r.N*r.z,
     k*(r.z*r.z) - 2*R*r.z + r.x*r.x + r.y*r.y + r.z*r.z) := by
  unfold conicABC
  num_real

theorem conicABC_advance (R k : ℝ) (r : Ray ℝ) (t k' w n : ℝ) :
    conicABC R k (advance r t k' w n) =
      ((conicABC R k r).1, (conicABC R k r).2.1 + 2 * (conicABC R k r).1 * t,
       (conicABC R k r).2.2 + (conicABC R k r).2.1 * t + (conicABC R k r).1 * t^2) := by
  rw [conicABC_eq, conicABC_eq, advance_eq]
  simp only [Prod.mk.injEq]
  refine ⟨trivial, by ring, by ring⟩

/-- The point reached after `t` is not beyond the intersection that `selectRoot` picks.  With
`t₁,₂ = (-b ± √(b²-4ac))/(2a)` the roots of the quadratic (`-c/b` when `a = 0`):
* `a = 0`: the single root is ahead;
* both roots ahead (`t ≤ t₁`, `t ≤ t₂`): no root is masked, before or after;
* one root behind the ray (`tᵢ < 0`, e.g. a concave surface seen from inside its sphere): that root
  is masked to `inf` before and after.  In floating point `|z + inf·N| = inf` loses the comparison;
  over ℝ `inf` is the junk value 0, so the guard also asks that the model's comparison
  `|z₁| ≤ |z₂|` still picks the other root: the selected intersection is nearer to the vertex
  plane than the start point `z` and than the advanced point `z + tN`. -/
def RootsAhead (a b c z N t : ℝ) : Prop :=
  (a = 0 ∧ b ≠ 0 ∧ t ≤ -c / b) ∨
  (a ≠ 0 ∧ t ≤ (-b + Real.sqrt (b * b - 4 * a * c)) / (2 * a) ∧
    t ≤ (-b - Real.sqrt (b * b - 4 * a * c)) / (2 * a)) ∨
  (a ≠ 0 ∧ (-b - Real.sqrt (b * b - 4 * a * c)) / (2 * a) < 0 ∧
    t ≤ (-b + Real.sqrt (b * b - 4 * a * c)) / (2 * a) ∧
    |z + (-b + Real.sqrt (b * b - 4 * a * c)) / (2 * a) * N| ≤ |z| ∧
    |z + (-b + Real.sqrt (b * b - 4 * a * c)) / (2 * a) * N| ≤ |z + t * N|) ∨
  (a ≠ 0 ∧ (-b + Real.sqrt (b * b - 4 * a * c)) / (2 * a) < 0 ∧
    t ≤ (-b - Real.sqrt (b * b - 4 * a * c)) / (2 * a) ∧
    |z + (-b - Real.sqrt (b * b - 4 * a * c)) / (2 * a) * N| < |z| ∧
    |z + (-b - Real.sqrt (b * b - 4 * a * c)) / (2 * a) * N| < |z + t * N|)

/-- moving the start point forward by `t` (not beyond the selected intersection) reduces the selected
intersection distance by `t`: same discriminant, same intersection heights `z + tᵢ N`, hence the same
choice between the two roots -/
theorem selectRoot_advance (a b c z N t : ℝ) (h0 : 0 ≤ t) (h : RootsAhead a b c z N t) :
    selectRoot a (b + 2 * a * t) (c + b * t + a * t^2) (z + t * N) N = selectRoot a b c z N - t ∧
      t ≤ selectRoot a b c z N := by
  unfold selectRoot maskNeg
  num_real
  have e4 : ((4:ℕ):ℝ)/((1:ℕ):ℝ) = 4 := by norm_num
  simp only [e4]
  have inf0 : (Num.inf : ℝ) = 0 := rfl
  simp only [inf0]
  have hd : (b + 2 * a * t) * (b + 2 * a * t) - 4 * a * (c + b * t + a * t ^ 2) = b * b - 4 * a * c := by ring
  rw [hd]
  unfold RootsAhead at h
  set q := Real.sqrt (b * b - 4 * a * c)
  rcases h with ⟨ha, hb, hle⟩ | ⟨ha, h1, h2⟩ | ⟨ha, h2, h1, hz, hz'⟩ | ⟨ha, h1, h2, hz, hz'⟩
  · subst ha
    rw [if_pos rfl, if_pos rfl]
    refine ⟨?_, hle⟩
    have : b + 2 * 0 * t = b := by ring
    rw [this]
    field_simp
    ring
  all_goals
    rw [if_neg ha, if_neg ha]
    have t1 : (-(b + 2 * a * t) + q) / (2 * a) = (-b + q) / (2 * a) - t := by field_simp; ring
    have t2 : (-(b + 2 * a * t) - q) / (2 * a) = (-b - q) / (2 * a) - t := by field_simp; ring
    rw [t1, t2]
    set T1 := (-b + q) / (2 * a)
    set T2 := (-b - q) / (2 * a)
    have z1 : z + t * N + (T1 - t) * N = z + T1 * N := by ring
    have z2 : z + t * N + (T2 - t) * N = z + T2 * N := by ring
  · rw [if_neg (not_lt.mpr (sub_nonneg.mpr h1)), if_neg (not_lt.mpr (sub_nonneg.mpr h2)),
      if_neg (not_lt.mpr (le_trans h0 h1)), if_neg (not_lt.mpr (le_trans h0 h2)), z1, z2]
    split_ifs
    · exact ⟨rfl, h1⟩
    · exact ⟨rfl, h2⟩
  · have h2' : T2 - t < 0 := by linarith
    rw [if_neg (not_lt.mpr (sub_nonneg.mpr h1)), if_pos h2', if_neg (not_lt.mpr (le_trans h0 h1)),
      if_pos h2, z1]
    simp only [zero_mul, add_zero]
    rw [if_pos hz', if_pos hz]
    exact ⟨rfl, h1⟩
  · have h1' : T1 - t < 0 := by linarith
    rw [if_pos h1', if_neg (not_lt.mpr (sub_nonneg.mpr h2)), if_pos h1,
      if_neg (not_lt.mpr (le_trans h0 h2)), z2]
    simp only [zero_mul, add_zero]
    rw [if_neg (not_le.mpr hz'), if_neg (not_le.mpr hz)]
    exact ⟨rfl, h2⟩

/-- "the point reached after `t` lies before the surface" for the per-ray geometries, in the local
frame of the surface -/
def Ahead : Geom ℝ → Ray ℝ → ℝ → Prop
  | .plane, r, t => r.N ≠ 0 ∧ t ≤ -r.z / r.N
  | .standard R k, r, t => RootsAhead (conicABC R k r).1 (conicABC R k r).2.1 (conicABC R k r).2.2 r.z r.N t
  | _, _, _ => False

theorem planeDistance_advance (r : Ray ℝ) (t k w n : ℝ) (h0 : 0 ≤ t) (hN : r.N ≠ 0) (h : t ≤ -r.z / r.N) :
    planeDistance (advance r t k w n) = planeDistance r - t ∧ t ≤ planeDistance r := by
  rw [advance_eq]
  unfold planeDistance maskNeg
  num_real
  have e : -(r.z + t * r.N) / r.N = -r.z / r.N - t := by field_simp; ring
  rw [e, if_neg (not_lt.mpr (sub_nonneg.mpr h)), if_neg (not_lt.mpr (le_trans h0 h))]
  exact ⟨rfl, h⟩

theorem stdDistance_advance (R k : ℝ) (r : Ray ℝ) (t k' w n : ℝ) (h0 : 0 ≤ t)
    (h : RootsAhead (conicABC R k r).1 (conicABC R k r).2.1 (conicABC R k r).2.2 r.z r.N t) :
    stdDistance R k (advance r t k' w n) = stdDistance R k r - t ∧ t ≤ stdDistance R k r := by
  unfold stdDistance
  rw [conicABC_advance]
  have hz : (advance r t k' w n).z = r.z + t * r.N := by rw [advance_eq]
  have hN : (advance r t k' w n).N = r.N := by rw [advance_eq]
  simp only [hz, hN]
  exact selectRoot_advance _ _ _ _ _ _ h0 h

theorem dist1_advance (g : Geom ℝ) (r : Ray ℝ) (t k w n : ℝ) (h0 : 0 ≤ t) (h : Ahead g r t) :
    dist1 g (advance r t k w n) = dist1 g r - t ∧ t ≤ dist1 g r := by
  cases g with
  | plane => exact planeDistance_advance r t k w n h0 h.1 h.2
  | standard R k' => exact stdDistance_advance R k' r t k w n h0 h
  | _ => exact absurd h id

theorem simple_of_ahead (g : Geom ℝ) (r : Ray ℝ) (t : ℝ) (h : Ahead g r t) : Simple g := by
  cases g with
  | plane => exact Or.inl rfl
  | standard R k => exact Or.inr ⟨R, k, rfl⟩
  | _ => exact absurd h id

end Cov
