import Mathlib.Analysis.Fourier.ZMod
import Mathlib.Analysis.RCLike.Basic
import Mathlib.Tactic.Ring
import Mathlib.Tactic.Linarith
import Mathlib.Tactic.Positivity
/-!
Finite Fourier analysis used by C11, over ℂ, with sums over `Finset.range N`:
1-D Parseval (from `ZMod.dft_dft`, DESIGN appendix A.6), 2-D Parseval for the separable
transform, the triangle-inequality bounds, index shift.
-/
open ZMod Finset
open scoped ComplexConjugate Real

namespace DftMath

section zmod
variable {N : ℕ} [NeZero N]

lemma conj_stdAddChar (a : ZMod N) : conj ((stdAddChar a : ℂ)) = stdAddChar (-a) := by
  exact (AddChar.map_neg_eq_conj (stdAddChar (N := N)) a).symm

/-- DESIGN A.6 -/
theorem parseval (f : ZMod N → ℂ) :
    ∑ k, (𝓕 f k) * conj (𝓕 f k) = N * ∑ j, f j * conj (f j) := by
  set g : ZMod N → ℂ := fun j => conj (f (-j)) with hg
  have h1 : ∀ k, conj (𝓕 f k) = 𝓕 g k := by
    intro k
    simp only [dft_apply, smul_eq_mul, map_sum, map_mul, conj_stdAddChar, hg]
    rw [← Equiv.sum_comp (Equiv.neg (ZMod N))]
    refine sum_congr rfl fun j _ => ?_
    simp
  simp_rw [h1]
  calc ∑ k, 𝓕 f k * 𝓕 g k
      = ∑ k, ∑ j, (stdAddChar (-(j*k)) * f j) * 𝓕 g k := by
        refine sum_congr rfl fun k _ => ?_
        rw [dft_apply, sum_mul]; simp [smul_eq_mul]
    _ = ∑ j, f j * ∑ k, stdAddChar (-(k*j)) * 𝓕 g k := by
        rw [sum_comm]
        refine sum_congr rfl fun j _ => ?_
        rw [mul_sum]
        refine sum_congr rfl fun k _ => ?_
        rw [mul_comm k j]; ring
    _ = ∑ j, f j * (𝓕 (𝓕 g) j) := by
        refine sum_congr rfl fun j _ => ?_
        rw [dft_apply]; simp [smul_eq_mul]
    _ = ∑ j, f j * ((N:ℂ) * g (-j)) := by
        simp [dft_dft]
    _ = N * ∑ j, f j * conj (f j) := by
        rw [mul_sum]; refine sum_congr rfl fun j _ => ?_
        simp [hg]; ring
end zmod

/-- `exp(-2πi m/N)` -/
noncomputable def E (N : ℕ) (m : ℤ) : ℂ := Complex.exp (2 * π * Complex.I * ((-m : ℤ) : ℂ) / N)

lemma E_zero (N : ℕ) : E N 0 = 1 := by simp [E]

lemma E_add (N : ℕ) (a b : ℤ) : E N (a + b) = E N a * E N b := by
  unfold E
  rw [← Complex.exp_add]
  congr 1
  push_cast
  ring

lemma E_eq_stdAddChar (N : ℕ) [NeZero N] (m : ℤ) : E N m = stdAddChar ((-m : ℤ) : ZMod N) := by
  rw [stdAddChar_coe]; rfl

lemma E_period (N : ℕ) [NeZero N] (m : ℤ) : E N (m + N) = E N m := by
  rw [E_eq_stdAddChar, E_eq_stdAddChar]
  congr 1
  push_cast
  simp

lemma norm_E (N : ℕ) (m : ℤ) : ‖E N m‖ = 1 := by
  unfold E
  have : (2 * (π:ℂ) * Complex.I * ((-m : ℤ) : ℂ) / N) = ((2 * π * (-m : ℤ) / N : ℝ) : ℂ) * Complex.I := by
    push_cast; ring
  rw [this, Complex.norm_exp_ofReal_mul_I]

lemma E_mod (N : ℕ) [NeZero N] (m : ℕ) : E N ((m % N : ℕ) : ℤ) = E N (m : ℤ) := by
  rw [E_eq_stdAddChar, E_eq_stdAddChar]
  congr 1
  push_cast
  simp


/-- `X[k] = Σ_{j<N} x[j] exp(-2πi jk/N)` -/
noncomputable def dftR (N : ℕ) (x : ℕ → ℂ) (k : ℕ) : ℂ := ∑ j ∈ range N, x j * E N ((j * k : ℕ) : ℤ)

lemma sum_zmod_eq_sum_range (N : ℕ) [NeZero N] (f : ℕ → ℂ) :
    ∑ a : ZMod N, f a.val = ∑ j ∈ range N, f j := by
  obtain ⟨n, rfl⟩ : ∃ n, N = n + 1 := ⟨N - 1, by have := NeZero.pos N; omega⟩
  exact Fin.sum_univ_eq_sum_range f (n + 1)

lemma dftR_eq_dft (N : ℕ) [NeZero N] (x : ℕ → ℂ) (k : ℕ) :
    dftR N x k = 𝓕 (fun a : ZMod N => x a.val) (k : ZMod N) := by
  rw [dft_apply, dftR, ← sum_zmod_eq_sum_range N (fun j => x j * E N ((j * k : ℕ) : ℤ))]
  refine sum_congr rfl fun a _ => ?_
  rw [E_eq_stdAddChar, smul_eq_mul, mul_comm]
  congr 2
  push_cast
  rw [ZMod.natCast_zmod_val]

theorem parsevalR (N : ℕ) [NeZero N] (x : ℕ → ℂ) :
    ∑ k ∈ range N, Complex.normSq (dftR N x k) = N * ∑ j ∈ range N, Complex.normSq (x j) := by
  have h := parseval (N := N) (fun a : ZMod N => x a.val)
  simp only [Complex.mul_conj] at h
  have h2 : ∑ k ∈ range N, ((Complex.normSq (dftR N x k) : ℝ) : ℂ)
      = ∑ a : ZMod N, ((Complex.normSq (𝓕 (fun a : ZMod N => x a.val) a) : ℝ) : ℂ) := by
    rw [← sum_zmod_eq_sum_range N (fun k => ((Complex.normSq (dftR N x k) : ℝ) : ℂ))]
    refine sum_congr rfl fun a _ => ?_
    rw [dftR_eq_dft, ZMod.natCast_zmod_val]
  have h3 : ∑ a : ZMod N, ((Complex.normSq (x a.val) : ℝ) : ℂ) = ∑ j ∈ range N, ((Complex.normSq (x j) : ℝ) : ℂ) :=
    sum_zmod_eq_sum_range N (fun j => ((Complex.normSq (x j) : ℝ) : ℂ))
  have : ((∑ k ∈ range N, Complex.normSq (dftR N x k) : ℝ) : ℂ) = ((N * ∑ j ∈ range N, Complex.normSq (x j) : ℝ) : ℂ) := by
    push_cast
    rw [h2, h, h3]
  exact_mod_cast this


/-- separable 2-D transform: along the rows, then along the columns -/
noncomputable def dft2R (N : ℕ) (x : ℕ → ℕ → ℂ) (k1 k2 : ℕ) : ℂ :=
  dftR N (fun r => dftR N (x r) k2) k1

/-- the defining double sum -/
theorem dft2R_eq_sum (N : ℕ) (x : ℕ → ℕ → ℂ) (k1 k2 : ℕ) :
    dft2R N x k1 k2 = ∑ j1 ∈ range N, ∑ j2 ∈ range N,
      x j1 j2 * E N ((j1 * k1 + j2 * k2 : ℕ) : ℤ) := by
  unfold dft2R dftR
  refine sum_congr rfl fun j1 _ => ?_
  rw [sum_mul]
  refine sum_congr rfl fun j2 _ => ?_
  rw [show ((j1 * k1 + j2 * k2 : ℕ) : ℤ) = ((j2 * k2 : ℕ) : ℤ) + ((j1 * k1 : ℕ) : ℤ) by push_cast; ring, E_add]
  ring

theorem parseval2R (N : ℕ) [NeZero N] (x : ℕ → ℕ → ℂ) :
    ∑ k1 ∈ range N, ∑ k2 ∈ range N, Complex.normSq (dft2R N x k1 k2)
      = (N : ℝ) ^ 2 * ∑ j1 ∈ range N, ∑ j2 ∈ range N, Complex.normSq (x j1 j2) := by
  rw [sum_comm]
  have h1 : ∀ k2, ∑ k1 ∈ range N, Complex.normSq (dft2R N x k1 k2)
      = N * ∑ r ∈ range N, Complex.normSq (dftR N (x r) k2) := fun k2 => parsevalR N _
  simp_rw [h1]
  rw [← mul_sum, sum_comm]
  have h2 : ∀ r, ∑ k2 ∈ range N, Complex.normSq (dftR N (x r) k2)
      = N * ∑ c ∈ range N, Complex.normSq (x r c) := fun r => parsevalR N _
  simp_rw [h2]
  rw [← mul_sum]
  ring

lemma dftR_zero (N : ℕ) (x : ℕ → ℂ) : dftR N x 0 = ∑ j ∈ range N, x j := by
  unfold dftR
  refine sum_congr rfl fun j _ => ?_
  simp [E_zero]

lemma dft2R_zero (N : ℕ) (x : ℕ → ℕ → ℂ) : dft2R N x 0 0 = ∑ j1 ∈ range N, ∑ j2 ∈ range N, x j1 j2 := by
  unfold dft2R
  rw [dftR_zero]
  refine sum_congr rfl fun j _ => dftR_zero N _

lemma norm_dftR_le (N : ℕ) (x : ℕ → ℂ) (k : ℕ) : ‖dftR N x k‖ ≤ ∑ j ∈ range N, ‖x j‖ := by
  unfold dftR
  refine (norm_sum_le _ _).trans (le_of_eq ?_)
  refine sum_congr rfl fun j _ => ?_
  rw [norm_mul, norm_E, mul_one]

/-- triangle inequality: no output of the transform exceeds the sum of the moduli of the inputs -/
lemma norm_dft2R_le (N : ℕ) (x : ℕ → ℕ → ℂ) (k1 k2 : ℕ) :
    ‖dft2R N x k1 k2‖ ≤ ∑ j1 ∈ range N, ∑ j2 ∈ range N, ‖x j1 j2‖ := by
  unfold dft2R
  refine (norm_dftR_le N _ k1).trans ?_
  exact sum_le_sum fun r _ => norm_dftR_le N _ k2

/-- `fftshift` only permutes: a sum over all shifted indices is the sum over all indices -/
lemma sum_shift {M : Type*} [AddCommMonoid M] (N s : ℕ) (f : ℕ → M) :
    ∑ i ∈ range N, f ((i + s) % N) = ∑ i ∈ range N, f i := by
  rcases Nat.eq_zero_or_pos N with rfl | hN
  · simp
  obtain ⟨n, rfl⟩ : ∃ n, N = n + 1 := ⟨N - 1, by omega⟩
  rw [← Fin.sum_univ_eq_sum_range (fun i => f ((i + s) % (n + 1))) (n + 1),
      ← Fin.sum_univ_eq_sum_range f (n + 1)]
  have := Equiv.sum_comp (Equiv.addRight (Fin.ofNat (n + 1) s)) (fun i : Fin (n + 1) => f i.val)
  rw [← this]
  refine sum_congr rfl fun i _ => ?_
  simp [Fin.val_add, Fin.ofNat]

/-- zero padding does not change a sum -/
lemma sum_pad {M : Type*} [AddCommMonoid M] (n pad gp : ℕ) (h : pad + n ≤ gp) (f : ℕ → M) :
    ∑ r ∈ range gp, (if pad ≤ r ∧ r < pad + n then f (r - pad) else 0) = ∑ i ∈ range n, f i := by
  rw [range_eq_Ico, ← sum_Ico_consecutive _ (Nat.zero_le pad) (by omega : pad ≤ gp),
      ← sum_Ico_consecutive _ (by omega : pad ≤ pad + n) h]
  have h1 : ∑ r ∈ Ico 0 pad, (if pad ≤ r ∧ r < pad + n then f (r - pad) else 0) = 0 :=
    sum_eq_zero fun r hr => by
      rw [mem_Ico] at hr; rw [if_neg]; omega
  have h3 : ∑ r ∈ Ico (pad + n) gp, (if pad ≤ r ∧ r < pad + n then f (r - pad) else 0) = 0 :=
    sum_eq_zero fun r hr => by
      rw [mem_Ico] at hr; rw [if_neg]; omega
  rw [h1, h3, zero_add, add_zero, sum_Ico_eq_sum_range]
  simp only [Nat.add_sub_cancel_left]
  refine sum_congr rfl fun i hi => ?_
  rw [mem_range] at hi
  rw [if_pos]
  omega


lemma dftR_congr (N : ℕ) (x y : ℕ → ℂ) (h : ∀ j, j < N → x j = y j) (k : ℕ) : dftR N x k = dftR N y k := by
  unfold dftR
  exact sum_congr rfl fun j hj => by rw [h j (mem_range.mp hj)]

lemma dft2R_congr (N : ℕ) (x y : ℕ → ℕ → ℂ) (h : ∀ r c, r < N → c < N → x r c = y r c) (k1 k2 : ℕ) :
    dft2R N x k1 k2 = dft2R N y k1 k2 := by
  unfold dft2R
  exact dftR_congr N _ _ (fun r hr => dftR_congr N _ _ (fun c hc => h r c hr hc) k2) k1

section zmod
variable {N : ℕ} [NeZero N]
/-- polarised form of A.6 -/
theorem parseval_inner (f h : ZMod N → ℂ) :
    ∑ k, (𝓕 f k) * conj (𝓕 h k) = N * ∑ j, f j * conj (h j) := by
  set g : ZMod N → ℂ := fun j => conj (h (-j)) with hg
  have h1 : ∀ k, conj (𝓕 h k) = 𝓕 g k := by
    intro k
    simp only [dft_apply, smul_eq_mul, map_sum, map_mul, conj_stdAddChar, hg]
    rw [← Equiv.sum_comp (Equiv.neg (ZMod N))]
    refine sum_congr rfl fun j _ => ?_
    simp
  simp_rw [h1]
  calc ∑ k, 𝓕 f k * 𝓕 g k
      = ∑ k, ∑ j, (stdAddChar (-(j*k)) * f j) * 𝓕 g k := by
        refine sum_congr rfl fun k _ => ?_
        rw [dft_apply, sum_mul]; simp [smul_eq_mul]
    _ = ∑ j, f j * ∑ k, stdAddChar (-(k*j)) * 𝓕 g k := by
        rw [sum_comm]
        refine sum_congr rfl fun j _ => ?_
        rw [mul_sum]
        refine sum_congr rfl fun k _ => ?_
        rw [mul_comm k j]; ring
    _ = ∑ j, f j * (𝓕 (𝓕 g) j) := by
        refine sum_congr rfl fun j _ => ?_
        rw [dft_apply]; simp [smul_eq_mul]
    _ = ∑ j, f j * ((N:ℂ) * g (-j)) := by
        simp [dft_dft]
    _ = N * ∑ j, f j * conj (h j) := by
        rw [mul_sum]; refine sum_congr rfl fun j _ => ?_
        simp [hg]; ring
end zmod

theorem parsevalR_inner (N : ℕ) [NeZero N] (x y : ℕ → ℂ) :
    ∑ k ∈ range N, dftR N x k * conj (dftR N y k) = N * ∑ j ∈ range N, x j * conj (y j) := by
  have h := parseval_inner (N := N) (fun a : ZMod N => x a.val) (fun a : ZMod N => y a.val)
  rw [← sum_zmod_eq_sum_range N (fun k => dftR N x k * conj (dftR N y k)),
      ← sum_zmod_eq_sum_range N (fun j => x j * conj (y j)), ← h]
  refine sum_congr rfl fun a _ => ?_
  rw [dftR_eq_dft, dftR_eq_dft, ZMod.natCast_zmod_val]

theorem parseval2R_inner (N : ℕ) [NeZero N] (x y : ℕ → ℕ → ℂ) :
    ∑ k1 ∈ range N, ∑ k2 ∈ range N, dft2R N x k1 k2 * conj (dft2R N y k1 k2)
      = (N : ℂ) ^ 2 * ∑ j1 ∈ range N, ∑ j2 ∈ range N, x j1 j2 * conj (y j1 j2) := by
  rw [sum_comm]
  have h1 : ∀ k2, ∑ k1 ∈ range N, dft2R N x k1 k2 * conj (dft2R N y k1 k2)
      = N * ∑ r ∈ range N, dftR N (x r) k2 * conj (dftR N (y r) k2) :=
    fun k2 => parsevalR_inner N (fun r => dftR N (x r) k2) (fun r => dftR N (y r) k2)
  simp_rw [h1]
  rw [← mul_sum, sum_comm]
  have h2 : ∀ r, ∑ k2 ∈ range N, dftR N (x r) k2 * conj (dftR N (y r) k2)
      = N * ∑ c ∈ range N, x r c * conj (y r c) := fun r => parsevalR_inner N (x r) (y r)
  simp_rw [h2]
  rw [← mul_sum]
  ring

lemma conj_E (N : ℕ) (m : ℤ) : conj (E N m) = E N (-m) := by
  rw [← Complex.inv_eq_conj (norm_E N m)]
  apply inv_eq_of_mul_eq_one_right
  rw [← E_add, add_neg_cancel, E_zero]

lemma E_congr_mod (N : ℕ) [NeZero N] (a b : ℤ) (h : (a : ZMod N) = (b : ZMod N)) : E N a = E N b := by
  rw [E_eq_stdAddChar, E_eq_stdAddChar]
  push_cast
  rw [h]

/-- shift theorem: a circular shift of the input multiplies the transform by a unit-modulus factor -/
theorem dftR_shift (N : ℕ) [NeZero N] (x : ℕ → ℂ) (s k : ℕ) :
    dftR N (fun j => x ((j + s) % N)) k = dftR N x k * E N (-((s * k : ℕ) : ℤ)) := by
  unfold dftR
  rw [sum_mul, ← sum_shift N s (fun i => x i * E N ((i * k : ℕ) : ℤ) * E N (-((s * k : ℕ) : ℤ)))]
  refine sum_congr rfl fun j _ => ?_
  rw [mul_assoc, ← E_add]
  congr 1
  apply E_congr_mod
  push_cast
  ring

theorem dft2R_shift (N : ℕ) [NeZero N] (x : ℕ → ℕ → ℂ) (s1 s2 k1 k2 : ℕ) :
    dft2R N (fun r c => x ((r + s1) % N) ((c + s2) % N)) k1 k2
      = dft2R N x k1 k2 * (E N (-((s1 * k1 : ℕ) : ℤ)) * E N (-((s2 * k2 : ℕ) : ℤ))) := by
  unfold dft2R
  have h1 : ∀ r, dftR N (fun c => x ((r + s1) % N) ((c + s2) % N)) k2
      = dftR N (x ((r + s1) % N)) k2 * E N (-((s2 * k2 : ℕ) : ℤ)) :=
    fun r => dftR_shift N (x ((r + s1) % N)) s2 k2
  simp_rw [h1]
  have h2 := dftR_shift N (fun r => dftR N (x r) k2 * E N (-((s2 * k2 : ℕ) : ℤ))) s1 k1
  rw [h2]
  unfold dftR
  rw [sum_mul, sum_mul]
  refine sum_congr rfl fun j _ => ?_
  ring

/-- a circular shift does not change the modulus of the transform -/
lemma norm_dft2R_shift (N : ℕ) [NeZero N] (x : ℕ → ℕ → ℂ) (s1 s2 k1 k2 : ℕ) :
    ‖dft2R N (fun r c => x ((r + s1) % N) ((c + s2) % N)) k1 k2‖ = ‖dft2R N x k1 k2‖ := by
  rw [dft2R_shift, norm_mul, norm_mul, norm_E, norm_E, mul_one, mul_one]

/-- discrete Wiener–Khinchin: the transform of `|DFT₂ x|²` is `N²` times the circular
autocorrelation of `x` -/
theorem wiener_khinchin2 (N : ℕ) [NeZero N] (x : ℕ → ℕ → ℂ) (s1 s2 : ℕ) :
    dft2R N (fun k1 k2 => ((Complex.normSq (dft2R N x k1 k2) : ℝ) : ℂ)) s1 s2
      = (N : ℂ) ^ 2 * ∑ j1 ∈ range N, ∑ j2 ∈ range N,
          x j1 j2 * conj (x ((j1 + s1) % N) ((j2 + s2) % N)) := by
  rw [← parseval2R_inner N x (fun r c => x ((r + s1) % N) ((c + s2) % N)), dft2R_eq_sum]
  refine sum_congr rfl fun k1 _ => sum_congr rfl fun k2 _ => ?_
  rw [dft2R_shift, map_mul, map_mul, conj_E, conj_E, neg_neg, neg_neg, ← E_add, ← Complex.mul_conj]
  rw [show ((k1 * s1 + k2 * s2 : ℕ) : ℤ) = ((s1 * k1 : ℕ) : ℤ) + ((s2 * k2 : ℕ) : ℤ) by push_cast; ring]
  ring

/-- the autocorrelation of `x` is bounded in modulus by the autocorrelation of `|x|`: with
Wiener–Khinchin, no OTF exceeds the OTF of the zero-phase pupil of the same amplitude -/
theorem norm_dft2R_normSq_le (N : ℕ) [NeZero N] (x x0 : ℕ → ℕ → ℂ)
    (h0 : ∀ r c, x0 r c = ((‖x r c‖ : ℝ) : ℂ)) (s1 s2 : ℕ) :
    ‖dft2R N (fun k1 k2 => ((Complex.normSq (dft2R N x k1 k2) : ℝ) : ℂ)) s1 s2‖
      ≤ ‖dft2R N (fun k1 k2 => ((Complex.normSq (dft2R N x0 k1 k2) : ℝ) : ℂ)) s1 s2‖ := by
  rw [wiener_khinchin2, wiener_khinchin2, norm_mul, norm_mul]
  refine mul_le_mul_of_nonneg_left ?_ (norm_nonneg _)
  have hr : (∑ j1 ∈ range N, ∑ j2 ∈ range N, x0 j1 j2 * conj (x0 ((j1 + s1) % N) ((j2 + s2) % N)))
      = ((∑ j1 ∈ range N, ∑ j2 ∈ range N, ‖x j1 j2‖ * ‖x ((j1 + s1) % N) ((j2 + s2) % N)‖ : ℝ) : ℂ) := by
    push_cast
    refine sum_congr rfl fun j1 _ => sum_congr rfl fun j2 _ => ?_
    rw [h0, h0, Complex.conj_ofReal]
  rw [hr, Complex.norm_real, Real.norm_eq_abs, abs_of_nonneg
    (sum_nonneg fun _ _ => sum_nonneg fun _ _ => mul_nonneg (norm_nonneg _) (norm_nonneg _))]
  refine (norm_sum_le _ _).trans (sum_le_sum fun j1 _ => (norm_sum_le _ _).trans (le_of_eq ?_))
  refine sum_congr rfl fun j2 _ => ?_
  rw [norm_mul, RCLike.norm_conj]


lemma dft2R_const_mul (N : ℕ) (a : ℂ) (x : ℕ → ℕ → ℂ) (k1 k2 : ℕ) :
    dft2R N (fun r c => a * x r c) k1 k2 = a * dft2R N x k1 k2 := by
  rw [dft2R_eq_sum, dft2R_eq_sum, mul_sum]
  refine sum_congr rfl fun j1 _ => ?_
  rw [mul_sum]
  refine sum_congr rfl fun j2 _ => ?_
  ring

end DftMath
