import OptiModel.Model.Effects
import OptiModel.Proofs.NumReal
import Mathlib.Tactic.Ring
import Mathlib.Tactic.Linarith
/-!
  Helper lemmas for `Props/C13.lean` (side-effect model `Model/Effects.lean`): every paraxial query
  written against the records returns the pure function of `Model/Parax.lean`; one call is
  independent of the records it starts from; the specification variant never writes the heap; the
  code variant does not when the vignetting factor is zero; closed-form surfaces trace ray by ray;
  a Newton–Raphson sweep treats every ray separately.
-/
namespace C13
open Model hiding Op step
open Model.Fx

variable {α : Type} [Num α]

/-! ## A. paraxial queries: the value is a function of the prescription only -/

theorem ptraceB_single (r : PRay α) (ss : List (PSurf α)) :
    ptraceB [r] ss = (ptrace r ss).map fun p => [p] := by
  induction ss generalizing r with
  | nil => rfl
  | cons s ss ih => simp only [ptraceB, ptrace, List.map_cons, List.map_nil, ih]

theorem yRow_reset_take (l : Recs α) (n : Nat) :
    List.filterMap Rec.yRow ((resetRecs l).take n) = [] := by
  induction l generalizing n with
  | nil => simp [resetRecs]
  | cons a l ih =>
    cases n with
    | zero => simp
    | succ n =>
      simp only [resetRecs, List.map_cons, List.take_succ_cons] at ih ⊢
      rw [List.filterMap_cons]
      simp only [Rec.yRow]
      exact ih n

theorem uRow_reset_take (l : Recs α) (n : Nat) :
    List.filterMap Rec.uRow ((resetRecs l).take n) = [] := by
  induction l generalizing n with
  | nil => simp [resetRecs]
  | cons a l ih =>
    cases n with
    | zero => simp
    | succ n =>
      simp only [resetRecs, List.map_cons, List.take_succ_cons] at ih ⊢
      rw [List.filterMap_cons]
      simp only [Rec.uRow]
      exact ih n

theorem yRow_single (ps : List (PRay α)) :
    rowsHead (List.filterMap Rec.yRow ((ps.map fun p => [p]).map Rec.parax)) = ys ps := by
  induction ps with
  | nil => rfl
  | cons p ps ih =>
    simp only [List.map_cons, List.filterMap_cons, Rec.yRow, List.isEmpty_cons, Bool.false_eq_true,
      if_false, List.map_nil, rowsHead, ys, List.headD_cons] at ih ⊢
    rw [ih]

theorem uRow_single (ps : List (PRay α)) :
    rowsHead (List.filterMap Rec.uRow ((ps.map fun p => [p]).map Rec.parax)) = us ps := by
  induction ps with
  | nil => rfl
  | cons p ps ih =>
    simp only [List.map_cons, List.filterMap_cons, Rec.uRow, List.isEmpty_cons, Bool.false_eq_true,
      if_false, List.map_nil, rowsHead, us, List.headD_cons] at ih ⊢
    rw [ih]

/-- what `_trace_generic` returns is the trace of the launched ray through the (possibly
inverted) surfaces – whatever the records held before: `reset` wiped them. -/
theorem tgM_val (S : PSys α) (y u z : α) (rev : Bool) (skip : Nat) (recs : Recs α) :
    (tgM S y u z rev skip recs).1 =
      (ys (traceGeneric S.surfs y u z rev skip), us (traceGeneric S.surfs y u z rev skip)) := by
  cases rev <;>
    simp only [tgM, traceGeneric, groupWrite, groupY, groupU, List.filterMap_append, yRow_reset_take,
      uRow_reset_take, List.nil_append, ptraceB_single, yRow_single, uRow_single, if_true,
      Bool.false_eq_true, if_false]

/-- a reverse trace runs on the deep copy: the lens' own records are untouched -/
theorem tgM_recs_rev (S : PSys α) (y u z : α) (skip : Nat) (recs : Recs α) :
    (tgM S y u z true skip recs).2 = recs := by
  simp only [tgM, if_true]

theorem f2M_val (S : PSys α) (recs : Recs α) : (f2M S recs).1 = f2 S := by
  simp only [f2M, tgM_val, f2, f2raw]
theorem F2M_val (S : PSys α) (recs : Recs α) : (F2M S recs).1 = F2 S := by
  simp only [F2M, tgM_val, F2]
theorem f1M_val (S : PSys α) (recs : Recs α) : (f1M S recs).1 = f1 S := by
  simp only [f1M, tgM_val, f1]
theorem F1M_val (S : PSys α) (recs : Recs α) : (F1M S recs).1 = F1 S := by
  simp only [F1M, tgM_val, F1]
theorem P1M_val (S : PSys α) (recs : Recs α) : (P1M S recs).1 = P1 S := by
  simp only [P1M, F1M_val, f1M_val, P1]
theorem P2M_val (S : PSys α) (recs : Recs α) : (P2M S recs).1 = P2 S := by
  simp only [P2M, F2M_val, f2M_val, P2]
theorem N1M_val (S : PSys α) (recs : Recs α) : (N1M S recs).1 = N1 S := by
  simp only [N1M, P1M_val, f1M_val, f2M_val, N1]
theorem N2M_val (S : PSys α) (recs : Recs α) : (N2M S recs).1 = N2 S := by
  simp only [N2M, P2M_val, f1M_val, f2M_val, N2]

theorem EPLM_val (S : PSys α) (recs : Recs α) : (EPLM S recs).1 = EPL S := by
  rcases h : stopIndex S.surfs with _ | _ | n <;> simp only [EPLM, EPL, h, tgM_val]

theorem EPDM_val (S : PSys α) (recs : Recs α) : (EPDM S recs).1 = EPD S := by
  cases h : S.apType <;> simp only [EPDM, EPD, h, f2M_val, EPLM_val]

theorem XPLM_val (S : PSys α) (recs : Recs α) : (XPLM S recs).1 = XPL S := by
  unfold XPLM XPL
  simp only []
  split <;> simp only [tgM_val]

theorem marginalRayM_val (S : PSys α) (recs : Recs α) :
    (marginalRayM S recs).1 = (ys (marginalRay S), us (marginalRay S)) := by
  unfold marginalRayM marginalRay
  simp only []
  split <;> simp only [tgM_val, EPDM_val, EPLM_val]

theorem XPDM_val (S : PSys α) (recs : Recs α) : (XPDM S recs).1 = XPD S := by
  simp only [XPDM, marginalRayM_val, XPLM_val, XPD]

theorem FNOM_val (S : PSys α) (recs : Recs α) : (FNOM S recs).1 = FNO S := by
  cases h : S.apType <;> simp only [FNOM, FNO, h, f2M_val, EPDM_val]

theorem magnificationM_val (S : PSys α) (recs : Recs α) : (magnificationM S recs).1 = magnification S := by
  simp only [magnificationM, marginalRayM_val, magnification]

theorem chiefRayM_val (S : PSys α) (recs : Recs α) :
    (chiefRayM S recs).1 = (ys (chiefRay S), us (chiefRay S)) := by
  cases h : S.fieldType <;> simp only [chiefRayM, chiefRay, h, tgM_val]

theorem invariantM_val (S : PSys α) (recs : Recs α) : (invariantM S recs).1 = invariant S := by
  simp only [invariantM, marginalRayM_val, chiefRayM_val, invariant]

theorem distance_closed (g : Geom α) (h : closedForm g = true) (rays : List (Ray α)) :
    g.distance rays = rays.map (distance1 g) := by
  cases g <;> first | rfl | (simp [closedForm] at h)

/-- on a closed-form surface the batch trace is the single-ray trace applied to every ray -/
theorem traceSurf_eq_map (s : RSurf α) (w : α) (rays : List (Ray α)) (h : closedForm s.geom = true) :
    traceSurf s w rays = rays.map (traceRay s w) := by
  unfold traceSurf traceRay
  cases hk : s.kind
  · simp only [List.map_id']
  · simp only [distance_closed s.geom h, List.map_map, List.zip_map', Function.comp_def]
  · simp only [distance_closed s.geom h, List.map_map, List.zip_map', Function.comp_def]

theorem traceSurf_append (s : RSurf α) (w : α) (a b : List (Ray α)) (h : closedForm s.geom = true) :
    traceSurf s w (a ++ b) = traceSurf s w a ++ traceSurf s w b := by
  simp only [traceSurf_eq_map s w _ h, List.map_append]

theorem traceSurf_length (s : RSurf α) (w : α) (a : List (Ray α)) (h : closedForm s.geom = true) :
    (traceSurf s w a).length = a.length := by
  simp only [traceSurf_eq_map s w _ h, List.length_map]

/-- one sweep treats every ray separately -/
theorem nrSweep_pts (g : Geom α) (rays : List (Ray α)) (pts : List (α × α × α)) :
    (nrSweep g rays pts).1 = (pts.zip rays).map fun pr => (nrStep g pr.2 pr.1).1 := by
  simp only [nrSweep, nrStep, List.map_map, Function.comp_def]

theorem nrSweep_pts_append (g : Geom α) (a b : List (Ray α)) (pa pb : List (α × α × α))
    (hl : pa.length = a.length) :
    (nrSweep g (a ++ b) (pa ++ pb)).1 = (nrSweep g a pa).1 ++ (nrSweep g b pb).1 := by
  simp only [nrSweep_pts, List.zip_append hl, List.map_append]

theorem nrSweep_pts_length (g : Geom α) (a : List (Ray α)) (pa : List (α × α × α))
    (hl : pa.length = a.length) : (nrSweep g a pa).1.length = a.length := by
  simp only [nrSweep_pts, List.length_map, List.length_zip, hl, Nat.min_self]

/-- `k` sweeps of a batch are `k` sweeps of each block -/
theorem nrIter_append (g : Geom α) (a b : List (Ray α)) (k : Nat) (pa pb : List (α × α × α))
    (hl : pa.length = a.length) :
    nrIter g (a ++ b) k (pa ++ pb) = nrIter g a k pa ++ nrIter g b k pb := by
  induction k generalizing pa pb with
  | zero => rfl
  | succ k ih =>
    simp only [nrIter, nrSweep_pts_append g a b pa pb hl]
    exact ih _ _ (nrSweep_pts_length g a pa hl)

theorem nrIter_length (g : Geom α) (a : List (Ray α)) (k : Nat) (pa : List (α × α × α))
    (hl : pa.length = a.length) : (nrIter g a k pa).length = a.length := by
  induction k generalizing pa with
  | zero => exact hl
  | succ k ih => exact ih _ (nrSweep_pts_length g a pa hl)

/-- every `Paraxial` query returns the pure function of the prescription of `Model/Parax.lean`,
for every content of the records -/
theorem queryM_val (S : PSys α) (q : Query) (recs : Recs α) : (queryM S q recs).1 = queryPure S q := by
  cases q <;>
    simp only [queryM, queryPure, f1M_val, f2M_val, F1M_val, F2M_val, P1M_val, P2M_val, N1M_val, N2M_val,
      EPLM_val, EPDM_val, XPLM_val, XPDM_val, FNOM_val, magnificationM_val, invariantM_val,
      marginalRayM_val, chiefRayM_val]

theorem groupWrite_zero (recs new : Recs α) : groupWrite recs 0 new = new := by
  simp only [groupWrite, List.take_zero, List.nil_append]

/-- one call: value, heap afterwards and – for tracing calls – records afterwards do not depend on
the records before the call -/
theorem stepCall_indep (env : Env α) (code : Bool) (L : Lens α) (c : Call α) (r₁ r₂ : Recs α) (h : Heap α) :
    (stepCall env code L c (r₁, h)).1 = (stepCall env code L c (r₂, h)).1 ∧
    (stepCall env code L c (r₁, h)).2.2 = (stepCall env code L c (r₂, h)).2.2 ∧
    (c.exposes = true → (stepCall env code L c (r₁, h)).1.err = false →
      (stepCall env code L c (r₁, h)).2.1 = (stepCall env code L c (r₂, h)).2.1) := by
  cases c with
  | trace Hx Hy w pts =>
    simp only [stepCall, opticTraceM, genM, groupTraceR, EPLM_val, EPDM_val, groupWrite_zero,
      and_self, implies_true]
  | traceGeneric Hx Hy Px Py w =>
    simp only [stepCall, traceGenericM, genM, groupTraceR, EPLM_val, EPDM_val, groupWrite_zero,
      and_self, implies_true]
  | query q =>
    simp only [stepCall, queryM_val, Call.exposes, Bool.false_eq_true, false_implies, and_self]
  | paraxTrace Hy Py =>
    simp only [stepCall, paraxTraceM, EPLM_val, EPDM_val, groupWrite_zero]
    split <;> simp

theorem runCalls_indep (env : Env α) (code : Bool) (L : Lens α) (cs : List (Call α)) (r₁ r₂ : Recs α)
    (h : Heap α) :
    (runCalls env code L cs (r₁, h)).1 = (runCalls env code L cs (r₂, h)).1 ∧
    (runCalls env code L cs (r₁, h)).2.2 = (runCalls env code L cs (r₂, h)).2.2 := by
  induction cs generalizing r₁ r₂ h with
  | nil => exact ⟨rfl, rfl⟩
  | cons c cs ih =>
    obtain ⟨hv, hh, hr⟩ := stepCall_indep env code L c r₁ r₂ h
    have e1 : stepCall env code L c (r₁, h) =
        ((stepCall env code L c (r₁, h)).1, ((stepCall env code L c (r₁, h)).2.1, (stepCall env code L c (r₁, h)).2.2)) := rfl
    have e2 : stepCall env code L c (r₂, h) =
        ((stepCall env code L c (r₂, h)).1, ((stepCall env code L c (r₂, h)).2.1, (stepCall env code L c (r₁, h)).2.2)) := by
      rw [hh]
    have hs : snapOf c (stepCall env code L c (r₁, h)) = snapOf c (stepCall env code L c (r₂, h)) := by
      simp only [snapOf, ← hv]
      cases hc : c.exposes
      · simp only [Bool.false_and, Bool.false_eq_true, if_false]
      · cases he : (stepCall env code L c (r₁, h)).1.err
        · simp only [Bool.not_false, Bool.and_self, if_true, hr hc he]
        · simp only [Bool.not_true, Bool.and_false, Bool.false_eq_true, if_false]
    have ih' := ih (stepCall env code L c (r₁, h)).2.1 (stepCall env code L c (r₂, h)).2.1
      (stepCall env code L c (r₁, h)).2.2
    simp only [runCalls, hs]
    rw [e2] at *
    rw [e1]
    exact ⟨by rw [ih'.1], ih'.2⟩

theorem scaleArg_spec_heap (h : Heap α) (vs : List α) (a : Arg α) : (scaleArg false h vs a).1 = h := by
  cases a <;> simp [scaleArg]

theorem stepCall_spec_heap (env : Env α) (L : Lens α) (c : Call α) (st : Recs α × Heap α) :
    (stepCall env false L c st).2.2 = st.2 := by
  cases c <;> simp only [stepCall, traceGenericM, scaleArg_spec_heap]

theorem runCalls_spec_heap (env : Env α) (L : Lens α) (cs : List (Call α)) (st : Recs α × Heap α) :
    (runCalls env false L cs st).2.2 = st.2 := by
  induction cs generalizing st with
  | nil => rfl
  | cons c cs ih => simp only [runCalls, ih, stepCall_spec_heap]

theorem set_getD_self {β : Type} (h : List (List β)) (a : Nat) : h.set a (h.getD a []) = h := by
  induction h generalizing a with
  | nil => rfl
  | cons x h ih =>
    cases a with
    | zero => rfl
    | succ a => simp only [List.set_cons_succ, List.getD_cons_succ, ih]

theorem mulB_zero (xs : List ℝ) : mulB xs [0] = xs := by
  simp only [mulB]
  num_real
  simp

theorem scaleArg_code_zero_heap (h : Heap ℝ) (a : Arg ℝ) : (scaleArg true h [0] a).1 = h := by
  cases a with
  | arr addr => simp only [scaleArg, if_true, mulB_zero, set_getD_self]
  | scalar v => rfl
  | fresh xs => rfl

/-- zero vignetting at the requested field point (scalar `Hx, Hy`) -/
def ZeroVig (env : Env ℝ) : Prop := ∀ fs hx hy, env.vig fs hx hy = ([0], [0])

theorem stepCall_code_zero_heap (env : Env ℝ) (hz : ZeroVig env) (L : Lens ℝ) (c : Call ℝ)
    (st : Recs ℝ × Heap ℝ) : (stepCall env true L c st).2.2 = st.2 := by
  cases c <;> simp only [stepCall, traceGenericM, hz _ _ _, scaleArg_code_zero_heap]

theorem runCalls_code_zero_heap (env : Env ℝ) (hz : ZeroVig env) (L : Lens ℝ) (cs : List (Call ℝ))
    (st : Recs ℝ × Heap ℝ) : (runCalls env true L cs st).2.2 = st.2 := by
  induction cs generalizing st with
  | nil => rfl
  | cons c cs ih => simp only [runCalls, ih, stepCall_code_zero_heap env hz]

/-! ### `np.max` over ℝ and the batch-wide stopping test -/

theorem npMax_fold_lt (l : List ℝ) (a t : ℝ) :
    (l.foldl (fun acc v => if isNaN acc then acc else if isNaN v then v
        else if Num.lt acc v then v else acc) a) < t ↔ a < t ∧ ∀ x ∈ l, x < t := by
  induction l generalizing a with
  | nil => simp
  | cons v l ih =>
    rw [List.foldl_cons, ih]
    simp only [isNaN, NumReal.isNaN_false, Bool.false_eq_true, if_false, List.mem_cons, forall_eq_or_imp]
    by_cases h : Num.lt a v = true
    · simp only [h, if_true]
      rw [NumReal.lt_eq] at h
      constructor
      · rintro ⟨hv, hr⟩; exact ⟨lt_trans h hv, hv, hr⟩
      · rintro ⟨_, hv, hr⟩; exact ⟨hv, hr⟩
    · simp only [h, if_false]
      rw [NumReal.lt_eq, not_lt] at h
      constructor
      · rintro ⟨ha, hr⟩; exact ⟨ha, lt_of_le_of_lt h ha, hr⟩
      · rintro ⟨ha, _, hr⟩; exact ⟨ha, hr⟩

theorem npMax_lt (l : List ℝ) (t : ℝ) (hne : l ≠ []) : npMax l < t ↔ ∀ x ∈ l, x < t := by
  cases l with
  | nil => exact absurd rfl hne
  | cons a l => simp only [npMax, npMax_fold_lt, List.mem_cons, forall_eq_or_imp]

/-- the `|dz|` of every ray in one sweep -/
def dzs (g : Geom α) (rays : List (Ray α)) (pts : List (α × α × α)) : List α :=
  (pts.zip rays).map fun pr => (nrStep g pr.2 pr.1).2

theorem nrSweep_max (g : Geom α) (rays : List (Ray α)) (pts : List (α × α × α)) :
    (nrSweep g rays pts).2 = npMax (dzs g rays pts) := by
  simp only [nrSweep, nrStep, dzs, List.map_map, Function.comp_def]

theorem dzs_append (g : Geom α) (a b : List (Ray α)) (pa pb : List (α × α × α)) (hl : pa.length = a.length) :
    dzs g (a ++ b) (pa ++ pb) = dzs g a pa ++ dzs g b pb := by
  simp only [dzs, List.zip_append hl, List.map_append]

/-- if the whole batch meets the stopping test, so does every non-empty part of it -/
theorem sweep_test_mono (g : Geom ℝ) (a b : List (Ray ℝ)) (pa pb : List (ℝ × ℝ × ℝ)) (tol : ℝ)
    (hl : pa.length = a.length) (hne : a ≠ [])
    (h : Num.lt (nrSweep g (a ++ b) (pa ++ pb)).2 tol = true) : Num.lt (nrSweep g a pa).2 tol = true := by
  rw [NumReal.lt_eq, nrSweep_max] at h ⊢
  have hA : dzs g a pa ≠ [] := by
    cases a with
    | nil => exact absurd rfl hne
    | cons r a =>
      cases pa with
      | nil => simp at hl
      | cons p pa => simp [dzs]
  have hAB : dzs g (a ++ b) (pa ++ pb) ≠ [] := by
    rw [dzs_append g a b pa pb hl]
    exact fun e => hA (List.append_eq_nil_iff.mp e).1
  rw [npMax_lt _ _ hAB, dzs_append g a b pa pb hl] at h
  rw [npMax_lt _ _ hA]
  exact fun x hx => h x (List.mem_append_left _ hx)

end C13
