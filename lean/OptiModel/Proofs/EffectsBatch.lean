import OptiModel.Proofs.Effects
/-!
  Helper definitions and lemmas for the round-7 additions of `Props/C13.lean`:
  per-ray form of the surface loop (`rayThrough`), arbitrary regrouping of a batch (`gather`),
  the two branches of `selectRoot` named separately, the edit subsequence of a history, and the
  number of sweeps of the shared Newton–Raphson loop.
-/
namespace C13
open Model hiding Op step
open Model.Fx
open scoped Num

variable {α : Type} [Num α]

/-! ### (a) the two branches of `selectRoot` -/

/-- the value `selectRoot` takes on a ray with `a ≠ 0` (both roots, negative ones masked with `inf`,
the one whose intersection is nearer to the vertex plane) -/
def selectRootQuad (a b c : α) (z N : α) : α :=
  let d := b * b - Num.ofRat 4 1 * a * c
  let t1 := (-b + Num.sqrt d) / (2 * a)
  let t2 := (-b - Num.sqrt d) / (2 * a)
  let t1 := maskNeg t1 Num.inf
  let t2 := maskNeg t2 Num.inf
  let z1 := z + t1 * N
  let z2 := z + t2 * N
  if Num.le (Num.abs z1) (Num.abs z2) then t1 else t2

theorem selectRoot_eq (a b c z N : α) :
    selectRoot a b c z N = if Num.isZero a then -c / b else selectRootQuad a b c z N := rfl

theorem stdDistance_eq (R k : α) (r : Ray α) :
    stdDistance R k r = selectRoot (conicABC R k r).1 (conicABC R k r).2.1 (conicABC R k r).2.2 r.z r.N := rfl

/-! ### (b) per-ray form of the surface loop, regrouping -/

/-- one ray through the surfaces `ss` (closed-form geometries), alone -/
def rayThrough (w : α) (ss : List (RSurf α)) (r : Ray α) : Ray α :=
  ss.foldl (fun r s => traceRay s w r) r

/-- an arbitrary regrouping of a batch: the rays at the positions `idx`, in that order
(reordering, selection of a sub-batch, duplication; positions out of range are dropped) -/
def gather {β : Type} (idx : List Nat) (l : List β) : List β := idx.filterMap fun i => l[i]?

theorem gather_map {β γ : Type} (f : β → γ) (idx : List Nat) (l : List β) :
    (gather idx l).map f = gather idx (l.map f) := by
  simp only [gather, List.map_filterMap, List.getElem?_map]

theorem getLastD_map {β γ : Type} (f : β → γ) (l : List β) (d : β) :
    (l.map f).getLastD (f d) = f (l.getLastD d) := by
  induction l generalizing d with
  | nil => rfl
  | cons a l ih =>
    simp only [List.map_cons, List.getLastD_cons]
    exact ih a

theorem traceLens_length (w : α) (ss : List (RSurf α)) (rays : List (Ray α)) :
    (traceLens w ss rays).length = ss.length := by
  induction ss generalizing rays with
  | nil => rfl
  | cons s ss ih => simp only [traceLens, List.length_cons, ih]

/-! ### (d) the edits of a history -/

def editOf : Op α → Option (Lens α → Lens α)
  | .edit f => some f
  | _ => none

/-- the edit subsequence of a history -/
def edits (ops : List (Op α)) : List (Lens α → Lens α) := ops.filterMap editOf

/-! ### (c) number of sweeps of the shared loop -/

/-- if every `|dz|` of both blocks meets the test, the batch meets it; and conversely -/
theorem sweep_test_append (g : Geom ℝ) (a b : List (Ray ℝ)) (pa pb : List (ℝ × ℝ × ℝ)) (tol : ℝ)
    (hl : pa.length = a.length) (hne : a ≠ []) :
    Num.lt (nrSweep g (a ++ b) (pa ++ pb)).2 tol = true ↔
      (Num.lt (nrSweep g a pa).2 tol = true ∧ ∀ x ∈ dzs g b pb, x < tol) := by
  rw [NumReal.lt_eq, NumReal.lt_eq, nrSweep_max, nrSweep_max]
  have hA : dzs g a pa ≠ [] := by
    cases a with
    | nil => exact absurd rfl hne
    | cons r a =>
      cases pa with
      | nil => simp at hl
      | cons p pa => simp [dzs]
  have hAB : dzs g (a ++ b) (pa ++ pb) ≠ [] := by
    rw [dzs_append g a b pa pb hl]
    exact fun e => hA (List.append_eq_nil_iff.mp e).1
  rw [npMax_lt _ _ hAB, dzs_append g a b pa pb hl, npMax_lt _ _ hA]
  simp only [List.mem_append]
  exact ⟨fun h => ⟨fun x hx => h x (Or.inl hx), fun x hx => h x (Or.inr hx)⟩,
    fun h x hx => hx.elim (h.1 x) (h.2 x)⟩

/-- the same for the second block of a batch -/
theorem sweep_test_mono_right (g : Geom ℝ) (a b : List (Ray ℝ)) (pa pb : List (ℝ × ℝ × ℝ)) (tol : ℝ)
    (hl : pa.length = a.length) (hlb : pb.length = b.length) (hne : b ≠ [])
    (h : Num.lt (nrSweep g (a ++ b) (pa ++ pb)).2 tol = true) : Num.lt (nrSweep g b pb).2 tol = true := by
  rw [NumReal.lt_eq, nrSweep_max] at h ⊢
  have hB : dzs g b pb ≠ [] := by
    cases b with
    | nil => exact absurd rfl hne
    | cons r b =>
      cases pb with
      | nil => simp at hlb
      | cons p pb => simp [dzs]
  have hAB : dzs g (a ++ b) (pa ++ pb) ≠ [] := by
    rw [dzs_append g a b pa pb hl]
    exact fun e => hB (List.append_eq_nil_iff.mp e).2
  rw [npMax_lt _ _ hAB, dzs_append g a b pa pb hl] at h
  rw [npMax_lt _ _ hB]
  exact fun x hx => h x (List.mem_append_right _ hx)

/-- the number of sweeps the shared loop executes (`break` included): the `i + 1` of the first sweep
whose batch-wide `max |dz|` is below `tol`, or `max_iter` -/
def nrCount (g : Geom α) (rays : List (Ray α)) (tol : α) : Nat → List (α × α × α) → Nat
  | 0, _ => 0
  | n+1, pts => if Num.lt (nrSweep g rays pts).2 tol then 1 else nrCount g rays tol n (nrSweep g rays pts).1 + 1

theorem nrLoop_eq_count (g : Geom α) (rays : List (Ray α)) (tol : α) (n : Nat) (pts : List (α × α × α)) :
    nrLoop g rays tol n pts = nrIter g rays (nrCount g rays tol n pts) pts := by
  induction n generalizing pts with
  | zero => rfl
  | succ n ih =>
    simp only [nrLoop, nrCount]
    by_cases hm : Num.lt (nrSweep g rays pts).2 tol = true
    · simp only [hm, if_true, nrIter]
    · simp only [hm, if_false, nrIter, ih]; rfl

theorem nrCount_le (g : Geom α) (rays : List (Ray α)) (tol : α) (n : Nat) (pts : List (α × α × α)) :
    nrCount g rays tol n pts ≤ n := by
  induction n generalizing pts with
  | zero => exact Nat.le_refl 0
  | succ n ih =>
    simp only [nrCount]
    by_cases hm : Num.lt (nrSweep g rays pts).2 tol = true
    · simp only [hm, if_true]; exact Nat.succ_le_succ (Nat.zero_le n)
    · simp only [hm, if_false]; exact Nat.succ_le_succ (ih _)

/-- the point of one ray after `k` Newton–Raphson steps of its own -/
def nrPt (g : Geom α) (r : Ray α) : Nat → α × α × α → α × α × α
  | 0, p => p
  | k+1, p => nrPt g r k (nrStep g r p).1

theorem nrIter_single (g : Geom α) (r : Ray α) (k : Nat) (p : α × α × α) :
    nrIter g [r] k [p] = [nrPt g r k p] := by
  induction k generalizing p with
  | zero => rfl
  | succ k ih =>
    simp only [nrIter, nrPt, nrSweep_pts, List.zip_cons_cons, List.zip_nil_right, List.map_cons, List.map_nil]
    exact ih _

end C13
