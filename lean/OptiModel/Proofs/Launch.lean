import OptiModel.Model.RayGen
import OptiModel.Proofs.NumReal
import Mathlib.Tactic.FieldSimp
import Mathlib.Tactic.Ring
import Mathlib.Tactic.LinearCombination
import Mathlib.Tactic.Positivity
import Mathlib.Tactic.Linarith
import Mathlib.Tactic.NormNum
/-!
# Helper lemmas for C03 (ray launch)

* unfolding lemmas for `rayOrigin` / `generateRay` in each valid configuration,
* the insertion sort `sortBy` returns a sorted permutation,
* `interp` at a knot, between two neighbouring knots, and inside the hull (no monotonicity needed),
* `npMaxL` is the maximum of the list.

All statements are over ℝ, in Mathlib's notation (the scoped `Num` notation of the model is rewritten
by `num_real`).
-/
namespace Launch
open Model

/-! ### `radians` -/

theorem radians_eq (x : ℝ) : radians x = x * (Real.pi / 180) := by
  unfold radians; num_real; norm_num

/-! ### `rayOrigin` in the three accepted configurations -/

theorem rayOrigin_infinite (S : RGSys ℝ) (Hx Hy Px Py vx vy : ℝ)
    (hinf : S.psys.objInf = true) (hf : S.psys.fieldType = .angle) (ht : S.telecentric = false) :
    rayOrigin S Hx Hy Px Py vx vy = .ok
      (Px * EPD S.psys / 2 * vx
          + Real.tan (maxField S.fields * Hx * (Real.pi / 180)) * (startOffset S + EPL S.psys),
       Py * EPD S.psys / 2 * vy
          + -Real.tan (maxField S.fields * Hy * (Real.pi / 180)) * (startOffset S + EPL S.psys),
       posOf S.psys.surfs 1 - startOffset S) := by
  unfold rayOrigin
  simp only [hinf, hf, ht, if_true, Bool.false_eq_true, if_false, radians_eq]
  num_real

theorem rayOrigin_finite_height (S : RGSys ℝ) (Hx Hy Px Py vx vy : ℝ)
    (hinf : S.psys.objInf = false) (hf : S.psys.fieldType = .objectHeight) :
    rayOrigin S Hx Hy Px Py vx vy = .ok
      (maxField S.fields * Hx, maxField S.fields * Hy,
       (if S.objPlane then 0 else conicSag S.objR S.objK (maxField S.fields * Hx) (maxField S.fields * Hy))
         + posOf S.psys.surfs 0) := by
  unfold rayOrigin
  simp only [hinf, hf, Bool.false_eq_true, if_false]

theorem rayOrigin_finite_angle (S : RGSys ℝ) (Hx Hy Px Py vx vy : ℝ)
    (hinf : S.psys.objInf = false) (hf : S.psys.fieldType = .angle) :
    rayOrigin S Hx Hy Px Py vx vy = .ok
      (Real.tan (maxField S.fields * Hx * (Real.pi / 180)) * (EPL S.psys - posOf S.psys.surfs 0),
       -Real.tan (maxField S.fields * Hy * (Real.pi / 180)) * (EPL S.psys - posOf S.psys.surfs 0),
       posOf S.psys.surfs 0) := by
  unfold rayOrigin
  simp only [hinf, hf, Bool.false_eq_true, if_false, radians_eq]
  num_real

/-! ### `generateRay` once the origin is known -/

/-- non-telecentric branch: aim point `(Px·EPD·vx/2, Py·EPD·vy/2, EPL)`, `vx = 1 - vig.1` -/
theorem generateRay_nontele (S : RGSys ℝ) (Hx Hy Px Py x0 y0 z0 : ℝ)
    (hx : S.fields.any (fun f => !(Num.isZero f.x)) = false) (ht : S.telecentric = false)
    (ho : rayOrigin S Hx Hy Px Py (1 - (vigFactor S.fields Hx Hy).1) (1 - (vigFactor S.fields Hx Hy).2)
        = .ok (x0, y0, z0)) :
    generateRay S Hx Hy Px Py = .ok
      (let x1 := Px * EPD S.psys * (1 - (vigFactor S.fields Hx Hy).1) / 2
       let y1 := Py * EPD S.psys * (1 - (vigFactor S.fields Hx Hy).2) / 2
       let z1 := EPL S.psys
       let mag := Real.sqrt ((x1 - x0) * (x1 - x0) + (y1 - y0) * (y1 - y0) + (z1 - z0) * (z1 - z0))
       ⟨x0, y0, z0, (x1 - x0) / mag, (y1 - y0) / mag, (z1 - z0) / mag, 1, 0⟩) := by
  unfold generateRay
  simp only [hx, Bool.false_eq_true, if_false, ht]
  num_real
  rw [ho]

/-- telecentric branch (finite object, object-height fields, object-NA aperture) -/
theorem generateRay_tele (S : RGSys ℝ) (Hx Hy Px Py x0 y0 z0 : ℝ)
    (hx : S.fields.any (fun f => !(Num.isZero f.x)) = false) (ht : S.telecentric = true)
    (hf : S.psys.fieldType = .objectHeight) (ha : S.psys.apType = .objectNA)
    (ho : rayOrigin S Hx Hy Px Py (1 - (vigFactor S.fields Hx Hy).1) (1 - (vigFactor S.fields Hx Hy).2)
        = .ok (x0, y0, z0)) :
    generateRay S Hx Hy Px Py = .ok
      (let x1 := Px * (1 - (vigFactor S.fields Hx Hy).1) + x0
       let y1 := Py * (1 - (vigFactor S.fields Hx Hy).2) + y0
       let z1 := Real.sqrt (1 - S.psys.apValue * S.psys.apValue) / S.psys.apValue + z0
       let mag := Real.sqrt ((x1 - x0) * (x1 - x0) + (y1 - y0) * (y1 - y0) + (z1 - z0) * (z1 - z0))
       ⟨x0, y0, z0, (x1 - x0) / mag, (y1 - y0) / mag, (z1 - z0) / mag, 1, 0⟩) := by
  unfold generateRay
  simp only [hx, Bool.false_eq_true, if_false, ht, if_true, hf, ha]
  num_real
  rw [ho]

/-! ### insertion sort `sortBy` -/
section SortSec
variable {β : Type}

theorem insertBy_perm (p : ℝ × β) : ∀ l : List (ℝ × β), (insertBy p l).Perm (p :: l)
  | [] => by simp [insertBy]
  | q :: l => by
    unfold insertBy
    split
    · exact ((insertBy_perm p l).cons q).trans (List.Perm.swap p q l)
    · exact List.Perm.refl _

theorem sortBy_cons (p : ℝ × β) (l : List (ℝ × β)) : sortBy (p :: l) = insertBy p (sortBy l) := rfl

theorem sortBy_perm' (l : List (ℝ × β)) : (sortBy l).Perm l := by
  induction l with
  | nil => exact List.Perm.refl _
  | cons p l ih => rw [sortBy_cons]; exact (insertBy_perm p _).trans (ih.cons p)

theorem insertBy_sorted (p : ℝ × β) : ∀ l : List (ℝ × β), l.Pairwise (fun a b => a.1 ≤ b.1) →
    (insertBy p l).Pairwise (fun a b => a.1 ≤ b.1)
  | [], _ => by simp [insertBy]
  | q :: l, h => by
    rw [List.pairwise_cons] at h
    unfold insertBy
    by_cases hq : q.1 < p.1
    · have hq' : Num.lt q.1 p.1 = true := by rw [NumReal.lt_eq]; exact hq
      rw [if_pos hq', List.pairwise_cons]
      refine ⟨?_, insertBy_sorted p l h.2⟩
      intro r hr
      have := (insertBy_perm p l).subset hr
      rcases List.mem_cons.mp this with rfl | hr'
      · exact hq.le
      · exact h.1 r hr'
    · have hq' : ¬ (Num.lt q.1 p.1 = true) := by rw [NumReal.lt_eq]; exact hq
      rw [if_neg hq', List.pairwise_cons]
      refine ⟨?_, List.pairwise_cons.mpr h⟩
      intro r hr
      rcases List.mem_cons.mp hr with rfl | hr'
      · exact not_lt.mp hq
      · exact le_trans (not_lt.mp hq) (h.1 r hr')

theorem sortBy_sorted' (l : List (ℝ × β)) : (sortBy l).Pairwise (fun a b => a.1 ≤ b.1) := by
  induction l with
  | nil => exact List.Pairwise.nil
  | cons p l ih => rw [sortBy_cons]; exact insertBy_sorted p _ ih

/-- distinct keys: the result is strictly increasing -/
theorem sortBy_strict (l : List (ℝ × β)) (hd : (l.map (·.1)).Nodup) :
    (sortBy l).Pairwise (fun a b => a.1 < b.1) := by
  have hd' : ((sortBy l).map (·.1)).Nodup := ((sortBy_perm' l).map _).nodup_iff.mpr hd
  have h2 : (sortBy l).Pairwise (fun a b => a.1 ≠ b.1) := by
    have := hd'
    unfold List.Nodup at this
    rwa [List.pairwise_map] at this
  exact ((sortBy_sorted' l).and h2).imp (fun ⟨h1, h2⟩ => lt_of_le_of_ne h1 h2)

/-- distinct keys: the sorted list does not depend on the order of the input -/
theorem sortBy_eq_of_perm (l₁ l₂ : List (ℝ × β)) (hp : l₁.Perm l₂) (hd : (l₁.map (·.1)).Nodup) :
    sortBy l₁ = sortBy l₂ := by
  have hd2 : (l₂.map (·.1)).Nodup := (hp.map _).nodup_iff.mp hd
  refine List.Perm.eq_of_pairwise (le := fun a b => a.1 < b.1) ?_ (sortBy_strict l₁ hd)
    (sortBy_strict l₂ hd2) (((sortBy_perm' l₁).trans hp).trans (sortBy_perm' l₂).symm)
  intro a b _ _ h1 h2
  exact absurd h1 (not_lt.mpr h2.le)
end SortSec

/-! ### `npMaxL` is the maximum -/

theorem foldl_max_ge (l : List ℝ) : ∀ a : ℝ,
    a ≤ l.foldl (fun acc v => if Num.lt acc v then v else acc) a ∧
    (∀ x ∈ l, x ≤ l.foldl (fun acc v => if Num.lt acc v then v else acc) a) ∧
    (l.foldl (fun acc v => if Num.lt acc v then v else acc) a ∈ a :: l) := by
  induction l with
  | nil => intro a; simp
  | cons b l ih =>
    intro a
    simp only [List.foldl_cons]
    by_cases h : a < b
    · have h' : Num.lt a b = true := by rw [NumReal.lt_eq]; exact h
      rw [if_pos h']
      obtain ⟨i1, i2, i3⟩ := ih b
      refine ⟨le_trans h.le i1, ?_, ?_⟩
      · intro x hx
        rcases List.mem_cons.mp hx with rfl | hx'
        · exact i1
        · exact i2 x hx'
      · exact List.mem_cons_of_mem _ i3
    · have h' : ¬ (Num.lt a b = true) := by rw [NumReal.lt_eq]; exact h
      rw [if_neg h']
      obtain ⟨i1, i2, i3⟩ := ih a
      refine ⟨i1, ?_, ?_⟩
      · intro x hx
        rcases List.mem_cons.mp hx with rfl | hx'
        · exact le_trans (not_lt.mp h) i1
        · exact i2 x hx'
      · rcases List.mem_cons.mp i3 with h3 | h3
        · rw [h3]; exact List.mem_cons_self
        · exact List.mem_cons_of_mem _ (List.mem_cons_of_mem _ h3)

theorem npMaxL_ge (l : List ℝ) : ∀ x ∈ l, x ≤ npMaxL l := by
  cases l with
  | nil => intro x hx; simp at hx
  | cons a l =>
    intro x hx
    obtain ⟨i1, i2, _⟩ := foldl_max_ge l a
    rcases List.mem_cons.mp hx with rfl | hx'
    · exact i1
    · exact i2 x hx'

theorem npMaxL_mem (l : List ℝ) (h : l ≠ []) : npMaxL l ∈ l := by
  cases l with
  | nil => exact absurd rfl h
  | cons a l => exact (foldl_max_ge l a).2.2

theorem npMaxL_perm (l₁ l₂ : List ℝ) (hp : l₁.Perm l₂) : npMaxL l₁ = npMaxL l₂ := by
  by_cases h : l₁ = []
  · subst h; rw [List.Perm.nil_eq hp]
  · have h2 : l₂ ≠ [] := fun e => h (by subst e; exact List.Perm.eq_nil hp)
    exact le_antisymm (npMaxL_ge l₂ _ (hp.subset (npMaxL_mem l₁ h)))
      (npMaxL_ge l₁ _ (hp.symm.subset (npMaxL_mem l₂ h2)))

/-! ### `interp` -/

/-- the interpolated value stays in the hull of the table values; no monotonicity of the knots is
needed (the code never divides by a non-positive knot distance on the branch it takes) -/
theorem interp_hull (x lo hi : ℝ) : ∀ (l : List (ℝ × ℝ)), l ≠ [] → (∀ p ∈ l, lo ≤ p.2 ∧ p.2 ≤ hi) →
    lo ≤ interp x l ∧ interp x l ≤ hi
  | [], h, _ => absurd rfl h
  | [p], _, hw => by simpa [interp] using hw p (by simp)
  | p :: q :: rest, _, hw => by
      have hp := hw p (by simp)
      have hq := hw q (by simp)
      unfold interp
      num_real
      split_ifs with h1 h2 h3
      · exact hp
      · exact hp
      · have hx0 : 0 < x - p.1 := by linarith [not_le.mp h3]
        have hpos : 0 < q.1 - p.1 := by linarith
        have hx1 : x - p.1 ≤ q.1 - p.1 := by linarith
        set w := (x - p.1) / (q.1 - p.1) with hwdef
        have hw0 : 0 ≤ w := div_nonneg hx0.le hpos.le
        have hw1 : w ≤ 1 := (div_le_one hpos).mpr hx1
        have e : (q.2 - p.2) / (q.1 - p.1) * (x - p.1) + p.2 = p.2 + w * (q.2 - p.2) := by
          rw [hwdef]; field_simp; ring
        rw [e]
        constructor <;> nlinarith [hp.1, hp.2, hq.1, hq.2]
      · exact interp_hull x lo hi (q :: rest) (by simp)
          (fun r hr => hw r (by simp [List.mem_cons] at hr ⊢; tauto))

/-- right of (or at) the second knot the first knot is skipped -/
theorem interp_skip (x : ℝ) (a b : ℝ × ℝ) (rest : List (ℝ × ℝ)) (hab : a.1 < b.1) (hx : b.1 ≤ x) :
    interp x (a :: b :: rest) = interp x (b :: rest) := by
  have h1 : ¬ (Num.lt x a.1 = true) := by rw [NumReal.lt_eq]; linarith
  have h2 : ¬ (Num.lt x b.1 = true) := by rw [NumReal.lt_eq]; linarith
  rw [interp, if_neg h1, if_neg h2]

/-- at a knot of a strictly increasing table the table value is returned -/
theorem interp_at_knot : ∀ (l : List (ℝ × ℝ)), l.Pairwise (fun a b => a.1 < b.1) →
    ∀ p ∈ l, interp p.1 l = p.2
  | [], _, p, hp => by simp at hp
  | [a], _, p, hp => by
      rw [List.mem_singleton] at hp; subst hp; simp [interp]
  | a :: b :: rest, hs, p, hp => by
      rw [List.pairwise_cons] at hs
      have hab : a.1 < b.1 := hs.1 b (by simp)
      rcases List.mem_cons.mp hp with rfl | hp'
      · have h1 : ¬ (Num.lt p.1 p.1 = true) := by rw [NumReal.lt_eq]; exact lt_irrefl _
        have h2 : Num.lt p.1 b.1 = true := by rw [NumReal.lt_eq]; exact hab
        have h3 : Num.le p.1 p.1 = true := by rw [NumReal.le_eq]
        rw [interp, if_neg h1, if_pos h2, if_pos h3]
      · have hbp : b.1 ≤ p.1 := by
          rcases List.mem_cons.mp hp' with rfl | h
          · exact le_refl _
          · exact ((List.pairwise_cons.mp hs.2).1 p h).le
        rw [interp_skip _ a b rest hab hbp]
        exact interp_at_knot (b :: rest) hs.2 p hp'

/-- between two neighbouring knots `p`, `q` of a strictly increasing table (no knot strictly
between them) the value is the straight line through them -/
theorem interp_between (x : ℝ) (p q : ℝ × ℝ) : ∀ (l : List (ℝ × ℝ)), l.Pairwise (fun a b => a.1 < b.1) →
    p ∈ l → q ∈ l → p.1 < q.1 → (∀ r ∈ l, ¬ (p.1 < r.1 ∧ r.1 < q.1)) → p.1 ≤ x → x < q.1 →
    interp x l = p.2 + (x - p.1) / (q.1 - p.1) * (q.2 - p.2)
  | [], _, hp, _, _, _, _, _ => by simp at hp
  | [a], _, hp, hq, hpq, _, _, _ => by
      rw [List.mem_singleton] at hp hq; subst hp; subst hq; exact absurd hpq (lt_irrefl _)
  | a :: b :: rest, hs, hp, hq, hpq, hno, hx1, hx2 => by
      have hs' := List.pairwise_cons.mp hs
      have hab : a.1 < b.1 := hs'.1 b (by simp)
      rcases List.mem_cons.mp hp with rfl | hp'
      · -- p is the head; q must be the second knot
        have hqb : q = b := by
          rcases List.mem_cons.mp hq with rfl | hq'
          · exact absurd hpq (lt_irrefl _)
          · rcases List.mem_cons.mp hq' with h | h
            · exact h
            · have : b.1 < q.1 := (List.pairwise_cons.mp hs'.2).1 q h
              exact absurd ⟨hab, this⟩ (hno b (by simp))
        subst hqb
        have h1 : ¬ (Num.lt x p.1 = true) := by rw [NumReal.lt_eq]; linarith
        have h2 : Num.lt x q.1 = true := by rw [NumReal.lt_eq]; exact hx2
        rw [interp, if_neg h1, if_pos h2]
        by_cases h3 : x ≤ p.1
        · have h3' : Num.le x p.1 = true := by rw [NumReal.le_eq]; exact h3
          have : x = p.1 := le_antisymm h3 hx1
          rw [if_pos h3', this]; simp
        · have h3' : ¬ (Num.le x p.1 = true) := by rw [NumReal.le_eq]; exact h3
          rw [if_neg h3']
          num_real
          have : q.1 - p.1 ≠ 0 := by linarith
          field_simp
          ring
      · have hbp : b.1 ≤ p.1 := by
          rcases List.mem_cons.mp hp' with rfl | h
          · exact le_refl _
          · exact ((List.pairwise_cons.mp hs'.2).1 p h).le
        have hq' : q ∈ b :: rest := by
          rcases List.mem_cons.mp hq with rfl | h
          · exact absurd (lt_of_lt_of_le hab hbp) (not_lt.mpr hpq.le)
          · exact h
        rw [interp_skip _ a b rest hab (le_trans hbp hx1)]
        exact interp_between x p q (b :: rest) hs'.2 hp' hq' hpq
          (fun r hr => hno r (List.mem_cons_of_mem _ hr)) hx1 hx2

/-- same, including the right end point -/
theorem interp_between_closed (x : ℝ) (p q : ℝ × ℝ) (l : List (ℝ × ℝ))
    (hs : l.Pairwise (fun a b => a.1 < b.1)) (hp : p ∈ l) (hq : q ∈ l) (hpq : p.1 < q.1)
    (hno : ∀ r ∈ l, ¬ (p.1 < r.1 ∧ r.1 < q.1)) (hx1 : p.1 ≤ x) (hx2 : x ≤ q.1) :
    interp x l = p.2 + (x - p.1) / (q.1 - p.1) * (q.2 - p.2) := by
  rcases lt_or_eq_of_le hx2 with h | h
  · exact interp_between x p q l hs hp hq hpq hno hx1 h
  · rw [h, interp_at_knot l hs q hq]
    have : q.1 - p.1 ≠ 0 := by linarith
    field_simp; ring

/-! ### the knot table of `get_vig_factor` -/

/-- the table `get_vig_factor` hands to `np.interp`: keys `y / max_y_field` (all 0 when
`max_y_field == 0`) of the fields sorted by `y`, values the component `sel` of `(vx, vy)` -/
noncomputable def vigKnots (fs : List (FieldRec ℝ)) (sel : ℝ × ℝ → ℝ) : List (ℝ × ℝ) :=
  (sortBy (fs.map fun f => (f.y, (f.vx, f.vy)))).map fun p =>
    (if npMaxL (fs.map (·.y)) = 0 then 0 else p.1 / npMaxL (fs.map (·.y)), sel p.2)

theorem vigFactor_eq (fs : List (FieldRec ℝ)) (Hx Hy : ℝ) :
    vigFactor fs Hx Hy = (interp (Real.sqrt (Hx * Hx + Hy * Hy)) (vigKnots fs Prod.fst),
                          interp (Real.sqrt (Hx * Hx + Hy * Hy)) (vigKnots fs Prod.snd)) := by
  unfold vigFactor vigKnots
  num_real
  by_cases h : npMaxL (fs.map (·.y)) = 0
  · simp only [if_pos h, List.zip_map']
  · simp only [if_neg h, List.zip_map']

theorem keys_map (fs : List (FieldRec ℝ)) :
    (fs.map fun f => (f.y, (f.vx, f.vy))).map (·.1) = fs.map (·.y) := by
  rw [List.map_map]; rfl

theorem vigKnots_ne_nil (fs : List (FieldRec ℝ)) (sel : ℝ × ℝ → ℝ) (h : fs ≠ []) :
    vigKnots fs sel ≠ [] := by
  intro e
  have := congrArg List.length e
  unfold vigKnots at this
  rw [List.length_map, (sortBy_perm' _).length_eq, List.length_map] at this
  exact h (List.length_eq_zero_iff.mp this)

/-- every table value is the factor of a defined field -/
theorem vigKnots_value (fs : List (FieldRec ℝ)) (sel : ℝ × ℝ → ℝ) (p : ℝ × ℝ) (hp : p ∈ vigKnots fs sel) :
    ∃ f ∈ fs, p.2 = sel (f.vx, f.vy) ∧
      p.1 = (if npMaxL (fs.map (·.y)) = 0 then 0 else f.y / npMaxL (fs.map (·.y))) := by
  unfold vigKnots at hp
  obtain ⟨s, hs, rfl⟩ := List.mem_map.mp hp
  have hs' := (sortBy_perm' _).subset hs
  obtain ⟨f, hf, rfl⟩ := List.mem_map.mp hs'
  exact ⟨f, hf, rfl, rfl⟩

/-- every defined field has its knot -/
theorem vigKnots_mem (fs : List (FieldRec ℝ)) (sel : ℝ × ℝ → ℝ) (f : FieldRec ℝ) (hf : f ∈ fs)
    (hm : npMaxL (fs.map (·.y)) ≠ 0) :
    (f.y / npMaxL (fs.map (·.y)), sel (f.vx, f.vy)) ∈ vigKnots fs sel := by
  unfold vigKnots
  refine List.mem_map.mpr ⟨(f.y, (f.vx, f.vy)), (sortBy_perm' _).symm.subset (List.mem_map.mpr ⟨f, hf, rfl⟩), ?_⟩
  simp only [hm, if_false]

/-- distinct `y` and a positive largest `y`: the keys are strictly increasing -/
theorem vigKnots_strict (fs : List (FieldRec ℝ)) (sel : ℝ × ℝ → ℝ) (hd : (fs.map (·.y)).Nodup)
    (hm : 0 < npMaxL (fs.map (·.y))) :
    (vigKnots fs sel).Pairwise (fun a b => a.1 < b.1) := by
  unfold vigKnots
  rw [List.pairwise_map]
  have hs := sortBy_strict (fs.map fun f => (f.y, (f.vx, f.vy))) (by rw [keys_map]; exact hd)
  refine hs.imp ?_
  intro a b hab
  simp only [ne_of_gt hm, if_false]
  exact div_lt_div_of_pos_right hab hm

theorem vigKnots_perm (fs₁ fs₂ : List (FieldRec ℝ)) (sel : ℝ × ℝ → ℝ) (hp : fs₁.Perm fs₂)
    (hd : (fs₁.map (·.y)).Nodup) : vigKnots fs₁ sel = vigKnots fs₂ sel := by
  unfold vigKnots
  rw [npMaxL_perm _ _ (hp.map (·.y)),
    sortBy_eq_of_perm _ _ (hp.map fun f => (f.y, (f.vx, f.vy))) (by rw [keys_map]; exact hd)]

/-! ### the launch direction in terms of the difference vector `(a, b, c)` aim − origin -/

/-- algebra of `mag`, `L M N`: unit vector, and `mag · dir` is the difference vector -/
theorem launch_core (a b c : ℝ) (hc : c ≠ 0) :
    let m := Real.sqrt (a^2 + b^2 + c^2)
    0 < m ∧ (a/m)^2 + (b/m)^2 + (c/m)^2 = 1 ∧ m * (a/m) = a ∧ m * (b/m) = b ∧ m * (c/m) = c := by
  intro m
  have hc2 : 0 < c^2 := by positivity
  have hpos : 0 < a^2 + b^2 + c^2 := by positivity
  have hm : 0 < m := Real.sqrt_pos.mpr hpos
  have hmm : m^2 = a^2 + b^2 + c^2 := Real.sq_sqrt hpos.le
  have hne : m ≠ 0 := ne_of_gt hm
  refine ⟨hm, ?_, ?_, ?_, ?_⟩
  · field_simp; linear_combination -hmm
  · field_simp
  · field_simp
  · field_simp

theorem generateRay_nontele_dir (S : RGSys ℝ) (Hx Hy Px Py x0 y0 z0 a b c : ℝ)
    (hx : S.fields.any (fun f => !(Num.isZero f.x)) = false) (ht : S.telecentric = false)
    (ho : rayOrigin S Hx Hy Px Py (1 - (vigFactor S.fields Hx Hy).1) (1 - (vigFactor S.fields Hx Hy).2)
        = .ok (x0, y0, z0))
    (ha : Px * EPD S.psys * (1 - (vigFactor S.fields Hx Hy).1) / 2 - x0 = a)
    (hb : Py * EPD S.psys * (1 - (vigFactor S.fields Hx Hy).2) / 2 - y0 = b)
    (hc : EPL S.psys - z0 = c) :
    generateRay S Hx Hy Px Py = .ok
      ⟨x0, y0, z0, a / Real.sqrt (a^2 + b^2 + c^2), b / Real.sqrt (a^2 + b^2 + c^2),
        c / Real.sqrt (a^2 + b^2 + c^2), 1, 0⟩ := by
  rw [generateRay_nontele S Hx Hy Px Py x0 y0 z0 hx ht ho]
  subst ha; subst hb; subst hc
  simp only [sq]

theorem generateRay_tele_dir (S : RGSys ℝ) (Hx Hy Px Py x0 y0 z0 a b c : ℝ)
    (hx : S.fields.any (fun f => !(Num.isZero f.x)) = false) (ht : S.telecentric = true)
    (hf : S.psys.fieldType = .objectHeight) (hap : S.psys.apType = .objectNA)
    (ho : rayOrigin S Hx Hy Px Py (1 - (vigFactor S.fields Hx Hy).1) (1 - (vigFactor S.fields Hx Hy).2)
        = .ok (x0, y0, z0))
    (ha : Px * (1 - (vigFactor S.fields Hx Hy).1) + x0 - x0 = a)
    (hb : Py * (1 - (vigFactor S.fields Hx Hy).2) + y0 - y0 = b)
    (hc : Real.sqrt (1 - S.psys.apValue * S.psys.apValue) / S.psys.apValue + z0 - z0 = c) :
    generateRay S Hx Hy Px Py = .ok
      ⟨x0, y0, z0, a / Real.sqrt (a^2 + b^2 + c^2), b / Real.sqrt (a^2 + b^2 + c^2),
        c / Real.sqrt (a^2 + b^2 + c^2), 1, 0⟩ := by
  rw [generateRay_tele S Hx Hy Px Py x0 y0 z0 hx ht hf hap ho]
  subst ha; subst hb; subst hc
  simp only [sq]

theorem generateRay_origin_error (S : RGSys ℝ) (Hx Hy Px Py : ℝ) (e : GenErr)
    (hx : S.fields.any (fun f => !(Num.isZero f.x)) = false)
    (ho : rayOrigin S Hx Hy Px Py (1 - (vigFactor S.fields Hx Hy).1) (1 - (vigFactor S.fields Hx Hy).2)
        = .error e) :
    generateRay S Hx Hy Px Py = .error e := by
  unfold generateRay
  simp only [hx, Bool.false_eq_true, if_false]
  num_real
  rw [ho]

theorem generateRay_fields_error (S : RGSys ℝ) (Hx Hy Px Py : ℝ)
    (hx : S.fields.any (fun f => !(Num.isZero f.x)) = true) :
    generateRay S Hx Hy Px Py = .error .notImplemented := by
  unfold generateRay
  rw [if_pos hx]

/-! ### `Optic.trace` with a named distribution

`Optic.trace(Hx, Hy, wavelength, num_rays, 'name')` (optic.py 422–430) does
`vx, vy = get_vig_factor(Hx, Hy)`; `distribution.generate_points(num_rays, vx, vy)` — every named
distribution multiplies its raw points `(px, py)` (the model's `dist*`) by `(1 - vx, 1 - vy)` —;
`Px = distribution.x * (1 - vx)`; `generate_rays(Hx, Hy, Px, Py)`.  The model file has no entry for it
(the driver compares `generateRay` and `genericLaunch` only); this is its transcription for one raw
distribution point, next to `genericLaunch`. -/
noncomputable def traceLaunch (S : RGSys ℝ) (Hx Hy px py : ℝ) : Except GenErr (Ray ℝ) :=
  generateRay S Hx Hy
    (px * (1 - (vigFactor S.fields Hx Hy).1) * (1 - (vigFactor S.fields Hx Hy).1))
    (py * (1 - (vigFactor S.fields Hx Hy).2) * (1 - (vigFactor S.fields Hx Hy).2))

/-! ### clamping of `interp` outside the table -/

/-- at or right of the largest knot of a strictly increasing table: its value -/
theorem interp_clamp_right (x : ℝ) (q : ℝ × ℝ) : ∀ (l : List (ℝ × ℝ)), l.Pairwise (fun a b => a.1 < b.1) →
    q ∈ l → (∀ r ∈ l, r.1 ≤ q.1) → q.1 ≤ x → interp x l = q.2
  | [], _, hq, _, _ => by simp at hq
  | [a], _, hq, _, _ => by rw [List.mem_singleton] at hq; subst hq; simp [interp]
  | a :: b :: rest, hs, hq, hmax, hx => by
      have hs' := List.pairwise_cons.mp hs
      have hab : a.1 < b.1 := hs'.1 b (by simp)
      have hq' : q ∈ b :: rest := by
        rcases List.mem_cons.mp hq with rfl | h
        · exact absurd (hmax b (by simp)) (not_le.mpr hab)
        · exact h
      rw [interp_skip _ a b rest hab (le_trans (hmax b (by simp)) hx)]
      exact interp_clamp_right x q (b :: rest) hs'.2 hq' (fun r hr => hmax r (List.mem_cons_of_mem _ hr)) hx

/-- at or left of the smallest knot of a strictly increasing table: its value -/
theorem interp_clamp_left' (x : ℝ) (q : ℝ × ℝ) (l : List (ℝ × ℝ)) (hs : l.Pairwise (fun a b => a.1 < b.1))
    (hq : q ∈ l) (hmin : ∀ r ∈ l, q.1 ≤ r.1) (hx : x ≤ q.1) : interp x l = q.2 := by
  rcases lt_or_eq_of_le hx with h | h
  · cases l with
    | nil => simp at hq
    | cons a rest =>
      have hqa : q = a := by
        rcases List.mem_cons.mp hq with h' | h'
        · exact h'
        · exact absurd (hmin a (by simp)) (not_le.mpr ((List.pairwise_cons.mp hs).1 q h'))
      subst hqa
      cases rest with
      | nil => simp [interp]
      | cons b r =>
        have h1 : Num.lt x q.1 = true := by rw [NumReal.lt_eq]; exact h
        rw [interp, if_pos h1]
  · rw [h]; exact interp_at_knot l hs q hq

end Launch
