import OptiModel.Proofs.Launch
/-!
# Concrete systems for the non-vacuity examples of C03

One refracting stop surface at `z = 0` (so `EPL = 0`, evaluated through the model's `EPL`: reverse
paraxial trace from the stop), two fields `y = 0` and `y = 10` with vignetting `(0,0)` / `(0.1, 0.2)`.
-/
namespace C03
open Model Launch

/-- object at `zobj`, one refracting stop surface at `z = 0`, image at `z = 60` -/
noncomputable def exSurfs (zobj : ℝ) : List (PSurf ℝ) :=
  [⟨.object, 0, zobj, 0, 1, 1, false, false⟩, ⟨.standard, 0, 0, 50, 1, 1.5, false, true⟩,
   ⟨.image, 0, 60, 0, 1.5, 1.5, false, false⟩]
/-- fields `y = 0` (no vignetting) and `y = 10` (`vx = 0.1`, `vy = 0.2`) -/
noncomputable def exFields : List (FieldRec ℝ) := [⟨0, 0, 0, 0⟩, ⟨0, 10, 0.1, 0.2⟩]
/-- infinite object, angle fields, `EPD = 10` -/
noncomputable def exInf : RGSys ℝ := ⟨⟨exSurfs 0, .EPD, 10, .angle, 10, true⟩, exFields, false, true, 0, 0⟩
/-- object at `z = −100`, object-height fields -/
noncomputable def exFinH : RGSys ℝ := ⟨⟨exSurfs (-100), .EPD, 10, .objectHeight, 10, false⟩, exFields, false, true, 0, 0⟩
/-- object at `z = −100`, angle fields -/
noncomputable def exFinA : RGSys ℝ := ⟨⟨exSurfs (-100), .EPD, 10, .angle, 10, false⟩, exFields, false, true, 0, 0⟩
/-- telecentric object space, object NA 0.1 -/
noncomputable def exTele : RGSys ℝ := ⟨⟨exSurfs (-100), .objectNA, 0.1, .objectHeight, 10, false⟩, exFields, true, true, 0, 0⟩

theorem exEPL (z : ℝ) (a : ApType) (v : ℝ) (f : FieldType) (m : ℝ) (b : Bool) :
    EPL (⟨exSurfs z, a, v, f, m, b⟩ : PSys ℝ) = 0 := by
  simp [EPL, exSurfs, stopIndex, inverted, posOf, traceGeneric, ptrace, pstep, ys, us, last, tenth,
    List.findIdx?_cons]
theorem exPos1 (z : ℝ) : posOf (exSurfs z) 1 = 0 := by simp [posOf, exSurfs]
theorem exPos0 (z : ℝ) : posOf (exSurfs z) 0 = z := by simp [posOf, exSurfs]
theorem exOffset : startOffset exInf = 10 := by
  simp [startOffset, exInf, EPD, exSurfs, npMinL]
theorem exhx : exFields.any (fun f => !(Num.isZero f.x)) = false := by
  simp [exFields, NumReal.isZero_eq]
theorem exMaxY : npMaxL (exFields.map (·.y)) = 10 := by
  simp [exFields, npMaxL, NumReal.lt_decide]
theorem exNodup : (exFields.map (·.y)).Nodup := by
  simp [exFields]
theorem exMaxField : maxField exFields = 10 := by
  have h : Real.sqrt (10 * 10) = 10 := Real.sqrt_mul_self (by norm_num)
  simp [maxField, exFields, npMaxL, NumReal.lt_decide, NumReal.sqrt_eq, NumReal.mul_eq, NumReal.add_eq, h]

theorem exInfEPL : EPL exInf.psys = 0 := exEPL _ _ _ _ _ _
theorem exFinHEPL : EPL exFinH.psys = 0 := exEPL _ _ _ _ _ _
theorem exFinAEPL : EPL exFinA.psys = 0 := exEPL _ _ _ _ _ _
theorem exInfPos1 : posOf exInf.psys.surfs 1 = 0 := exPos1 _
theorem exInfD : startOffset exInf + EPL exInf.psys = 10 := by rw [exOffset, exInfEPL]; norm_num
theorem exField0 : (⟨0, 0, 0, 0⟩ : FieldRec ℝ) ∈ exFields := by simp [exFields]
theorem exField1 : (⟨0, 10, 0.1, 0.2⟩ : FieldRec ℝ) ∈ exFields := by simp [exFields]
theorem exMaxPos : 0 < npMaxL (exFields.map (·.y)) := by rw [exMaxY]; norm_num
theorem exSqrt : Real.sqrt (0.3 * 0.3 + 0.4 * 0.4) = 0.5 := by
  rw [show (0.3 * 0.3 + 0.4 * 0.4 : ℝ) = 0.5 * 0.5 by norm_num, Real.sqrt_mul_self (by norm_num)]

end C03
