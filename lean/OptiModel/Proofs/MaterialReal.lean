import OptiModel.Model.Material
import OptiModel.Proofs.NumReal
import Mathlib.Analysis.SpecialFunctions.Pow.Real
import Mathlib.Tactic.Ring
import Mathlib.Tactic.FieldSimp
import Mathlib.Tactic.Linarith
import Mathlib.Tactic.Positivity
import Mathlib.Tactic.NormNum
/-! Helper lemmas for C18 over the carrier ℝ: `x ** y` is `Real.rpow`; `np.interp` on increasing
knot lists. -/
namespace Model.Mat

/-- `x ** y` over ℝ -/
noncomputable instance : NumPow ℝ := ⟨fun x y => x ^ y⟩

theorem rpow_real (x y : ℝ) : rpow x y = x ^ y := rfl

/-- `w ** -2` for a positive wavelength -/
theorem rpow_neg_two (w : ℝ) (hw : 0 < w) : rpow w (Num.neg Num.two) = 1 / (w * w) := by
  show w ^ (-(2 : ℝ)) = 1 / (w * w)
  rw [Real.rpow_neg hw.le, Real.rpow_two, one_div, pow_two]

theorem npow_two {α : Type} [Num α] (x : α) : Num.npow x 2 = Num.mul (Num.mul Num.one x) x := rfl
theorem npow_four {α : Type} [Num α] (x : α) :
    Num.npow x 4 = Num.mul (Num.mul (Num.mul (Num.mul Num.one x) x) x) x := rfl
theorem npow_six {α : Type} [Num α] (x : α) :
    Num.npow x 6 = Num.mul (Num.mul (Num.mul (Num.mul (Num.mul (Num.mul Num.one x) x) x) x) x) x := rfl

/-! ### `foldPairs`: when does the loop raise -/
theorem foldPairs_eq_none_iff {α : Type} [Num α] (term : α → α → α) :
    ∀ (l : List α) (acc : α), foldPairs term acc l = none ↔ l.length % 2 = 1
  | [], acc => by simp [foldPairs]
  | [_], acc => by simp [foldPairs]
  | a :: b :: rest, acc => by
    simp only [foldPairs, List.length_cons]
    rw [foldPairs_eq_none_iff term rest]
    omega

/-! ### `np.interp` -/

/-- knots strictly increasing -/
def Incr (l : List (ℝ × ℝ)) : Prop := l.Pairwise (fun a b => a.1 < b.1)

/-- all ordinates lie in `[lo, hi]` -/
def Within (lo hi : ℝ) (l : List (ℝ × ℝ)) : Prop := ∀ p ∈ l, lo ≤ p.2 ∧ p.2 ≤ hi

/-- the textbook linear interpolant between two knots -/
noncomputable def lin (x : ℝ) (p q : ℝ × ℝ) : ℝ := p.2 + (x - p.1) * (q.2 - p.2) / (q.1 - p.1)

theorem interpFrom_unfold (x : ℝ) (p q : ℝ × ℝ) (rest : List (ℝ × ℝ)) :
    interpFrom x p (q :: rest) =
      if q.1 ≤ x then interpFrom x q rest else if p.1 ≤ x ∧ x ≤ p.1 then p.2
      else (q.2 - p.2) / (q.1 - p.1) * (x - p.1) + p.2 := by
  simp only [interpFrom, feq, linPiece, Bool.and_eq_true]
  num_real

theorem interp_unfold (x : ℝ) (p : ℝ × ℝ) (rest : List (ℝ × ℝ)) :
    interp x (p :: rest) = some (if x < p.1 then p.2 else interpFrom x p rest) := by
  simp only [interp]
  num_real

/-- at a knot that is followed only by larger knots the table value is returned -/
theorem interpFrom_at_knot (p : ℝ × ℝ) (rest : List (ℝ × ℝ)) (h : Incr (p :: rest)) :
    interpFrom p.1 p rest = p.2 := by
  cases rest with
  | nil => rfl
  | cons q rest =>
    rw [interpFrom_unfold]
    have hpq : p.1 < q.1 := (List.pairwise_cons.mp h).1 q (by simp)
    rw [if_neg (not_le.mpr hpq), if_pos ⟨le_refl _, le_refl _⟩]

/-- between consecutive knots `p`, `q` (anywhere in the table) -/
theorem interpFrom_between (x : ℝ) (p q : ℝ × ℝ) (post : List (ℝ × ℝ)) :
    ∀ (pre : List (ℝ × ℝ)) (p0 : ℝ × ℝ), Incr (p0 :: (pre ++ p :: q :: post)) → p.1 ≤ x → x ≤ q.1 →
      interpFrom x p0 (pre ++ p :: q :: post) = lin x p q
  | [], p0, hinc, hpx, hxq => by
    have h1 := List.pairwise_cons.mp hinc
    have h2 := List.pairwise_cons.mp h1.2
    have hpq : p.1 < q.1 := h2.1 q (by simp)
    have hne : q.1 - p.1 ≠ 0 := by linarith
    simp only [List.nil_append]
    rw [interpFrom_unfold, if_pos hpx, interpFrom_unfold]
    by_cases hq : q.1 ≤ x
    · have hx : x = q.1 := le_antisymm hxq hq
      rw [if_pos hq, hx, interpFrom_at_knot q post h2.2]
      unfold lin
      field_simp
      ring
    · rw [if_neg hq]
      by_cases hp : p.1 ≤ x ∧ x ≤ p.1
      · rw [if_pos hp]
        have hx : x = p.1 := le_antisymm hp.2 hp.1
        unfold lin
        rw [hx]
        simp
      · rw [if_neg hp]
        unfold lin
        field_simp
        ring
  | a :: pre, p0, hinc, hpx, hxq => by
    have h1 := List.pairwise_cons.mp hinc
    have hap : a.1 < p.1 := (List.pairwise_cons.mp h1.2).1 p (by simp)
    simp only [List.cons_append]
    rw [interpFrom_unfold, if_pos (by linarith)]
    exact interpFrom_between x p q post pre a h1.2 hpx hxq

/-- to the right of (or at) the last knot -/
theorem interpFrom_right (x : ℝ) (last : ℝ × ℝ) :
    ∀ (pre : List (ℝ × ℝ)) (p0 : ℝ × ℝ), Incr (p0 :: (pre ++ [last])) → last.1 ≤ x →
      interpFrom x p0 (pre ++ [last]) = last.2
  | [], p0, _, hx => by
    simp only [List.nil_append]
    rw [interpFrom_unfold, if_pos hx]
    rfl
  | a :: pre, p0, hinc, hx => by
    have h1 := List.pairwise_cons.mp hinc
    have hal : a.1 < last.1 := (List.pairwise_cons.mp h1.2).1 last (by simp)
    simp only [List.cons_append]
    rw [interpFrom_unfold, if_pos (by linarith)]
    exact interpFrom_right x last pre a h1.2 hx

/-- from a knot `p ≤ x` on, the value stays in the hull of the remaining ordinates -/
theorem interpFrom_in_hull (x lo hi : ℝ) : ∀ (rest : List (ℝ × ℝ)) (p : ℝ × ℝ),
    Incr (p :: rest) → Within lo hi (p :: rest) → p.1 ≤ x →
      lo ≤ interpFrom x p rest ∧ interpFrom x p rest ≤ hi
  | [], p, _, hw, _ => by
    simpa [interpFrom] using hw p (by simp)
  | q :: rest, p, hinc, hw, hpx => by
    have hp := hw p (by simp)
    have hq := hw q (by simp)
    have h1 := List.pairwise_cons.mp hinc
    have hpq : p.1 < q.1 := h1.1 q (by simp)
    rw [interpFrom_unfold]
    split_ifs with hqx hpe
    · exact interpFrom_in_hull x lo hi rest q h1.2 (fun r hr => hw r (List.mem_cons_of_mem _ hr)) hqx
    · exact hp
    · have hpos : 0 < q.1 - p.1 := by linarith
      have hx0 : 0 ≤ x - p.1 := by linarith
      have hx1 : x - p.1 ≤ q.1 - p.1 := by linarith [not_le.mp hqx]
      set t := (x - p.1) / (q.1 - p.1) with ht
      have ht0 : 0 ≤ t := div_nonneg hx0 hpos.le
      have ht1 : t ≤ 1 := (div_le_one hpos).mpr hx1
      have e : (q.2 - p.2) / (q.1 - p.1) * (x - p.1) + p.2 = p.2 + t * (q.2 - p.2) := by
        rw [ht]; field_simp; ring
      rw [e]
      constructor <;> nlinarith [hp.1, hp.2, hq.1, hq.2]

/-! ### Horner -/
/-- the polynomial with coefficient list `p`, highest power first -/
noncomputable def polyEval (x : ℝ) : List ℝ → ℝ
  | [] => 0
  | a :: as => a * x ^ as.length + polyEval x as

theorem foldl_horner (x : ℝ) : ∀ (p : List ℝ) (y : ℝ),
    p.foldl (fun y pv => y * x + pv) y = y * x ^ p.length + polyEval x p
  | [], y => by simp [polyEval]
  | a :: as, y => by
    simp only [List.foldl_cons, List.length_cons, polyEval]
    rw [foldl_horner x as]
    ring

end Model.Mat
