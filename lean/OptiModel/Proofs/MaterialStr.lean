import OptiModel.Model.Material
/-! Helper lemmas for C18, discrete part (core Lean only): Levenshtein DP = recurrence, literal
substring test, minimal-score selection, soundness of the catalogue certificate. -/
namespace Model.Mat

/-! ### Levenshtein: the matrix DP computes the Wagner–Fischer recurrence -/

/-- the matrix row for the prefix `rs` (reversed), from the column of the prefix `rt` (reversed) on,
the remaining columns being given by `bs` -/
def rowOf (rs : Str) : Str → Str → List Nat
  | rt, [] => [levP rs rt]
  | rt, b :: bs => levP rs rt :: rowOf rs (b :: rt) bs

theorem levP_nil_left (rt : Str) : levP [] rt = rt.length := by
  cases rt <;> simp [levP]

theorem levP_nil_right (rs : Str) : levP rs [] = rs.length := by
  cases rs <;> simp [levP]

theorem rowOf_ne_nil (rs rt bs : Str) : rowOf rs rt bs ≠ [] := by
  cases bs <;> simp [rowOf]

theorem levRowGo_spec (a : Nat) (rs : Str) : ∀ (bs rt : Str),
    levRowGo a bs (rowOf rs rt bs) (levP (a :: rs) rt) = rowOf (a :: rs) rt bs
  | [], rt => by simp [rowOf, levRowGo]
  | b :: bs, rt => by
    have ih := levRowGo_spec a rs bs (b :: rt)
    cases bs with
    | nil =>
      simp only [rowOf, levRowGo] at ih ⊢
      simp [levP]
    | cons b' bs' =>
      simp only [rowOf, levRowGo] at ih ⊢
      rw [show min (min (levP rs (b :: rt) + 1) (levP (a :: rs) rt + 1))
            (levP rs rt + if a = b then 0 else 1) = levP (a :: rs) (b :: rt) by simp [levP]]
      rw [ih]

theorem rowOf_nil_eq_range' : ∀ (bs rt : Str), rowOf [] rt bs = List.range' rt.length (bs.length + 1)
  | [], rt => by simp [rowOf, levP_nil_left, List.range']
  | b :: bs, rt => by
    simp only [rowOf, levP_nil_left, List.length_cons]
    rw [rowOf_nil_eq_range' bs (b :: rt)]
    simp [List.range', List.length_cons]

theorem rowOf_getLastD : ∀ (bs rt : Str) (rs : Str) (d : Nat),
    (rowOf rs rt bs).getLastD d = levP rs (bs.reverse ++ rt)
  | [], rt, rs, d => by simp [rowOf]
  | b :: bs, rt, rs, d => by
    have h := rowOf_getLastD bs (b :: rt) rs (levP rs rt)
    simp only [rowOf, List.getLastD_cons]
    rw [h]
    simp

theorem levRows_spec (s2 : Str) : ∀ (s1 rs : Str),
    levRows s2 s1 rs.length (rowOf rs [] s2) = rowOf (s1.reverse ++ rs) [] s2
  | [], rs => by simp [levRows]
  | a :: s1, rs => by
    simp only [levRows]
    have h := levRowGo_spec a rs s2 []
    rw [levP_nil_right] at h
    simp only [List.length_cons] at h
    rw [h]
    have ih := levRows_spec s2 s1 (a :: rs)
    simp only [List.length_cons] at ih
    rw [ih]
    simp

/-- `Material._levenshtein_distance` (matrix DP) = the recurrence -/
theorem levDP_eq_levSpec (s t : Str) : levDP s t = levSpec s t := by
  unfold levDP levSpec
  have h0 : List.range (t.length + 1) = rowOf [] [] t := by
    rw [rowOf_nil_eq_range', List.range_eq_range']
    simp
  rw [h0]
  have h := levRows_spec t s []
  simp only [List.length_nil, List.append_nil] at h
  rw [h, rowOf_getLastD]
  simp

theorem levP_eq_zero_iff : ∀ (rs rt : Str), levP rs rt = 0 ↔ rs = rt
  | [], rt => by
    rw [levP_nil_left]
    cases rt <;> simp
  | a :: rs, [] => by simp [levP]
  | a :: rs, b :: rt => by
    have ih := levP_eq_zero_iff rs rt
    simp only [levP, List.cons.injEq]
    constructor
    · intro h
      have h3 : levP rs rt + (if a = b then 0 else 1) = 0 := by omega
      by_cases hab : a = b
      · simp only [hab, if_true, Nat.add_zero] at h3
        exact ⟨hab, ih.mp h3⟩
      · simp [hab] at h3
    · rintro ⟨hab, hr⟩
      have := ih.mpr hr
      simp [hab, this]

theorem levDP_eq_zero_iff (s t : Str) : levDP s t = 0 ↔ s = t := by
  rw [levDP_eq_levSpec, levSpec, levP_eq_zero_iff]
  exact List.reverse_inj

/-! ### literal substring test -/
theorem isPrefix_refl : ∀ (l : Str), isPrefix l l = true
  | [] => rfl
  | a :: l => by simp [isPrefix, isPrefix_refl l]

theorem isInfix_refl (l : Str) : isInfix l l = true := by
  cases l with
  | nil => rfl
  | cons a l => simp [isInfix, isPrefix_refl]

/-! ### minimal-score selection -/
theorem minNat_le_of_mem : ∀ (l : List Nat) (a : Nat), a ∈ l → minNat l ≤ a
  | [], _, h => by simp at h
  | [b], a, h => by
    simp only [List.mem_singleton] at h
    simp [minNat, h]
  | b :: c :: rest, a, h => by
    simp only [minNat]
    rcases List.mem_cons.mp h with h | h
    · rw [h]; exact Nat.min_le_left _ _
    · exact Nat.le_trans (Nat.min_le_right _ _) (minNat_le_of_mem (c :: rest) a h)

theorem mem_lrowsFrom_of_mem : ∀ (rows : List Row) (i : Nat) (r : Row), r ∈ rows →
    ∃ j, LRow.of j r ∈ lrowsFrom i rows
  | [], _, _, h => by simp at h
  | r0 :: rs, i, r, h => by
    rcases List.mem_cons.mp h with h | h
    · exact ⟨i, by simp [lrowsFrom, h]⟩
    · obtain ⟨j, hj⟩ := mem_lrowsFrom_of_mem rs (i + 1) r h
      exact ⟨j, by simp [lrowsFrom, hj]⟩

theorem of_mem_lrowsFrom : ∀ (rows : List Row) (i : Nat) (x : LRow), x ∈ lrowsFrom i rows →
    x.row ∈ rows ∧ ∃ j, x = LRow.of j x.row
  | [], _, _, h => by simp [lrowsFrom] at h
  | r0 :: rs, i, x, h => by
    simp only [lrowsFrom, List.mem_cons] at h
    rcases h with h | h
    · subst h
      exact ⟨by simp [LRow.of], i, rfl⟩
    · obtain ⟨h1, h2⟩ := of_mem_lrowsFrom rs (i + 1) x h
      exact ⟨List.mem_cons_of_mem _ h1, h2⟩

/-! ### the lookup over an arbitrary table -/

/-- a row passes the (optional, literal) reference filter -/
def passesRef (ref : Option Str) (r : Row) : Prop :=
  match ref with
  | none => True
  | some s => refMatch (isInfix (lowerL s)) (LRow.of 0 r) = true

theorem refMatch_idx (m : Str → Bool) (i j : Nat) (r : Row) :
    refMatch m (LRow.of i r) = refMatch m (LRow.of j r) := rfl

theorem score_self (i : Nat) (r : Row) : score (lowerL r.name.str) (LRow.of i r) = 0 := by
  simp [score, LRow.of, (levDP_eq_zero_iff _ _).mpr rfl]

theorem mem_minimal_iff (q : Str) (cands : List LRow) (x : LRow) :
    x ∈ minimal q cands ↔ x ∈ cands ∧ score q x = minNat (cands.map (score q)) := by
  simp [minimal, List.mem_filter]

/-- every candidate of score 0 is among the rows `.loc[0]` may return -/
theorem mem_minimal_of_score_zero (q : Str) (cands : List LRow) (x : LRow) (hx : x ∈ cands)
    (h0 : score q x = 0) : x ∈ minimal q cands := by
  rw [mem_minimal_iff]
  refine ⟨hx, ?_⟩
  have := minNat_le_of_mem (cands.map (score q)) (score q x) (List.mem_map_of_mem hx)
  omega

/-- table-free part of `lookup_exact_name`: if the table contains a row `r` (passing the reference
filter), a lookup of `r.name` finds something, and whatever it may return is a row of the table whose
lower-cased `category_name` or `name` equals the lower-cased query -/
theorem lookup_spec_sound (rows : List Row) (r : Row) (hr : r ∈ rows) (ref : Option Str)
    (href : passesRef ref r) :
    lookup_spec (lrows rows) r.name.str ref ≠ [] ∧
    ∀ x ∈ lookup_spec (lrows rows) r.name.str ref, x.row ∈ rows ∧
      (lowerL x.row.cat.str = lowerL r.name.str ∨ lowerL x.row.name.str = lowerL r.name.str) := by
  obtain ⟨j, hj⟩ := mem_lrowsFrom_of_mem rows 0 r hr
  have hcand : LRow.of j r ∈ candidates (isInfix (lowerL r.name.str))
      (ref.map fun s => isInfix (lowerL s)) (lrows rows) := by
    simp only [candidates, List.mem_filter, Bool.and_eq_true]
    refine ⟨hj, ?_, ?_⟩
    · simp [nameMatch, LRow.of, isInfix_refl]
    · cases ref with
      | none => rfl
      | some s =>
        simp only [Option.map_some]
        rw [refMatch_idx _ j 0]
        exact href
  have hmin := mem_minimal_of_score_zero _ _ _ hcand (score_self j r)
  constructor
  · intro hnil
    unfold lookup_spec at hnil
    simp only at hnil
    rw [hnil] at hmin
    simp at hmin
  · intro x hx
    unfold lookup_spec at hx
    simp only at hx
    rw [mem_minimal_iff] at hx
    obtain ⟨hxc, hxs⟩ := hx
    have hle := minNat_le_of_mem _ _ (List.mem_map_of_mem (f := score (lowerL r.name.str)) hcand)
    rw [score_self] at hle
    have hx0 : score (lowerL r.name.str) x = 0 := by omega
    have hxrows : x ∈ lrows rows := (List.mem_filter.mp hxc).1
    obtain ⟨hrow, k, hk⟩ := of_mem_lrowsFrom rows 0 x hxrows
    refine ⟨hrow, ?_⟩
    have hcat : x.cat = lowerL x.row.cat.str := by rw [hk]; rfl
    have hname : x.name = lowerL x.row.name.str := by rw [hk]; rfl
    simp only [score] at hx0
    rcases Nat.min_eq_zero_iff.mp hx0 with h | h
    · left
      rw [← hcat]
      exact ((levDP_eq_zero_iff _ _).mp h).symm
    · right
      rw [← hname]
      exact ((levDP_eq_zero_iff _ _).mp h).symm

/-- conversely: a row of the table whose lower-cased `category_name` or `name` equals the lower-cased
query is one of the rows a lookup (without reference) may return -/
theorem mem_lookup_spec_of_key_eq (rows : List Row) (x : Row) (hx : x ∈ rows) (name : Str)
    (h : lowerL x.cat.str = lowerL name ∨ lowerL x.name.str = lowerL name) :
    ∃ lx ∈ lookup_spec (lrows rows) name none, lx.row = x := by
  obtain ⟨j, hj⟩ := mem_lrowsFrom_of_mem rows 0 x hx
  refine ⟨LRow.of j x, ?_, rfl⟩
  unfold lookup_spec
  simp only [Option.map_none]
  apply mem_minimal_of_score_zero
  · simp only [candidates, List.mem_filter, Bool.and_eq_true]
    refine ⟨hj, ?_, ?_⟩
    · rcases h with h | h
      · simp [nameMatch, LRow.of, h, isInfix_refl]
      · simp [nameMatch, LRow.of, h, isInfix_refl]
    · first | rfl | trivial
  · rcases h with h | h
    · simp [score, LRow.of, h, (levDP_eq_zero_iff _ _).mpr rfl]
    · simp [score, LRow.of, h, (levDP_eq_zero_iff _ _).mpr rfl]

/-! ### the case-insensitive key -/

theorem unpack_length : ∀ (len n : Nat), (unpack len n).length = len
  | 0, _ => rfl
  | len + 1, n => by simp [unpack, unpack_length len]

/-- `(B^len − 1)/(B − 1)` is the repunit `1 + B + … + B^(len−1)` -/
def repunit : Nat → Nat
  | 0 => 0
  | len + 1 => 1 + strBase * repunit len

theorem repunit_spec : ∀ len, (strBase - 1) * repunit len + 1 = strBase ^ len
  | 0 => by simp [repunit]
  | len + 1 => by
    have ih := repunit_spec len
    rw [Nat.pow_succ, ← ih]
    simp only [repunit, strBase] at *
    omega

theorem orMask_eq (len : Nat) : orMask len = 32 * repunit len := by
  unfold orMask
  congr 1
  have h := repunit_spec len
  have hpos : 0 < strBase - 1 := by decide
  apply Nat.div_eq_of_eq_mul_right hpos
  omega

theorem orMask_succ (len : Nat) : orMask (len + 1) = strBase * orMask len + 32 := by
  rw [orMask_eq, orMask_eq]
  simp only [repunit, strBase]
  omega

/-- OR acts lane-wise on `2^k·a + x` when the low parts fit into `k` bits -/
theorem lor_lanes (k a b x y : Nat) (hx : x < 2 ^ k) (hy : y < 2 ^ k) :
    (2 ^ k * a + x) ||| (2 ^ k * b + y) = 2 ^ k * (a ||| b) + (x ||| y) := by
  have hxy : x ||| y < 2 ^ k := Nat.or_lt_two_pow hx hy
  apply Nat.eq_of_testBit_eq
  intro j
  rw [Nat.testBit_or, Nat.testBit_two_pow_mul_add _ hx, Nat.testBit_two_pow_mul_add _ hy,
    Nat.testBit_two_pow_mul_add _ hxy]
  by_cases hj : j < k <;> simp [hj, Nat.testBit_or]

theorem lowerCode_or (c : Nat) : lowerCode c ||| 32 = c ||| 32 := by
  unfold lowerCode
  by_cases h : (65 ≤ c && c ≤ 90) = true
  · simp only [h, if_true]
    simp only [Bool.and_eq_true, decide_eq_true_eq] at h
    obtain ⟨h1, h2⟩ := h
    have : c = 65 ∨ c = 66 ∨ c = 67 ∨ c = 68 ∨ c = 69 ∨ c = 70 ∨ c = 71 ∨ c = 72 ∨ c = 73 ∨ c = 74 ∨
        c = 75 ∨ c = 76 ∨ c = 77 ∨ c = 78 ∨ c = 79 ∨ c = 80 ∨ c = 81 ∨ c = 82 ∨ c = 83 ∨ c = 84 ∨
        c = 85 ∨ c = 86 ∨ c = 87 ∨ c = 88 ∨ c = 89 ∨ c = 90 := by omega
    rcases this with h | h | h | h | h | h | h | h | h | h | h | h | h | h | h | h | h | h | h | h |
      h | h | h | h | h | h <;> subst h <;> decide
  · simp [h]

theorem strBase_eq : strBase = 2 ^ 21 := by decide

/-- equal lower-case forms ⇒ equal keys (for well-formed packed strings of the same length) -/
theorem key_congr_aux : ∀ (len a b : Nat), a < strBase ^ len → b < strBase ^ len →
    lowerL (unpack len a) = lowerL (unpack len b) → a ||| orMask len = b ||| orMask len
  | 0, a, b, ha, hb, _ => by
    simp only [Nat.pow_zero, Nat.lt_one_iff] at ha hb
    rw [ha, hb]
  | len + 1, a, b, ha, hb, h => by
    simp only [unpack, lowerL, List.map_cons, List.cons.injEq] at h
    obtain ⟨hhead, htail⟩ := h
    have hB : 0 < strBase := by decide
    have ha' : a / strBase < strBase ^ len := by
      rw [Nat.div_lt_iff_lt_mul hB]; rwa [Nat.pow_succ] at ha
    have hb' : b / strBase < strBase ^ len := by
      rw [Nat.div_lt_iff_lt_mul hB]; rwa [Nat.pow_succ] at hb
    have ih := key_congr_aux len (a / strBase) (b / strBase) ha' hb' htail
    have hx : a % strBase < 2 ^ 21 := by rw [← strBase_eq]; exact Nat.mod_lt _ hB
    have hy : b % strBase < 2 ^ 21 := by rw [← strBase_eq]; exact Nat.mod_lt _ hB
    have h32 : (32 : Nat) < 2 ^ 21 := by decide
    have hor : a % strBase ||| 32 = b % strBase ||| 32 := by
      rw [← lowerCode_or (a % strBase), ← lowerCode_or (b % strBase), hhead]
    have ea : a = 2 ^ 21 * (a / strBase) + a % strBase := by
      rw [← strBase_eq]; exact (Nat.div_add_mod a strBase).symm
    have eb : b = 2 ^ 21 * (b / strBase) + b % strBase := by
      rw [← strBase_eq]; exact (Nat.div_add_mod b strBase).symm
    have em : orMask (len + 1) = 2 ^ 21 * orMask len + 32 := by
      rw [orMask_succ, strBase_eq]
    have La := lor_lanes 21 (a / strBase) (orMask len) (a % strBase) 32 hx h32
    have Lb := lor_lanes 21 (b / strBase) (orMask len) (b % strBase) 32 hy h32
    rw [← ea] at La
    rw [← eb] at Lb
    rw [em, La, Lb, ih, hor]

theorem key_congr (p q : PStr) (hp : p.wf = true) (hq : q.wf = true)
    (h : lowerL p.str = lowerL q.str) : p.key = q.key := by
  have hlen : p.len = q.len := by
    have := congrArg List.length h
    simpa [lowerL, PStr.str, unpack_length] using this
  unfold PStr.wf at hp hq
  simp only [decide_eq_true_eq] at hp hq
  unfold PStr.key
  unfold PStr.str at h
  rw [← hlen] at hq h ⊢
  exact key_congr_aux p.len p.code q.code hp hq h

theorem PStr.eq_of_beq {p q : PStr} (h : p.beq q = true) : p = q := by
  unfold PStr.beq at h
  simp only [Bool.and_eq_true, beq_iff_eq] at h
  cases p; cases q
  simp only [PStr.mk.injEq]
  exact h

theorem KTree.findF_eq (t : KTree) (q : Nat) : t.findF q = t.find q := by
  cases q <;> rfl

/-- soundness of the certificate: if every row passes `rowCheck`, then a row whose name is not on the
exception list shares its lower-cased name only with rows of exactly that name -/
theorem unambiguous_of_rowCheck (t : KTree) (amb : List PStr) (rows : List Row)
    (hall : ∀ r ∈ rows, rowCheck t amb r = true) :
    ∀ r ∈ rows, ∀ x ∈ rows, r.name ∉ amb →
      (lowerL x.cat.str = lowerL r.name.str ∨ lowerL x.name.str = lowerL r.name.str) →
      x.name = r.name := by
  intro r hr x hx hamb hkey
  have cr := hall r hr
  have cx := hall x hx
  simp only [rowCheck, Bool.and_eq_true, KTree.findF_eq] at cr cx
  obtain ⟨⟨⟨hrn, _⟩, hr1⟩, _⟩ := cr
  obtain ⟨⟨⟨hxn, hxc⟩, hx1⟩, hx2⟩ := cx
  -- verdict at r's name key
  have hv : t.find r.name.key = some (.uniq r.name) := by
    revert hr1
    cases hf : t.find r.name.key with
    | none => simp
    | some v =>
      cases v with
      | uniq nm =>
        intro h
        have := PStr.eq_of_beq h
        rw [this]
      | free => simp
      | amb =>
        intro h
        simp only [List.any_eq_true] at h
        obtain ⟨a, ha, hab⟩ := h
        have := PStr.eq_of_beq hab
        exact absurd (this ▸ ha) hamb
  rcases hkey with h | h
  · have hk : x.cat.key = r.name.key := key_congr _ _ hxc hrn h
    rw [hk, hv] at hx2
    exact (PStr.eq_of_beq hx2).symm
  · have hk : x.name.key = r.name.key := key_congr _ _ hxn hrn h
    rw [hk, hv] at hx1
    exact (PStr.eq_of_beq hx1).symm

end Model.Mat
