import OptiModel.Num
import Mathlib.Analysis.SpecialFunctions.Sqrt
import Mathlib.Analysis.SpecialFunctions.Trigonometric.Inverse
import Mathlib.Analysis.SpecialFunctions.Trigonometric.Arctan
import Mathlib.Analysis.SpecialFunctions.Exp
/-! The carrier ℝ (noncomputable; proof files only) and the `rfl` bridge lemmas that turn the
scoped `Num` notation into Mathlib's.  Every proof starts with `simp only [defs, num_real]`.
`Num.inf` has no meaning over ℝ (junk value 0); theorems guard the branches that produce it. -/

open Classical in
noncomputable instance : Num ℝ where
  add := (· + ·)
  sub := (· - ·)
  mul := (· * ·)
  div := (· / ·)
  neg := (- ·)
  zero := 0
  one := 1
  two := 2
  ofRat a b := (a:ℝ)/(b:ℝ)
  inf := 0
  sqrt := Real.sqrt
  abs := fun x => |x|
  lt a b := decide (a < b)
  le a b := decide (a ≤ b)
  sin := Real.sin
  cos := Real.cos
  tan := Real.tan
  asin := Real.arcsin
  acos := Real.arccos
  exp := Real.exp
  atan2 := fun y x => Real.arctan (y / x)   -- only the quadrant x > 0 is ever used in theorems
  pi := Real.pi

namespace NumReal
theorem add_eq (a b : ℝ) : @HAdd.hAdd ℝ ℝ ℝ (@instHAdd ℝ Num.instAdd) a b = a + b := rfl
theorem sub_eq (a b : ℝ) : @HSub.hSub ℝ ℝ ℝ (@instHSub ℝ Num.instSub) a b = a - b := rfl
theorem mul_eq (a b : ℝ) : @HMul.hMul ℝ ℝ ℝ (@instHMul ℝ Num.instMul) a b = a * b := rfl
theorem div_eq (a b : ℝ) : @HDiv.hDiv ℝ ℝ ℝ (@instHDiv ℝ Num.instDiv) a b = a / b := rfl
theorem neg_eq (a : ℝ) : @Neg.neg ℝ Num.instNeg a = -a := rfl
theorem zero_eq : @OfNat.ofNat ℝ 0 Num.inst0 = 0 := rfl
theorem one_eq : @OfNat.ofNat ℝ 1 Num.inst1 = 1 := rfl
theorem two_eq : @OfNat.ofNat ℝ 2 Num.inst2 = 2 := rfl
theorem fadd_eq (a b : ℝ) : Num.add a b = a + b := rfl
theorem fsub_eq (a b : ℝ) : Num.sub a b = a - b := rfl
theorem fmul_eq (a b : ℝ) : Num.mul a b = a * b := rfl
theorem fdiv_eq (a b : ℝ) : Num.div a b = a / b := rfl
theorem fneg_eq (a : ℝ) : Num.neg a = -a := rfl
theorem fzero_eq : (Num.zero : ℝ) = 0 := rfl
theorem fone_eq : (Num.one : ℝ) = 1 := rfl
theorem ftwo_eq : (Num.two : ℝ) = 2 := rfl
theorem ofRat_eq (a b : ℕ) : (Num.ofRat a b : ℝ) = (a:ℝ)/(b:ℝ) := rfl
theorem sqrt_eq (a : ℝ) : Num.sqrt a = Real.sqrt a := rfl
theorem abs_eq (a : ℝ) : Num.abs a = |a| := rfl
theorem sin_eq (a : ℝ) : Num.sin a = Real.sin a := rfl
theorem cos_eq (a : ℝ) : Num.cos a = Real.cos a := rfl
theorem tan_eq (a : ℝ) : Num.tan a = Real.tan a := rfl
theorem asin_eq (a : ℝ) : Num.asin a = Real.arcsin a := rfl
theorem acos_eq (a : ℝ) : Num.acos a = Real.arccos a := rfl
theorem exp_eq (a : ℝ) : Num.exp a = Real.exp a := rfl
theorem pi_eq : (Num.pi : ℝ) = Real.pi := rfl
theorem lt_eq (a b : ℝ) : (Num.lt a b = true) = (a < b) := by
  show (decide (a < b) = true) = (a < b); simp
theorem le_eq (a b : ℝ) : (Num.le a b = true) = (a ≤ b) := by
  show (decide (a ≤ b) = true) = (a ≤ b); simp
theorem lt_decide (a b : ℝ) : Num.lt a b = @decide (a < b) (Classical.propDecidable _) := rfl
theorem le_decide (a b : ℝ) : Num.le a b = @decide (a ≤ b) (Classical.propDecidable _) := rfl
theorem isZero_eq (a : ℝ) : (Num.isZero a = true) = (a = 0) := by
  unfold Num.isZero
  rw [Bool.and_eq_true, le_eq, le_eq]
  exact propext ⟨fun h => le_antisymm h.1 h.2, fun h => ⟨h.le, h.ge⟩⟩
theorem isNaN_false (a : ℝ) : (!(Num.le a a)) = false := by
  rw [le_decide]; simp
end NumReal

/-- the bridge simp set -/
macro "num_real" : tactic => `(tactic|
  simp only [NumReal.add_eq, NumReal.sub_eq, NumReal.mul_eq, NumReal.div_eq, NumReal.neg_eq,
    NumReal.zero_eq, NumReal.one_eq, NumReal.two_eq, NumReal.fadd_eq, NumReal.fsub_eq, NumReal.fmul_eq,
    NumReal.fdiv_eq, NumReal.fneg_eq, NumReal.fzero_eq, NumReal.fone_eq, NumReal.ftwo_eq, NumReal.ofRat_eq,
    NumReal.sqrt_eq, NumReal.abs_eq, NumReal.sin_eq, NumReal.cos_eq, NumReal.tan_eq, NumReal.asin_eq,
    NumReal.acos_eq, NumReal.exp_eq, NumReal.pi_eq, NumReal.lt_eq, NumReal.le_eq, NumReal.isZero_eq] at *)
