import OptiModel.Model.Optim
import OptiModel.Proofs.NumReal
import Mathlib.Tactic.Ring
import Mathlib.Tactic.FieldSimp
import Mathlib.Tactic.Linarith
import Mathlib.Tactic.Positivity
/-! Helper lemmas for `Props/C14.lean`: list look-ups through `modifyAt`, read-back of every raw
setter of `Model/Optim.lean` on the prescription, `sumList = List.sum`. -/
namespace OptimProofs
open Model Model.Optim

/-! ### lists -/

theorem sumList_acc (l : List ℝ) (a : ℝ) : l.foldl (fun x y => x + y) a = a + l.sum := by
  induction l generalizing a with
  | nil => simp
  | cons b l ih => simp only [List.foldl_cons, List.sum_cons, ih]; ring

theorem sumList_eq_sum (l : List ℝ) : sumList l = l.sum := by
  have h := sumList_acc l 0
  simp only [zero_add] at h
  exact h

theorem getElem?_modifyAt {β : Type} (l : List β) (k j : Nat) (f : β → β) :
    (modifyAt l k f)[j]? = (l[j]?).map fun x => if j = k then f x else x := by
  simp [modifyAt, List.getElem?_mapIdx]

theorem length_modifyAt {β : Type} (l : List β) (k : Nat) (f : β → β) :
    (modifyAt l k f).length = l.length := by simp [modifyAt]

theorem getD_map_modifyAt {β γ : Type} (l : List β) (k : Nat) (f : β → β) (g : β → γ) (d : γ)
    (hk : k < l.length) : ((modifyAt l k f).map g).getD k d = g (f l[k]) := by
  simp [List.getD_eq_getElem?_getD, getElem?_modifyAt, List.getElem?_eq_getElem hk]

theorem getD_map_modifyAt_ne {β γ : Type} (l : List β) (k j : Nat) (f : β → β) (g : β → γ) (d : γ)
    (hjk : j ≠ k) : ((modifyAt l k f).map g).getD j d = (l.map g).getD j d := by
  simp only [List.getD_eq_getElem?_getD, List.getElem?_map, getElem?_modifyAt, hjk, if_false]
  cases l[j]? <;> simp

theorem modifyAt_modifyAt {β : Type} (l : List β) (k : Nat) (f g : β → β) :
    modifyAt (modifyAt l k g) k f = modifyAt l k (f ∘ g) := by
  apply List.ext_getElem?
  intro j
  simp only [getElem?_modifyAt, Option.map_map]
  congr 1
  funext x
  by_cases h : j = k <;> simp [h]


theorem getD_modifyAt {β : Type} (l : List β) (k : Nat) (f : β → β) (d : β) (hk : k < l.length) :
    (modifyAt l k f).getD k d = f l[k] := by
  simp [List.getD_eq_getElem?_getD, getElem?_modifyAt, List.getElem?_eq_getElem hk]

/-! ### read-back of the raw setters -/

variable (L : Lens ℝ) (k : Nat) (y x : ℝ)

theorem rb_radius (hk : k < L.presc.surfs.length) :
    VKind.rawGet (VKind.rawSet L k y .radius) k .radius = y := by
  simp only [VKind.rawGet, VKind.rawSet, setRadius]
  rw [getD_map_modifyAt _ _ _ _ _ hk]
  split <;> rfl

theorem rb_conic (hk : k < L.presc.surfs.length) :
    VKind.rawGet (VKind.rawSet L k y .conic) k .conic = y := by
  simp only [VKind.rawGet, VKind.rawSet, setConic]
  rw [getD_map_modifyAt _ _ _ _ _ hk]

theorem rb_tilt (x : Bool) (hk : k < L.presc.surfs.length) :
    VKind.rawGet (VKind.rawSet L k y (.tilt x)) k (.tilt x) = y := by
  simp only [VKind.rawGet, VKind.rawSet]
  rw [getD_map_modifyAt _ _ _ _ _ hk]
  cases x <;> rfl

theorem rb_decenter (x : Bool) (hk : k < L.presc.surfs.length) :
    VKind.rawGet (VKind.rawSet L k y (.decenter x)) k (.decenter x) = y := by
  simp only [VKind.rawGet, VKind.rawSet]
  rw [getD_map_modifyAt _ _ _ _ _ hk]
  cases x <;> rfl

theorem rb_index (hk : k < L.presc.surfs.length) :
    VKind.rawGet (VKind.rawSet L k y .index) k .index = y := by
  simp only [VKind.rawGet, VKind.rawSet, setIndex]
  rw [getD_map_modifyAt_ne _ _ _ _ _ _ (by omega : k ≠ k + 1), getD_map_modifyAt _ _ _ _ _ hk]
  simp [matN, List.getD_eq_getElem?_getD]

theorem rb_asphere (i : Nat) (hk : k < L.presc.surfs.length) (hi : i < (L.presc.surfs[k]).coeffs.length) :
    VKind.rawGet (VKind.rawSet L k y (.asphere i)) k (.asphere i) = y := by
  simp only [VKind.rawGet, VKind.rawSet, setCoeff]
  rw [getD_map_modifyAt _ _ _ _ _ hk]
  exact getD_modifyAt _ _ _ _ hi

theorem matGet_matSet (c : List (List ℝ)) (i j : Nat) : matGet (matSet c i j y) i j = y := by
  have hi : i < max c.length (i + 1) := by omega
  have hj : j < max (c.headD []).length (j + 1) := by omega
  simp [matGet, matSet, List.getD_eq_getElem?_getD]

theorem rb_poly (i j : Nat) (hk : k < L.poly.length) :
    VKind.rawGet (VKind.rawSet L k y (.poly i j)) k (.poly i j) = y := by
  simp only [VKind.rawGet, VKind.rawSet]
  rw [getD_modifyAt _ _ _ _ hk]
  exact matGet_matSet _ _ _ _

theorem rb_cheb (i j : Nat) (hk : k < L.poly.length) :
    VKind.rawGet (VKind.rawSet L k y (.cheb i j)) k (.cheb i j) = y := by
  simp only [VKind.rawGet, VKind.rawSet]
  rw [getD_modifyAt _ _ _ _ hk]
  exact matGet_matSet _ _ _ _


/-! ### `set_thickness` on the vector of vertex positions -/

/-- `positions[k+1:] += d` -/
def bump (pos : List ℝ) (k : Nat) (d : ℝ) : List ℝ :=
  pos.mapIdx fun i z => if k + 1 ≤ i then z + d else z

theorem setThicknessPos_eq (pos : List ℝ) (v : ℝ) (k : Nat) :
    setThicknessPos pos v k =
      (bump pos k (v - pos.getD (k+1) 0 + pos.getD k 0)).map fun z =>
        z - (bump pos k (v - pos.getD (k+1) 0 + pos.getD k 0)).getD 1 0 := rfl

theorem getD_bump (pos : List ℝ) (k i : Nat) (d : ℝ) (hi : i < pos.length) :
    (bump pos k d).getD i 0 = if k + 1 ≤ i then pos.getD i 0 + d else pos.getD i 0 := by
  simp [bump, List.getD_eq_getElem?_getD, List.getElem?_mapIdx, hi]

theorem getD_map_sub (l : List ℝ) (c : ℝ) (i : Nat) (h : i < l.length) :
    (l.map fun z => z - c).getD i 0 = l.getD i 0 - c := by
  simp [List.getD_eq_getElem?_getD, List.getElem?_eq_getElem h]

theorem getD_setThicknessPos (pos : List ℝ) (v : ℝ) (k i : Nat) (hi : i < pos.length) :
    (setThicknessPos pos v k).getD i 0 =
      (bump pos k (v - pos.getD (k+1) 0 + pos.getD k 0)).getD i 0
        - (bump pos k (v - pos.getD (k+1) 0 + pos.getD k 0)).getD 1 0 := by
  rw [setThicknessPos_eq]
  have hl : i < (bump pos k (v - pos.getD (k+1) 0 + pos.getD k 0)).length := by simp [bump, hi]
  exact getD_map_sub _ _ _ hl

theorem length_setThicknessPos (pos : List ℝ) (v : ℝ) (k : Nat) :
    (setThicknessPos pos v k).length = pos.length := by
  simp [setThicknessPos_eq, bump]

/-- thickness `k` reads back, every other thickness is kept -/
theorem thick_setThicknessPos (pos : List ℝ) (v : ℝ) (k j : Nat) (hk : k + 1 < pos.length)
    (hj : j + 1 < pos.length) :
    (setThicknessPos pos v k).getD (j+1) 0 - (setThicknessPos pos v k).getD j 0
      = if j = k then v else pos.getD (j+1) 0 - pos.getD j 0 := by
  set d := v - pos.getD (k+1) 0 + pos.getD k 0 with hd
  have e1 := getD_setThicknessPos pos v k (j+1) hj
  have e0 := getD_setThicknessPos pos v k j (by omega)
  have b1 := getD_bump pos k (j+1) d hj
  have b0 := getD_bump pos k j d (by omega)
  rw [e1, e0, b1, b0]
  by_cases h : j = k
  · subst h
    have h1 : ¬ (j + 1 ≤ j) := by omega
    simp only [le_refl, if_true, h1, if_false, hd]; ring
  · by_cases h1 : k + 1 ≤ j
    · have h2 : k + 1 ≤ j + 1 := by omega
      simp only [h, h1, h2, if_true, if_false]; ring
    · have h2 : ¬ (k + 1 ≤ j + 1) := by omega
      simp only [h, h1, h2, if_false]; ring

/-- positions after `set_thickness` are the transformed position vector -/
theorem positions_setThickness (P : Presc ℝ) (v : ℝ) (k : Nat) :
    positions (setThickness P v k) = setThicknessPos (positions P) v k := by
  apply List.ext_getElem?
  intro i
  simp only [positions, setThickness, assignZ, List.getElem?_map, List.getElem?_mapIdx]
  by_cases hi : i < P.surfs.length
  · have hl : i < (setThicknessPos (List.map (fun x => x.z) P.surfs) v k).length := by
      rw [length_setThicknessPos]; simpa using hi
    simp [List.getElem?_eq_getElem hi, List.getD_eq_getElem?_getD, List.getElem?_eq_getElem hl]
  · have hl : ¬ i < (setThicknessPos (List.map (fun x => x.z) P.surfs) v k).length := by
      rw [length_setThicknessPos]; simpa using hi
    simp [List.getElem?_eq_none (Nat.le_of_not_lt hi), List.getElem?_eq_none (Nat.le_of_not_lt hl)]

theorem rb_thickness (hk : k + 1 < L.presc.surfs.length) :
    VKind.rawGet (VKind.rawSet L k y .thickness) k .thickness = y := by
  simp only [VKind.rawGet, VKind.rawSet, thickness, posAt, positions_setThickness]
  have hl : k + 1 < (positions L.presc).length := by simpa [positions] using hk
  have := thick_setThicknessPos (positions L.presc) y k k hl hl
  simp only [if_true] at this
  exact this


/-! ### setting twice = setting once (all types except the index, which allocates a new medium) -/

theorem ss_radius : VKind.rawSet (VKind.rawSet L k y .radius) k x .radius = VKind.rawSet L k x .radius := by
  simp only [VKind.rawSet, setRadius, modifyAt_modifyAt]
  congr 3
  funext s
  cases hg : s.gk <;> simp [Function.comp, hg]

theorem ss_conic : VKind.rawSet (VKind.rawSet L k y .conic) k x .conic = VKind.rawSet L k x .conic := by
  simp only [VKind.rawSet, setConic, modifyAt_modifyAt]
  rfl

theorem ss_tilt (b : Bool) :
    VKind.rawSet (VKind.rawSet L k y (.tilt b)) k x (.tilt b) = VKind.rawSet L k x (.tilt b) := by
  simp only [VKind.rawSet, modifyAt_modifyAt]
  cases b <;> rfl

theorem ss_decenter (b : Bool) :
    VKind.rawSet (VKind.rawSet L k y (.decenter b)) k x (.decenter b) = VKind.rawSet L k x (.decenter b) := by
  simp only [VKind.rawSet, modifyAt_modifyAt]
  cases b <;> rfl

theorem ss_asphere (i : Nat) :
    VKind.rawSet (VKind.rawSet L k y (.asphere i)) k x (.asphere i) = VKind.rawSet L k x (.asphere i) := by
  simp only [VKind.rawSet, setCoeff, modifyAt_modifyAt]
  congr 3
  funext s
  simp only [Function.comp, modifyAt_modifyAt]
  rfl


theorem list_ext_getD (a b : List ℝ) (hl : a.length = b.length)
    (h : ∀ i, i < a.length → a.getD i 0 = b.getD i 0) : a = b := by
  apply List.ext_getElem hl
  intro i h1 h2
  have := h i h1
  simpa [List.getD_eq_getElem?_getD, List.getElem?_eq_getElem h1, List.getElem?_eq_getElem h2] using this

theorem getD_setThicknessPos' (p : List ℝ) (v : ℝ) (k j : Nat) (hk : k + 1 < p.length) (hj : j < p.length) :
    (setThicknessPos p v k).getD j 0 =
      (if k + 1 ≤ j then p.getD j 0 + (v - p.getD (k+1) 0 + p.getD k 0) else p.getD j 0)
      - (if k + 1 ≤ 1 then p.getD 1 0 + (v - p.getD (k+1) 0 + p.getD k 0) else p.getD 1 0) := by
  rw [getD_setThicknessPos _ _ _ _ hj, getD_bump _ _ _ _ hj, getD_bump _ _ 1 _ (by omega)]

theorem setThicknessPos_twice (p : List ℝ) (y x : ℝ) (k : Nat) (hk : k + 1 < p.length) :
    setThicknessPos (setThicknessPos p y k) x k = setThicknessPos p x k := by
  have hlq : (setThicknessPos p y k).length = p.length := length_setThicknessPos _ _ _
  apply list_ext_getD
  · rw [length_setThicknessPos, length_setThicknessPos, length_setThicknessPos]
  · intro i hi
    rw [length_setThicknessPos, hlq] at hi
    have hkq : k + 1 < (setThicknessPos p y k).length := by rw [hlq]; exact hk
    rw [getD_setThicknessPos' _ x k i hkq (by rw [hlq]; exact hi),
        getD_setThicknessPos' p x k i hk hi,
        getD_setThicknessPos' p y k i hk hi,
        getD_setThicknessPos' p y k 1 hk (by omega),
        getD_setThicknessPos' p y k (k+1) hk hk,
        getD_setThicknessPos' p y k k hk (by omega)]
    have hkk : ¬ (k + 1 ≤ k) := by omega
    simp only [hkk, if_false, le_refl, if_true]
    by_cases h1 : k + 1 ≤ i <;> by_cases h2 : k + 1 ≤ 1 <;> simp only [h1, h2, if_true, if_false] <;> ring

theorem assignZ_assignZ (ss : List (SRec ℝ)) (p q : List ℝ) (hq : q.length = ss.length) :
    assignZ (assignZ ss p) q = assignZ ss q := by
  apply List.ext_getElem?
  intro i
  simp only [assignZ, List.getElem?_mapIdx, Option.map_map]
  by_cases hi : i < ss.length
  · have hiq : i < q.length := by omega
    simp [List.getElem?_eq_getElem hi, List.getD_eq_getElem?_getD, List.getElem?_eq_getElem hiq]
  · simp [List.getElem?_eq_none (Nat.le_of_not_lt hi)]

theorem setThickness_twice (P : Presc ℝ) (y x : ℝ) (k : Nat) (hk : k + 1 < P.surfs.length) :
    setThickness (setThickness P y k) x k = setThickness P x k := by
  have hp : k + 1 < (positions P).length := by simpa [positions] using hk
  have h1 : positions (setThickness P y k) = setThicknessPos (positions P) y k := positions_setThickness _ _ _
  unfold setThickness at h1 ⊢
  simp only [h1, setThicknessPos_twice _ _ _ _ hp]
  rw [assignZ_assignZ]
  rw [length_setThicknessPos]; simp [positions]

theorem ss_thickness (hk : k + 1 < L.presc.surfs.length) :
    VKind.rawSet (VKind.rawSet L k y .thickness) k x .thickness = VKind.rawSet L k x .thickness := by
  simp only [VKind.rawSet, setThickness_twice _ _ _ _ hk]

theorem length_matSet (c : List (List ℝ)) (i j : Nat) (v : ℝ) :
    (matSet c i j v).length = max c.length (i + 1) := by simp [matSet]

theorem headD_matSet (c : List (List ℝ)) (i j : Nat) (v : ℝ) :
    ((matSet c i j v).headD []).length = max (c.headD []).length (j + 1) := by
  have h : max c.length (i + 1) = (max c.length (i + 1) - 1) + 1 := by omega
  unfold matSet
  simp only
  rw [h, List.range_succ_eq_map]
  simp

theorem matGet_matSet' (c : List (List ℝ)) (i j a b : Nat) (v : ℝ) (ha : a < max c.length (i + 1))
    (hb : b < max (c.headD []).length (j + 1)) :
    matGet (matSet c i j v) a b = if a = i ∧ b = j then v else matGet c a b := by
  have hb' : b < max (c.head?.getD []).length (j + 1) := by
    simpa [List.headD_eq_head?_getD] using hb
  simp [matGet, matSet, List.getD_eq_getElem?_getD, ha, List.getElem?_range hb']

theorem matSet_twice (c : List (List ℝ)) (i j : Nat) (y x : ℝ) :
    matSet (matSet c i j y) i j x = matSet c i j x := by
  unfold matSet
  simp only
  have e1 := length_matSet c i j y
  have e2 := headD_matSet c i j y
  unfold matSet at e1 e2
  simp only at e1 e2
  rw [e1, e2]
  have m1 : max (max c.length (i + 1)) (i + 1) = max c.length (i + 1) := by omega
  have m2 : max (max (c.headD []).length (j + 1)) (j + 1) = max (c.headD []).length (j + 1) := by omega
  rw [m1, m2]
  apply List.map_congr_left
  intro a ha
  apply List.map_congr_left
  intro b hb
  by_cases h : a = i ∧ b = j
  · simp [h]
  · simp only [h, if_false]
    have := matGet_matSet' c i j a b y (List.mem_range.1 ha) (List.mem_range.1 hb)
    unfold matSet at this
    simp only [h, if_false] at this
    exact this

theorem ss_poly (i j : Nat) :
    VKind.rawSet (VKind.rawSet L k y (.poly i j)) k x (.poly i j) = VKind.rawSet L k x (.poly i j) := by
  simp only [VKind.rawSet, modifyAt_modifyAt]
  congr 2
  funext c
  exact matSet_twice _ _ _ _ _

theorem ss_cheb (i j : Nat) :
    VKind.rawSet (VKind.rawSet L k y (.cheb i j)) k x (.cheb i j) = VKind.rawSet L k x (.cheb i j) := by
  simp only [VKind.rawSet, modifyAt_modifyAt]
  congr 2
  funext c
  exact matSet_twice _ _ _ _ _


/-! ### what the setters keep -/

theorem rawSet_surfs_length (K : VKind) :
    (VKind.rawSet L k y K).presc.surfs.length = L.presc.surfs.length := by
  cases K <;>
    simp [VKind.rawSet, setRadius, setConic, setThickness, setIndex, setCoeff, length_modifyAt, assignZ]

theorem rawSet_poly_length (K : VKind) : (VKind.rawSet L k y K).poly.length = L.poly.length := by
  cases K <;> simp [VKind.rawSet, length_modifyAt]

theorem rawSet_pickups (K : VKind) : (VKind.rawSet L k y K).presc.pickups = L.presc.pickups := by
  cases K <;> rfl

theorem rawSet_solves (K : VKind) : (VKind.rawSet L k y K).presc.solves = L.presc.solves := by
  cases K <;> rfl

theorem coeffs_in_range (i : Nat) (h : i < ((L.presc.surfs.map (·.coeffs)).getD k []).length) :
    ∃ hk : k < L.presc.surfs.length, i < (L.presc.surfs[k]).coeffs.length := by
  have hk : k < L.presc.surfs.length := by
    by_contra hn
    simp [List.getD_eq_getElem?_getD, List.getElem?_eq_none (Nat.le_of_not_lt hn)] at h
  refine ⟨hk, ?_⟩
  simpa [List.getD_eq_getElem?_getD, List.getElem?_eq_getElem hk] using h

theorem rawSet_coeffs_length (i : Nat) (hk : k < L.presc.surfs.length) :
    (((VKind.rawSet L k y (.asphere i)).presc.surfs.map (·.coeffs)).getD k []).length
      = ((L.presc.surfs.map (·.coeffs)).getD k []).length := by
  simp only [VKind.rawSet, setCoeff]
  rw [getD_map_modifyAt _ _ _ _ _ hk]
  simp [length_modifyAt, List.getD_eq_getElem?_getD, List.getElem?_eq_getElem hk]

end OptimProofs
