import OptiModel.Props.C14
import OptiModel.Proofs.TolerPresc
/-!
# C14, §6 extended: the protocol hypotheses `LensHyp` for *several* variables

`Props/C14.lean` proves `C14.LensHyp` (what `optimize_leaves_solution`, `undo_restores`,
`optimise_undo_sequences`, `not_worse_of_minimising_oracle`, `within_bounds_of_bounded_oracle` need
from the lens) only for problems with **one** variable.  This file proves it

* abstractly (`frame_lensHyp`): for any lens type whose variables obey the read/write laws
  `TolerAbs.Frame.Lawful` (C15), any list of variables with pairwise distinct targets,
  `scale ∘ inverse_scale = id`, an `update_optics` that is the identity on the states that occur;
  the view is the observable lens (`frameView`: everything no variable writes + every variable's
  reading);
* for the concrete optimisation problem `Model.Optim.lensProblem vars ops` on `Model.Optim.Lens ℝ`
  (`multi_variable_hyp`): any number of radius (on curved surfaces) / conic / thickness / tilt /
  decentre / asphere-coefficient variables with distinct targets, scaled or not, on a lens without
  pickups and solves.  Index, polynomial and Chebyshev variables are not covered here (the first has
  its one-variable theorem `C14.index_variable_hyp`).
-/
set_option linter.unusedSectionVars false
set_option linter.unusedVariables false
namespace C14Multi
open TolerAbs

section Abstract
variable {σ ι α ρ : Type} [DecidableEq ι] [Num α]

/-- a `Variable` as a handle of the optimisation protocol -/
def handleOf (S : Model.Sys σ ι α) (v : Model.TVar ι α) : Model.Optim.Handle σ α :=
  ⟨v.value S, v.update S⟩

/-- the writes `for idvar, var in enumerate(variables): var.update(x[idvar])` performs -/
def writes (S : Model.Sys σ ι α) : List (Model.TVar ι α × α) → σ → σ
  | [], s => s
  | p :: l, s => writes S l (S.set s p.1.idx (p.1.un p.2))

def keys (l : List (Model.TVar ι α × α)) : List ι := l.map fun p => p.1.idx

theorem setAll_eq_writes (S : Model.Sys σ ι α) (vars : List (Model.TVar ι α)) (x : List α) (s : σ) :
    Model.Optim.setAll (vars.map (handleOf S)) x s = writes S (vars.zip x) s := by
  induction vars generalizing x s with
  | nil => simp [Model.Optim.setAll, writes]
  | cons v vs ih =>
    cases x with
    | nil => simp [Model.Optim.setAll, writes]
    | cons a xs =>
      have := ih xs (S.set s v.idx (v.un a))
      simp only [Model.Optim.setAll, List.map_cons, List.zip_cons_cons, List.foldl_cons, writes] at this ⊢
      exact this

/-- the observable lens: everything no variable writes, and what every existing variable reads -/
def frameView (F : Frame σ ι α ρ) (s : σ) : ρ × ({j // F.ok j} → α) :=
  (F.rest s, fun j => F.S.get s j.1)

theorem frameView_eq_iff (F : Frame σ ι α ρ) (s t : σ) :
    frameView F s = frameView F t ↔ F.rest s = F.rest t ∧ ∀ j, F.ok j → F.S.get s j = F.S.get t j := by
  constructor
  · intro h
    exact ⟨congrArg Prod.fst h, fun j hj => congrFun (congrArg Prod.snd h) ⟨j, hj⟩⟩
  · rintro ⟨h1, h2⟩
    exact Prod.ext h1 (funext fun j => h2 j.1 j.2)

variable {F : Frame σ ι α ρ}

theorem writes_inv (L : F.Lawful) : ∀ (l : List (Model.TVar ι α × α)) (s : σ), F.inv s →
    (∀ p ∈ l, F.ok p.1.idx) → F.inv (writes F.S l s)
  | [], _, h, _ => h
  | p :: l, s, h, hk =>
    writes_inv L l _ (L.inv_set s _ _ h (hk p (by simp))) (fun q hq => hk q (by simp [hq]))

theorem writes_rest (L : F.Lawful) : ∀ (l : List (Model.TVar ι α × α)) (s : σ), F.inv s →
    (∀ p ∈ l, F.ok p.1.idx) → F.rest (writes F.S l s) = F.rest s
  | [], _, _, _ => rfl
  | p :: l, s, h, hk => by
    have hp := hk p (by simp)
    rw [writes, writes_rest L l _ (L.inv_set s _ _ h hp) (fun q hq => hk q (by simp [hq])),
      L.rest_set s _ _ h hp]

/-- a variable that is not written reads what it read before -/
theorem writes_get_notin (L : F.Lawful) : ∀ (l : List (Model.TVar ι α × α)) (s : σ), F.inv s →
    (∀ p ∈ l, F.ok p.1.idx) → ∀ j, F.ok j → j ∉ keys l → F.S.get (writes F.S l s) j = F.S.get s j
  | [], _, _, _, _, _, _ => rfl
  | p :: l, s, h, hk, j, hj, hn => by
    have hp := hk p (by simp)
    have hne : j ≠ p.1.idx := fun e => hn (by simp [keys, e])
    have hn' : j ∉ keys l := fun e => hn (by simp only [keys, List.map_cons, List.mem_cons]; exact Or.inr e)
    rw [writes, writes_get_notin L l _ (L.inv_set s _ _ h hp) (fun q hq => hk q (by simp [hq])) j hj hn',
      L.get_set s _ _ j h hp hj, if_neg hne]

/-- with distinct targets every written variable reads what was written -/
theorem writes_get_mem (L : F.Lawful) : ∀ (l : List (Model.TVar ι α × α)) (s : σ), F.inv s →
    (∀ p ∈ l, F.ok p.1.idx) → (keys l).Nodup → ∀ p ∈ l, F.S.get (writes F.S l s) p.1.idx = p.1.un p.2
  | [], _, _, _, _, p, hp => by simp at hp
  | q :: l, s, h, hk, hnd, p, hp => by
    have hq := hk q (by simp)
    have hk' : ∀ r ∈ l, F.ok r.1.idx := fun r hr => hk r (by simp [hr])
    have hs' := L.inv_set s _ (q.1.un q.2) h hq
    simp only [keys, List.map_cons, List.nodup_cons] at hnd
    rcases List.mem_cons.1 hp with rfl | hp
    · rw [writes, writes_get_notin L l _ hs' hk' _ hq hnd.1, L.get_set s _ _ _ h hq hq, if_pos rfl]
    · exact writes_get_mem L l _ hs' hk' hnd.2 p hp

/-- two lenses that agree except possibly at the targets agree everywhere after the writes -/
theorem writes_agree (L : F.Lawful) : ∀ (l : List (Model.TVar ι α × α)) (s t : σ), F.inv s → F.inv t →
    (∀ p ∈ l, F.ok p.1.idx) → (∀ j, F.ok j → j ∉ keys l → F.S.get s j = F.S.get t j) →
    ∀ j, F.ok j → F.S.get (writes F.S l s) j = F.S.get (writes F.S l t) j
  | [], _, _, _, _, _, hg, j, hj => hg j hj (by simp [keys])
  | p :: l, s, t, hs, ht, hk, hg, j, hj => by
    have hp := hk p (by simp)
    refine writes_agree L l _ _ (L.inv_set s _ _ hs hp) (L.inv_set t _ _ ht hp)
      (fun q hq => hk q (by simp [hq])) ?_ j hj
    intro i hi hn
    rw [L.get_set s _ _ i hs hp hi, L.get_set t _ _ i ht hp hi]
    by_cases e : i = p.1.idx
    · simp [e]
    · simp only [e, if_false]
      exact hg i hi (by simp only [keys, List.map_cons, List.mem_cons, not_or]; exact ⟨e, hn⟩)

theorem keys_zip_subset (vars : List (Model.TVar ι α)) (x : List α) :
    ∀ j ∈ keys (vars.zip x), j ∈ vars.map (·.idx) := by
  intro j hj
  simp only [keys, List.mem_map] at hj ⊢
  obtain ⟨p, hp, rfl⟩ := hj
  exact ⟨p.1, (List.of_mem_zip hp).1, rfl⟩

theorem keys_zip_eq (vars : List (Model.TVar ι α)) (x : List α) (h : x.length = vars.length) :
    keys (vars.zip x) = vars.map (·.idx) := by
  have : (vars.zip x).map Prod.fst = vars := List.map_fst_zip (by omega)
  calc keys (vars.zip x) = ((vars.zip x).map Prod.fst).map (·.idx) := by simp [keys, List.map_map]
    _ = vars.map (·.idx) := by rw [this]

/-- the problem made of the variables `vars` of a frame -/
def frameProblem (F : Frame σ ι α ρ) (vars : List (Model.TVar ι α)) (upd : σ → σ)
    (ops : List (Model.Optim.Operand σ α)) : Model.Optim.Problem σ α :=
  { vars := vars.map (handleOf F.S), upd := upd, ops := ops }

/-- hypotheses on a list of variables and the invariant -/
structure VarsOK (F : Frame σ ι α ρ) (vars : List (Model.TVar ι α)) (upd : σ → σ) (I : σ → Prop) : Prop where
  inv : ∀ s, I s → F.inv s
  iset : ∀ s i a, I s → F.ok i → I (F.S.set s i a)
  upd_id : ∀ s, I s → upd s = s
  ok : ∀ v ∈ vars, F.ok v.idx
  sc_un : ∀ v ∈ vars, ∀ x, v.sc (v.un x) = x
  nodup : (vars.map (·.idx)).Nodup

theorem writes_I {vars : List (Model.TVar ι α)} {upd : σ → σ} {I : σ → Prop} (V : VarsOK F vars upd I) :
    ∀ (l : List (Model.TVar ι α × α)) (s : σ), I s → (∀ p ∈ l, F.ok p.1.idx) → I (writes F.S l s)
  | [], _, h, _ => h
  | p :: l, s, h, hk => writes_I V l _ (V.iset s _ _ h (hk p (by simp))) (fun q hq => hk q (by simp [hq]))

theorem zip_ok {vars : List (Model.TVar ι α)} {upd : σ → σ} {I : σ → Prop} (V : VarsOK F vars upd I)
    (x : List α) : ∀ p ∈ vars.zip x, F.ok p.1.idx :=
  fun p hp => V.ok p.1 (List.of_mem_zip hp).1

theorem applyX_eq {vars : List (Model.TVar ι α)} {upd : σ → σ} {I : σ → Prop} (V : VarsOK F vars upd I)
    (ops : List (Model.Optim.Operand σ α)) (x : List α) (s : σ) (hs : I s) :
    Model.Optim.applyX (frameProblem F vars upd ops) x s = writes F.S (vars.zip x) s := by
  show upd (Model.Optim.setAll (vars.map (handleOf F.S)) x s) = _
  rw [setAll_eq_writes, V.upd_id _ (writes_I V _ s hs (zip_ok V x))]

/-- **frame_lensHyp**: the protocol hypotheses of C14 §4 hold for any number of lawful variables with
distinct targets; the view is the observable lens -/
theorem frame_lensHyp (L : F.Lawful) {vars : List (Model.TVar ι α)} {upd : σ → σ} {I : σ → Prop}
    (V : VarsOK F vars upd I) (ops : List (Model.Optim.Operand σ α))
    (hops : ∀ op ∈ ops, ∀ s t, frameView F s = frameView F t → op.value s = op.value t) :
    C14.LensHyp (frameProblem F vars upd ops) (frameView F) I where
  closed := by
    intro s x hs
    rw [applyX_eq V ops x s hs]
    exact writes_I V _ s hs (zip_ok V x)
  overwrites := by
    intro s x y hs hx
    have hx' : x.length = vars.length := by simpa [frameProblem] using hx
    have hs1 : I (writes F.S (vars.zip y) s) := writes_I V _ s hs (zip_ok V y)
    rw [applyX_eq V ops y s hs, applyX_eq V ops x _ hs1, applyX_eq V ops x s hs, frameView_eq_iff]
    constructor
    · rw [writes_rest L _ _ (V.inv _ hs1) (zip_ok V x), writes_rest L _ _ (V.inv _ hs) (zip_ok V x),
        writes_rest L _ _ (V.inv _ hs) (zip_ok V y)]
    · apply writes_agree L _ _ _ (V.inv _ hs1) (V.inv _ hs) (zip_ok V x)
      intro j hj hn
      apply writes_get_notin L _ _ (V.inv _ hs) (zip_ok V y) j hj
      intro hm
      apply hn
      rw [keys_zip_eq vars x hx']
      exact keys_zip_subset vars y j hm
  readsBack := by
    intro s x hs hx
    have hx' : x.length = vars.length := by simpa [frameProblem] using hx
    rw [applyX_eq V ops x s hs]
    simp only [Model.Optim.values, frameProblem, List.map_map]
    apply List.ext_getElem
    · simp [hx']
    · intro n h1 h2
      simp only [List.getElem_map, Function.comp, handleOf, Model.TVar.value]
      have hn : n < vars.length := by simpa using h1
      have hmem : (vars[n], x[n]) ∈ vars.zip x := by
        have : (vars.zip x)[n]'(by simp [hx', hn]) = (vars[n], x[n]) := by simp
        rw [← this]; exact List.getElem_mem _
      have hnd : (keys (vars.zip x)).Nodup := by rw [keys_zip_eq vars x hx']; exact V.nodup
      have := writes_get_mem L _ s (V.inv _ hs) (zip_ok V x) hnd _ hmem
      simp only at this
      rw [this]
      exact V.sc_un _ (List.getElem_mem hn) _
  observes := by
    intro s t h
    refine ⟨?_, fun op hop => hops op hop s t h⟩
    have h2 := ((frameView_eq_iff F s t).1 h).2
    simp only [Model.Optim.values, frameProblem, List.map_map]
    apply List.map_congr_left
    intro v hv
    simp only [Function.comp, handleOf, Model.TVar.value]
    rw [h2 v.idx (V.ok v hv)]

/-- a lens on which every variable's `inverse_scale ∘ scale` is the identity is *settled*:
re-applying its own variable values changes nothing observable -/
theorem frame_settled (L : F.Lawful) {vars : List (Model.TVar ι α)} {upd : σ → σ} {I : σ → Prop}
    (V : VarsOK F vars upd I) (ops : List (Model.Optim.Operand σ α))
    (hun : ∀ v ∈ vars, ∀ x, v.un (v.sc x) = x) (s : σ) (hs : I s) :
    C14.Settled (frameProblem F vars upd ops) (frameView F) s := by
  unfold C14.Settled
  rw [applyX_eq V ops _ s hs, frameView_eq_iff]
  have hlen : (Model.Optim.values (frameProblem F vars upd ops) s).length = vars.length := by
    simp [Model.Optim.values, frameProblem]
  refine ⟨writes_rest L _ _ (V.inv _ hs) (zip_ok V _), ?_⟩
  intro j hj
  by_cases hm : j ∈ keys (vars.zip (Model.Optim.values (frameProblem F vars upd ops) s))
  · simp only [keys, List.mem_map] at hm
    obtain ⟨p, hp, rfl⟩ := hm
    have hnd : (keys (vars.zip (Model.Optim.values (frameProblem F vars upd ops) s))).Nodup := by
      rw [keys_zip_eq vars _ hlen]; exact V.nodup
    rw [writes_get_mem L _ s (V.inv _ hs) (zip_ok V _) hnd p hp]
    -- `p.2` is the value read through `p.1`
    have hp2 : p.2 = p.1.sc (F.S.get s p.1.idx) := by
      obtain ⟨n, hn, e⟩ := List.getElem_of_mem hp
      have hn' : n < vars.length := by simp at hn; omega
      rw [List.getElem_zip] at e
      rw [← e]
      simp [Model.Optim.values, frameProblem, handleOf, Model.TVar.value]
    rw [hp2]
    exact hun p.1 (List.of_mem_zip hp).1 _
  · exact writes_get_notin L _ s (V.inv _ hs) (zip_ok V _) j hj hm

end Abstract
/-! ## the concrete problem `Model.Optim.lensProblem` -/
section Concrete
open TolerPresc

abbrev OLens := Model.Optim.Lens ℝ
abbrev OVar := Model.Optim.Variable ℝ

/-- the frame of C15 (`TolerPresc.frameP`) lifted to the lens of the optimisation layer (prescription +
polynomial tables; no variable treated here writes the tables) -/
noncomputable def frameL (N : OLens) : Frame OLens Model.Var ℝ (RestT × List (List (List ℝ))) :=
  ⟨⟨fun L v => Model.Var.get L.presc v, fun L v a => { L with presc := Model.Var.set L.presc v a }⟩,
   okShape (shapes N.presc), fun L => invP N.presc L.presc, fun L => (restP L.presc, L.poly)⟩

theorem frameL_lawful (N : OLens) : (frameL N).Lawful where
  inv_set := fun s i a hs hi => (frameP_lawful N.presc).inv_set s.presc i a hs hi
  get_set := fun s i a j hs hi hj => (frameP_lawful N.presc).get_set s.presc i a j hs hi hj
  rest_set := fun s i a hs hi => by
    have := (frameP_lawful N.presc).rest_set s.presc i a hs hi
    show (restP (Model.Var.set s.presc i a), s.poly) = (restP s.presc, s.poly)
    rw [show restP (Model.Var.set s.presc i a) = restP s.presc from this]

/-- variable types covered here -/
def Plain : Model.Optim.VKind → Prop
  | .index => False
  | .poly _ _ => False
  | .cheb _ _ => False
  | _ => True

/-- the quantity a (plain) variable type addresses -/
def kindOf : Model.Optim.VKind → Model.VKind
  | .radius => .radius
  | .conic => .conic
  | .thickness => .thickness
  | .tilt true => .tiltX
  | .tilt false => .tiltY
  | .decenter true => .decX
  | .decenter false => .decY
  | .asphere i => .coeff i
  | .index => .index
  | .poly _ _ => .conic
  | .cheb _ _ => .conic

def targetOf (v : OVar) : Model.Var := ⟨kindOf v.kind, v.surf⟩

noncomputable def tvarOf (v : OVar) : Model.TVar Model.Var ℝ :=
  ⟨targetOf v, fun r => if v.scaling then v.kind.scale r else r,
   fun x => if v.scaling then v.kind.invScale x else x⟩

theorem rawGet_eq (K : Model.Optim.VKind) (hK : Plain K) (L : OLens) (k : Nat) :
    K.rawGet L k = Model.Var.get L.presc ⟨kindOf K, k⟩ := by
  cases K with
  | index => exact absurd hK id
  | poly i j => exact absurd hK id
  | cheb i j => exact absurd hK id
  | tilt b => cases b <;> simp [Model.Optim.VKind.rawGet, Model.Var.get, kindOf, Model.surfField]
  | decenter b => cases b <;> simp [Model.Optim.VKind.rawGet, Model.Var.get, kindOf, Model.surfField]
  | radius => rfl
  | conic => rfl
  | thickness => rfl
  | asphere i => rfl

theorem rawSet_eq (K : Model.Optim.VKind) (hK : Plain K) (L : OLens) (k : Nat) (a : ℝ) :
    K.rawSet L k a = { L with presc := Model.Var.set L.presc ⟨kindOf K, k⟩ a } := by
  cases K with
  | index => exact absurd hK id
  | poly i j => exact absurd hK id
  | cheb i j => exact absurd hK id
  | tilt b => cases b <;> simp [Model.Optim.VKind.rawSet, Model.Var.set, kindOf]
  | decenter b => cases b <;> simp [Model.Optim.VKind.rawSet, Model.Var.set, kindOf]
  | radius => rfl
  | conic => rfl
  | thickness => rfl
  | asphere i => rfl

/-- `Variable.toHandle` (what `lensProblem` uses) is the frame handle of the variable -/
theorem toHandle_eq (N : OLens) (v : OVar) (hK : Plain v.kind) :
    v.toHandle = handleOf (frameL N).S (tvarOf v) := by
  unfold Model.Optim.Variable.toHandle handleOf
  congr 1
  · funext L
    simp only [Model.Optim.Variable.value, Model.TVar.value, tvarOf, targetOf, frameL, rawGet_eq _ hK]
  · funext L x
    simp only [Model.Optim.Variable.update, Model.TVar.update, tvarOf, targetOf, frameL, rawSet_eq _ hK]

theorem lensProblem_eq (N : OLens) (vars : List OVar) (ops : List (Model.Optim.Operand OLens ℝ))
    (hplain : ∀ v ∈ vars, Plain v.kind) :
    Model.Optim.lensProblem vars ops =
      frameProblem (frameL N) (vars.map tvarOf) Model.Optim.lensUpdate ops := by
  unfold Model.Optim.lensProblem frameProblem
  congr 1
  rw [List.map_map]
  exact List.map_congr_left fun v hv => toHandle_eq N v (hplain v hv)

/-- the invariant: shape of the nominal lens `N` (C15's `invP`), no pickups, no solves -/
def MultiInv (N : OLens) (L : OLens) : Prop := invP N.presc L.presc ∧ C14.NoPick L

theorem sc_un_tvar (v : OVar) (x : ℝ) : (tvarOf v).sc ((tvarOf v).un x) = x := by
  simp only [tvarOf]
  cases v.scaling
  · simp
  · simp only [if_true]; exact C14.scale_invScale _ _

theorem un_sc_tvar (v : OVar) (x : ℝ) : (tvarOf v).un ((tvarOf v).sc x) = x := by
  simp only [tvarOf]
  cases v.scaling
  · simp
  · simp only [if_true]; exact C14.invScale_scale _ _

theorem varsOK (N : OLens) (vars : List OVar)
    (hok : ∀ v ∈ vars, okShape (shapes N.presc) (targetOf v)) (hnd : (vars.map targetOf).Nodup) :
    VarsOK (frameL N) (vars.map tvarOf) Model.Optim.lensUpdate (MultiInv N) where
  inv := fun s h => h.1
  iset := by
    intro s i a hs hi
    refine ⟨(frameL_lawful N).inv_set s i a hs.1 hi, ?_⟩
    have hr := (frameP_lawful N.presc).rest_set s.presc i a hs.1 hi
    have hr' : restP (Model.Var.set s.presc i a) = restP s.presc := hr
    have h1 : (Model.Var.set s.presc i a).pickups = s.presc.pickups :=
      congrArg (fun r : RestT => r.2.2.2.2.2.1) hr'
    have h2 : (Model.Var.set s.presc i a).solves = s.presc.solves :=
      congrArg (fun r : RestT => r.2.2.2.2.2.2.1) hr'
    exact ⟨h1.trans hs.2.1, h2.trans hs.2.2⟩
  upd_id := fun s h => C14.lensUpdate_noPick s h.2
  ok := by
    intro v hv
    obtain ⟨u, hu, rfl⟩ := List.mem_map.1 hv
    exact hok u hu
  sc_un := by
    intro v hv
    obtain ⟨u, _, rfl⟩ := List.mem_map.1 hv
    exact sc_un_tvar u
  nodup := by
    rw [List.map_map]
    exact hnd

/-- **multi_variable_hyp**: the protocol hypotheses of C14 hold for `lensProblem vars ops` with any
number of radius / conic / thickness / tilt / decentre / asphere-coefficient variables (scaled or
not) that exist on the lens (`okShape`: surface in range, radius variables on curved surfaces,
coefficient number in range) and have pairwise distinct targets, on lenses of the shape of `N`
without pickups and solves; the operands may read the observable lens (`frameView`). -/
theorem multi_variable_hyp (N : OLens) (vars : List OVar) (ops : List (Model.Optim.Operand OLens ℝ))
    (hplain : ∀ v ∈ vars, Plain v.kind)
    (hok : ∀ v ∈ vars, okShape (shapes N.presc) (targetOf v)) (hnd : (vars.map targetOf).Nodup)
    (hops : ∀ op ∈ ops, ∀ s t, frameView (frameL N) s = frameView (frameL N) t → op.value s = op.value t) :
    C14.LensHyp (Model.Optim.lensProblem vars ops) (frameView (frameL N)) (MultiInv N) := by
  rw [lensProblem_eq N vars ops hplain]
  exact frame_lensHyp (frameL_lawful N) (varsOK N vars hok hnd) ops hops

/-- … and every such lens is a consistent start state -/
theorem multi_variable_settled (N : OLens) (vars : List OVar) (ops : List (Model.Optim.Operand OLens ℝ))
    (hplain : ∀ v ∈ vars, Plain v.kind)
    (hok : ∀ v ∈ vars, okShape (shapes N.presc) (targetOf v)) (hnd : (vars.map targetOf).Nodup)
    (L : OLens) (hL : MultiInv N L) :
    C14.Settled (Model.Optim.lensProblem vars ops) (frameView (frameL N)) L := by
  rw [lensProblem_eq N vars ops hplain]
  apply frame_settled (frameL_lawful N) (varsOK N vars hok hnd) ops _ L hL
  intro v hv
  obtain ⟨u, _, rfl⟩ := List.mem_map.1 hv
  exact un_sc_tvar u

/-- hence, for every oracle: on a problem with several variables `optimizeSpec` leaves the variables
at the returned vector, and optimise followed by undo gives back the observable start lens -/
theorem multi_variable_leaves_solution_and_undo (N : OLens) (vars : List OVar)
    (ops : List (Model.Optim.Operand OLens ℝ)) (hplain : ∀ v ∈ vars, Plain v.kind)
    (hok : ∀ v ∈ vars, okShape (shapes N.presc) (targetOf v)) (hnd : (vars.map targetOf).Nodup)
    (hops : ∀ op ∈ ops, ∀ s t, frameView (frameL N) s = frameView (frameL N) t → op.value s = op.value t)
    (o : Model.Optim.Oracle ℝ) (ho : C14.OSized o vars.length) (L : OLens) (hL : MultiInv N L) :
    Model.Optim.values (Model.Optim.lensProblem vars ops)
        (Model.Optim.optimizeSpec (Model.Optim.lensProblem vars ops) o { lens := L }).1.lens
      = (Model.Optim.optimizeSpec (Model.Optim.lensProblem vars ops) o { lens := L }).2.1 ∧
    frameView (frameL N) (Model.Optim.undoSpec (Model.Optim.lensProblem vars ops)
        (Model.Optim.optimizeSpec (Model.Optim.lensProblem vars ops) o { lens := L }).1).lens
      = frameView (frameL N) L := by
  have H := multi_variable_hyp N vars ops hplain hok hnd hops
  have ho' : C14.OSized o (Model.Optim.lensProblem vars ops).vars.length := by
    simpa [Model.Optim.lensProblem] using ho
  exact ⟨(C14.optimize_leaves_solution H o { lens := L } hL ho').1,
    (C14.undo_restores H L hL (multi_variable_settled N vars ops hplain hok hnd L hL) o ho').1⟩

/-! ### non-vacuity: a singlet with three variables -/

noncomputable def demoSurf (z r : ℝ) (gk : Model.GKind) (pre post : Nat) : Model.SRec ℝ :=
  ⟨.standard, gk, z, 0, 0, 0, 0, r, 0, [], pre, post, false, false⟩

/-- object plane, one refracting sphere (R = 50, n = 1.5), image plane -/
noncomputable def demoLens : OLens :=
  { presc := { surfs := [demoSurf (-10) 0 .plane 0 0, demoSurf 0 50 .standard 0 1, demoSurf 100 0 .plane 1 1],
               lastThickness := 0, mats := [1, 3/2], apValue := 1, maxYField := 0 } }

/-- scaled radius and unscaled conic of surface 1, scaled thickness behind surface 1 -/
noncomputable def demoVars : List OVar :=
  [{ kind := .radius, surf := 1 }, { kind := .conic, surf := 1, scaling := false }, { kind := .thickness, surf := 1 }]

theorem demo_inv : MultiInv demoLens demoLens := by
  refine ⟨⟨rfl, ?_, ?_⟩, rfl, rfl⟩
  · simp [Model.posAt, Model.positions, demoLens, demoSurf]
  · intro t ht
    simp only [demoLens, List.mem_cons, List.not_mem_nil, or_false] at ht
    rcases ht with rfl | rfl | rfl <;> simp [demoSurf, demoLens]

theorem demo_ok : ∀ v ∈ demoVars, okShape (shapes demoLens.presc) (targetOf v) := by
  intro v hv
  simp only [demoVars, List.mem_cons, List.not_mem_nil, or_false] at hv
  rcases hv with rfl | rfl | rfl
  · exact ⟨(Model.SKind.standard, Model.GKind.standard, false, false, 0), rfl, by simp⟩
  · show 1 < (shapes demoLens.presc).length
    simp [shapes, demoLens]
  · show 1 + 1 < (shapes demoLens.presc).length
    simp [shapes, demoLens]

theorem demo_nodup : (demoVars.map targetOf).Nodup := by
  simp [demoVars, targetOf, kindOf]

/-- all hypotheses of `multi_variable_hyp` hold for the singlet with its three variables -/
example (ops : List (Model.Optim.Operand OLens ℝ))
    (hops : ∀ op ∈ ops, ∀ s t, frameView (frameL demoLens) s = frameView (frameL demoLens) t →
      op.value s = op.value t) :
    C14.LensHyp (Model.Optim.lensProblem demoVars ops) (frameView (frameL demoLens)) (MultiInv demoLens) :=
  multi_variable_hyp demoLens demoVars ops
    (by intro v hv; simp only [demoVars, List.mem_cons, List.not_mem_nil, or_false] at hv
        rcases hv with rfl | rfl | rfl <;> trivial)
    demo_ok demo_nodup hops

/-- the operand hypothesis is satisfiable by an operand that really reads the lens: the radius of
surface 1 is a function of the observable lens -/
example : ∀ s t : OLens, frameView (frameL demoLens) s = frameView (frameL demoLens) t →
    Model.Var.get s.presc ⟨.radius, 1⟩ = Model.Var.get t.presc ⟨.radius, 1⟩ :=
  fun s t h => ((frameView_eq_iff _ s t).1 h).2 ⟨.radius, 1⟩
    (demo_ok { kind := .radius, surf := 1 } (by simp [demoVars]))

end Concrete
end C14Multi
