import OptiModel.Model.Polar
import OptiModel.Proofs.NumReal
import Mathlib.Tactic.FieldSimp
import Mathlib.Tactic.Ring
import Mathlib.Tactic.LinearCombination
import Mathlib.Tactic.Positivity
import Mathlib.Tactic.Linarith
/-!
Helper lemmas for property C17 over ℝ: 3×3 real algebra on the model's `M3`/`V3`, orthonormal
frames, the code's choice of the `s` vector, complex fields under real matrices, 2×2 unitary
mixing, and the real forms of the Fresnel coefficients below the critical angle.
-/
namespace PolarLemmas
open Model.Polar

/-! ### real 3×3 algebra on the model's `M3 ℝ`, `V3 ℝ` -/

theorem isZero_iff (a : ℝ) : Num.isZero a = true ↔ a = 0 := by
  unfold Num.isZero
  rw [Bool.and_eq_true]
  num_real
  exact ⟨fun h => le_antisymm h.1 h.2, fun h => by rw [h]; exact ⟨le_refl _, le_refl _⟩⟩

theorem mul_assoc' (A B C : M3 ℝ) : (A.mul B).mul C = A.mul (B.mul C) := by
  unfold M3.mul
  num_real
  simp only [M3.mk.injEq]
  refine ⟨?_, ?_, ?_, ?_, ?_, ?_, ?_, ?_, ?_⟩ <;> ring

theorem transpose_mul (A B : M3 ℝ) : (A.mul B).transpose = B.transpose.mul A.transpose := by
  unfold M3.mul M3.transpose
  num_real
  simp only [M3.mk.injEq]
  refine ⟨?_, ?_, ?_, ?_, ?_, ?_, ?_, ?_, ?_⟩ <;> ring

theorem one_mul' (A : M3 ℝ) : (M3.one : M3 ℝ).mul A = A := by
  unfold M3.mul M3.one
  num_real
  cases A
  simp only [M3.mk.injEq]
  refine ⟨?_, ?_, ?_, ?_, ?_, ?_, ?_, ?_, ?_⟩ <;> ring

theorem mul_one' (A : M3 ℝ) : A.mul (M3.one : M3 ℝ) = A := by
  unfold M3.mul M3.one
  num_real
  cases A
  simp only [M3.mk.injEq]
  refine ⟨?_, ?_, ?_, ?_, ?_, ?_, ?_, ?_, ?_⟩ <;> ring

theorem transpose_one : (M3.one : M3 ℝ).transpose = M3.one := rfl

theorem transpose_transpose (A : M3 ℝ) : A.transpose.transpose = A := rfl

theorem mulVec_mul (A B : M3 ℝ) (v : V3 ℝ) : (A.mul B).mulVec v = A.mulVec (B.mulVec v) := by
  unfold M3.mul M3.mulVec
  num_real
  simp only [V3.mk.injEq]
  refine ⟨?_, ?_, ?_⟩ <;> ring

theorem one_mulVec (v : V3 ℝ) : (M3.one : M3 ℝ).mulVec v = v := by
  unfold M3.mulVec M3.one
  num_real
  cases v
  simp only [V3.mk.injEq]
  refine ⟨?_, ?_, ?_⟩ <;> ring

/-- `⟨A v, w⟩ = ⟨v, Aᵀ w⟩` -/
theorem dot_mulVec (A : M3 ℝ) (v w : V3 ℝ) : dot (A.mulVec v) w = dot v (A.transpose.mulVec w) := by
  unfold dot M3.mulVec M3.transpose
  num_real
  ring

/-- real orthogonal matrix -/
def Orthogonal (A : M3 ℝ) : Prop := A.transpose.mul A = M3.one

theorem Orthogonal.one : Orthogonal M3.one := by
  unfold Orthogonal; rw [transpose_one, one_mul']

theorem Orthogonal.mul {A B : M3 ℝ} (hA : Orthogonal A) (hB : Orthogonal B) : Orthogonal (A.mul B) := by
  unfold Orthogonal at *
  rw [transpose_mul, mul_assoc', ← mul_assoc' A.transpose, hA, one_mul', hB]

theorem Orthogonal.dot {A : M3 ℝ} (hA : Orthogonal A) (v w : V3 ℝ) :
    dot (A.mulVec v) (A.mulVec w) = dot v w := by
  rw [dot_mulVec, ← mulVec_mul, hA, one_mulVec]


/-! ### orthonormal frames -/

/-- rows `(s, k×s, k)` form an orthogonal matrix when `s`, `k` are orthonormal: rows orthonormal … -/
theorem frame_rows (s k : V3 ℝ) (hs : dot s s = 1) (hk : dot k k = 1) (hsk : dot s k = 0) :
    (M3.ofRows s (cross k s) k).mul (M3.ofRows s (cross k s) k).transpose = M3.one := by
  unfold M3.ofRows M3.mul M3.transpose M3.one cross dot at *
  num_real
  obtain ⟨sx, sy, sz⟩ := s
  obtain ⟨kx, ky, kz⟩ := k
  simp only [M3.mk.injEq] at *
  refine ⟨?_, ?_, ?_, ?_, ?_, ?_, ?_, ?_, ?_⟩
  · linear_combination hs
  · ring
  · linear_combination hsk
  · ring
  · linear_combination (sx*sx+sy*sy+sz*sz) * hk + hs - (sx*kx+sy*ky+sz*kz) * hsk
  · ring
  · linear_combination hsk
  · ring
  · linear_combination hk

/-- … and complete (columns orthonormal): `s sᵀ + p pᵀ + k kᵀ = 1` -/
theorem frame_cols (s k : V3 ℝ) (hs : dot s s = 1) (hk : dot k k = 1) (hsk : dot s k = 0) :
    (M3.ofRows s (cross k s) k).transpose.mul (M3.ofRows s (cross k s) k) = M3.one := by
  unfold M3.ofRows M3.mul M3.transpose M3.one cross dot at *
  num_real
  obtain ⟨sx, sy, sz⟩ := s
  obtain ⟨kx, ky, kz⟩ := k
  simp only [M3.mk.injEq] at *
  -- p_i p_j = δ_ij (K S − D²) − S k_i k_j − K s_i s_j + D (k_i s_j + s_i k_j)
  refine ⟨?_, ?_, ?_, ?_, ?_, ?_, ?_, ?_, ?_⟩
  · linear_combination (sx*sx+sy*sy+sz*sz - sx*sx) * hk + (1 - kx*kx) * hs
      + (-(sx*kx+sy*ky+sz*kz) + (kx*sx+sx*kx)) * hsk
  · linear_combination (- sx*sy) * hk + (- kx*ky) * hs + (kx*sy+sx*ky) * hsk
  · linear_combination (- sx*sz) * hk + (- kx*kz) * hs + (kx*sz+sx*kz) * hsk
  · linear_combination (- sy*sx) * hk + (- ky*kx) * hs + (ky*sx+sy*kx) * hsk
  · linear_combination (sx*sx+sy*sy+sz*sz - sy*sy) * hk + (1 - ky*ky) * hs
      + (-(sx*kx+sy*ky+sz*kz) + (ky*sy+sy*ky)) * hsk
  · linear_combination (- sy*sz) * hk + (- ky*kz) * hs + (ky*sz+sy*kz) * hsk
  · linear_combination (- sz*sx) * hk + (- kz*kx) * hs + (kz*sx+sz*kx) * hsk
  · linear_combination (- sz*sy) * hk + (- kz*ky) * hs + (kz*sy+sz*ky) * hsk
  · linear_combination (sx*sx+sy*sy+sz*sz - sz*sz) * hk + (1 - kz*kz) * hs
      + (-(sx*kx+sy*ky+sz*kz) + (kz*sz+sz*kz)) * hsk

theorem ofCols_eq (a b c : V3 ℝ) : M3.ofCols a b c = (M3.ofRows a b c).transpose := rfl

/-- `o_out @ o_in` for a given `s` -/
noncomputable def frameMatrix (s k0 k1 : V3 ℝ) : M3 ℝ :=
  (M3.ofCols s (cross k1 s) k1).mul (M3.ofRows s (cross k0 s) k0)

theorem frameMatrix_orthogonal (s k0 k1 : V3 ℝ) (hs : dot s s = 1) (h0 : dot k0 k0 = 1)
    (h1 : dot k1 k1 = 1) (hs0 : dot s k0 = 0) (hs1 : dot s k1 = 0) :
    Orthogonal (frameMatrix s k0 k1) := by
  unfold Orthogonal frameMatrix
  rw [ofCols_eq, transpose_mul, transpose_transpose, mul_assoc',
    ← mul_assoc' (M3.ofRows s (cross k1 s) k1), frame_rows s k1 hs h1 hs1, one_mul',
    frame_cols s k0 hs h0 hs0]

theorem frameMatrix_k (s k0 k1 : V3 ℝ) (h0 : dot k0 k0 = 1) (hs0 : dot s k0 = 0) :
    (frameMatrix s k0 k1).mulVec k0 = k1 := by
  unfold frameMatrix M3.ofCols M3.ofRows M3.mul M3.mulVec cross dot at *
  num_real
  obtain ⟨sx, sy, sz⟩ := s
  obtain ⟨ax, ay, az⟩ := k0
  obtain ⟨bx, b_y, bz⟩ := k1
  simp only [V3.mk.injEq] at *
  refine ⟨?_, ?_, ?_⟩
  · linear_combination (bx) * h0 + (sx) * hs0
  · linear_combination (b_y) * h0 + (sy) * hs0
  · linear_combination (bz) * h0 + (sz) * hs0

/-! ### the code's choice of `s` -/

theorem vnorm_sq (v : V3 ℝ) : vnorm v * vnorm v = dot v v := by
  unfold vnorm dot
  num_real
  exact Real.mul_self_sqrt (by nlinarith [mul_self_nonneg v.x, mul_self_nonneg v.y, mul_self_nonneg v.z])

theorem vnorm_eq_zero_iff (v : V3 ℝ) : vnorm v = 0 ↔ v.x = 0 ∧ v.y = 0 ∧ v.z = 0 := by
  constructor
  · intro h
    have h2 : dot v v = 0 := by rw [← vnorm_sq, h, mul_zero]
    unfold dot at h2
    num_real
    refine ⟨?_, ?_, ?_⟩ <;> nlinarith [mul_self_nonneg v.x, mul_self_nonneg v.y, mul_self_nonneg v.z]
  · rintro ⟨hx, hy, hz⟩
    unfold vnorm
    num_real
    rw [hx, hy, hz]; simp

theorem sdiv_unit (v : V3 ℝ) (h : vnorm v ≠ 0) : dot (v.sdiv (vnorm v)) (v.sdiv (vnorm v)) = 1 := by
  have h2 := vnorm_sq v
  unfold V3.sdiv dot at *
  num_real
  field_simp
  linear_combination (-1 : ℝ) * h2

theorem sdiv_dot (v w : V3 ℝ) (m : ℝ) (h : dot v w = 0) : dot (v.sdiv m) w = 0 := by
  unfold V3.sdiv dot at *
  num_real
  have : v.x / m * w.x + v.y / m * w.y + v.z / m * w.z = (v.x * w.x + v.y * w.y + v.z * w.z) / m := by ring
  rw [this, h, zero_div]

/-- hypotheses under which the code's frames are defined: unit directions and, when `k0 ∥ k1`
(fallback branch), `k0` not along the x axis -/
structure FrameOK (k0 k1 : V3 ℝ) : Prop where
  unit0 : dot k0 k0 = 1
  unit1 : dot k1 k1 = 1
  fallback : vnorm (cross k0 k1) = 0 → k0.y ≠ 0 ∨ k0.z ≠ 0
  /-- the directions are exactly parallel or separated by more than the rounding guard of the code's
  parallel test (in between, the code's fallback frame is orthonormal only to ~1e-8) -/
  clear : vnorm (cross k0 k1) = 0 ∨ (1:ℝ) / 100000000 ≤ vnorm (cross k0 k1)

theorem sVector_spec (k0 k1 : V3 ℝ) (h : FrameOK k0 k1) :
    dot (sVector k0 k1) (sVector k0 k1) = 1 ∧ dot (sVector k0 k1) k0 = 0 ∧
    dot (sVector k0 k1) k1 = 0 := by
  unfold sVector
  by_cases hm : vnorm (cross k0 k1) = 0
  · -- fallback branch
    have hlt : Num.lt (vnorm (cross k0 k1)) (parTol : ℝ) = true := by
      rw [NumReal.lt_eq, hm]; unfold parTol; rw [NumReal.ofRat_eq]; norm_num
    simp only [hlt, if_true]
    have hc := (vnorm_eq_zero_iff _).mp hm
    have hn : vnorm (cross k0 xhat) ≠ 0 := by
      intro h0
      have := (vnorm_eq_zero_iff _).mp h0
      unfold cross xhat at this
      num_real
      obtain ⟨_, hz, hy⟩ := this
      rcases h.fallback hm with h' | h'
      · apply h'; linarith
      · apply h'; linarith
    refine ⟨sdiv_unit _ hn, sdiv_dot _ _ _ ?_, sdiv_dot _ _ _ ?_⟩
    · unfold cross xhat dot; num_real; ring
    · unfold cross xhat dot at *; num_real
      obtain ⟨hx, _, _⟩ := hc
      linear_combination (-1 : ℝ) * hx
  · have hz : Num.lt (vnorm (cross k0 k1)) (parTol : ℝ) = false := by
      rw [Bool.eq_false_iff]
      intro hlt
      rw [NumReal.lt_eq] at hlt
      unfold parTol at hlt
      rw [NumReal.ofRat_eq] at hlt
      rcases h.clear with h' | h'
      · exact absurd h' hm
      · norm_num at hlt h'; linarith
    simp only [hz, Bool.false_eq_true, if_false]
    refine ⟨sdiv_unit _ hm, sdiv_dot _ _ _ ?_, sdiv_dot _ _ _ ?_⟩
    · unfold cross dot; num_real; ring
    · unfold cross dot; num_real; ring

theorem surfaceMatrix_eq (k0 k1 : V3 ℝ) : surfaceMatrix k0 k1 = frameMatrix (sVector k0 k1) k0 k1 := rfl


/-! ### complex fields under a real matrix -/

/-- real and imaginary parts of a complex 3-vector -/
def reV (E : V3 (Cx ℝ)) : V3 ℝ := ⟨E.x.re, E.y.re, E.z.re⟩
def imV (E : V3 (Cx ℝ)) : V3 ℝ := ⟨E.x.im, E.y.im, E.z.im⟩

theorem sumAbsSq_eq (E : V3 (Cx ℝ)) : sumAbsSq E = dot (reV E) (reV E) + dot (imV E) (imV E) := by
  unfold sumAbsSq Cx.abs dot reV imV
  num_real
  rw [Real.mul_self_sqrt (by nlinarith [mul_self_nonneg E.x.re, mul_self_nonneg E.x.im]),
    Real.mul_self_sqrt (by nlinarith [mul_self_nonneg E.y.re, mul_self_nonneg E.y.im]),
    Real.mul_self_sqrt (by nlinarith [mul_self_nonneg E.z.re, mul_self_nonneg E.z.im])]
  ring

theorem reV_rmulVec (M : M3 ℝ) (E : V3 (Cx ℝ)) : reV (M.rmulVec E) = M.mulVec (reV E) := by
  unfold M3.rmulVec M3.mulVec reV Cx.add Cx.rmul
  rfl

theorem imV_rmulVec (M : M3 ℝ) (E : V3 (Cx ℝ)) : imV (M.rmulVec E) = M.mulVec (imV E) := by
  unfold M3.rmulVec M3.mulVec imV Cx.add Cx.rmul
  rfl

/-- a real orthogonal matrix preserves `Σ|E_i|²` of a complex field -/
theorem Orthogonal.sumAbsSq {M : M3 ℝ} (hM : Orthogonal M) (E : V3 (Cx ℝ)) :
    sumAbsSq (M.rmulVec E) = sumAbsSq E := by
  rw [sumAbsSq_eq, sumAbsSq_eq, reV_rmulVec, imV_rmulVec, hM.dot, hM.dot]

/-! ### the launched field `_get_3d_electric_field` -/

/-- the unit vectors `p̂ = k×x̂/|k×x̂|`, `ŝ = p̂×k` of `_get_3d_electric_field` -/
noncomputable def pHat (k : V3 ℝ) : V3 ℝ := (cross k xhat).sdiv (vnorm (cross k xhat))
noncomputable def sHat (k : V3 ℝ) : V3 ℝ := cross (pHat k) k

theorem launch_frame (k : V3 ℝ) (hk : dot k k = 1) (hx : k.y ≠ 0 ∨ k.z ≠ 0) :
    dot (pHat k) (pHat k) = 1 ∧ dot (pHat k) k = 0 ∧ dot (sHat k) (sHat k) = 1 ∧
    dot (sHat k) k = 0 ∧ dot (sHat k) (pHat k) = 0 := by
  have hn : vnorm (cross k xhat) ≠ 0 := by
    intro h0
    have := (vnorm_eq_zero_iff _).mp h0
    unfold cross xhat at this
    num_real
    obtain ⟨_, hz, hy⟩ := this
    rcases hx with h' | h'
    · apply h'; linarith
    · apply h'; linarith
  have hp : dot (pHat k) (pHat k) = 1 := sdiv_unit _ hn
  have hpk : dot (pHat k) k = 0 := by
    apply sdiv_dot
    unfold cross xhat dot; num_real; ring
  refine ⟨hp, hpk, ?_, ?_, ?_⟩
  · unfold sHat
    generalize pHat k = p at *
    unfold cross dot at *
    num_real
    linear_combination (k.x*k.x+k.y*k.y+k.z*k.z) * hp + hk - (p.x*k.x+p.y*k.y+p.z*k.z) * hpk
  · unfold sHat cross dot; num_real; ring
  · unfold sHat cross dot; num_real; ring

theorem field3d_re (st : PolState ℝ) (k : V3 ℝ) :
    reV (field3d st k) = ⟨st.Ex * Real.cos st.px * (sHat k).x + st.Ey * Real.cos st.py * (pHat k).x,
                          st.Ex * Real.cos st.px * (sHat k).y + st.Ey * Real.cos st.py * (pHat k).y,
                          st.Ex * Real.cos st.px * (sHat k).z + st.Ey * Real.cos st.py * (pHat k).z⟩ := by
  unfold field3d reV sHat pHat Cx.add Cx.smul Cx.rmul Cx.cis
  num_real

theorem field3d_im (st : PolState ℝ) (k : V3 ℝ) :
    imV (field3d st k) = ⟨st.Ex * Real.sin st.px * (sHat k).x + st.Ey * Real.sin st.py * (pHat k).x,
                          st.Ex * Real.sin st.px * (sHat k).y + st.Ey * Real.sin st.py * (pHat k).y,
                          st.Ex * Real.sin st.px * (sHat k).z + st.Ey * Real.sin st.py * (pHat k).z⟩ := by
  unfold field3d imV sHat pHat Cx.add Cx.smul Cx.rmul Cx.cis
  num_real

/-- the launched field has intensity `Ex² + Ey²` and is transverse to the initial direction -/
theorem field3d_spec (st : PolState ℝ) (k : V3 ℝ) (hk : dot k k = 1) (hx : k.y ≠ 0 ∨ k.z ≠ 0) :
    sumAbsSq (field3d st k) = st.Ex ^ 2 + st.Ey ^ 2 ∧ dot (reV (field3d st k)) k = 0 ∧
    dot (imV (field3d st k)) k = 0 := by
  obtain ⟨hp, hpk, hs, hsk, hsp⟩ := launch_frame k hk hx
  rw [sumAbsSq_eq, field3d_re, field3d_im]
  generalize pHat k = p at *
  generalize sHat k = s at *
  have c1 := Real.sin_sq_add_cos_sq st.px
  have c2 := Real.sin_sq_add_cos_sq st.py
  unfold dot at *
  num_real
  refine ⟨?_, ?_, ?_⟩
  · linear_combination (st.Ex^2 * (s.x*s.x+s.y*s.y+s.z*s.z)) * c1 + (st.Ey^2 * (p.x*p.x+p.y*p.y+p.z*p.z)) * c2
      + (st.Ex^2) * hs + (st.Ey^2) * hp
      + (2 * st.Ex * st.Ey * (Real.cos st.px * Real.cos st.py + Real.sin st.px * Real.sin st.py)) * hsp
  · linear_combination (st.Ex * Real.cos st.px) * hsk + (st.Ey * Real.cos st.py) * hpk
  · linear_combination (st.Ex * Real.sin st.px) * hsk + (st.Ey * Real.sin st.py) * hpk

/-- `PolarizationState` normalises to unit intensity -/
theorem polarized_unit (a b px py : ℝ) (h : a ≠ 0 ∨ b ≠ 0) :
    (polarized a b px py).Ex ^ 2 + (polarized a b px py).Ey ^ 2 = 1 := by
  unfold polarized
  num_real
  have hpos : 0 < a * a + b * b := by
    rcases h with h | h
    · have := mul_self_pos.mpr h; nlinarith [mul_self_nonneg b]
    · have := mul_self_pos.mpr h; nlinarith [mul_self_nonneg a]
  have hs : Real.sqrt (a * a + b * b) ≠ 0 := (Real.sqrt_pos.mpr hpos).ne'
  have h2 : Real.sqrt (a * a + b * b) ^ 2 = a * a + b * b := Real.sq_sqrt hpos.le
  rw [div_pow, div_pow, ← add_div, div_eq_one_iff_eq (pow_ne_zero 2 hs), h2]
  ring

/-! ### Fresnel coefficients below the critical angle -/

/-- NumPy's Smith division of two complex numbers with zero imaginary part is the real quotient -/
theorem div_ofReal (a b : ℝ) : Cx.div (⟨a, 0⟩ : Cx ℝ) ⟨b, 0⟩ = ⟨a / b, 0⟩ := by
  unfold Cx.div
  num_real
  simp [abs_nonneg]
  ring

/-- the code's `root` below the critical angle: `√(n² − sin²θ)`, real -/
theorem fresnelRoot_real (n1 n2 θ : ℝ) (hcrit : Real.sin θ ^ 2 ≤ (n2 / n1) ^ 2) :
    fresnelRoot n1 n2 θ = ⟨Real.sqrt ((n2 / n1) ^ 2 - Real.sin θ ^ 2), 0⟩ := by
  unfold fresnelRoot Cx.sqrtReal
  num_real
  have : n2 / n1 * (n2 / n1) - Real.sin θ * Real.sin θ = (n2 / n1) ^ 2 - Real.sin θ ^ 2 := by ring
  rw [this, if_pos (by linarith)]

theorem fresnelRs_real (n1 n2 θ ρ : ℝ) (hr : fresnelRoot n1 n2 θ = ⟨ρ, 0⟩) :
    fresnelRs n1 n2 θ = ⟨(Real.cos θ - ρ) / (Real.cos θ + ρ), 0⟩ := by
  unfold fresnelRs
  rw [hr]
  simp only [Cx.sub, Cx.add, Cx.ofReal]
  num_real
  rw [sub_zero, add_zero, div_ofReal]

theorem fresnelRp_real (n1 n2 θ ρ : ℝ) (hr : fresnelRoot n1 n2 θ = ⟨ρ, 0⟩) :
    fresnelRp n1 n2 θ = ⟨((n2 / n1) ^ 2 * Real.cos θ - ρ) / ((n2 / n1) ^ 2 * Real.cos θ + ρ), 0⟩ := by
  unfold fresnelRp
  rw [hr]
  simp only [Cx.sub, Cx.add, Cx.ofReal]
  num_real
  rw [sub_zero, add_zero, div_ofReal, ← pow_two]

theorem fresnelTs_real (n1 n2 θ ρ : ℝ) (hr : fresnelRoot n1 n2 θ = ⟨ρ, 0⟩) :
    fresnelTs n1 n2 θ = ⟨2 * Real.cos θ / (Real.cos θ + ρ), 0⟩ := by
  unfold fresnelTs
  rw [hr]
  simp only [Cx.add, Cx.ofReal]
  num_real
  rw [add_zero, div_ofReal]

theorem fresnelTp_real (n1 n2 θ ρ : ℝ) (hr : fresnelRoot n1 n2 θ = ⟨ρ, 0⟩) :
    fresnelTp n1 n2 θ = ⟨2 * (n2 / n1) * Real.cos θ / ((n2 / n1) ^ 2 * Real.cos θ + ρ), 0⟩ := by
  unfold fresnelTp
  rw [hr]
  simp only [Cx.add, Cx.ofReal]
  num_real
  rw [add_zero, div_ofReal, ← pow_two]
/-- below the critical angle the code's `root` is `(n2/n1)·cos θt`, `θt` the refraction angle of
Snell's law -/
theorem fresnelRoot_eq (n1 n2 θ θt : ℝ) (h1 : 0 < n1) (h2 : 0 < n2) (hct : 0 < Real.cos θt)
    (snell : n1 * Real.sin θ = n2 * Real.sin θt) :
    fresnelRoot n1 n2 θ = ⟨n2 / n1 * Real.cos θt, 0⟩ := by
  unfold fresnelRoot Cx.sqrtReal
  num_real
  have hs : Real.sin θ = n2 / n1 * Real.sin θt := by
    field_simp; linarith
  have hrad : n2 / n1 * (n2 / n1) - Real.sin θ * Real.sin θ = (n2 / n1 * Real.cos θt) ^ 2 := by
    rw [hs]; linear_combination (-(n2 / n1) ^ 2) * Real.sin_sq_add_cos_sq θt
  have hpos : 0 < n2 / n1 * Real.cos θt := by positivity
  rw [hrad, if_pos (by positivity), Real.sqrt_sq hpos.le]

/-- plain-ℝ energy identities (DESIGN A.4) -/
theorem energy_s_aux (c ρ : ℝ) (hc : 0 < c) (hr : 0 < ρ) :
    ((c - ρ) / (c + ρ)) ^ 2 + (ρ / c) * (2 * c / (c + ρ)) ^ 2 = 1 := by
  have : c + ρ ≠ 0 := by positivity
  field_simp; ring

theorem energy_p_aux (n c ρ : ℝ) (hn : 0 < n) (hc : 0 < c) (hr : 0 < ρ) :
    ((n ^ 2 * c - ρ) / (n ^ 2 * c + ρ)) ^ 2 + (ρ / c) * (2 * n * c / (n ^ 2 * c + ρ)) ^ 2 = 1 := by
  have : n ^ 2 * c + ρ ≠ 0 := by positivity
  field_simp; ring


theorem brewster_aux (n c s ρ : ℝ) (hn : 0 < n) (hn1 : n ≠ 1) (hc : 0 < c) (hs : 0 ≤ s)
    (hp : s ^ 2 + c ^ 2 = 1) (hρ : 0 < ρ) (hρ2 : ρ ^ 2 = n ^ 2 - s ^ 2) :
    (n ^ 2 * c - ρ) / (n ^ 2 * c + ρ) = 0 ↔ s / c = n := by
  have hden : n ^ 2 * c + ρ ≠ 0 := by positivity
  rw [div_eq_zero_iff, div_eq_iff hc.ne']
  constructor
  · intro h
    have h : n ^ 2 * c = ρ := by
      rcases h with h | h
      · linarith
      · exact absurd h hden
    have h2 : (n ^ 2 - 1) * (c ^ 2 * (n ^ 2 + 1) - 1) = 0 := by
      have : (n ^ 2 * c) ^ 2 = n ^ 2 - s ^ 2 := by rw [h, hρ2]
      linear_combination this - hp
    have hn2 : n ^ 2 - 1 ≠ 0 := by
      intro h0
      have : (n - 1) * (n + 1) = 0 := by linear_combination h0
      rcases mul_eq_zero.mp this with h' | h'
      · exact hn1 (by linarith)
      · linarith
    have h3 : c ^ 2 * (n ^ 2 + 1) - 1 = 0 := (mul_eq_zero.mp h2).resolve_left hn2
    have h4 : s ^ 2 = (n * c) ^ 2 := by linear_combination hp - h3
    have hnc : 0 ≤ n * c := by positivity
    exact (sq_eq_sq₀ hs hnc).mp h4
  · intro h
    left
    have h5 : ρ ^ 2 = (n ^ 2 * c) ^ 2 := by
      rw [hρ2, h]; linear_combination (-(n ^ 2)) * hp + (n ^ 2) * (congrArg (· ^ 2) h)
    have hnc : 0 ≤ n ^ 2 * c := by positivity
    have := (sq_eq_sq₀ hρ.le hnc).mp h5
    linarith


/-! ### unitary mixing -/

/-- rows `(u1,v1) = (a+bi, c+di)`, `(u2,v2) = (e+fi, g+hi)` of a 2×2 complex matrix orthonormal ⇒
columns orthonormal -/
theorem unitary2_cols (a b c d e f g h : ℝ)
    (H1 : a^2+b^2+c^2+d^2 = 1) (H2 : e^2+f^2+g^2+h^2 = 1)
    (H3 : a*e+b*f+c*g+d*h = 0) (H4 : b*e-a*f+d*g-c*h = 0) :
    a^2+b^2+e^2+f^2 = 1 ∧ c^2+d^2+g^2+h^2 = 1 ∧ a*c+b*d+e*g+f*h = 0 ∧ a*d-b*c+e*h-f*g = 0 := by
  obtain ⟨lr, hlr⟩ : ∃ lr, lr = a*g - b*h - (c*e - d*f) := ⟨_, rfl⟩
  obtain ⟨li, hli⟩ : ∃ li, li = a*h + b*g - (c*f + d*e) := ⟨_, rfl⟩
  have he : e = -(c*lr + d*li) := by
    rw [hlr, hli]; linear_combination a*H3 + b*H4 - e*H1
  have hf : f = d*lr - c*li := by
    rw [hlr, hli]; linear_combination b*H3 - a*H4 - f*H1
  have hg : g = a*lr + b*li := by
    rw [hlr, hli]; linear_combination c*H3 + d*H4 - g*H1
  have hh : h = a*li - b*lr := by
    rw [hlr, hli]; linear_combination d*H3 - c*H4 - h*H1
  have hl : lr^2 + li^2 = 1 := by
    have h2 := H2
    rw [he, hf, hg, hh] at h2
    linear_combination h2 - (lr^2+li^2) * H1
  refine ⟨?_, ?_, ?_, ?_⟩
  · rw [he, hf]; linear_combination H1 + (c^2+d^2) * hl
  · rw [hg, hh]; linear_combination H1 + (a^2+b^2) * hl
  · rw [he, hf, hg, hh]; linear_combination (-(a*c+b*d)) * hl
  · rw [he, hf, hg, hh]; linear_combination (-(a*d-b*c)) * hl

/-- `|z|²` as `np.abs(z)**2` computes it -/
theorem abs_mul_abs (z : Cx ℝ) : z.abs * z.abs = z.abs2 := by
  unfold Cx.abs Cx.abs2
  num_real
  exact Real.mul_self_sqrt (by nlinarith [mul_self_nonneg z.re, mul_self_nonneg z.im])

/-- a unitary mixture of two complex amplitudes keeps the summed intensity -/
theorem unitary_mix (u1 v1 u2 v2 A B : Cx ℝ)
    (H1 : u1.abs2 + v1.abs2 = 1) (H2 : u2.abs2 + v2.abs2 = 1)
    (H3 : (u1.mul u2.conj).add (v1.mul v2.conj) = Cx.zero) :
    ((u1.mul A).add (v1.mul B)).abs2 + ((u2.mul A).add (v2.mul B)).abs2 = A.abs2 + B.abs2 := by
  obtain ⟨a, b⟩ := u1
  obtain ⟨c, d⟩ := v1
  obtain ⟨e, f⟩ := u2
  obtain ⟨g, h⟩ := v2
  obtain ⟨Ar, Ai⟩ := A
  obtain ⟨Br, Bi⟩ := B
  unfold Cx.abs2 Cx.mul Cx.add Cx.conj Cx.zero at *
  num_real
  rw [Cx.mk.injEq] at H3
  obtain ⟨H3, H4⟩ := H3
  obtain ⟨C1, C2, C3, C4⟩ := unitary2_cols a b c d e f g h (by linear_combination H1)
    (by linear_combination H2) (by linear_combination H3) (by linear_combination H4)
  linear_combination (Ar^2+Ai^2) * C1 + (Br^2+Bi^2) * C2 + (2*(Ar*Br+Ai*Bi)) * C3
    - (2*(Ar*Bi-Ai*Br)) * C4

/-- one row of `P @ E` for `E = u ŝ + v p̂` is `u·(row·ŝ) + v·(row·p̂)` -/
theorem row_lin (m0 m1 m2 u v : Cx ℝ) (s p : V3 ℝ) :
    ((m0.mul ((u.smul s.x).add (v.smul p.x))).add (m1.mul ((u.smul s.y).add (v.smul p.y)))).add
        (m2.mul ((u.smul s.z).add (v.smul p.z)))
      = (u.mul (((m0.smul s.x).add (m1.smul s.y)).add (m2.smul s.z))).add
          (v.mul (((m0.smul p.x).add (m1.smul p.y)).add (m2.smul p.z))) := by
  unfold Cx.mul Cx.add Cx.smul
  num_real
  rw [Cx.mk.injEq]
  constructor <;> ring


end PolarLemmas
