import OptiModel.Model.Psf
import OptiModel.Proofs.NumReal
import OptiModel.Proofs.Dft
/-!
Bridge between `Model/Psf.lean` at the carrier ℝ (complex numbers as pairs, memo tables, recursive
sums) and the finite Fourier analysis of `Proofs/Dft.lean` (ℂ, `Finset.range` sums).
-/
open Finset Model.Psf DftMath
open scoped Real

namespace PsfBridge

/-- a pair read as a complex number -/
def toC (p : ℝ × ℝ) : ℂ := ⟨p.1, p.2⟩

@[simp] lemma toC_re (p : ℝ × ℝ) : (toC p).re = p.1 := rfl
@[simp] lemma toC_im (p : ℝ × ℝ) : (toC p).im = p.2 := rfl

lemma toC_czero : toC (czero : Cx ℝ) = 0 := by
  apply Complex.ext <;> simp [czero, NumReal.fzero_eq]

lemma toC_cadd (a b : Cx ℝ) : toC (cadd a b) = toC a + toC b := by
  apply Complex.ext <;> simp [cadd]

lemma toC_cmul (a b : Cx ℝ) : toC (cmul a b) = toC a * toC b := by
  apply Complex.ext <;> simp [cmul]

lemma cnormSq_eq (a : Cx ℝ) : cnormSq a = Complex.normSq (toC a) := by
  simp [cnormSq, Complex.normSq_apply]

lemma cabs_eq (a : Cx ℝ) : cabs a = ‖toC a‖ := by
  unfold cabs
  rw [cnormSq_eq, Complex.norm_def]
  rfl

lemma toC_ofReal (x : ℝ) : toC (ofReal x) = (x : ℂ) := by
  apply Complex.ext <;> simp [ofReal, NumReal.fzero_eq]

lemma toC_csum (f : ℕ → Cx ℝ) (n : ℕ) : toC (csum f n) = ∑ j ∈ range n, toC (f j) := by
  induction n with
  | zero => simp [csum, toC_czero]
  | succ n ih => rw [csum, toC_cadd, ih, sum_range_succ]

lemma rsum_eq (f : ℕ → ℝ) (n : ℕ) : rsum f n = ∑ j ∈ range n, f j := by
  induction n with
  | zero => simp [rsum, NumReal.fzero_eq]
  | succ n ih => rw [rsum, sum_range_succ, ← ih]

lemma look_tab {β : Type} (d : β) (n : ℕ) (f : ℕ → β) (i : ℕ) (h : i < n) :
    look d (tab n f) i = f i := by
  simp [look, tab, Array.getD, h]

lemma look2_tab2 {β : Type} (d : β) (n m : ℕ) (f : ℕ → ℕ → β) (r c : ℕ) (hr : r < n) (hc : c < m) :
    look2 d (tab2 n m f) r c = f r c := by
  unfold look2 tab2
  rw [look_tab _ _ _ _ hr, look_tab _ _ _ _ hc]

lemma toC_twiddle (n m : ℕ) : toC (twiddle (α := ℝ) n m) = E n (m : ℤ) := by
  unfold twiddle E
  have h : (2 * (π:ℂ) * Complex.I * ((-(m:ℤ) : ℤ) : ℂ) / n) = ((-(2 * π * m / n) : ℝ) : ℂ) * Complex.I := by
    push_cast; ring
  rw [h]
  apply Complex.ext
  · rw [Complex.exp_ofReal_mul_I_re, Real.cos_neg]
    simp only [toC_re]
    num_real
    simp [Num.ofNat, NumReal.ofRat_eq]
  · rw [Complex.exp_ofReal_mul_I_im, Real.sin_neg]
    simp only [toC_im]
    num_real
    simp [Num.ofNat, NumReal.ofRat_eq]

lemma toC_dft1 (n : ℕ) [NeZero n] (xs : Array (Cx ℝ)) (k : ℕ) :
    toC (dft1 n (twTab n) xs k) = dftR n (fun j => toC (look czero xs j)) k := by
  unfold dft1 dftR
  rw [toC_csum]
  refine sum_congr rfl fun j _ => ?_
  have hlt : (j * k) % n < n := Nat.mod_lt _ (NeZero.pos n)
  rw [toC_cmul, twTab, look_tab _ _ _ _ hlt, toC_twiddle, E_mod]

/-- the row pass read back -/
lemma look_dftRows (n : ℕ) (wt : Array (Cx ℝ)) (xt : Array (Array (Cx ℝ))) (r k : ℕ) (hr : r < n) (hk : k < n) :
    look2 czero (dftRows n wt xt) r k = dft1 n wt (look #[] xt r) k := by
  unfold dftRows
  rw [look2_tab2 _ _ _ _ _ _ hr hk]

lemma look_transpose {β : Type} (d : β) (n : ℕ) (t : Array (Array β)) (r c : ℕ) (hr : r < n) (hc : c < n) :
    look2 d (transpose d n t) r c = look2 d t c r := by
  unfold transpose
  rw [look2_tab2 _ _ _ _ _ _ hr hc]

/-- second pass on column `k2` of the row-transformed table -/
lemma toC_dft1_col (n : ℕ) [NeZero n] (xt : Array (Array (Cx ℝ))) (k1 k2 : ℕ) (h2 : k2 < n) :
    toC (dft1 n (twTab n) (look #[] (transpose czero n (dftRows n (twTab n) xt)) k2) k1)
      = dft2R n (fun r c => toC (look2 czero xt r c)) k1 k2 := by
  rw [toC_dft1]
  unfold dft2R
  unfold dftR
  refine sum_congr rfl fun r hr => ?_
  rw [mem_range] at hr
  congr 1
  beta_reduce
  have : look czero (look #[] (transpose czero n (dftRows n (twTab n) xt)) k2) r
      = look2 czero (transpose czero n (dftRows n (twTab n) xt)) k2 r := rfl
  rw [this, look_transpose _ _ _ _ _ h2 hr, look_dftRows _ _ _ _ _ hr h2, toC_dft1]
  unfold dftR
  rfl

theorem toC_dft2 (n : ℕ) [NeZero n] (xt : Array (Array (Cx ℝ))) (k1 k2 : ℕ) (h1 : k1 < n) (h2 : k2 < n) :
    toC (dft2 n xt k1 k2) = dft2R n (fun r c => toC (look2 czero xt r c)) k1 k2 := by
  unfold dft2 dft2Tab
  simp only []
  rw [look_transpose _ _ _ _ _ h1 h2, look_dftRows _ _ _ _ _ h2 h1, toC_dft1_col _ _ _ _ h2]


lemma shiftIdx_lt (gp i : ℕ) (h : 0 < gp) : shiftIdx gp i < gp := Nat.mod_lt _ h

lemma shiftIdx_centre (gp : ℕ) (h : 0 < gp) : shiftIdx gp (gp / 2) = 0 := by
  unfold shiftIdx
  have : gp / 2 + (gp - gp / 2) = gp := by omega
  rw [this, Nat.mod_self]

/-- the zero-padded pupil as a complex array -/
noncomputable def padC (n pad : ℕ) (P : ℕ → ℕ → Cx ℝ) (r c : ℕ) : ℂ := toC (padFn n pad P r c)

lemma padC_eq (n pad : ℕ) (P : ℕ → ℕ → Cx ℝ) (r c : ℕ) :
    padC n pad P r c = if pad ≤ r ∧ r < pad + n then
      (if pad ≤ c ∧ c < pad + n then toC (P (r - pad) (c - pad)) else 0) else 0 := by
  unfold padC padFn
  by_cases h1 : pad ≤ r ∧ r < pad + n
  · by_cases h2 : pad ≤ c ∧ c < pad + n
    · simp [h1, h2]
    · rw [if_pos h1, if_neg h2, if_neg, toC_czero]
      simp only [Bool.and_eq_true, decide_eq_true_eq]; tauto
  · rw [if_neg h1, if_neg, toC_czero]
    simp only [Bool.and_eq_true, decide_eq_true_eq]; tauto

/-- any quantity that vanishes at 0, summed over the padded array, is its sum over the pupil -/
lemma sum_padded {M : Type*} [AddCommMonoid M] (φ : ℂ → M) (h0 : φ 0 = 0) (n pad gp : ℕ) (h : pad + n ≤ gp)
    (P : ℕ → ℕ → Cx ℝ) :
    ∑ r ∈ range gp, ∑ c ∈ range gp, φ (padC n pad P r c)
      = ∑ i ∈ range n, ∑ j ∈ range n, φ (toC (P i j)) := by
  have e1 : ∀ r c, φ (padC n pad P r c) = if pad ≤ r ∧ r < pad + n then
      (if pad ≤ c ∧ c < pad + n then φ (toC (P (r - pad) (c - pad))) else 0) else 0 := by
    intro r c
    rw [padC_eq]
    split_ifs <;> simp [h0]
  simp_rw [e1]
  have e2 : ∀ r, ∑ c ∈ range gp, (if pad ≤ r ∧ r < pad + n then
      (if pad ≤ c ∧ c < pad + n then φ (toC (P (r - pad) (c - pad))) else 0) else 0)
      = if pad ≤ r ∧ r < pad + n then ∑ j ∈ range n, φ (toC (P (r - pad) j)) else 0 := by
    intro r
    split_ifs
    · exact sum_pad n pad gp h (fun j => φ (toC (P (r - pad) j)))
    · simp
  simp_rw [e2]
  exact sum_pad n pad gp h (fun i => ∑ j ∈ range n, φ (toC (P i j)))

/-- entry (r, c) of the PSF table -/
theorem psfTabG_entry (n gp pad : ℕ) [NeZero gp] (P : ℕ → ℕ → Cx ℝ) (norm : ℝ) (r c : ℕ)
    (hr : r < gp) (hc : c < gp) :
    look2 Num.zero (psfTabG n gp pad P norm) r c
      = Complex.normSq (dft2R gp (padC n pad P) (shiftIdx gp r) (shiftIdx gp c)) / norm * 100 := by
  have hpos := NeZero.pos gp
  unfold psfTabG
  simp only []
  rw [look2_tab2 _ _ _ _ _ _ hr hc]
  unfold psfVal
  rw [cnormSq_eq]
  have : look2 czero (dft2Tab gp (tab2 gp gp (padFn n pad P))) (shiftIdx gp r) (shiftIdx gp c)
      = dft2 gp (tab2 gp gp (padFn n pad P)) (shiftIdx gp r) (shiftIdx gp c) := rfl
  rw [this, toC_dft2 _ _ _ _ (shiftIdx_lt _ _ hpos) (shiftIdx_lt _ _ hpos)]
  rw [dft2R_congr gp _ (padC n pad P) (fun r' c' hr' hc' => by
    show toC (look2 czero (tab2 gp gp (padFn n pad P)) r' c') = _
    rw [look2_tab2 _ _ _ _ _ _ hr' hc']; rfl)]
  num_real
  simp [Num.ofNat, NumReal.ofRat_eq]


lemma rmax_succ (f : ℕ → ℝ) (m : ℕ) : rmax f (m + 1) = max (rmax f m) (f (m + 1)) := by
  show (if Num.lt (rmax f m) (f (m + 1)) = true then f (m + 1) else rmax f m) = _
  split_ifs with h
  · rw [NumReal.lt_eq] at h
    exact (max_eq_right h.le).symm
  · rw [NumReal.lt_eq] at h
    exact (max_eq_left (not_lt.mp h)).symm

lemma le_rmax (f : ℕ → ℝ) (m i : ℕ) (h : i ≤ m) : f i ≤ rmax f m := by
  induction m with
  | zero => obtain rfl : i = 0 := by omega
            exact le_refl _
  | succ m ih =>
    rw [rmax_succ]
    rcases Nat.lt_or_ge i (m + 1) with h1 | h1
    · exact (ih (by omega)).trans (le_max_left _ _)
    · obtain rfl : i = m + 1 := by omega
      exact le_max_right _ _

lemma rmax_le (f : ℕ → ℝ) (m : ℕ) (v : ℝ) (h : ∀ i, i ≤ m → f i ≤ v) : rmax f m ≤ v := by
  induction m with
  | zero => exact h 0 (le_refl _)
  | succ m ih =>
    rw [rmax_succ]
    exact max_le (ih fun i hi => h i (by omega)) (h _ (le_refl _))

/-- the running maximum equals a value that is attained at index 0 and bounds every entry -/
lemma rmax_eq_first (f : ℕ → ℝ) (m : ℕ) (h : ∀ i, i ≤ m → f i ≤ f 0) : rmax f m = f 0 :=
  le_antisymm (rmax_le f m _ h) (le_rmax f m 0 (Nat.zero_le _))

lemma isZero_iff (a : ℝ) : Num.isZero a = true ↔ a = 0 := by
  unfold Num.isZero
  rw [Bool.and_eq_true, NumReal.le_eq, NumReal.le_eq, NumReal.fzero_eq]
  constructor
  · rintro ⟨h1, h2⟩; exact le_antisymm h1 h2
  · rintro rfl; exact ⟨le_refl _, le_refl _⟩

lemma isNonzero_iff (a : Cx ℝ) : isNonzero a = true ↔ toC a ≠ 0 := by
  unfold isNonzero
  rw [Bool.not_eq_true', Bool.and_eq_false_iff]
  rw [Ne, Complex.ext_iff]
  simp only [toC_re, toC_im, Complex.zero_re, Complex.zero_im]
  rw [← Bool.not_eq_true, ← Bool.not_eq_true, isZero_iff, isZero_iff]
  tauto

/-- the nominal pupil (`P_nom`) as a complex array: the indicator of the support -/
noncomputable def nomC (P : ℕ → ℕ → Cx ℝ) (r c : ℕ) : ℂ := if toC (P r c) ≠ 0 then 1 else 0

lemma toC_nominal (P : ℕ → ℕ → Cx ℝ) (r c : ℕ) : toC (nominal P r c) = nomC P r c := by
  unfold nominal nomC
  by_cases h : toC (P r c) ≠ 0
  · rw [if_pos ((isNonzero_iff _).mpr h), if_pos h]
    apply Complex.ext <;> simp [NumReal.fone_eq, NumReal.fzero_eq]
  · rw [if_neg (fun h' => h ((isNonzero_iff _).mp h')), if_neg h, toC_czero]

/-- number of non-zero pupil samples, as a real number -/
noncomputable def supportCount (n : ℕ) (P : ℕ → ℕ → Cx ℝ) : ℝ :=
  ∑ r ∈ range n, ∑ c ∈ range n, if toC (P r c) ≠ 0 then 1 else 0

lemma sum_nomC (n : ℕ) (P : ℕ → ℕ → Cx ℝ) :
    ∑ r ∈ range n, ∑ c ∈ range n, nomC P r c = (supportCount n P : ℂ) := by
  unfold supportCount nomC
  push_cast
  refine sum_congr rfl fun r _ => sum_congr rfl fun c _ => ?_
  split_ifs <;> simp

lemma sum_norm_nomC (n : ℕ) (P : ℕ → ℕ → Cx ℝ) :
    ∑ r ∈ range n, ∑ c ∈ range n, ‖nomC P r c‖ = supportCount n P := by
  unfold supportCount nomC
  refine sum_congr rfl fun r _ => sum_congr rfl fun c _ => ?_
  split_ifs <;> simp

lemma supportCount_nonneg (n : ℕ) (P : ℕ → ℕ → Cx ℝ) : 0 ≤ supportCount n P := by
  unfold supportCount
  exact sum_nonneg fun r _ => sum_nonneg fun c _ => by split_ifs <;> norm_num

theorem normFactor_eq (n : ℕ) [NeZero n] (P : ℕ → ℕ → Cx ℝ) :
    normFactor n P = supportCount n P ^ 2 := by
  have hn := NeZero.pos n
  unfold normFactor
  simp only []
  set v : ℕ → ℝ := look Num.zero (tab (n * n) fun idx =>
    cnormSq (look2 czero (dft2Tab n (tab2 n n (nominal P))) (idx / n) (idx % n))) with hv
  have hval : ∀ idx, idx < n * n → v idx = Complex.normSq (dft2R n (nomC P) (idx / n) (idx % n)) := by
    intro idx hidx
    rw [hv, look_tab _ _ _ _ hidx, cnormSq_eq]
    have h1 : idx / n < n := Nat.div_lt_of_lt_mul hidx
    have h2 : idx % n < n := Nat.mod_lt _ hn
    have : look2 czero (dft2Tab n (tab2 n n (nominal P))) (idx / n) (idx % n)
        = dft2 n (tab2 n n (nominal P)) (idx / n) (idx % n) := rfl
    rw [this, toC_dft2 _ _ _ _ h1 h2]
    rw [dft2R_congr n _ (nomC P) (fun r' c' hr' hc' => by
      show toC (look2 czero (tab2 n n (nominal P)) r' c') = _
      rw [look2_tab2 _ _ _ _ _ _ hr' hc', toC_nominal])]
  have hnn : 0 < n * n := Nat.mul_pos hn hn
  have h0 : v 0 = supportCount n P ^ 2 := by
    rw [hval 0 hnn, Nat.zero_div, Nat.zero_mod, dft2R_zero, sum_nomC, Complex.normSq_ofReal]
    ring
  rw [rmax_eq_first, h0]
  intro i hi
  rw [h0, hval i (by omega), Complex.normSq_eq_norm_sq]
  have hb := norm_dft2R_le n (nomC P) (i / n) (i % n)
  rw [sum_norm_nomC] at hb
  exact pow_le_pow_left₀ (norm_nonneg _) hb 2


/-- total energy of the PSF (2-D Parseval) -/
theorem psfTabG_sum (n gp pad : ℕ) [NeZero gp] (hp : pad + n ≤ gp) (P : ℕ → ℕ → Cx ℝ) (norm : ℝ) :
    ∑ r ∈ range gp, ∑ c ∈ range gp, look2 Num.zero (psfTabG n gp pad P norm) r c
      = (gp : ℝ) ^ 2 * (∑ i ∈ range n, ∑ j ∈ range n, Complex.normSq (toC (P i j))) / norm * 100 := by
  have e : ∀ r ∈ range gp, ∀ c ∈ range gp, look2 Num.zero (psfTabG n gp pad P norm) r c
      = Complex.normSq (dft2R gp (padC n pad P) (shiftIdx gp r) (shiftIdx gp c)) / norm * 100 :=
    fun r hr c hc => psfTabG_entry n gp pad P norm r c (mem_range.mp hr) (mem_range.mp hc)
  rw [sum_congr rfl fun r hr => sum_congr rfl fun c hc => e r hr c hc]
  simp_rw [← sum_mul, ← sum_div]
  congr 2
  have s1 : ∀ r, ∑ c ∈ range gp, Complex.normSq (dft2R gp (padC n pad P) (shiftIdx gp r) (shiftIdx gp c))
      = ∑ k2 ∈ range gp, Complex.normSq (dft2R gp (padC n pad P) (shiftIdx gp r) k2) :=
    fun r => sum_shift gp (gp - gp / 2) (fun k2 => Complex.normSq (dft2R gp (padC n pad P) (shiftIdx gp r) k2))
  simp_rw [s1]
  have s2 := sum_shift gp (gp - gp / 2) (fun k1 => ∑ k2 ∈ range gp, Complex.normSq (dft2R gp (padC n pad P) k1 k2))
  rw [show (∑ x ∈ range gp, ∑ k2 ∈ range gp, Complex.normSq (dft2R gp (padC n pad P) (shiftIdx gp x) k2))
      = ∑ k1 ∈ range gp, ∑ k2 ∈ range gp, Complex.normSq (dft2R gp (padC n pad P) k1 k2) from s2]
  rw [parseval2R, sum_padded Complex.normSq (by simp) n pad gp hp P]

/-- the central pixel is the squared modulus of the plain sum of the pupil -/
theorem psfTabG_centre (n gp pad : ℕ) [NeZero gp] (hp : pad + n ≤ gp) (P : ℕ → ℕ → Cx ℝ) (norm : ℝ) :
    look2 Num.zero (psfTabG n gp pad P norm) (gp / 2) (gp / 2)
      = Complex.normSq (∑ i ∈ range n, ∑ j ∈ range n, toC (P i j)) / norm * 100 := by
  have hpos := NeZero.pos gp
  have hc : gp / 2 < gp := Nat.div_lt_self hpos (by norm_num)
  rw [psfTabG_entry n gp pad P norm _ _ hc hc, shiftIdx_centre gp hpos, dft2R_zero,
      sum_padded (fun z => z) rfl n pad gp hp P]

/-- every pixel is bounded by the value the same amplitudes would give without phase -/
theorem psfTabG_le (n gp pad : ℕ) [NeZero gp] (hp : pad + n ≤ gp) (P : ℕ → ℕ → Cx ℝ) (norm : ℝ)
    (hn : 0 < norm) (r c : ℕ) (hr : r < gp) (hc : c < gp) :
    look2 Num.zero (psfTabG n gp pad P norm) r c
      ≤ (∑ i ∈ range n, ∑ j ∈ range n, ‖toC (P i j)‖) ^ 2 / norm * 100 := by
  rw [psfTabG_entry n gp pad P norm r c hr hc, Complex.normSq_eq_norm_sq]
  have hb := norm_dft2R_le gp (padC n pad P) (shiftIdx gp r) (shiftIdx gp c)
  rw [sum_padded (fun z => ‖z‖) norm_zero n pad gp hp P] at hb
  have := pow_le_pow_left₀ (norm_nonneg _) hb 2
  gcongr


/-- real amplitude of a pupil sample: `intensity / mean` inside the mask, 0 outside -/
noncomputable def amp (mean : ℝ) (mask : ℕ → ℕ → Bool) (I : ℕ → ℕ → ℝ) (r c : ℕ) : ℝ :=
  if mask r c then I r c / mean else 0

lemma toC_pupil (mean : ℝ) (mask : ℕ → ℕ → Bool) (I W : ℕ → ℕ → ℝ) (r c : ℕ) :
    toC (pupil mean mask I W r c)
      = (amp mean mask I r c : ℂ) * Complex.exp (((2 * π * W r c : ℝ) : ℂ) * Complex.I) := by
  unfold pupil pupilVal amp
  by_cases h : mask r c
  · simp only [h, if_true]
    apply Complex.ext
    · simp only [toC_re, Complex.mul_re, Complex.ofReal_re, Complex.ofReal_im, zero_mul, sub_zero,
        Complex.exp_ofReal_mul_I_re]
      num_real
    · simp only [toC_im, Complex.mul_im, Complex.ofReal_re, Complex.ofReal_im, zero_mul, add_zero,
        Complex.exp_ofReal_mul_I_im]
      num_real
  · simp [h, toC_czero]

lemma norm_pupil (mean : ℝ) (mask : ℕ → ℕ → Bool) (I W : ℕ → ℕ → ℝ) (r c : ℕ) :
    ‖toC (pupil mean mask I W r c)‖ = |amp mean mask I r c| := by
  rw [toC_pupil, norm_mul, Complex.norm_exp_ofReal_mul_I, mul_one, Complex.norm_real, Real.norm_eq_abs]

lemma normSq_pupil (mean : ℝ) (mask : ℕ → ℕ → Bool) (I W : ℕ → ℕ → ℝ) (r c : ℕ) :
    Complex.normSq (toC (pupil mean mask I W r c)) = amp mean mask I r c ^ 2 := by
  rw [Complex.normSq_eq_norm_sq, norm_pupil, sq_abs]

lemma pupil_ne_zero_iff (mean : ℝ) (mask : ℕ → ℕ → Bool) (I W : ℕ → ℕ → ℝ) (r c : ℕ) :
    toC (pupil mean mask I W r c) ≠ 0 ↔ amp mean mask I r c ≠ 0 := by
  rw [← norm_ne_zero_iff, norm_pupil, abs_ne_zero]

/-- the support of the pupil does not depend on the phase -/
lemma supportCount_pupil (n : ℕ) (mean : ℝ) (mask : ℕ → ℕ → Bool) (I W : ℕ → ℕ → ℝ) :
    supportCount n (pupil mean mask I W)
      = ∑ r ∈ range n, ∑ c ∈ range n, if amp mean mask I r c ≠ 0 then 1 else 0 := by
  unfold supportCount
  refine sum_congr rfl fun r _ => sum_congr rfl fun c _ => ?_
  simp only [pupil_ne_zero_iff]

/-- unaberrated pupil (`W = 0`): the samples are the real amplitudes -/
lemma toC_pupil_zero_phase (mean : ℝ) (mask : ℕ → ℕ → Bool) (I : ℕ → ℕ → ℝ) (r c : ℕ) :
    toC (pupil mean mask I (fun _ _ => 0) r c) = (amp mean mask I r c : ℂ) := by
  rw [toC_pupil]; simp

/-- modulus of the sum of the pupil ≤ sum of the amplitudes -/
lemma norm_sum_pupil_le (n : ℕ) (mean : ℝ) (mask : ℕ → ℕ → Bool) (I W : ℕ → ℕ → ℝ)
    (hA : ∀ r c, r < n → c < n → 0 ≤ amp mean mask I r c) :
    ‖∑ r ∈ range n, ∑ c ∈ range n, toC (pupil mean mask I W r c)‖
      ≤ ∑ r ∈ range n, ∑ c ∈ range n, amp mean mask I r c := by
  refine (norm_sum_le _ _).trans (sum_le_sum fun r hr => (norm_sum_le _ _).trans (le_of_eq ?_))
  refine sum_congr rfl fun c hc => ?_
  rw [norm_pupil, abs_of_nonneg (hA r c (mem_range.mp hr) (mem_range.mp hc))]

lemma strehlAt_eq (c : ℕ) (psf : ℕ → ℕ → ℝ) : strehlAt c psf = psf c c / 100 := by
  unfold strehlAt
  num_real
  simp [Num.ofNat, NumReal.ofRat_eq]


/-- the PSF as a complex array -/
noncomputable def realC (psf : ℕ → ℕ → ℝ) (r c : ℕ) : ℂ := (psf r c : ℂ)

/-- modulus of the shifted 2-D transform of the PSF: `np.abs(fftshift(fft2(psf)))[r, c]` -/
noncomputable def otfAbs (gp : ℕ) (psf : ℕ → ℕ → ℝ) (r c : ℕ) : ℝ :=
  ‖dft2R gp (realC psf) (shiftIdx gp r) (shiftIdx gp c)‖

lemma mtfData_eq (gp : ℕ) [NeZero gp] (psf : ℕ → ℕ → ℝ) (r c : ℕ) :
    mtfData gp (twTab gp) (transpose czero gp (dftRows gp (twTab gp)
        (tab2 gp gp fun r c => ofReal (psf r c)))) r c = otfAbs gp psf r c := by
  have hpos := NeZero.pos gp
  unfold mtfData otfAbs
  rw [cabs_eq, toC_dft1_col _ _ _ _ (shiftIdx_lt _ _ hpos)]
  rw [dft2R_congr gp _ (realC psf) (fun r' c' hr' hc' => by
    show toC (look2 czero (tab2 gp gp fun r c => ofReal (psf r c)) r' c') = _
    rw [look2_tab2 _ _ _ _ _ _ hr' hc', toC_ofReal]; rfl)]

/-- total of the PSF -/
noncomputable def total (gp : ℕ) (psf : ℕ → ℕ → ℝ) : ℝ := ∑ r ∈ range gp, ∑ c ∈ range gp, psf r c

lemma otfAbs_le (gp : ℕ) (psf : ℕ → ℕ → ℝ) (hp : ∀ r c, r < gp → c < gp → 0 ≤ psf r c) (r c : ℕ) :
    otfAbs gp psf r c ≤ total gp psf := by
  unfold otfAbs total
  refine (norm_dft2R_le gp (realC psf) _ _).trans (le_of_eq ?_)
  refine sum_congr rfl fun r hr => sum_congr rfl fun c hc => ?_
  unfold realC
  rw [Complex.norm_real, Real.norm_eq_abs, abs_of_nonneg (hp r c (mem_range.mp hr) (mem_range.mp hc))]

lemma otfAbs_centre (gp : ℕ) [NeZero gp] (psf : ℕ → ℕ → ℝ) (hp : ∀ r c, r < gp → c < gp → 0 ≤ psf r c) :
    otfAbs gp psf (gp / 2) (gp / 2) = total gp psf := by
  unfold otfAbs total
  rw [shiftIdx_centre gp (NeZero.pos gp), dft2R_zero]
  unfold realC
  have : (∑ j1 ∈ range gp, ∑ j2 ∈ range gp, (psf j1 j2 : ℂ)) = ((∑ j1 ∈ range gp, ∑ j2 ∈ range gp, psf j1 j2 : ℝ) : ℂ) := by
    push_cast; rfl
  rw [this, Complex.norm_real, Real.norm_eq_abs, abs_of_nonneg]
  exact sum_nonneg fun r hr => sum_nonneg fun c hc => hp r c (mem_range.mp hr) (mem_range.mp hc)

lemma otfAbs_nonneg (gp : ℕ) (psf : ℕ → ℕ → ℝ) (r c : ℕ) : 0 ≤ otfAbs gp psf r c := norm_nonneg _

/-- a slice whose first entry bounds all entries, normalised by its maximum -/
lemma normSlice_tab (s : ℕ → ℝ) (len : ℕ) (hl : 0 < len) (hmax : ∀ k, k < len → s k ≤ s 0) (k : ℕ) (hk : k < len) :
    look Num.zero (tab len (normSlice (look Num.zero (tab len s)) len)) k = s k / s 0 := by
  rw [look_tab _ _ _ _ hk]
  unfold normSlice
  rw [rmax_eq_first, look_tab _ _ _ _ hk, look_tab _ _ _ _ hl]
  intro i hi
  rw [look_tab _ _ _ _ (by omega : i < len), look_tab _ _ _ _ hl]
  exact hmax i (by omega)

/-- both normalised slices of `FFTMTF._generate_mtf_data`, started at the zero-frequency index -/
theorem mtfSlices_eq (gp : ℕ) [NeZero gp] (psf : ℕ → ℕ → ℝ)
    (hp : ∀ r c, r < gp → c < gp → 0 ≤ psf r c) (k : ℕ) (hk : k < gp - gp / 2) :
    look Num.zero (mtfSlices gp (gp / 2) psf).1 k = otfAbs gp psf (gp / 2 + k) (gp / 2) / total gp psf ∧
    look Num.zero (mtfSlices gp (gp / 2) psf).2 k = otfAbs gp psf (gp / 2) (gp / 2 + k) / total gp psf := by
  have hpos := NeZero.pos gp
  have hl : 0 < gp - gp / 2 := by omega
  unfold mtfSlices
  simp only []
  constructor
  · rw [normSlice_tab _ _ hl _ k hk]
    · unfold tanRaw
      rw [mtfData_eq, mtfData_eq, Nat.add_zero, otfAbs_centre gp psf hp]
    · intro i _
      unfold tanRaw
      rw [mtfData_eq, mtfData_eq, Nat.add_zero, otfAbs_centre gp psf hp]
      exact otfAbs_le gp psf hp _ _
  · rw [normSlice_tab _ _ hl _ k hk]
    · unfold sagRaw
      rw [mtfData_eq, mtfData_eq, Nat.add_zero, otfAbs_centre gp psf hp]
    · intro i _
      unfold sagRaw
      rw [mtfData_eq, mtfData_eq, Nat.add_zero, otfAbs_centre gp psf hp]
      exact otfAbs_le gp psf hp _ _


/-- `|DFT₂(pad P)|²` as a complex array (the unshifted, unnormalised PSF) -/
noncomputable def powerC (n gp pad : ℕ) (P : ℕ → ℕ → Cx ℝ) (k1 k2 : ℕ) : ℂ :=
  ((Complex.normSq (dft2R gp (padC n pad P) k1 k2) : ℝ) : ℂ)

/-- the modulus of the transform of the PSF table is `100/norm` times that of the transform of
`|DFT₂(pad P)|²` (`fftshift` of the PSF only multiplies its transform by a unit-modulus factor) -/
lemma otfAbs_psf (n gp pad : ℕ) [NeZero gp] (P : ℕ → ℕ → Cx ℝ) (norm : ℝ) (r c : ℕ) :
    otfAbs gp (look2 Num.zero (psfTabG n gp pad P norm)) r c
      = |100 / norm| * ‖dft2R gp (powerC n gp pad P) (shiftIdx gp r) (shiftIdx gp c)‖ := by
  unfold otfAbs
  have h1 : dft2R gp (realC (look2 Num.zero (psfTabG n gp pad P norm))) (shiftIdx gp r) (shiftIdx gp c)
      = dft2R gp (fun r' c' => ((100 / norm : ℝ) : ℂ) *
          powerC n gp pad P ((r' + (gp - gp / 2)) % gp) ((c' + (gp - gp / 2)) % gp))
          (shiftIdx gp r) (shiftIdx gp c) := by
    refine dft2R_congr gp _ _ (fun r' c' hr' hc' => ?_) _ _
    unfold realC powerC
    rw [psfTabG_entry n gp pad P norm r' c' hr' hc']
    unfold shiftIdx
    push_cast
    ring
  rw [h1, dft2R_const_mul, norm_mul, Complex.norm_real, Real.norm_eq_abs,
    norm_dft2R_shift gp (powerC n gp pad P)]

lemma padC_zero_phase (n pad : ℕ) (P P0 : ℕ → ℕ → Cx ℝ)
    (h0 : ∀ i j, toC (P0 i j) = ((‖toC (P i j)‖ : ℝ) : ℂ)) (r c : ℕ) :
    padC n pad P0 r c = ((‖padC n pad P r c‖ : ℝ) : ℂ) := by
  rw [padC_eq, padC_eq]
  split_ifs <;> simp [h0]

/-- Wiener–Khinchin + triangle inequality on the model's arrays -/
theorem otfAbs_le_zero_phase (n gp pad : ℕ) [NeZero gp] (P P0 : ℕ → ℕ → Cx ℝ)
    (h0 : ∀ i j, toC (P0 i j) = ((‖toC (P i j)‖ : ℝ) : ℂ)) (norm : ℝ) (r c : ℕ) :
    otfAbs gp (look2 Num.zero (psfTabG n gp pad P norm)) r c
      ≤ otfAbs gp (look2 Num.zero (psfTabG n gp pad P0 norm)) r c := by
  rw [otfAbs_psf, otfAbs_psf]
  refine mul_le_mul_of_nonneg_left ?_ (abs_nonneg _)
  exact norm_dft2R_normSq_le gp (padC n pad P) (padC n pad P0) (padC_zero_phase n pad P P0 h0) _ _

lemma psfTabG_nonneg (n gp pad : ℕ) [NeZero gp] (P : ℕ → ℕ → Cx ℝ) (norm : ℝ) (hn : 0 < norm)
    (r c : ℕ) (hr : r < gp) (hc : c < gp) : 0 ≤ look2 Num.zero (psfTabG n gp pad P norm) r c := by
  rw [psfTabG_entry n gp pad P norm r c hr hc]
  have := Complex.normSq_nonneg (dft2R gp (padC n pad P) (shiftIdx gp r) (shiftIdx gp c))
  positivity

lemma total_zero_phase (n gp pad : ℕ) [NeZero gp] (hfit : pad + n ≤ gp) (P P0 : ℕ → ℕ → Cx ℝ)
    (h0 : ∀ i j, toC (P0 i j) = ((‖toC (P i j)‖ : ℝ) : ℂ)) (norm : ℝ) :
    total gp (look2 Num.zero (psfTabG n gp pad P0 norm)) = total gp (look2 Num.zero (psfTabG n gp pad P norm)) := by
  unfold total
  rw [psfTabG_sum n gp pad hfit, psfTabG_sum n gp pad hfit]
  congr 3
  refine sum_congr rfl fun i _ => sum_congr rfl fun j _ => ?_
  rw [h0, Complex.normSq_ofReal, Complex.normSq_eq_norm_sq, sq]


end PsfBridge
