import OptiModel.Model.Serial
/-! Helper lemmas for C19: every component's `from_dict ∘ to_dict`.  Core Lean only. -/
set_option linter.unusedSectionVars false
namespace Serial
variable {ν : Type} [Num ν]

@[simp] theorem bind_ok {α β : Type} (a : α) (f : α → R β) : (Except.ok a >>= f) = f a := rfl
@[simp] theorem bind_error {α β : Type} (e : String) (f : α → R β) : ((Except.error e : R α) >>= f) = .error e := rfl
@[simp] theorem map_ok' {α β : Type} (f : α → β) (a : α) : Except.map f (Except.ok a : R α) = .ok (f a) := rfl
@[simp] theorem map_error' {α β : Type} (f : α → β) (e : String) : Except.map f (Except.error e : R α) = .error e := rfl
@[simp] theorem pure_ok {α : Type} (a : α) : (pure a : R α) = .ok a := rfl

theorem mapE_map {α : Type} (f : J ν → R α) (g : α → J ν) (l : List α)
    (h : ∀ a ∈ l, f (g a) = .ok a) : mapE f (l.map g) = .ok l := by
  induction l with
  | nil => rfl
  | cons a as ih =>
    have ha := h a (by simp)
    have has := ih (fun b hb => h b (by simp [hb]))
    simp [mapE, ha, has]

@[simp] theorem mapE_asNum (l : List ν) : mapE asNum (l.map J.num) = .ok l :=
  mapE_map _ _ _ (fun _ _ => rfl)

@[simp] theorem asZ_zToJ (z : ZRep ν) : asZ (zToJ z) = .ok z := by
  cases z <;> rfl

theorem frameFrom_frameKV (f : Frame ν) (ref : J ν) : frameFrom (frameKV f ref) = .ok f := by
  obtain ⟨x, y, z, rx, ry, rz⟩ := f
  simp [frameFrom, frameKV, getD, J.lookup, asNum]

theorem refOf_frameKV (f : Frame ν) (ref : J ν) :
    refOf (frameKV f ref) = some (if J.truthy ref then some (csFrom ref) else none) := by
  simp [frameKV, refOf]

theorem truthy_csToDict (c : CsRec ν) : J.truthy (csToDict c) = true := by
  cases c <;> simp [csToDict, J.truthy, frameKV]

/-- `CoordinateSystem.from_dict(cs.to_dict()) = cs` -/
theorem csFrom_csToDict (c : CsRec ν) : csFrom (csToDict c) = .ok c := by
  induction c with
  | root f =>
    simp [csToDict, csFrom, refOf_frameKV, J.truthy, frameFrom_frameKV]
  | child f r ih =>
    simp [csToDict, csFrom, refOf_frameKV, truthy_csToDict, ih, frameFrom_frameKV]

/-! ### geometries -/

theorem coefFrom_coefToJ (c : CoefRep ν) : coefFrom (coefToJ c) = .ok c := by
  cases c <;> simp [coefToJ, coefFrom, numsJ]

theorem rowFrom_numsJ (r : List ν) : rowFrom (numsJ r) = .ok r := by
  simp [rowFrom, numsJ]

/-- `np.atleast_2d(c.tolist())` gives `c` back for a non-empty rectangular matrix -/
theorem matrixFrom_matrixJ (c : List (List ν)) (h : rect c = true) : matrixFrom (matrixJ c) = .ok c := by
  cases c with
  | nil => simp [rect] at h
  | cons r rs =>
    have hm : mapE rowFrom (numsJ r :: rs.map numsJ) = .ok (r :: rs) := by
      have := mapE_map (ν := ν) rowFrom numsJ (r :: rs) (fun a _ => rowFrom_numsJ a)
      simpa using this
    simp [matrixJ, matrixFrom, isNumJ, numsJ] at hm ⊢
    simp [hm, h]

/-- a geometry as `from_dict` rebuilds it: the transient `k` of a `Plane` is not in the dictionary -/
def GeomRec.reloaded : GeomRec ν → GeomRec ν
  | .plane cs _ => .plane cs none
  | g => g

/-- matrices are what `np.atleast_2d` returns -/
def GeomRec.wf : GeomRec ν → Bool
  | .polynomial _ _ _ _ _ c => rect c
  | .chebyshev _ _ _ _ _ c _ _ => rect c
  | _ => true

theorem geomFrom_geomToDict (g : GeomRec ν) (h : g.wf = true) :
    geomFrom (geomToDict g) = .ok g.reloaded := by
  cases g with
  | plane cs k => simp [geomToDict, geomFrom, asObj, J.lookup, req, csFrom_csToDict, GeomRec.reloaded]
  | standard cs r k =>
    simp [geomToDict, geomFrom, asObj, J.lookup, req, getD, csFrom_csToDict, asNum, GeomRec.reloaded]
  | evenAsphere cs r k tol mi c =>
    simp [geomToDict, geomFrom, asObj, J.lookup, req, getD, csFrom_csToDict, asNum, coefFrom_coefToJ,
          GeomRec.reloaded]
  | polynomial cs r k tol mi c =>
    simp [GeomRec.wf] at h
    simp [geomToDict, geomFrom, asObj, J.lookup, req, getD, csFrom_csToDict, asNum, matrixFrom_matrixJ c h,
          GeomRec.reloaded]
  | chebyshev cs r k tol mi c nx ny =>
    simp [GeomRec.wf] at h
    simp [geomToDict, geomFrom, asObj, J.lookup, req, getD, csFrom_csToDict, asNum, matrixFrom_matrixJ c h,
          GeomRec.reloaded]

/-! ### materials, apertures, coatings, scatter models -/

/-- the object was made by the same catalogue lookup that `from_dict` performs -/
def MatRec.wf (env : Env ν) : MatRec ν → Prop
  | .material fn name ref robust lo hi => env.lookup name ref robust lo hi = .ok fn
  | _ => True

theorem asOptStr_optStrJ (o : Option String) : asOptStr (optStrJ o : J ν) = .ok o := by
  cases o <;> rfl
theorem asOptNum_optNumJ (o : Option ν) : asOptNum (optNumJ o) = .ok o := by
  cases o <;> rfl

theorem matFrom_matToDict (env : Env ν) (m : MatRec ν) (h : m.wf env) : matFrom env (matToDict m) = .ok m := by
  cases m with
  | ideal n k => simp [matToDict, matFrom, asObj, J.lookup, req, getD, asNum]
  | mirror => simp [matToDict, matFrom, asObj, J.lookup]
  | abbe n v => simp [matToDict, matFrom, asObj, J.lookup, req, asNum]
  | material fn name ref robust lo hi =>
    simp [MatRec.wf] at h
    simp [matToDict, matFrom, asObj, J.lookup, req, getD, asStr, asBool, asOptStr_optStrJ, asOptNum_optNumJ, h]
  | file fn => simp [matToDict, matFrom, asObj, J.lookup, req, asStr]

theorem apFrom_apToDict (a : ApRec ν) : apFrom (apToDict a) = .ok a := by
  cases a; simp [apToDict, apFrom, asObj, J.lookup, req, asStr, asNum]

theorem bsdfFrom_bsdfToDict (b : BsdfRec ν) : bsdfFrom (bsdfToDict b) = .ok b := by
  cases b <;> simp [bsdfToDict, bsdfFrom, asObj, J.lookup, req, asStr, asNum]

def CoatRec.wf (env : Env ν) : CoatRec ν → Prop
  | .simple _ _ => True
  | .fresnel pre post => pre.wf env ∧ post.wf env

/-- in memory: the material objects are handed through -/
theorem coatFrom_code (env : Env ν) (c : CoatRec ν) (h : c.wf env) :
    coatFrom .code env (coatToDict_code c) = .ok c := by
  cases c with
  | simple t r => simp [coatToDict_code, coatFrom, asObj, J.lookup, req, asStr, asNum]
  | fresnel pre post =>
    simp [CoatRec.wf] at h
    simp [coatToDict_code, coatFrom, asObj, J.lookup, req, asStr, matObj, matObjFrom, Mode.code,
          matFrom_matToDict env pre h.1, matFrom_matToDict env post h.2]

theorem matToDict_not_pyobj (m : MatRec ν) : ∀ c d, matToDict m ≠ .pyobj c d := by
  intro c d; cases m <;> simp [matToDict]

theorem matObjFrom_spec (env : Env ν) (m : MatRec ν) (h : m.wf env) :
    matObjFrom .spec env (matToDict m) = .ok m := by
  have := matFrom_matToDict env m h
  cases m <;> simpa [matObjFrom, Mode.spec, matToDict] using this

theorem coatFrom_spec (env : Env ν) (c : CoatRec ν) (h : c.wf env) :
    coatFrom .spec env (coatToDict_spec c) = .ok c := by
  cases c with
  | simple t r => simp [coatToDict_spec, coatFrom, asObj, J.lookup, req, asStr, asNum]
  | fresnel pre post =>
    simp [CoatRec.wf] at h
    simp [coatToDict_spec, coatFrom, asObj, J.lookup, req, asStr,
          matObjFrom_spec env pre h.1, matObjFrom_spec env post h.2]

/-! ### surfaces -/

theorem optFrom_optJ {α : Type} (f : J ν → R α) (g : α → J ν) (o : Option α)
    (hf : ∀ a, o = some a → f (g a) = .ok a) (ht : ∀ a, J.truthy (g a) = true) :
    optFrom f (optJ g o) = .ok o := by
  cases o with
  | none => simp [optJ, optFrom, J.truthy]
  | some a => simp [optJ, optFrom, ht a, hf a rfl]

theorem truthy_apToDict (a : ApRec ν) : J.truthy (apToDict a) = true := by
  cases a; simp [apToDict, J.truthy]
theorem truthy_bsdfToDict (a : BsdfRec ν) : J.truthy (bsdfToDict a) = true := by
  cases a <;> simp [bsdfToDict, J.truthy]
theorem truthy_coat_code (a : CoatRec ν) : J.truthy (coatToDict_code a) = true := by
  cases a <;> simp [coatToDict_code, J.truthy]
theorem truthy_coat_spec (a : CoatRec ν) : J.truthy (coatToDict_spec a) = true := by
  cases a <;> simp [coatToDict_spec, J.truthy]

def optWf {α : Type} (P : α → Prop) : Option α → Prop
  | none => True
  | some a => P a

def SurfRec.wf (env : Env ν) : SurfRec ν → Prop
  | .object g post => g.wf = true ∧ post.wf env
  | .standard g pre post _ _ coat _ _ => g.wf = true ∧ pre.wf env ∧ post.wf env ∧ optWf (CoatRec.wf env) coat
  | .image g pre _ => g.wf = true ∧ pre.wf env

def SurfRec.isImage : SurfRec ν → Bool
  | .image .. => true
  | _ => false

/-- a surface as `from_dict` rebuilds it -/
def SurfRec.reloaded : SurfRec ν → SurfRec ν
  | .object g post => .object g.reloaded post
  | .standard g pre post st ap c b r => .standard g.reloaded pre post st ap c b r
  | .image g pre ap => .image g.reloaded pre ap

theorem surfFrom_code (env : Env ν) (s : SurfRec ν) (h : s.wf env) (hi : s.isImage = false) :
    surfFrom .code env (surfToDictWith coatToDict_code s) = .ok s.reloaded := by
  cases s with
  | object g post =>
    simp [SurfRec.wf] at h
    simp [surfToDictWith, surfFrom, asObj, J.lookup, req, asStr, geomFrom_geomToDict g h.1,
          matFrom_matToDict env post h.2, SurfRec.reloaded]
  | standard g pre post st ap c b r =>
    simp [SurfRec.wf] at h
    have hc : optFrom (coatFrom .code env) (optJ coatToDict_code c) = .ok c :=
      optFrom_optJ _ _ c (fun a ha => coatFrom_code env a (by subst ha; exact h.2.2.2)) truthy_coat_code
    have ha : optFrom apFrom (optJ apToDict ap) = .ok ap :=
      optFrom_optJ _ _ ap (fun a _ => apFrom_apToDict a) truthy_apToDict
    have hb : optFrom bsdfFrom (optJ bsdfToDict b) = .ok b :=
      optFrom_optJ _ _ b (fun a _ => bsdfFrom_bsdfToDict a) truthy_bsdfToDict
    simp [surfToDictWith, surfFrom, asObj, J.lookup, req, asStr, asBool, geomFrom_geomToDict g h.1,
          matFrom_matToDict env pre h.2.1, matFrom_matToDict env post h.2.2.1, hc, ha, hb, SurfRec.reloaded]
  | image g pre ap => simp [SurfRec.isImage] at hi

theorem bind_eq_ok {α β : Type} {x : R α} {f : α → R β} {b : β} (h : (x >>= f) = .ok b) :
    ∃ a, x = .ok a ∧ f a = .ok b := by
  cases x with
  | error e => simp at h
  | ok a => exact ⟨a, rfl, by simpa using h⟩

@[simp] theorem optFrom_null {α : Type} (f : J ν → R α) : optFrom f .null = .ok none := by
  simp [optFrom, J.truthy]

/-- whatever else the dictionary holds: type tag `ImageSurface` ⇒ the code raises -/
theorem surfFrom_code_imageType (env : Env ν) (kv : List (String × J ν))
    (h : J.lookup "type" kv = some (.str "ImageSurface")) : ∀ s, surfFrom .code env (.obj kv) ≠ .ok s := by
  intro s hs
  unfold surfFrom at hs
  simp only [asObj, bind_ok, h, asStr] at hs
  simp only [String.reduceEq, ↓reduceIte] at hs
  repeat (obtain ⟨_, _, hs⟩ := bind_eq_ok hs)
  simp [Mode.code] at hs

/-- the code cannot rebuild an `ImageSurface` -/
theorem surfFrom_code_image (env : Env ν) (g : GeomRec ν) (pre : MatRec ν) (ap : Option (ApRec ν)) :
    ∀ s, surfFrom .code env (surfToDictWith coatToDict_code (.image g pre ap)) ≠ .ok s := by
  apply surfFrom_code_imageType
  simp [J.lookup]

theorem surfFrom_spec (env : Env ν) (s : SurfRec ν) (h : s.wf env) :
    surfFrom .spec env (surfToDictWith coatToDict_spec s) = .ok s.reloaded := by
  cases s with
  | object g post =>
    simp [SurfRec.wf] at h
    simp [surfToDictWith, surfFrom, asObj, J.lookup, req, asStr, geomFrom_geomToDict g h.1,
          matFrom_matToDict env post h.2, SurfRec.reloaded]
  | standard g pre post st ap c b r =>
    simp [SurfRec.wf] at h
    have hc : optFrom (coatFrom .spec env) (optJ coatToDict_spec c) = .ok c :=
      optFrom_optJ _ _ c (fun a ha => coatFrom_spec env a (by subst ha; exact h.2.2.2)) truthy_coat_spec
    have ha : optFrom apFrom (optJ apToDict ap) = .ok ap :=
      optFrom_optJ _ _ ap (fun a _ => apFrom_apToDict a) truthy_apToDict
    have hb : optFrom bsdfFrom (optJ bsdfToDict b) = .ok b :=
      optFrom_optJ _ _ b (fun a _ => bsdfFrom_bsdfToDict a) truthy_bsdfToDict
    simp [surfToDictWith, surfFrom, asObj, J.lookup, req, asStr, asBool, geomFrom_geomToDict g h.1,
          matFrom_matToDict env pre h.2.1, matFrom_matToDict env post h.2.2.1, hc, ha, hb, SurfRec.reloaded]
  | image g pre ap =>
    simp [SurfRec.wf] at h
    have ha : optFrom apFrom (optJ apToDict ap) = .ok ap :=
      optFrom_optJ _ _ ap (fun a _ => apFrom_apToDict a) truthy_apToDict
    simp [surfToDictWith, surfFrom, asObj, J.lookup, req, asStr, asBool, geomFrom_geomToDict g h.1,
          matFrom_matToDict env pre h.2, ha, Mode.spec, SurfRec.reloaded]

/-! ### fields, wavelengths, polarization, aperture, pickups, solves -/

theorem fieldFrom_fieldToDict (f : FieldRec ν) : fieldFrom (fieldToDict f) = .ok f := by
  obtain ⟨ft, x, y, vx, vy⟩ := f
  simp [fieldToDict, fieldFrom, asObj, J.lookup, getD, asNum, asOptStr_optStrJ]

theorem pickFrom_pickToDict (p : PickRec ν) : pickFrom (pickToDict p) = .ok p := by
  obtain ⟨src, attr, tgt, sc, off⟩ := p
  cases attr <;> simp [pickToDict, pickFrom, asObj, J.lookup, req, getD, asNum, asNat, asStr, PickAttr.name,
    PickAttr.parse]

theorem solveFrom_solveToDict (s : SolveRec ν) : solveFrom (solveToDict s) = .ok s := by
  obtain ⟨i, h⟩ := s
  simp [solveToDict, solveFrom, asObj, J.lookup, req, asNum, asNat, asStr]

def allFalse (l : List (WaveRec ν)) : Prop := ∀ w ∈ l, w.primary = false

theorem eta_false (w : WaveRec ν) (h : w.primary = false) : ({ w with primary := false } : WaveRec ν) = w := by
  cases w; simp at h; simp [h]
theorem eta_true (w : WaveRec ν) (h : w.primary = true) : ({ w with primary := true } : WaveRec ν) = w := by
  cases w; simp at h; simp [h]

theorem foldl_addWave_allFalse (l acc : List (WaveRec ν)) (hacc : acc ≠ []) (hl : allFalse l) :
    l.foldl addWave acc = acc ++ l := by
  induction l generalizing acc with
  | nil => simp
  | cons w ws ih =>
    have hw : w.primary = false := hl w (by simp)
    have hws : allFalse ws := fun v hv => hl v (by simp [hv])
    have h1 : addWave acc w = acc ++ [w] := by
      cases acc with
      | nil => exact absurd rfl hacc
      | cons a as => simp [addWave, hw, eta_false w hw]
    simp only [List.foldl_cons, h1]
    rw [ih (acc ++ [w]) (by simp) hws]
    simp

theorem map_clear_allFalse (l : List (WaveRec ν)) (h : allFalse l) : l.map clearPrimary = l := by
  induction l with
  | nil => rfl
  | cons w ws ih =>
    have hw : w.primary = false := h w (by simp)
    simp [clearPrimary, eta_false w hw, ih (fun v hv => h v (by simp [hv]))]

/-- exactly one primary wavelength: the list is a fixed point of replaying `add_wavelength` -/
theorem foldl_addWave_wf (l1 l2 : List (WaveRec ν)) (w : WaveRec ν) (h1 : allFalse l1) (hw : w.primary = true)
    (h2 : allFalse l2) : (l1 ++ [w] ++ l2).foldl addWave [] = l1 ++ [w] ++ l2 := by
  cases l1 with
  | nil =>
    have : addWave [] w = [w] := by simp [addWave, hw, eta_true w hw]
    simp only [List.nil_append, List.cons_append, List.foldl_cons, this]
    exact foldl_addWave_allFalse l2 [w] (by simp) h2
  | cons a as =>
    have ha : a.primary = false := h1 a (by simp)
    have has : allFalse as := fun v hv => h1 v (by simp [hv])
    have e0 : addWave [] a = [{ a with primary := true }] := by simp [addWave, ha]
    have e1 : as.foldl addWave [{ a with primary := true }] = { a with primary := true } :: as := by
      simpa using foldl_addWave_allFalse as [{ a with primary := true }] (by simp) has
    have e2 : addWave ({ a with primary := true } :: as) w = a :: as ++ [w] := by
      simp [addWave, hw, clearPrimary, eta_false a ha, map_clear_allFalse as has, eta_true w hw]
    have e3 : l2.foldl addWave (a :: as ++ [w]) = (a :: as ++ [w]) ++ l2 :=
      foldl_addWave_allFalse l2 _ (by simp) h2
    simp only [List.cons_append, List.foldl_cons, List.foldl_append, List.nil_append, e0, e1, e2]
    simpa using e3

theorem waveArgs_waveToDict (w : WaveRec ν) : waveArgs (waveToDict w) = .ok w := by
  obtain ⟨v, p, u⟩ := w
  cases u <;> simp [waveToDict, waveArgs, asObj, J.lookup, req, getD, asNum, asBool, asStr, WUnit.name, WUnit.parse]

/-- the flags of a wavelength list: none, or exactly one primary -/
def WavesWf (ws : List (WaveRec ν)) : Prop :=
  ws = [] ∨ ∃ l1 w l2, ws = l1 ++ [w] ++ l2 ∧ allFalse l1 ∧ w.primary = true ∧ allFalse l2

theorem wavesFrom_waves (ws : List (WaveRec ν)) (h : WavesWf ws) :
    wavesFrom (ws.map waveToDict) = .ok ws := by
  have hm : mapE waveArgs (ws.map waveToDict) = .ok ws := mapE_map _ _ _ (fun a _ => waveArgs_waveToDict a)
  rcases h with rfl | ⟨l1, w, l2, rfl, h1, hw, h2⟩
  · simp [wavesFrom, mapE]
  · simp only [wavesFrom, hm, map_ok', foldl_addWave_wf l1 l2 w h1 hw h2]

theorem polFrom_code (p : PolRec ν) : polFrom .code (polToJ_code p) = .ok p := by
  cases p <;> simp [polToJ_code, polFrom, Mode.code, req, J.lookup, asBool, asOptNum_optNumJ]

theorem polFrom_spec (p : PolRec ν) : polFrom .spec (polToJ_spec p) = .ok p := by
  cases p <;> simp [polToJ_spec, polFrom, Mode.spec, req, J.lookup, asBool, asOptNum_optNumJ]

/-! ### the lens -/

theorem ApType_parse_name (t : ApType) : ApType.parse t.name = .ok t := by
  cases t <;> simp [ApType.name, ApType.parse]

def SysAp.wf (a : SysAp ν) : Prop := ¬ ((a.ty = .EPD ∨ a.ty = .imageFNO) ∧ a.telecentric = true)

theorem sysApFrom_some (m : Mode) (a : SysAp ν) (h : a.wf) :
    sysApFrom m (optJ sysApToDict (some a)) = .ok (some a) := by
  obtain ⟨ty, v, tele⟩ := a
  simp only [SysAp.wf] at h
  simp [optJ, sysApToDict, sysApFrom, req, J.lookup, getD, asStr, asNum, asBool, ApType_parse_name, h]

theorem sysApFrom_none_code : sysApFrom Mode.code (optJ sysApToDict (none : Option (SysAp ν))) =
    .error "TypeError: 'NoneType' object is not iterable" := by
  simp [optJ, sysApFrom, Mode.code]

theorem sysApFrom_none_spec : sysApFrom Mode.spec (optJ sysApToDict (none : Option (SysAp ν))) = .ok none := by
  simp [optJ, sysApFrom, Mode.spec]

/-- every component is what its constructor makes it -/
structure Wf (env : Env ν) (p : LensRec ν) : Prop where
  surfaces : ∀ s ∈ p.surfaces, s.wf env
  waves : WavesWf p.waves
  aperture : ∀ a, p.aperture = some a → a.wf

def reloadedSurfaces (p : LensRec ν) : List (SurfRec ν) := p.surfaces.map SurfRec.reloaded

theorem mapE_surf_code (env : Env ν) (ss : List (SurfRec ν)) (h : ∀ s ∈ ss, s.wf env)
    (hi : ∀ s ∈ ss, s.isImage = false) :
    mapE (surfFrom .code env) (ss.map (surfToDictWith coatToDict_code)) = .ok (ss.map SurfRec.reloaded) := by
  induction ss with
  | nil => rfl
  | cons a as ih =>
    have ha := surfFrom_code env a (h a (by simp)) (hi a (by simp))
    have has := ih (fun s hs => h s (by simp [hs])) (fun s hs => hi s (by simp [hs]))
    simp [mapE, ha, has]

theorem mapE_surf_spec (env : Env ν) (ss : List (SurfRec ν)) (h : ∀ s ∈ ss, s.wf env) :
    mapE (surfFrom .spec env) (ss.map (surfToDictWith coatToDict_spec)) = .ok (ss.map SurfRec.reloaded) := by
  induction ss with
  | nil => rfl
  | cons a as ih =>
    have ha := surfFrom_spec env a (h a (by simp))
    have has := ih (fun s hs => h s (by simp [hs]))
    simp [mapE, ha, has]

theorem mapE_ok_mem {α β : Type} (f : α → R β) (l : List α) (bs : List β) (h : mapE f l = .ok bs) :
    ∀ a ∈ l, ∃ b, f a = .ok b := by
  induction l generalizing bs with
  | nil => intro a ha; simp at ha
  | cons x xs ih =>
    intro a ha
    simp only [mapE] at h
    cases hx : f x with
    | error e => simp [hx] at h
    | ok b =>
      cases hxs : mapE f xs with
      | error e => simp [hx, hxs] at h
      | ok bs' =>
        rcases List.mem_cons.mp ha with rfl | hmem
        · exact ⟨b, hx⟩
        · exact ih bs' hxs a hmem

/-- `Optic.from_dict(lens.to_dict())` as the tree computes it: everything comes back as it was, except that a
`Plane` loses the attribute `set_conic` may have left on it and that every pickup is applied once more -/
theorem fromDict_toDict_code_general (env : Env ν) (p : LensRec ν) (h : Wf env p) (a : SysAp ν)
    (hap : p.aperture = some a) (hi : ∀ s ∈ p.surfaces, s.isImage = false) :
    fromDict_code env (toDict_code p) =
      (applyPickups true (reloadedSurfaces p) p.pickups).map (fun ss => { p with surfaces := ss }) := by
  obtain ⟨ap, surfaces, fields, fgTele, ft, tele, waves, pol, pickups, solves⟩ := p
  simp only at hap hi
  subst hap
  have h1 := mapE_surf_code env surfaces h.surfaces hi
  have h2 : mapE fieldFrom (fields.map fieldToDict) = .ok fields := mapE_map _ _ _ (fun f _ => fieldFrom_fieldToDict f)
  have h3 := wavesFrom_waves waves h.waves
  have h4 : mapE pickFrom (pickups.map pickToDict) = .ok pickups := mapE_map _ _ _ (fun f _ => pickFrom_pickToDict f)
  have h5 : mapE solveFrom (solves.map solveToDict) = .ok solves := mapE_map _ _ _ (fun f _ => solveFrom_solveToDict f)
  have h6 := sysApFrom_some Mode.code a (h.aperture a rfl)
  simp only [fromDict_code, toDict_code, fromDictWith, toDictWith, asObj, req, J.lookup, asArr, bind_ok,
    String.reduceEq, ↓reduceIte, h1, h2, h3, h4, h5, h6, polFrom_code, asOptStr_optStrJ, asBool,
    show Mode.code.reapplyPickups = true from rfl, reloadedSurfaces]
  cases applyPickups true (surfaces.map SurfRec.reloaded) pickups <;> simp

theorem fromDict_toDict_spec_general (env : Env ν) (p : LensRec ν) (h : Wf env p) :
    fromDict_spec env (toDict_spec p) = .ok { p with surfaces := reloadedSurfaces p } := by
  obtain ⟨ap, surfaces, fields, fgTele, ft, tele, waves, pol, pickups, solves⟩ := p
  have h1 := mapE_surf_spec env surfaces h.surfaces
  have h2 : mapE fieldFrom (fields.map fieldToDict) = .ok fields := mapE_map _ _ _ (fun f _ => fieldFrom_fieldToDict f)
  have h3 := wavesFrom_waves waves h.waves
  have h4 : mapE pickFrom (pickups.map pickToDict) = .ok pickups := mapE_map _ _ _ (fun f _ => pickFrom_pickToDict f)
  have h5 : mapE solveFrom (solves.map solveToDict) = .ok solves := mapE_map _ _ _ (fun f _ => solveFrom_solveToDict f)
  have h6 : sysApFrom Mode.spec (optJ sysApToDict ap) = .ok ap := by
    cases ap with
    | none => exact sysApFrom_none_spec
    | some a => exact sysApFrom_some Mode.spec a (h.aperture a rfl)
  simp only [fromDict_spec, toDict_spec, fromDictWith, toDictWith, asObj, req, J.lookup, asArr, bind_ok,
    String.reduceEq, ↓reduceIte, h1, h2, h3, h4, h5, h6, polFrom_spec, asOptStr_optStrJ, asBool,
    show Mode.spec.reapplyPickups = false from rfl, reloadedSurfaces]
  simp

/-- the dictionary does not depend on the transient `k` of a `Plane` -/
theorem geomToDict_reloaded (g : GeomRec ν) : geomToDict g.reloaded = geomToDict g := by
  cases g <;> rfl

theorem surfToDict_reloaded (coat : CoatRec ν → J ν) (s : SurfRec ν) :
    surfToDictWith coat s.reloaded = surfToDictWith coat s := by
  cases s <;> simp [SurfRec.reloaded, surfToDictWith, geomToDict_reloaded]

theorem toDictWith_reloaded (coat : CoatRec ν → J ν) (pol : PolRec ν → J ν) (p : LensRec ν) :
    toDictWith coat pol { p with surfaces := reloadedSurfaces p } = toDictWith coat pol p := by
  simp [toDictWith, reloadedSurfaces, List.map_map, Function.comp_def, surfToDict_reloaded]

theorem reloaded_idem (s : SurfRec ν) : s.reloaded.reloaded = s.reloaded := by
  cases s with
  | object g post => cases g <;> rfl
  | standard g pre post st ap c b r => cases g <;> rfl
  | image g pre ap => cases g <;> rfl

/-! ### what `json.dump` accepts -/

def ZRep.isScalar : ZRep ν → Bool
  | .scalar _ => true
  | .arr1 _ => false

def CsRec.zScalar : CsRec ν → Bool
  | .root f => f.z.isScalar
  | .child f r => f.z.isScalar && r.zScalar

def CoefRep.isList : CoefRep ν → Bool
  | .list _ => true
  | .ndarray _ => false

def GeomRec.jsonable : GeomRec ν → Bool
  | .evenAsphere cs _ _ _ _ c => cs.zScalar && c.isList
  | g => g.cs.zScalar

def CoatRec.isSimple : CoatRec ν → Bool
  | .simple .. => true
  | .fresnel .. => false

def optAll {α : Type} (f : α → Bool) : Option α → Bool
  | none => true
  | some a => f a

def SurfRec.jsonableWith (coatOk : CoatRec ν → Bool) : SurfRec ν → Bool
  | .standard g _ _ _ _ c _ _ => g.jsonable && optAll coatOk c
  | s => s.geom.jsonable

def PolRec.isIgnore : PolRec ν → Bool
  | .ignore => true
  | .state .. => false

/-- the lenses whose dictionary form the code can write to a file -/
def jsonable_code (p : LensRec ν) : Bool :=
  p.surfaces.all (SurfRec.jsonableWith CoatRec.isSimple) && p.polarization.isIgnore

/-- after the repairs of `FresnelCoating.to_dict` and of the polarization entry -/
def jsonable_spec (p : LensRec ν) : Bool :=
  p.surfaces.all (SurfRec.jsonableWith fun _ => true)

theorem jsonOkL_map {α : Type} (f : α → J ν) (l : List α) : J.jsonOkL (l.map f) = l.all (fun a => (f a).jsonOk) := by
  induction l with
  | nil => rfl
  | cons a as ih => simp [J.jsonOkL, ih]

@[simp] theorem jsonOk_numsJ (l : List ν) : (numsJ l).jsonOk = true := by
  simp [numsJ, J.jsonOk, jsonOkL_map]

@[simp] theorem jsonOk_matrixJ (m : List (List ν)) : (matrixJ m).jsonOk = true := by
  simp [matrixJ, J.jsonOk, jsonOkL_map]

@[simp] theorem jsonOk_optNumJ (o : Option ν) : (optNumJ o).jsonOk = true := by
  cases o <;> simp [optNumJ, optJ, J.jsonOk]
@[simp] theorem jsonOk_optStrJ (o : Option String) : (optStrJ o : J ν).jsonOk = true := by
  cases o <;> simp [optStrJ, optJ, J.jsonOk]

theorem jsonOk_zToJ (z : ZRep ν) : (zToJ z).jsonOk = z.isScalar := by
  cases z <;> simp [zToJ, J.jsonOk, ZRep.isScalar]

theorem jsonOk_csToDict (c : CsRec ν) : (csToDict c).jsonOk = c.zScalar := by
  induction c with
  | root f => simp [csToDict, frameKV, J.jsonOk, J.jsonOkKV, jsonOk_zToJ, CsRec.zScalar]
  | child f r ih => simp [csToDict, frameKV, J.jsonOk, J.jsonOkKV, jsonOk_zToJ, CsRec.zScalar, ih]

theorem jsonOk_geomToDict (g : GeomRec ν) : (geomToDict g).jsonOk = g.jsonable := by
  cases g with
  | evenAsphere cs r k t m c =>
    cases c <;> simp [geomToDict, J.jsonOk, J.jsonOkKV, jsonOk_csToDict, GeomRec.jsonable, coefToJ, CoefRep.isList]
  | _ => simp [geomToDict, J.jsonOk, J.jsonOkKV, jsonOk_csToDict, GeomRec.jsonable, GeomRec.cs]

@[simp] theorem jsonOk_matToDict (m : MatRec ν) : (matToDict m).jsonOk = true := by
  cases m <;> simp [matToDict, J.jsonOk, J.jsonOkKV]

@[simp] theorem jsonOk_apToDict (a : ApRec ν) : (apToDict a).jsonOk = true := by
  cases a; simp [apToDict, J.jsonOk, J.jsonOkKV]

@[simp] theorem jsonOk_bsdfToDict (a : BsdfRec ν) : (bsdfToDict a).jsonOk = true := by
  cases a <;> simp [bsdfToDict, J.jsonOk, J.jsonOkKV]

theorem jsonOk_coat_code (c : CoatRec ν) : (coatToDict_code c).jsonOk = c.isSimple := by
  cases c <;> simp [coatToDict_code, J.jsonOk, J.jsonOkKV, matObj, CoatRec.isSimple]

@[simp] theorem jsonOk_coat_spec (c : CoatRec ν) : (coatToDict_spec c).jsonOk = true := by
  cases c <;> simp [coatToDict_spec, J.jsonOk, J.jsonOkKV]

theorem jsonOk_optJ {α : Type} (f : α → J ν) (ok : α → Bool) (h : ∀ a, (f a).jsonOk = ok a) (o : Option α) :
    (optJ f o).jsonOk = optAll ok o := by
  cases o <;> simp [optJ, optAll, J.jsonOk, h]

theorem jsonOk_surfToDict (coat : CoatRec ν → J ν) (ok : CoatRec ν → Bool) (h : ∀ c, (coat c).jsonOk = ok c)
    (s : SurfRec ν) : (surfToDictWith coat s).jsonOk = s.jsonableWith ok := by
  cases s with
  | object g post => simp [surfToDictWith, J.jsonOk, J.jsonOkKV, jsonOk_geomToDict, SurfRec.jsonableWith, SurfRec.geom]
  | standard g pre post st ap c b r =>
    have hc := jsonOk_optJ coat ok h c
    have ha := jsonOk_optJ apToDict (fun _ => true) jsonOk_apToDict ap
    have hb := jsonOk_optJ bsdfToDict (fun _ => true) jsonOk_bsdfToDict b
    have t1 : optAll (fun _ : ApRec ν => true) ap = true := by cases ap <;> rfl
    have t2 : optAll (fun _ : BsdfRec ν => true) b = true := by cases b <;> rfl
    simp [surfToDictWith, J.jsonOk, J.jsonOkKV, jsonOk_geomToDict, SurfRec.jsonableWith, hc, ha, hb, t1, t2]
  | image g pre ap =>
    have ha := jsonOk_optJ apToDict (fun _ => true) jsonOk_apToDict ap
    have t1 : optAll (fun _ : ApRec ν => true) ap = true := by cases ap <;> rfl
    simp [surfToDictWith, J.jsonOk, J.jsonOkKV, jsonOk_geomToDict, SurfRec.jsonableWith, SurfRec.geom, ha, t1]

theorem jsonOk_field (f : FieldRec ν) : (fieldToDict f).jsonOk = true := by
  simp [fieldToDict, J.jsonOk, J.jsonOkKV]
theorem jsonOk_wave (f : WaveRec ν) : (waveToDict f).jsonOk = true := by
  simp [waveToDict, J.jsonOk, J.jsonOkKV]
theorem jsonOk_pick (f : PickRec ν) : (pickToDict f).jsonOk = true := by
  simp [pickToDict, J.jsonOk, J.jsonOkKV]
theorem jsonOk_solve (f : SolveRec ν) : (solveToDict f).jsonOk = true := by
  simp [solveToDict, J.jsonOk, J.jsonOkKV]
theorem jsonOk_sysAp (o : Option (SysAp ν)) : (optJ sysApToDict o).jsonOk = true := by
  cases o <;> simp [optJ, sysApToDict, J.jsonOk, J.jsonOkKV]

theorem jsonOk_pol_code (p : PolRec ν) : (polToJ_code p).jsonOk = p.isIgnore := by
  cases p <;> simp [polToJ_code, J.jsonOk, PolRec.isIgnore]
theorem jsonOk_pol_spec (p : PolRec ν) : (polToJ_spec p).jsonOk = true := by
  cases p <;> simp [polToJ_spec, J.jsonOk, J.jsonOkKV]

theorem jsonOk_toDictWith (coat : CoatRec ν → J ν) (ok : CoatRec ν → Bool) (h : ∀ c, (coat c).jsonOk = ok c)
    (pol : PolRec ν → J ν) (p : LensRec ν) :
    (toDictWith coat pol p).jsonOk = (p.surfaces.all (SurfRec.jsonableWith ok) && (pol p.polarization).jsonOk) := by
  simp [toDictWith, J.jsonOk, J.jsonOkKV, jsonOkL_map, jsonOk_surfToDict coat ok h, jsonOk_field, jsonOk_wave,
        jsonOk_pick, jsonOk_solve, jsonOk_sysAp]
  have t {α : Type} (l : List α) : (l.all fun _ => true) = true := by induction l <;> simp_all
  simp [t]

/-! ### edits and serialisability -/

theorem all_mapIdx {α : Type} (l : List α) (f : Nat → α → α) (P : α → Bool)
    (h : ∀ i s, s ∈ l → P (f i s) = true) : (l.mapIdx f).all P = true := by
  rw [List.all_eq_true]
  intro x hx
  rw [List.mem_mapIdx] at hx
  obtain ⟨i, hi, rfl⟩ := hx
  exact h i _ (List.getElem_mem hi)

theorem all_modifyAt {α : Type} (l : List α) (k : Nat) (f : α → α) (P : α → Bool) (hl : l.all P = true)
    (h : ∀ s, P s = true → P (f s) = true) : (modifyAt l k f).all P = true := by
  rw [List.all_eq_true] at hl
  apply all_mapIdx
  intro i s hs
  by_cases hik : i = k <;> simp [hik, h s (hl s hs), hl s hs]

def CsRec.tailScalar : CsRec ν → Bool
  | .root _ => true
  | .child _ r => r.zScalar

def GeomRec.coefOk : GeomRec ν → Bool
  | .evenAsphere _ _ _ _ _ c => c.isList
  | _ => true

def SurfRec.coatPart (ok : CoatRec ν → Bool) : SurfRec ν → Bool
  | .standard _ _ _ _ _ c _ _ => optAll ok c
  | _ => true

/-- everything `jsonableWith` looks at except the representation of the surface's own `cs.z` -/
def SurfRec.rest (ok : CoatRec ν → Bool) (s : SurfRec ν) : Bool :=
  s.geom.cs.tailScalar && s.geom.coefOk && s.coatPart ok

def SurfRec.headScalar (s : SurfRec ν) : Bool := s.geom.cs.frame.z.isScalar

theorem zScalar_split (c : CsRec ν) : c.zScalar = (c.frame.z.isScalar && c.tailScalar) := by
  cases c <;> simp [CsRec.zScalar, CsRec.frame, CsRec.tailScalar]

theorem geom_jsonable_split (g : GeomRec ν) : g.jsonable = (g.cs.zScalar && g.coefOk) := by
  cases g <;> simp [GeomRec.jsonable, GeomRec.cs, GeomRec.coefOk]

theorem jsonableWith_split (ok : CoatRec ν → Bool) (s : SurfRec ν) :
    s.jsonableWith ok = (s.headScalar && s.rest ok) := by
  cases s <;> simp [SurfRec.jsonableWith, SurfRec.headScalar, SurfRec.rest, SurfRec.geom, SurfRec.coatPart,
    geom_jsonable_split, zScalar_split, Bool.and_assoc]

@[simp] theorem geom_setGeom (s : SurfRec ν) (g : GeomRec ν) : (s.setGeom g).geom = g := by cases s <;> rfl
@[simp] theorem coatPart_setGeom (ok : CoatRec ν → Bool) (s : SurfRec ν) (g : GeomRec ν) :
    (s.setGeom g).coatPart ok = s.coatPart ok := by cases s <;> rfl
@[simp] theorem cs_setCs (g : GeomRec ν) (c : CsRec ν) : (g.setCs c).cs = c := by cases g <;> rfl
@[simp] theorem coefOk_setCs (g : GeomRec ν) (c : CsRec ν) : (g.setCs c).coefOk = g.coefOk := by cases g <;> rfl
@[simp] theorem frame_setFrame (c : CsRec ν) (f : Frame ν) : (c.setFrame f).frame = f := by cases c <;> rfl
@[simp] theorem tail_setFrame (c : CsRec ν) (f : Frame ν) : (c.setFrame f).tailScalar = c.tailScalar := by
  cases c <;> rfl
@[simp] theorem cs_setRadius (g : GeomRec ν) (v : ν) : (g.setRadius v).cs = g.cs := by cases g <;> rfl
@[simp] theorem coefOk_setRadius (g : GeomRec ν) (v : ν) : (g.setRadius v).coefOk = g.coefOk := by cases g <;> rfl
@[simp] theorem cs_setConic (g : GeomRec ν) (v : ν) : (g.setConic v).cs = g.cs := by cases g <;> rfl
@[simp] theorem coefOk_setConic (g : GeomRec ν) (v : ν) : (g.setConic v).coefOk = g.coefOk := by cases g <;> rfl

theorem rest_mapFrame (ok : CoatRec ν → Bool) (s : SurfRec ν) (f : Frame ν → Frame ν) :
    (mapFrame s f).rest ok = s.rest ok := by simp [mapFrame, SurfRec.rest]
theorem head_mapFrame (s : SurfRec ν) (f : Frame ν → Frame ν) :
    (mapFrame s f).headScalar = (f s.geom.cs.frame).z.isScalar := by simp [mapFrame, SurfRec.headScalar]

theorem jsonable_mapFrame (ok : CoatRec ν → Bool) (s : SurfRec ν) (f : Frame ν → Frame ν)
    (hs : s.jsonableWith ok = true) (hf : (f s.geom.cs.frame).z.isScalar = true) :
    (mapFrame s f).jsonableWith ok = true := by
  rw [jsonableWith_split] at hs ⊢
  simp only [Bool.and_eq_true] at hs
  simp [rest_mapFrame, head_mapFrame, hf, hs.2]

theorem jsonable_setRadius (ok : CoatRec ν → Bool) (s : SurfRec ν) (v : ν) (hs : s.jsonableWith ok = true) :
    (s.setGeom (s.geom.setRadius v)).jsonableWith ok = true := by
  rw [jsonableWith_split] at hs ⊢
  simpa [SurfRec.rest, SurfRec.headScalar] using hs

theorem jsonable_setConic (ok : CoatRec ν → Bool) (s : SurfRec ν) (v : ν) (hs : s.jsonableWith ok = true) :
    (s.setGeom (s.geom.setConic v)).jsonableWith ok = true := by
  rw [jsonableWith_split] at hs ⊢
  simpa [SurfRec.rest, SurfRec.headScalar] using hs

theorem jsonable_setZ_false (ok : CoatRec ν → Bool) (s : SurfRec ν) (v : ν) (hs : s.jsonableWith ok = true) :
    (setZ false s v).jsonableWith ok = true := by
  rw [jsonableWith_split] at hs ⊢
  simp only [Bool.and_eq_true] at hs
  have := hs.2
  simp only [SurfRec.rest] at this ⊢
  simpa [setZ, SurfRec.headScalar, mkZ, ZRep.isScalar] using this

abbrev AllOk (ok : CoatRec ν → Bool) (ss : List (SurfRec ν)) : Prop := ss.all (SurfRec.jsonableWith ok) = true

theorem setRadiusAt_pres (ok : CoatRec ν → Bool) (ss ss' : List (SurfRec ν)) (v : ν) (k : Nat) (h : AllOk ok ss)
    (e : setRadiusAt ss v k = .ok ss') : AllOk ok ss' := by
  unfold setRadiusAt at e
  split at e
  · cases e; exact all_modifyAt _ _ _ _ h (fun s hs => jsonable_setRadius ok s v hs)
  · cases e

theorem setConicAt_pres (ok : CoatRec ν → Bool) (ss ss' : List (SurfRec ν)) (v : ν) (k : Nat) (h : AllOk ok ss)
    (e : setConicAt ss v k = .ok ss') : AllOk ok ss' := by
  unfold setConicAt at e
  split at e
  · cases e; exact all_modifyAt _ _ _ _ h (fun s hs => jsonable_setConic ok s v hs)
  · cases e

theorem setThickness_false_pres (ok : CoatRec ν → Bool) (ss ss' : List (SurfRec ν)) (v : ν) (k : Nat)
    (h : AllOk ok ss) (e : setThickness false ss v k = .ok ss') : AllOk ok ss' := by
  unfold setThickness at e
  obtain ⟨pos, _, e⟩ := bind_eq_ok e
  split at e
  · cases e
    rw [AllOk, List.all_eq_true] at h
    exact all_mapIdx _ _ _ (fun i s hs => jsonable_setZ_false ok s _ (h s hs))
  · cases e

/-- a pickup keeps the lens writable unless it is a thickness pickup under the array-storing `set_thickness` -/
theorem applyPickup_pres (arrays : Bool) (ok : CoatRec ν → Bool) (ss ss' : List (SurfRec ν)) (q : PickRec ν)
    (hq : arrays = false ∨ q.attr ≠ .thickness) (h : AllOk ok ss) (e : applyPickup arrays ss q = .ok ss') :
    AllOk ok ss' := by
  unfold applyPickup at e
  split at e
  · cases e
  · rename_i s _
    cases hattr : q.attr with
    | radius => simp only [hattr] at e; exact setRadiusAt_pres ok _ _ _ _ h e
    | conic =>
      simp only [hattr] at e
      obtain ⟨old, _, e⟩ := bind_eq_ok e
      exact setConicAt_pres ok _ _ _ _ h e
    | thickness =>
      rcases hq with rfl | hq
      · simp only [hattr] at e
        obtain ⟨pos, _, e⟩ := bind_eq_ok e
        split at e
        · exact setThickness_false_pres ok _ _ _ _ h e
        · cases e
      · exact absurd hattr hq

theorem applyPickups_pres (arrays : Bool) (ok : CoatRec ν → Bool) (qs : List (PickRec ν)) :
    ∀ (ss ss' : List (SurfRec ν)), (arrays = false ∨ ∀ q ∈ qs, q.attr ≠ .thickness) → AllOk ok ss →
      applyPickups arrays ss qs = .ok ss' → AllOk ok ss' := by
  induction qs with
  | nil => intro ss ss' _ h e; simp [applyPickups] at e; subst e; exact h
  | cons q qs ih =>
    intro ss ss' hq h e
    simp only [applyPickups] at e
    cases h1 : applyPickup arrays ss q with
    | error m => simp [h1] at e
    | ok s1 =>
      simp only [h1] at e
      have hq1 : arrays = false ∨ q.attr ≠ .thickness := hq.imp id (fun f => f q (by simp))
      have hq2 : arrays = false ∨ ∀ r ∈ qs, r.attr ≠ .thickness := hq.imp id (fun f r hr => f r (by simp [hr]))
      exact ih s1 ss' hq2 (applyPickup_pres arrays ok ss s1 q hq1 h h1) e

theorem applySolve_false_pres (ok : CoatRec ν → Bool) (ss : List (SurfRec ν)) (idx : Nat) (o : ν) (h : AllOk ok ss) :
    AllOk ok (applySolve false ss idx o) := by
  rw [AllOk, List.all_eq_true] at h
  apply all_mapIdx
  intro i s hs
  by_cases hi : idx ≤ i
  · simp only [hi, ↓reduceIte]
    exact jsonable_mapFrame ok s _ (h s hs) (by simp [mkZ, ZRep.isScalar])
  · simp [hi, h s hs]

theorem applySolves_false_pres (ok : CoatRec ν → Bool) (sv : List (SolveRec ν)) :
    ∀ (ss : List (SurfRec ν)) (os : List ν), AllOk ok ss → AllOk ok (applySolves false ss sv os) := by
  induction sv with
  | nil => intro ss os h; simpa [applySolves] using h
  | cons s rest ih =>
    intro ss os h
    cases os with
    | nil => simpa [applySolves] using h
    | cons o os => simp only [applySolves]; exact ih _ os (applySolve_false_pres ok ss s.idx o h)

theorem subZ_isScalar (z : ZRep ν) (d : ν) : (subZ z d).isScalar = z.isScalar := by cases z <;> rfl

theorem orKeep_pres (ok : CoatRec ν → Bool) (ss : List (SurfRec ν)) (r : R (List (SurfRec ν))) (h : AllOk ok ss)
    (hr : ∀ ss', r = .ok ss' → AllOk ok ss') : AllOk ok (orKeep ss r) := by
  cases r with
  | error e => exact h
  | ok a => exact hr a rfl

theorem jsonable_setPost (ok : CoatRec ν → Bool) (s : SurfRec ν) (m : MatRec ν) :
    (s.setPost m).jsonableWith ok = s.jsonableWith ok := by cases s <;> rfl
theorem jsonable_setPre (ok : CoatRec ν → Bool) (s : SurfRec ν) (m : MatRec ν) :
    (s.setPre m).jsonableWith ok = s.jsonableWith ok := by cases s <;> rfl

/-- the edits that never write `cs.z` through `set_thickness` or a solve -/
def Edit.safe : Edit ν → Bool
  | .setThickness .. => false
  | .solveAdd .. => false
  | .pickupAdd q => q.attr != .thickness
  | .setPolarization pol => pol.isIgnore
  | _ => true

def noThicknessPickups (p : LensRec ν) : Prop := ∀ q ∈ p.pickups, q.attr ≠ .thickness

theorem modify_setIndex_pres (ok : CoatRec ν → Bool) (ss : List (SurfRec ν)) (v : ν) (k : Nat) (h : AllOk ok ss) :
    AllOk ok (modifyAt (modifyAt ss k fun s => s.setPost (.ideal v Num.zero)) (k+1)
      fun s => s.setPre (.ideal v Num.zero)) := by
  apply all_modifyAt
  · exact all_modifyAt _ _ _ _ h (fun s hs => by rw [jsonable_setPost]; exact hs)
  · intro s hs; rw [jsonable_setPre]; exact hs

theorem tilt_pres (ok : CoatRec ν → Bool) (ss : List (SurfRec ν)) (k : Nat) (f : Frame ν → Frame ν)
    (hf : ∀ fr, (f fr).z = fr.z) (h : AllOk ok ss) : AllOk ok (modifyAt ss k fun s => mapFrame s f) := by
  apply all_modifyAt _ _ _ _ h
  intro s hs
  apply jsonable_mapFrame ok s f hs
  rw [hf]
  rw [jsonableWith_split] at hs
  simp only [Bool.and_eq_true] at hs
  exact hs.1

/-- with the repaired `set_thickness` / solve (floats written back) every edit keeps every `cs.z` a float -/
theorem step_false_pres (ok : CoatRec ν → Bool) (p : LensRec ν) (e : Edit ν) (h : AllOk ok p.surfaces) :
    AllOk ok (step false p e).surfaces := by
  cases e with
  | setRadius v k => exact orKeep_pres ok _ _ h (fun ss' e => setRadiusAt_pres ok _ _ _ _ h e)
  | setConic v k => exact orKeep_pres ok _ _ h (fun ss' e => setConicAt_pres ok _ _ _ _ h e)
  | setThickness v k => exact orKeep_pres ok _ _ h (fun ss' e => setThickness_false_pres ok _ _ _ _ h e)
  | setIndex v k =>
    simp only [step]
    split
    · exact modify_setIndex_pres ok _ v k h
    · exact h
  | setTilt ax v k => exact tilt_pres ok _ k _ (fun fr => by cases ax <;> rfl) h
  | setDecenter ax v k => exact tilt_pres ok _ k _ (fun fr => by cases ax <;> rfl) h
  | pickupAdd q =>
    simp only [step]
    cases hq : applyPickup false p.surfaces q with
    | error m => exact h
    | ok ss => exact applyPickup_pres false ok _ _ q (Or.inl rfl) h hq
  | solveAdd s o => exact applySolve_false_pres ok _ _ _ h
  | update os =>
    apply applySolves_false_pres
    exact orKeep_pres ok _ _ h (fun ss' e => applyPickups_pres false ok _ _ _ (Or.inl rfl) h e)
  | imageSolve o =>
    apply all_modifyAt _ _ _ _ h
    intro s hs
    apply jsonable_mapFrame ok s _ hs
    rw [jsonableWith_split] at hs
    simp only [Bool.and_eq_true] at hs
    simpa [subZ_isScalar, SurfRec.headScalar] using hs.1
  | addWave w => exact h
  | setPolarization pol => exact h

/-- invariant of the partial theorem about the code as it stands -/
structure SafeInv (p : LensRec ν) : Prop where
  ok : jsonable_code p = true
  pickups : noThicknessPickups p
  solves : p.solves = []

theorem step_true_safe (p : LensRec ν) (e : Edit ν) (he : e.safe = true) (h : SafeInv p) : SafeInv (step true p e) := by
  have hs : AllOk CoatRec.isSimple p.surfaces := by
    have := h.ok; simp only [jsonable_code, Bool.and_eq_true] at this; exact this.1
  have hp : p.polarization.isIgnore = true := by
    have := h.ok; simp only [jsonable_code, Bool.and_eq_true] at this; exact this.2
  have mk (ss : List (SurfRec ν)) (hss : AllOk CoatRec.isSimple ss) :
      jsonable_code { p with surfaces := ss } = true := by
    simp only [jsonable_code, Bool.and_eq_true]; exact ⟨hss, hp⟩
  cases e with
  | setRadius v k =>
    exact ⟨mk _ (orKeep_pres _ _ _ hs (fun ss' e => setRadiusAt_pres _ _ _ _ _ hs e)), h.pickups, h.solves⟩
  | setConic v k =>
    exact ⟨mk _ (orKeep_pres _ _ _ hs (fun ss' e => setConicAt_pres _ _ _ _ _ hs e)), h.pickups, h.solves⟩
  | setThickness v k => simp [Edit.safe] at he
  | setIndex v k =>
    simp only [step]
    split
    · exact ⟨mk _ (modify_setIndex_pres _ _ v k hs), h.pickups, h.solves⟩
    · exact h
  | setTilt ax v k => exact ⟨mk _ (tilt_pres _ _ k _ (fun fr => by cases ax <;> rfl) hs), h.pickups, h.solves⟩
  | setDecenter ax v k => exact ⟨mk _ (tilt_pres _ _ k _ (fun fr => by cases ax <;> rfl) hs), h.pickups, h.solves⟩
  | pickupAdd q =>
    have hq : q.attr ≠ .thickness := by simpa [Edit.safe] using he
    simp only [step]
    cases hap : applyPickup true p.surfaces q with
    | error m => exact h
    | ok ss =>
      refine ⟨?_, ?_, h.solves⟩
      · simp only [jsonable_code, Bool.and_eq_true]
        exact ⟨applyPickup_pres true _ _ _ q (Or.inr hq) hs hap, hp⟩
      · intro r hr
        rcases List.mem_append.mp hr with hr | hr
        · exact h.pickups r hr
        · simp at hr; subst hr; exact hq
  | solveAdd s o => simp [Edit.safe] at he
  | update os =>
    have h1 : AllOk CoatRec.isSimple (orKeep p.surfaces (applyPickups true p.surfaces p.pickups)) :=
      orKeep_pres _ _ _ hs (fun ss' e => applyPickups_pres true _ _ _ _ (Or.inr h.pickups) hs e)
    refine ⟨?_, h.pickups, h.solves⟩
    simp only [step, h.solves, applySolves]
    exact mk _ h1
  | imageSolve o =>
    refine ⟨mk _ ?_, h.pickups, h.solves⟩
    apply all_modifyAt _ _ _ _ hs
    intro s hs'
    apply jsonable_mapFrame _ s _ hs'
    rw [jsonableWith_split] at hs'
    simp only [Bool.and_eq_true] at hs'
    simpa [subZ_isScalar, SurfRec.headScalar] using hs'.1
  | addWave w => exact ⟨h.ok, h.pickups, h.solves⟩
  | setPolarization pol =>
    have : pol.isIgnore = true := by simpa [Edit.safe] using he
    refine ⟨?_, h.pickups, h.solves⟩
    simp only [step, jsonable_code, Bool.and_eq_true]; exact ⟨hs, this⟩

end Serial
