import OptiModel.Model.Toler
/-!
Helper lemmas for C15 that need no arithmetic: the tolerancing loops over an arbitrary lens type `σ`
whose variables obey the read/write laws `Frame.Lawful`.  (`Proofs/TolerPresc.lean` shows that the
prescription state machine `Presc ℝ` obeys them.)
-/
set_option linter.unusedSectionVars false
namespace TolerAbs
open Model

variable {σ ι α β ρ : Type}

/-- a lens type with variables `S`, the variables that exist on the lens at hand (`ok`), a
well-formedness invariant of the lens (`inv`) and everything no variable writes (`rest`) -/
structure Frame (σ ι α ρ : Type) where
  S : Sys σ ι α
  ok : ι → Prop
  inv : σ → Prop
  rest : σ → ρ

/-- read/write laws: writing variable `i` is read back, leaves every other variable and the rest of
the lens alone, keeps the lens well formed -/
structure Frame.Lawful [DecidableEq ι] (F : Frame σ ι α ρ) : Prop where
  inv_set : ∀ s i a, F.inv s → F.ok i → F.inv (F.S.set s i a)
  get_set : ∀ s i a j, F.inv s → F.ok i → F.ok j →
    F.S.get (F.S.set s i a) j = if j = i then a else F.S.get s j
  rest_set : ∀ s i a, F.inv s → F.ok i → F.rest (F.S.set s i a) = F.rest s

/-- same observable prescription: every variable reads the same, the rest is the same -/
def Frame.Eqv (F : Frame σ ι α ρ) (s t : σ) : Prop :=
  F.inv s ∧ F.inv t ∧ F.rest s = F.rest t ∧ ∀ j, F.ok j → F.S.get s j = F.S.get t j

/-- a `Variable` that exists on the lens and whose `inverse_scale` undoes `scale` -/
def Frame.VarOK (F : Frame σ ι α ρ) (v : TVar ι α) : Prop := F.ok v.idx ∧ ∀ x, v.un (v.sc x) = x

/-- `Tolerancing` built on the nominal lens `N`: every variable valid, `initial_value` read on `N` -/
def Frame.TolWF (F : Frame σ ι α ρ) (T : Tol σ ι α β) (N : σ) : Prop :=
  ∀ p, p ∈ T.perts ++ T.comps → F.VarOK p.var ∧ p.init = p.var.value F.S N

def tolIdxs (T : Tol σ ι α β) : List ι := (T.perts ++ T.comps).map fun p => p.var.idx

/-- `s` differs from the nominal lens `N` at most in the perturbed and compensated variables -/
def Frame.Agree (F : Frame σ ι α ρ) (T : Tol σ ι α β) (N s : σ) : Prop :=
  F.inv s ∧ F.rest s = F.rest N ∧ ∀ j, F.ok j → j ∉ tolIdxs T → F.S.get s j = F.S.get N j

/-- operands and the compensator optimiser are functions of the observable prescription -/
def Frame.Resp (F : Frame σ ι α ρ) (T : Tol σ ι α β) : Prop :=
  (∀ f, f ∈ T.operands → ∀ s t, F.Eqv s t → f s = f t) ∧ (∀ j s t, F.Eqv s t → T.oracle j s = T.oracle j t)

section
variable {F : Frame σ ι α ρ}

theorem eqv_refl {s : σ} (h : F.inv s) : F.Eqv s s := ⟨h, h, rfl, fun _ _ => rfl⟩
theorem eqv_symm {s t : σ} (h : F.Eqv s t) : F.Eqv t s :=
  ⟨h.2.1, h.1, h.2.2.1.symm, fun j hj => (h.2.2.2 j hj).symm⟩
theorem eqv_trans {s t u : σ} (h : F.Eqv s t) (g : F.Eqv t u) : F.Eqv s u :=
  ⟨h.1, g.2.1, h.2.2.1.trans g.2.2.1, fun j hj => (h.2.2.2 j hj).trans (g.2.2.2 j hj)⟩

variable [DecidableEq ι]

theorem eqv_set (L : F.Lawful) {s t : σ} (h : F.Eqv s t) {i : ι} (hi : F.ok i) (a : α) :
    F.Eqv (F.S.set s i a) (F.S.set t i a) := by
  refine ⟨L.inv_set s i a h.1 hi, L.inv_set t i a h.2.1 hi, ?_, ?_⟩
  · rw [L.rest_set s i a h.1 hi, L.rest_set t i a h.2.1 hi]; exact h.2.2.1
  · intro j hj
    rw [L.get_set s i a j h.1 hi hj, L.get_set t i a j h.2.1 hi hj]
    by_cases e : j = i
    · simp [e]
    · simp [e, h.2.2.2 j hj]

theorem eqv_update (L : F.Lawful) {s t : σ} (h : F.Eqv s t) {v : TVar ι α} (hv : F.ok v.idx) (x : α) :
    F.Eqv (v.update F.S s x) (v.update F.S t x) := eqv_set L h hv _

theorem agree_of_eqv {T : Tol σ ι α β} {N s : σ} (h : F.Eqv s N) : F.Agree T N s :=
  ⟨h.1, h.2.2.1, fun j hj _ => h.2.2.2 j hj⟩

theorem agree_congr {T : Tol σ ι α β} {N s t : σ} (h : F.Eqv s t) (g : F.Agree T N t) : F.Agree T N s :=
  ⟨h.1, h.2.2.1.trans g.2.1, fun j hj hn => (h.2.2.2 j hj).trans (g.2.2 j hj hn)⟩

theorem mem_tolIdxs {T : Tol σ ι α β} {p : PVar ι α} (hp : p ∈ T.perts ++ T.comps) : p.var.idx ∈ tolIdxs T :=
  List.mem_map.mpr ⟨p, hp, rfl⟩

theorem agree_update (L : F.Lawful) {T : Tol σ ι α β} {N s : σ} (h : F.Agree T N s) {p : PVar ι α}
    (hp : p ∈ T.perts ++ T.comps) (hok : F.ok p.var.idx) (x : α) : F.Agree T N (p.var.update F.S s x) := by
  refine ⟨L.inv_set _ _ _ h.1 hok, ?_, ?_⟩
  · show F.rest (F.S.set s p.var.idx _) = _
    rw [L.rest_set _ _ _ h.1 hok]; exact h.2.1
  · intro j hj hn
    show F.S.get (F.S.set s p.var.idx _) j = _
    rw [L.get_set _ _ _ _ h.1 hok hj]
    have : j ≠ p.var.idx := fun e => hn (e ▸ mem_tolIdxs hp)
    simp [this, h.2.2 j hj hn]

/-! ### reset -/

/-- invariant of the two reset loops: the variables in `D` already read their nominal value -/
def Good (F : Frame σ ι α ρ) (T : Tol σ ι α β) (N : σ) (D : ι → Prop) (s : σ) : Prop :=
  F.inv s ∧ F.rest s = F.rest N ∧ ∀ j, F.ok j → (D j ∨ j ∉ tolIdxs T) → F.S.get s j = F.S.get N j

theorem good_mono {T : Tol σ ι α β} {N s : σ} {D D' : ι → Prop} (h : ∀ j, D' j → D j) (g : Good F T N D s) :
    Good F T N D' s :=
  ⟨g.1, g.2.1, fun j hj hd => g.2.2 j hj (hd.elim (fun d => Or.inl (h j d)) Or.inr)⟩

theorem good_reset (L : F.Lawful) {T : Tol σ ι α β} {N s : σ} (hT : F.TolWF T N) {D : ι → Prop}
    (g : Good F T N D s) {p : PVar ι α} (hp : p ∈ T.perts ++ T.comps) :
    Good F T N (fun j => j = p.var.idx ∨ D j) (PVar.reset F.S s p) := by
  obtain ⟨⟨hok, hun⟩, hinit⟩ := hT p hp
  refine ⟨L.inv_set _ _ _ g.1 hok, ?_, ?_⟩
  · show F.rest (F.S.set s p.var.idx _) = _
    rw [L.rest_set _ _ _ g.1 hok]; exact g.2.1
  · intro j hj hd
    show F.S.get (F.S.set s p.var.idx (p.var.un p.init)) j = _
    rw [L.get_set _ _ _ _ g.1 hok hj]
    by_cases e : j = p.var.idx
    · simp only [e, if_true]
      rw [hinit]; exact hun _
    · simp only [e, if_false]
      apply g.2.2 j hj
      rcases hd with (h | h) | h
      · exact absurd h e
      · exact Or.inl h
      · exact Or.inr h

theorem good_foldl (L : F.Lawful) {T : Tol σ ι α β} {N : σ} (hT : F.TolWF T N) :
    ∀ (l : List (PVar ι α)), (∀ p, p ∈ l → p ∈ T.perts ++ T.comps) → ∀ (D : ι → Prop) (s : σ),
      Good F T N D s → Good F T N (fun j => (∃ p, p ∈ l ∧ j = p.var.idx) ∨ D j) (l.foldl (PVar.reset F.S) s)
  | [], _, D, s, g => good_mono (by intro j h; rcases h with ⟨p, hp, _⟩ | h; exact absurd hp (List.not_mem_nil); exact h) g
  | p :: l, hl, D, s, g => by
    have g1 := good_reset L hT g (hl p (List.mem_cons_self))
    have g2 := good_foldl L hT l (fun q hq => hl q (List.mem_cons_of_mem _ hq)) _ _ g1
    refine good_mono ?_ g2
    intro j h
    rcases h with ⟨q, hq, e⟩ | h
    · rcases List.mem_cons.mp hq with rfl | hq
      · exact Or.inr (Or.inl e)
      · exact Or.inl ⟨q, hq, e⟩
    · exact Or.inr (Or.inr h)

/-- `Tolerancing.reset()` brings every lens that differs from the nominal one only in perturbed and
compensated variables back to the nominal observable prescription -/
theorem reset_eqv (L : F.Lawful) {T : Tol σ ι α β} {N s : σ} (hN : F.inv N) (hT : F.TolWF T N)
    (h : F.Agree T N s) : F.Eqv (T.reset F.S s) N := by
  have g0 : Good F T N (fun _ => False) s := ⟨h.1, h.2.1, fun j hj hd => h.2.2 j hj (hd.elim False.elim id)⟩
  have g1 := good_foldl L hT T.perts (fun p hp => List.mem_append_left _ hp) _ _ g0
  have g2 := good_foldl L hT T.comps (fun p hp => List.mem_append_right _ hp) _ _ g1
  refine ⟨g2.1, hN, g2.2.1, ?_⟩
  intro j hj
  apply g2.2.2 j hj
  by_cases hm : j ∈ tolIdxs T
  · left
    obtain ⟨p, hp, e⟩ := List.mem_map.mp hm
    rcases List.mem_append.mp hp with hp | hp
    · exact Or.inr (Or.inl ⟨p, hp, e.symm⟩)
    · exact Or.inl ⟨p, hp, e.symm⟩
  · exact Or.inr hm

/-! ### the updates of one trial respect `Eqv` and `Agree` -/

theorem pert_mem {T : Tol σ ι α β} {i : Nat} {p : PVar ι α} (h : T.perts[i]? = some p) :
    p ∈ T.perts ++ T.comps := List.mem_append_left _ (List.mem_of_getElem? h)

theorem applyVals_eqv (L : F.Lawful) {T : Tol σ ι α β} {N : σ} (hT : F.TolWF T N) :
    ∀ (l : List (Nat × α)) (s t : σ), F.Eqv s t → F.Eqv (applyVals F.S T s l) (applyVals F.S T t l)
  | [], _, _, h => h
  | iv :: l, s, t, h => by
    unfold applyVals
    cases hp : T.perts[iv.1]? with
    | none => exact applyVals_eqv L hT l s t h
    | some p => exact applyVals_eqv L hT l _ _ (eqv_update L h (hT p (pert_mem hp)).1.1 _)

theorem applyVals_agree (L : F.Lawful) {T : Tol σ ι α β} {N : σ} (hT : F.TolWF T N) :
    ∀ (l : List (Nat × α)) (s : σ), F.Agree T N s → F.Agree T N (applyVals F.S T s l)
  | [], _, h => h
  | iv :: l, s, h => by
    unfold applyVals
    cases hp : T.perts[iv.1]? with
    | none => exact applyVals_agree L hT l s h
    | some p => exact applyVals_agree L hT l _ (agree_update L h (pert_mem hp) (hT p (pert_mem hp)).1.1 _)

theorem assignAll_eqv (L : F.Lawful) :
    ∀ (ps : List (PVar ι α)) (xs : List α) (s t : σ), (∀ p, p ∈ ps → F.ok p.var.idx) → F.Eqv s t →
      F.Eqv (assignAll F.S ps xs s) (assignAll F.S ps xs t)
  | [], _, _, _, _, h => by simpa [assignAll] using h
  | _ :: _, [], _, _, _, h => by simpa [assignAll] using h
  | p :: ps, x :: xs, s, t, hok, h => by
    simp only [assignAll]
    exact assignAll_eqv L ps xs _ _ (fun q hq => hok q (List.mem_cons_of_mem _ hq))
      (eqv_update L h (hok p (List.mem_cons_self)) x)

theorem assignAll_agree (L : F.Lawful) {T : Tol σ ι α β} {N : σ} :
    ∀ (ps : List (PVar ι α)) (xs : List α) (s : σ),
      (∀ p, p ∈ ps → p ∈ T.perts ++ T.comps ∧ F.ok p.var.idx) → F.Agree T N s →
      F.Agree T N (assignAll F.S ps xs s)
  | [], _, _, _, h => by simpa [assignAll] using h
  | _ :: _, [], _, _, h => by simpa [assignAll] using h
  | p :: ps, x :: xs, s, hok, h => by
    simp only [assignAll]
    exact assignAll_agree L ps xs _ (fun q hq => hok q (List.mem_cons_of_mem _ hq))
      (agree_update L h (hok p (List.mem_cons_self)).1 (hok p (List.mem_cons_self)).2 x)

theorem comps_ok {T : Tol σ ι α β} {N : σ} (hT : F.TolWF T N) :
    ∀ p, p ∈ T.comps → p ∈ T.perts ++ T.comps ∧ F.ok p.var.idx :=
  fun p hp => ⟨List.mem_append_right _ hp, (hT p (List.mem_append_right _ hp)).1.1⟩

theorem applyCompensators_eqv (L : F.Lawful) {T : Tol σ ι α β} {N : σ} (hT : F.TolWF T N) (hR : F.Resp T)
    (j : Nat) {s t : σ} (h : F.Eqv s t) :
    F.Eqv (T.applyCompensators F.S j s).1 (T.applyCompensators F.S j t).1 ∧
    (T.applyCompensators F.S j s).2 = (T.applyCompensators F.S j t).2 := by
  unfold Tol.applyCompensators
  by_cases hc : T.comps.isEmpty
  · rw [if_pos hc, if_pos hc]; exact ⟨h, rfl⟩
  · rw [if_neg hc, if_neg hc]
    simp only
    rw [hR.2 j s t h]
    have e := assignAll_eqv L T.comps (T.oracle j t) s t (fun p hp => (comps_ok hT p hp).2) h
    refine ⟨e, ?_⟩
    apply List.map_congr_left
    intro p hp
    show p.var.sc _ = p.var.sc _
    rw [e.2.2.2 _ (comps_ok hT p hp).2]

theorem applyCompensators_agree (L : F.Lawful) {T : Tol σ ι α β} {N : σ} (hT : F.TolWF T N)
    (j : Nat) {s : σ} (h : F.Agree T N s) : F.Agree T N (T.applyCompensators F.S j s).1 := by
  unfold Tol.applyCompensators
  by_cases hc : T.comps.isEmpty
  · rw [if_pos hc]; exact h
  · rw [if_neg hc]
    exact assignAll_agree L T.comps _ s (comps_ok hT) h

theorem evaluate_eqv {T : Tol σ ι α β} (hR : F.Resp T) {s t : σ} (h : F.Eqv s t) :
    T.evaluate s = T.evaluate t := by
  unfold Tol.evaluate
  exact List.map_congr_left fun f hf => hR.1 f hf s t h

/-! ### the loops -/
variable [Num α]

/-- every run that starts on a lens differing from nominal at most in the toleranced variables
produces the table of fresh evaluations on the nominal lens, ends on such a lens again, and moves
the samplers exactly as `drawTrials` -/
theorem runTrials_spec (L : F.Lawful) {T : Tol σ ι α β} {N : σ} (hN : F.inv N) (hT : F.TolWF T N)
    (hR : F.Resp T) :
    ∀ (trials : List (List Nat)) (j : Nat) (r : Run σ α), F.Agree T N r.lens →
      (runTrials F.S T j r trials).2 = specRows F.S T N j r.samplers r.stream trials ∧
      F.Agree T N (runTrials F.S T j r trials).1.lens ∧
      ((runTrials F.S T j r trials).1.samplers, (runTrials F.S T j r trials).1.stream) =
        (drawTrials T.perts.length r.samplers r.stream trials).1
  | [], _, r, h => ⟨rfl, h, rfl⟩
  | t :: ts, j, r, h => by
    have e0 := reset_eqv L hN hT h
    have e1 := applyVals_eqv L hT (drawMany T.perts.length r.samplers r.stream t).2 _ _ e0
    have e2 := applyCompensators_eqv L hT hR j e1
    have a2 : F.Agree T N (trial F.S T j r t).1.lens :=
      applyCompensators_agree L hT j (applyVals_agree L hT _ _ (agree_of_eqv e0))
    have ih := runTrials_spec L hN hT hR ts (j+1) (trial F.S T j r t).1 a2
    have hstep : runTrials F.S T j r (t :: ts) =
        ((runTrials F.S T (j+1) (trial F.S T j r t).1 ts).1,
         (trial F.S T j r t).2 :: (runTrials F.S T (j+1) (trial F.S T j r t).1 ts).2) := rfl
    rw [hstep]
    refine ⟨?_, ih.2.1, ?_⟩
    · simp only
      rw [ih.1]
      simp only [specRows, trial]
      congr 1
      rw [evaluate_eqv hR e2.1, e2.2]
    · simp only
      rw [ih.2.2]; rfl

theorem runTrials_append (S : Sys σ ι α) (T : Tol σ ι α β) :
    ∀ (ts : List (List Nat)) (t : List Nat) (j : Nat) (r : Run σ α),
      runTrials S T j r (ts ++ [t]) =
        ((trial S T (j + ts.length) (runTrials S T j r ts).1 t).1,
         (runTrials S T j r ts).2 ++ [(trial S T (j + ts.length) (runTrials S T j r ts).1 t).2])
  | [], t, j, r => by simp [runTrials]
  | u :: ts, t, j, r => by
    simp only [List.cons_append, runTrials, List.length_cons]
    rw [runTrials_append S T ts t (j+1) (trial S T j r u).1]
    have : j + 1 + ts.length = j + (ts.length + 1) := by omega
    simp [this]

/-- the lens a trial leaves behind is the freshly evaluated lens of its row -/
theorem trial_lens_eqv (L : F.Lawful) {T : Tol σ ι α β} {N : σ} (hN : F.inv N) (hT : F.TolWF T N)
    (hR : F.Resp T) (j : Nat) (r : Run σ α) (h : F.Agree T N r.lens) (t : List Nat) :
    F.Eqv (trial F.S T j r t).1.lens
      (T.applyCompensators F.S j (applyVals F.S T N (trial F.S T j r t).2.applied)).1 :=
  (applyCompensators_eqv L hT hR j (applyVals_eqv L hT _ _ _ (reset_eqv L hN hT h))).1

/-- perturbation values equal to the nominal values give back the nominal observable prescription -/
theorem applyVals_nominal (L : F.Lawful) {T : Tol σ ι α β} {N : σ} (hT : F.TolWF T N) :
    ∀ (l : List (Nat × α)) (s : σ), F.Eqv s N →
      (∀ iv, iv ∈ l → ∃ p, T.perts[iv.1]? = some p ∧ iv.2 = p.init) → F.Eqv (applyVals F.S T s l) N
  | [], _, h, _ => h
  | iv :: l, s, h, hv => by
    unfold applyVals
    obtain ⟨p, hp, hi⟩ := hv iv (List.mem_cons_self)
    rw [hp]
    simp only
    apply applyVals_nominal L hT l _ _ (fun q hq => hv q (List.mem_cons_of_mem _ hq))
    obtain ⟨⟨hok, hun⟩, hinit⟩ := hT p (pert_mem hp)
    refine ⟨L.inv_set _ _ _ h.1 hok, h.2.1, ?_, ?_⟩
    · show F.rest (F.S.set s p.var.idx _) = _
      rw [L.rest_set _ _ _ h.1 hok]; exact h.2.2.1
    · intro k hk
      show F.S.get (F.S.set s p.var.idx (p.var.un iv.2)) k = _
      rw [L.get_set _ _ _ _ h.1 hok hk]
      by_cases e : k = p.var.idx
      · simp only [e, if_true]; rw [hi, hinit]; exact hun _
      · simp only [e, if_false]; exact h.2.2.2 k hk

/-! ### `MonteCarlo.run` as in the tree: the lens is left at the last trial -/

theorem mcTrials_succ (np n : Nat) : mcTrials np (n+1) = mcTrials np n ++ [List.range np] := by
  unfold mcTrials; exact List.replicate_succ'

theorem runMC_code_last (L : F.Lawful) {T : Tol σ ι α β} {N : σ} (hN : F.inv N) (hT : F.TolWF T N)
    (hR : F.Resp T) (r : Run σ α) (hr : F.Agree T N r.lens) (n : Nat) :
    ∃ row, (runMC_code F.S T r (n+1)).2.getLast? = some row ∧
      F.Eqv (runMC_code F.S T r (n+1)).1.lens
        (T.applyCompensators F.S n (applyVals F.S T N row.applied)).1 := by
  unfold runMC_code
  rw [mcTrials_succ, runTrials_append]
  have ha := (runTrials_spec L hN hT hR (mcTrials T.perts.length n) 0 r hr).2.1
  refine ⟨_, List.getLast?_concat, ?_⟩
  have hl : (mcTrials T.perts.length n).length = n := by simp [mcTrials]
  have := trial_lens_eqv L hN hT hR (0 + (mcTrials T.perts.length n).length) _ ha (List.range T.perts.length)
  rw [hl, Nat.zero_add] at this
  simpa [hl] using this

theorem specRows_scalar (S : Sys σ ι α) (T : Tol σ ι α β) (N : σ) (v : α) (h1 : T.perts.length = 1) :
    ∀ (n j : Nat) (st : List α) (row : Row α β),
      row ∈ specRows S T N j [Sampler.scalar v] st (List.replicate n [0]) → row.applied = [(0, v)]
  | 0, _, _, _, h => by simp [specRows] at h
  | n+1, j, st, row, h => by
    have hd : drawMany T.perts.length [Sampler.scalar v] st [0] = (([Sampler.scalar v], st), [(0, v)]) := by
      simp [drawMany, drawOne, h1, Sampler.sample]
    rw [List.replicate_succ] at h
    simp only [specRows, hd, List.mem_cons] at h
    rcases h with rfl | h
    · rfl
    · exact specRows_scalar S T N v h1 n (j+1) st row h

/-- F7: one perturbation driven by a scalar sampler whose value is not the nominal one, no
compensator: after `MonteCarlo.run(n+1)` as in the tree the lens is *not* the nominal lens -/
theorem runMC_code_not_restored (L : F.Lawful) {T : Tol σ ι α β} {N : σ} (hN : F.inv N) (hT : F.TolWF T N)
    (hR : F.Resp T) (r : Run σ α) (hr : F.Agree T N r.lens) (p : PVar ι α) (v : α)
    (hp : T.perts = [p]) (hc : T.comps = []) (hs : r.samplers = [Sampler.scalar v])
    (hne : p.var.un v ≠ F.S.get N p.var.idx) (n : Nat) :
    ¬ F.Eqv (runMC_code F.S T r (n+1)).1.lens N := by
  intro hE
  obtain ⟨row, hlast, hfresh⟩ := runMC_code_last L hN hT hR r hr n
  have h1 : T.perts.length = 1 := by rw [hp]; rfl
  have hrows := (runTrials_spec L hN hT hR (mcTrials T.perts.length (n+1)) 0 r hr).1
  have hmem : row ∈ (runMC_code F.S T r (n+1)).2 := List.mem_of_getLast? hlast
  unfold runMC_code at hmem
  rw [hrows, hs, h1] at hmem
  have happ : row.applied = [(0, v)] := by
    have : mcTrials 1 (n+1) = List.replicate (n+1) [0] := by simp [mcTrials, List.range_succ]
    rw [this] at hmem
    exact specRows_scalar F.S T N v h1 _ _ _ row hmem
  have hok : F.ok p.var.idx := (hT p (by rw [hp]; simp)).1.1
  have e := eqv_trans (eqv_symm hE) hfresh
  have := e.2.2.2 p.var.idx hok
  rw [happ] at this
  simp only [Tol.applyCompensators, hc, List.isEmpty_nil, if_true, applyVals, hp, List.getElem?_cons_zero,
    TVar.update] at this
  rw [L.get_set _ _ _ _ hN hok hok] at this
  simp only [if_true] at this
  exact hne this.symm

/-- same samplers, same random stream, lenses that differ from nominal at most in the toleranced
variables (in particular: the lens a previous run left behind) ⇒ same table -/
theorem runTrials_reproducible (L : F.Lawful) {T : Tol σ ι α β} {N : σ} (hN : F.inv N) (hT : F.TolWF T N)
    (hR : F.Resp T) (trials : List (List Nat)) (j : Nat) (r r' : Run σ α)
    (hr : F.Agree T N r.lens) (hr' : F.Agree T N r'.lens) (hs : r.samplers = r'.samplers)
    (hst : r.stream = r'.stream) :
    (runTrials F.S T j r trials).2 = (runTrials F.S T j r' trials).2 := by
  rw [(runTrials_spec L hN hT hR trials j r hr).1, (runTrials_spec L hN hT hR trials j r' hr').1, hs, hst]

end

/-! ### range sampler -/
section Range
open scoped Num
variable [Num α]

theorem sampleSeq_range (vs : List α) (hv : 0 < vs.length) (st : List α) :
    ∀ (k i : Nat), i ≤ vs.length →
      sampleSeq (.range vs i) st k = (List.range k).map fun j => vs.getD ((i + j) % vs.length) 0
  | 0, _, _ => rfl
  | k+1, i, hi => by
    rw [List.range_succ_eq_map]
    simp only [sampleSeq, Sampler.sample, List.map_cons, List.map_map, Nat.add_zero]
    by_cases h : vs.length ≤ i
    · have e : i = vs.length := Nat.le_antisymm hi h
      simp only [h, if_true]
      rw [sampleSeq_range vs hv st k 1 (by omega)]
      congr 1
      · rw [e, Nat.mod_self]
      · apply List.map_congr_left
        intro j _
        simp only [Function.comp]
        congr 1
        rw [e, show vs.length + (j+1) = (1 + j) + vs.length by omega, Nat.add_mod_right]
    · simp only [h, if_false]
      rw [sampleSeq_range vs hv st k (i+1) (by omega)]
      congr 1
      · rw [Nat.mod_eq_of_lt (by omega)]
      · apply List.map_congr_left
        intro j _
        simp only [Function.comp]
        congr 2
        omega

theorem sampler_state_range (vs : List α) (st : List α) (i : Nat) :
    ((Sampler.range vs i).sample st).2.1 = .range vs ((if vs.length ≤ i then 0 else i) + 1) := rfl

end Range

end TolerAbs
