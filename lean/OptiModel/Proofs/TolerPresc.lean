import OptiModel.Proofs.TolerAbs
import OptiModel.Proofs.NumReal
import Mathlib.Tactic.Ring
import Mathlib.Tactic.Linarith
import Mathlib.Tactic.FieldSimp
/-!
The prescription state machine `Presc ℝ` with the variables of `optimization/variable/*.py`
obeys the read/write laws `TolerAbs.Frame.Lawful` (on lenses without pickups/solves the compensator
touches nothing else: `Presc.update` is then the identity).
-/
set_option linter.unusedSectionVars false
namespace TolerPresc
open Model TolerAbs

set_option linter.unusedSimpArgs false
/-! ### lists -/
section Lists
variable {β γ : Type}

theorem getElem?_modifyAt (l : List β) (k : Nat) (f : β → β) (j : Nat) :
    (modifyAt l k f)[j]? = if j = k then l[j]?.map f else l[j]? := by
  unfold modifyAt
  rw [List.getElem?_mapIdx]
  by_cases h : j = k
  · simp [h]
  · simp [h]

theorem length_modifyAt (l : List β) (k : Nat) (f : β → β) : (modifyAt l k f).length = l.length := by
  unfold modifyAt; simp

theorem map_modifyAt_of_inv (l : List β) (k : Nat) (f : β → β) (g : β → γ) (h : ∀ x, g (f x) = g x) :
    (modifyAt l k f).map g = l.map g := by
  apply List.ext_getElem?
  intro j
  rw [List.getElem?_map, List.getElem?_map, getElem?_modifyAt]
  by_cases e : j = k
  · simp [e]; cases l[k]? <;> simp [h]
  · simp [e]

theorem map_modifyAt_of_inv_at (l : List β) (k : Nat) (f : β → β) (g : β → γ)
    (h : ∀ x, l[k]? = some x → g (f x) = g x) : (modifyAt l k f).map g = l.map g := by
  apply List.ext_getElem?
  intro j
  rw [List.getElem?_map, List.getElem?_map, getElem?_modifyAt]
  by_cases e : j = k
  · subst e
    simp only [if_true]
    cases hx : l[j]? with
    | none => rfl
    | some x => simp [h x hx]
  · simp [e]

theorem getD_map (l : List β) (g : β → γ) (j : Nat) (d : γ) :
    (l.map g).getD j d = (l[j]?.map g).getD d := by
  rw [List.getD_eq_getElem?_getD, List.getElem?_map]


theorem modifyAt_congr_at (l : List β) (k : Nat) (f g : β → β) (h : ∀ x, l[k]? = some x → f x = g x) :
    modifyAt l k f = modifyAt l k g := by
  apply List.ext_getElem?
  intro j
  rw [getElem?_modifyAt, getElem?_modifyAt]
  by_cases e : j = k
  · subst e
    simp only [if_true]
    cases hx : l[j]? with
    | none => rfl
    | some x => simp [h x hx]
  · simp [e]

theorem getD_map_modifyAt (l : List β) (k : Nat) (f : β → β) (g : β → γ) (j : Nat) (d : γ) :
    ((modifyAt l k f).map g).getD j d =
      if j = k then (l[j]?.map (fun x => g (f x))).getD d else (l.map g).getD j d := by
  rw [getD_map, getElem?_modifyAt, getD_map]
  by_cases e : j = k
  · simp [e]; rfl
  · simp [e]

theorem mem_modifyAt (l : List β) (k : Nat) (f : β → β) (t : β) (h : t ∈ modifyAt l k f) :
    t ∈ l ∨ ∃ x, x ∈ l ∧ t = f x := by
  obtain ⟨j, hj⟩ := List.mem_iff_getElem?.mp h
  rw [getElem?_modifyAt] at hj
  by_cases e : j = k
  · simp only [e, if_true] at hj
    cases hx : l[k]? with
    | none => simp [hx] at hj
    | some x =>
      simp [hx] at hj
      exact Or.inr ⟨x, List.mem_of_getElem? hx, hj.symm⟩
  · simp only [e, if_false] at hj
    exact Or.inl (List.mem_of_getElem? hj)
end Lists

/-! ### the frame on `Presc ℝ` -/

abbrev Shape := SKind × GKind × Bool × Bool × Nat
def sShape (s : SRec ℝ) : Shape := (s.kind, s.gk, s.stop, s.refl, s.coeffs.length)
def shapes (P : Presc ℝ) : List Shape := P.surfs.map sShape

/-- radii of the planes (a radius variable exists on curved surfaces only) -/
noncomputable def planeR (P : Presc ℝ) : List ℝ := P.surfs.map fun s => if s.gk = GKind.plane then s.radius else 0
/-- index behind the last surface (no index variable can address it: `set_index` needs a successor) -/
noncomputable def lastIdx (P : Presc ℝ) : ℝ := matN P ((P.surfs.map (·.mPost)).getD (P.surfs.length - 1) 0)

/-- everything of a prescription that no variable writes -/
abbrev RestT := List Shape × List ℝ × ℝ × ℝ × List (ℝ × Bool) × List (Pickup ℝ) × List (Solve ℝ) × ApType × ℝ × FieldType × ℝ × Bool
noncomputable def restP (P : Presc ℝ) : RestT :=
  (shapes P, planeR P, lastIdx P, P.lastThickness, P.waves, P.pickups, P.solves, P.apType, P.apValue, P.fieldType, P.maxYField,
   P.objInf)

/-- the variable exists on a lens of this shape: surface in range (`k+1` in range for thickness and
index), radius variables only on non-planes (`set_radius` rebuilds a `Plane` as a sphere), coefficient
number in range -/
def okShape (sh : List Shape) (v : Var) : Prop :=
  match v.kind with
  | .thickness => v.surf + 1 < sh.length
  | .index => v.surf + 1 < sh.length
  | .radius => ∃ x, sh[v.surf]? = some x ∧ x.2.1 ≠ GKind.plane
  | .coeff i => ∃ x, sh[v.surf]? = some x ∧ i < x.2.2.2.2
  | _ => v.surf < sh.length

/-- same shape as the nominal lens, first surface at `z = 0` (true of every lens built with
`add_surface`, re-established by every `set_thickness`), material identifiers in range -/
def invP (N s : Presc ℝ) : Prop :=
  shapes s = shapes N ∧ posAt s 1 = 0 ∧ ∀ t, t ∈ s.surfs → t.mPost < s.mats.length

noncomputable def frameP (N : Presc ℝ) : Frame (Presc ℝ) Var ℝ RestT := ⟨prescSys, okShape (shapes N), invP N, restP⟩



theorem length_assignZ (ss : List (SRec ℝ)) (pos : List ℝ) : (assignZ ss pos).length = ss.length := by
  unfold assignZ; simp

theorem getElem?_assignZ (ss : List (SRec ℝ)) (pos : List ℝ) (j : Nat) :
    (assignZ ss pos)[j]? = ss[j]?.map fun s => { s with z := pos.getD j s.z } := by
  unfold assignZ
  rw [List.getElem?_mapIdx]

theorem map_assignZ_of_inv {γ : Type} (ss : List (SRec ℝ)) (pos : List ℝ) (g : SRec ℝ → γ)
    (h : ∀ (s : SRec ℝ) (z : ℝ), g { s with z := z } = g s) : (assignZ ss pos).map g = ss.map g := by
  apply List.ext_getElem?
  intro j
  rw [List.getElem?_map, List.getElem?_map, getElem?_assignZ]
  cases ss[j]? <;> simp [h]

theorem map_z_assignZ (ss : List (SRec ℝ)) (pos : List ℝ) (h : pos.length = ss.length) :
    (assignZ ss pos).map (·.z) = pos := by
  apply List.ext_getElem?
  intro j
  rw [List.getElem?_map, getElem?_assignZ]
  by_cases hj : j < ss.length
  · have h1 : ss[j]? = some ss[j] := List.getElem?_eq_getElem hj
    have h2 : pos[j]? = some pos[j] := List.getElem?_eq_getElem (by omega)
    simp [h1, h2, List.getD_eq_getElem?_getD]
  · have h1 : ss[j]? = none := List.getElem?_eq_none (by omega)
    have h2 : pos[j]? = none := List.getElem?_eq_none (by omega)
    simp [h1, h2]

theorem length_setThicknessPos (pos : List ℝ) (v : ℝ) (k : Nat) :
    (setThicknessPos pos v k).length = pos.length := by
  unfold setThicknessPos; simp

/-- `p1` of `set_thickness`: positions behind surface `k` shifted by `delta` -/
noncomputable def shifted (pos : List ℝ) (v : ℝ) (k i : Nat) : ℝ :=
  pos.getD i 0 + if k + 1 ≤ i then (v - pos.getD (k+1) 0 + pos.getD k 0) else 0

theorem getD_setThicknessPos (pos : List ℝ) (v : ℝ) (k i : Nat) (hi : i < pos.length) :
    (setThicknessPos pos v k).getD i 0 = shifted pos v k i - (if 1 < pos.length then shifted pos v k 1 else 0) := by
  unfold setThicknessPos shifted
  num_real
  have h2 : pos[i]? = some pos[i] := List.getElem?_eq_getElem hi
  by_cases h1 : 1 < pos.length
  · have h3 : pos[1]? = some pos[1] := List.getElem?_eq_getElem h1
    simp only [List.getD_eq_getElem?_getD, List.getElem?_map, List.getElem?_mapIdx, h2, h3, h1, if_true,
      Option.map_some, Option.getD_some]
    split <;> split <;> ring
  · have h3 : pos[1]? = none := List.getElem?_eq_none (by omega)
    simp only [List.getD_eq_getElem?_getD, List.getElem?_map, List.getElem?_mapIdx, h2, h3, h1, if_false,
      Option.map_some, Option.getD_some, Option.map_none, Option.getD_none]
    split <;> ring

theorem shapes_getElem? (P : Presc ℝ) (k : Nat) : (shapes P)[k]? = P.surfs[k]?.map sShape := by
  unfold shapes; rw [List.getElem?_map]

theorem ok_lt (sh : List Shape) (v : Var) (h : okShape sh v) : v.surf < sh.length := by
  obtain ⟨k, s⟩ := v
  cases k <;> simp only [okShape] at h
  case radius => obtain ⟨x, hx, _⟩ := h; exact (List.getElem?_eq_some_iff.mp hx).1
  case coeff i => obtain ⟨x, hx, _⟩ := h; exact (List.getElem?_eq_some_iff.mp hx).1
  all_goals (simp only at h ⊢; omega)

theorem surf_exists (P : Presc ℝ) (k : Nat) (h : k < (shapes P).length) : ∃ s, P.surfs[k]? = some s := by
  have : k < P.surfs.length := by simpa [shapes] using h
  exact ⟨P.surfs[k], List.getElem?_eq_getElem this⟩

theorem setRadius_eq (P : Presc ℝ) (a : ℝ) (k : Nat) (h : ∀ s, P.surfs[k]? = some s → s.gk ≠ .plane) :
    setRadius P a k = { P with surfs := modifyAt P.surfs k fun s => { s with radius := a } } := by
  unfold setRadius
  rw [modifyAt_congr_at _ _ _ (fun s => { s with radius := a })]
  intro x hx
  have := h x hx
  cases hg : x.gk <;> simp_all

theorem ok_radius_nonplane (P : Presc ℝ) (k : Nat) (h : okShape (shapes P) ⟨.radius, k⟩) :
    ∀ s, P.surfs[k]? = some s → s.gk ≠ .plane := by
  intro s hs
  obtain ⟨x, hx, hne⟩ := h
  rw [shapes_getElem?, hs] at hx
  simp only [Option.map_some, Option.some.injEq] at hx
  rw [← hx] at hne
  exact hne

theorem ok_coeff_lt (P : Presc ℝ) (k i : Nat) (h : okShape (shapes P) ⟨.coeff i, k⟩) :
    ∀ s, P.surfs[k]? = some s → i < s.coeffs.length := by
  intro s hs
  obtain ⟨x, hx, hlt⟩ := h
  rw [shapes_getElem?, hs] at hx
  simp only [Option.map_some, Option.some.injEq] at hx
  rw [← hx] at hlt
  exact hlt


theorem positions_setThickness (P : Presc ℝ) (a : ℝ) (k : Nat) :
    positions (setThickness P a k) = setThicknessPos (positions P) a k := by
  have hlen : (setThicknessPos (positions P) a k).length = P.surfs.length := by
    rw [length_setThicknessPos]; simp [positions]
  show (assignZ P.surfs (setThicknessPos (positions P) a k)).map (·.z) = _
  exact map_z_assignZ _ _ hlen

theorem thickness_setThickness (P : Presc ℝ) (a : ℝ) (k j : Nat) (hj : j + 1 < P.surfs.length) :
    thickness (setThickness P a k) j = if j = k then a else thickness P j := by
  have hl : (positions P).length = P.surfs.length := by simp [positions]
  unfold thickness posAt
  rw [positions_setThickness, getD_setThicknessPos _ _ _ _ (by omega), getD_setThicknessPos _ _ _ _ (by omega)]
  unfold shifted
  num_real
  by_cases e : j = k
  · subst e
    simp
    ring
  · simp only [e, if_false]
    by_cases h1 : k + 1 ≤ j
    · have h2 : k + 1 ≤ j + 1 := by omega
      simp only [h1, h2, if_true]; ring
    · have h2 : ¬ (k + 1 ≤ j + 1) := by omega
      simp only [h1, h2, if_false]; ring

theorem get_set_P (N P : Presc ℝ) (i j : Var) (a : ℝ) (hP : invP N P) (hi : okShape (shapes N) i)
    (hj : okShape (shapes N) j) : Var.get (Var.set P i a) j = if j = i then a else Var.get P j := by
  obtain ⟨hs, hz, hm⟩ := hP
  rw [← hs] at hi hj
  have hil := ok_lt _ _ hi
  have hjl := ok_lt _ _ hj
  obtain ⟨ik, is⟩ := i
  obtain ⟨jk, js⟩ := j
  simp only at hil hjl
  obtain ⟨sj, hsj⟩ := surf_exists P js hjl
  cases ik
  case radius =>
    have hr : Var.set P ⟨.radius, is⟩ a = { P with surfs := modifyAt P.surfs is fun s => { s with radius := a } } :=
      setRadius_eq P a is (ok_radius_nonplane P is hi)
    rw [hr]
    cases jk
    case radius =>
      simp only [Var.get, surfField, Var.mk.injEq, true_and]
      rw [getD_map_modifyAt]
      by_cases e : js = is
      · subst e; simp [hsj]
      · simp [e]
    all_goals simp [Var.get, surfField, thickness, posAt, positions, matN, map_modifyAt_of_inv]
  case conic =>
    cases jk
    case conic =>
      simp only [Var.get, Var.set, setConic, surfField, Var.mk.injEq, true_and]
      rw [getD_map_modifyAt]
      by_cases e : js = is
      · subst e; simp [hsj]
      · simp [e]
    all_goals simp [Var.get, Var.set, setConic, surfField, thickness, posAt, positions, matN, map_modifyAt_of_inv]
  case tiltX =>
    cases jk
    case tiltX =>
      simp only [Var.get, Var.set, surfField, Var.mk.injEq, true_and]
      rw [getD_map_modifyAt]
      by_cases e : js = is
      · subst e; simp [hsj]
      · simp [e]
    all_goals simp [Var.get, Var.set, surfField, thickness, posAt, positions, matN, map_modifyAt_of_inv]
  case tiltY =>
    cases jk
    case tiltY =>
      simp only [Var.get, Var.set, surfField, Var.mk.injEq, true_and]
      rw [getD_map_modifyAt]
      by_cases e : js = is
      · subst e; simp [hsj]
      · simp [e]
    all_goals simp [Var.get, Var.set, surfField, thickness, posAt, positions, matN, map_modifyAt_of_inv]
  case decX =>
    cases jk
    case decX =>
      simp only [Var.get, Var.set, surfField, Var.mk.injEq, true_and]
      rw [getD_map_modifyAt]
      by_cases e : js = is
      · subst e; simp [hsj]
      · simp [e]
    all_goals simp [Var.get, Var.set, surfField, thickness, posAt, positions, matN, map_modifyAt_of_inv]
  case decY =>
    cases jk
    case decY =>
      simp only [Var.get, Var.set, surfField, Var.mk.injEq, true_and]
      rw [getD_map_modifyAt]
      by_cases e : js = is
      · subst e; simp [hsj]
      · simp [e]
    all_goals simp [Var.get, Var.set, surfField, thickness, posAt, positions, matN, map_modifyAt_of_inv]
  case coeff ci =>
    cases jk
    case coeff cj =>
      simp only [Var.get, Var.set, setCoeff, Var.mk.injEq, VKind.coeff.injEq]
      rw [getD_map_modifyAt]
      by_cases e : js = is
      · subst e
        have hlt := ok_coeff_lt P js ci hi sj hsj
        simp only [hsj, if_true, Option.map_some, Option.getD_some, and_true]
        rw [List.getD_eq_getElem?_getD, getElem?_modifyAt]
        by_cases e2 : cj = ci
        · subst e2
          simp [List.getElem?_eq_getElem hlt]
        · simp [e2, getD_map, hsj]
      · simp [e]
    all_goals simp [Var.get, Var.set, setCoeff, surfField, thickness, posAt, positions, matN, map_modifyAt_of_inv]
  case thickness =>
    have hlen : (setThicknessPos (positions P) a is).length = P.surfs.length := by
      rw [length_setThicknessPos]; simp [positions]
    cases jk
    case thickness =>
      simp only [Var.get, Var.set, Var.mk.injEq, true_and]
      apply thickness_setThickness
      have : js + 1 < (shapes P).length := hj
      simpa [shapes] using this
    all_goals simp [Var.get, Var.set, setThickness, surfField, matN, map_assignZ_of_inv]
  case index =>
    cases jk
    case index =>
      simp only [Var.get, Var.set, setIndex, matN, Var.mk.injEq, true_and]
      have hmap : ∀ (l : List (SRec ℝ)) (k : Nat) (v : Nat),
          (modifyAt l k fun s => { s with mPre := v }).map (·.mPost) = l.map (·.mPost) :=
        fun l k v => map_modifyAt_of_inv l k _ _ (fun _ => rfl)
      rw [hmap, getD_map_modifyAt]
      by_cases e : js = is
      · subst e
        simp [hsj]
      · simp only [e, if_false]
        have hlt : (P.surfs.map (·.mPost)).getD js 0 < P.mats.length := by
          rw [getD_map, hsj]; exact hm sj (List.mem_of_getElem? hsj)
        generalize (P.surfs.map (·.mPost)).getD js 0 = m at hlt ⊢
        rw [List.getD_eq_getElem?_getD, List.getD_eq_getElem?_getD, List.getElem?_append_left hlt]
    all_goals simp [Var.get, Var.set, setIndex, surfField, thickness, posAt, positions, map_modifyAt_of_inv]

theorem mem_assignZ (ss : List (SRec ℝ)) (pos : List ℝ) (t : SRec ℝ) (h : t ∈ assignZ ss pos) :
    ∃ x, x ∈ ss ∧ ∃ z, t = { x with z := z } := by
  obtain ⟨j, hj⟩ := List.mem_iff_getElem?.mp h
  rw [getElem?_assignZ] at hj
  cases hx : ss[j]? with
  | none => simp [hx] at hj
  | some x =>
    simp [hx] at hj
    exact ⟨x, List.mem_of_getElem? hx, _, hj.symm⟩

theorem shapes_set (P : Presc ℝ) (i : Var) (a : ℝ) (hi : okShape (shapes P) i) :
    shapes (Var.set P i a) = shapes P := by
  obtain ⟨ik, is⟩ := i
  cases ik
  case radius =>
    have hr : Var.set P ⟨.radius, is⟩ a = { P with surfs := modifyAt P.surfs is fun s => { s with radius := a } } :=
      setRadius_eq P a is (ok_radius_nonplane P is hi)
    rw [hr]
    exact map_modifyAt_of_inv _ _ _ _ (fun _ => rfl)
  case conic => exact map_modifyAt_of_inv _ _ _ _ (fun _ => rfl)
  case tiltX => exact map_modifyAt_of_inv _ _ _ _ (fun _ => rfl)
  case tiltY => exact map_modifyAt_of_inv _ _ _ _ (fun _ => rfl)
  case decX => exact map_modifyAt_of_inv _ _ _ _ (fun _ => rfl)
  case decY => exact map_modifyAt_of_inv _ _ _ _ (fun _ => rfl)
  case coeff ci =>
    exact map_modifyAt_of_inv _ _ _ _ (fun x => by simp [sShape, length_modifyAt])
  case thickness => exact map_assignZ_of_inv _ _ _ (fun _ _ => rfl)
  case index =>
    show (modifyAt (modifyAt P.surfs is _) (is+1) _).map sShape = P.surfs.map sShape
    have h1 : ∀ (l : List (SRec ℝ)) (k v : Nat), (modifyAt l k fun s => { s with mPre := v }).map sShape = l.map sShape :=
      fun l k v => map_modifyAt_of_inv l k _ _ (fun _ => rfl)
    have h2 : ∀ (l : List (SRec ℝ)) (k v : Nat), (modifyAt l k fun s => { s with mPost := v }).map sShape = l.map sShape :=
      fun l k v => map_modifyAt_of_inv l k _ _ (fun _ => rfl)
    rw [h1, h2]

theorem planeR_set (P : Presc ℝ) (i : Var) (a : ℝ) (hi : okShape (shapes P) i) :
    planeR (Var.set P i a) = planeR P := by
  obtain ⟨ik, is⟩ := i
  cases ik
  case radius =>
    have hr : Var.set P ⟨.radius, is⟩ a = { P with surfs := modifyAt P.surfs is fun s => { s with radius := a } } :=
      setRadius_eq P a is (ok_radius_nonplane P is hi)
    rw [hr]
    apply map_modifyAt_of_inv_at
    intro x hx
    have := ok_radius_nonplane P is hi x hx
    simp [this]
  case conic => exact map_modifyAt_of_inv _ _ _ _ (fun _ => rfl)
  case tiltX => exact map_modifyAt_of_inv _ _ _ _ (fun _ => rfl)
  case tiltY => exact map_modifyAt_of_inv _ _ _ _ (fun _ => rfl)
  case decX => exact map_modifyAt_of_inv _ _ _ _ (fun _ => rfl)
  case decY => exact map_modifyAt_of_inv _ _ _ _ (fun _ => rfl)
  case coeff ci => exact map_modifyAt_of_inv _ _ _ _ (fun _ => rfl)
  case thickness => exact map_assignZ_of_inv _ _ _ (fun _ _ => rfl)
  case index =>
    show (modifyAt (modifyAt P.surfs is _) (is+1) _).map _ = P.surfs.map _
    have h1 : ∀ (l : List (SRec ℝ)) (k v : Nat),
        (modifyAt l k fun s => { s with mPre := v }).map (fun s => if s.gk = GKind.plane then s.radius else 0)
          = l.map (fun s => if s.gk = GKind.plane then s.radius else 0) :=
      fun l k v => map_modifyAt_of_inv l k _ _ (fun _ => rfl)
    have h2 : ∀ (l : List (SRec ℝ)) (k v : Nat),
        (modifyAt l k fun s => { s with mPost := v }).map (fun s => if s.gk = GKind.plane then s.radius else 0)
          = l.map (fun s => if s.gk = GKind.plane then s.radius else 0) :=
      fun l k v => map_modifyAt_of_inv l k _ _ (fun _ => rfl)
    rw [h1, h2]

theorem length_set (P : Presc ℝ) (i : Var) (a : ℝ) (hi : okShape (shapes P) i) :
    (Var.set P i a).surfs.length = P.surfs.length := by
  have := congrArg List.length (shapes_set P i a hi)
  simpa [shapes] using this

theorem lastIdx_set (N P : Presc ℝ) (i : Var) (a : ℝ) (hP : invP N P) (hi : okShape (shapes P) i) :
    lastIdx (Var.set P i a) = lastIdx P := by
  obtain ⟨hs, hz, hm⟩ := hP
  unfold lastIdx
  rw [length_set P i a hi]
  obtain ⟨ik, is⟩ := i
  cases ik
  case radius =>
    have hr : Var.set P ⟨.radius, is⟩ a = { P with surfs := modifyAt P.surfs is fun s => { s with radius := a } } :=
      setRadius_eq P a is (ok_radius_nonplane P is hi)
    rw [hr]
    simp [matN, map_modifyAt_of_inv]
  case index =>
    have hlt : is + 1 < P.surfs.length := by
      have : is + 1 < (shapes P).length := hi
      simpa [shapes] using this
    obtain ⟨sl, hsl⟩ := surf_exists P (P.surfs.length - 1) (by simp [shapes]; omega)
    simp only [Var.set, setIndex, matN]
    have hmap : ∀ (l : List (SRec ℝ)) (k : Nat) (v : Nat),
        (modifyAt l k fun s => { s with mPre := v }).map (·.mPost) = l.map (·.mPost) :=
      fun l k v => map_modifyAt_of_inv l k _ _ (fun _ => rfl)
    rw [hmap, getD_map_modifyAt]
    have e : ¬ (P.surfs.length - 1 = is) := by omega
    simp only [e, if_false]
    have hl : (P.surfs.map (·.mPost)).getD (P.surfs.length - 1) 0 < P.mats.length := by
      rw [getD_map, hsl]; exact hm sl (List.mem_of_getElem? hsl)
    generalize (P.surfs.map (·.mPost)).getD (P.surfs.length - 1) 0 = m at hl ⊢
    rw [List.getD_eq_getElem?_getD, List.getD_eq_getElem?_getD, List.getElem?_append_left hl]
  all_goals simp [Var.set, setConic, setCoeff, setThickness, matN, map_modifyAt_of_inv, map_assignZ_of_inv]

theorem rest_set_P (N P : Presc ℝ) (i : Var) (a : ℝ) (hP : invP N P) (hi : okShape (shapes N) i) :
    restP (Var.set P i a) = restP P := by
  rw [← hP.1] at hi
  have h1 := shapes_set P i a hi
  have h2 := planeR_set P i a hi
  have h3 := lastIdx_set N P i a hP hi
  obtain ⟨ik, is⟩ := i
  unfold restP
  rw [h1, h2, h3]
  cases ik <;> rfl

theorem posAt1_setThickness (P : Presc ℝ) (a : ℝ) (k : Nat) : posAt (setThickness P a k) 1 = 0 := by
  unfold posAt
  rw [positions_setThickness]
  by_cases h : 1 < (positions P).length
  · rw [getD_setThicknessPos _ _ _ _ h]; simp [h]
  · rw [List.getD_eq_getElem?_getD, List.getElem?_eq_none (by rw [length_setThicknessPos]; omega)]
    rfl

theorem inv_set_P (N P : Presc ℝ) (i : Var) (a : ℝ) (hP : invP N P) (hi : okShape (shapes N) i) :
    invP N (Var.set P i a) := by
  obtain ⟨hs, hz, hm⟩ := hP
  have hi' : okShape (shapes P) i := by rw [hs]; exact hi
  refine ⟨(shapes_set P i a hi').trans hs, ?_, ?_⟩
  · obtain ⟨ik, is⟩ := i
    cases ik
    case thickness => exact posAt1_setThickness P a is
    case radius =>
      have hr : Var.set P ⟨.radius, is⟩ a = { P with surfs := modifyAt P.surfs is fun s => { s with radius := a } } :=
        setRadius_eq P a is (ok_radius_nonplane P is hi')
      rw [hr, ← hz]
      simp [posAt, positions, map_modifyAt_of_inv]
    all_goals (rw [← hz]; simp [Var.set, setConic, setCoeff, setIndex, posAt, positions, map_modifyAt_of_inv])
  · obtain ⟨ik, is⟩ := i
    have simple : ∀ (f : SRec ℝ → SRec ℝ), (∀ s, (f s).mPost = s.mPost) →
        ∀ t, t ∈ modifyAt P.surfs is f → t.mPost < P.mats.length := by
      intro f hf t ht
      rcases mem_modifyAt _ _ _ _ ht with h | ⟨x, hx, rfl⟩
      · exact hm t h
      · rw [hf]; exact hm x hx
    cases ik
    case radius =>
      have hr : Var.set P ⟨.radius, is⟩ a = { P with surfs := modifyAt P.surfs is fun s => { s with radius := a } } :=
        setRadius_eq P a is (ok_radius_nonplane P is hi')
      rw [hr]
      exact simple _ (fun _ => rfl)
    case conic => exact simple _ (fun _ => rfl)
    case coeff ci => exact simple _ (fun _ => rfl)
    case tiltX => exact simple _ (fun _ => rfl)
    case tiltY => exact simple _ (fun _ => rfl)
    case decX => exact simple _ (fun _ => rfl)
    case decY => exact simple _ (fun _ => rfl)
    case thickness =>
      intro t ht
      obtain ⟨x, hx, z, rfl⟩ := mem_assignZ _ _ _ ht
      exact hm x hx
    case index =>
      intro t ht
      show t.mPost < (P.mats ++ [a]).length
      rw [List.length_append, List.length_singleton]
      rcases mem_modifyAt _ _ _ _ ht with h | ⟨x, hx, rfl⟩
      · rcases mem_modifyAt _ _ _ _ h with h | ⟨y, hy, rfl⟩
        · exact Nat.lt_succ_of_lt (hm t h)
        · exact Nat.lt_succ_self _
      · rcases mem_modifyAt _ _ _ _ hx with h | ⟨y, hy, rfl⟩
        · exact Nat.lt_succ_of_lt (hm x h)
        · exact Nat.lt_succ_self _

theorem frameP_lawful (N : Presc ℝ) : (frameP N).Lawful :=
  ⟨fun s i a h hi => inv_set_P N s i a h hi,
   fun s i a j h hi hj => get_set_P N s i j a h hi hj,
   fun s i a h hi => rest_set_P N s i a h hi⟩

/-! ### observable snapshot -/

theorem list_ext_getD {γ : Type} (d : γ) (l1 l2 : List γ) (hl : l1.length = l2.length)
    (h : ∀ i, i < l1.length → l1.getD i d = l2.getD i d) : l1 = l2 := by
  apply List.ext_getElem hl
  intro i h1 h2
  have := h i h1
  simpa [List.getD_eq_getElem?_getD, List.getElem?_eq_getElem h1, List.getElem?_eq_getElem h2] using this

/-- what `harness/c01.snap` observes of a prescription (indices at one wavelength) -/
structure Snap where
  z : List ℝ
  radius : List ℝ
  conic : List ℝ
  rx : List ℝ
  ry : List ℝ
  dx : List ℝ
  dy : List ℝ
  n : List ℝ
  coeffs : List (List ℝ)
  shapes : List Shape

noncomputable def snapOf (P : Presc ℝ) : Snap :=
  ⟨positions P, P.surfs.map (·.radius), P.surfs.map (·.conic), P.surfs.map (·.rx), P.surfs.map (·.ry),
   P.surfs.map (·.dx), P.surfs.map (·.dy), P.surfs.map (fun s => matN P s.mPost), P.surfs.map (·.coeffs), shapes P⟩

theorem len_of_inv {N P : Presc ℝ} (h : invP N P) : P.surfs.length = (shapes N).length := by
  rw [← h.1]; simp [shapes]

theorem eqv_snap (N P Q : Presc ℝ) (hn : 2 ≤ (shapes N).length) (h : (frameP N).Eqv P Q) : snapOf P = snapOf Q := by
  obtain ⟨hP, hQ, hr, hg⟩ := h
  have lP := len_of_inv hP
  have lQ := len_of_inv hQ
  have hsh : shapes P = shapes Q := hP.1.trans hQ.1.symm
  have hg' : ∀ j, okShape (shapes N) j → Var.get P j = Var.get Q j := hg
  -- fields whose variable exists on every surface
  have simple : ∀ (f : SRec ℝ → ℝ) (K : VKind), (∀ k, okShape (shapes N) ⟨K, k⟩ ↔ k < (shapes N).length) →
      (∀ (R : Presc ℝ) k, Var.get R ⟨K, k⟩ = (R.surfs.map f).getD k 0) → P.surfs.map f = Q.surfs.map f := by
    intro f K hok hget
    apply list_ext_getD 0
    · simp [lP, lQ]
    · intro k hk
      rw [← hget, ← hget]
      exact hg' _ ((hok k).mpr (by simpa [lP] using hk))
  have hpos : positions P = positions Q := by
    have step : ∀ i, i + 1 < (shapes N).length → posAt P (i+1) - posAt P i = posAt Q (i+1) - posAt Q i := by
      intro i hi
      have := hg' ⟨.thickness, i⟩ hi
      simp only [Var.get, thickness] at this
      num_real
      exact this
    have h1 : posAt P 1 = posAt Q 1 := by rw [hP.2.1, hQ.2.1]
    have all : ∀ i, i < (shapes N).length → posAt P i = posAt Q i := by
      intro i
      induction i with
      | zero => intro _; have := step 0 (by omega); linarith
      | succ i ih =>
        intro hi
        rcases Nat.eq_zero_or_pos i with rfl | hpos
        · exact h1
        · have := step i hi; have := ih (by omega); linarith
    apply list_ext_getD 0
    · simp [positions, lP, lQ]
    · intro i hi
      exact all i (by simpa [positions, lP] using hi)
  have okall : ∀ (K : VKind), (K = .conic ∨ K = .tiltX ∨ K = .tiltY ∨ K = .decX ∨ K = .decY) →
      ∀ k, okShape (shapes N) ⟨K, k⟩ ↔ k < (shapes N).length := by
    intro K hK k
    rcases hK with rfl | rfl | rfl | rfl | rfl <;> simp [okShape]
  have hconic := simple (·.conic) .conic (okall _ (by simp)) (fun _ _ => rfl)
  have hrx := simple (·.rx) .tiltX (okall _ (by simp)) (fun _ _ => rfl)
  have hry := simple (·.ry) .tiltY (okall _ (by simp)) (fun _ _ => rfl)
  have hdx := simple (·.dx) .decX (okall _ (by simp)) (fun _ _ => rfl)
  have hdy := simple (·.dy) .decY (okall _ (by simp)) (fun _ _ => rfl)
  -- the surface records at one index have the same shape
  have hshape : ∀ (k : Nat) (sp sq : SRec ℝ), P.surfs[k]? = some sp → Q.surfs[k]? = some sq → sShape sp = sShape sq := by
    intro k sp sq h1 h2
    have := congrArg (fun l => l[k]?) hsh
    simp only [shapes_getElem?, h1, h2, Option.map_some, Option.some.injEq] at this
    exact this
  have hrad : P.surfs.map (·.radius) = Q.surfs.map (·.radius) := by
    apply list_ext_getD 0
    · simp [lP, lQ]
    · intro k hk
      have hk' : k < (shapes N).length := by simpa [lP] using hk
      obtain ⟨sp, hsp⟩ := surf_exists P k (by rw [hP.1]; exact hk')
      obtain ⟨sq, hsq⟩ := surf_exists Q k (by rw [hQ.1]; exact hk')
      have hs := hshape k sp sq hsp hsq
      by_cases hpl : sp.gk = GKind.plane
      · have hpl' : sq.gk = GKind.plane := by
          have := congrArg (fun x => x.2.1) hs; simp only [sShape] at this; rw [← this]; exact hpl
        have hpr : planeR P = planeR Q := congrArg (fun r => r.2.1) hr
        have := congrArg (fun l => l.getD k 0) hpr
        simp only [planeR, getD_map, hsp, hsq, Option.map_some, Option.getD_some, hpl, hpl', if_true] at this
        rw [getD_map, getD_map, hsp, hsq]
        exact this
      · have hok : okShape (shapes N) ⟨.radius, k⟩ := by
          refine ⟨sShape sp, ?_, hpl⟩
          rw [← hP.1, shapes_getElem?, hsp]; rfl
        exact hg' _ hok
  have hn' : P.surfs.map (fun s => matN P s.mPost) = Q.surfs.map (fun s => matN Q s.mPost) := by
    apply list_ext_getD 0
    · simp [lP, lQ]
    · intro k hk
      have hk' : k < (shapes N).length := by simpa [lP] using hk
      obtain ⟨sp, hsp⟩ := surf_exists P k (by rw [hP.1]; exact hk')
      obtain ⟨sq, hsq⟩ := surf_exists Q k (by rw [hQ.1]; exact hk')
      rw [getD_map, getD_map, hsp, hsq]
      simp only [Option.map_some, Option.getD_some]
      by_cases hlast : k + 1 < (shapes N).length
      · have := hg' ⟨.index, k⟩ hlast
        simp only [Var.get, getD_map, hsp, hsq, Option.map_some, Option.getD_some] at this
        exact this
      · have hl : lastIdx P = lastIdx Q := congrArg (fun r => r.2.2.1) hr
        have e1 : P.surfs.length - 1 = k := by omega
        have e2 : Q.surfs.length - 1 = k := by omega
        simp only [lastIdx, e1, e2, getD_map, hsp, hsq, Option.map_some, Option.getD_some] at hl
        exact hl
  have hco : P.surfs.map (·.coeffs) = Q.surfs.map (·.coeffs) := by
    apply list_ext_getD []
    · simp [lP, lQ]
    · intro k hk
      have hk' : k < (shapes N).length := by simpa [lP] using hk
      obtain ⟨sp, hsp⟩ := surf_exists P k (by rw [hP.1]; exact hk')
      obtain ⟨sq, hsq⟩ := surf_exists Q k (by rw [hQ.1]; exact hk')
      have hs := hshape k sp sq hsp hsq
      have hlen : sp.coeffs.length = sq.coeffs.length := by
        have := congrArg (fun x => x.2.2.2.2) hs; simpa [sShape] using this
      rw [getD_map, getD_map, hsp, hsq]
      simp only [Option.map_some, Option.getD_some]
      apply list_ext_getD 0 _ _ hlen
      intro i hi
      have hok : okShape (shapes N) ⟨.coeff i, k⟩ := by
        refine ⟨sShape sp, ?_, hi⟩
        rw [← hP.1, shapes_getElem?, hsp]; rfl
      have := hg' _ hok
      simp only [Var.get, getD_map, hsp, hsq, Option.map_some, Option.getD_some] at this
      exact this
  simp only [snapOf, hpos, hrad, hconic, hrx, hry, hdx, hdy, hn', hco, hsh]

/-! ### compensator runs on a lens without pickups/solves; scaling round trips -/

theorem update_id (P : Presc ℝ) (h1 : P.pickups = []) (h2 : P.solves = []) : update P = P := by
  simp [update, h1, h2]

theorem compVar_roundtrip (v : Var) (x : ℝ) : (compVar (α := ℝ) v).un ((compVar v).sc x) = x := by
  obtain ⟨k, s⟩ := v
  cases k <;> simp only [compVar, VKind.scale, VKind.unscale, Num.ofNat] <;> num_real
  case coeff i =>
    have : ((10 ^ (4 + 2 * i) : ℕ) : ℝ) / ((1 : ℕ) : ℝ) ≠ 0 := by
      simp
    field_simp
  all_goals ring

theorem pertVar_roundtrip (v : Var) (x : ℝ) : (pertVar (α := ℝ) v).un ((pertVar v).sc x) = x := rfl

end TolerPresc
