import OptiModel.Model.Real
import OptiModel.Proofs.NumReal
import Mathlib.Tactic.Ring
import Mathlib.Tactic.Linarith
import Mathlib.Data.List.Forall2
/-!
# Plumbing for the whole-surface / whole-lens theorems of C02

`traceSurf` is written for a batch (`List.zip`/`List.map`).  For the two geometries whose distance
is computed ray by ray (`Plane`, `StandardGeometry`) the batch trace is the `List.map` of a per-ray
function `traceRay`; this file names the stages of that per-ray function

    r ─localize→ q ─propagate t, opd += |t·n₁|, clip→ `arrive` ─interact→ · ─globalize→ `traceRay`

and proves which fields of a ray each stage leaves alone.  No optics here: the optical facts are in
`Props/C02.lean`, which composes them along these stages.
-/
namespace TraceLaws
open Model

/-! ### the stages of `traceSurf` for one ray -/

/-- the ray in the surface frame when it arrives at the surface: propagated by `t`, path
updated, clipped — the argument that `traceSurf` hands to `interact` -/
noncomputable def arriveAt (s : RSurf ℝ) (w : ℝ) (q : Ray ℝ) (t : ℝ) : Ray ℝ :=
  clip s.aperture
    { q.propagate t s.k1 w with opd := Num.add (q.propagate t s.k1 w).opd (Num.abs (Num.mul t s.n1)) }

/-- the per-ray body of `traceSurf` (ray already in the surface frame, `t` = its distance) -/
noncomputable def stepRay (s : RSurf ℝ) (w : ℝ) (q : Ray ℝ) (t : ℝ) : Ray ℝ :=
  s.cs.globalize (interact s (arriveAt s w q t))

/-- `traceSurf` is `stepRay` mapped over (localised ray, its distance) -/
theorem traceSurf_body (s : RSurf ℝ) (w : ℝ) (rays : List (Ray ℝ)) (hk : s.kind ≠ .object) :
    traceSurf s w rays =
      ((rays.map s.cs.localize).zip (s.geom.distance (rays.map s.cs.localize))).map
        (fun rt => stepRay s w rt.1 rt.2) := by
  unfold traceSurf
  cases h : s.kind with
  | object => exact absurd h hk
  | standard => rfl
  | image => rfl

theorem traceSurf_object (s : RSurf ℝ) (w : ℝ) (rays : List (Ray ℝ)) (hk : s.kind = .object) :
    traceSurf s w rays = rays := by
  unfold traceSurf; rw [hk]

/-- the geometries whose `distance` is evaluated ray by ray in closed form -/
def IsStd : Geom ℝ → Prop
  | .plane => True
  | .standard _ _ => True
  | _ => False

/-- `geometry.distance` for one ray (`Plane.distance`, `StandardGeometry.distance`) -/
noncomputable def dist1 : Geom ℝ → Ray ℝ → ℝ
  | .plane, r => planeDistance r
  | .standard R k, r => stdDistance R k r
  | _, _ => 0

theorem distance_map (g : Geom ℝ) (hg : IsStd g) (rays : List (Ray ℝ)) :
    g.distance rays = rays.map (dist1 g) := by
  cases g <;> first | rfl | exact absurd hg id

/-- the ray in the surface frame on arrival, with the distance the geometry returns for it -/
noncomputable def arrive (s : RSurf ℝ) (w : ℝ) (r : Ray ℝ) : Ray ℝ :=
  arriveAt s w (s.cs.localize r) (dist1 s.geom (s.cs.localize r))

/-- what `traceSurf` does to one ray of the batch -/
noncomputable def traceRay (s : RSurf ℝ) (w : ℝ) (r : Ray ℝ) : Ray ℝ :=
  s.cs.globalize (interact s (arrive s w r))

/-- for a plane or a standard conic, `traceSurf` on a batch is `traceRay` on each ray -/
theorem traceSurf_map (s : RSurf ℝ) (w : ℝ) (rays : List (Ray ℝ)) (hk : s.kind ≠ .object)
    (hg : IsStd s.geom) : traceSurf s w rays = rays.map (traceRay s w) := by
  rw [traceSurf_body s w rays hk, distance_map _ hg]
  induction rays with
  | nil => rfl
  | cons a l ih =>
    simp only [List.map_cons, List.zip_cons_cons]
    rw [ih]
    rfl

theorem traceSurf_length (s : RSurf ℝ) (w : ℝ) (rays : List (Ray ℝ)) (hg : IsStd s.geom) :
    (traceSurf s w rays).length = rays.length := by
  by_cases hk : s.kind = .object
  · rw [traceSurf_object s w rays hk]
  · rw [traceSurf_map s w rays hk hg, List.length_map]

/-! ### `clip` touches the intensity only -/

theorem clip_eq (ap : Option (ℝ × ℝ)) (q : Ray ℝ) : ∃ i, clip ap q = { q with i := i } := by
  unfold clip
  cases ap with
  | none => exact ⟨q.i, rfl⟩
  | some p =>
    obtain ⟨a, b⟩ := p
    simp only
    split_ifs
    · exact ⟨0, rfl⟩
    · exact ⟨q.i, rfl⟩

/-! ### `interact` touches direction and intensity only -/

/-- the change of direction inside `interact` (before the coating factor) -/
noncomputable def bend (s : RSurf ℝ) (q : Ray ℝ) : Ray ℝ :=
  if s.refl then q.reflect (s.geom.normal q).1 (s.geom.normal q).2.1 (s.geom.normal q).2.2
  else q.refract (s.geom.normal q).1 (s.geom.normal q).2.1 (s.geom.normal q).2.2 s.n1 s.n2

theorem interact_image (s : RSurf ℝ) (q : Ray ℝ) (hk : s.kind = .image) : interact s q = q := by
  unfold interact; rw [hk]

theorem interact_eq (s : RSurf ℝ) (q : Ray ℝ) (hk : s.kind ≠ .image) :
    ∃ i, interact s q = { bend s q with i := i } := by
  obtain ⟨kind, cs, geom, n1, n2, k1, refl, ap, co⟩ := s
  unfold interact bend
  simp only at hk ⊢
  generalize geom.normal q = nrm
  obtain ⟨nx, ny, nz⟩ := nrm
  cases kind with
  | image => exact absurd rfl hk
  | object =>
    cases refl <;> cases co with
    | none => exact ⟨_, rfl⟩
    | some p => obtain ⟨T, R⟩ := p; exact ⟨_, rfl⟩
  | standard =>
    cases refl <;> cases co with
    | none => exact ⟨_, rfl⟩
    | some p => obtain ⟨T, R⟩ := p; exact ⟨_, rfl⟩

theorem bend_x (s : RSurf ℝ) (q : Ray ℝ) : (bend s q).x = q.x := by unfold bend; split_ifs <;> rfl
theorem bend_y (s : RSurf ℝ) (q : Ray ℝ) : (bend s q).y = q.y := by unfold bend; split_ifs <;> rfl
theorem bend_z (s : RSurf ℝ) (q : Ray ℝ) : (bend s q).z = q.z := by unfold bend; split_ifs <;> rfl
theorem bend_opd (s : RSurf ℝ) (q : Ray ℝ) : (bend s q).opd = q.opd := by
  unfold bend; split_ifs <;> rfl

theorem interact_x (s : RSurf ℝ) (q : Ray ℝ) : (interact s q).x = q.x := by
  by_cases hk : s.kind = .image
  · rw [interact_image s q hk]
  · obtain ⟨i, h⟩ := interact_eq s q hk; rw [h]; exact bend_x s q
theorem interact_y (s : RSurf ℝ) (q : Ray ℝ) : (interact s q).y = q.y := by
  by_cases hk : s.kind = .image
  · rw [interact_image s q hk]
  · obtain ⟨i, h⟩ := interact_eq s q hk; rw [h]; exact bend_y s q
theorem interact_z (s : RSurf ℝ) (q : Ray ℝ) : (interact s q).z = q.z := by
  by_cases hk : s.kind = .image
  · rw [interact_image s q hk]
  · obtain ⟨i, h⟩ := interact_eq s q hk; rw [h]; exact bend_z s q
theorem interact_opd (s : RSurf ℝ) (q : Ray ℝ) : (interact s q).opd = q.opd := by
  by_cases hk : s.kind = .image
  · rw [interact_image s q hk]
  · obtain ⟨i, h⟩ := interact_eq s q hk; rw [h]; exact bend_opd s q

theorem interact_L (s : RSurf ℝ) (q : Ray ℝ) (hk : s.kind ≠ .image) : (interact s q).L = (bend s q).L := by
  obtain ⟨i, h⟩ := interact_eq s q hk; rw [h]
theorem interact_M (s : RSurf ℝ) (q : Ray ℝ) (hk : s.kind ≠ .image) : (interact s q).M = (bend s q).M := by
  obtain ⟨i, h⟩ := interact_eq s q hk; rw [h]
theorem interact_N (s : RSurf ℝ) (q : Ray ℝ) (hk : s.kind ≠ .image) : (interact s q).N = (bend s q).N := by
  obtain ⟨i, h⟩ := interact_eq s q hk; rw [h]

/-! ### the fields of `arriveAt` -/

section
variable (s : RSurf ℝ) (w : ℝ) (q : Ray ℝ) (t : ℝ)
theorem arriveAt_x : (arriveAt s w q t).x = q.x + t * q.L := by
  unfold arriveAt; obtain ⟨i, h⟩ := clip_eq s.aperture _; rw [h]; rfl
theorem arriveAt_y : (arriveAt s w q t).y = q.y + t * q.M := by
  unfold arriveAt; obtain ⟨i, h⟩ := clip_eq s.aperture _; rw [h]; rfl
theorem arriveAt_z : (arriveAt s w q t).z = q.z + t * q.N := by
  unfold arriveAt; obtain ⟨i, h⟩ := clip_eq s.aperture _; rw [h]; rfl
theorem arriveAt_L : (arriveAt s w q t).L = q.L := by
  unfold arriveAt; obtain ⟨i, h⟩ := clip_eq s.aperture _; rw [h]; rfl
theorem arriveAt_M : (arriveAt s w q t).M = q.M := by
  unfold arriveAt; obtain ⟨i, h⟩ := clip_eq s.aperture _; rw [h]; rfl
theorem arriveAt_N : (arriveAt s w q t).N = q.N := by
  unfold arriveAt; obtain ⟨i, h⟩ := clip_eq s.aperture _; rw [h]; rfl
theorem arriveAt_opd : (arriveAt s w q t).opd = q.opd + |t * s.n1| := by
  unfold arriveAt; obtain ⟨i, h⟩ := clip_eq s.aperture _; rw [h]; rfl
end

/-! ### frame changes leave the accumulated path alone -/

theorem globalize_opd (c : Cs ℝ) (q : Ray ℝ) : (c.globalize q).opd = q.opd := by
  unfold Cs.globalize Ray.translate Ray.rotateX Ray.rotateY Ray.rotateZ
  split_ifs <;> rfl

theorem localize_opd (c : Cs ℝ) (q : Ray ℝ) : (c.localize q).opd = q.opd := by
  unfold Cs.localize Ray.translate Ray.rotateX Ray.rotateY Ray.rotateZ
  split_ifs <;> rfl

/-! ### lists -/

/-- a relation between every element and its image holds position-wise between a list and its map -/
theorem forall₂_map_self {β γ : Type} (Rel : β → γ → Prop) (f : β → γ) :
    ∀ (l : List β), (∀ a ∈ l, Rel a (f a)) → List.Forall₂ Rel l (l.map f)
  | [], _ => List.Forall₂.nil
  | a :: l, h => List.Forall₂.cons (h a (by simp))
      (forall₂_map_self Rel f l (fun b hb => h b (by simp [hb])))

theorem forall₂_self {β : Type} (Rel : β → β → Prop) :
    ∀ (l : List β), (∀ a ∈ l, Rel a a) → List.Forall₂ Rel l l
  | [], _ => List.Forall₂.nil
  | a :: l, h => List.Forall₂.cons (h a (by simp)) (forall₂_self Rel l (fun b hb => h b (by simp [hb])))

/-! ### every geometry returns one distance per ray (as in `Props/C16.lean`) -/

theorem nrSweep_length (g : Geom ℝ) (rays : List (Ray ℝ)) (pts : List (ℝ × ℝ × ℝ))
    (h : pts.length = rays.length) : (nrSweep g rays pts).1.length = rays.length := by
  simp [nrSweep, h]

theorem nrLoop_length (g : Geom ℝ) (rays : List (Ray ℝ)) (tol : ℝ) :
    ∀ (n : Nat) (pts : List (ℝ × ℝ × ℝ)), pts.length = rays.length →
      (nrLoop g rays tol n pts).length = rays.length
  | 0, pts, h => by simpa [nrLoop] using h
  | n+1, pts, h => by
    unfold nrLoop
    have hs := nrSweep_length g rays pts h
    generalize nrSweep g rays pts = sw at hs
    obtain ⟨pts', m⟩ := sw
    simp only
    split
    · exact hs
    · exact nrLoop_length g rays tol n pts' hs

theorem nrDistance_length (g : Geom ℝ) (R tol : ℝ) (mi : Nat) (rays : List (Ray ℝ)) :
    (nrDistance g R tol mi rays).length = rays.length := by
  unfold nrDistance
  simp [nrLoop_length g rays tol mi (rays.map (sphereGuess R)) (by simp)]

theorem distance_length (g : Geom ℝ) (rays : List (Ray ℝ)) : (g.distance rays).length = rays.length := by
  cases g <;> simp [Geom.distance, nrDistance_length]

/-- a relation that holds between `a` and `f (g a, t)` for every `t` holds position-wise between
`l` and `((l.map g).zip ts).map f` when `ts` is as long as `l` -/
theorem forall₂_zip_map {β γ : Type} (Rel : β → γ → Prop) (g : β → β) (f : β × ℝ → γ) :
    ∀ (l : List β) (ts : List ℝ), ts.length = l.length →
      (∀ a t, Rel a (f (g a, t))) → List.Forall₂ Rel l (((l.map g).zip ts).map f)
  | [], ts, _, _ => by simp
  | a :: l, [], h, _ => by simp at h
  | a :: l, t :: ts, h, hR => by
    simp only [List.map_cons, List.zip_cons_cons]
    exact List.Forall₂.cons (hR a t) (forall₂_zip_map Rel g f l ts (by simpa using h) hR)

/-- a relation that always holds, holds position-wise between lists of equal length -/
theorem forall₂_of_length {β γ : Type} (Rel : β → γ → Prop) (h : ∀ a b, Rel a b) :
    ∀ (l : List β) (l' : List γ), l.length = l'.length → List.Forall₂ Rel l l'
  | [], [], _ => List.Forall₂.nil
  | [], _ :: _, e => by simp at e
  | _ :: _, [], e => by simp at e
  | a :: l, b :: l', e => List.Forall₂.cons (h a b) (forall₂_of_length Rel h l l' (by simpa using e))

end TraceLaws
