import OptiModel.Model.Zernike
import OptiModel.Proofs.NumReal
import OptiModel.Proofs.ZernikeTab
import Mathlib.Analysis.SpecialFunctions.Integrals.Basic
import Mathlib.Tactic.Ring
import Mathlib.Tactic.FieldSimp
import Mathlib.Tactic.Linarith
/-! Helper lemmas for C10 (analytic part): the model's radial term over ℝ is the polynomial with the
rational coefficient list; `innerR` *is* the weighted integral `∫₀¹ p q r dr` (through Mathlib's
`integral_pow`); integrals of the azimuthal terms over a period; squares of the norm constants. -/
namespace ZernikeR
open Model.Zern
open scoped Num

noncomputable instance : PowNat ℝ := ⟨fun x e => x ^ e⟩
theorem pow_eq (x : ℝ) (e : ℕ) : PowNat.pow x e = x ^ e := rfl

/-- evaluation of a rational coefficient list at a real radius -/
noncomputable def evalR (p : List (Nat × ℚ)) (r : ℝ) : ℝ := (p.map fun a => (a.2 : ℝ) * r ^ a.1).sum

theorem evalR_nil (r : ℝ) : evalR [] r = 0 := rfl
theorem evalR_cons (a : Nat × ℚ) (p : List (Nat × ℚ)) (r : ℝ) :
    evalR (a :: p) r = (a.2 : ℝ) * r ^ a.1 + evalR p r := by simp [evalR]

theorem continuous_evalR (p : List (Nat × ℚ)) : Continuous (evalR p) := by
  induction p with
  | nil => exact continuous_const
  | cons a p ih =>
    have : evalR (a :: p) = fun r => (a.2 : ℝ) * r ^ a.1 + evalR p r := funext (evalR_cons a p)
    rw [this]; fun_prop

theorem evalR_one (p : List (Nat × ℚ)) : evalR p 1 = (((p.map (·.2)).sum : ℚ) : ℝ) := by
  induction p with
  | nil => simp [evalR]
  | cons a p ih => rw [evalR_cons, ih]; simp

/-! ### `innerR` is the integral -/

theorem integral_monomial (c d : ℝ) (e e' : ℕ) :
    ∫ r in (0:ℝ)..1, (c * r ^ e) * (d * r ^ e') * r = c * d / ((e:ℝ) + (e':ℝ) + 2) := by
  have h : ∀ r : ℝ, (c * r ^ e) * (d * r ^ e') * r = (c * d) * r ^ (e + e' + 1) := by
    intro r; ring
  simp_rw [h]
  rw [intervalIntegral.integral_const_mul, integral_pow]
  simp only [one_pow, ne_eq, Nat.add_eq_zero_iff, one_ne_zero, and_false, not_false_eq_true, zero_pow, sub_zero]
  push_cast
  ring

theorem integral_mono_evalR (c : ℝ) (e : ℕ) (q : List (Nat × ℚ)) :
    ∫ r in (0:ℝ)..1, (c * r ^ e) * evalR q r * r =
      (q.map fun b => c * (b.2 : ℝ) / ((e:ℝ) + (b.1:ℝ) + 2)).sum := by
  induction q with
  | nil => simp [evalR]
  | cons b q ih =>
    have h : ∀ r : ℝ, (c * r ^ e) * evalR (b :: q) r * r =
        (c * r ^ e) * ((b.2:ℝ) * r ^ b.1) * r + (c * r ^ e) * evalR q r * r := by
      intro r; rw [evalR_cons]; ring
    simp_rw [h]
    rw [intervalIntegral.integral_add, integral_monomial, ih]
    · simp
    · exact (by fun_prop : Continuous fun r : ℝ => (c * r ^ e) * ((b.2:ℝ) * r ^ b.1) * r).intervalIntegrable _ _
    · have := continuous_evalR q
      exact (by fun_prop : Continuous fun r : ℝ => (c * r ^ e) * evalR q r * r).intervalIntegrable _ _

theorem cast_inner_row (a : Nat × ℚ) (q : List (Nat × ℚ)) :
    (q.map fun b => (a.2:ℝ) * (b.2:ℝ) / ((a.1:ℝ) + (b.1:ℝ) + 2)).sum =
      (((q.map fun b => a.2 * b.2 / ((a.1 + b.1 + 2 : Nat) : ℚ)).sum : ℚ) : ℝ) := by
  induction q with
  | nil => simp
  | cons b q ih =>
    simp only [List.map_cons, List.sum_cons, Rat.cast_add, ← ih]
    push_cast
    ring

/-- `innerR p q` is `∫₀¹ p(r) q(r) r dr` -/
theorem integral_evalR (p q : List (Nat × ℚ)) :
    ∫ r in (0:ℝ)..1, evalR p r * evalR q r * r = ((innerR p q : ℚ) : ℝ) := by
  induction p with
  | nil => simp [evalR, innerR]
  | cons a p ih =>
    have h : ∀ r : ℝ, evalR (a :: p) r * evalR q r * r =
        ((a.2:ℝ) * r ^ a.1) * evalR q r * r + evalR p r * evalR q r * r := by
      intro r; rw [evalR_cons]; ring
    simp_rw [h]
    have cp := continuous_evalR p
    have cq := continuous_evalR q
    rw [intervalIntegral.integral_add, integral_mono_evalR, ih]
    · simp only [innerR, List.map_cons, List.sum_cons, Rat.cast_add, cast_inner_row]
    · exact (by fun_prop : Continuous fun r : ℝ => ((a.2:ℝ) * r ^ a.1) * evalR q r * r).intervalIntegrable _ _
    · exact (by fun_prop : Continuous fun r : ℝ => evalR p r * evalR q r * r).intervalIntegrable _ _

/-! ### the model's radial term over ℝ -/

theorem fact_pos (n : Nat) : 0 < fact n := by
  induction n with
  | zero => simp [fact]
  | succ n ih => simp only [fact]; positivity

theorem foldl_add_eq {β : Type} (f : β → ℝ) (l : List β) (a : ℝ) :
    l.foldl (fun v k => v + f k) a = a + (l.map f).sum := by
  induction l generalizing a with
  | nil => simp
  | cons x l ih => simp only [List.foldl_cons, List.map_cons, List.sum_cons, ih]; ring

theorem coeffNum_real (n m : Int) (k : Nat) : (coeffNum n m k : ℝ) = ((coeffQ n m k : ℚ) : ℝ) := by
  unfold coeffNum coeffQ
  simp only
  have h2 : 0 < (coeffFrac n m k).2 := by
    unfold coeffFrac; simp only
    exact Nat.mul_pos (Nat.mul_pos (fact_pos _) (fact_pos _)) (fact_pos _)
  generalize coeffFrac n m k = f at *
  have hg : 0 < Nat.gcd f.1 f.2 := Nat.gcd_pos_of_pos_right _ h2
  have hgR : ((Nat.gcd f.1 f.2 : ℕ) : ℝ) ≠ 0 := by positivity
  have e : (Num.ofRat (f.1 / Nat.gcd f.1 f.2) (f.2 / Nat.gcd f.1 f.2) : ℝ) = ((((f.1:ℚ) / (f.2:ℚ)) : ℚ) : ℝ) := by
    rw [NumReal.ofRat_eq, Nat.cast_div (Nat.gcd_dvd_left _ _) hgR, Nat.cast_div (Nat.gcd_dvd_right _ _) hgR]
    push_cast
    rw [div_div_div_cancel_right₀ hgR]
  split_ifs
  · exact e
  · rw [NumReal.fneg_eq, e]; push_cast; ring

/-- over ℝ the model's `_radial_term` is the polynomial with the rational coefficient list -/
theorem radialTerm_real (n m : Int) (r : ℝ) : radialTerm n m r = evalR (radialCoeffs n m) r := by
  unfold radialTerm radialCoeffs evalR
  simp only [NumReal.add_eq, NumReal.mul_eq, NumReal.zero_eq, pow_eq]
  rw [foldl_add_eq (fun k => (coeffNum n m k : ℝ) * r ^ expo n k), zero_add, List.map_map]
  congr 1
  apply List.map_congr_left
  intro k _
  simp [coeffNum_real]

/-! ### radial orthogonality and edge value on the supported range -/

theorem radialCoeffs_neg (n m : Int) : radialCoeffs n (-m) = radialCoeffs n m := by
  unfold radialCoeffs sMax
  rw [Int.natAbs_neg]
  apply List.map_congr_left
  intro k _
  have : coeffFrac n (-m) k = coeffFrac n m k := by
    unfold coeffFrac
    simp only [sub_neg_eq_add, ← sub_eq_add_neg, Prod.mk.injEq, true_and]
    ring
  simp only [coeffQ, this]

theorem radialCoeffs_abs (n m : Int) : radialCoeffs n m = radialCoeffs n (m.natAbs : Int) := by
  rcases le_or_gt 0 m with h | h
  · rw [Int.natAbs_of_nonneg h]
  · have : (m.natAbs : Int) = -m := by omega
    rw [this, radialCoeffs_neg]

theorem ortho_nat_le (N N' M : ℕ) (hN' : N' < 20) (hM : M ≤ N) (hNN : N ≤ N') (p : (N - M) % 2 = 0)
    (p' : (N' - M) % 2 = 0) :
    ∫ r in (0:ℝ)..1, evalR (radialCoeffs N M) r * evalR (radialCoeffs N' M) r * r =
      if N = N' then 1 / (2 * (N:ℝ) + 2) else 0 := by
  rw [integral_evalR, ZernikeTab.ortho_table M (by omega) N (by omega) N' hN' ⟨hM, hNN, p, p'⟩]
  split_ifs <;> push_cast <;> rfl

theorem ortho_nat (N N' M : ℕ) (hN : N < 20) (hN' : N' < 20) (hM : M ≤ N) (hM' : M ≤ N') (p : (N - M) % 2 = 0)
    (p' : (N' - M) % 2 = 0) :
    ∫ r in (0:ℝ)..1, evalR (radialCoeffs N M) r * evalR (radialCoeffs N' M) r * r =
      if N = N' then 1 / (2 * (N:ℝ) + 2) else 0 := by
  rcases le_total N N' with h | h
  · exact ortho_nat_le N N' M hN' hM h p p'
  · have e : ∀ r : ℝ, evalR (radialCoeffs N M) r * evalR (radialCoeffs N' M) r * r =
        evalR (radialCoeffs N' M) r * evalR (radialCoeffs N M) r * r := by intro r; ring
    simp_rw [e]
    rw [ortho_nat_le N' N M hN hM' h p' p]
    by_cases hh : N = N'
    · subst hh; simp
    · rw [if_neg hh, if_neg (Ne.symm hh)]

/-- `∫₀¹ R_n^m R_n'^m r dr = δ_{nn'}/(2n+2)` for the model's radial term, all valid indices up to 19 -/
theorem radial_orthogonality {n n' m : Int} (h : validNM n m) (h' : validNM n' m) (hn : n ≤ 19) (hn' : n' ≤ 19) :
    ∫ r in (0:ℝ)..1, radialTerm n m r * radialTerm n' m r * r =
      if n = n' then 1 / (2 * (n:ℝ) + 2) else 0 := by
  simp_rw [radialTerm_real]
  rw [radialCoeffs_abs n m, radialCoeffs_abs n' m]
  obtain ⟨h0, h1, h2, h3⟩ := h
  obtain ⟨h0', h1', h2', h3'⟩ := h'
  obtain ⟨N, rfl⟩ := Int.eq_ofNat_of_zero_le h0
  obtain ⟨N', rfl⟩ := Int.eq_ofNat_of_zero_le h0'
  rw [ortho_nat N N' m.natAbs (by omega) (by omega) (by omega) (by omega) (by omega) (by omega)]
  simp

/-- `R_n^m(1) = 1` for the model's radial term, all valid indices up to 19 -/
theorem radial_at_one {n m : Int} (h : validNM n m) (hn : n ≤ 19) : radialTerm n m (1:ℝ) = 1 := by
  rw [radialTerm_real, radialCoeffs_abs n m, evalR_one]
  obtain ⟨h0, h1, h2, h3⟩ := h
  obtain ⟨N, rfl⟩ := Int.eq_ofNat_of_zero_le h0
  rw [ZernikeTab.at_one_table m.natAbs (by omega) N (by omega) ⟨by omega, by omega⟩]
  simp

/-! ### azimuthal terms over a period -/
section azimuthal
open Real

theorem integral_cos_int (k : ℤ) : ∫ x in (0:ℝ)..2*π, Real.cos ((k:ℝ) * x) = if k = 0 then 2*π else 0 := by
  by_cases hk : k = 0
  · subst hk; simp
  · rw [if_neg hk]
    have hk' : (k:ℝ) ≠ 0 := by exact_mod_cast hk
    rw [intervalIntegral.integral_comp_mul_left (fun x => Real.cos x) hk', integral_cos]
    have : (k:ℝ) * (2 * π) = ((2 * k : ℤ) : ℝ) * π := by push_cast; ring
    rw [this, Real.sin_int_mul_pi]
    simp

theorem integral_sin_int (k : ℤ) : ∫ x in (0:ℝ)..2*π, Real.sin ((k:ℝ) * x) = 0 := by
  by_cases hk : k = 0
  · subst hk; simp
  · have hk' : (k:ℝ) ≠ 0 := by exact_mod_cast hk
    rw [intervalIntegral.integral_comp_mul_left (fun x => Real.sin x) hk', integral_sin]
    rw [Real.cos_int_mul_two_pi]
    simp

theorem integral_cos_cos (a b : ℤ) : ∫ x in (0:ℝ)..2*π, Real.cos ((a:ℝ) * x) * Real.cos ((b:ℝ) * x) =
    (if a - b = 0 then π else 0) + (if a + b = 0 then π else 0) := by
  have h : ∀ x : ℝ, Real.cos ((a:ℝ) * x) * Real.cos ((b:ℝ) * x) =
      (1/2) * Real.cos (((a - b : ℤ):ℝ) * x) + (1/2) * Real.cos (((a + b : ℤ):ℝ) * x) := by
    intro x; push_cast; rw [sub_mul, add_mul, Real.cos_sub, Real.cos_add]; ring
  simp_rw [h]
  rw [intervalIntegral.integral_add, intervalIntegral.integral_const_mul, intervalIntegral.integral_const_mul,
    integral_cos_int, integral_cos_int]
  · split_ifs <;> ring
  · exact (by fun_prop : Continuous fun x : ℝ => (1/2) * Real.cos (((a - b : ℤ):ℝ) * x)).intervalIntegrable _ _
  · exact (by fun_prop : Continuous fun x : ℝ => (1/2) * Real.cos (((a + b : ℤ):ℝ) * x)).intervalIntegrable _ _

theorem integral_sin_sin (a b : ℤ) : ∫ x in (0:ℝ)..2*π, Real.sin ((a:ℝ) * x) * Real.sin ((b:ℝ) * x) =
    (if a - b = 0 then π else 0) - (if a + b = 0 then π else 0) := by
  have h : ∀ x : ℝ, Real.sin ((a:ℝ) * x) * Real.sin ((b:ℝ) * x) =
      (1/2) * Real.cos (((a - b : ℤ):ℝ) * x) - (1/2) * Real.cos (((a + b : ℤ):ℝ) * x) := by
    intro x; push_cast; rw [sub_mul, add_mul, Real.cos_sub, Real.cos_add]; ring
  simp_rw [h]
  rw [intervalIntegral.integral_sub, intervalIntegral.integral_const_mul, intervalIntegral.integral_const_mul,
    integral_cos_int, integral_cos_int]
  · split_ifs <;> ring
  · exact (by fun_prop : Continuous fun x : ℝ => (1/2) * Real.cos (((a - b : ℤ):ℝ) * x)).intervalIntegrable _ _
  · exact (by fun_prop : Continuous fun x : ℝ => (1/2) * Real.cos (((a + b : ℤ):ℝ) * x)).intervalIntegrable _ _

theorem integral_sin_cos (a b : ℤ) : ∫ x in (0:ℝ)..2*π, Real.sin ((a:ℝ) * x) * Real.cos ((b:ℝ) * x) = 0 := by
  have h : ∀ x : ℝ, Real.sin ((a:ℝ) * x) * Real.cos ((b:ℝ) * x) =
      (1/2) * Real.sin (((a + b : ℤ):ℝ) * x) + (1/2) * Real.sin (((a - b : ℤ):ℝ) * x) := by
    intro x; push_cast; rw [sub_mul, add_mul, Real.sin_sub, Real.sin_add]; ring
  simp_rw [h]
  rw [intervalIntegral.integral_add, intervalIntegral.integral_const_mul, intervalIntegral.integral_const_mul,
    integral_sin_int, integral_sin_int]
  · ring
  · exact (by fun_prop : Continuous fun x : ℝ => (1/2) * Real.sin (((a + b : ℤ):ℝ) * x)).intervalIntegrable _ _
  · exact (by fun_prop : Continuous fun x : ℝ => (1/2) * Real.sin (((a - b : ℤ):ℝ) * x)).intervalIntegrable _ _

/-- the model's azimuthal term over ℝ -/
theorem azimuthalTerm_real (m : Int) (φ : ℝ) :
    azimuthalTerm m φ = if 0 ≤ m then Real.cos ((m:ℝ) * φ) else Real.sin ((m:ℝ) * φ) := by
  unfold azimuthalTerm Num.ofNat
  simp only [NumReal.ofRat_eq, NumReal.mul_eq, NumReal.cos_eq, NumReal.sin_eq, NumReal.fneg_eq, Nat.cast_one, div_one]
  split_ifs with h
  · have : ((m.toNat : ℕ) : ℝ) = (m : ℝ) := by
      have : ((m.toNat : ℕ) : ℤ) = m := Int.toNat_of_nonneg h
      exact_mod_cast this
    rw [this]
  · have : -((m.natAbs : ℕ) : ℝ) = (m : ℝ) := by
      have : -((m.natAbs : ℕ) : ℤ) = m := by omega
      exact_mod_cast this
    rw [this]

theorem azimuthal_orthogonality (m m' : Int) :
    ∫ φ in (0:ℝ)..2*π, azimuthalTerm m φ * azimuthalTerm m' φ =
      if m = m' then (if m = 0 then 2*π else π) else 0 := by
  simp_rw [azimuthalTerm_real]
  by_cases h : 0 ≤ m <;> by_cases h' : 0 ≤ m'
  · simp only [h, h', if_true]
    rw [integral_cos_cos]
    split_ifs <;> first | ring1 | (exfalso; omega)
  · simp only [h, h', if_true, if_false]
    simp_rw [mul_comm (Real.cos _) (Real.sin _)]
    rw [integral_sin_cos]
    split_ifs <;> first | rfl | (exfalso; omega)
  · simp only [h, h', if_true, if_false]
    rw [integral_sin_cos]
    split_ifs <;> first | rfl | (exfalso; omega)
  · simp only [h, h', if_false]
    rw [integral_sin_sin]
    split_ifs <;> first | ring1 | (exfalso; omega)

end azimuthal

/-! ### norm constants and orthonormality in polar (iterated-integral) form -/
section norm
open Real

theorem toNat_cast {k : Int} (h : 0 ≤ k) : ((k.toNat : ℕ) : ℝ) = (k : ℝ) := by
  have : ((k.toNat : ℕ) : ℤ) = k := Int.toNat_of_nonneg h
  exact_mod_cast this

theorem norm_sq_standard {n : Int} (m : Int) (hn : 0 ≤ n) :
    (normConstant .standard n m : ℝ) ^ 2 = (2 * (n:ℝ) + 2) / (if m = 0 then 2 else 1) := by
  unfold normConstant Num.ofNat
  have h0 : (0:ℝ) ≤ n := by exact_mod_cast hn
  simp only [NumReal.ofRat_eq, NumReal.div_eq, NumReal.sqrt_eq, Nat.cast_one, div_one]
  rw [toNat_cast (by omega)]
  split_ifs
  · simp only [NumReal.two_eq]; rw [Real.sq_sqrt (by push_cast; positivity)]; push_cast; ring
  · simp only [NumReal.one_eq]; rw [Real.sq_sqrt (by push_cast; positivity)]; push_cast; ring

theorem norm_sq_noll {n : Int} (m : Int) (hn : 0 ≤ n) :
    (normConstant .noll n m : ℝ) ^ 2 = (2 * (n:ℝ) + 2) / (if m = 0 then 2 else 1) := by
  unfold normConstant Num.ofNat
  have h0 : (0:ℝ) ≤ n := by exact_mod_cast hn
  simp only [NumReal.ofRat_eq, NumReal.sqrt_eq, Nat.cast_one, div_one]
  split_ifs
  · rw [toNat_cast (by omega), Real.sq_sqrt (by push_cast; positivity)]; push_cast; ring
  · rw [toNat_cast (by omega), Real.sq_sqrt (by push_cast; positivity)]; push_cast; ring

theorem norm_fringe (n m : Int) : (normConstant .fringe n m : ℝ) = 1 := rfl

theorem getTerm_real (f : Family) (c : ℝ) (n m : Int) (r φ : ℝ) :
    getTerm f c n m r φ = c * normConstant f n m * radialTerm n m r * azimuthalTerm m φ := rfl

/-- polar iterated integral of a product of two terms = (norms) × (radial integral) × (azimuthal integral) -/
theorem integral_terms_separated (f : Family) (n m n' m' : Int) :
    ∫ φ in (0:ℝ)..2*π, ∫ r in (0:ℝ)..1, getTerm f 1 n m r φ * getTerm f 1 n' m' r φ * r =
      (normConstant f n m * normConstant f n' m') *
      (∫ r in (0:ℝ)..1, radialTerm n m r * radialTerm n' m' r * r) *
      (∫ φ in (0:ℝ)..2*π, azimuthalTerm m φ * azimuthalTerm m' φ) := by
  have key : ∀ φ : ℝ, ∫ r in (0:ℝ)..1, getTerm f 1 n m r φ * getTerm f 1 n' m' r φ * r =
      ((normConstant f n m * normConstant f n' m') *
        (∫ r in (0:ℝ)..1, radialTerm n m r * radialTerm n' m' r * r)) * (azimuthalTerm m φ * azimuthalTerm m' φ) := by
    intro φ
    rw [← intervalIntegral.integral_const_mul, ← intervalIntegral.integral_mul_const]
    congr 1; funext r
    rw [getTerm_real, getTerm_real]; ring
  simp_rw [key]
  rw [intervalIntegral.integral_const_mul]

end norm

end ZernikeR
