import OptiModel.Proofs.Zernike
import Mathlib.LinearAlgebra.Matrix.DotProduct
/-! Helper lemmas for C10 (evaluation and fitting): `poly` is linear in the coefficient list and is
the product of a design row with the coefficient vector; least squares over ℝ: a solution of the
normal equations is a minimiser, and for exact data and an injective design matrix (full column
rank) the solution is the generating vector; the solution map is linear. -/
namespace ZernikeFit
open Model.Zern ZernikeR Matrix

/-- getTerm is homogeneous in the coefficient -/
theorem getTerm_coeff (f : Family) (c : ℝ) (n m : Int) (r φ : ℝ) :
    getTerm f c n m r φ = c * getTerm f 1 n m r φ := by
  rw [getTerm_real, getTerm_real]; ring

theorem polyOn_eq_sum (f : Family) (idx : List (Int × Int)) (c : List ℝ) (r φ : ℝ) :
    polyOn f idx c r φ = (List.zipWith (fun x p => x * getTerm f 1 p.1 p.2 r φ) c idx).sum := by
  unfold polyOn termsOn
  simp only [NumReal.add_eq, NumReal.zero_eq]
  rw [foldl_add_eq (fun k => k), zero_add, List.map_id']
  congr 1
  induction c generalizing idx with
  | nil => simp
  | cons x c ih =>
    cases idx with
    | nil => simp
    | cons p idx => simp only [List.zipWith_cons_cons, ih idx, getTerm_coeff f x]

theorem sum_zipWith_linear (g : Int × Int → ℝ) (idx : List (Int × Int)) (c d : List ℝ) (a b : ℝ)
    (h : c.length = d.length) :
    (List.zipWith (fun x p => x * g p) (List.zipWith (fun x y => a * x + b * y) c d) idx).sum =
      a * (List.zipWith (fun x p => x * g p) c idx).sum + b * (List.zipWith (fun x p => x * g p) d idx).sum := by
  induction c generalizing d idx with
  | nil =>
    cases d with
    | nil => simp
    | cons y d => simp at h
  | cons x c ih =>
    cases d with
    | nil => simp at h
    | cons y d =>
      cases idx with
      | nil => simp
      | cons p idx =>
        simp only [List.zipWith_cons_cons, List.sum_cons, ih idx d (by simpa using h)]
        ring

theorem polyOn_linear (f : Family) (idx : List (Int × Int)) (c d : List ℝ) (a b : ℝ)
    (h : c.length = d.length) (r φ : ℝ) :
    polyOn f idx (List.zipWith (fun x y => a * x + b * y) c d) r φ =
      a * polyOn f idx c r φ + b * polyOn f idx d r φ := by
  simp only [polyOn_eq_sum]
  exact sum_zipWith_linear _ idx c d a b h

section lsq
variable {M N : ℕ}

theorem lsq_normal_unique (A : Matrix (Fin M) (Fin N) ℝ) (hA : Function.Injective A.mulVec)
    (x c : Fin N → ℝ) (hne : Aᵀ *ᵥ (A *ᵥ x) = Aᵀ *ᵥ (A *ᵥ c)) : x = c := by
  have h1 : Aᵀ *ᵥ (A *ᵥ (x - c)) = 0 := by rw [mulVec_sub, mulVec_sub, hne, sub_self]
  have h2 : (A *ᵥ (x - c)) ⬝ᵥ (A *ᵥ (x - c)) = 0 := by
    have := congrArg (fun v => (x - c) ⬝ᵥ v) h1
    simp only [dotProduct_zero] at this
    rw [dotProduct_mulVec, vecMul_transpose] at this
    exact this
  have h3 : A *ᵥ (x - c) = 0 := dotProduct_self_eq_zero.mp h2
  have h4 : A *ᵥ x = A *ᵥ c := by rw [mulVec_sub] at h3; exact sub_eq_zero.mp h3
  exact hA h4

theorem lsq_min_exact (A : Matrix (Fin M) (Fin N) ℝ) (hA : Function.Injective A.mulVec)
    (x c : Fin N → ℝ)
    (hmin : ∀ y, (A *ᵥ x - A *ᵥ c) ⬝ᵥ (A *ᵥ x - A *ᵥ c) ≤ (A *ᵥ y - A *ᵥ c) ⬝ᵥ (A *ᵥ y - A *ᵥ c)) : x = c := by
  have h := hmin c
  simp only [sub_self, dotProduct_zero] at h
  have h0 : 0 ≤ (A *ᵥ x - A *ᵥ c) ⬝ᵥ (A *ᵥ x - A *ᵥ c) := by
    unfold dotProduct; exact Finset.sum_nonneg (fun i _ => mul_self_nonneg _)
  have h3 : A *ᵥ x - A *ᵥ c = 0 := dotProduct_self_eq_zero.mp (le_antisymm h h0)
  exact hA (sub_eq_zero.mp h3)

theorem lsq_normal_linear (A : Matrix (Fin M) (Fin N) ℝ) (x₁ x₂ : Fin N → ℝ) (z₁ z₂ : Fin M → ℝ) (a b : ℝ)
    (h₁ : Aᵀ *ᵥ (A *ᵥ x₁) = Aᵀ *ᵥ z₁) (h₂ : Aᵀ *ᵥ (A *ᵥ x₂) = Aᵀ *ᵥ z₂) :
    Aᵀ *ᵥ (A *ᵥ (a • x₁ + b • x₂)) = Aᵀ *ᵥ (a • z₁ + b • z₂) := by
  simp only [mulVec_add, mulVec_smul, h₁, h₂]
end lsq

section lsq2
variable {M N : ℕ}

theorem cross_term (A : Matrix (Fin M) (Fin N) ℝ) (u : Fin N → ℝ) (e : Fin M → ℝ) :
    (A *ᵥ u) ⬝ᵥ e = u ⬝ᵥ (Aᵀ *ᵥ e) := by
  rw [dotProduct_mulVec, vecMul_transpose]

/-- a solution of the normal equations minimises the sum of squared residuals -/
theorem lsq_normal_is_min (A : Matrix (Fin M) (Fin N) ℝ) (x : Fin N → ℝ) (z : Fin M → ℝ)
    (hne : Aᵀ *ᵥ (A *ᵥ x) = Aᵀ *ᵥ z) (y : Fin N → ℝ) :
    (A *ᵥ x - z) ⬝ᵥ (A *ᵥ x - z) ≤ (A *ᵥ y - z) ⬝ᵥ (A *ᵥ y - z) := by
  have hd : A *ᵥ y - z = A *ᵥ (y - x) + (A *ᵥ x - z) := by rw [mulVec_sub]; abel
  have hc : (A *ᵥ (y - x)) ⬝ᵥ (A *ᵥ x - z) = 0 := by
    rw [cross_term, mulVec_sub, hne, sub_self, dotProduct_zero]
  have h0 : 0 ≤ (A *ᵥ (y - x)) ⬝ᵥ (A *ᵥ (y - x)) := by
    unfold dotProduct; exact Finset.sum_nonneg (fun i _ => mul_self_nonneg _)
  rw [hd, add_dotProduct, dotProduct_add, dotProduct_add, hc, dotProduct_comm (A *ᵥ x - z) (A *ᵥ (y - x)), hc]
  linarith

/-- the design matrix of a family on a list of indices and sample points -/
noncomputable def design (f : Family) (idx : Fin N → Int × Int) (pts : Fin M → ℝ × ℝ) : Matrix (Fin M) (Fin N) ℝ :=
  fun i j => getTerm f 1 (idx j).1 (idx j).2 (pts i).1 (pts i).2

theorem sum_zipWith_ofFn (g : Int × Int → ℝ) : ∀ (N : ℕ) (idx : Fin N → Int × Int) (c : Fin N → ℝ),
    (List.zipWith (fun x p => x * g p) (List.ofFn c) (List.ofFn idx)).sum = ∑ j, c j * g (idx j)
  | 0, _, _ => by simp
  | N+1, idx, c => by
    rw [List.ofFn_succ, List.ofFn_succ, List.zipWith_cons_cons, List.sum_cons, Fin.sum_univ_succ,
      sum_zipWith_ofFn g N (fun j => idx j.succ) (fun j => c j.succ)]

/-- evaluating the model's `poly` at the sample points is the design matrix applied to the coefficients -/
theorem poly_eq_design (f : Family) (idx : Fin N → Int × Int) (pts : Fin M → ℝ × ℝ) (c : Fin N → ℝ) (i : Fin M) :
    polyOn f (List.ofFn idx) (List.ofFn c) (pts i).1 (pts i).2 = (design f idx pts *ᵥ c) i := by
  rw [polyOn_eq_sum, sum_zipWith_ofFn (fun p => getTerm f 1 p.1 p.2 (pts i).1 (pts i).2)]
  simp only [mulVec, dotProduct, design]
  apply Finset.sum_congr rfl
  intro j _; ring
end lsq2

end ZernikeFit
