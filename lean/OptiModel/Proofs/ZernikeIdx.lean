import OptiModel.Model.Zernike
import Mathlib.Tactic.Linarith
import Mathlib.Tactic.Ring
/-! Helper lemmas for C10 (discrete part): the three published single-index rules are injective on
valid `(n, m)`, their ranges, and the agreement of the code's float formulas with the rules. -/
namespace ZernikeIdx
open Model.Zern

theorem tri_even (n : Int) : ∃ u, n * (n + 1) = 2 * u := by
  rcases Int.emod_two_eq_zero_or_one n with h | h
  · exact ⟨n / 2 * (n + 1), by
      have : n = 2 * (n / 2) := by omega
      calc n * (n+1) = (2 * (n/2)) * (n+1) := by rw [← this]
        _ = _ := by ring⟩
  · exact ⟨n * ((n + 1) / 2), by
      have : n + 1 = 2 * ((n + 1) / 2) := by omega
      calc n * (n+1) = n * (2 * ((n+1)/2)) := by rw [← this]
        _ = _ := by ring⟩

/-- triangular numbers grow by at least `n + 1` per step of `n` -/
theorem tri_step {n n' u u' : Int} (hn : 0 ≤ n) (h : n < n') (hu : n * (n + 1) = 2 * u)
    (hu' : n' * (n' + 1) = 2 * u') : u + n + 1 ≤ u' := by
  have h1 : n + 1 ≤ n' := h
  nlinarith [mul_le_mul h1 (by linarith : n + 2 ≤ n' + 1) (by linarith) (by linarith : (0:Int) ≤ n')]

/-! ### OSA/ANSI -/

theorem osa_twice {n m : Int} (h : validNM n m) : 2 * osaIndex n m = n * (n + 2) + m := by
  obtain ⟨h0, h1, h2, h3⟩ := h
  obtain ⟨u, hu⟩ := tri_even n
  have e : n * (n + 2) + m = 2 * u + (n + m) := by rw [← hu]; ring
  unfold osaIndex
  rw [e]; omega

theorem osa_bounds {n m : Int} (h : validNM n m) :
    n * (n + 1) ≤ 2 * osaIndex n m ∧ 2 * osaIndex n m ≤ n * (n + 3) := by
  have := osa_twice h
  obtain ⟨h0, h1, h2, h3⟩ := h
  constructor <;> nlinarith

theorem osa_injective {n m n' m' : Int} (h : validNM n m) (h' : validNM n' m')
    (e : osaIndex n m = osaIndex n' m') : n = n' ∧ m = m' := by
  have t := osa_twice h; have t' := osa_twice h'
  have b := osa_bounds h; have b' := osa_bounds h'
  have hn : n = n' := by
    rcases lt_trichotomy n n' with hlt | heq | hgt
    · exfalso
      have : n + 1 ≤ n' := hlt
      nlinarith [h.1, h'.1, mul_le_mul this (by linarith : n + 2 ≤ n' + 1) (by linarith [h.1]) (by linarith [h'.1] : (0:Int) ≤ n')]
    · exact heq
    · exfalso
      have : n' + 1 ≤ n := hgt
      nlinarith [h.1, h'.1, mul_le_mul this (by linarith : n' + 2 ≤ n + 1) (by linarith [h'.1]) (by linarith [h.1] : (0:Int) ≤ n)]
  subst hn
  exact ⟨rfl, by rw [e] at t; linarith⟩

/-- the code's `range(15)` yields exactly the pairs with OSA index below 120 -/
theorem osa_lt_120_iff {n m : Int} (h : validNM n m) : osaIndex n m < 120 ↔ n < 15 := by
  have b := osa_bounds h
  obtain ⟨h0, h1, h2, h3⟩ := h
  constructor
  · intro hj; by_contra hc
    have : 15 ≤ n := by omega
    nlinarith
  · intro hn
    have : n ≤ 14 := by omega
    nlinarith

/-! ### Noll -/

theorem nollC_eq (n m : Int) :
    nollC n m = (if (0 < m ∧ n % 4 ≤ 1) ∨ (m < 0 ∧ 2 ≤ n % 4) then 0 else 1) := by
  unfold nollC
  simp only
  split_ifs <;> first | rfl | omega

/-- the four `if/elif` branches of the code are exhaustive (no stale `c` is ever used) -/
theorem noll_branches_exhaustive (n m : Int) :
    (0 < m ∧ n % 4 ≤ 1) ∨ (m < 0 ∧ 2 ≤ n % 4) ∨ (0 ≤ m ∧ 2 ≤ n % 4) ∨ (m ≤ 0 ∧ n % 4 ≤ 1) := by
  omega

theorem nollNumberCode_eq (n m : Int) : nollNumberCode n m = nollNumber n m := by
  unfold nollNumberCode nollNumber
  rw [nollC_eq]

theorem noll_injective {n m n' m' : Int} (h : validNM n m) (h' : validNM n' m')
    (e : nollNumber n m = nollNumber n' m') : n = n' ∧ m = m' := by
  obtain ⟨u, hu⟩ := tri_even n
  obtain ⟨u', hu'⟩ := tri_even n'
  unfold nollNumber at e
  rw [hu, hu'] at e
  obtain ⟨h0, h1, h2, h3⟩ := h
  obtain ⟨h0', h1', h2', h3'⟩ := h'
  have hn : n = n' := by
    rcases lt_trichotomy n n' with hlt | heq | hgt
    · exfalso
      have := tri_step h0 hlt hu hu'
      split_ifs at e <;> omega
    · exact heq
    · exfalso
      have := tri_step h0' hgt hu' hu
      split_ifs at e <;> omega
  subst hn
  have : u = u' := by linarith
  subst this
  refine ⟨rfl, ?_⟩
  split_ifs at e <;> omega

/-- rows of Noll's scheme: `n(n+1)/2 < j ≤ (n+1)(n+2)/2` -/
theorem noll_bounds {n m : Int} (h : validNM n m) :
    n * (n + 1) < 2 * nollNumber n m ∧ 2 * nollNumber n m ≤ (n + 1) * (n + 2) := by
  obtain ⟨u, hu⟩ := tri_even n
  obtain ⟨h0, h1, h2, h3⟩ := h
  have e2 : (n + 1) * (n + 2) = 2 * u + 2 * n + 2 := by rw [← hu]; ring
  unfold nollNumber
  rw [hu, e2]
  constructor <;> split_ifs <;> omega

theorem noll_le_120_iff {n m : Int} (h : validNM n m) : nollNumber n m ≤ 120 ↔ n < 15 := by
  have b := noll_bounds h
  obtain ⟨h0, h1, h2, h3⟩ := h
  constructor
  · intro hj; by_contra hc
    have : 15 ≤ n := by omega
    nlinarith
  · intro hn
    have : n ≤ 14 := by omega
    nlinarith

/-! ### Fringe -/

theorem fringe_form {n m : Int} (h : validNM n m) :
    ∃ s : Int, n + (m.natAbs:Int) = 2 * s ∧ (m.natAbs:Int) ≤ s ∧
      fringeNumber n m = (1 + s)^2 - 2 * (m.natAbs:Int) + (if m < 0 then 1 else 0) := by
  obtain ⟨h0, h1, h2, h3⟩ := h
  refine ⟨(n + (m.natAbs:Int)) / 2, by omega, by omega, rfl⟩

theorem fringe_bounds {n m s : Int} (h : validNM n m) (hs : n + (m.natAbs:Int) = 2 * s) :
    s ^ 2 + 1 ≤ fringeNumber n m ∧ fringeNumber n m ≤ (s + 1) ^ 2 := by
  obtain ⟨s', e1, e2, e3⟩ := fringe_form h
  have : s' = s := by omega
  subst this
  rw [e3]
  obtain ⟨h0, h1, h2, h3⟩ := h
  have hm0 : 0 ≤ (m.natAbs:Int) := by omega
  rcases lt_or_ge m 0 with hneg | hpos
  · have hm1 : 1 ≤ (m.natAbs:Int) := by omega
    rw [if_pos hneg]; constructor <;> nlinarith
  · rw [if_neg (not_lt.mpr hpos)]; constructor <;> nlinarith

theorem fringe_injective {n m n' m' : Int} (h : validNM n m) (h' : validNM n' m')
    (e : fringeNumber n m = fringeNumber n' m') : n = n' ∧ m = m' := by
  obtain ⟨s, hs, hms, f⟩ := fringe_form h
  obtain ⟨s', hs', hms', f'⟩ := fringe_form h'
  have b := fringe_bounds h hs
  have b' := fringe_bounds h' hs'
  have s0 : 0 ≤ s := by omega
  have s0' : 0 ≤ s' := by omega
  have hss : s = s' := by
    rcases lt_trichotomy s s' with hlt | heq | hgt
    · exfalso
      have : s + 1 ≤ s' := hlt
      nlinarith [mul_le_mul this this (by linarith) s0']
    · exact heq
    · exfalso
      have : s' + 1 ≤ s := hgt
      nlinarith [mul_le_mul this this (by linarith) s0]
  subst hss
  rw [f, f'] at e
  obtain ⟨h0, h1, h2, h3⟩ := h
  obtain ⟨h0', h1', h2', h3'⟩ := h'
  split_ifs at e <;> omega

/-- every pair with fringe number ≤ 120 has `n < 20`: the code's `range(20)` loses nothing -/
theorem fringe_le_120_n_lt_20 {n m : Int} (h : validNM n m) (hj : fringeNumber n m ≤ 120) : n < 20 := by
  obtain ⟨s, hs, hms, f⟩ := fringe_form h
  have b := fringe_bounds h hs
  have s10 : s ≤ 10 := by
    by_contra hc
    have : 11 ≤ s := by omega
    nlinarith
  obtain ⟨h0, h1, h2, h3⟩ := h
  by_contra hc
  have hn : n = 20 := by omega
  have hm : (m.natAbs:Int) = 0 := by omega
  have hs10 : s = 10 := by omega
  rw [f, hm, hs10] at hj
  split_ifs at hj <;> omega

/-- the float expression of the code, `int((1+(n+|m|)/2)**2 - 2|m| + (1-sign m)/2)`, is the fringe number -/
theorem fringeNumberCode_eq {n m : Int} (h : validNM n m) : fringeNumberCode n m = fringeNumber n m := by
  obtain ⟨s, hs, hms, f⟩ := fringe_form h
  rw [f]
  unfold fringeNumberCode isign
  have e : (2 + n + (m.natAbs:Int))^2 = 4 * (1 + s)^2 := by
    have : 2 + n + (m.natAbs:Int) = 2 * (1 + s) := by omega
    rw [this]; ring
  rw [e]
  have hp : 0 ≤ (1 + s)^2 - 2 * (m.natAbs:Int) := by
    have : 0 ≤ s := by omega
    nlinarith
  generalize (1 + s)^2 = q at *
  obtain ⟨h0, h1, h2, h3⟩ := h
  have hm0 : 0 ≤ (m.natAbs:Int) := by omega
  split_ifs <;> (rw [Int.tdiv_eq_ediv_of_nonneg (by omega)]; omega)

end ZernikeIdx
