import OptiModel.Model.Zernike
/-! Exact rational tables for C10, checked by kernel computation (`decide +kernel`): radial
orthogonality `∫₀¹ R_n^m R_n'^m r dr = δ/(2n+2)` in coefficient form (`innerR`) and the unit edge
value (sum of coefficients), for every `m ≤ n ≤ n' ≤ 19` of equal parity — the whole range the three
families reach (Standard/Noll `n ≤ 14`, Fringe `n ≤ 19`).  No Mathlib. -/
namespace ZernikeTab
open Model.Zern
set_option maxRecDepth 100000

theorem ortho_table : ∀ m : Nat, m < 20 → ∀ n : Nat, n < 20 → ∀ n' : Nat, n' < 20 →
    (m ≤ n ∧ n ≤ n' ∧ (n - m) % 2 = 0 ∧ (n' - m) % 2 = 0) →
    innerR (radialCoeffs (n:Int) (m:Int)) (radialCoeffs (n':Int) (m:Int)) =
      if n = n' then 1 / ((2*n+2 : Nat) : Rat) else 0 := by decide +kernel

theorem at_one_table : ∀ m : Nat, m < 20 → ∀ n : Nat, n < 20 → (m ≤ n ∧ (n - m) % 2 = 0) →
    ((radialCoeffs (n:Int) (m:Int)).map (·.2)).sum = 1 := by decide +kernel

/-- every coefficient the code forms by a float division is an integer (the division is exact) -/
theorem coeff_integral_table : ∀ m : Nat, m < 20 → ∀ n : Nat, n < 20 → (m ≤ n ∧ (n - m) % 2 = 0) →
    ∀ k : Nat, k < sMax n m → (coeffFrac n m k).2 ∣ (coeffFrac n m k).1 ∧ (coeffFrac n m k).1 / (coeffFrac n m k).2 < 2^53 := by
  decide +kernel

end ZernikeTab
