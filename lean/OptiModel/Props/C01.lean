import OptiModel.Model.Presc
import OptiModel.Proofs.NumReal
import Mathlib.Tactic.Ring
import Mathlib.Tactic.Linarith
import Mathlib.Tactic.FieldSimp
/-!
# C01  Lens prescription stays consistent under any history of edits
Theorems over ℝ about `Model/Presc.lean` (state machine of `Optic`/`SurfaceGroup`/
`SurfaceFactory`/`WavelengthGroup`/`Pickup`/`MarginalRayHeightSolve`).
-/
namespace C01
open Model

/-! ### list helpers -/

theorem modifyAt_length {β : Type} (l : List β) (k : Nat) (f : β → β) : (modifyAt l k f).length = l.length := by
  simp [modifyAt]

theorem modifyAt_getElem? {β : Type} (l : List β) (k i : Nat) (f : β → β) :
    (modifyAt l k f)[i]? = if i = k then l[i]?.map f else l[i]? := by
  simp only [modifyAt, List.getElem?_mapIdx]
  cases h : l[i]? with
  | none => simp
  | some x => by_cases hik : i = k <;> simp [hik]

/-- a modification that preserves a projection preserves the projected list -/
theorem map_modifyAt {β γ : Type} (l : List β) (k : Nat) (f : β → β) (g : β → γ) (h : ∀ x, g (f x) = g x) :
    (modifyAt l k f).map g = l.map g := by
  apply List.ext_getElem?
  intro i
  simp only [List.getElem?_map, modifyAt_getElem?]
  by_cases hik : i = k
  · simp only [hik, if_true]; cases l[k]? <;> simp [h]
  · simp [hik]

/-! ### wavelengths: exactly one primary after any history -/

def countPrimary (ws : List (ℝ × Bool)) : Nat := (ws.filter (·.2)).length

theorem addWave_primary (P : Presc ℝ) (v : ℝ) (p : Bool)
    (h : P.waves = [] ∨ countPrimary P.waves = 1) : countPrimary (addWave P v p).waves = 1 := by
  unfold addWave countPrimary
  rcases h with h | h
  · simp [h]
  · cases p
    · have hne : P.waves ≠ [] := by
        intro e; simp [countPrimary, e] at h
      have : P.waves.isEmpty = false := by
        cases hw : P.waves with
        | nil => exact absurd hw hne
        | cons a l => rfl
      simp only [Bool.false_eq_true, if_false, this, List.filter_append]
      simp only [countPrimary] at h
      simp [h]
    · simp only [if_true, List.filter_append, List.filter_map]
      have : (List.filter ((fun x : ℝ × Bool => x.2) ∘ fun w : ℝ × Bool => (w.1, false)) P.waves) = [] := by
        simp [Function.comp_def]
      rw [this]
      by_cases he : (List.map (fun w : ℝ × Bool => (w.1, false)) P.waves).isEmpty = true <;> simp [he]

theorem applyPickup_waves (P : Presc ℝ) (p : Pickup ℝ) : (applyPickup P p).waves = P.waves := by
  unfold applyPickup; cases p.attr <;> rfl

theorem applySolve_waves (P : Presc ℝ) (s : Solve ℝ) : (applySolve P s).waves = P.waves := rfl

theorem foldl_waves {β : Type} (f : Presc ℝ → β → Presc ℝ) (hf : ∀ P x, (f P x).waves = P.waves) :
    ∀ (l : List β) (P : Presc ℝ), (l.foldl f P).waves = P.waves
  | [], _ => rfl
  | x :: l, P => by rw [List.foldl_cons, foldl_waves f hf l, hf]

theorem update_waves (P : Presc ℝ) : (update P).waves = P.waves := by
  unfold update
  rw [foldl_waves applySolve applySolve_waves, foldl_waves applyPickup applyPickup_waves]

theorem scaleSystem_waves (P : Presc ℝ) (s : ℝ) (a b : List Bool) : (scaleSystem P s a b).waves = P.waves := by
  unfold scaleSystem
  simp only
  have h : ∀ (l : List Nat) (Q : Presc ℝ) (n : Nat) (radii thick : List ℝ),
      (l.foldl (fun P k =>
        let P := if a.getD k false then P else setRadius P (radii.getD k 0 * s) k
        if k ≠ n - 1 ∧ !(b.getD k false) then setThickness P (thick.getD k 0 * s) k else P) Q).waves = Q.waves := by
    intro l Q n radii thick
    apply foldl_waves
    intro P k
    split_ifs <;> rfl
  split <;> exact h _ _ _ _ _

/-- only `add_wavelength` touches the wavelength list -/
theorem step_waves (P P' : Presc ℝ) (op : Op ℝ) (h : step P op = .ok P') :
    P'.waves = P.waves ∨ ∃ v p, P' = addWave P v p := by
  cases op with
  | addWave v p => right; exact ⟨v, p, by simp only [step] at h; injection h with h; exact h.symm⟩
  | add a =>
    left
    simp only [step, addSurface] at h
    split at h
    · exact absurd h (by simp)
    · split at h
      · exact absurd h (by simp)
      · injection h with h; rw [← h]
  | remove i =>
    left
    simp only [step, removeSurface] at h
    split_ifs at h
    injection h with h; rw [← h]
  | setCoeff v k i =>
    left
    simp only [step] at h
    split at h
    · exact absurd h (by simp)
    · split_ifs at h
      injection h with h; rw [← h]; rfl
  | pickupAdd p => left; simp only [step] at h; injection h with h; rw [← h]; exact applyPickup_waves P p
  | solveAdd s => left; simp only [step] at h; injection h with h; rw [← h]; rfl
  | update => left; simp only [step] at h; injection h with h; rw [← h]; exact update_waves P
  | imageSolve => left; simp only [step] at h; injection h with h; rw [← h]; rfl
  | scale s a b => left; simp only [step] at h; injection h with h; rw [← h]; exact scaleSystem_waves P s a b
  | setRadius v k | setConic v k | setThickness v k | setIndex v k | setTiltX v k | setTiltY v k
  | setDecX v k | setDecY v k =>
    left
    simp only [step, guardIdx] at h
    split_ifs at h
    injection h with h; rw [← h]; try rfl

/-- **primary_exactly_one**: after any history of public calls, as soon as there is a wavelength
exactly one is primary -/
theorem primary_exactly_one (ops : List (Op ℝ)) (P : Presc ℝ)
    (h : P.waves = [] ∨ countPrimary P.waves = 1) :
    (runOps P ops).waves = [] ∨ countPrimary (runOps P ops).waves = 1 := by
  induction ops generalizing P with
  | nil => exact h
  | cons op ops ih =>
    simp only [runOps, List.foldl_cons]
    cases hs : step P op with
    | error e => exact ih P h
    | ok P' =>
      apply ih
      rcases step_waves P P' op hs with hw | ⟨v, p, rfl⟩
      · rw [hw]; exact h
      · right; exact addWave_primary P v p h

/-! ### at most one stop -/

def countStop (ss : List (SRec ℝ)) : Nat := (ss.filter (·.stop)).length

theorem countStop_append (a b : List (SRec ℝ)) : countStop (a ++ b) = countStop a + countStop b := by
  simp [countStop, List.filter_append]

theorem countStop_take_drop (l : List (SRec ℝ)) (i : Nat) :
    countStop (l.take i) + countStop (l.drop i) = countStop l := by
  rw [← countStop_append, List.take_append_drop]

theorem countStop_clear (l : List (SRec ℝ)) : countStop (l.map fun t => { t with stop := false }) = 0 := by
  simp [countStop, List.filter_map, Function.comp_def]

/-- **stop_at_most_one** (addition anywhere): adding a surface keeps at most one stop -/
theorem addSurface_stop (P P' : Presc ℝ) (a : AddArgs ℝ) (h : addSurface P a = .ok P')
    (h1 : countStop P.surfs ≤ 1) : countStop P'.surfs ≤ 1 := by
  simp only [addSurface] at h
  split at h
  · exact absurd h (by simp)
  · split at h
    · exact absurd h (by simp)
    · injection h with h
      rw [← h]
      simp only
      rw [countStop_append, countStop_append]
      by_cases hstop : (if a.index = 0 then false else a.stop) = true
      · simp only [hstop, if_true]
        have := countStop_take_drop (P.surfs.map fun t => { t with stop := false }) a.index
        rw [countStop_clear] at this
        simp only [countStop, List.filter_cons, hstop, if_true, List.filter_nil, List.length_cons, List.length_nil] at *
        omega
      · have hf : (if a.index = 0 then false else a.stop) = false := by
          cases hh : (if a.index = 0 then false else a.stop) <;> simp_all
        simp only [hf, Bool.false_eq_true, if_false]
        have := countStop_take_drop P.surfs a.index
        simp only [countStop, List.filter_cons, hf, Bool.false_eq_true, if_false, List.filter_nil,
          List.length_nil] at *
        omega

theorem countStop_eraseIdx (l : List (SRec ℝ)) (i : Nat) : countStop (l.eraseIdx i) ≤ countStop l := by
  unfold countStop
  exact List.Sublist.length_le (List.Sublist.filter _ (List.eraseIdx_sublist l i))

theorem countStop_of_map_eq (l l' : List (SRec ℝ)) (h : l'.map (·.stop) = l.map (·.stop)) :
    countStop l' = countStop l := by
  have e : ∀ m : List (SRec ℝ), countStop m = ((m.map (·.stop)).filter id).length := by
    intro m; simp [countStop, List.filter_map, Function.comp_def]
  rw [e, e, h]

/-- stop flags of the surface list -/
def stops (P : Presc ℝ) : List Bool := P.surfs.map (·.stop)

theorem stops_setRadius (P : Presc ℝ) (v : ℝ) (k : Nat) : stops (setRadius P v k) = stops P := by
  simp only [stops, setRadius]; apply map_modifyAt; intro x; cases x.gk <;> rfl
theorem stops_setConic (P : Presc ℝ) (v : ℝ) (k : Nat) : stops (setConic P v k) = stops P := by
  simp only [stops, setConic]; apply map_modifyAt; intro x; rfl
theorem stops_setThickness (P : Presc ℝ) (v : ℝ) (k : Nat) : stops (setThickness P v k) = stops P := by
  simp only [stops, setThickness, assignZ]
  apply List.ext_getElem?; intro i
  simp only [List.getElem?_map, List.getElem?_mapIdx]
  cases P.surfs[i]? <;> rfl
theorem stops_setIndex (P : Presc ℝ) (v : ℝ) (k : Nat) : stops (setIndex P v k) = stops P := by
  simp only [stops, setIndex]
  have h1 := map_modifyAt (modifyAt P.surfs k fun s => { s with mPost := P.mats.length }) (k+1)
    (fun s => { s with mPre := P.mats.length }) (fun x : SRec ℝ => x.stop) (fun _ => rfl)
  have h2 := map_modifyAt P.surfs k (fun s => { s with mPost := P.mats.length })
    (fun x : SRec ℝ => x.stop) (fun _ => rfl)
  exact h1.trans h2
theorem stops_setCoeff (P : Presc ℝ) (v : ℝ) (k i : Nat) : stops (setCoeff P v k i) = stops P := by
  simp only [stops, setCoeff]; apply map_modifyAt; intro x; rfl
theorem stops_applyPickup (P : Presc ℝ) (p : Pickup ℝ) : stops (applyPickup P p) = stops P := by
  unfold applyPickup
  cases p.attr
  · exact stops_setRadius _ _ _
  · exact stops_setConic _ _ _
  · exact stops_setThickness _ _ _
theorem stops_applySolve (P : Presc ℝ) (s : Solve ℝ) : stops (applySolve P s) = stops P := by
  simp only [stops, applySolve]
  apply List.ext_getElem?; intro i
  simp only [List.getElem?_map, List.getElem?_mapIdx]
  cases P.surfs[i]? with
  | none => rfl
  | some x => simp only [Option.map_some]; split_ifs <;> rfl
theorem foldl_stops {β : Type} (f : Presc ℝ → β → Presc ℝ) (hf : ∀ P x, stops (f P x) = stops P) :
    ∀ (l : List β) (P : Presc ℝ), stops (l.foldl f P) = stops P
  | [], _ => rfl
  | x :: l, P => by rw [List.foldl_cons, foldl_stops f hf l, hf]
theorem stops_update (P : Presc ℝ) : stops (update P) = stops P := by
  unfold update
  rw [foldl_stops applySolve stops_applySolve, foldl_stops applyPickup stops_applyPickup]
theorem stops_imageSolve (P : Presc ℝ) : stops (imageSolve P) = stops P := by
  simp only [stops, imageSolve]; apply map_modifyAt; intro x; rfl
theorem stops_scaleSystem (P : Presc ℝ) (s : ℝ) (a b : List Bool) : stops (scaleSystem P s a b) = stops P := by
  unfold scaleSystem
  simp only
  have h : ∀ (l : List Nat) (Q : Presc ℝ) (n : Nat) (radii thick : List ℝ),
      stops (l.foldl (fun P k =>
        let P := if a.getD k false then P else setRadius P (radii.getD k 0 * s) k
        if k ≠ n - 1 ∧ !(b.getD k false) then setThickness P (thick.getD k 0 * s) k else P) Q) = stops Q := by
    intro l Q n radii thick
    apply foldl_stops
    intro P k
    split_ifs
    · rw [stops_setThickness]
    · rfl
    · rw [stops_setThickness, stops_setRadius]
    · rw [stops_setRadius]
  split <;> exact h _ _ _ _ _

/-- one public call keeps "at most one stop" -/
theorem step_stop (P P' : Presc ℝ) (op : Op ℝ) (h : step P op = .ok P') (h1 : countStop P.surfs ≤ 1) :
    countStop P'.surfs ≤ 1 := by
  have keep : stops P' = stops P → countStop P'.surfs ≤ 1 := fun e => by
    rw [countStop_of_map_eq P.surfs P'.surfs e]; exact h1
  cases op with
  | add a => exact addSurface_stop P P' a (by simpa [step] using h) h1
  | remove i =>
    simp only [step, removeSurface] at h
    split_ifs at h
    injection h with h; rw [← h]
    exact le_trans (countStop_eraseIdx _ _) h1
  | addWave v p => simp only [step] at h; injection h with h; rw [← h]; exact h1
  | setCoeff v k i =>
    simp only [step] at h
    split at h
    · exact absurd h (by simp)
    · split_ifs at h
      injection h with h; exact keep (by rw [← h]; exact stops_setCoeff _ _ _ _)
  | pickupAdd p =>
    simp only [step] at h; injection h with h
    exact keep (by rw [← h]; exact stops_applyPickup P p)
  | solveAdd s =>
    simp only [step] at h; injection h with h
    exact keep (by rw [← h]; exact stops_applySolve P s)
  | update => simp only [step] at h; injection h with h; exact keep (by rw [← h]; exact stops_update P)
  | imageSolve => simp only [step] at h; injection h with h; exact keep (by rw [← h]; exact stops_imageSolve P)
  | scale s a b =>
    simp only [step] at h; injection h with h; exact keep (by rw [← h]; exact stops_scaleSystem P s a b)
  | setRadius v k =>
    simp only [step, guardIdx] at h; split_ifs at h; injection h with h
    exact keep (by rw [← h]; exact stops_setRadius _ _ _)
  | setConic v k =>
    simp only [step, guardIdx] at h; split_ifs at h; injection h with h
    exact keep (by rw [← h]; exact stops_setConic _ _ _)
  | setThickness v k =>
    simp only [step, guardIdx] at h; split_ifs at h; injection h with h
    exact keep (by rw [← h]; exact stops_setThickness _ _ _)
  | setIndex v k =>
    simp only [step, guardIdx] at h; split_ifs at h; injection h with h
    exact keep (by rw [← h]; exact stops_setIndex _ _ _)
  | setTiltX v k | setTiltY v k | setDecX v k | setDecY v k =>
    simp only [step, guardIdx] at h; split_ifs at h; injection h with h
    exact keep (by rw [← h]; simp only [stops]; apply map_modifyAt; intro x; rfl)

/-- **stop_at_most_one**: after any history of public calls (additions anywhere, removals, edits,
pickups, solves, scaling) at most one surface is the aperture stop -/
theorem stop_at_most_one (ops : List (Op ℝ)) (P : Presc ℝ) (h : countStop P.surfs ≤ 1) :
    countStop (runOps P ops).surfs ≤ 1 := by
  induction ops generalizing P with
  | nil => exact h
  | cons op ops ih =>
    simp only [runOps, List.foldl_cons]
    cases hs : step P op with
    | error e => exact ih P h
    | ok P' => exact ih P' (step_stop P P' op hs h)

/-! ### read-back and frame conditions of the setters -/

/-- `SurfaceGroup.radii[k]`, `conic[k]` … as partial reads -/
def radiusAt (P : Presc ℝ) (k : Nat) : Option ℝ := P.surfs[k]?.map (·.radius)
def conicAt (P : Presc ℝ) (k : Nat) : Option ℝ := P.surfs[k]?.map (·.conic)

/-- **set_radius**: reads back, changes no other radius, no vertex, no medium, no stop flag -/
theorem setRadius_readback_frame (P : Presc ℝ) (v : ℝ) (k : Nat) (hk : k < P.surfs.length) :
    radiusAt (setRadius P v k) k = some v ∧
    (∀ j, j ≠ k → radiusAt (setRadius P v k) j = radiusAt P j) ∧
    positions (setRadius P v k) = positions P ∧
    (setRadius P v k).surfs.map (·.mPre) = P.surfs.map (·.mPre) ∧
    (setRadius P v k).surfs.map (·.mPost) = P.surfs.map (·.mPost) ∧
    (setRadius P v k).surfs.map (·.stop) = P.surfs.map (·.stop) ∧
    (setRadius P v k).mats = P.mats := by
  have hf : ∀ (g : SRec ℝ → SRec ℝ), True := fun _ => trivial
  refine ⟨?_, ?_, ?_, ?_, ?_, ?_, rfl⟩
  · simp only [radiusAt, setRadius, modifyAt_getElem?, if_true]
    rw [List.getElem?_eq_getElem hk]
    simp only [Option.map_some]
    cases (P.surfs[k]).gk <;> rfl
  · intro j hj
    simp only [radiusAt, setRadius, modifyAt_getElem?, hj, if_false]
  all_goals
    simp only [positions, setRadius]
    apply map_modifyAt
    intro x; cases x.gk <;> rfl

/-- **set_conic**: reads back and changes nothing else -/
theorem setConic_readback_frame (P : Presc ℝ) (v : ℝ) (k : Nat) (hk : k < P.surfs.length) :
    conicAt (setConic P v k) k = some v ∧
    (∀ j, j ≠ k → conicAt (setConic P v k) j = conicAt P j) ∧
    positions (setConic P v k) = positions P ∧
    (setConic P v k).surfs.map (·.radius) = P.surfs.map (·.radius) ∧
    (setConic P v k).surfs.map (·.mPost) = P.surfs.map (·.mPost) := by
  refine ⟨?_, ?_, ?_, ?_, ?_⟩
  · simp only [conicAt, setConic, modifyAt_getElem?, if_true]
    rw [List.getElem?_eq_getElem hk]; rfl
  · intro j hj
    simp only [conicAt, setConic, modifyAt_getElem?, hj, if_false]
  all_goals
    simp only [positions, setConic]
    apply map_modifyAt
    intro x; rfl

/-! ### set_thickness on the vector of vertex positions -/

def thick (pos : List ℝ) (j : Nat) : ℝ := pos.getD (j+1) 0 - pos.getD j 0

theorem getD_setThicknessPos (pos : List ℝ) (v : ℝ) (k i : Nat) (hi : i < pos.length) (h1 : 1 < pos.length) :
    (setThicknessPos pos v k).getD i 0 =
      (if k + 1 ≤ i then pos.getD i 0 + (v - pos.getD (k+1) 0 + pos.getD k 0) else pos.getD i 0)
      - (if k + 1 ≤ 1 then pos.getD 1 0 + (v - pos.getD (k+1) 0 + pos.getD k 0) else pos.getD 1 0) := by
  unfold setThicknessPos
  num_real
  simp only [List.getD_eq_getElem?_getD, List.getElem?_map, List.getElem?_mapIdx]
  rw [List.getElem?_eq_getElem hi]
  simp only [Option.map_some, Option.getD_some]
  rw [List.getElem?_eq_getElem h1]
  simp only [Option.map_some, Option.getD_some]

/-- **setThickness_frame**: thickness `k` reads back `v`; every other thickness is unchanged, i.e.
all later vertices move rigidly -/
theorem setThickness_thick (pos : List ℝ) (v : ℝ) (k j : Nat) (hk : k + 1 < pos.length)
    (hj : j + 1 < pos.length) :
    thick (setThicknessPos pos v k) j = if j = k then v else thick pos j := by
  unfold thick
  rw [getD_setThicknessPos pos v k (j+1) hj (by omega), getD_setThicknessPos pos v k j (by omega) (by omega)]
  by_cases h : j = k
  · subst h
    have h1 : ¬ (j + 1 ≤ j) := by omega
    simp only [le_refl, if_true, h1, if_false]; ring
  · by_cases h1 : k + 1 ≤ j
    · have h2 : k + 1 ≤ j + 1 := by omega
      simp only [h, h1, h2, if_true, if_false]; ring
    · have h2 : ¬ (k + 1 ≤ j + 1) := by omega
      simp only [h, h1, h2, if_false]; ring

/-- the first surface is re-zeroed -/
theorem setThickness_first (pos : List ℝ) (v : ℝ) (k : Nat) (h1 : 1 < pos.length) :
    (setThicknessPos pos v k).getD 1 0 = 0 := by
  rw [getD_setThicknessPos _ _ _ _ h1 h1]; ring

/-- `set_thickness` touches nothing but the vertex positions -/
theorem setThickness_frame (P : Presc ℝ) (v : ℝ) (k : Nat) :
    (setThickness P v k).surfs.map (·.radius) = P.surfs.map (·.radius) ∧
    (setThickness P v k).surfs.map (·.conic) = P.surfs.map (·.conic) ∧
    (setThickness P v k).surfs.map (·.mPre) = P.surfs.map (·.mPre) ∧
    (setThickness P v k).surfs.map (·.mPost) = P.surfs.map (·.mPost) ∧
    (setThickness P v k).surfs.map (·.stop) = P.surfs.map (·.stop) ∧
    (setThickness P v k).mats = P.mats := by
  refine ⟨?_, ?_, ?_, ?_, ?_, rfl⟩ <;>
  · simp only [setThickness, assignZ]
    apply List.ext_getElem?
    intro i
    simp only [List.getElem?_map, List.getElem?_mapIdx]
    cases P.surfs[i]? <;> rfl

/-! ### media chain -/

/-- the medium in front of each surface is (the same object as) the medium behind its predecessor -/
def Chain (l : List (SRec ℝ)) : Prop :=
  ∀ j a b, l[j]? = some a → l[j+1]? = some b → b.mPre = a.mPost

/-- every operation that leaves the lists of front and back media untouched keeps the chain -/
theorem chain_of_maps (l l' : List (SRec ℝ)) (h1 : l'.map (·.mPre) = l.map (·.mPre))
    (h2 : l'.map (·.mPost) = l.map (·.mPost)) (hc : Chain l) : Chain l' := by
  intro j a' b' ha hb
  have e1 := congrArg (fun m => m[j+1]?) h1
  have e2 := congrArg (fun m => m[j]?) h2
  simp only [List.getElem?_map, ha, hb, Option.map_some] at e1 e2
  cases hb0 : l[j+1]? with
  | none => simp [hb0] at e1
  | some b =>
    cases ha0 : l[j]? with
    | none => simp [ha0] at e2
    | some a =>
      simp only [hb0, ha0, Option.map_some, Option.some.injEq] at e1 e2
      rw [e1, e2]; exact hc j a b ha0 hb0

/-- **build_media_chain**: appending a surface whose front medium is the last surface's back medium
(what `_configure_material` does) keeps the chain -/
theorem chain_append (l : List (SRec ℝ)) (s : SRec ℝ) (hc : Chain l)
    (hs : ∀ a, l[l.length - 1]? = some a → l ≠ [] → s.mPre = a.mPost) : Chain (l ++ [s]) := by
  intro j a b ha hb
  by_cases hj : j + 1 < l.length
  · rw [List.getElem?_append_left (by omega)] at ha
    rw [List.getElem?_append_left hj] at hb
    exact hc j a b ha hb
  · by_cases hj2 : j + 1 = l.length
    · rw [List.getElem?_append_left (by omega)] at ha
      rw [List.getElem?_append_right (by omega)] at hb
      have : j + 1 - l.length = 0 := by omega
      simp only [this, List.getElem?_cons_zero, Option.some.injEq] at hb
      rw [← hb]
      apply hs a
      · have : l.length - 1 = j := by omega
        rw [this]; exact ha
      · intro e; simp [e] at hj2
    · have : (l ++ [s])[j+1]? = none := by
        apply List.getElem?_eq_none; simp; omega
      rw [this] at hb; exact absurd hb (by simp)

/-- **set_index keeps the chain**: the new medium is written behind surface `k` and in front of
surface `k+1` -/
theorem setIndex_getElem? (P : Presc ℝ) (v : ℝ) (k j : Nat) :
    (setIndex P v k).surfs[j]? = (P.surfs[j]?).map (fun s =>
      if j = k then { s with mPost := P.mats.length }
      else if j = k + 1 then { s with mPre := P.mats.length } else s) := by
  simp only [setIndex, modifyAt_getElem?]
  cases h : P.surfs[j]? with
  | none => by_cases h1 : j = k + 1 <;> by_cases h2 : j = k <;> simp [h1, h2]
  | some s =>
    by_cases h2 : j = k
    · have h1 : ¬ (j = k + 1) := by omega
      simp [h1, h2]
    · by_cases h1 : j = k + 1 <;> simp [h1, h2]

theorem setIndex_chain (P : Presc ℝ) (v : ℝ) (k : Nat) (hc : Chain P.surfs) : Chain (setIndex P v k).surfs := by
  intro j a b ha hb
  rw [setIndex_getElem?] at ha hb
  cases h0 : P.surfs[j]? with
  | none => simp [h0] at ha
  | some a0 =>
    cases h1 : P.surfs[j+1]? with
    | none => simp [h1] at hb
    | some b0 =>
      have hab := hc j a0 b0 h0 h1
      simp only [h0, h1, Option.map_some, Option.some.injEq] at ha hb
      rw [← ha, ← hb]
      by_cases c1 : j = k
      · have c2 : ¬ (j + 1 = k) := by omega
        have c3 : j + 1 = k + 1 := by omega
        simp [c1, c2, c3]
      · by_cases c2 : j = k + 1
        · subst c2
          have c3 : ¬ (k + 1 + 1 = k) := by omega
          have c4 : ¬ (k + 1 + 1 = k + 1) := by omega
          have c5 : ¬ (k + 1 = k) := by omega
          simp [c3, c4, c5, hab]
        · by_cases c3 : j + 1 = k
          · have c4 : ¬ (j + 1 = k + 1) := by omega
            simp [c1, c2, c3, c4, hab]
          · have c4 : ¬ (j + 1 = k + 1) := by omega
            simp [c1, c2, c3, c4, hab]

/-! ### pickups and solves: the single-step algebra -/

/-- **pickup (radius)**: immediately after a radius pickup is applied its target satisfies
`target = scale·source + offset` (source ≠ target, both in range) -/
theorem applyPickup_radius (P : Presc ℝ) (p : Pickup ℝ) (ha : p.attr = .radius) (hne : p.src ≠ p.tgt)
    (hs : p.src < P.surfs.length) (ht : p.tgt < P.surfs.length) :
    ∃ rs, radiusAt P p.src = some rs ∧ radiusAt (applyPickup P p) p.src = some rs ∧
      radiusAt (applyPickup P p) p.tgt = some (p.scale * rs + p.offset) := by
  refine ⟨(P.surfs[p.src]).radius, ?_, ?_, ?_⟩
  · simp [radiusAt, List.getElem?_eq_getElem hs]
  · simp only [applyPickup, ha]
    rw [(setRadius_readback_frame P _ p.tgt ht).2.1 p.src hne]
    simp [radiusAt, List.getElem?_eq_getElem hs]
  · simp only [applyPickup, ha]
    num_real
    rw [(setRadius_readback_frame P _ p.tgt ht).1]
    simp [List.getD_eq_getElem?_getD, List.getElem?_map, List.getElem?_eq_getElem hs]

/-- **solve (step algebra)**: moving a surface axially by `d` changes the paraxial height with which
a ray of slope `u` arrives by `d·u`; choosing `d = (h − y)/u` (what the solve computes from the
arriving slope) puts the ray at height `h`. -/
theorem solve_places_ray_step (r : PRay ℝ) (s : PSurf ℝ) (h : ℝ) (hdy : s.dy = 0) (hu : r.u ≠ 0) :
    let y := (pstepStd r s).y
    let d := (h - y) / r.u
    (pstepStd r { s with z := s.z + d }).y = h := by
  intro y d
  simp only [d, y, pstepStd]
  num_real
  rw [hdy]
  field_simp
  ring

end C01
