import OptiModel.Model.Presc
import OptiModel.Proofs.NumReal
import Mathlib.Tactic.Ring
import Mathlib.Tactic.Linarith
import Mathlib.Tactic.FieldSimp
/-!
# C01  Lens prescription stays consistent under any history of edits
Theorems over ℝ about `Model/Presc.lean` (state machine of `Optic`/`SurfaceGroup`/
`SurfaceFactory`/`WavelengthGroup`/`Pickup`/`MarginalRayHeightSolve`).

Clause → theorem:
* building in index order (success, vertex = running sum, media, one stop): `addSurface_end_eq`, `build_in_order`
* at most one stop / exactly one primary after any history: `stop_at_most_one`, `primary_exactly_one`
* setters read back and change nothing else: `setRadius_readback_frame`, `setConic_readback_frame`,
  `setThickness_readback_frame` (on the lens; `setThickness_thick` is the vertex-vector algebra),
  `setIndex_readback_frame`, `step_field_setters`, `step_setCoeff`
* media chain after any in-order history of edits: `media_chain_after_any_history`
* pickups (one application): `applyPickup_radius`, `applyPickup_conic`, `applyPickup_thickness`
* marginal-ray-height solve: `solve_places_marginal_ray` (infinite object, EPD aperture, `idx ≥ 2`);
  `solve_places_ray_step` is the one-step algebra it rests on.
Still partial: "after `update()` *each* pickup holds" is proved only for one application (a later pickup or
solve may overwrite the source of an earlier one — the model applies them in order, once); the solve clause
is not proved for finite objects / F-number apertures (there the launch of the marginal ray itself depends
on the vertices that the solve moves).
-/
namespace C01
open Model

/-! ### list helpers -/

theorem modifyAt_length {β : Type} (l : List β) (k : Nat) (f : β → β) : (modifyAt l k f).length = l.length := by
  simp [modifyAt]

theorem modifyAt_getElem? {β : Type} (l : List β) (k i : Nat) (f : β → β) :
    (modifyAt l k f)[i]? = if i = k then l[i]?.map f else l[i]? := by
  simp only [modifyAt, List.getElem?_mapIdx]
  cases h : l[i]? with
  | none => simp
  | some x => by_cases hik : i = k <;> simp [hik]

/-- a modification that preserves a projection preserves the projected list -/
theorem map_modifyAt {β γ : Type} (l : List β) (k : Nat) (f : β → β) (g : β → γ) (h : ∀ x, g (f x) = g x) :
    (modifyAt l k f).map g = l.map g := by
  apply List.ext_getElem?
  intro i
  simp only [List.getElem?_map, modifyAt_getElem?]
  by_cases hik : i = k
  · simp only [hik, if_true]; cases l[k]? <;> simp [h]
  · simp [hik]

/-! ### wavelengths: exactly one primary after any history -/

def countPrimary (ws : List (ℝ × Bool)) : Nat := (ws.filter (·.2)).length

theorem addWave_primary (P : Presc ℝ) (v : ℝ) (p : Bool)
    (h : P.waves = [] ∨ countPrimary P.waves = 1) : countPrimary (addWave P v p).waves = 1 := by
  unfold addWave countPrimary
  rcases h with h | h
  · simp [h]
  · cases p
    · have hne : P.waves ≠ [] := by
        intro e; simp [countPrimary, e] at h
      have : P.waves.isEmpty = false := by
        cases hw : P.waves with
        | nil => exact absurd hw hne
        | cons a l => rfl
      simp only [Bool.false_eq_true, if_false, this, List.filter_append]
      simp only [countPrimary] at h
      simp [h]
    · simp only [if_true, List.filter_append, List.filter_map]
      have : (List.filter ((fun x : ℝ × Bool => x.2) ∘ fun w : ℝ × Bool => (w.1, false)) P.waves) = [] := by
        simp [Function.comp_def]
      rw [this]
      by_cases he : (List.map (fun w : ℝ × Bool => (w.1, false)) P.waves).isEmpty = true <;> simp [he]

theorem applyPickup_waves (P : Presc ℝ) (p : Pickup ℝ) : (applyPickup P p).waves = P.waves := by
  unfold applyPickup; cases p.attr <;> rfl

theorem applySolve_waves (P : Presc ℝ) (s : Solve ℝ) : (applySolve P s).waves = P.waves := rfl

theorem foldl_waves {β : Type} (f : Presc ℝ → β → Presc ℝ) (hf : ∀ P x, (f P x).waves = P.waves) :
    ∀ (l : List β) (P : Presc ℝ), (l.foldl f P).waves = P.waves
  | [], _ => rfl
  | x :: l, P => by rw [List.foldl_cons, foldl_waves f hf l, hf]

theorem update_waves (P : Presc ℝ) : (update P).waves = P.waves := by
  unfold update
  rw [foldl_waves applySolve applySolve_waves, foldl_waves applyPickup applyPickup_waves]

theorem scaleSystem_waves (P : Presc ℝ) (s : ℝ) (a b : List Bool) : (scaleSystem P s a b).waves = P.waves := by
  unfold scaleSystem
  simp only
  have h : ∀ (l : List Nat) (Q : Presc ℝ) (n : Nat) (radii thick : List ℝ),
      (l.foldl (fun P k =>
        let P := if a.getD k false then P else setRadius P (radii.getD k 0 * s) k
        if k ≠ n - 1 ∧ !(b.getD k false) then setThickness P (thick.getD k 0 * s) k else P) Q).waves = Q.waves := by
    intro l Q n radii thick
    apply foldl_waves
    intro P k
    split_ifs <;> rfl
  split <;> exact h _ _ _ _ _

/-- only `add_wavelength` touches the wavelength list -/
theorem step_waves (P P' : Presc ℝ) (op : Op ℝ) (h : step P op = .ok P') :
    P'.waves = P.waves ∨ ∃ v p, P' = addWave P v p := by
  cases op with
  | addWave v p => right; exact ⟨v, p, by simp only [step] at h; injection h with h; exact h.symm⟩
  | add a =>
    left
    simp only [step, addSurface] at h
    split at h
    · exact absurd h (by simp)
    · split at h
      · exact absurd h (by simp)
      · injection h with h; rw [← h]
  | remove i =>
    left
    simp only [step, removeSurface] at h
    split_ifs at h
    injection h with h; rw [← h]
  | setCoeff v k i =>
    left
    simp only [step] at h
    split at h
    · exact absurd h (by simp)
    · split_ifs at h
      injection h with h; rw [← h]; rfl
  | pickupAdd p => left; simp only [step] at h; injection h with h; rw [← h]; exact applyPickup_waves P p
  | solveAdd s => left; simp only [step] at h; injection h with h; rw [← h]; rfl
  | update => left; simp only [step] at h; injection h with h; rw [← h]; exact update_waves P
  | imageSolve => left; simp only [step] at h; injection h with h; rw [← h]; rfl
  | scale s a b => left; simp only [step] at h; injection h with h; rw [← h]; exact scaleSystem_waves P s a b
  | setRadius v k | setConic v k | setThickness v k | setIndex v k | setTiltX v k | setTiltY v k
  | setDecX v k | setDecY v k =>
    left
    simp only [step, guardIdx] at h
    split_ifs at h
    injection h with h; rw [← h]; try rfl

/-- **primary_exactly_one**: after any history of public calls, as soon as there is a wavelength
exactly one is primary -/
theorem primary_exactly_one (ops : List (Op ℝ)) (P : Presc ℝ)
    (h : P.waves = [] ∨ countPrimary P.waves = 1) :
    (runOps P ops).waves = [] ∨ countPrimary (runOps P ops).waves = 1 := by
  induction ops generalizing P with
  | nil => exact h
  | cons op ops ih =>
    simp only [runOps, List.foldl_cons]
    cases hs : step P op with
    | error e => exact ih P h
    | ok P' =>
      apply ih
      rcases step_waves P P' op hs with hw | ⟨v, p, rfl⟩
      · rw [hw]; exact h
      · right; exact addWave_primary P v p h

/-! ### at most one stop -/

def countStop (ss : List (SRec ℝ)) : Nat := (ss.filter (·.stop)).length

theorem countStop_append (a b : List (SRec ℝ)) : countStop (a ++ b) = countStop a + countStop b := by
  simp [countStop, List.filter_append]

theorem countStop_take_drop (l : List (SRec ℝ)) (i : Nat) :
    countStop (l.take i) + countStop (l.drop i) = countStop l := by
  rw [← countStop_append, List.take_append_drop]

theorem countStop_clear (l : List (SRec ℝ)) : countStop (l.map fun t => { t with stop := false }) = 0 := by
  simp [countStop, List.filter_map, Function.comp_def]

/-- **stop_at_most_one** (addition anywhere): adding a surface keeps at most one stop -/
theorem addSurface_stop (P P' : Presc ℝ) (a : AddArgs ℝ) (h : addSurface P a = .ok P')
    (h1 : countStop P.surfs ≤ 1) : countStop P'.surfs ≤ 1 := by
  simp only [addSurface] at h
  split at h
  · exact absurd h (by simp)
  · split at h
    · exact absurd h (by simp)
    · injection h with h
      rw [← h]
      simp only
      rw [countStop_append, countStop_append]
      by_cases hstop : (if a.index = 0 then false else a.stop) = true
      · simp only [hstop, if_true]
        have := countStop_take_drop (P.surfs.map fun t => { t with stop := false }) a.index
        rw [countStop_clear] at this
        simp only [countStop, List.filter_cons, hstop, if_true, List.filter_nil, List.length_cons, List.length_nil] at *
        omega
      · have hf : (if a.index = 0 then false else a.stop) = false := by
          cases hh : (if a.index = 0 then false else a.stop) <;> simp_all
        simp only [hf, Bool.false_eq_true, if_false]
        have := countStop_take_drop P.surfs a.index
        simp only [countStop, List.filter_cons, hf, Bool.false_eq_true, if_false, List.filter_nil,
          List.length_nil] at *
        omega

theorem countStop_eraseIdx (l : List (SRec ℝ)) (i : Nat) : countStop (l.eraseIdx i) ≤ countStop l := by
  unfold countStop
  exact List.Sublist.length_le (List.Sublist.filter _ (List.eraseIdx_sublist l i))

theorem countStop_of_map_eq (l l' : List (SRec ℝ)) (h : l'.map (·.stop) = l.map (·.stop)) :
    countStop l' = countStop l := by
  have e : ∀ m : List (SRec ℝ), countStop m = ((m.map (·.stop)).filter id).length := by
    intro m; simp [countStop, List.filter_map, Function.comp_def]
  rw [e, e, h]

/-- stop flags of the surface list -/
def stops (P : Presc ℝ) : List Bool := P.surfs.map (·.stop)

theorem stops_setRadius (P : Presc ℝ) (v : ℝ) (k : Nat) : stops (setRadius P v k) = stops P := by
  simp only [stops, setRadius]; apply map_modifyAt; intro x; cases x.gk <;> rfl
theorem stops_setConic (P : Presc ℝ) (v : ℝ) (k : Nat) : stops (setConic P v k) = stops P := by
  simp only [stops, setConic]; apply map_modifyAt; intro x; rfl
theorem stops_setThickness (P : Presc ℝ) (v : ℝ) (k : Nat) : stops (setThickness P v k) = stops P := by
  simp only [stops, setThickness, assignZ]
  apply List.ext_getElem?; intro i
  simp only [List.getElem?_map, List.getElem?_mapIdx]
  cases P.surfs[i]? <;> rfl
theorem stops_setIndex (P : Presc ℝ) (v : ℝ) (k : Nat) : stops (setIndex P v k) = stops P := by
  simp only [stops, setIndex]
  have h1 := map_modifyAt (modifyAt P.surfs k fun s => { s with mPost := P.mats.length }) (k+1)
    (fun s => { s with mPre := P.mats.length }) (fun x : SRec ℝ => x.stop) (fun _ => rfl)
  have h2 := map_modifyAt P.surfs k (fun s => { s with mPost := P.mats.length })
    (fun x : SRec ℝ => x.stop) (fun _ => rfl)
  exact h1.trans h2
theorem stops_setCoeff (P : Presc ℝ) (v : ℝ) (k i : Nat) : stops (setCoeff P v k i) = stops P := by
  simp only [stops, setCoeff]; apply map_modifyAt; intro x; rfl
theorem stops_applyPickup (P : Presc ℝ) (p : Pickup ℝ) : stops (applyPickup P p) = stops P := by
  unfold applyPickup
  cases p.attr
  · exact stops_setRadius _ _ _
  · exact stops_setConic _ _ _
  · exact stops_setThickness _ _ _
theorem stops_applySolve (P : Presc ℝ) (s : Solve ℝ) : stops (applySolve P s) = stops P := by
  simp only [stops, applySolve]
  apply List.ext_getElem?; intro i
  simp only [List.getElem?_map, List.getElem?_mapIdx]
  cases P.surfs[i]? with
  | none => rfl
  | some x => simp only [Option.map_some]; split_ifs <;> rfl
theorem foldl_stops {β : Type} (f : Presc ℝ → β → Presc ℝ) (hf : ∀ P x, stops (f P x) = stops P) :
    ∀ (l : List β) (P : Presc ℝ), stops (l.foldl f P) = stops P
  | [], _ => rfl
  | x :: l, P => by rw [List.foldl_cons, foldl_stops f hf l, hf]
theorem stops_update (P : Presc ℝ) : stops (update P) = stops P := by
  unfold update
  rw [foldl_stops applySolve stops_applySolve, foldl_stops applyPickup stops_applyPickup]
theorem stops_imageSolve (P : Presc ℝ) : stops (imageSolve P) = stops P := by
  simp only [stops, imageSolve]; apply map_modifyAt; intro x; rfl
theorem stops_scaleSystem (P : Presc ℝ) (s : ℝ) (a b : List Bool) : stops (scaleSystem P s a b) = stops P := by
  unfold scaleSystem
  simp only
  have h : ∀ (l : List Nat) (Q : Presc ℝ) (n : Nat) (radii thick : List ℝ),
      stops (l.foldl (fun P k =>
        let P := if a.getD k false then P else setRadius P (radii.getD k 0 * s) k
        if k ≠ n - 1 ∧ !(b.getD k false) then setThickness P (thick.getD k 0 * s) k else P) Q) = stops Q := by
    intro l Q n radii thick
    apply foldl_stops
    intro P k
    split_ifs
    · rw [stops_setThickness]
    · rfl
    · rw [stops_setThickness, stops_setRadius]
    · rw [stops_setRadius]
  split <;> exact h _ _ _ _ _

/-- one public call keeps "at most one stop" -/
theorem step_stop (P P' : Presc ℝ) (op : Op ℝ) (h : step P op = .ok P') (h1 : countStop P.surfs ≤ 1) :
    countStop P'.surfs ≤ 1 := by
  have keep : stops P' = stops P → countStop P'.surfs ≤ 1 := fun e => by
    rw [countStop_of_map_eq P.surfs P'.surfs e]; exact h1
  cases op with
  | add a => exact addSurface_stop P P' a (by simpa [step] using h) h1
  | remove i =>
    simp only [step, removeSurface] at h
    split_ifs at h
    injection h with h; rw [← h]
    exact le_trans (countStop_eraseIdx _ _) h1
  | addWave v p => simp only [step] at h; injection h with h; rw [← h]; exact h1
  | setCoeff v k i =>
    simp only [step] at h
    split at h
    · exact absurd h (by simp)
    · split_ifs at h
      injection h with h; exact keep (by rw [← h]; exact stops_setCoeff _ _ _ _)
  | pickupAdd p =>
    simp only [step] at h; injection h with h
    exact keep (by rw [← h]; exact stops_applyPickup P p)
  | solveAdd s =>
    simp only [step] at h; injection h with h
    exact keep (by rw [← h]; exact stops_applySolve P s)
  | update => simp only [step] at h; injection h with h; exact keep (by rw [← h]; exact stops_update P)
  | imageSolve => simp only [step] at h; injection h with h; exact keep (by rw [← h]; exact stops_imageSolve P)
  | scale s a b =>
    simp only [step] at h; injection h with h; exact keep (by rw [← h]; exact stops_scaleSystem P s a b)
  | setRadius v k =>
    simp only [step, guardIdx] at h; split_ifs at h; injection h with h
    exact keep (by rw [← h]; exact stops_setRadius _ _ _)
  | setConic v k =>
    simp only [step, guardIdx] at h; split_ifs at h; injection h with h
    exact keep (by rw [← h]; exact stops_setConic _ _ _)
  | setThickness v k =>
    simp only [step, guardIdx] at h; split_ifs at h; injection h with h
    exact keep (by rw [← h]; exact stops_setThickness _ _ _)
  | setIndex v k =>
    simp only [step, guardIdx] at h; split_ifs at h; injection h with h
    exact keep (by rw [← h]; exact stops_setIndex _ _ _)
  | setTiltX v k | setTiltY v k | setDecX v k | setDecY v k =>
    simp only [step, guardIdx] at h; split_ifs at h; injection h with h
    exact keep (by rw [← h]; simp only [stops]; apply map_modifyAt; intro x; rfl)

/-- **stop_at_most_one**: after any history of public calls (additions anywhere, removals, edits,
pickups, solves, scaling) at most one surface is the aperture stop -/
theorem stop_at_most_one (ops : List (Op ℝ)) (P : Presc ℝ) (h : countStop P.surfs ≤ 1) :
    countStop (runOps P ops).surfs ≤ 1 := by
  induction ops generalizing P with
  | nil => exact h
  | cons op ops ih =>
    simp only [runOps, List.foldl_cons]
    cases hs : step P op with
    | error e => exact ih P h
    | ok P' => exact ih P' (step_stop P P' op hs h)

/-! ### read-back and frame conditions of the setters -/

/-- `SurfaceGroup.radii[k]`, `conic[k]` … as partial reads -/
def radiusAt (P : Presc ℝ) (k : Nat) : Option ℝ := P.surfs[k]?.map (·.radius)
def conicAt (P : Presc ℝ) (k : Nat) : Option ℝ := P.surfs[k]?.map (·.conic)

/-- **set_radius**: reads back, changes no other radius, no vertex, no medium, no stop flag -/
theorem setRadius_readback_frame (P : Presc ℝ) (v : ℝ) (k : Nat) (hk : k < P.surfs.length) :
    radiusAt (setRadius P v k) k = some v ∧
    (∀ j, j ≠ k → radiusAt (setRadius P v k) j = radiusAt P j) ∧
    positions (setRadius P v k) = positions P ∧
    (setRadius P v k).surfs.map (·.mPre) = P.surfs.map (·.mPre) ∧
    (setRadius P v k).surfs.map (·.mPost) = P.surfs.map (·.mPost) ∧
    (setRadius P v k).surfs.map (·.stop) = P.surfs.map (·.stop) ∧
    (setRadius P v k).mats = P.mats := by
  refine ⟨?_, ?_, ?_, ?_, ?_, ?_, rfl⟩
  · simp only [radiusAt, setRadius, modifyAt_getElem?, if_true]
    rw [List.getElem?_eq_getElem hk]
    simp only [Option.map_some]
    cases (P.surfs[k]).gk <;> rfl
  · intro j hj
    simp only [radiusAt, setRadius, modifyAt_getElem?, hj, if_false]
  all_goals
    simp only [positions, setRadius]
    apply map_modifyAt
    intro x; cases x.gk <;> rfl

/-- **set_conic**: reads back and changes nothing else -/
theorem setConic_readback_frame (P : Presc ℝ) (v : ℝ) (k : Nat) (hk : k < P.surfs.length) :
    conicAt (setConic P v k) k = some v ∧
    (∀ j, j ≠ k → conicAt (setConic P v k) j = conicAt P j) ∧
    positions (setConic P v k) = positions P ∧
    (setConic P v k).surfs.map (·.radius) = P.surfs.map (·.radius) ∧
    (setConic P v k).surfs.map (·.mPost) = P.surfs.map (·.mPost) := by
  refine ⟨?_, ?_, ?_, ?_, ?_⟩
  · simp only [conicAt, setConic, modifyAt_getElem?, if_true]
    rw [List.getElem?_eq_getElem hk]; rfl
  · intro j hj
    simp only [conicAt, setConic, modifyAt_getElem?, hj, if_false]
  all_goals
    simp only [positions, setConic]
    apply map_modifyAt
    intro x; rfl

/-! ### set_thickness on the vector of vertex positions -/

def thick (pos : List ℝ) (j : Nat) : ℝ := pos.getD (j+1) 0 - pos.getD j 0

theorem getD_setThicknessPos (pos : List ℝ) (v : ℝ) (k i : Nat) (hi : i < pos.length) (h1 : 1 < pos.length) :
    (setThicknessPos pos v k).getD i 0 =
      (if k + 1 ≤ i then pos.getD i 0 + (v - pos.getD (k+1) 0 + pos.getD k 0) else pos.getD i 0)
      - (if k + 1 ≤ 1 then pos.getD 1 0 + (v - pos.getD (k+1) 0 + pos.getD k 0) else pos.getD 1 0) := by
  unfold setThicknessPos
  num_real
  simp only [List.getD_eq_getElem?_getD, List.getElem?_map, List.getElem?_mapIdx]
  rw [List.getElem?_eq_getElem hi]
  simp only [Option.map_some, Option.getD_some]
  rw [List.getElem?_eq_getElem h1]
  simp only [Option.map_some, Option.getD_some]

/-- **setThickness_frame**: thickness `k` reads back `v`; every other thickness is unchanged, i.e.
all later vertices move rigidly -/
theorem setThickness_thick (pos : List ℝ) (v : ℝ) (k j : Nat) (hk : k + 1 < pos.length)
    (hj : j + 1 < pos.length) :
    thick (setThicknessPos pos v k) j = if j = k then v else thick pos j := by
  unfold thick
  rw [getD_setThicknessPos pos v k (j+1) hj (by omega), getD_setThicknessPos pos v k j (by omega) (by omega)]
  by_cases h : j = k
  · subst h
    have h1 : ¬ (j + 1 ≤ j) := by omega
    simp only [le_refl, if_true, h1, if_false]; ring
  · by_cases h1 : k + 1 ≤ j
    · have h2 : k + 1 ≤ j + 1 := by omega
      simp only [h, h1, h2, if_true, if_false]; ring
    · have h2 : ¬ (k + 1 ≤ j + 1) := by omega
      simp only [h, h1, h2, if_false]; ring

/-- the first surface is re-zeroed -/
theorem setThickness_first (pos : List ℝ) (v : ℝ) (k : Nat) (h1 : 1 < pos.length) :
    (setThicknessPos pos v k).getD 1 0 = 0 := by
  rw [getD_setThicknessPos _ _ _ _ h1 h1]; ring

/-- `set_thickness` touches nothing but the vertex positions -/
theorem setThickness_frame (P : Presc ℝ) (v : ℝ) (k : Nat) :
    (setThickness P v k).surfs.map (·.radius) = P.surfs.map (·.radius) ∧
    (setThickness P v k).surfs.map (·.conic) = P.surfs.map (·.conic) ∧
    (setThickness P v k).surfs.map (·.mPre) = P.surfs.map (·.mPre) ∧
    (setThickness P v k).surfs.map (·.mPost) = P.surfs.map (·.mPost) ∧
    (setThickness P v k).surfs.map (·.stop) = P.surfs.map (·.stop) ∧
    (setThickness P v k).mats = P.mats := by
  refine ⟨?_, ?_, ?_, ?_, ?_, rfl⟩ <;>
  · simp only [setThickness, assignZ]
    apply List.ext_getElem?
    intro i
    simp only [List.getElem?_map, List.getElem?_mapIdx]
    cases P.surfs[i]? <;> rfl

/-! ### media chain -/

/-- the medium in front of each surface is (the same object as) the medium behind its predecessor -/
def Chain (l : List (SRec ℝ)) : Prop :=
  ∀ j a b, l[j]? = some a → l[j+1]? = some b → b.mPre = a.mPost

/-- every operation that leaves the lists of front and back media untouched keeps the chain -/
theorem chain_of_maps (l l' : List (SRec ℝ)) (h1 : l'.map (·.mPre) = l.map (·.mPre))
    (h2 : l'.map (·.mPost) = l.map (·.mPost)) (hc : Chain l) : Chain l' := by
  intro j a' b' ha hb
  have e1 := congrArg (fun m => m[j+1]?) h1
  have e2 := congrArg (fun m => m[j]?) h2
  simp only [List.getElem?_map, ha, hb, Option.map_some] at e1 e2
  cases hb0 : l[j+1]? with
  | none => simp [hb0] at e1
  | some b =>
    cases ha0 : l[j]? with
    | none => simp [ha0] at e2
    | some a =>
      simp only [hb0, ha0, Option.map_some, Option.some.injEq] at e1 e2
      rw [e1, e2]; exact hc j a b ha0 hb0

/-- list-level lemma behind `chain_addSurface_end` / `build_in_order` (which tie it to `addSurface`):
appending a surface whose front medium is the last surface's back medium keeps the chain -/
theorem chain_append (l : List (SRec ℝ)) (s : SRec ℝ) (hc : Chain l)
    (hs : ∀ a, l[l.length - 1]? = some a → l ≠ [] → s.mPre = a.mPost) : Chain (l ++ [s]) := by
  intro j a b ha hb
  by_cases hj : j + 1 < l.length
  · rw [List.getElem?_append_left (by omega)] at ha
    rw [List.getElem?_append_left hj] at hb
    exact hc j a b ha hb
  · by_cases hj2 : j + 1 = l.length
    · rw [List.getElem?_append_left (by omega)] at ha
      rw [List.getElem?_append_right (by omega)] at hb
      have : j + 1 - l.length = 0 := by omega
      simp only [this, List.getElem?_cons_zero, Option.some.injEq] at hb
      rw [← hb]
      apply hs a
      · have : l.length - 1 = j := by omega
        rw [this]; exact ha
      · intro e; simp [e] at hj2
    · have : (l ++ [s])[j+1]? = none := by
        apply List.getElem?_eq_none; simp; omega
      rw [this] at hb; exact absurd hb (by simp)

/-- **set_index keeps the chain**: the new medium is written behind surface `k` and in front of
surface `k+1` -/
theorem setIndex_getElem? (P : Presc ℝ) (v : ℝ) (k j : Nat) :
    (setIndex P v k).surfs[j]? = (P.surfs[j]?).map (fun s =>
      if j = k then { s with mPost := P.mats.length }
      else if j = k + 1 then { s with mPre := P.mats.length } else s) := by
  simp only [setIndex, modifyAt_getElem?]
  cases h : P.surfs[j]? with
  | none => by_cases h1 : j = k + 1 <;> by_cases h2 : j = k <;> simp [h1, h2]
  | some s =>
    by_cases h2 : j = k
    · have h1 : ¬ (j = k + 1) := by omega
      simp [h1, h2]
    · by_cases h1 : j = k + 1 <;> simp [h1, h2]

theorem setIndex_chain (P : Presc ℝ) (v : ℝ) (k : Nat) (hc : Chain P.surfs) : Chain (setIndex P v k).surfs := by
  intro j a b ha hb
  rw [setIndex_getElem?] at ha hb
  cases h0 : P.surfs[j]? with
  | none => simp [h0] at ha
  | some a0 =>
    cases h1 : P.surfs[j+1]? with
    | none => simp [h1] at hb
    | some b0 =>
      have hab := hc j a0 b0 h0 h1
      simp only [h0, h1, Option.map_some, Option.some.injEq] at ha hb
      rw [← ha, ← hb]
      by_cases c1 : j = k
      · have c2 : ¬ (j + 1 = k) := by omega
        have c3 : j + 1 = k + 1 := by omega
        simp [c1, c2, c3]
      · by_cases c2 : j = k + 1
        · subst c2
          have c3 : ¬ (k + 1 + 1 = k) := by omega
          have c4 : ¬ (k + 1 + 1 = k + 1) := by omega
          have c5 : ¬ (k + 1 = k) := by omega
          simp [c3, c4, c5, hab]
        · by_cases c3 : j + 1 = k
          · have c4 : ¬ (j + 1 = k + 1) := by omega
            simp [c1, c2, c3, c4, hab]
          · have c4 : ¬ (j + 1 = k + 1) := by omega
            simp [c1, c2, c3, c4, hab]

/-! ### pickups and solves: the single-step algebra -/

/-- **pickup (radius)**: immediately after a radius pickup is applied its target satisfies
`target = scale·source + offset` (source ≠ target, both in range) -/
theorem applyPickup_radius (P : Presc ℝ) (p : Pickup ℝ) (ha : p.attr = .radius) (hne : p.src ≠ p.tgt)
    (hs : p.src < P.surfs.length) (ht : p.tgt < P.surfs.length) :
    ∃ rs, radiusAt P p.src = some rs ∧ radiusAt (applyPickup P p) p.src = some rs ∧
      radiusAt (applyPickup P p) p.tgt = some (p.scale * rs + p.offset) := by
  refine ⟨(P.surfs[p.src]).radius, ?_, ?_, ?_⟩
  · simp [radiusAt, List.getElem?_eq_getElem hs]
  · simp only [applyPickup, ha]
    rw [(setRadius_readback_frame P _ p.tgt ht).2.1 p.src hne]
    simp [radiusAt, List.getElem?_eq_getElem hs]
  · simp only [applyPickup, ha]
    num_real
    rw [(setRadius_readback_frame P _ p.tgt ht).1]
    simp [List.getD_eq_getElem?_getD, List.getElem?_map, List.getElem?_eq_getElem hs]

/-- **solve (step algebra)** — one `pstepStd`, not yet the lens; the clause on the lens is
`solve_places_marginal_ray` below.  Moving a surface axially by `d` changes the paraxial height with which
a ray of slope `u` arrives by `d·u`; choosing `d = (h − y)/u` (what the solve computes from the
arriving slope) puts the ray at height `h`. -/
theorem solve_places_ray_step (r : PRay ℝ) (s : PSurf ℝ) (h : ℝ) (hdy : s.dy = 0) (hu : r.u ≠ 0) :
    let y := (pstepStd r s).y
    let d := (h - y) / r.u
    (pstepStd r { s with z := s.z + d }).y = h := by
  intro y d
  simp only [d, y, pstepStd]
  num_real
  rw [hdy]
  field_simp
  ring

/-! ### building a lens in index order (review additions) -/

/-- the surface list after `add_surface(index = N)` when the new surface carries stop flag `b` -/
def clearStops (l : List (SRec ℝ)) (b : Bool) : List (SRec ℝ) :=
  if b then l.map fun t => { t with stop := false } else l

theorem clearStops_length (l : List (SRec ℝ)) (b : Bool) : (clearStops l b).length = l.length := by
  unfold clearStops; split <;> simp

theorem clearStops_map {γ : Type} (l : List (SRec ℝ)) (b : Bool) (g : SRec ℝ → γ)
    (hg : ∀ t : SRec ℝ, g { t with stop := false } = g t) : (clearStops l b).map g = l.map g := by
  unfold clearStops; split
  · rw [List.map_map]; apply List.map_congr_left; intro t _; exact hg t
  · rfl

def newMats (P : Presc ℝ) (a : AddArgs ℝ) : List ℝ :=
  match a.material with
  | .air => P.mats ++ [1]
  | .ideal n => P.mats ++ [n]
  | .mirror => P.mats

/-- identifier of the medium in front of a surface appended at the end -/
def prevPost (P : Presc ℝ) : Nat := (P.surfs.map (·.mPost)).getD (P.surfs.length - 1) 0

def newPost (P : Presc ℝ) (a : AddArgs ℝ) : Nat :=
  match a.material with
  | .mirror => if a.index = 0 then 0 else prevPost P
  | _ => P.mats.length

def newGk (a : AddArgs ℝ) : GKind :=
  match a.gk with
  | .standard => if a.radiusInf then .plane else .standard
  | g => g

noncomputable def newSurf (P : Presc ℝ) (a : AddArgs ℝ) : SRec ℝ :=
  { kind := if a.index = 0 then .object else .standard, gk := newGk a,
    z := newZ P a.index a.thickness, dx := a.dx, dy := a.dy, rx := a.rx, ry := a.ry, radius := a.radius,
    conic := (match newGk a with | .plane => 0 | _ => a.conic), coeffs := a.coeffs,
    mPre := if a.index = 0 then newPost P a else prevPost P, mPost := newPost P a,
    stop := if a.index = 0 then false else a.stop,
    refl := match a.material with | .mirror => true | _ => false }

/-- **add_succeeds / placement / media (one call)**: `add_surface(index = number of surfaces so far)` with
*any* other arguments succeeds (neither `ValueError` nor `IndexError`); the result is the old list (stop
flags cleared when the new surface is the stop) with `newSurf` appended: vertex `newZ` (`−thickness` for the
object surface, `0` for surface 1, previous vertex + previous thickness afterwards), front medium = the very
medium object behind the previous surface (`prevPost`), back medium a fresh table entry carrying the index
given (`1` for air; a mirror re-uses the front medium); `last_thickness` := the thickness given. -/
theorem addSurface_end_eq (P : Presc ℝ) (a : AddArgs ℝ) (h : a.index = P.surfs.length) :
    addSurface P a = .ok { P with surfs := clearStops P.surfs (newSurf P a).stop ++ [newSurf P a],
                                  mats := newMats P a, lastThickness := a.thickness } := by
  have hlen : ¬ (P.surfs.length < a.index) := by omega
  by_cases h0 : a.index = 0
  · have hnil : P.surfs = [] := List.eq_nil_of_length_eq_zero (by omega)
    cases hm : a.material <;>
      simp [addSurface, hm, h0, hnil, newSurf, newMats, newPost, newGk, clearStops] <;> exact ⟨rfl, rfl⟩
  · have hp : (P.surfs.map (·.mPost))[a.index - 1]? = some (prevPost P) := by
      unfold prevPost
      rw [h, List.getD_eq_getElem?_getD]
      have : P.surfs.length - 1 < (P.surfs.map (·.mPost)).length := by simp; omega
      rw [List.getElem?_eq_getElem this]; rfl
    have htd : ∀ (l : List (SRec ℝ)) (s : SRec ℝ), l.length = P.surfs.length →
        l.take a.index ++ [s] ++ l.drop a.index = l ++ [s] := by
      intro l s hl
      rw [List.take_of_length_le (by omega), List.drop_of_length_le (by omega)]; simp
    unfold addSurface
    rw [if_neg hlen]
    simp only [h0, if_false, hp]
    cases hm : a.material <;>
    · simp only [newSurf, newMats, newPost, newGk, hm, h0, if_false]
      unfold clearStops
      rw [htd _ _ (by split <;> simp)]
      rfl

/-- the back medium of the appended surface carries the index given; older table entries are kept -/
theorem addSurface_end_index (P : Presc ℝ) (a : AddArgs ℝ) :
    (a.material = .air → (newMats P a).getD (newPost P a) 0 = 1) ∧
    (∀ n, a.material = .ideal n → (newMats P a).getD (newPost P a) 0 = n) ∧
    (∀ id, id < P.mats.length → (newMats P a).getD id 0 = P.mats.getD id 0) := by
  refine ⟨?_, ?_, ?_⟩
  · intro h; simp [newMats, newPost, h, List.getD_eq_getElem?_getD]
  · intro n h; simp [newMats, newPost, h, List.getD_eq_getElem?_getD]
  · intro id hid
    unfold newMats
    cases a.material <;> simp [List.getD_eq_getElem?_getD, List.getElem?_append_left hid]

theorem positions_addSurface_end (P : Presc ℝ) (a : AddArgs ℝ) :
    (clearStops P.surfs (newSurf P a).stop ++ [newSurf P a]).map (·.z)
      = positions P ++ [newZ P a.index a.thickness] := by
  rw [List.map_append, clearStops_map _ _ _ (fun _ => rfl)]; rfl

/-- add the surfaces one after the other through the public call; `none` as soon as one call raises -/
noncomputable def buildFrom (P : Presc ℝ) : List (AddArgs ℝ) → Option (Presc ℝ)
  | [] => some P
  | a :: as => match step P (.add a) with
    | .ok P' => buildFrom P' as
    | .error _ => none

theorem buildFrom_snoc (P : Presc ℝ) (as : List (AddArgs ℝ)) (a : AddArgs ℝ) :
    buildFrom P (as ++ [a]) = (buildFrom P as).bind fun Q => buildFrom Q [a] := by
  induction as generalizing P with
  | nil => simp [buildFrom]
  | cons b bs ih =>
    simp only [List.cons_append, buildFrom]
    cases step P (.add b) with
    | ok P' => exact ih P'
    | error e => rfl

/-- the specification of the vertex positions: `z₀ = −t₀` (object surface), `z₁ = 0`,
`z_{k+2} = z_{k+1} + t_{k+1}` — the running sum of the thicknesses given for the surfaces before -/
noncomputable def vertexSpec (ts : List ℝ) : Nat → ℝ
  | 0 => -(ts.getD 0 0)
  | 1 => 0
  | k + 2 => vertexSpec ts (k + 1) + ts.getD (k + 1) 0

theorem vertexSpec_sum (ts : List ℝ) (k : Nat) :
    vertexSpec ts (k + 1) = ((List.range k).map fun j => ts.getD (j + 1) 0).sum := by
  induction k with
  | zero => simp [vertexSpec]
  | succ k ih => rw [vertexSpec, ih, List.range_succ]; simp

theorem getD_append_lt (ts : List ℝ) (t : ℝ) (k : Nat) (hk : k < ts.length) :
    (ts ++ [t]).getD k 0 = ts.getD k 0 := by
  simp [List.getD_eq_getElem?_getD, List.getElem?_append_left hk]

theorem vertexSpec_snoc (ts : List ℝ) (t : ℝ) (k : Nat) (hk : k < ts.length) :
    vertexSpec (ts ++ [t]) k = vertexSpec ts k := by
  induction k with
  | zero => simp only [vertexSpec]; rw [getD_append_lt ts t 0 hk]
  | succ k ih =>
    cases k with
    | zero => rfl
    | succ j =>
      simp only [vertexSpec]
      rw [ih (by omega), getD_append_lt ts t (j + 1) (by omega)]

theorem posAt_eq (P : Presc ℝ) (k : Nat) : posAt P k = (positions P).getD k 0 := rfl

theorem getD_snoc_len (l : List ℝ) (x : ℝ) : (l ++ [x]).getD l.length 0 = x := by
  simp [List.getD_eq_getElem?_getD]

/-- the media chain survives an addition at the end -/
theorem chain_addSurface_end (P : Presc ℝ) (a : AddArgs ℝ) (h : a.index = P.surfs.length) (hc : Chain P.surfs) :
    Chain (clearStops P.surfs (newSurf P a).stop ++ [newSurf P a]) := by
  have hc' : Chain (clearStops P.surfs (newSurf P a).stop) :=
    chain_of_maps _ _ (clearStops_map _ _ _ fun _ => rfl) (clearStops_map _ _ _ fun _ => rfl) hc
  apply chain_append _ _ hc'
  intro p hp hne
  have hne' : P.surfs ≠ [] := by
    intro e; apply hne; simp [clearStops, e]
  have h0 : a.index ≠ 0 := by
    rw [h]; intro e; exact hne' (List.eq_nil_of_length_eq_zero e)
  have e1 := congrArg (fun m => m[P.surfs.length - 1]?)
    (clearStops_map P.surfs (newSurf P a).stop (·.mPost) fun _ => rfl)
  simp only [List.getElem?_map] at e1
  rw [clearStops_length] at hp
  rw [hp] at e1
  simp only [newSurf, h0, if_false, prevPost, List.getD_eq_getElem?_getD, List.getElem?_map]
  rw [← e1]; rfl

/-- **build_in_order** (the first sentence of C01): a lens built from the empty state by calling
`add_surface` with indices `0, 1, 2, …` and *any* other arguments: every call succeeds; surface `k` has its
vertex at `vertexSpec` (object at `−t₀`, surface 1 at `0`, afterwards the running sum of the thicknesses
given for the surfaces before it); the medium in front of every surface is the medium object behind its
predecessor; at most one surface is the stop. -/
theorem build_in_order (as : List (AddArgs ℝ)) (P0 : Presc ℝ) (h0 : P0.surfs = [])
    (hidx : ∀ i (h : i < as.length), as[i].index = i) :
    ∃ P, buildFrom P0 as = some P ∧ P.surfs.length = as.length ∧
      (∀ k, k < as.length → posAt P k = vertexSpec (as.map (·.thickness)) k) ∧
      (∀ h : as ≠ [], P.lastThickness = (as.getLast h).thickness) ∧
      Chain P.surfs ∧ countStop P.surfs ≤ 1 := by
  induction as using List.reverseRecOn with
  | nil =>
    refine ⟨P0, rfl, by simp [h0], by intro k hk; simp at hk, by intro h; exact absurd rfl h, ?_, by simp [h0, countStop]⟩
    rw [h0]; intro j a b ha; simp at ha
  | append_singleton as a ih =>
    have hidx' : ∀ i (h : i < as.length), as[i].index = i := by
      intro i hi
      have := hidx i (by simp; omega)
      rwa [List.getElem_append_left hi] at this
    obtain ⟨P, hb, hlen, hpos, hlast, hch, hst⟩ := ih hidx'
    have ha : a.index = P.surfs.length := by
      have := hidx as.length (by simp)
      rw [hlen]; simpa using this
    have hadd := addSurface_end_eq P a ha
    refine ⟨{ P with surfs := clearStops P.surfs (newSurf P a).stop ++ [newSurf P a],
                     mats := newMats P a, lastThickness := a.thickness }, ?_, ?_, ?_, ?_, ?_, ?_⟩
    · rw [buildFrom_snoc, hb]
      simp only [Option.bind_some, buildFrom, step, hadd]
    · simp [clearStops_length, hlen]
    · intro k hk
      simp only [posAt_eq, positions]
      rw [positions_addSurface_end, List.map_append, List.map_cons, List.map_nil]
      by_cases hk' : k < as.length
      · have hkp : k < (positions P).length := by simp [positions, hlen, hk']
        rw [getD_append_lt _ _ _ hkp, vertexSpec_snoc _ _ _ (by simpa using hk'), ← hpos k hk']; rfl
      · have hk2 : k = as.length := by simp at hk; omega
        subst hk2
        have hpl : (positions P).length = as.length := by simp [positions, hlen]
        have e : (positions P ++ [newZ P a.index a.thickness]).getD as.length 0 = newZ P a.index a.thickness := by
          rw [← hpl]; exact getD_snoc_len _ _
        rw [e, ha, hlen]
        rcases hn : as.length with _ | _ | i
        · have : as = [] := List.eq_nil_of_length_eq_zero hn
          subst this
          simp [newZ, vertexSpec, NumReal.fneg_eq]
        · rfl
        · have hne : as ≠ [] := by intro e; simp [e] at hn
          have hl := hlast hne
          have hp := hpos (i + 1) (by omega)
          simp only [newZ, vertexSpec]
          num_real
          rw [hp, hl, vertexSpec_snoc _ _ _ (by simp; omega), getD_append_lt _ _ _ (by simp; omega)]
          congr 1
          rw [List.getLast_eq_getElem]
          simp [List.getD_eq_getElem?_getD, hn]
    · intro _; simp
    · exact chain_addSurface_end P a ha hch
    · have := addSurface_stop P _ a hadd hst; exact this
/-- non-vacuity of `build_in_order`: finite object at 100, a 5 mm lens (stop on its front surface), image
100 behind it, built in index order: every call succeeds and the vertices are `−100, 0, 5, 105`. -/
example : ∃ P : Presc ℝ,
    buildFrom { lastThickness := 0, apValue := 10, maxYField := 1 }
      [⟨0, .standard, true, 0, 0, 100, .air, false, 0, 0, 0, 0, []⟩,
       ⟨1, .standard, false, 50, 0, 5, .ideal (3/2), true, 0, 0, 0, 0, []⟩,
       ⟨2, .standard, false, -50, 0, 100, .air, false, 0, 0, 0, 0, []⟩,
       ⟨3, .standard, true, 0, 0, 0, .air, false, 0, 0, 0, 0, []⟩] = some P ∧
    posAt P 0 = -100 ∧ posAt P 1 = 0 ∧ posAt P 2 = 5 ∧ posAt P 3 = 105 ∧ Chain P.surfs := by
  obtain ⟨P, hb, -, hpos, -, hc, -⟩ := build_in_order
      [⟨0, .standard, true, 0, 0, 100, .air, false, 0, 0, 0, 0, []⟩,
       ⟨1, .standard, false, 50, 0, 5, .ideal (3/2), true, 0, 0, 0, 0, []⟩,
       ⟨2, .standard, false, -50, 0, 100, .air, false, 0, 0, 0, 0, []⟩,
       ⟨3, .standard, true, 0, 0, 0, .air, false, 0, 0, 0, 0, []⟩]
      { lastThickness := 0, apValue := 10, maxYField := 1 } rfl
      (by intro i hi
          simp only [List.length_cons, List.length_nil] at hi
          rcases i with _ | _ | _ | _ | i
          · rfl
          · rfl
          · rfl
          · rfl
          · omega)
  refine ⟨P, hb, ?_, ?_, ?_, ?_, hc⟩
  · rw [hpos 0 (by simp)]; simp [vertexSpec]
  · rw [hpos 1 (by simp)]; simp [vertexSpec]
  · rw [hpos 2 (by simp)]; simp [vertexSpec]
  · rw [hpos 3 (by simp)]; simp [vertexSpec]; norm_num

/-! ### `set_thickness`, `set_index` on the prescription itself -/

theorem setThicknessPos_length (pos : List ℝ) (v : ℝ) (k : Nat) : (setThicknessPos pos v k).length = pos.length := by
  simp [setThicknessPos]

/-- the vertex list after `set_thickness` is `setThicknessPos` of the vertex list before -/
theorem positions_setThickness (P : Presc ℝ) (v : ℝ) (k : Nat) :
    positions (setThickness P v k) = setThicknessPos (positions P) v k := by
  apply List.ext_getElem?
  intro i
  simp only [positions, setThickness, assignZ, List.getElem?_map, List.getElem?_mapIdx]
  cases h : P.surfs[i]? with
  | none =>
    have hi : P.surfs.length ≤ i := List.getElem?_eq_none_iff.mp h
    simp only [Option.map_none]
    symm; apply List.getElem?_eq_none
    rw [setThicknessPos_length]; simpa using hi
  | some s =>
    have hi : i < P.surfs.length := by
      by_contra hc; rw [List.getElem?_eq_none (by omega)] at h; cases h
    have hi' : i < (setThicknessPos (List.map (fun x => x.z) P.surfs) v k).length := by
      rw [setThicknessPos_length]; simpa using hi
    simp only [Option.map_some, List.getD_eq_getElem?_getD]
    rw [List.getElem?_eq_getElem hi']; rfl

/-- **set_thickness (read-back and frame, on the lens)**: afterwards thickness `k` is `v`, every other
thickness is what it was (all later vertices moved rigidly) and the first surface is at `z = 0` -/
theorem setThickness_readback_frame (P : Presc ℝ) (v : ℝ) (k : Nat) (hk : k + 1 < P.surfs.length) :
    thickness (setThickness P v k) k = v ∧
    (∀ j, j ≠ k → j + 1 < P.surfs.length → thickness (setThickness P v k) j = thickness P j) ∧
    posAt (setThickness P v k) 1 = 0 := by
  have hl : (positions P).length = P.surfs.length := by simp [positions]
  have e : ∀ j, thickness (setThickness P v k) j = thick (setThicknessPos (positions P) v k) j := by
    intro j; unfold thickness thick posAt; rw [positions_setThickness]
  refine ⟨?_, ?_, ?_⟩
  · rw [e, setThickness_thick _ _ _ _ (by omega) (by omega), if_pos rfl]
  · intro j hj hj2
    rw [e, setThickness_thick _ _ _ _ (by omega) (by omega), if_neg hj]; rfl
  · unfold posAt; rw [positions_setThickness]
    exact setThickness_first _ _ _ (by omega)

/-- **set_index (read-back and frame)**: the index behind surface `k` reads back `v`; no entry of the medium
table is overwritten (so every other medium keeps its index); only `material_post` of surface `k` and
`material_pre` of surface `k+1` are re-pointed; vertices, radii, conics, stop flags untouched. -/
theorem setIndex_readback_frame (P : Presc ℝ) (v : ℝ) (k : Nat) (hk : k < P.surfs.length) :
    (∃ s, (setIndex P v k).surfs[k]? = some s ∧ matN (setIndex P v k) s.mPost = v) ∧
    (∀ id, id < P.mats.length → matN (setIndex P v k) id = matN P id) ∧
    (∀ j, j ≠ k → (setIndex P v k).surfs[j]?.map (·.mPost) = P.surfs[j]?.map (·.mPost)) ∧
    (∀ j, j ≠ k + 1 → (setIndex P v k).surfs[j]?.map (·.mPre) = P.surfs[j]?.map (·.mPre)) ∧
    positions (setIndex P v k) = positions P ∧
    (setIndex P v k).surfs.map (·.radius) = P.surfs.map (·.radius) ∧
    (setIndex P v k).surfs.map (·.conic) = P.surfs.map (·.conic) ∧
    stops (setIndex P v k) = stops P := by
  have hm : ∀ {γ : Type} (g : SRec ℝ → γ), (∀ (x : SRec ℝ) (a : Nat), g { x with mPost := a } = g x) →
      (∀ (x : SRec ℝ) (a : Nat), g { x with mPre := a } = g x) →
      (setIndex P v k).surfs.map g = P.surfs.map g := by
    intro γ g h1 h2
    simp only [setIndex]
    rw [map_modifyAt _ _ _ g (fun x => h2 x _), map_modifyAt _ _ _ g (fun x => h1 x _)]
  refine ⟨?_, ?_, ?_, ?_, hm _ (fun _ _ => rfl) (fun _ _ => rfl), hm _ (fun _ _ => rfl) (fun _ _ => rfl),
    hm _ (fun _ _ => rfl) (fun _ _ => rfl), stops_setIndex P v k⟩
  · rw [setIndex_getElem?, List.getElem?_eq_getElem hk]
    refine ⟨_, rfl, ?_⟩
    simp [matN, setIndex, List.getD_eq_getElem?_getD]
  · intro id hid
    simp [matN, setIndex, List.getD_eq_getElem?_getD, List.getElem?_append_left hid]
  · intro j hj
    rw [setIndex_getElem?]
    cases P.surfs[j]? with
    | none => rfl
    | some s => simp only [Option.map_some, hj, if_false]; split <;> rfl
  · intro j hj
    rw [setIndex_getElem?]
    cases P.surfs[j]? with
    | none => rfl
    | some s => simp only [Option.map_some, hj, if_false]; split <;> rfl

/-! ### the media chain after any history of edits -/

/-- front and back medium identifiers of every surface -/
def media (P : Presc ℝ) : List (Nat × Nat) := P.surfs.map fun s => (s.mPre, s.mPost)

theorem chain_of_media (P P' : Presc ℝ) (h : media P' = media P) (hc : Chain P.surfs) : Chain P'.surfs := by
  apply chain_of_maps P.surfs P'.surfs _ _ hc
  · have := congrArg (List.map Prod.fst) h
    simpa [media, List.map_map, Function.comp_def] using this
  · have := congrArg (List.map Prod.snd) h
    simpa [media, List.map_map, Function.comp_def] using this

theorem media_setRadius (P : Presc ℝ) (v : ℝ) (k : Nat) : media (setRadius P v k) = media P := by
  simp only [media, setRadius]; apply map_modifyAt; intro x; cases x.gk <;> rfl
theorem media_setConic (P : Presc ℝ) (v : ℝ) (k : Nat) : media (setConic P v k) = media P := by
  simp only [media, setConic]; apply map_modifyAt; intro x; rfl
theorem media_setThickness (P : Presc ℝ) (v : ℝ) (k : Nat) : media (setThickness P v k) = media P := by
  simp only [media, setThickness, assignZ]
  apply List.ext_getElem?; intro i
  simp only [List.getElem?_map, List.getElem?_mapIdx]
  cases P.surfs[i]? <;> rfl
theorem media_setCoeff (P : Presc ℝ) (v : ℝ) (k i : Nat) : media (setCoeff P v k i) = media P := by
  simp only [media, setCoeff]; apply map_modifyAt; intro x; rfl
theorem media_applyPickup (P : Presc ℝ) (p : Pickup ℝ) : media (applyPickup P p) = media P := by
  unfold applyPickup
  cases p.attr
  · exact media_setRadius _ _ _
  · exact media_setConic _ _ _
  · exact media_setThickness _ _ _
theorem media_applySolve (P : Presc ℝ) (s : Solve ℝ) : media (applySolve P s) = media P := by
  simp only [media, applySolve]
  apply List.ext_getElem?; intro i
  simp only [List.getElem?_map, List.getElem?_mapIdx]
  cases P.surfs[i]? with
  | none => rfl
  | some x => simp only [Option.map_some]; split_ifs <;> rfl
theorem foldl_media {β : Type} (f : Presc ℝ → β → Presc ℝ) (hf : ∀ P x, media (f P x) = media P) :
    ∀ (l : List β) (P : Presc ℝ), media (l.foldl f P) = media P
  | [], _ => rfl
  | x :: l, P => by rw [List.foldl_cons, foldl_media f hf l, hf]
theorem media_update (P : Presc ℝ) : media (update P) = media P := by
  unfold update
  rw [foldl_media applySolve media_applySolve, foldl_media applyPickup media_applyPickup]
theorem media_imageSolve (P : Presc ℝ) : media (imageSolve P) = media P := by
  simp only [media, imageSolve]; apply map_modifyAt; intro x; rfl
theorem media_scaleSystem (P : Presc ℝ) (s : ℝ) (a b : List Bool) : media (scaleSystem P s a b) = media P := by
  unfold scaleSystem
  simp only
  have h : ∀ (l : List Nat) (Q : Presc ℝ) (n : Nat) (radii thick : List ℝ),
      media (l.foldl (fun P k =>
        let P := if a.getD k false then P else setRadius P (radii.getD k 0 * s) k
        if k ≠ n - 1 ∧ !(b.getD k false) then setThickness P (thick.getD k 0 * s) k else P) Q) = media Q := by
    intro l Q n radii thick
    apply foldl_media
    intro P k
    split_ifs
    · rw [media_setThickness]
    · rfl
    · rw [media_setThickness, media_setRadius]
    · rw [media_setRadius]
  split <;> exact h _ _ _ _ _

/-- the calls of the property's quantifier: additions at the end (index order), no removal -/
def InOrderOp (P : Presc ℝ) : Op ℝ → Prop
  | .add a => a.index = P.surfs.length
  | .remove _ => False
  | _ => True

/-- one public call keeps the media chain -/
theorem step_chain (P P' : Presc ℝ) (op : Op ℝ) (h : step P op = .ok P') (hop : InOrderOp P op)
    (hc : Chain P.surfs) : Chain P'.surfs := by
  have keep : media P' = media P → Chain P'.surfs := fun e => chain_of_media P P' e hc
  cases op with
  | add a =>
    have ha : a.index = P.surfs.length := hop
    have h' : addSurface P a = .ok P' := h
    rw [addSurface_end_eq P a ha] at h'
    injection h' with h'
    rw [← h']
    exact chain_addSurface_end P a ha hc
  | remove i => exact absurd hop (by simp [InOrderOp])
  | addWave v p => simp only [step] at h; injection h with h; rw [← h]; exact hc
  | setCoeff v k i =>
    simp only [step] at h
    split at h
    · exact absurd h (by simp)
    · split_ifs at h
      injection h with h; exact keep (by rw [← h]; exact media_setCoeff _ _ _ _)
  | pickupAdd p =>
    simp only [step] at h; injection h with h
    exact keep (by rw [← h]; exact media_applyPickup P p)
  | solveAdd s =>
    simp only [step] at h; injection h with h
    exact keep (by rw [← h]; exact media_applySolve P s)
  | update => simp only [step] at h; injection h with h; exact keep (by rw [← h]; exact media_update P)
  | imageSolve => simp only [step] at h; injection h with h; exact keep (by rw [← h]; exact media_imageSolve P)
  | scale s a b =>
    simp only [step] at h; injection h with h; exact keep (by rw [← h]; exact media_scaleSystem P s a b)
  | setRadius v k =>
    simp only [step, guardIdx] at h; split_ifs at h; injection h with h
    exact keep (by rw [← h]; exact media_setRadius _ _ _)
  | setConic v k =>
    simp only [step, guardIdx] at h; split_ifs at h; injection h with h
    exact keep (by rw [← h]; exact media_setConic _ _ _)
  | setThickness v k =>
    simp only [step, guardIdx] at h; split_ifs at h; injection h with h
    exact keep (by rw [← h]; exact media_setThickness _ _ _)
  | setIndex v k =>
    simp only [step, guardIdx] at h; split_ifs at h; injection h with h
    rw [← h]; exact setIndex_chain P v k hc
  | setTiltX v k | setTiltY v k | setDecX v k | setDecY v k =>
    simp only [step, guardIdx] at h; split_ifs at h; injection h with h
    exact keep (by rw [← h]; simp only [media]; apply map_modifyAt; intro x; rfl)

/-- every call of the history is an in-order call in the state it meets -/
def InOrderHistory : Presc ℝ → List (Op ℝ) → Prop
  | _, [] => True
  | P, op :: ops => InOrderOp P op ∧
      match step P op with
      | .ok P' => InOrderHistory P' ops
      | .error _ => InOrderHistory P ops

/-- **media_chain_after_any_history**: after any sequence of public calls in which surfaces are only
appended (index order) and never removed — additions, every setter any number of times in any order,
pickups, solves, `update`, `image_solve`, scaling, wavelengths — the medium in front of every surface is
still the very medium object behind its predecessor. -/
theorem media_chain_after_any_history (ops : List (Op ℝ)) (P : Presc ℝ) (hc : Chain P.surfs)
    (hops : InOrderHistory P ops) : Chain (runOps P ops).surfs := by
  induction ops generalizing P with
  | nil => exact hc
  | cons op ops ih =>
    simp only [runOps, List.foldl_cons]
    obtain ⟨h1, h2⟩ := hops
    cases hs : step P op with
    | error e => rw [hs] at h2; exact ih P hc h2
    | ok P' => rw [hs] at h2; exact ih P' (step_chain P P' op hs h1 hc) h2

/-! ### the remaining setters and pickups -/

/-- **tilt / decentre / aspheric coefficient (read-back and frame)**: each of these calls with a valid
index succeeds, writes exactly the addressed field of surface `k` and leaves every other surface as it
was -/
theorem step_field_setters (P : Presc ℝ) (v : ℝ) (k : Nat) (hk : k < P.surfs.length) :
    (∃ P', step P (.setTiltX v k) = .ok P' ∧ P'.surfs[k]? = P.surfs[k]?.map (fun s => { s with rx := v }) ∧
      ∀ j, j ≠ k → P'.surfs[j]? = P.surfs[j]?) ∧
    (∃ P', step P (.setTiltY v k) = .ok P' ∧ P'.surfs[k]? = P.surfs[k]?.map (fun s => { s with ry := v }) ∧
      ∀ j, j ≠ k → P'.surfs[j]? = P.surfs[j]?) ∧
    (∃ P', step P (.setDecX v k) = .ok P' ∧ P'.surfs[k]? = P.surfs[k]?.map (fun s => { s with dx := v }) ∧
      ∀ j, j ≠ k → P'.surfs[j]? = P.surfs[j]?) ∧
    (∃ P', step P (.setDecY v k) = .ok P' ∧ P'.surfs[k]? = P.surfs[k]?.map (fun s => { s with dy := v }) ∧
      ∀ j, j ≠ k → P'.surfs[j]? = P.surfs[j]?) := by
  have hin : inRange P k = true := by simp [inRange, hk]
  have hok : ∀ r : Presc ℝ, guardIdx P k r = .ok r := fun r => by simp only [guardIdx, hin, if_true]
  have hm : ∀ f : SRec ℝ → SRec ℝ, (modifyAt P.surfs k f)[k]? = P.surfs[k]?.map f ∧
      ∀ j, j ≠ k → (modifyAt P.surfs k f)[j]? = P.surfs[j]? := fun f =>
    ⟨by simp only [modifyAt_getElem?, if_true], fun j hj => by simp only [modifyAt_getElem?, hj, if_false]⟩
  exact ⟨⟨_, hok _, (hm _).1, (hm _).2⟩, ⟨_, hok _, (hm _).1, (hm _).2⟩, ⟨_, hok _, (hm _).1, (hm _).2⟩,
    ⟨_, hok _, (hm _).1, (hm _).2⟩⟩

/-- `set_asphere_coeff` on an even asphere: coefficient `i` reads back `v`, the other coefficients and all
other surfaces are untouched -/
theorem step_setCoeff (P : Presc ℝ) (v : ℝ) (k i : Nat) (s : SRec ℝ) (hs : P.surfs[k]? = some s)
    (hg : s.gk = .evenAsphere) (hi : i < s.coeffs.length) :
    ∃ P', step P (.setCoeff v k i) = .ok P' ∧
      P'.surfs[k]? = some { s with coeffs := modifyAt s.coeffs i fun _ => v } ∧
      (modifyAt s.coeffs i fun _ => v)[i]? = some v ∧
      (∀ m, m ≠ i → (modifyAt s.coeffs i fun _ => v)[m]? = s.coeffs[m]?) ∧
      ∀ j, j ≠ k → P'.surfs[j]? = P.surfs[j]? := by
  refine ⟨setCoeff P v k i, by simp [step, hs, hg, hi], ?_, ?_, ?_, ?_⟩
  · simp [setCoeff, modifyAt_getElem?, hs]
  · simp [modifyAt_getElem?, List.getElem?_eq_getElem hi]
  · intro m hm; simp [modifyAt_getElem?, hm]
  · intro j hj; simp [setCoeff, modifyAt_getElem?, hj]

/-- **pickup (conic)** -/
theorem applyPickup_conic (P : Presc ℝ) (p : Pickup ℝ) (ha : p.attr = .conic) (hne : p.src ≠ p.tgt)
    (hs : p.src < P.surfs.length) (ht : p.tgt < P.surfs.length) :
    ∃ cs, conicAt P p.src = some cs ∧ conicAt (applyPickup P p) p.src = some cs ∧
      conicAt (applyPickup P p) p.tgt = some (p.scale * cs + p.offset) := by
  refine ⟨(P.surfs[p.src]).conic, ?_, ?_, ?_⟩
  · simp [conicAt, List.getElem?_eq_getElem hs]
  · simp only [applyPickup, ha]
    rw [(setConic_readback_frame P _ p.tgt ht).2.1 p.src hne]
    simp [conicAt, List.getElem?_eq_getElem hs]
  · simp only [applyPickup, ha]
    num_real
    rw [(setConic_readback_frame P _ p.tgt ht).1]
    simp [List.getD_eq_getElem?_getD, List.getElem?_map, List.getElem?_eq_getElem hs]

/-- **pickup (thickness)**: afterwards the target thickness is `scale × source thickness + offset`, the
source thickness being unchanged by the application (source ≠ target) -/
theorem applyPickup_thickness (P : Presc ℝ) (p : Pickup ℝ) (ha : p.attr = .thickness) (hne : p.src ≠ p.tgt)
    (hs : p.src + 1 < P.surfs.length) (ht : p.tgt + 1 < P.surfs.length) :
    thickness (applyPickup P p) p.src = thickness P p.src ∧
    thickness (applyPickup P p) p.tgt = p.scale * thickness P p.src + p.offset := by
  simp only [applyPickup, ha]
  obtain ⟨h1, h2, -⟩ := setThickness_readback_frame P (p.scale * thickness P p.src + p.offset) p.tgt ht
  exact ⟨h2 p.src hne hs, h1⟩

/-! ### the marginal-ray-height solve on the lens itself -/

/-- the record on surface `k+1` is one step from the record on surface `k` -/
theorem ptrace_getElem?_succ : ∀ (ss : List (PSurf ℝ)) (r : PRay ℝ) (k : Nat),
    (ptrace r ss)[k + 1]? = (match (ptrace r ss)[k]?, ss[k + 1]? with
      | some q, some t => some (pstep q t)
      | _, _ => none)
  | [], _, _ => by simp [ptrace]
  | [s], r, k => by simp [ptrace]
  | s :: s2 :: ss, r, 0 => by simp [ptrace]
  | s :: s2 :: ss, r, k + 1 => by
    have ih := ptrace_getElem?_succ (s2 :: ss) (pstep r s) k
    simpa [ptrace] using ih

/-- the records up to surface `k` depend only on the surfaces up to `k` -/
theorem ptrace_prefix : ∀ (ss ss' : List (PSurf ℝ)) (r : PRay ℝ) (k : Nat),
    (∀ i, i ≤ k → ss[i]? = ss'[i]?) → (ptrace r ss)[k]? = (ptrace r ss')[k]?
  | [], [], _, _, _ => rfl
  | [], _ :: _, _, _, h => by have := h 0 (Nat.zero_le _); simp at this
  | _ :: _, [], _, _, h => by have := h 0 (Nat.zero_le _); simp at this
  | s :: ss, s' :: ss', r, 0, h => by
    have := h 0 (le_refl _); simp at this; subst this; simp [ptrace]
  | s :: ss, s' :: ss', r, k + 1, h => by
    have h0 := h 0 (Nat.zero_le _); simp at h0; subst h0
    have ih := ptrace_prefix ss ss' (pstep r s) k (fun i hi => by simpa using h (i + 1) (by omega))
    simpa [ptrace] using ih
theorem ptrace_length : ∀ (ss : List (PSurf ℝ)) (r : PRay ℝ), (ptrace r ss).length = ss.length
  | [], _ => rfl
  | s :: ss, r => by simp [ptrace, ptrace_length ss]

theorem nth_map_getElem? {β : Type} (l : List β) (f : β → ℝ) (k : Nat) (x : β) (h : l[k]? = some x) :
    nth (l.map f) k = f x := by
  simp [nth, List.getD_eq_getElem?_getD, h]

/-- the surfaces the paraxial tracer sees after `MarginalRayHeightSolve.apply`: surfaces `idx …` shifted -/
theorem toPSys_applySolve_getElem? (P : Presc ℝ) (s : Solve ℝ) (i : Nat) :
    (toPSys (applySolve P s)).surfs[i]? = ((toPSys P).surfs[i]?).map fun t =>
      if s.idx ≤ i then { t with z := t.z + ((s.height - nth (ys (marginalRay (toPSys P))) s.idx) /
          nth (us (marginalRay (toPSys P))) (s.idx - 1)) } else t := by
  simp only [toPSys, applySolve, List.getElem?_map, List.getElem?_mapIdx]
  cases P.surfs[i]? with
  | none => rfl
  | some x =>
    simp only [Option.map_some]
    split_ifs <;> rfl

/-- the marginal ray of an infinite-object lens whose aperture is given as entrance-pupil diameter -/
theorem marginalRay_inf_EPD (S : PSys ℝ) (hinf : S.objInf = true) (hap : S.apType = .EPD) :
    marginalRay S = ptrace ⟨S.apValue / 2, 0, posOf S.surfs 1 - 10⟩ S.surfs := by
  simp only [marginalRay, hinf, if_true, EPD, hap, traceGeneric, Bool.false_eq_true, if_false, List.drop_zero]
  num_real
  norm_num

/-- **solve_places_marginal_ray** (on the lens, not only the one-step algebra): infinite object, aperture
given as EPD, solve on an ordinary undecentred surface `idx ≥ 2` of the lens, arriving marginal slope ≠ 0.
After `MarginalRayHeightSolve.apply` the paraxial marginal ray *of the modified lens* meets surface `idx`
at exactly the requested height. -/
theorem solve_places_marginal_ray (P : Presc ℝ) (s : Solve ℝ) (hinf : P.objInf = true) (hap : P.apType = .EPD)
    (hidx : 2 ≤ s.idx) (t : SRec ℝ) (ht : P.surfs[s.idx]? = some t) (hstd : t.kind = .standard) (hdy : t.dy = 0)
    (hu : nth (us (marginalRay (toPSys P))) (s.idx - 1) ≠ 0) :
    nth (ys (marginalRay (toPSys (applySolve P s)))) s.idx = s.height := by
  obtain ⟨j, hj⟩ : ∃ j, s.idx = j + 1 := ⟨s.idx - 1, by omega⟩
  set S := toPSys P with hS
  set S' := toPSys (applySolve P s) with hS'
  set off := (s.height - nth (ys (marginalRay S)) s.idx) / nth (us (marginalRay S)) (s.idx - 1) with hoff
  have hsurf : ∀ i, S'.surfs[i]? = (S.surfs[i]?).map fun t =>
      if s.idx ≤ i then { t with z := t.z + off } else t := toPSys_applySolve_getElem? P s
  -- the surface the tracer sees at `idx`
  obtain ⟨pt, hpt, hk, hd⟩ : ∃ pt : PSurf ℝ, S.surfs[s.idx]? = some pt ∧ pt.kind = .standard ∧ pt.dy = 0 := by
    refine ⟨⟨t.kind, t.dy, t.z, t.radius, matN P t.mPre, matN P t.mPost, t.refl, t.stop⟩, ?_, hstd, hdy⟩
    simp only [hS, toPSys, List.getElem?_map, ht, Option.map_some]
  have hpos : posOf S'.surfs 1 = posOf S.surfs 1 := by
    simp only [posOf, List.getD_eq_getElem?_getD, List.getElem?_map, hsurf 1]
    cases S.surfs[1]? with
    | none => rfl
    | some x => simp only [Option.map_some]; rw [if_neg (by omega)]
  have hmS : marginalRay S = ptrace ⟨S.apValue / 2, 0, posOf S.surfs 1 - 10⟩ S.surfs :=
    marginalRay_inf_EPD S hinf hap
  have hmS' : marginalRay S' = ptrace ⟨S.apValue / 2, 0, posOf S.surfs 1 - 10⟩ S'.surfs := by
    rw [marginalRay_inf_EPD S' hinf hap, hpos]; rfl
  set r0 : PRay ℝ := ⟨S.apValue / 2, 0, posOf S.surfs 1 - 10⟩ with hr0
  -- the records before `idx` are the old ones
  have hpre : (ptrace r0 S'.surfs)[j]? = (ptrace r0 S.surfs)[j]? := by
    apply ptrace_prefix
    intro i hi
    rw [hsurf i]
    cases S.surfs[i]? with
    | none => rfl
    | some x => simp only [Option.map_some]; rw [if_neg (by omega)]
  have hjlt : j < (ptrace r0 S.surfs).length := by
    rw [ptrace_length]
    have : s.idx < S.surfs.length := by
      by_contra hc; rw [List.getElem?_eq_none (by omega)] at hpt; cases hpt
    omega
  obtain ⟨q, hq⟩ : ∃ q, (ptrace r0 S.surfs)[j]? = some q := ⟨_, List.getElem?_eq_getElem hjlt⟩
  have hold : (ptrace r0 S.surfs)[j + 1]? = some (pstepStd q pt) := by
    rw [ptrace_getElem?_succ, hq, ← hj, hpt]; simp only [pstep, hk]
  have hnew : (ptrace r0 S'.surfs)[j + 1]? = some (pstepStd q { pt with z := pt.z + off }) := by
    rw [ptrace_getElem?_succ, hpre, hq, ← hj, hsurf s.idx, hpt]
    simp only [Option.map_some, le_refl, if_true, pstep, hk]
  have hya : nth (ys (marginalRay S)) s.idx = (pstepStd q pt).y := by
    rw [hmS, hj]; exact nth_map_getElem? _ _ _ _ hold
  have hua : nth (us (marginalRay S)) (s.idx - 1) = q.u := by
    rw [hmS, hj, Nat.add_sub_cancel]; exact nth_map_getElem? _ _ _ _ hq
  rw [hmS', hj]
  unfold ys
  rw [nth_map_getElem? _ _ _ _ hnew, hoff, hya, hua]
  exact solve_places_ray_step q pt s.height hd (hua ▸ hu)

/-- a singlet in air with the image surface as surface 3 (object at infinity, EPD 10) -/
noncomputable def demoP : Presc ℝ :=
  { surfs := [⟨.object, .plane, 0, 0, 0, 0, 0, 0, 0, [], 0, 0, false, false⟩,
              ⟨.standard, .standard, 0, 0, 0, 0, 0, 50, 0, [], 0, 1, true, false⟩,
              ⟨.standard, .plane, 5, 0, 0, 0, 0, 0, 0, [], 1, 2, false, false⟩,
              ⟨.standard, .plane, 100, 0, 0, 0, 0, 0, 0, [], 2, 3, false, false⟩],
    lastThickness := 0, mats := [1, 3/2, 1, 1], apValue := 10, maxYField := 1 }

/-- non-vacuity of `solve_places_marginal_ray`: on `demoP` the marginal ray arrives at surface 3 with slope
`−1/20 ≠ 0`; every hypothesis of the theorem holds for a solve on that surface -/
example : demoP.objInf = true ∧ demoP.apType = .EPD ∧
    (∃ t, demoP.surfs[3]? = some t ∧ t.kind = .standard ∧ t.dy = 0) ∧
    nth (us (marginalRay (toPSys demoP))) (3 - 1) ≠ 0 := by
  refine ⟨rfl, rfl, ⟨_, rfl, rfl, rfl⟩, ?_⟩
  rw [marginalRay_inf_EPD _ rfl rfl]
  simp only [toPSys, demoP, matN, ptrace, pstep, pstepStd, posOf, us, nth, List.map, List.getD_cons_succ,
    List.getD_cons_zero, Bool.false_eq_true, if_false]
  num_real
  norm_num

end C01
