import OptiModel.Model.Presc
import OptiModel.Proofs.NumReal
import Mathlib.Tactic.Ring
import Mathlib.Tactic.Linarith
import Mathlib.Tactic.FieldSimp
/-!
# C01  Lens prescription stays consistent under any history of edits
Theorems over ℝ about `Model/Presc.lean` (state machine of `Optic`/`SurfaceGroup`/
`SurfaceFactory`/`WavelengthGroup`/`Pickup`/`MarginalRayHeightSolve`).
-/
namespace C01
open Model

/-! ### wavelengths: exactly one primary after any sequence of additions -/

def countPrimary (ws : List (ℝ × Bool)) : Nat := (ws.filter (·.2)).length

theorem addWave_primary (P : Presc ℝ) (v : ℝ) (p : Bool)
    (h : P.waves = [] ∨ countPrimary P.waves = 1) : countPrimary (addWave P v p).waves = 1 := by
  unfold addWave countPrimary
  rcases h with h | h
  · simp [h]
  · cases p
    · have hne : P.waves ≠ [] := by
        intro e; simp [countPrimary, e] at h
      have : P.waves.isEmpty = false := by
        cases hw : P.waves with
        | nil => exact absurd hw hne
        | cons a l => rfl
      simp only [Bool.false_eq_true, if_false, this, List.filter_append]
      simp only [countPrimary] at h
      simp [h]
    · simp only [if_true, List.filter_append, List.filter_map]
      have : (List.filter ((fun x : ℝ × Bool => x.2) ∘ fun w : ℝ × Bool => (w.1, false)) P.waves) = [] := by
        simp [Function.comp_def]
      rw [this]
      by_cases he : (List.map (fun w : ℝ × Bool => (w.1, false)) P.waves).isEmpty = true <;> simp [he]

end C01
