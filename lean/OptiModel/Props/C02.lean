import OptiModel.Model.Real
import OptiModel.Proofs.NumReal
import Mathlib.Tactic.FieldSimp
import Mathlib.Tactic.Ring
import Mathlib.Tactic.LinearCombination
import Mathlib.Tactic.Positivity
/-!
# C02  Every traced ray obeys Snell / reflection law on the prescribed surface
Theorems over ℝ about `Model/Real.lean`.
-/
namespace C02
open Model

/-- reflection keeps unit length, for any (unit) normal and whatever its orientation -/
theorem reflect_unit (r : Ray ℝ) (nx ny nz : ℝ) (hk : r.L^2 + r.M^2 + r.N^2 = 1)
    (hn : nx^2 + ny^2 + nz^2 = 1) :
    (r.reflect nx ny nz).L^2 + (r.reflect nx ny nz).M^2 + (r.reflect nx ny nz).N^2 = 1 := by
  unfold Ray.reflect alignNormal Num.sign
  num_real
  set d := r.L * nx + r.M * ny + r.N * nz with hd
  rcases lt_trichotomy 0 d with h | h | h
  · simp only [h, if_true, abs_of_pos h]
    linear_combination hk + (4*d^2) * hn
  · simp only [← h, lt_irrefl, if_false, abs_zero]
    linear_combination hk
  · have h' : ¬ (0 < d) := not_lt.mpr h.le
    simp only [h', h, if_true, if_false, abs_of_neg h]
    linear_combination hk + (4*d^2) * hn

end C02
