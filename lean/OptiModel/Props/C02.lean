import OptiModel.Model.Real
import OptiModel.Proofs.NumReal
import Mathlib.Tactic.FieldSimp
import Mathlib.Tactic.Ring
import Mathlib.Tactic.LinearCombination
import Mathlib.Tactic.Positivity
import Mathlib.Tactic.Linarith
/-!
# C02  Every traced ray obeys Snell / reflection law on the prescribed surface
Theorems over ℝ about `Model/Real.lean` (the model the correspondence run ties to
`real_rays.py`, `coordinate_system.py`, `geometries/*.py`, `standard_surface.py`).
-/
namespace C02
open Model

/-! ### frame changes: `globalize ∘ localize = id`, `localize ∘ globalize = id` -/

theorem rotateX_inv (r : Ray ℝ) (a : ℝ) : (r.rotateX (-a)).rotateX a = r := by
  obtain ⟨x, y, z, L, M, N, i, opd⟩ := r
  unfold Ray.rotateX
  num_real
  simp only [Real.cos_neg, Real.sin_neg, Ray.mk.injEq, true_and, and_true]
  have h := Real.sin_sq_add_cos_sq a
  refine ⟨?_, ?_, ?_, ?_⟩
  · linear_combination y * h
  · linear_combination z * h
  · linear_combination M * h
  · linear_combination N * h

theorem rotateX_inv' (r : Ray ℝ) (a : ℝ) : (r.rotateX a).rotateX (-a) = r := by
  have := rotateX_inv r (-a); rwa [neg_neg] at this

theorem rotateY_inv (r : Ray ℝ) (a : ℝ) : (r.rotateY (-a)).rotateY a = r := by
  obtain ⟨x, y, z, L, M, N, i, opd⟩ := r
  unfold Ray.rotateY
  num_real
  simp only [Real.cos_neg, Real.sin_neg, Ray.mk.injEq, true_and, and_true]
  have h := Real.sin_sq_add_cos_sq a
  refine ⟨?_, ?_, ?_, ?_⟩
  · linear_combination x * h
  · linear_combination z * h
  · linear_combination L * h
  · linear_combination N * h

theorem rotateY_inv' (r : Ray ℝ) (a : ℝ) : (r.rotateY a).rotateY (-a) = r := by
  have := rotateY_inv r (-a); rwa [neg_neg] at this

theorem rotateZ_inv (r : Ray ℝ) (a : ℝ) : (r.rotateZ (-a)).rotateZ a = r := by
  obtain ⟨x, y, z, L, M, N, i, opd⟩ := r
  unfold Ray.rotateZ
  num_real
  simp only [Real.cos_neg, Real.sin_neg, Ray.mk.injEq, true_and, and_true]
  have h := Real.sin_sq_add_cos_sq a
  refine ⟨?_, ?_, ?_, ?_⟩
  · linear_combination x * h
  · linear_combination y * h
  · linear_combination L * h
  · linear_combination M * h

theorem rotateZ_inv' (r : Ray ℝ) (a : ℝ) : (r.rotateZ a).rotateZ (-a) = r := by
  have := rotateZ_inv r (-a); rwa [neg_neg] at this

theorem translate_inv (r : Ray ℝ) (a b c : ℝ) : (r.translate (-a) (-b) (-c)).translate a b c = r := by
  obtain ⟨x, y, z, L, M, N, i, opd⟩ := r
  unfold Ray.translate
  num_real
  simp only [Ray.mk.injEq, and_true]
  refine ⟨by ring, by ring, by ring⟩

theorem translate_inv' (r : Ray ℝ) (a b c : ℝ) : (r.translate a b c).translate (-a) (-b) (-c) = r := by
  have := translate_inv r (-a) (-b) (-c); simpa using this

/-- the conditional rotations of `localize`/`globalize` (skipped when the angle is falsy) -/
theorem condX (c : Cs ℝ) (r : Ray ℝ) :
    (if truthy c.rx then (if truthy c.rx then r.rotateX (-c.rx) else r).rotateX c.rx
      else (if truthy c.rx then r.rotateX (-c.rx) else r)) = r := by
  by_cases h : truthy c.rx = true <;> simp [h, rotateX_inv]

/-- **localize_globalize**: `globalize (localize r) = r` for every frame — position, direction,
intensity and path all return. -/
theorem globalize_localize (c : Cs ℝ) (r : Ray ℝ) : c.globalize (c.localize r) = r := by
  unfold Cs.globalize Cs.localize
  have neg_eq : ∀ a : ℝ, @Neg.neg ℝ Num.instNeg a = -a := fun _ => rfl
  simp only [neg_eq]
  by_cases hx : truthy c.rx = true <;> by_cases hy : truthy c.ry = true <;>
    by_cases hz : truthy c.rz = true <;>
    simp [hx, hy, hz, rotateX_inv, rotateY_inv, rotateZ_inv, translate_inv]

/-- **globalize_localize**: `localize (globalize r) = r`. -/
theorem localize_globalize (c : Cs ℝ) (r : Ray ℝ) : c.localize (c.globalize r) = r := by
  unfold Cs.globalize Cs.localize
  have neg_eq : ∀ a : ℝ, @Neg.neg ℝ Num.instNeg a = -a := fun _ => rfl
  simp only [neg_eq]
  by_cases hx : truthy c.rx = true <;> by_cases hy : truthy c.ry = true <;>
    by_cases hz : truthy c.rz = true <;>
    simp [hx, hy, hz, rotateX_inv', rotateY_inv', rotateZ_inv', translate_inv']

/-- squared length of the direction and the dot product of two directions -/
def dir2 (r : Ray ℝ) : ℝ := r.L^2 + r.M^2 + r.N^2
def ddot (a b : Ray ℝ) : ℝ := a.L*b.L + a.M*b.M + a.N*b.N

theorem rotateX_ddot (a b : Ray ℝ) (t : ℝ) : ddot (a.rotateX t) (b.rotateX t) = ddot a b := by
  unfold ddot Ray.rotateX; num_real
  linear_combination (a.M*b.M + a.N*b.N) * Real.sin_sq_add_cos_sq t
theorem rotateY_ddot (a b : Ray ℝ) (t : ℝ) : ddot (a.rotateY t) (b.rotateY t) = ddot a b := by
  unfold ddot Ray.rotateY; num_real
  linear_combination (a.L*b.L + a.N*b.N) * Real.sin_sq_add_cos_sq t
theorem rotateZ_ddot (a b : Ray ℝ) (t : ℝ) : ddot (a.rotateZ t) (b.rotateZ t) = ddot a b := by
  unfold ddot Ray.rotateZ; num_real
  linear_combination (a.L*b.L + a.M*b.M) * Real.sin_sq_add_cos_sq t
theorem translate_ddot (a b : Ray ℝ) (x y z : ℝ) :
    ddot (a.translate x y z) (b.translate x y z) = ddot a b := rfl

/-- frame changes preserve dot products of directions (hence norms, angles, and the vector form of
Snell's law, which is built from dot and cross products) -/
theorem localize_ddot (c : Cs ℝ) (a b : Ray ℝ) : ddot (c.localize a) (c.localize b) = ddot a b := by
  unfold Cs.localize
  by_cases hx : truthy c.rx = true <;> by_cases hy : truthy c.ry = true <;>
    by_cases hz : truthy c.rz = true <;>
    simp [hx, hy, hz, rotateX_ddot, rotateY_ddot, rotateZ_ddot, translate_ddot]

theorem globalize_ddot (c : Cs ℝ) (a b : Ray ℝ) : ddot (c.globalize a) (c.globalize b) = ddot a b := by
  unfold Cs.globalize
  by_cases hx : truthy c.rx = true <;> by_cases hy : truthy c.ry = true <;>
    by_cases hz : truthy c.rz = true <;>
    simp [hx, hy, hz, rotateX_ddot, rotateY_ddot, rotateZ_ddot, translate_ddot]

theorem globalize_unit (c : Cs ℝ) (r : Ray ℝ) : dir2 (c.globalize r) = dir2 r := by
  have := globalize_ddot c r r
  simpa [dir2, ddot, sq] using this

/-! ### refraction and reflection -/

/-- reflection keeps unit length, for any unit normal and whatever its orientation -/
theorem reflect_unit (r : Ray ℝ) (nx ny nz : ℝ) (hk : r.L^2 + r.M^2 + r.N^2 = 1)
    (hn : nx^2 + ny^2 + nz^2 = 1) :
    (r.reflect nx ny nz).L^2 + (r.reflect nx ny nz).M^2 + (r.reflect nx ny nz).N^2 = 1 := by
  unfold Ray.reflect alignNormal Num.sign
  num_real
  set d := r.L * nx + r.M * ny + r.N * nz with hd
  rcases lt_trichotomy 0 d with h | h | h
  · simp only [h, if_true, abs_of_pos h]
    linear_combination hk + (4*d^2) * hn
  · simp only [← h, lt_irrefl, if_false, abs_zero]
    linear_combination hk
  · have h' : ¬ (0 < d) := not_lt.mpr h.le
    simp only [h', h, if_true, if_false, abs_of_neg h]
    linear_combination hk + (4*d^2) * hn

/-- **reflect_law**: the reflected direction `r'` satisfies `r' × n = k × n` (same tangential
component) and `r'·n = −k·n` (normal component reversed), for either orientation of `n`. -/
theorem reflect_law (r : Ray ℝ) (nx ny nz : ℝ) (hn : nx^2 + ny^2 + nz^2 = 1) :
    let o := r.reflect nx ny nz
    (o.M*nz - o.N*ny = r.M*nz - r.N*ny) ∧ (o.N*nx - o.L*nz = r.N*nx - r.L*nz) ∧
    (o.L*ny - o.M*nx = r.L*ny - r.M*nx) ∧ (o.L*nx + o.M*ny + o.N*nz = -(r.L*nx + r.M*ny + r.N*nz)) := by
  intro o
  simp only [o]
  unfold Ray.reflect alignNormal Num.sign
  num_real
  set d := r.L * nx + r.M * ny + r.N * nz with hd
  rcases lt_trichotomy 0 d with h | h | h
  · simp only [h, if_true, abs_of_pos h]
    refine ⟨by ring, by ring, by ring, ?_⟩
    linear_combination (-2*d) * hn + hd
  · have hd0 : r.L * nx + r.M * ny + r.N * nz = 0 := by rw [← hd]; exact h.symm
    simp only [← h, lt_irrefl, if_false, abs_zero]
    refine ⟨by ring, by ring, by ring, ?_⟩
    linear_combination hd0
  · have h' : ¬ (0 < d) := not_lt.mpr h.le
    simp only [h', h, if_true, if_false, abs_of_neg h]
    refine ⟨by ring, by ring, by ring, ?_⟩
    linear_combination (-2*d) * hn + hd

/-- the radicand of the refraction formula -/
noncomputable def radicand (r : Ray ℝ) (nx ny nz n1 n2 : ℝ) : ℝ :=
  1 - (n1/n2)*(n1/n2)*(1 - (r.L*nx + r.M*ny + r.N*nz)*(r.L*nx + r.M*ny + r.N*nz))

/-- **refract_unit**: for unit `k`, unit `n`, non-grazing incidence and non-negative radicand
(no total internal reflection) the refracted direction is a unit vector. -/
theorem refract_unit (r : Ray ℝ) (nx ny nz n1 n2 : ℝ) (hk : r.L^2 + r.M^2 + r.N^2 = 1)
    (hn : nx^2 + ny^2 + nz^2 = 1) (hd : r.L*nx + r.M*ny + r.N*nz ≠ 0)
    (hrad : 0 ≤ radicand r nx ny nz n1 n2) :
    (r.refract nx ny nz n1 n2).L^2 + (r.refract nx ny nz n1 n2).M^2 + (r.refract nx ny nz n1 n2).N^2 = 1 := by
  unfold radicand at hrad
  unfold Ray.refract alignNormal Num.sign
  num_real
  set d := r.L * nx + r.M * ny + r.N * nz with hdd
  set u := n1 / n2
  rcases lt_or_gt_of_ne hd with h | h
  · have h' : ¬ (0 < d) := not_lt.mpr h.le
    simp only [h', h, if_true, if_false, abs_of_neg h]
    have e : (1:ℝ) - u*u*(1 - -d * -d) = 1 - u*u*(1 - d*d) := by ring
    rw [e]
    have hr := Real.sq_sqrt hrad
    set root := Real.sqrt (1 - u*u*(1 - d*d))
    linear_combination u^2 * hk + (root + u*d)^2 * hn + 2*u*(root + u*d) * hdd + hr
  · simp only [h, if_true, abs_of_pos h]
    have hr := Real.sq_sqrt hrad
    set root := Real.sqrt (1 - u*u*(1 - d*d))
    linear_combination u^2 * hk + (root - u*d)^2 * hn - 2*u*(root - u*d) * hdd + hr

/-- **refract_snell**: `n₂ (t × N) = n₁ (k × N)` — the vector form of Snell's law — for any
orientation of the given normal `N`, `n₂ ≠ 0`. -/
theorem refract_snell (r : Ray ℝ) (nx ny nz n1 n2 : ℝ) (hn2 : n2 ≠ 0) :
    let o := r.refract nx ny nz n1 n2
    n2*(o.M*nz - o.N*ny) = n1*(r.M*nz - r.N*ny) ∧ n2*(o.N*nx - o.L*nz) = n1*(r.N*nx - r.L*nz) ∧
    n2*(o.L*ny - o.M*nx) = n1*(r.L*ny - r.M*nx) := by
  intro o
  simp only [o]
  unfold Ray.refract alignNormal
  num_real
  refine ⟨?_, ?_, ?_⟩ <;> field_simp <;> ring

/-- **refract_halfspace**: the refracted ray continues into the half-space the incident ray was
heading for: `sign (t·N) = sign (k·N)`, stated as `(t·N)(k·N) > 0`, whenever `0 < radicand`. -/
theorem refract_halfspace (r : Ray ℝ) (nx ny nz n1 n2 : ℝ)
    (hn : nx^2 + ny^2 + nz^2 = 1) (hd : r.L*nx + r.M*ny + r.N*nz ≠ 0)
    (hrad : 0 < radicand r nx ny nz n1 n2) :
    let o := r.refract nx ny nz n1 n2
    0 < (o.L*nx + o.M*ny + o.N*nz) * (r.L*nx + r.M*ny + r.N*nz) := by
  intro o
  simp only [o]
  unfold radicand at hrad
  unfold Ray.refract alignNormal Num.sign
  num_real
  set d := r.L * nx + r.M * ny + r.N * nz with hdd
  set u := n1 / n2
  have hroot : 0 < Real.sqrt (1 - u*u*(1 - d*d)) := Real.sqrt_pos.mpr hrad
  rcases lt_or_gt_of_ne hd with h | h
  · have h' : ¬ (0 < d) := not_lt.mpr h.le
    simp only [h', h, if_true, if_false, abs_of_neg h]
    have e : (1:ℝ) - u*u*(1 - -d * -d) = 1 - u*u*(1 - d*d) := by ring
    rw [e]
    set root := Real.sqrt (1 - u*u*(1 - d*d))
    have key : (u * r.L + nx * -1 * root - u * (nx * -1) * -d) * nx +
        (u * r.M + ny * -1 * root - u * (ny * -1) * -d) * ny +
        (u * r.N + nz * -1 * root - u * (nz * -1) * -d) * nz = -root := by
      linear_combination (-root - u*d) * hn + u * hdd
    rw [key]
    nlinarith
  · simp only [h, if_true, abs_of_pos h]
    set root := Real.sqrt (1 - u*u*(1 - d*d))
    have key : (u * r.L + nx * 1 * root - u * (nx * 1) * d) * nx +
        (u * r.M + ny * 1 * root - u * (ny * 1) * d) * ny +
        (u * r.N + nz * 1 * root - u * (nz * 1) * d) * nz = root := by
      linear_combination (root - u*d) * hn + u * hdd
    rw [key]
    positivity

/-! ### intersection with the prescribed shape -/

/-- the conic quadric `x² + y² + (1+k) z² − 2 R z` -/
def Q (R k x y z : ℝ) : ℝ := x^2 + y^2 + (1 + k)*z^2 - 2*R*z

theorem conicABC_eq (R k : ℝ) (r : Ray ℝ) : conicABC R k r =
    (k*(r.N*r.N) + r.L*r.L + r.M*r.M + r.N*r.N,
     2*k*r.N*r.z + 2*r.L*r.x + 2*r.M*r.y - 2*r.N*R + 2*r.N*r.z,
     k*(r.z*r.z) - 2*R*r.z + r.x*r.x + r.y*r.y + r.z*r.z) := by
  unfold conicABC
  num_real

/-- both roots of the quadratic solved by `StandardGeometry.distance` put the ray point on the
quadric -/
theorem conic_root (R k : ℝ) (r : Ray ℝ) (sgn : ℝ) (hs : sgn = 1 ∨ sgn = -1) :
    let a := (conicABC R k r).1
    let b := (conicABC R k r).2.1
    let c := (conicABC R k r).2.2
    let d := b*b - 4*a*c
    0 ≤ d → a ≠ 0 →
    let t := (-b + sgn * Real.sqrt d) / (2*a)
    Q R k (r.x + t*r.L) (r.y + t*r.M) (r.z + t*r.N) = 0 := by
  intro a b c d hd ha t
  have habc : a = k*(r.N*r.N) + r.L*r.L + r.M*r.M + r.N*r.N ∧
      b = 2*k*r.N*r.z + 2*r.L*r.x + 2*r.M*r.y - 2*r.N*R + 2*r.N*r.z ∧
      c = k*(r.z*r.z) - 2*R*r.z + r.x*r.x + r.y*r.y + r.z*r.z := by
    simp [a, b, c, conicABC_eq]
  have hq : a*t^2 + b*t + c = 0 := by
    have hsq : (Real.sqrt d)^2 = d := Real.sq_sqrt hd
    have hs2 : sgn^2 = 1 := by rcases hs with h | h <;> simp [h]
    have he : (sgn*Real.sqrt d)^2 = d := by rw [mul_pow, hs2, hsq, one_mul]
    have key : a*t^2 + b*t + c = ((sgn*Real.sqrt d)^2 - d)/(4*a) := by
      simp only [t, d]; field_simp; ring
    rw [key, he, sub_self, zero_div]
  have : Q R k (r.x + t*r.L) (r.y + t*r.M) (r.z + t*r.N) = a*t^2 + b*t + c := by
    rw [habc.1, habc.2.1, habc.2.2]; unfold Q; ring
  rw [this, hq]

/-- **conic_root_on_surface**: when the discriminant is non-negative, `a ≠ 0` and both roots are
admissible (`t ≥ 0`, so no root is masked to `inf`), the distance returned by
`StandardGeometry.distance` puts the ray on the prescribed quadric. -/
theorem conic_root_on_surface (R k : ℝ) (r : Ray ℝ) :
    let a := (conicABC R k r).1
    let b := (conicABC R k r).2.1
    let c := (conicABC R k r).2.2
    let d := b*b - 4*a*c
    0 ≤ d → a ≠ 0 → 0 ≤ (-b + Real.sqrt d)/(2*a) → 0 ≤ (-b - Real.sqrt d)/(2*a) →
    let t := stdDistance R k r
    Q R k (r.x + t*r.L) (r.y + t*r.M) (r.z + t*r.N) = 0 := by
  intro a b c d hd ha h1 h2 t
  have r1 := conic_root R k r 1 (Or.inl rfl) hd ha
  have r2 := conic_root R k r (-1) (Or.inr rfl) hd ha
  simp only [one_mul] at r1
  simp only [neg_one_mul, ← sub_eq_add_neg] at r2
  have ht : t = (-b + Real.sqrt d)/(2*a) ∨ t = (-b - Real.sqrt d)/(2*a) := by
    simp only [t, stdDistance, selectRoot, maskNeg]
    num_real
    have e4 : ((4:ℕ):ℝ)/((1:ℕ):ℝ) = 4 := by norm_num
    simp only [e4]
    have h1' : ¬ ((-b + Real.sqrt d)/(2*a) < 0) := not_lt.mpr h1
    have h2' : ¬ ((-b - Real.sqrt d)/(2*a) < 0) := not_lt.mpr h2
    simp only [a, b, c, d] at ha h1' h2' ⊢
    simp only [h1', h2', if_false, ha]
    split <;> simp
  rcases ht with h | h <;> rw [h]
  · exact r1
  · exact r2

/-- in the `a = 0` branch (`t = −c/b`, e.g. a paraboloid hit by an axis-parallel ray) the point
is on the quadric as well -/
theorem conic_linear_root_on_surface (R k : ℝ) (r : Ray ℝ) :
    let a := (conicABC R k r).1
    let b := (conicABC R k r).2.1
    a = 0 → b ≠ 0 →
    let t := stdDistance R k r
    Q R k (r.x + t*r.L) (r.y + t*r.M) (r.z + t*r.N) = 0 := by
  intro a b ha hb t
  have habc : a = k*(r.N*r.N) + r.L*r.L + r.M*r.M + r.N*r.N ∧
      b = 2*k*r.N*r.z + 2*r.L*r.x + 2*r.M*r.y - 2*r.N*R + 2*r.N*r.z := by
    simp [a, b, conicABC_eq]
  have ht : t = -(conicABC R k r).2.2 / b := by
    simp only [t, stdDistance, selectRoot]
    num_real
    have : (conicABC R k r).1 = 0 := ha
    simp [this, b]
  set c := (conicABC R k r).2.2 with hc
  have hcv : c = k*(r.z*r.z) - 2*R*r.z + r.x*r.x + r.y*r.y + r.z*r.z := by
    simp only [hc, conicABC_eq]
  have : Q R k (r.x + t*r.L) (r.y + t*r.M) (r.z + t*r.N) = a*t^2 + b*t + c := by
    rw [habc.1, habc.2, hcv]; unfold Q; ring
  rw [this, ha, ht]
  field_simp
  ring

/-- **plane_distance**: an admissible distance to a plane ends on the plane -/
theorem plane_distance (r : Ray ℝ) (hN : r.N ≠ 0) (ht : 0 ≤ -r.z / r.N) :
    r.z + planeDistance r * r.N = 0 := by
  unfold planeDistance maskNeg
  num_real
  have : ¬ (-r.z / r.N < 0) := not_lt.mpr ht
  simp only [this, if_false]
  field_simp
  ring

/-- **sag_on_conic**: inside its domain the sag formula gives a point of the quadric -/
theorem sag_on_conic (R k x y : ℝ) (hR : R ≠ 0) (hdom : 0 ≤ 1 - (1 + k)*(x*x + y*y)/(R*R)) :
    Q R k x y (conicSag R k x y) = 0 := by
  unfold conicSag Q
  num_real
  set r2 := x*x + y*y with hr2
  set s := Real.sqrt (1 - (1 + k)*r2/(R*R)) with hs
  have hs0 : 0 ≤ s := Real.sqrt_nonneg _
  have hss : s^2 = 1 - (1 + k)*r2/(R*R) := Real.sq_sqrt hdom
  have h1s : (1 + s) ≠ 0 := by positivity
  have hk : (1 + k)*r2 = (1 - s^2)*(R*R) := by rw [hss]; field_simp; ring
  have : x^2 + y^2 = r2 := by rw [hr2]; ring
  rw [this]
  have e : r2 + (1 + k) * (r2 / (R * (1 + s)))^2 - 2*R*(r2 / (R * (1 + s)))
      = r2 * ((1 + k)*r2 - (1 - s^2)*(R*R)) / (R*(1+s))^2 := by
    field_simp
    ring
  rw [e, hk]; simp

/-- **normal_is_gradient** (conics): the vector returned by `StandardGeometry.surface_normal`
is a unit vector parallel to `(∂sag/∂x, ∂sag/∂y, −1)` with
`∂sag/∂x = x / (R √(1−(1+k)r²/R²))` (the closed form of the derivative of the sag). -/
theorem stdNormal_unit (R k x y : ℝ) :
    let n := stdNormal R k x y
    n.1^2 + n.2.1^2 + n.2.2^2 = 1 ∧
    n.1 * (-1) = (conicSlope R k x y).1 * n.2.2 ∧ n.2.1 * (-1) = (conicSlope R k x y).2 * n.2.2 := by
  intro n
  simp only [n, stdNormal]
  num_real
  set gx := (conicSlope R k x y).1
  set gy := (conicSlope R k x y).2
  have hpos : 0 < gx*gx + gy*gy + -1 * -1 := by nlinarith [mul_self_nonneg gx, mul_self_nonneg gy]
  set m := Real.sqrt (gx*gx + gy*gy + -1 * -1) with hm
  have hm0 : 0 < m := Real.sqrt_pos.mpr hpos
  have hmm : m^2 = gx*gx + gy*gy + -1 * -1 := Real.sq_sqrt hpos.le
  have hne : m ≠ 0 := ne_of_gt hm0
  refine ⟨?_, ?_, ?_⟩
  · field_simp; linear_combination -hmm
  · field_simp
  · field_simp

/-- the closed form used for the slope is the derivative of the sag: on the sag sheet
`R − (1+k)·sag = R √(1 − (1+k) r²/R²)`, i.e. the slope `x/denom` equals `x / (R − (1+k) z)`, which is
`−∂Q/∂x / ∂Q/∂z` (implicit differentiation of the quadric). -/
theorem conicSlope_is_implicit_gradient (R k x y : ℝ) (hR : R ≠ 0)
    (hdom : 0 < 1 - (1 + k)*(x*x + y*y)/(R*R)) :
    R - (1 + k) * conicSag R k x y = R * Real.sqrt (1 - (1 + k)*(x*x + y*y)/(R*R)) := by
  unfold conicSag
  num_real
  set r2 := x*x + y*y
  set s := Real.sqrt (1 - (1 + k)*r2/(R*R)) with hs
  have hs0 : 0 < s := Real.sqrt_pos.mpr hdom
  have hss : s^2 = 1 - (1 + k)*r2/(R*R) := Real.sq_sqrt hdom.le
  have h1s : (1 + s) ≠ 0 := by positivity
  have hk : (1 + k)*r2 = (1 - s^2)*(R*R) := by rw [hss]; field_simp; ring
  have : R - (1 + k) * (r2 / (R * (1 + s))) = (R*R*(1+s) - (1+k)*r2) / (R*(1+s)) := by
    field_simp
  rw [this, hk]
  field_simp
  ring

/-! ### optical path and unit directions along the whole trace -/

/-- every ray of every record has a unit direction -/
def AllUnit (recs : List (List (Ray ℝ))) : Prop := ∀ rs ∈ recs, ∀ r ∈ rs, dir2 r = 1

/-- the accumulated path grows by exactly `|t·n₁|` at each surface: the recorded OPD after a
surface is the incoming OPD plus index × distance travelled (propagation, clipping, refraction
and the frame changes leave it untouched). -/
theorem traceSurf_opd (s : RSurf ℝ) (w : ℝ) (r : Ray ℝ) (t : ℝ) :
    (s.cs.globalize (interact s (clip s.aperture
        { (r.propagate t s.k1 w) with opd := (r.propagate t s.k1 w).opd + Num.abs (t * s.n1) }))).opd
      = r.opd + |t * s.n1| := by
  have hg : ∀ (c : Cs ℝ) (q : Ray ℝ), (c.globalize q).opd = q.opd := by
    intro c q
    unfold Cs.globalize Ray.translate Ray.rotateX Ray.rotateY Ray.rotateZ
    split_ifs <;> rfl
  have hi : ∀ q : Ray ℝ, (interact s q).opd = q.opd := by
    intro q
    unfold interact Ray.reflect Ray.refract
    cases s.kind <;> simp only <;> (try rfl) <;>
      (cases s.coating <;> simp only <;> split_ifs <;> rfl)
  have hc : ∀ q : Ray ℝ, (clip s.aperture q).opd = q.opd := by
    intro q
    unfold clip
    cases s.aperture with
    | none => rfl
    | some p => obtain ⟨a, b⟩ := p; simp only; split_ifs <;> rfl
  rw [hg, hi, hc]
  show (r.propagate t s.k1 w).opd + Num.abs (t * s.n1) = r.opd + |t * s.n1|
  unfold Ray.propagate
  num_real

/-! ### non-vacuity -/
example : (0:ℝ) ≤ radicand ⟨0, 0, 0, 0, 0, 1, 1, 0⟩ 0 0 (-1) 1 1.5 := by
  unfold radicand; norm_num

end C02
