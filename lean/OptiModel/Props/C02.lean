import OptiModel.Model.Real
import OptiModel.Proofs.NumReal
import OptiModel.Proofs.TraceLaws
import Mathlib.Tactic.FieldSimp
import Mathlib.Tactic.Ring
import Mathlib.Tactic.LinearCombination
import Mathlib.Tactic.Positivity
import Mathlib.Tactic.Linarith
import Mathlib.Tactic.NormNum
/-!
# C02  Every traced ray obeys Snell / reflection law on the prescribed surface
Theorems over ℝ about `Model/Real.lean` (the model the correspondence run ties to
`real_rays.py`, `coordinate_system.py`, `geometries/*.py`, `standard_surface.py`).
-/
namespace C02
open Model

/-! ### frame changes: `globalize ∘ localize = id`, `localize ∘ globalize = id` -/

theorem rotateX_inv (r : Ray ℝ) (a : ℝ) : (r.rotateX (-a)).rotateX a = r := by
  obtain ⟨x, y, z, L, M, N, i, opd⟩ := r
  unfold Ray.rotateX
  num_real
  simp only [Real.cos_neg, Real.sin_neg, Ray.mk.injEq, true_and, and_true]
  have h := Real.sin_sq_add_cos_sq a
  refine ⟨?_, ?_, ?_, ?_⟩
  · linear_combination y * h
  · linear_combination z * h
  · linear_combination M * h
  · linear_combination N * h

theorem rotateX_inv' (r : Ray ℝ) (a : ℝ) : (r.rotateX a).rotateX (-a) = r := by
  have := rotateX_inv r (-a); rwa [neg_neg] at this

theorem rotateY_inv (r : Ray ℝ) (a : ℝ) : (r.rotateY (-a)).rotateY a = r := by
  obtain ⟨x, y, z, L, M, N, i, opd⟩ := r
  unfold Ray.rotateY
  num_real
  simp only [Real.cos_neg, Real.sin_neg, Ray.mk.injEq, true_and, and_true]
  have h := Real.sin_sq_add_cos_sq a
  refine ⟨?_, ?_, ?_, ?_⟩
  · linear_combination x * h
  · linear_combination z * h
  · linear_combination L * h
  · linear_combination N * h

theorem rotateY_inv' (r : Ray ℝ) (a : ℝ) : (r.rotateY a).rotateY (-a) = r := by
  have := rotateY_inv r (-a); rwa [neg_neg] at this

theorem rotateZ_inv (r : Ray ℝ) (a : ℝ) : (r.rotateZ (-a)).rotateZ a = r := by
  obtain ⟨x, y, z, L, M, N, i, opd⟩ := r
  unfold Ray.rotateZ
  num_real
  simp only [Real.cos_neg, Real.sin_neg, Ray.mk.injEq, true_and, and_true]
  have h := Real.sin_sq_add_cos_sq a
  refine ⟨?_, ?_, ?_, ?_⟩
  · linear_combination x * h
  · linear_combination y * h
  · linear_combination L * h
  · linear_combination M * h

theorem rotateZ_inv' (r : Ray ℝ) (a : ℝ) : (r.rotateZ a).rotateZ (-a) = r := by
  have := rotateZ_inv r (-a); rwa [neg_neg] at this

theorem translate_inv (r : Ray ℝ) (a b c : ℝ) : (r.translate (-a) (-b) (-c)).translate a b c = r := by
  obtain ⟨x, y, z, L, M, N, i, opd⟩ := r
  unfold Ray.translate
  num_real
  simp only [Ray.mk.injEq, and_true]
  refine ⟨by ring, by ring, by ring⟩

theorem translate_inv' (r : Ray ℝ) (a b c : ℝ) : (r.translate a b c).translate (-a) (-b) (-c) = r := by
  have := translate_inv r (-a) (-b) (-c); simpa using this

/-- the conditional rotations of `localize`/`globalize` (skipped when the angle is falsy) -/
theorem condX (c : Cs ℝ) (r : Ray ℝ) :
    (if truthy c.rx then (if truthy c.rx then r.rotateX (-c.rx) else r).rotateX c.rx
      else (if truthy c.rx then r.rotateX (-c.rx) else r)) = r := by
  by_cases h : truthy c.rx = true <;> simp [h, rotateX_inv]

/-- **localize_globalize**: `globalize (localize r) = r` for every frame — position, direction,
intensity and path all return. -/
theorem globalize_localize (c : Cs ℝ) (r : Ray ℝ) : c.globalize (c.localize r) = r := by
  unfold Cs.globalize Cs.localize
  have neg_eq : ∀ a : ℝ, @Neg.neg ℝ Num.instNeg a = -a := fun _ => rfl
  simp only [neg_eq]
  by_cases hx : truthy c.rx = true <;> by_cases hy : truthy c.ry = true <;>
    by_cases hz : truthy c.rz = true <;>
    simp [hx, hy, hz, rotateX_inv, rotateY_inv, rotateZ_inv, translate_inv]

/-- **globalize_localize**: `localize (globalize r) = r`. -/
theorem localize_globalize (c : Cs ℝ) (r : Ray ℝ) : c.localize (c.globalize r) = r := by
  unfold Cs.globalize Cs.localize
  have neg_eq : ∀ a : ℝ, @Neg.neg ℝ Num.instNeg a = -a := fun _ => rfl
  simp only [neg_eq]
  by_cases hx : truthy c.rx = true <;> by_cases hy : truthy c.ry = true <;>
    by_cases hz : truthy c.rz = true <;>
    simp [hx, hy, hz, rotateX_inv', rotateY_inv', rotateZ_inv', translate_inv']

/-- squared length of the direction and the dot product of two directions -/
def dir2 (r : Ray ℝ) : ℝ := r.L^2 + r.M^2 + r.N^2
def ddot (a b : Ray ℝ) : ℝ := a.L*b.L + a.M*b.M + a.N*b.N

theorem rotateX_ddot (a b : Ray ℝ) (t : ℝ) : ddot (a.rotateX t) (b.rotateX t) = ddot a b := by
  unfold ddot Ray.rotateX; num_real
  linear_combination (a.M*b.M + a.N*b.N) * Real.sin_sq_add_cos_sq t
theorem rotateY_ddot (a b : Ray ℝ) (t : ℝ) : ddot (a.rotateY t) (b.rotateY t) = ddot a b := by
  unfold ddot Ray.rotateY; num_real
  linear_combination (a.L*b.L + a.N*b.N) * Real.sin_sq_add_cos_sq t
theorem rotateZ_ddot (a b : Ray ℝ) (t : ℝ) : ddot (a.rotateZ t) (b.rotateZ t) = ddot a b := by
  unfold ddot Ray.rotateZ; num_real
  linear_combination (a.L*b.L + a.M*b.M) * Real.sin_sq_add_cos_sq t
theorem translate_ddot (a b : Ray ℝ) (x y z : ℝ) :
    ddot (a.translate x y z) (b.translate x y z) = ddot a b := rfl

/-- frame changes preserve dot products of directions (hence norms, angles, and the vector form of
Snell's law, which is built from dot and cross products) -/
theorem localize_ddot (c : Cs ℝ) (a b : Ray ℝ) : ddot (c.localize a) (c.localize b) = ddot a b := by
  unfold Cs.localize
  by_cases hx : truthy c.rx = true <;> by_cases hy : truthy c.ry = true <;>
    by_cases hz : truthy c.rz = true <;>
    simp [hx, hy, hz, rotateX_ddot, rotateY_ddot, rotateZ_ddot, translate_ddot]

theorem globalize_ddot (c : Cs ℝ) (a b : Ray ℝ) : ddot (c.globalize a) (c.globalize b) = ddot a b := by
  unfold Cs.globalize
  by_cases hx : truthy c.rx = true <;> by_cases hy : truthy c.ry = true <;>
    by_cases hz : truthy c.rz = true <;>
    simp [hx, hy, hz, rotateX_ddot, rotateY_ddot, rotateZ_ddot, translate_ddot]

theorem globalize_unit (c : Cs ℝ) (r : Ray ℝ) : dir2 (c.globalize r) = dir2 r := by
  have := globalize_ddot c r r
  simpa [dir2, ddot, sq] using this

/-! ### refraction and reflection -/

/-- reflection keeps unit length, for any unit normal and whatever its orientation -/
theorem reflect_unit (r : Ray ℝ) (nx ny nz : ℝ) (hk : r.L^2 + r.M^2 + r.N^2 = 1)
    (hn : nx^2 + ny^2 + nz^2 = 1) :
    (r.reflect nx ny nz).L^2 + (r.reflect nx ny nz).M^2 + (r.reflect nx ny nz).N^2 = 1 := by
  unfold Ray.reflect alignNormal Num.sign
  num_real
  set d := r.L * nx + r.M * ny + r.N * nz with hd
  rcases lt_trichotomy 0 d with h | h | h
  · simp only [h, if_true, abs_of_pos h]
    linear_combination hk + (4*d^2) * hn
  · simp only [← h, lt_irrefl, if_false, abs_zero]
    linear_combination hk
  · have h' : ¬ (0 < d) := not_lt.mpr h.le
    simp only [h', h, if_true, if_false, abs_of_neg h]
    linear_combination hk + (4*d^2) * hn

/-- **reflect_law**: the reflected direction `r'` satisfies `r' × n = k × n` (same tangential
component) and `r'·n = −k·n` (normal component reversed), for either orientation of `n`. -/
theorem reflect_law (r : Ray ℝ) (nx ny nz : ℝ) (hn : nx^2 + ny^2 + nz^2 = 1) :
    let o := r.reflect nx ny nz
    (o.M*nz - o.N*ny = r.M*nz - r.N*ny) ∧ (o.N*nx - o.L*nz = r.N*nx - r.L*nz) ∧
    (o.L*ny - o.M*nx = r.L*ny - r.M*nx) ∧ (o.L*nx + o.M*ny + o.N*nz = -(r.L*nx + r.M*ny + r.N*nz)) := by
  intro o
  simp only [o]
  unfold Ray.reflect alignNormal Num.sign
  num_real
  set d := r.L * nx + r.M * ny + r.N * nz with hd
  rcases lt_trichotomy 0 d with h | h | h
  · simp only [h, if_true, abs_of_pos h]
    refine ⟨by ring, by ring, by ring, ?_⟩
    linear_combination (-2*d) * hn + hd
  · have hd0 : r.L * nx + r.M * ny + r.N * nz = 0 := by rw [← hd]; exact h.symm
    simp only [← h, lt_irrefl, if_false, abs_zero]
    refine ⟨by ring, by ring, by ring, ?_⟩
    linear_combination hd0
  · have h' : ¬ (0 < d) := not_lt.mpr h.le
    simp only [h', h, if_true, if_false, abs_of_neg h]
    refine ⟨by ring, by ring, by ring, ?_⟩
    linear_combination (-2*d) * hn + hd

/-- the radicand of the refraction formula -/
noncomputable def radicand (r : Ray ℝ) (nx ny nz n1 n2 : ℝ) : ℝ :=
  1 - (n1/n2)*(n1/n2)*(1 - (r.L*nx + r.M*ny + r.N*nz)*(r.L*nx + r.M*ny + r.N*nz))

/-- **refract_unit**: for unit `k`, unit `n`, non-grazing incidence and non-negative radicand
(no total internal reflection) the refracted direction is a unit vector. -/
theorem refract_unit (r : Ray ℝ) (nx ny nz n1 n2 : ℝ) (hk : r.L^2 + r.M^2 + r.N^2 = 1)
    (hn : nx^2 + ny^2 + nz^2 = 1) (hd : r.L*nx + r.M*ny + r.N*nz ≠ 0)
    (hrad : 0 ≤ radicand r nx ny nz n1 n2) :
    (r.refract nx ny nz n1 n2).L^2 + (r.refract nx ny nz n1 n2).M^2 + (r.refract nx ny nz n1 n2).N^2 = 1 := by
  unfold radicand at hrad
  unfold Ray.refract alignNormal Num.sign
  num_real
  set d := r.L * nx + r.M * ny + r.N * nz with hdd
  set u := n1 / n2
  rcases lt_or_gt_of_ne hd with h | h
  · have h' : ¬ (0 < d) := not_lt.mpr h.le
    simp only [h', h, if_true, if_false, abs_of_neg h]
    have e : (1:ℝ) - u*u*(1 - -d * -d) = 1 - u*u*(1 - d*d) := by ring
    rw [e]
    have hr := Real.sq_sqrt hrad
    set root := Real.sqrt (1 - u*u*(1 - d*d))
    linear_combination u^2 * hk + (root + u*d)^2 * hn + 2*u*(root + u*d) * hdd + hr
  · simp only [h, if_true, abs_of_pos h]
    have hr := Real.sq_sqrt hrad
    set root := Real.sqrt (1 - u*u*(1 - d*d))
    linear_combination u^2 * hk + (root - u*d)^2 * hn - 2*u*(root - u*d) * hdd + hr

/-- **refract_snell**: `n₂ (t × N) = n₁ (k × N)` — the vector form of Snell's law — for any
orientation of the given normal `N`, `n₂ ≠ 0`. -/
theorem refract_snell (r : Ray ℝ) (nx ny nz n1 n2 : ℝ) (hn2 : n2 ≠ 0) :
    let o := r.refract nx ny nz n1 n2
    n2*(o.M*nz - o.N*ny) = n1*(r.M*nz - r.N*ny) ∧ n2*(o.N*nx - o.L*nz) = n1*(r.N*nx - r.L*nz) ∧
    n2*(o.L*ny - o.M*nx) = n1*(r.L*ny - r.M*nx) := by
  intro o
  simp only [o]
  unfold Ray.refract alignNormal
  num_real
  refine ⟨?_, ?_, ?_⟩ <;> field_simp <;> ring

/-- **refract_halfspace**: the refracted ray continues into the half-space the incident ray was
heading for: `sign (t·N) = sign (k·N)`, stated as `(t·N)(k·N) > 0`, whenever `0 < radicand`. -/
theorem refract_halfspace (r : Ray ℝ) (nx ny nz n1 n2 : ℝ)
    (hn : nx^2 + ny^2 + nz^2 = 1) (hd : r.L*nx + r.M*ny + r.N*nz ≠ 0)
    (hrad : 0 < radicand r nx ny nz n1 n2) :
    let o := r.refract nx ny nz n1 n2
    0 < (o.L*nx + o.M*ny + o.N*nz) * (r.L*nx + r.M*ny + r.N*nz) := by
  intro o
  simp only [o]
  unfold radicand at hrad
  unfold Ray.refract alignNormal Num.sign
  num_real
  set d := r.L * nx + r.M * ny + r.N * nz with hdd
  set u := n1 / n2
  have hroot : 0 < Real.sqrt (1 - u*u*(1 - d*d)) := Real.sqrt_pos.mpr hrad
  rcases lt_or_gt_of_ne hd with h | h
  · have h' : ¬ (0 < d) := not_lt.mpr h.le
    simp only [h', h, if_true, if_false, abs_of_neg h]
    have e : (1:ℝ) - u*u*(1 - -d * -d) = 1 - u*u*(1 - d*d) := by ring
    rw [e]
    set root := Real.sqrt (1 - u*u*(1 - d*d))
    have key : (u * r.L + nx * -1 * root - u * (nx * -1) * -d) * nx +
        (u * r.M + ny * -1 * root - u * (ny * -1) * -d) * ny +
        (u * r.N + nz * -1 * root - u * (nz * -1) * -d) * nz = -root := by
      linear_combination (-root - u*d) * hn + u * hdd
    rw [key]
    nlinarith
  · simp only [h, if_true, abs_of_pos h]
    set root := Real.sqrt (1 - u*u*(1 - d*d))
    have key : (u * r.L + nx * 1 * root - u * (nx * 1) * d) * nx +
        (u * r.M + ny * 1 * root - u * (ny * 1) * d) * ny +
        (u * r.N + nz * 1 * root - u * (nz * 1) * d) * nz = root := by
      linear_combination (root - u*d) * hn + u * hdd
    rw [key]
    positivity

/-! ### intersection with the prescribed shape -/

/-- the conic quadric `x² + y² + (1+k) z² − 2 R z` -/
def Q (R k x y z : ℝ) : ℝ := x^2 + y^2 + (1 + k)*z^2 - 2*R*z

theorem conicABC_eq (R k : ℝ) (r : Ray ℝ) : conicABC R k r =
    (k*(r.N*r.N) + r.L*r.L + r.M*r.M + r.N*r.N,
     2*k*r.N*r.z + 2*r.L*r.x + 2*r.M*r.y - 2*r.N*R + 2*r.N*r.z,
     k*(r.z*r.z) - 2*R*r.z + r.x*r.x + r.y*r.y + r.z*r.z) := by
  unfold conicABC
  num_real

/-- both roots of the quadratic solved by `StandardGeometry.distance` put the ray point on the
quadric -/
theorem conic_root (R k : ℝ) (r : Ray ℝ) (sgn : ℝ) (hs : sgn = 1 ∨ sgn = -1) :
    let a := (conicABC R k r).1
    let b := (conicABC R k r).2.1
    let c := (conicABC R k r).2.2
    let d := b*b - 4*a*c
    0 ≤ d → a ≠ 0 →
    let t := (-b + sgn * Real.sqrt d) / (2*a)
    Q R k (r.x + t*r.L) (r.y + t*r.M) (r.z + t*r.N) = 0 := by
  intro a b c d hd ha t
  have habc : a = k*(r.N*r.N) + r.L*r.L + r.M*r.M + r.N*r.N ∧
      b = 2*k*r.N*r.z + 2*r.L*r.x + 2*r.M*r.y - 2*r.N*R + 2*r.N*r.z ∧
      c = k*(r.z*r.z) - 2*R*r.z + r.x*r.x + r.y*r.y + r.z*r.z := by
    simp [a, b, c, conicABC_eq]
  have hq : a*t^2 + b*t + c = 0 := by
    have hsq : (Real.sqrt d)^2 = d := Real.sq_sqrt hd
    have hs2 : sgn^2 = 1 := by rcases hs with h | h <;> simp [h]
    have he : (sgn*Real.sqrt d)^2 = d := by rw [mul_pow, hs2, hsq, one_mul]
    have key : a*t^2 + b*t + c = ((sgn*Real.sqrt d)^2 - d)/(4*a) := by
      simp only [t, d]; field_simp; ring
    rw [key, he, sub_self, zero_div]
  have : Q R k (r.x + t*r.L) (r.y + t*r.M) (r.z + t*r.N) = a*t^2 + b*t + c := by
    rw [habc.1, habc.2.1, habc.2.2]; unfold Q; ring
  rw [this, hq]

/-- **conic_root_on_surface**: when the discriminant is non-negative, `a ≠ 0` and both roots are
admissible (`t ≥ 0`, so no root is masked to `inf`), the distance returned by
`StandardGeometry.distance` puts the ray on the prescribed quadric. -/
theorem conic_root_on_surface (R k : ℝ) (r : Ray ℝ) :
    let a := (conicABC R k r).1
    let b := (conicABC R k r).2.1
    let c := (conicABC R k r).2.2
    let d := b*b - 4*a*c
    0 ≤ d → a ≠ 0 → 0 ≤ (-b + Real.sqrt d)/(2*a) → 0 ≤ (-b - Real.sqrt d)/(2*a) →
    let t := stdDistance R k r
    Q R k (r.x + t*r.L) (r.y + t*r.M) (r.z + t*r.N) = 0 := by
  intro a b c d hd ha h1 h2 t
  have r1 := conic_root R k r 1 (Or.inl rfl) hd ha
  have r2 := conic_root R k r (-1) (Or.inr rfl) hd ha
  simp only [one_mul] at r1
  simp only [neg_one_mul, ← sub_eq_add_neg] at r2
  have ht : t = (-b + Real.sqrt d)/(2*a) ∨ t = (-b - Real.sqrt d)/(2*a) := by
    simp only [t, stdDistance, selectRoot, maskNeg]
    num_real
    have e4 : ((4:ℕ):ℝ)/((1:ℕ):ℝ) = 4 := by norm_num
    simp only [e4]
    have h1' : ¬ ((-b + Real.sqrt d)/(2*a) < 0) := not_lt.mpr h1
    have h2' : ¬ ((-b - Real.sqrt d)/(2*a) < 0) := not_lt.mpr h2
    simp only [a, b, c, d] at ha h1' h2' ⊢
    simp only [h1', h2', if_false, ha]
    split <;> simp
  rcases ht with h | h <;> rw [h]
  · exact r1
  · exact r2

/-- in the `a = 0` branch (`t = −c/b`, e.g. a paraboloid hit by an axis-parallel ray) the point
is on the quadric as well -/
theorem conic_linear_root_on_surface (R k : ℝ) (r : Ray ℝ) :
    let a := (conicABC R k r).1
    let b := (conicABC R k r).2.1
    a = 0 → b ≠ 0 →
    let t := stdDistance R k r
    Q R k (r.x + t*r.L) (r.y + t*r.M) (r.z + t*r.N) = 0 := by
  intro a b ha hb t
  have habc : a = k*(r.N*r.N) + r.L*r.L + r.M*r.M + r.N*r.N ∧
      b = 2*k*r.N*r.z + 2*r.L*r.x + 2*r.M*r.y - 2*r.N*R + 2*r.N*r.z := by
    simp [a, b, conicABC_eq]
  have ht : t = -(conicABC R k r).2.2 / b := by
    simp only [t, stdDistance, selectRoot]
    num_real
    have : (conicABC R k r).1 = 0 := ha
    simp [this, b]
  set c := (conicABC R k r).2.2 with hc
  have hcv : c = k*(r.z*r.z) - 2*R*r.z + r.x*r.x + r.y*r.y + r.z*r.z := by
    simp only [hc, conicABC_eq]
  have : Q R k (r.x + t*r.L) (r.y + t*r.M) (r.z + t*r.N) = a*t^2 + b*t + c := by
    rw [habc.1, habc.2, hcv]; unfold Q; ring
  rw [this, ha, ht]
  field_simp
  ring

/-- **plane_distance**: an admissible distance to a plane ends on the plane -/
theorem plane_distance (r : Ray ℝ) (hN : r.N ≠ 0) (ht : 0 ≤ -r.z / r.N) :
    r.z + planeDistance r * r.N = 0 := by
  unfold planeDistance maskNeg
  num_real
  have : ¬ (-r.z / r.N < 0) := not_lt.mpr ht
  simp only [this, if_false]
  field_simp
  ring

/-- **sag_on_conic**: inside its domain the sag formula gives a point of the quadric -/
theorem sag_on_conic (R k x y : ℝ) (hR : R ≠ 0) (hdom : 0 ≤ 1 - (1 + k)*(x*x + y*y)/(R*R)) :
    Q R k x y (conicSag R k x y) = 0 := by
  unfold conicSag Q
  num_real
  set r2 := x*x + y*y with hr2
  set s := Real.sqrt (1 - (1 + k)*r2/(R*R)) with hs
  have hs0 : 0 ≤ s := Real.sqrt_nonneg _
  have hss : s^2 = 1 - (1 + k)*r2/(R*R) := Real.sq_sqrt hdom
  have h1s : (1 + s) ≠ 0 := by positivity
  have hk : (1 + k)*r2 = (1 - s^2)*(R*R) := by rw [hss]; field_simp; ring
  have : x^2 + y^2 = r2 := by rw [hr2]; ring
  rw [this]
  have e : r2 + (1 + k) * (r2 / (R * (1 + s)))^2 - 2*R*(r2 / (R * (1 + s)))
      = r2 * ((1 + k)*r2 - (1 - s^2)*(R*R)) / (R*(1+s))^2 := by
    field_simp
    ring
  rw [e, hk]; simp

/-- **normal_is_gradient** (conics): the vector returned by `StandardGeometry.surface_normal`
is a unit vector parallel to `(∂sag/∂x, ∂sag/∂y, −1)` with
`∂sag/∂x = x / (R √(1−(1+k)r²/R²))` (the closed form of the derivative of the sag). -/
theorem stdNormal_unit (R k x y : ℝ) :
    let n := stdNormal R k x y
    n.1^2 + n.2.1^2 + n.2.2^2 = 1 ∧
    n.1 * (-1) = (conicSlope R k x y).1 * n.2.2 ∧ n.2.1 * (-1) = (conicSlope R k x y).2 * n.2.2 := by
  intro n
  simp only [n, stdNormal]
  num_real
  set gx := (conicSlope R k x y).1
  set gy := (conicSlope R k x y).2
  have hpos : 0 < gx*gx + gy*gy + -1 * -1 := by nlinarith [mul_self_nonneg gx, mul_self_nonneg gy]
  set m := Real.sqrt (gx*gx + gy*gy + -1 * -1) with hm
  have hm0 : 0 < m := Real.sqrt_pos.mpr hpos
  have hmm : m^2 = gx*gx + gy*gy + -1 * -1 := Real.sq_sqrt hpos.le
  have hne : m ≠ 0 := ne_of_gt hm0
  refine ⟨?_, ?_, ?_⟩
  · field_simp; linear_combination -hmm
  · field_simp
  · field_simp

/-- the closed form used for the slope is the derivative of the sag: on the sag sheet
`R − (1+k)·sag = R √(1 − (1+k) r²/R²)`, i.e. the slope `x/denom` equals `x / (R − (1+k) z)`, which is
`−∂Q/∂x / ∂Q/∂z` (implicit differentiation of the quadric). -/
theorem conicSlope_is_implicit_gradient (R k x y : ℝ) (hR : R ≠ 0)
    (hdom : 0 < 1 - (1 + k)*(x*x + y*y)/(R*R)) :
    R - (1 + k) * conicSag R k x y = R * Real.sqrt (1 - (1 + k)*(x*x + y*y)/(R*R)) := by
  unfold conicSag
  num_real
  set r2 := x*x + y*y
  set s := Real.sqrt (1 - (1 + k)*r2/(R*R)) with hs
  have hs0 : 0 < s := Real.sqrt_pos.mpr hdom
  have hss : s^2 = 1 - (1 + k)*r2/(R*R) := Real.sq_sqrt hdom.le
  have h1s : (1 + s) ≠ 0 := by positivity
  have hk : (1 + k)*r2 = (1 - s^2)*(R*R) := by rw [hss]; field_simp; ring
  have : R - (1 + k) * (r2 / (R * (1 + s))) = (R*R*(1+s) - (1+k)*r2) / (R*(1+s)) := by
    field_simp
  rw [this, hk]
  field_simp
  ring

/-! ### optical path and unit directions along the whole trace -/

/-- every ray of every record has a unit direction -/
def AllUnit (recs : List (List (Ray ℝ))) : Prop := ∀ rs ∈ recs, ∀ r ∈ rs, dir2 r = 1

/-- the accumulated path grows by exactly `|t·n₁|` at each surface: the recorded OPD after a
surface is the incoming OPD plus index × distance travelled (propagation, clipping, refraction
and the frame changes leave it untouched). -/
theorem traceSurf_opd (s : RSurf ℝ) (w : ℝ) (r : Ray ℝ) (t : ℝ) :
    (s.cs.globalize (interact s (clip s.aperture
        { (r.propagate t s.k1 w) with opd := (r.propagate t s.k1 w).opd + Num.abs (t * s.n1) }))).opd
      = r.opd + |t * s.n1| := by
  have hg : ∀ (c : Cs ℝ) (q : Ray ℝ), (c.globalize q).opd = q.opd := by
    intro c q
    unfold Cs.globalize Ray.translate Ray.rotateX Ray.rotateY Ray.rotateZ
    split_ifs <;> rfl
  have hi : ∀ q : Ray ℝ, (interact s q).opd = q.opd := by
    intro q
    unfold interact Ray.reflect Ray.refract
    cases s.kind <;> simp only <;> (try rfl) <;>
      (cases s.coating <;> simp only <;> split_ifs <;> rfl)
  have hc : ∀ q : Ray ℝ, (clip s.aperture q).opd = q.opd := by
    intro q
    unfold clip
    cases s.aperture with
    | none => rfl
    | some p => obtain ⟨a, b⟩ := p; simp only; split_ifs <;> rfl
  rw [hg, hi, hc]
  show (r.propagate t s.k1 w).opd + Num.abs (t * s.n1) = r.opd + |t * s.n1|
  unfold Ray.propagate
  num_real

/-! ### non-vacuity -/
example : (0:ℝ) ≤ radicand ⟨0, 0, 0, 0, 0, 1, 1, 0⟩ 0 0 (-1) 1 1.5 := by
  unfold radicand; norm_num

/-! ## whole surfaces: `traceSurf`

The theorems above are about the single functions.  From here on they are composed along
`traceSurf` (localize → distance → propagate → clip → normal → refract/reflect → globalize →
record) and then along `traceLens`.  `TraceLaws.stepRay s w q t` is the per-ray body of `traceSurf`
(`q` the localised ray, `t` its distance), `TraceLaws.arriveAt s w q t` the ray handed to
`interact`, `TraceLaws.traceRay s w r = stepRay s w (localize r) (distance (localize r))`; for
planes and standard conics `traceSurf s w rays = rays.map (traceRay s w)` (`TraceLaws.traceSurf_map`).
-/
open TraceLaws

theorem localize_unit (c : Cs ℝ) (r : Ray ℝ) : dir2 (c.localize r) = dir2 r := by
  have := localize_ddot c r r
  simpa [dir2, ddot, sq] using this

/-- the recorded (global) ray, taken back to the surface frame, is what `interact` returned -/
theorem stepRay_local (s : RSurf ℝ) (w : ℝ) (q : Ray ℝ) (t : ℝ) :
    s.cs.localize (stepRay s w q t) = interact s (arriveAt s w q t) := localize_globalize _ _

/-- local coordinates of the recorded point: start point + `t` × direction -/
theorem stepRay_pos (s : RSurf ℝ) (w : ℝ) (q : Ray ℝ) (t : ℝ) :
    (s.cs.localize (stepRay s w q t)).x = q.x + t * q.L ∧
    (s.cs.localize (stepRay s w q t)).y = q.y + t * q.M ∧
    (s.cs.localize (stepRay s w q t)).z = q.z + t * q.N := by
  rw [stepRay_local]
  exact ⟨by rw [interact_x, arriveAt_x], by rw [interact_y, arriveAt_y], by rw [interact_z, arriveAt_z]⟩

/-! ### 1. the recorded point lies on the prescribed surface -/

/-- one root of the quadratic is negative (masked to `inf` by `t[t < 0] = inf`), the other is
admissible and lands nearer to the vertex plane than the ray started — the usual situation at a
concave surface (`R < 0`, the ray starts inside the sphere): the admissible root is returned.

Over ℝ `Num.inf` is the junk value 0, so the masked root competes with `|z|` itself instead of
`|z + inf·N| = inf`; the third conjunct makes the admissible root win here too, as it always does in
IEEE arithmetic (for `N ≠ 0`), so that model-over-ℝ and code select the same root. -/
theorem conic_one_root_on_surface (R k : ℝ) (r : Ray ℝ) :
    let a := (conicABC R k r).1
    let b := (conicABC R k r).2.1
    let c := (conicABC R k r).2.2
    let d := b*b - 4*a*c
    0 ≤ d → a ≠ 0 →
    ((-b + Real.sqrt d)/(2*a) < 0 ∧ 0 ≤ (-b - Real.sqrt d)/(2*a) ∧
        |r.z + (-b - Real.sqrt d)/(2*a) * r.N| < |r.z|) ∨
      (0 ≤ (-b + Real.sqrt d)/(2*a) ∧ (-b - Real.sqrt d)/(2*a) < 0 ∧
        |r.z + (-b + Real.sqrt d)/(2*a) * r.N| < |r.z|) →
    let t := stdDistance R k r
    Q R k (r.x + t*r.L) (r.y + t*r.M) (r.z + t*r.N) = 0 := by
  intro a b c d hd ha h t
  have r1 := conic_root R k r 1 (Or.inl rfl) hd ha
  have r2 := conic_root R k r (-1) (Or.inr rfl) hd ha
  simp only [one_mul] at r1
  simp only [neg_one_mul, ← sub_eq_add_neg] at r2
  have hinf : (Num.inf : ℝ) = 0 := rfl
  have ht : t = (-b + Real.sqrt d)/(2*a) ∨ t = (-b - Real.sqrt d)/(2*a) := by
    simp only [t, stdDistance, selectRoot, maskNeg, hinf]
    num_real
    have e4 : ((4:ℕ):ℝ)/((1:ℕ):ℝ) = 4 := by norm_num
    simp only [e4]
    rcases h with ⟨h1, h2, h3⟩ | ⟨h1, h2, h3⟩
    · have h2' : ¬ ((-b - Real.sqrt d)/(2*a) < 0) := not_lt.mpr h2
      have h3' : ¬ (|r.z + 0 * r.N| ≤ |r.z + (-b - Real.sqrt d)/(2*a) * r.N|) := by
        rw [zero_mul, add_zero]; exact not_le.mpr h3
      simp only [a, b, c, d] at ha h1 h2' h3' ⊢
      simp only [h1, h2', h3', if_true, if_false, ha]
      right; trivial
    · have h1' : ¬ ((-b + Real.sqrt d)/(2*a) < 0) := not_lt.mpr h1
      have h3' : |r.z + (-b + Real.sqrt d)/(2*a) * r.N| ≤ |r.z + 0 * r.N| := by
        rw [zero_mul, add_zero]; exact h3.le
      simp only [a, b, c, d] at ha h1' h2 h3' ⊢
      simp only [h1', h2, h3', if_true, if_false, ha]
      left; trivial
  rcases ht with h | h <;> rw [h]
  · exact r1
  · exact r2

/-- discriminant of the quadratic solved by `StandardGeometry.distance` -/
noncomputable def disc (R k : ℝ) (q : Ray ℝ) : ℝ :=
  (conicABC R k q).2.1 * (conicABC R k q).2.1 - 4 * (conicABC R k q).1 * (conicABC R k q).2.2

/-- quadratic branch: real roots, both admissible (`t ≥ 0`: none is masked to `inf`) -/
def QuadBranch (R k : ℝ) (q : Ray ℝ) : Prop :=
  0 ≤ disc R k q ∧ (conicABC R k q).1 ≠ 0 ∧
  0 ≤ (-(conicABC R k q).2.1 + Real.sqrt (disc R k q)) / (2 * (conicABC R k q).1) ∧
  0 ≤ (-(conicABC R k q).2.1 - Real.sqrt (disc R k q)) / (2 * (conicABC R k q).1)

/-- quadratic branch with exactly one admissible root (see `conic_one_root_on_surface`) -/
def OneRoot (R k : ℝ) (q : Ray ℝ) : Prop :=
  0 ≤ disc R k q ∧ (conicABC R k q).1 ≠ 0 ∧
  (((-(conicABC R k q).2.1 + Real.sqrt (disc R k q)) / (2 * (conicABC R k q).1) < 0 ∧
    0 ≤ (-(conicABC R k q).2.1 - Real.sqrt (disc R k q)) / (2 * (conicABC R k q).1) ∧
    |q.z + (-(conicABC R k q).2.1 - Real.sqrt (disc R k q)) / (2 * (conicABC R k q).1) * q.N| < |q.z|) ∨
   (0 ≤ (-(conicABC R k q).2.1 + Real.sqrt (disc R k q)) / (2 * (conicABC R k q).1) ∧
    (-(conicABC R k q).2.1 - Real.sqrt (disc R k q)) / (2 * (conicABC R k q).1) < 0 ∧
    |q.z + (-(conicABC R k q).2.1 + Real.sqrt (disc R k q)) / (2 * (conicABC R k q).1) * q.N| < |q.z|))

/-- linear branch (`a = 0`, e.g. a paraboloid met by an axis-parallel ray): `t = −c/b` -/
def LinBranch (R k : ℝ) (q : Ray ℝ) : Prop :=
  (conicABC R k q).1 = 0 ∧ (conicABC R k q).2.1 ≠ 0

/-- the guards under which `geometry.distance` is a genuine intersection distance, on the ray in
the surface frame.  Outside them the implementation produces non-finite values which ℝ cannot
represent: a plane behind the ray (`t < 0`) gives `nan`, a negative discriminant gives `nan`
(`sqrt`), two negative roots give `inf`; `a = 0 = b` divides by zero.  The Newton–Raphson families
have no guard here (`False`): their distance is the result of an iteration with a tolerance, the
point is on the surface only up to that tolerance (and see known finding F22). -/
def HitGuard : Geom ℝ → Ray ℝ → Prop
  | .plane, q => q.N ≠ 0 ∧ 0 ≤ -q.z / q.N
  | .standard R k, q => QuadBranch R k q ∨ LinBranch R k q ∨ OneRoot R k q
  | _, _ => False

/-- the implicit equation of the prescribed shape, in the surface frame -/
def OnSurface : Geom ℝ → Ray ℝ → Prop
  | .plane, p => p.z = 0
  | .standard R k, p => (1 + k) * p.z^2 - 2 * R * p.z + p.x^2 + p.y^2 = 0
  | _, _ => False

theorem Q_eq (R k x y z : ℝ) : Q R k x y z = (1 + k) * z^2 - 2 * R * z + x^2 + y^2 := by
  unfold Q; ring

/-- the distance of a guarded ray ends on the surface -/
theorem dist1_on_surface (g : Geom ℝ) (q : Ray ℝ) (hg : HitGuard g q) (p : Ray ℝ)
    (hx : p.x = q.x + dist1 g q * q.L) (hy : p.y = q.y + dist1 g q * q.M)
    (hz : p.z = q.z + dist1 g q * q.N) : OnSurface g p := by
  cases g with
  | plane =>
    show p.z = 0
    rw [hz]
    exact plane_distance q hg.1 hg.2
  | standard R k =>
    show (1 + k) * p.z^2 - 2 * R * p.z + p.x^2 + p.y^2 = 0
    rw [← Q_eq, hx, hy, hz]
    rcases hg with h | h | h
    · exact conic_root_on_surface R k q h.1 h.2.1 h.2.2.1 h.2.2.2
    · exact conic_linear_root_on_surface R k q h.1 h.2
    · exact conic_one_root_on_surface R k q h.1 h.2.1 h.2.2
  | evenAsphere R k tol mi c => exact absurd hg id
  | polynomial R k tol mi c => exact absurd hg id
  | chebyshev R k tol mi c nx ny => exact absurd hg id

theorem traceRay_on_surface (s : RSurf ℝ) (w : ℝ) (r : Ray ℝ)
    (hg : HitGuard s.geom (s.cs.localize r)) : OnSurface s.geom (s.cs.localize (traceRay s w r)) := by
  have hp := stepRay_pos s w (s.cs.localize r) (dist1 s.geom (s.cs.localize r))
  exact dist1_on_surface s.geom (s.cs.localize r) hg _ hp.1 hp.2.1 hp.2.2

/-- **traceSurf_point_on_surface**: for every surface with a plane or standard-conic geometry, in any
coordinate system (decentre, tilts), every recorded point — taken back to the surface frame by
`cs.localize` — satisfies the implicit equation of the prescribed shape: `z = 0`, resp.
`(1+k) z² − 2 R z + x² + y² = 0`; provided each ray of the batch meets the guards. -/
theorem traceSurf_point_on_surface (s : RSurf ℝ) (w : ℝ) (rays : List (Ray ℝ)) (hk : s.kind ≠ .object)
    (hgeom : IsStd s.geom) (hg : ∀ r ∈ rays, HitGuard s.geom (s.cs.localize r)) :
    ∀ r' ∈ traceSurf s w rays, OnSurface s.geom (s.cs.localize r') := by
  intro r' hr'
  rw [traceSurf_map s w rays hk hgeom] at hr'
  obtain ⟨r, hr, rfl⟩ := List.mem_map.mp hr'
  exact traceRay_on_surface s w r (hg r hr)

/-! ### 2. the recorded direction is a unit vector -/

/-- the normalisation of the Newton–Raphson geometries gives a unit vector, whatever the slopes -/
theorem nrNormalize_unit (a b : ℝ) :
    (nrNormalize a b).1^2 + (nrNormalize a b).2.1^2 + (nrNormalize a b).2.2^2 = 1 := by
  simp only [nrNormalize]
  num_real
  have hpos : 0 < a*a + b*b + 1 := by nlinarith [mul_self_nonneg a, mul_self_nonneg b]
  set m := Real.sqrt (a*a + b*b + 1) with hm
  have hm0 : 0 < m := Real.sqrt_pos.mpr hpos
  have hmm : m^2 = a*a + b*b + 1 := Real.sq_sqrt hpos.le
  have hne : m ≠ 0 := ne_of_gt hm0
  field_simp
  linear_combination -hmm

/-- **normal_unit**: the normal `geometry.surface_normal` returns is a unit vector — for every
geometry of the model and every point (also outside the domain of the sag). -/
theorem normal_unit (g : Geom ℝ) (q : Ray ℝ) :
    (g.normal q).1^2 + (g.normal q).2.1^2 + (g.normal q).2.2^2 = 1 := by
  cases g with
  | plane =>
    simp only [Geom.normal]
    num_real
    norm_num
  | standard R k => exact (stdNormal_unit R k q.x q.y).1
  | evenAsphere R k tol mi c => exact nrNormalize_unit _ _
  | polynomial R k tol mi c => exact nrNormalize_unit _ _
  | chebyshev R k tol mi c nx ny => exact nrNormalize_unit _ _

/-- the normal depends on the transverse position only -/
theorem normal_congr (g : Geom ℝ) (p q : Ray ℝ) (hx : p.x = q.x) (hy : p.y = q.y) :
    g.normal p = g.normal q := by
  cases g <;> simp only [Geom.normal, hx, hy]

/-- the incidence conditions under which the refraction formula returns a unit vector: the
surface is the image surface (no interaction) or a mirror, or the ray arriving at the surface
(`q`, in the surface frame, at the intersection point) is not grazing (`k·n ≠ 0`) and is not
totally reflected (`0 ≤ 1 − (n₁/n₂)²(1 − (k·n)²)`).

At exactly grazing incidence `np.sign(k·n) = 0` wipes the normal out and the code returns
`(n₁/n₂)·k`, which is not a unit vector unless `n₁ = ±n₂` — hence the first conjunct (run on the
implementation: `RealRays.refract` with `k = (0,0,1)`, `n = (1,0,0)`, `n₁ = 1`, `n₂ = 1.5` leaves
`(L,M,N) = (0,0,0.667)`; a set of measure zero).  Below the radicand guard (total internal
reflection) the implementation takes `sqrt` of a negative number and the direction becomes `nan`. -/
def Refractable (s : RSurf ℝ) (q : Ray ℝ) : Prop :=
  s.kind = .image ∨ s.refl = true ∨
    (q.L * (s.geom.normal q).1 + q.M * (s.geom.normal q).2.1 + q.N * (s.geom.normal q).2.2 ≠ 0 ∧
     0 ≤ radicand q (s.geom.normal q).1 (s.geom.normal q).2.1 (s.geom.normal q).2.2 s.n1 s.n2)

theorem arriveAt_dir2 (s : RSurf ℝ) (w : ℝ) (q : Ray ℝ) (t : ℝ) : dir2 (arriveAt s w q t) = dir2 q := by
  unfold dir2; rw [arriveAt_L, arriveAt_M, arriveAt_N]

/-- one ray through one surface, any geometry, any distance `t` -/
theorem stepRay_unit (s : RSurf ℝ) (w : ℝ) (q : Ray ℝ) (t : ℝ) (hu : dir2 q = 1)
    (hg : Refractable s (arriveAt s w q t)) : dir2 (stepRay s w q t) = 1 := by
  unfold stepRay
  rw [globalize_unit]
  obtain ⟨A, hA⟩ : ∃ A, A = arriveAt s w q t := ⟨_, rfl⟩
  rw [← hA] at hg ⊢
  have hAu : A.L^2 + A.M^2 + A.N^2 = 1 := by
    have := arriveAt_dir2 s w q t
    rw [← hA, hu] at this; exact this
  by_cases hk : s.kind = .image
  · rw [interact_image s A hk]; exact hAu
  · have hb : dir2 (interact s A) = dir2 (bend s A) := by
      unfold dir2; rw [interact_L s A hk, interact_M s A hk, interact_N s A hk]
    rw [hb]
    have hn := normal_unit s.geom A
    rcases hg with h | h | h
    · exact absurd h hk
    · unfold bend; rw [if_pos h]
      exact reflect_unit A _ _ _ hAu hn
    · unfold bend
      by_cases hr : s.refl = true
      · rw [if_pos hr]; exact reflect_unit A _ _ _ hAu hn
      · rw [if_neg hr]; exact refract_unit A _ _ _ s.n1 s.n2 hAu hn h.1 h.2

theorem traceRay_unit (s : RSurf ℝ) (w : ℝ) (r : Ray ℝ) (hu : dir2 r = 1)
    (hg : Refractable s (arrive s w r)) : dir2 (traceRay s w r) = 1 :=
  stepRay_unit s w (s.cs.localize r) (dist1 s.geom (s.cs.localize r))
    (by rw [localize_unit]; exact hu) hg

/-- **traceSurf_direction_unit**: unit directions in, no grazing incidence and no total internal
reflection at the computed intersection point ⇒ every recorded (global) direction is a unit
vector.  (Plane or standard conic, any coordinate system; the normal needs no hypothesis:
`normal_unit`.) -/
theorem traceSurf_direction_unit (s : RSurf ℝ) (w : ℝ) (rays : List (Ray ℝ)) (hk : s.kind ≠ .object)
    (hgeom : IsStd s.geom) (hu : ∀ r ∈ rays, dir2 r = 1)
    (hg : ∀ r ∈ rays, Refractable s (arrive s w r)) :
    ∀ r' ∈ traceSurf s w rays, dir2 r' = 1 := by
  intro r' hr'
  rw [traceSurf_map s w rays hk hgeom] at hr'
  obtain ⟨r, hr, rfl⟩ := List.mem_map.mp hr'
  exact traceRay_unit s w r (hu r hr) (hg r hr)


/-- **traceSurf_direction_unit_any_geometry**: the same for every geometry of the model (also the
Newton–Raphson families, whose distances come out of a batch-wide iteration): the incidence guards
are stated position by position for each ray and *its* distance. -/
theorem traceSurf_direction_unit_any_geometry (s : RSurf ℝ) (w : ℝ) (rays : List (Ray ℝ))
    (hk : s.kind ≠ .object) (hu : ∀ r ∈ rays, dir2 r = 1)
    (hg : List.Forall₂ (fun r t => Refractable s (arriveAt s w (s.cs.localize r) t)) rays
      (s.geom.distance (rays.map s.cs.localize))) :
    ∀ r' ∈ traceSurf s w rays, dir2 r' = 1 := by
  rw [traceSurf_body s w rays hk]
  generalize s.geom.distance (rays.map s.cs.localize) = ts at hg
  induction hg with
  | nil => intro r' hr'; simp at hr'
  | @cons a t l ts hat _ ih =>
    intro r' hr'
    simp only [List.map_cons, List.zip_cons_cons, List.mem_cons] at hr'
    rcases hr' with e | e
    · rw [e]
      exact stepRay_unit s w (s.cs.localize a) t (by rw [localize_unit]; exact hu a (by simp)) hat
    · exact ih (fun r hr => hu r (by simp [hr])) r' e

/-- **traceSurf_mirror_direction_unit**: a mirror of any geometry, in any frame, returns unit
directions for unit directions — no guard on the rays at all. -/
theorem traceSurf_mirror_direction_unit (s : RSurf ℝ) (w : ℝ) (rays : List (Ray ℝ))
    (hk : s.kind ≠ .object) (hr : s.refl = true) (hu : ∀ r ∈ rays, dir2 r = 1) :
    ∀ r' ∈ traceSurf s w rays, dir2 r' = 1 :=
  traceSurf_direction_unit_any_geometry s w rays hk hu
    (forall₂_of_length _ (fun _ _ => Or.inr (Or.inl hr)) _ _
      (by rw [distance_length, List.length_map]))

/-! ### 3. Snell's law / the law of reflection at the recorded point -/

/-- the refracted direction is a combination of the incident direction and the normal: the three
are coplanar (`t · (k × N) = 0`), for any normal and any indices -/
theorem refract_coplanar (r : Ray ℝ) (nx ny nz n1 n2 : ℝ) :
    let o := r.refract nx ny nz n1 n2
    o.L*(r.M*nz - r.N*ny) + o.M*(r.N*nx - r.L*nz) + o.N*(r.L*ny - r.M*nx) = 0 := by
  intro o
  simp only [o]
  unfold Ray.refract alignNormal
  num_real
  ring

theorem reflect_coplanar (r : Ray ℝ) (nx ny nz : ℝ) :
    let o := r.reflect nx ny nz
    o.L*(r.M*nz - r.N*ny) + o.M*(r.N*nx - r.L*nz) + o.N*(r.L*ny - r.M*nx) = 0 := by
  intro o
  simp only [o]
  unfold Ray.reflect alignNormal
  num_real
  ring

/-- the ray `interact` works on, and the facts every law below starts from: the recorded ray in
the surface frame is `interact s A`, its direction is that of `bend s A`, `A` has the direction of
the incoming ray and the normal at the recorded point is the normal `interact` used -/
theorem stepRay_anatomy (s : RSurf ℝ) (w : ℝ) (q : Ray ℝ) (t : ℝ) (hk : s.kind ≠ .image) :
    ∃ A : Ray ℝ, A.L = q.L ∧ A.M = q.M ∧ A.N = q.N ∧
      s.geom.normal (s.cs.localize (stepRay s w q t)) = s.geom.normal A ∧
      (s.cs.localize (stepRay s w q t)).L = (bend s A).L ∧
      (s.cs.localize (stepRay s w q t)).M = (bend s A).M ∧
      (s.cs.localize (stepRay s w q t)).N = (bend s A).N ∧ A = arriveAt s w q t := by
  refine ⟨arriveAt s w q t, arriveAt_L s w q t, arriveAt_M s w q t, arriveAt_N s w q t, ?_, ?_, ?_, ?_, rfl⟩
  · exact normal_congr _ _ _ (by rw [stepRay_local, interact_x]) (by rw [stepRay_local, interact_y])
  · rw [stepRay_local, interact_L s _ hk]
  · rw [stepRay_local, interact_M s _ hk]
  · rw [stepRay_local, interact_N s _ hk]

/-- one ray through one refracting surface (any geometry, any distance): with `d` the incoming
direction, `d'` the recorded direction — both in the surface frame — and `n` the model's normal at
the recorded point: `n₂ (d' × n) = n₁ (d × n)` and `d' · (d × n) = 0`. -/
theorem stepRay_snell (s : RSurf ℝ) (w : ℝ) (q : Ray ℝ) (t : ℝ) (hk : s.kind ≠ .image)
    (hr : s.refl = false) (hn2 : s.n2 ≠ 0) :
    let o := s.cs.localize (stepRay s w q t)
    let n := s.geom.normal o
    s.n2*(o.M*n.2.2 - o.N*n.2.1) = s.n1*(q.M*n.2.2 - q.N*n.2.1) ∧
    s.n2*(o.N*n.1 - o.L*n.2.2) = s.n1*(q.N*n.1 - q.L*n.2.2) ∧
    s.n2*(o.L*n.2.1 - o.M*n.1) = s.n1*(q.L*n.2.1 - q.M*n.1) ∧
    o.L*(q.M*n.2.2 - q.N*n.2.1) + o.M*(q.N*n.1 - q.L*n.2.2) + o.N*(q.L*n.2.1 - q.M*n.1) = 0 := by
  intro o n
  obtain ⟨A, hL, hM, hN, hn, hoL, hoM, hoN, -⟩ := stepRay_anatomy s w q t hk
  have hb : bend s A = A.refract (s.geom.normal A).1 (s.geom.normal A).2.1 (s.geom.normal A).2.2 s.n1 s.n2 := by
    unfold bend; rw [hr]; rfl
  have h1 := refract_snell A (s.geom.normal A).1 (s.geom.normal A).2.1 (s.geom.normal A).2.2 s.n1 s.n2 hn2
  have h2 := refract_coplanar A (s.geom.normal A).1 (s.geom.normal A).2.1 (s.geom.normal A).2.2 s.n1 s.n2
  simp only [← hb] at h1 h2
  simp only [← hoL, ← hoM, ← hoN] at h1 h2
  simp only [← hn, hL, hM, hN] at h1 h2
  exact ⟨h1.1, h1.2.1, h1.2.2, h2⟩

/-- one ray off one mirror: `d' × n = d × n`, `d' · n = −(d · n)`, `d' · (d × n) = 0`. -/
theorem stepRay_reflection (s : RSurf ℝ) (w : ℝ) (q : Ray ℝ) (t : ℝ) (hk : s.kind ≠ .image)
    (hr : s.refl = true) :
    let o := s.cs.localize (stepRay s w q t)
    let n := s.geom.normal o
    (o.M*n.2.2 - o.N*n.2.1 = q.M*n.2.2 - q.N*n.2.1) ∧
    (o.N*n.1 - o.L*n.2.2 = q.N*n.1 - q.L*n.2.2) ∧
    (o.L*n.2.1 - o.M*n.1 = q.L*n.2.1 - q.M*n.1) ∧
    (o.L*n.1 + o.M*n.2.1 + o.N*n.2.2 = -(q.L*n.1 + q.M*n.2.1 + q.N*n.2.2)) ∧
    o.L*(q.M*n.2.2 - q.N*n.2.1) + o.M*(q.N*n.1 - q.L*n.2.2) + o.N*(q.L*n.2.1 - q.M*n.1) = 0 := by
  intro o n
  obtain ⟨A, hL, hM, hN, hn, hoL, hoM, hoN, -⟩ := stepRay_anatomy s w q t hk
  have hb : bend s A = A.reflect (s.geom.normal A).1 (s.geom.normal A).2.1 (s.geom.normal A).2.2 := by
    unfold bend; rw [hr]; rfl
  have h1 := reflect_law A (s.geom.normal A).1 (s.geom.normal A).2.1 (s.geom.normal A).2.2
    (normal_unit s.geom A)
  have h2 := reflect_coplanar A (s.geom.normal A).1 (s.geom.normal A).2.1 (s.geom.normal A).2.2
  simp only [← hb] at h1 h2
  simp only [← hoL, ← hoM, ← hoN] at h1 h2
  simp only [← hn, hL, hM, hN] at h1 h2
  exact ⟨h1.1, h1.2.1, h1.2.2.1, h1.2.2.2, h2⟩

/-- what the optics demands of one surface for one ray: `r` the ray in front of the surface, `r'`
the record, both global; stated in the surface frame with the model's normal at the recorded point -/
def ObeysLaw (s : RSurf ℝ) (r r' : Ray ℝ) : Prop :=
  let d := s.cs.localize r
  let o := s.cs.localize r'
  let n := s.geom.normal o
  (o.L*(d.M*n.2.2 - d.N*n.2.1) + o.M*(d.N*n.1 - d.L*n.2.2) + o.N*(d.L*n.2.1 - d.M*n.1) = 0) ∧
  if s.refl then
    (o.M*n.2.2 - o.N*n.2.1 = d.M*n.2.2 - d.N*n.2.1) ∧ (o.N*n.1 - o.L*n.2.2 = d.N*n.1 - d.L*n.2.2) ∧
    (o.L*n.2.1 - o.M*n.1 = d.L*n.2.1 - d.M*n.1) ∧
    (o.L*n.1 + o.M*n.2.1 + o.N*n.2.2 = -(d.L*n.1 + d.M*n.2.1 + d.N*n.2.2))
  else
    s.n2*(o.M*n.2.2 - o.N*n.2.1) = s.n1*(d.M*n.2.2 - d.N*n.2.1) ∧
    s.n2*(o.N*n.1 - o.L*n.2.2) = s.n1*(d.N*n.1 - d.L*n.2.2) ∧
    s.n2*(o.L*n.2.1 - o.M*n.1) = s.n1*(d.L*n.2.1 - d.M*n.1)

theorem stepRay_obeys (s : RSurf ℝ) (w : ℝ) (r : Ray ℝ) (t : ℝ) (hk : s.kind ≠ .image)
    (hn2 : s.refl = false → s.n2 ≠ 0) : ObeysLaw s r (stepRay s w (s.cs.localize r) t) := by
  unfold ObeysLaw
  by_cases hr : s.refl = true
  · have h := stepRay_reflection s w (s.cs.localize r) t hk hr
    simp only [hr, if_true]
    exact ⟨h.2.2.2.2, h.1, h.2.1, h.2.2.1, h.2.2.2.1⟩
  · have hr' : s.refl = false := by simpa using hr
    have h := stepRay_snell s w (s.cs.localize r) t hk hr' (hn2 hr')
    simp only [hr', Bool.false_eq_true, if_false]
    exact ⟨h.2.2.2, h.1, h.2.1, h.2.2.1⟩

/-- **traceSurf_snell**: at every refracting or reflecting surface — *every* geometry of the model
(plane, standard conic and the Newton–Raphson families: Snell's law does not care how the distance
was found), any coordinate system — position by position in the batch: the recorded direction `d'`
(taken back to the surface frame), the incoming direction `d` and the model's normal `n` at the
recorded point are coplanar, and `n₂ (d' × n) = n₁ (d × n)` (vector form of Snell's law), resp. for
a mirror `d' × n = d × n` and `d'·n = −(d·n)` (law of reflection).  No guard on the rays: the
relation also holds for the junk directions of missed / totally reflected rays over ℝ.
`n` is what `geometry.surface_normal` returns: that this is the true normal of the prescribed shape is
proved for standard conics (`traceSurf_normal_is_true_normal`); for the Chebyshev family it is not
(known finding F21: missing chain-rule factors) — there the law holds for the code's normal. -/
theorem traceSurf_snell (s : RSurf ℝ) (w : ℝ) (rays : List (Ray ℝ)) (hk : s.kind = .standard)
    (hn2 : s.refl = false → s.n2 ≠ 0) :
    List.Forall₂ (ObeysLaw s) rays (traceSurf s w rays) := by
  rw [traceSurf_body s w rays (by rw [hk]; decide)]
  exact forall₂_zip_map (ObeysLaw s) s.cs.localize (fun rt => stepRay s w rt.1 rt.2) rays
    (s.geom.distance (rays.map s.cs.localize)) (by rw [distance_length, List.length_map])
    (fun r t => stepRay_obeys s w r t (by rw [hk]; decide) hn2)

/-! ### 3b. … on the correct side -/

/-- strict form of `Refractable` (needed to tell the two sides apart): not grazing, and at a
refracting surface strictly below the critical angle -/
def StrictlyRefractable (s : RSurf ℝ) (q : Ray ℝ) : Prop :=
  q.L * (s.geom.normal q).1 + q.M * (s.geom.normal q).2.1 + q.N * (s.geom.normal q).2.2 ≠ 0 ∧
  (s.refl = false →
    0 < radicand q (s.geom.normal q).1 (s.geom.normal q).2.1 (s.geom.normal q).2.2 s.n1 s.n2)

/-- the side of the surface the recorded ray continues on: the far side for a refracting surface
(`(d'·n)(d·n) > 0`), the near side for a mirror (`(d'·n)(d·n) < 0`) -/
def CorrectSide (s : RSurf ℝ) (r r' : Ray ℝ) : Prop :=
  let d := s.cs.localize r
  let o := s.cs.localize r'
  let n := s.geom.normal o
  if s.refl then (o.L*n.1 + o.M*n.2.1 + o.N*n.2.2) * (d.L*n.1 + d.M*n.2.1 + d.N*n.2.2) < 0
  else 0 < (o.L*n.1 + o.M*n.2.1 + o.N*n.2.2) * (d.L*n.1 + d.M*n.2.1 + d.N*n.2.2)

theorem stepRay_side (s : RSurf ℝ) (w : ℝ) (r : Ray ℝ) (t : ℝ) (hk : s.kind ≠ .image)
    (hg : StrictlyRefractable s (arriveAt s w (s.cs.localize r) t)) :
    CorrectSide s r (stepRay s w (s.cs.localize r) t) := by
  unfold CorrectSide
  obtain ⟨A, hL, hM, hN, hn, hoL, hoM, hoN, hA⟩ := stepRay_anatomy s w (s.cs.localize r) t hk
  rw [← hA] at hg
  obtain ⟨hd, hrad⟩ := hg
  by_cases hr : s.refl = true
  · have hb : bend s A = A.reflect (s.geom.normal A).1 (s.geom.normal A).2.1 (s.geom.normal A).2.2 := by
      unfold bend; rw [hr]; rfl
    have h1 := (reflect_law A (s.geom.normal A).1 (s.geom.normal A).2.1 (s.geom.normal A).2.2
      (normal_unit s.geom A)).2.2.2
    simp only [← hb] at h1
    simp only [hr, if_true, hn, hoL, hoM, hoN, ← hL, ← hM, ← hN]
    rw [h1]
    have := mul_self_pos.mpr hd
    linarith
  · have hr' : s.refl = false := by simpa using hr
    have hb : bend s A = A.refract (s.geom.normal A).1 (s.geom.normal A).2.1 (s.geom.normal A).2.2 s.n1 s.n2 := by
      unfold bend; rw [hr']; rfl
    have h1 := refract_halfspace A (s.geom.normal A).1 (s.geom.normal A).2.1 (s.geom.normal A).2.2 s.n1 s.n2
      (normal_unit s.geom A) hd (hrad hr')
    simp only [← hb] at h1
    simp only [hr', Bool.false_eq_true, if_false, hn, hoL, hoM, hoN, ← hL, ← hM, ← hN]
    exact h1

/-- **traceSurf_correct_side**: the recorded ray leaves a refracting surface into the half-space the
incident ray was heading for, and a mirror into the half-space it came from. -/
theorem traceSurf_correct_side (s : RSurf ℝ) (w : ℝ) (rays : List (Ray ℝ)) (hk : s.kind = .standard)
    (hgeom : IsStd s.geom) (hg : ∀ r ∈ rays, StrictlyRefractable s (arrive s w r)) :
    List.Forall₂ (CorrectSide s) rays (traceSurf s w rays) := by
  rw [traceSurf_map s w rays (by rw [hk]; decide) hgeom]
  exact forall₂_map_self _ _ rays (fun r hr => stepRay_side s w r _ (by rw [hk]; decide) (hg r hr))

/-! ### 3c. the normal used is the true normal of the prescribed shape at the recorded point -/

/-- on the vertex sheet of the quadric (`R − (1+k)z` has the sign of `R`; this is the sheet the sag
formula describes) the denominator of `conicSlope`, a function of `x, y` only, equals `R − (1+k)z`,
i.e. `−½ ∂Q/∂z` -/
theorem conic_denominator_on_quadric (R k x y z : ℝ) (hR : R ≠ 0) (hQ : Q R k x y z = 0)
    (hsheet : 0 < (R - (1 + k)*z)/R) :
    R * Real.sqrt (1 - (1 + k)*(x*x + y*y)/(R*R)) = R - (1 + k)*z := by
  unfold Q at hQ
  have e : 1 - (1 + k)*(x*x + y*y)/(R*R) = ((R - (1 + k)*z)/R)^2 := by
    field_simp
    linear_combination (-(1 + k)) * hQ
  rw [e, Real.sqrt_sq hsheet.le]
  field_simp

/-- **stdNormal_is_true_normal**: at a point of the quadric on its vertex sheet the vector returned
by `StandardGeometry.surface_normal` is parallel to the gradient `(x, y, (1+k)z − R) = ½∇Q` of the
implicit equation (`n × ∇Q = 0`; it is a unit vector by `stdNormal_unit`). -/
theorem stdNormal_is_true_normal (R k x y z : ℝ) (hR : R ≠ 0) (hQ : Q R k x y z = 0)
    (hsheet : 0 < (R - (1 + k)*z)/R) :
    let n := stdNormal R k x y
    n.2.1 * ((1 + k)*z - R) - n.2.2 * y = 0 ∧ n.2.2 * x - n.1 * ((1 + k)*z - R) = 0 ∧
    n.1 * y - n.2.1 * x = 0 := by
  intro n
  have hden := conic_denominator_on_quadric R k x y z hR hQ hsheet
  have hne : R - (1 + k)*z ≠ 0 := by
    intro h; rw [h, zero_div] at hsheet; exact lt_irrefl _ hsheet
  simp only [n, stdNormal, conicSlope]
  num_real
  rw [hden]
  set D := R - (1 + k)*z with hD
  have hpos : 0 < x / D * (x / D) + y / D * (y / D) + -1 * -1 := by
    nlinarith [mul_self_nonneg (x / D), mul_self_nonneg (y / D)]
  have hm : Real.sqrt (x / D * (x / D) + y / D * (y / D) + -1 * -1) ≠ 0 :=
    ne_of_gt (Real.sqrt_pos.mpr hpos)
  set m := Real.sqrt (x / D * (x / D) + y / D * (y / D) + -1 * -1)
  have hz : (1 + k)*z - R = -D := by rw [hD]; ring
  rw [hz]
  refine ⟨?_, ?_, ?_⟩ <;> field_simp <;> ring

/-- **traceSurf_normal_is_true_normal**: at every recorded point of a standard-conic surface that
lies on the vertex sheet, the normal with respect to which `traceSurf_snell` holds is the true
normal of the prescribed shape (parallel to the gradient of its implicit equation).

On the other sheet (`z` beyond the equator of an ellipsoid/sphere — only reachable when it carries
the only admissible root) the code still evaluates the sag-sheet formula from `x, y` alone, and the
transverse components of its normal have the wrong sign. -/
theorem traceSurf_normal_is_true_normal (s : RSurf ℝ) (w : ℝ) (rays : List (Ray ℝ)) (R k : ℝ)
    (hk : s.kind ≠ .object) (hgeom : s.geom = .standard R k) (hR : R ≠ 0)
    (hg : ∀ r ∈ rays, HitGuard s.geom (s.cs.localize r)) :
    ∀ r' ∈ traceSurf s w rays,
      0 < (R - (1 + k) * (s.cs.localize r').z) / R →
      let p := s.cs.localize r'
      let n := s.geom.normal p
      n.2.1 * ((1 + k)*p.z - R) - n.2.2 * p.y = 0 ∧ n.2.2 * p.x - n.1 * ((1 + k)*p.z - R) = 0 ∧
      n.1 * p.y - n.2.1 * p.x = 0 := by
  intro r' hr' hsheet p n
  have hon := traceSurf_point_on_surface s w rays hk (by rw [hgeom]; trivial) hg r' hr'
  rw [hgeom] at hon
  have hQ : Q R k p.x p.y p.z = 0 := by rw [Q_eq]; exact hon
  have := stdNormal_is_true_normal R k p.x p.y p.z hR hQ hsheet
  simp only [n, hgeom]
  exact this

/-! ### 4. optical path, and all of it along the whole lens -/

/-- optical path that surface `s` adds to the ray `r` (global, in front of the surface):
`|t · n₁|` with `t` the distance `geometry.distance` returns; nothing at the object surface -/
noncomputable def pathStep (s : RSurf ℝ) (r : Ray ℝ) : ℝ :=
  match s.kind with
  | .object => 0
  | _ => |dist1 s.geom (s.cs.localize r) * s.n1|

theorem traceRay_opd (s : RSurf ℝ) (w : ℝ) (r : Ray ℝ) :
    (traceRay s w r).opd = r.opd + |dist1 s.geom (s.cs.localize r) * s.n1| := by
  have := traceSurf_opd s w (s.cs.localize r) (dist1 s.geom (s.cs.localize r))
  rw [localize_opd] at this
  exact this

/-- **traceSurf_opd_batch**: position by position, recorded path = incoming path + `|t·n₁|` -/
theorem traceSurf_opd_batch (s : RSurf ℝ) (w : ℝ) (rays : List (Ray ℝ)) (hgeom : IsStd s.geom) :
    List.Forall₂ (fun r r' => r'.opd = r.opd + pathStep s r) rays (traceSurf s w rays) := by
  by_cases hk : s.kind = .object
  · rw [traceSurf_object s w rays hk]
    refine forall₂_self _ rays (fun r _ => ?_)
    simp [pathStep, hk]
  · rw [traceSurf_map s w rays hk hgeom]
    refine forall₂_map_self _ _ rays (fun r _ => ?_)
    rw [traceRay_opd]
    unfold pathStep
    cases h : s.kind with
    | object => exact absurd h hk
    | standard => rfl
    | image => rfl

/-- the guards of one surface for the batch it receives: nothing at the object surface (the
batch passes unchanged); otherwise a plane or a standard conic, every ray meets the intersection
guards and the incidence guards, and a refracting surface has `n₂ ≠ 0` -/
def SurfGuard (s : RSurf ℝ) (w : ℝ) (rays : List (Ray ℝ)) : Prop :=
  s.kind = .object ∨
    (IsStd s.geom ∧ (s.refl = false → s.n2 ≠ 0) ∧
      ∀ r ∈ rays, HitGuard s.geom (s.cs.localize r) ∧ Refractable s (arrive s w r))

/-- every surface of the lens satisfies its guards *at the batch it receives* (the running batch is
the record of the previous surface, as in `traceLens`) -/
def Chain (w : ℝ) : List (RSurf ℝ) → List (Ray ℝ) → Prop
  | [], _ => True
  | s :: ss, rays => SurfGuard s w rays ∧ Chain w ss (traceSurf s w rays)

/-- what C02 demands of one record `cur` of surface `s`, given the batch `prev` in front of it -/
def RecordOK (s : RSurf ℝ) (prev cur : List (Ray ℝ)) : Prop :=
  (∀ r' ∈ cur, dir2 r' = 1) ∧
  (s.kind ≠ .object → ∀ r' ∈ cur, OnSurface s.geom (s.cs.localize r')) ∧
  (s.kind = .standard → List.Forall₂ (ObeysLaw s) prev cur) ∧
  List.Forall₂ (fun r r' => r'.opd = r.opd + pathStep s r) prev cur

/-- `RecordOK` for every surface and its record, each against the record before it (the launch
batch for the first); also says that there are as many records as surfaces -/
def Invariants : List (RSurf ℝ) → List (Ray ℝ) → List (List (Ray ℝ)) → Prop
  | [], _, [] => True
  | s :: ss, prev, cur :: rest => RecordOK s prev cur ∧ Invariants ss cur rest
  | _, _, _ => False

/-- **traceSurf_invariants**: one surface, all four facts at once -/
theorem traceSurf_invariants (s : RSurf ℝ) (w : ℝ) (rays : List (Ray ℝ)) (hg : SurfGuard s w rays)
    (hu : ∀ r ∈ rays, dir2 r = 1) : RecordOK s rays (traceSurf s w rays) := by
  rcases hg with hk | ⟨hgeom, hn2, hg⟩
  · rw [traceSurf_object s w rays hk]
    refine ⟨hu, fun h => absurd hk h, fun h => ?_, ?_⟩
    · rw [hk] at h; exact absurd h (by decide)
    · refine forall₂_self _ rays (fun r _ => ?_)
      simp [pathStep, hk]
  · by_cases hk : s.kind = .object
    · rw [traceSurf_object s w rays hk]
      refine ⟨hu, fun h => absurd hk h, fun h => ?_, ?_⟩
      · rw [hk] at h; exact absurd h (by decide)
      · refine forall₂_self _ rays (fun r _ => ?_)
        simp [pathStep, hk]
    · exact ⟨traceSurf_direction_unit s w rays hk hgeom hu (fun r hr => (hg r hr).2),
        fun _ => traceSurf_point_on_surface s w rays hk hgeom (fun r hr => (hg r hr).1),
        fun h => traceSurf_snell s w rays h hn2,
        traceSurf_opd_batch s w rays hgeom⟩

/-- **traceLens_invariants**: for every lens and every batch of unit-direction rays such that each
surface meets its guards at the batch it receives, *every* record of `traceLens` has unit
directions, lies on its surface (implicit equation in the surface frame), obeys Snell's law / the
law of reflection with the model's normal at the recorded point, in the plane of incidence, and its
optical path is that of the record before plus `|n₁ · t|`. -/
theorem traceLens_invariants (w : ℝ) : ∀ (ss : List (RSurf ℝ)) (rays : List (Ray ℝ)),
    Chain w ss rays → (∀ r ∈ rays, dir2 r = 1) → Invariants ss rays (traceLens w ss rays)
  | [], _, _, _ => trivial
  | s :: ss, rays, hc, hu => by
    have h1 := traceSurf_invariants s w rays hc.1 hu
    exact ⟨h1, traceLens_invariants w ss _ hc.2 h1.1⟩

/-- corollary in the form of `AllUnit`: every ray of every record has a unit direction -/
theorem traceLens_all_unit (w : ℝ) : ∀ (ss : List (RSurf ℝ)) (rays : List (Ray ℝ)),
    Chain w ss rays → (∀ r ∈ rays, dir2 r = 1) → AllUnit (traceLens w ss rays)
  | [], _, _, _ => by simp [AllUnit, traceLens]
  | s :: ss, rays, hc, hu => by
    have h1 := traceSurf_invariants s w rays hc.1 hu
    have ih := traceLens_all_unit w ss _ hc.2 h1.1
    intro rs hrs
    simp only [traceLens, List.mem_cons] at hrs
    rcases hrs with e | e
    · rw [e]; exact h1.1
    · exact ih rs e

/-- corollary, indexed: the `i`-th record lies on the `i`-th surface -/
theorem traceLens_on_surface (w : ℝ) : ∀ (ss : List (RSurf ℝ)) (rays : List (Ray ℝ)),
    Chain w ss rays → (∀ r ∈ rays, dir2 r = 1) →
    ∀ (i : Nat) (s : RSurf ℝ) (recs : List (Ray ℝ)), ss[i]? = some s → (traceLens w ss rays)[i]? = some recs →
      s.kind ≠ .object → ∀ r' ∈ recs, OnSurface s.geom (s.cs.localize r')
  | [], _, _, _, i, s, recs, hs, _ => by simp at hs
  | s0 :: ss, rays, hc, hu, 0, s, recs, hs, hr => by
    have h1 := traceSurf_invariants s0 w rays hc.1 hu
    simp only [List.getElem?_cons_zero, Option.some.injEq] at hs
    simp only [traceLens, List.getElem?_cons_zero, Option.some.injEq] at hr
    rw [← hs, ← hr]; exact h1.2.1
  | s0 :: ss, rays, hc, hu, i+1, s, recs, hs, hr => by
    have h1 := traceSurf_invariants s0 w rays hc.1 hu
    simp only [List.getElem?_cons_succ] at hs
    simp only [traceLens, List.getElem?_cons_succ] at hr
    exact traceLens_on_surface w ss _ hc.2 h1.1 i s recs hs hr

/-! ### 4b. the distance `t` *is* the geometric path between consecutive records -/

/-- squared Euclidean distance between the positions of two rays -/
def pdist2 (a b : Ray ℝ) : ℝ := (a.x - b.x)^2 + (a.y - b.y)^2 + (a.z - b.z)^2

theorem rotateX_pdist2 (a b : Ray ℝ) (t : ℝ) : pdist2 (a.rotateX t) (b.rotateX t) = pdist2 a b := by
  unfold pdist2 Ray.rotateX; num_real
  linear_combination ((a.y - b.y)^2 + (a.z - b.z)^2) * Real.sin_sq_add_cos_sq t
theorem rotateY_pdist2 (a b : Ray ℝ) (t : ℝ) : pdist2 (a.rotateY t) (b.rotateY t) = pdist2 a b := by
  unfold pdist2 Ray.rotateY; num_real
  linear_combination ((a.x - b.x)^2 + (a.z - b.z)^2) * Real.sin_sq_add_cos_sq t
theorem rotateZ_pdist2 (a b : Ray ℝ) (t : ℝ) : pdist2 (a.rotateZ t) (b.rotateZ t) = pdist2 a b := by
  unfold pdist2 Ray.rotateZ; num_real
  linear_combination ((a.x - b.x)^2 + (a.y - b.y)^2) * Real.sin_sq_add_cos_sq t
theorem translate_pdist2 (a b : Ray ℝ) (x y z : ℝ) :
    pdist2 (a.translate x y z) (b.translate x y z) = pdist2 a b := by
  unfold pdist2 Ray.translate; num_real; ring

/-- frame changes are isometries of the positions too -/
theorem localize_pdist2 (c : Cs ℝ) (a b : Ray ℝ) : pdist2 (c.localize a) (c.localize b) = pdist2 a b := by
  unfold Cs.localize
  by_cases hx : truthy c.rx = true <;> by_cases hy : truthy c.ry = true <;>
    by_cases hz : truthy c.rz = true <;>
    simp [hx, hy, hz, rotateX_pdist2, rotateY_pdist2, rotateZ_pdist2, translate_pdist2]

/-- one ray, one surface, any geometry and distance: the recorded point is `|t|` away from the
point the ray came from (global coordinates), for a unit direction -/
theorem stepRay_geometric_path (s : RSurf ℝ) (w : ℝ) (r : Ray ℝ) (t : ℝ) (hu : dir2 r = 1) :
    pdist2 r (stepRay s w (s.cs.localize r) t) = t^2 := by
  rw [← localize_pdist2 s.cs]
  have hp := stepRay_pos s w (s.cs.localize r) t
  have hq : dir2 (s.cs.localize r) = 1 := by rw [localize_unit]; exact hu
  unfold pdist2
  rw [hp.1, hp.2.1, hp.2.2]
  unfold dir2 at hq
  linear_combination t^2 * hq

/-- **traceSurf_opd_is_index_times_path**: position by position, the *square* of the optical path
added by the surface is `n₁²` times the squared Euclidean distance between the incoming ray's point
and the recorded point — the model's `|t·n₁|` is index × geometric path (in absolute value). -/
theorem traceSurf_opd_is_index_times_path (s : RSurf ℝ) (w : ℝ) (rays : List (Ray ℝ))
    (hk : s.kind ≠ .object) (hgeom : IsStd s.geom) (hu : ∀ r ∈ rays, dir2 r = 1) :
    List.Forall₂ (fun r r' => (r'.opd - r.opd)^2 = s.n1^2 * pdist2 r r') rays (traceSurf s w rays) := by
  rw [traceSurf_map s w rays hk hgeom]
  refine forall₂_map_self _ _ rays (fun r hr => ?_)
  have h1 := traceRay_opd s w r
  have h2 : pdist2 r (traceRay s w r) = (dist1 s.geom (s.cs.localize r))^2 :=
    stepRay_geometric_path s w r _ (hu r hr)
  rw [h2, h1, add_sub_cancel_left, sq_abs]
  ring

/-! ### 5. what is *not* stated here

"Rays that miss the surface or undergo total internal reflection become non-finite and never become
finite again" is a statement about NaN/inf propagation in IEEE arithmetic (`sqrt` of a negative
radicand, `t[t<0] = inf`, `nan` from `Plane.distance`).  The carrier ℝ has no non-finite values
(`Real.sqrt` of a negative number is 0, `Num.inf` is the junk value 0), so the statement cannot even
be formulated over ℝ; it is covered by the Float model in the correspondence/property runs of the
harness, not by a theorem.  All theorems above therefore carry the guards (`HitGuard`,
`Refractable`) that keep every intermediate value finite. -/

/-! ### non-vacuity of the whole-surface / whole-lens theorems

A concrete lens: object surface, a decentred spherical surface `R = 5` (vertex at `(0,1,10)`) from
water (`n = 4/3`) into air, image plane at `z = 35`; one ray parallel to the axis at height 4.  In the
frame of the sphere it starts at `(0,3,−1)`, meets the sphere at `t = 2` in `(0,3,1)` (the other root
is `t = 10`), the normal there is `(0, 3/5, −4/5)`, `sin θ = 3/5`, `sin θ' = 4/5`, the refracted
direction is `(0, 7/25, 24/25)` and the image plane is met after `t = 25`. -/

noncomputable def exObj : RSurf ℝ := ⟨.object, ⟨0, 0, 0, 0, 0, 0⟩, .plane, 1, 4/3, 0, false, none, none⟩
noncomputable def exSurf : RSurf ℝ :=
  ⟨.standard, ⟨0, 1, 10, 0, 0, 0⟩, .standard 5 0, 4/3, 1, 0, false, none, none⟩
noncomputable def exImg : RSurf ℝ := ⟨.image, ⟨0, 0, 35, 0, 0, 0⟩, .plane, 1, 1, 0, false, none, none⟩
noncomputable def exRay : Ray ℝ := ⟨0, 4, 9, 0, 0, 1, 1, 0⟩
noncomputable def exLocal : Ray ℝ := ⟨0, 3, -1, 0, 0, 1, 1, 0⟩

theorem ex_localize : exSurf.cs.localize exRay = exLocal := by
  simp only [exSurf, exRay, exLocal, Cs.localize, truthy, Ray.translate]
  num_real
  have h0 : Num.isZero (0:ℝ) = true := by rw [NumReal.isZero_eq]
  norm_num [h0]

theorem ex_sqrt64 : Real.sqrt 64 = 8 := by
  rw [show (64:ℝ) = 8^2 by norm_num]; exact Real.sqrt_sq (by norm_num)
theorem ex_sqrt_16_25 : Real.sqrt (16/25) = 4/5 := by
  rw [show (16/25:ℝ) = (4/5)^2 by norm_num]; exact Real.sqrt_sq (by norm_num)
theorem ex_sqrt_25_16 : Real.sqrt (25/16) = 5/4 := by
  rw [show (25/16:ℝ) = (5/4)^2 by norm_num]; exact Real.sqrt_sq (by norm_num)
theorem ex_sqrt_9_25 : Real.sqrt (9/25) = 3/5 := by
  rw [show (9/25:ℝ) = (3/5)^2 by norm_num]; exact Real.sqrt_sq (by norm_num)

theorem ex_abc : conicABC 5 0 exLocal = (1, -12, 20) := by
  rw [conicABC_eq]; simp only [exLocal]; norm_num

theorem ex_disc : disc 5 0 exLocal = 64 := by
  unfold disc; rw [ex_abc]; norm_num

theorem ex_dist : stdDistance 5 0 exLocal = 2 := by
  simp only [stdDistance, selectRoot, maskNeg, ex_abc]
  num_real
  simp only [exLocal]
  norm_num [ex_sqrt64]

theorem ex_hit : HitGuard exSurf.geom (exSurf.cs.localize exRay) := by
  rw [ex_localize]
  show QuadBranch 5 0 exLocal ∨ _
  left
  unfold QuadBranch
  rw [ex_disc, ex_abc, ex_sqrt64]
  norm_num

theorem ex_normal : stdNormal (5:ℝ) 0 0 3 = (0, 3/5, -(4/5)) := by
  simp only [stdNormal, conicSlope]
  num_real
  have e1 : (1:ℝ) - (1 + 0) * (0 * 0 + 3 * 3) / (5 * 5) = 16/25 := by norm_num
  rw [e1, ex_sqrt_16_25]
  have e2 : (0:ℝ) / (5 * (4 / 5)) * (0 / (5 * (4 / 5))) + 3 / (5 * (4 / 5)) * (3 / (5 * (4 / 5))) + -1 * -1
      = 25/16 := by norm_num
  rw [e2, ex_sqrt_25_16]
  norm_num

/-- the ray on arrival at the sphere, in its frame: at `(0,3,1)`, still along `z`, path `2·4/3` -/
theorem ex_arrive (w : ℝ) : (arrive exSurf w exRay).x = 0 ∧ (arrive exSurf w exRay).y = 3 ∧
    (arrive exSurf w exRay).z = 1 ∧ (arrive exSurf w exRay).L = 0 ∧ (arrive exSurf w exRay).M = 0 ∧
    (arrive exSurf w exRay).N = 1 ∧ (arrive exSurf w exRay).opd = 8/3 := by
  unfold arrive
  rw [arriveAt_x, arriveAt_y, arriveAt_z, arriveAt_L, arriveAt_M, arriveAt_N, arriveAt_opd, ex_localize]
  have hd : dist1 exSurf.geom exLocal = 2 := ex_dist
  rw [hd]
  simp only [exLocal, exSurf]
  norm_num

theorem ex_arrive_normal (w : ℝ) : exSurf.geom.normal (arrive exSurf w exRay) = (0, 3/5, -(4/5)) := by
  have h := ex_arrive w
  show stdNormal 5 0 (arrive exSurf w exRay).x (arrive exSurf w exRay).y = _
  rw [h.1, h.2.1, ex_normal]

theorem ex_refractable (w : ℝ) : Refractable exSurf (arrive exSurf w exRay) := by
  right; right
  have h := ex_arrive w
  rw [ex_arrive_normal]
  unfold radicand
  rw [h.2.2.2.1, h.2.2.2.2.1, h.2.2.2.2.2.1]
  simp only [exSurf]
  norm_num

theorem ex_strictly_refractable (w : ℝ) : StrictlyRefractable exSurf (arrive exSurf w exRay) := by
  have h := ex_arrive w
  unfold StrictlyRefractable
  rw [ex_arrive_normal]
  unfold radicand
  rw [h.2.2.2.1, h.2.2.2.2.1, h.2.2.2.2.2.1]
  simp only [exSurf]
  norm_num


theorem ex_globalize (q : Ray ℝ) : exSurf.cs.globalize q = q.translate 0 1 10 := by
  have h0 : Num.isZero (0:ℝ) = true := by rw [NumReal.isZero_eq]
  simp [exSurf, Cs.globalize, truthy, h0]

/-- the record behind the sphere (global): at `(0,4,11)`, direction `(0, 7/25, 24/25)` -/
theorem ex_record (w : ℝ) : (traceRay exSurf w exRay).x = 0 ∧ (traceRay exSurf w exRay).y = 4 ∧
    (traceRay exSurf w exRay).z = 11 ∧ (traceRay exSurf w exRay).L = 0 ∧
    (traceRay exSurf w exRay).M = 7/25 ∧ (traceRay exSurf w exRay).N = 24/25 := by
  have h := ex_arrive w
  have hn := ex_arrive_normal w
  have hk : exSurf.kind ≠ .image := by simp [exSurf]
  have hb : bend exSurf (arrive exSurf w exRay) =
      (arrive exSurf w exRay).refract 0 (3/5) (-(4/5)) (4/3) 1 := by
    unfold bend; rw [hn]; simp [exSurf]
  unfold traceRay
  rw [ex_globalize]
  simp only [Ray.translate]
  num_real
  rw [interact_x, interact_y, interact_z, interact_L _ _ hk, interact_M _ _ hk, interact_N _ _ hk, hb,
    h.1, h.2.1, h.2.2.1]
  simp only [Ray.refract, alignNormal, Num.sign]
  num_real
  rw [h.2.2.2.1, h.2.2.2.2.1, h.2.2.2.2.2.1]
  have e : (1:ℝ) - 4 / 3 / 1 * (4 / 3 / 1) * (1 - |0 * 0 + 0 * (3 / 5) + 1 * -(4 / 5)| * |0 * 0 + 0 * (3 / 5) + 1 * -(4 / 5)|) = 9/25 := by
    norm_num [abs_of_neg]
  rw [e, ex_sqrt_9_25]
  norm_num [abs_of_neg]


theorem ex_isStd : IsStd exSurf.geom := by simp [exSurf, IsStd]
theorem ex_kind : exSurf.kind = .standard := rfl

theorem ex_traceSurf (w : ℝ) : traceSurf exSurf w [exRay] = [traceRay exSurf w exRay] := by
  rw [traceSurf_map exSurf w _ (by rw [ex_kind]; decide) ex_isStd]; rfl

/-- the record behind the sphere in the frame of the image plane: 24 in front of it, heading for it -/
theorem ex_img_local (w : ℝ) : (exImg.cs.localize (traceRay exSurf w exRay)).z = -24 ∧
    (exImg.cs.localize (traceRay exSurf w exRay)).N = 24/25 := by
  have h0 : Num.isZero (0:ℝ) = true := by rw [NumReal.isZero_eq]
  have h := ex_record w
  simp only [exImg, Cs.localize, truthy, h0, Ray.translate]
  num_real
  simp only [Bool.not_true, Bool.false_eq_true, if_false]
  rw [h.2.2.1, h.2.2.2.2.2]
  norm_num

theorem ex_chain (w : ℝ) : Chain w [exObj, exSurf, exImg] [exRay] := by
  have hobj : traceSurf exObj w [exRay] = [exRay] := traceSurf_object _ _ _ rfl
  refine ⟨Or.inl rfl, ?_, ?_, trivial⟩
  · rw [hobj]
    refine Or.inr ⟨ex_isStd, fun _ => by simp [exSurf], ?_⟩
    intro r hr
    rw [List.mem_singleton.mp hr]
    exact ⟨ex_hit, ex_refractable w⟩
  · rw [hobj, ex_traceSurf]
    refine Or.inr ⟨by simp [exImg, IsStd], fun _ => by simp [exImg], ?_⟩
    intro r hr
    rw [List.mem_singleton.mp hr]
    have h := ex_img_local w
    refine ⟨?_, Or.inl rfl⟩
    show (exImg.cs.localize (traceRay exSurf w exRay)).N ≠ 0 ∧
      0 ≤ -(exImg.cs.localize (traceRay exSurf w exRay)).z / (exImg.cs.localize (traceRay exSurf w exRay)).N
    rw [h.1, h.2]
    norm_num

theorem ex_unit : ∀ r ∈ [exRay], dir2 r = 1 := by
  intro r hr
  rw [List.mem_singleton.mp hr]
  simp [dir2, exRay]

/-- `traceSurf_point_on_surface` applies: the recorded point of the example is on the sphere -/
example (w : ℝ) : ∀ r' ∈ traceSurf exSurf w [exRay], OnSurface exSurf.geom (exSurf.cs.localize r') :=
  traceSurf_point_on_surface exSurf w [exRay] (by rw [ex_kind]; decide) ex_isStd
    (fun r hr => by rw [List.mem_singleton.mp hr]; exact ex_hit)

/-- … and the batch is not empty, the local point is `(0,3,1)`: `1·1² − 2·5·1 + 0² + 3² = 0` -/
theorem ex_local_z (w : ℝ) : (exSurf.cs.localize (traceRay exSurf w exRay)).z = 1 := by
  have := (stepRay_pos exSurf w (exSurf.cs.localize exRay) (dist1 exSurf.geom (exSurf.cs.localize exRay))).2.2
  rw [ex_localize] at this
  have hd : dist1 exSurf.geom exLocal = 2 := ex_dist
  rw [hd] at this
  rw [show traceRay exSurf w exRay = stepRay exSurf w (exSurf.cs.localize exRay)
    (dist1 exSurf.geom (exSurf.cs.localize exRay)) from rfl, ex_localize, hd, this]
  simp [exLocal]; norm_num

/-- `traceSurf_normal_is_true_normal` applies, and its sheet condition holds at the recorded point -/
example (w : ℝ) : ∀ r' ∈ traceSurf exSurf w [exRay],
    0 < (5 - (1 + 0) * (exSurf.cs.localize r').z) / 5 →
    let p := exSurf.cs.localize r'
    let n := exSurf.geom.normal p
    n.2.1 * ((1 + 0)*p.z - 5) - n.2.2 * p.y = 0 ∧ n.2.2 * p.x - n.1 * ((1 + 0)*p.z - 5) = 0 ∧
    n.1 * p.y - n.2.1 * p.x = 0 :=
  traceSurf_normal_is_true_normal exSurf w [exRay] 5 0 (by rw [ex_kind]; decide) rfl (by norm_num)
    (fun r hr => by rw [List.mem_singleton.mp hr]; exact ex_hit)

example (w : ℝ) : 0 < (5 - (1 + 0) * (exSurf.cs.localize (traceRay exSurf w exRay)).z) / 5 := by
  rw [ex_local_z]; norm_num

/-- `traceSurf_direction_unit` applies (and indeed `0² + (7/25)² + (24/25)² = 1`) -/
example (w : ℝ) : ∀ r' ∈ traceSurf exSurf w [exRay], dir2 r' = 1 :=
  traceSurf_direction_unit exSurf w [exRay] (by rw [ex_kind]; decide) ex_isStd ex_unit
    (fun r hr => by rw [List.mem_singleton.mp hr]; exact ex_refractable w)

/-- `traceSurf_direction_unit_any_geometry` / `traceSurf_mirror_direction_unit` apply: an aspheric
mirror (Newton–Raphson geometry), two rays -/
example (w : ℝ) : ∀ r' ∈ traceSurf
    (⟨.standard, ⟨0, 0, 10, 1/10, 0, 0⟩, .evenAsphere (-20) (-1) (1/1000000) 10 [1/1000], 1, 1, 0, true,
      none, none⟩ : RSurf ℝ) w [exRay, ⟨0, 0, 0, 3/5, 0, 4/5, 1, 0⟩], dir2 r' = 1 :=
  traceSurf_mirror_direction_unit _ w _ (by decide) rfl (by
    intro r hr
    simp only [List.mem_cons, List.not_mem_nil, or_false] at hr
    rcases hr with e | e <;> rw [e] <;> norm_num [dir2, exRay])

/-- `traceSurf_snell` applies -/
example (w : ℝ) : List.Forall₂ (ObeysLaw exSurf) [exRay] (traceSurf exSurf w [exRay]) :=
  traceSurf_snell exSurf w [exRay] ex_kind (fun _ => by simp [exSurf])

/-- `traceSurf_correct_side` applies -/
example (w : ℝ) : List.Forall₂ (CorrectSide exSurf) [exRay] (traceSurf exSurf w [exRay]) :=
  traceSurf_correct_side exSurf w [exRay] ex_kind ex_isStd
    (fun r hr => by rw [List.mem_singleton.mp hr]; exact ex_strictly_refractable w)

/-- `traceSurf_opd_is_index_times_path` applies -/
example (w : ℝ) : List.Forall₂ (fun r r' => (r'.opd - r.opd)^2 = exSurf.n1^2 * pdist2 r r')
    [exRay] (traceSurf exSurf w [exRay]) :=
  traceSurf_opd_is_index_times_path exSurf w [exRay] (by rw [ex_kind]; decide) ex_isStd ex_unit

/-- `traceLens_invariants` applies to the three-surface lens -/
example (w : ℝ) : Invariants [exObj, exSurf, exImg] [exRay] (traceLens w [exObj, exSurf, exImg] [exRay]) :=
  traceLens_invariants w _ _ (ex_chain w) ex_unit

example (w : ℝ) : AllUnit (traceLens w [exObj, exSurf, exImg] [exRay]) :=
  traceLens_all_unit w _ _ (ex_chain w) ex_unit

/-- the mirror branch of the guards is satisfiable as well (no incidence condition at all) -/
example (q : Ray ℝ) : Refractable { exSurf with refl := true } q := Or.inr (Or.inl rfl)

/-- the one-root guard (concave surface `R = −5`; the ray starts inside the sphere at `z = −2`,
roots `t = 1` and `t = −7`) -/
example : HitGuard (.standard (-5) 0) (⟨0, 3, -2, 0, 0, 1, 1, 0⟩ : Ray ℝ) := by
  have habc : conicABC (-5) 0 (⟨0, 3, -2, 0, 0, 1, 1, 0⟩ : Ray ℝ) = (1, 6, -7) := by
    rw [conicABC_eq]; norm_num
  have hd : disc (-5) 0 (⟨0, 3, -2, 0, 0, 1, 1, 0⟩ : Ray ℝ) = 64 := by
    unfold disc; rw [habc]; norm_num
  show _ ∨ _ ∨ OneRoot (-5) 0 _
  right; right
  unfold OneRoot
  rw [hd, habc, ex_sqrt64]
  norm_num [abs_of_neg]

/-- the linear branch (paraboloid `k = −1`, axis-parallel ray) and the plane guard -/
example : HitGuard (.standard 5 (-1)) (⟨0, 3, -2, 0, 0, 1, 1, 0⟩ : Ray ℝ) := by
  have habc : conicABC 5 (-1) (⟨0, 3, -2, 0, 0, 1, 1, 0⟩ : Ray ℝ) = (0, -10, 29) := by
    rw [conicABC_eq]; norm_num
  show _ ∨ LinBranch 5 (-1) _ ∨ _
  right; left
  unfold LinBranch
  rw [habc]
  norm_num

example : HitGuard .plane (⟨0, 3, -2, 0, 3/5, 4/5, 1, 0⟩ : Ray ℝ) := by
  show (4/5:ℝ) ≠ 0 ∧ (0:ℝ) ≤ -(-2) / (4/5)
  norm_num

end C02
