import OptiModel.Model.RayGen
import OptiModel.Proofs.NumReal
import OptiModel.Proofs.Launch
import OptiModel.Proofs.LaunchEx
import Mathlib.Tactic.NormNum
import Mathlib.Tactic.FieldSimp
import Mathlib.Tactic.Ring
import Mathlib.Tactic.LinearCombination
import Mathlib.Tactic.Positivity
import Mathlib.Tactic.Linarith
/-!
# C03  Rays start at the requested field point and aim at the requested pupil point
Theorems over ℝ about `Model/RayGen.lean`.
-/
namespace C03
open Model

/-! ### the launch: origin + mag · direction = aim point, unit direction -/

/-- **ray_hits_aim_point** (algebraic core of `generate_rays`): whatever origin `(x0,y0,z0)` and aim
point `(x1,y1,z1)` were computed, the direction is a unit vector and the ray passes through the
aim point at parameter `mag`, provided the two points differ. -/
theorem launch_hits_aim (x0 y0 z0 x1 y1 z1 : ℝ)
    (hne : (x1 - x0)*(x1 - x0) + (y1 - y0)*(y1 - y0) + (z1 - z0)*(z1 - z0) ≠ 0) :
    let mag := Real.sqrt ((x1 - x0)*(x1 - x0) + (y1 - y0)*(y1 - y0) + (z1 - z0)*(z1 - z0))
    let L := (x1 - x0)/mag
    let M := (y1 - y0)/mag
    let N := (z1 - z0)/mag
    L^2 + M^2 + N^2 = 1 ∧ x0 + mag*L = x1 ∧ y0 + mag*M = y1 ∧ z0 + mag*N = z1 := by
  intro mag L M N
  have hpos : 0 < (x1 - x0)*(x1 - x0) + (y1 - y0)*(y1 - y0) + (z1 - z0)*(z1 - z0) := by
    rcases lt_or_gt_of_ne hne with h | h
    · nlinarith [mul_self_nonneg (x1 - x0), mul_self_nonneg (y1 - y0), mul_self_nonneg (z1 - z0)]
    · exact h
  have hm : 0 < mag := Real.sqrt_pos.mpr hpos
  have hmm : mag^2 = (x1 - x0)*(x1 - x0) + (y1 - y0)*(y1 - y0) + (z1 - z0)*(z1 - z0) :=
    Real.sq_sqrt hpos.le
  have hne' : mag ≠ 0 := ne_of_gt hm
  simp only [L, M, N]
  refine ⟨?_, ?_, ?_, ?_⟩
  · field_simp; linear_combination -hmm
  · field_simp; ring
  · field_simp; ring
  · field_simp; ring

/-- the model's `generateRay`, when it succeeds in the non-telecentric branch, returns exactly this
launch towards `(Px·EPD·vx/2, Py·EPD·vy/2, EPL)` with intensity 1 and path 0 -/
theorem generateRay_start_values (S : RGSys ℝ) (Hx Hy Px Py : ℝ) (r : Ray ℝ)
    (h : generateRay S Hx Hy Px Py = .ok r) : r.i = 1 ∧ r.opd = 0 := by
  unfold generateRay at h
  split at h
  · exact absurd h (by simp)
  · simp only at h
    split at h
    · exact absurd h (by simp)
    · split at h
      · exact absurd h (by simp)
      · injection h with h
        rw [← h]
        exact ⟨rfl, rfl⟩

/-! ### rejected combinations -/

/-- **rejected_combinations**: the four unrepresentable combinations are errors, for every lens
and every requested ray -/
theorem rejected_infinite_height (S : RGSys ℝ) (Hx Hy Px Py vx vy : ℝ)
    (hinf : S.psys.objInf = true) (hf : S.psys.fieldType = .objectHeight) :
    rayOrigin S Hx Hy Px Py vx vy = .error .valueError := by
  unfold rayOrigin; simp [hinf, hf]

theorem rejected_infinite_telecentric (S : RGSys ℝ) (Hx Hy Px Py vx vy : ℝ)
    (hinf : S.psys.objInf = true) (ht : S.telecentric = true) :
    ∃ e, rayOrigin S Hx Hy Px Py vx vy = .error e := by
  unfold rayOrigin
  cases hf : S.psys.fieldType <;> simp [hinf, hf, ht]

theorem rejected_generate (S : RGSys ℝ) (Hx Hy Px Py : ℝ)
    (h : (S.psys.objInf = true ∧ S.psys.fieldType = .objectHeight) ∨
         (S.psys.objInf = true ∧ S.telecentric = true) ∨
         (S.telecentric = true ∧ S.psys.fieldType = .angle) ∨
         (S.telecentric = true ∧ (S.psys.apType = .EPD ∨ S.psys.apType = .imageFNO))) :
    ∃ e, generateRay S Hx Hy Px Py = .error e := by
  unfold generateRay
  split
  · exact ⟨_, rfl⟩
  · simp only
    cases ho : rayOrigin S Hx Hy Px Py (1 - (vigFactor S.fields Hx Hy).1) (1 - (vigFactor S.fields Hx Hy).2) with
    | error e => exact ⟨e, rfl⟩
    | ok p =>
      obtain ⟨x0, y0, z0⟩ := p
      simp only
      rcases h with h | h | h | h
      · rw [rejected_infinite_height S _ _ _ _ _ _ h.1 h.2] at ho; exact absurd ho (by simp)
      · obtain ⟨e, he⟩ := rejected_infinite_telecentric S Hx Hy Px Py
          (1 - (vigFactor S.fields Hx Hy).1) (1 - (vigFactor S.fields Hx Hy).2) h.1 h.2
        rw [he] at ho; exact absurd ho (by simp)
      · simp only [h.1, if_true, h.2]
        exact ⟨_, rfl⟩
      · simp only [h.1, if_true]
        rcases h.2 with ha | ha <;> (cases hf : S.psys.fieldType <;> simp only [ha] <;> exact ⟨_, rfl⟩)

/-! ### pupil samplings: counts and the unit disk -/

theorem linspace_length (a b : ℝ) (n : Nat) : (linspace a b n).length = n := by
  unfold linspace
  match n with
  | 0 => rfl
  | 1 => rfl
  | n+2 => simp

theorem count_line_x (n : Nat) (p : Bool) : (distLineX (α := ℝ) n p).length = n := by
  simp [distLineX, linspace_length]
theorem count_line_y (n : Nat) (p : Bool) : (distLineY (α := ℝ) n p).length = n := by
  simp [distLineY, linspace_length]
theorem count_cross (n : Nat) : (distCross (α := ℝ) n).length = 2 * n := by
  simp [distCross, linspace_length]; omega
theorem count_ring (n : Nat) : (distRing (α := ℝ) n).length = n := by
  simp [distRing, linspace_length]

theorem sum_range_succ_mul (r : Nat) :
    ((List.range r).map fun i => 6 * (i + 1)).sum = 3 * r * (r + 1) := by
  induction r with
  | zero => rfl
  | succ r ih => rw [List.range_succ, List.map_append, List.sum_append, ih]; simp; ring

/-- **count_hexapolar**: `1 + 3 n (n+1)` points for `n` rings -/
theorem count_hexapolar (rings : Nat) : (distHexapolar (α := ℝ) rings).length = countHexapolar rings := by
  unfold distHexapolar countHexapolar
  simp only [List.length_cons, List.length_flatMap, List.length_map, List.length_dropLast, linspace_length]
  have : (List.map (fun i => 6 * (i + 1) + 1 - 1) (List.range rings)) =
      (List.range rings).map fun i => 6 * (i + 1) := by
    apply List.map_congr_left; intro i _; omega
  rw [this, sum_range_succ_mul]; omega

/-- every point of the ring sampling is on the unit circle -/
theorem ring_on_unit_circle (n : Nat) : ∀ p ∈ distRing (α := ℝ) n, p.1^2 + p.2^2 = 1 := by
  intro p hp
  simp only [distRing, List.mem_map] at hp
  obtain ⟨t, _, rfl⟩ := hp
  num_real
  exact Real.cos_sq_add_sin_sq t

/-- a point `r (cos t, sin t)` with `0 ≤ r ≤ 1` is inside the unit disk (hexapolar, random, GQ) -/
theorem polar_in_unit_disk (r t : ℝ) (h0 : 0 ≤ r) (h1 : r ≤ 1) :
    (r * Real.cos t)^2 + (r * Real.sin t)^2 ≤ 1 := by
  have : (r * Real.cos t)^2 + (r * Real.sin t)^2 = r^2 := by
    linear_combination r^2 * Real.cos_sq_add_sin_sq t
  rw [this]; nlinarith

/-- the uniform sampling keeps only points of the unit disk -/
theorem uniform_in_unit_disk (n : Nat) : ∀ p ∈ distUniform (α := ℝ) n, p.1*p.1 + p.2*p.2 ≤ 1 := by
  intro p hp
  simp only [distUniform, List.mem_filter] at hp
  have := hp.2
  num_real
  exact this

/-- the `i`-th radius `i/n` of the hexapolar rings is at most 1 -/
theorem hexapolar_radius_le_one (i n : Nat) (hi : i ≤ n) (hn : 0 < n) :
    (0:ℝ) ≤ (i:ℝ) * ((1 - 0) / (n:ℝ)) + 0 ∧ (i:ℝ) * ((1 - 0) / (n:ℝ)) + 0 ≤ 1 := by
  have hn' : (0:ℝ) < n := by exact_mod_cast hn
  have hi' : (i:ℝ) ≤ n := by exact_mod_cast hi
  constructor
  · positivity
  · rw [add_zero, sub_zero, mul_one_div, div_le_one hn']; exact hi'

/-! ### vignetting -/

/-- **vig_only_shrinks** -/
theorem vig_only_shrinks (P v : ℝ) (h0 : 0 ≤ v) (h1 : v ≤ 1) : |P * (1 - v)| ≤ |P| := by
  rw [abs_mul]
  have : |1 - v| ≤ 1 := by rw [abs_le]; constructor <;> linarith
  calc |P| * |1 - v| ≤ |P| * 1 := by apply mul_le_mul_of_nonneg_left this (abs_nonneg _)
    _ = |P| := mul_one _

/-- all ordinates lie in [lo, hi] -/
def Within (lo hi : ℝ) (l : List (ℝ × ℝ)) : Prop := ∀ p ∈ l, lo ≤ p.2 ∧ p.2 ≤ hi
/-- knots strictly increasing -/
def Incr : List (ℝ × ℝ) → Prop
  | [] => True
  | [_] => True
  | p :: q :: rest => p.1 < q.1 ∧ Incr (q :: rest)

/-- **interp_in_hull**: the interpolated vignetting factor never leaves the hull of the field
factors -/
theorem interp_in_hull (x lo hi : ℝ) : ∀ (l : List (ℝ × ℝ)), l ≠ [] → Incr l → Within lo hi l →
    lo ≤ interp x l ∧ interp x l ≤ hi
  | [], h, _, _ => absurd rfl h
  | [p], _, _, hw => by simpa [interp] using hw p (by simp)
  | p :: q :: rest, _, hinc, hw => by
      have hp := hw p (by simp)
      have hq := hw q (by simp)
      unfold interp
      num_real
      split_ifs with h1 h2 h3
      · exact hp
      · exact hp
      · have hpos : 0 < q.1 - p.1 := by linarith [hinc.1]
        have hx0 : 0 ≤ x - p.1 := by linarith [not_lt.mp h1]
        have hx1 : x - p.1 ≤ q.1 - p.1 := by linarith
        set w := (x - p.1) / (q.1 - p.1) with hwdef
        have hw0 : 0 ≤ w := div_nonneg hx0 hpos.le
        have hw1 : w ≤ 1 := (div_le_one hpos).mpr hx1
        have e : (q.2 - p.2) / (q.1 - p.1) * (x - p.1) + p.2 = p.2 + w * (q.2 - p.2) := by
          rw [hwdef]; field_simp; ring
        rw [e]
        constructor <;> nlinarith [hp.1, hp.2, hq.1, hq.2]
      · exact interp_in_hull x lo hi (q :: rest) (by simp) hinc.2
          (fun r hr => hw r (by simp [List.mem_cons] at hr ⊢; tauto))

/-- at and left of the first knot the first table value is returned (clamping) -/
theorem interp_clamp_left (x : ℝ) (p : ℝ × ℝ) (rest : List (ℝ × ℝ)) (h : x < p.1) :
    interp x (p :: rest) = p.2 := by
  cases rest with
  | nil => simp [interp]
  | cons q r => unfold interp; num_real; simp [h]

/-! ### non-vacuity -/
example : (1 - 0)*(1 - 0) + (0.5 - 0)*(0.5 - 0) + (10 - (0:ℝ))*(10 - 0) ≠ 0 := by norm_num

end C03

/-! # Extensions: what is launched in each accepted configuration

Helper lemmas: `OptiModel/Proofs/Launch.lean`.  Throughout, `hx` says that all fields have `x = 0`
(otherwise `get_vig_factor` raises `NotImplementedError`, see `rejected_nonsymmetric_fields`), `v` is
the interpolated vignetting pair of the field, and `EPD`, `EPL`, `posOf`, `startOffset`, `maxField`
are the model's functions (`Paraxial.EPD/EPL`, `surface_group.positions`, `_get_starting_z_offset`,
`fields.max_field`). -/
namespace C03
open Model Launch

/-- fields with a non-zero `x` are refused by every entry point -/
theorem rejected_nonsymmetric_fields (S : RGSys ℝ) (Hx Hy Px Py : ℝ)
    (hx : S.fields.any (fun f => !(Num.isZero f.x)) = true) :
    generateRay S Hx Hy Px Py = .error .notImplemented ∧
    genericLaunch S Hx Hy Px Py = .error .notImplemented :=
  ⟨generateRay_fields_error S Hx Hy Px Py hx, by unfold genericLaunch; rw [if_pos hx]⟩

/-! ## 1. object at infinity: one direction per field -/

/-- **infinite_object_direction.**  Infinite object, angle fields, not telecentric.  With
`tx = tan(radians(max_field·Hx))`, `ty = tan(radians(max_field·Hy))`, `D = offset + EPL` (what the
code multiplies the tangents with) and `Dz = EPL − (positions[1] − offset)` (aim plane − start plane),
*every* ray `(Px, Py)` of the field gets the direction `(−tx·D, ty·D, Dz)/‖·‖`: the right-hand sides do
not contain `Px, Py` nor the vignetting factors.  It is a unit vector with `N > 0`.
Guard `0 < Dz`: the start plane lies in front of the entrance pupil (for `Dz = 0` the code divides by
`mag = |D|·√(tx²+ty²)`, which is 0 on axis: NaN direction).
Sign convention of the code: `M/N = +ty·D/Dz` but `L/N = −tx·D/Dz`. -/
theorem infinite_object_direction (S : RGSys ℝ) (Hx Hy Px Py : ℝ)
    (hx : S.fields.any (fun f => !(Num.isZero f.x)) = false)
    (hinf : S.psys.objInf = true) (hf : S.psys.fieldType = .angle) (ht : S.telecentric = false)
    (hD : 0 < startOffset S + EPL S.psys - posOf S.psys.surfs 1) :
    let tx := Real.tan (maxField S.fields * Hx * (Real.pi / 180))
    let ty := Real.tan (maxField S.fields * Hy * (Real.pi / 180))
    let D := startOffset S + EPL S.psys
    let Dz := D - posOf S.psys.surfs 1
    let mag := Real.sqrt ((-(tx * D))^2 + (ty * D)^2 + Dz^2)
    ∃ r, generateRay S Hx Hy Px Py = .ok r ∧
      r.L = -(tx * D) / mag ∧ r.M = ty * D / mag ∧ r.N = Dz / mag ∧
      r.L^2 + r.M^2 + r.N^2 = 1 ∧ 0 < r.N := by
  intro tx ty D Dz mag
  have ho := rayOrigin_infinite S Hx Hy Px Py (1 - (vigFactor S.fields Hx Hy).1)
    (1 - (vigFactor S.fields Hx Hy).2) hinf hf ht
  have hg := generateRay_nontele_dir S Hx Hy Px Py _ _ _ (-(tx * D)) (ty * D) Dz hx ht ho
    (by simp only [tx, D]; ring) (by simp only [ty, D]; ring) (by simp only [Dz, D]; ring)
  obtain ⟨hm, hu, -, -, -⟩ := launch_core (-(tx * D)) (ty * D) Dz (ne_of_gt hD)
  exact ⟨_, hg, rfl, rfl, rfl, hu, div_pos hD hm⟩

/-- all rays of one field are parallel (corollary, stated directly) -/
theorem infinite_object_direction_same (S : RGSys ℝ) (Hx Hy Px Py Px' Py' : ℝ)
    (hx : S.fields.any (fun f => !(Num.isZero f.x)) = false)
    (hinf : S.psys.objInf = true) (hf : S.psys.fieldType = .angle) (ht : S.telecentric = false)
    (hD : 0 < startOffset S + EPL S.psys - posOf S.psys.surfs 1) :
    ∃ r r', generateRay S Hx Hy Px Py = .ok r ∧ generateRay S Hx Hy Px' Py' = .ok r' ∧
      r.L = r'.L ∧ r.M = r'.M ∧ r.N = r'.N ∧ r.z = r'.z ∧ 0 < r.N := by
  have ho := rayOrigin_infinite S Hx Hy Px Py (1 - (vigFactor S.fields Hx Hy).1)
    (1 - (vigFactor S.fields Hx Hy).2) hinf hf ht
  have ho' := rayOrigin_infinite S Hx Hy Px' Py' (1 - (vigFactor S.fields Hx Hy).1)
    (1 - (vigFactor S.fields Hx Hy).2) hinf hf ht
  have hg := generateRay_nontele_dir S Hx Hy Px Py _ _ _ _ _ _ hx ht ho
    (by ring : _ = -(Real.tan (maxField S.fields * Hx * (Real.pi / 180)) * (startOffset S + EPL S.psys)))
    (by ring : _ = Real.tan (maxField S.fields * Hy * (Real.pi / 180)) * (startOffset S + EPL S.psys))
    (by ring : _ = startOffset S + EPL S.psys - posOf S.psys.surfs 1)
  have hg' := generateRay_nontele_dir S Hx Hy Px' Py' _ _ _ _ _ _ hx ht ho'
    (by ring : _ = -(Real.tan (maxField S.fields * Hx * (Real.pi / 180)) * (startOffset S + EPL S.psys)))
    (by ring : _ = Real.tan (maxField S.fields * Hy * (Real.pi / 180)) * (startOffset S + EPL S.psys))
    (by ring : _ = startOffset S + EPL S.psys - posOf S.psys.surfs 1)
  obtain ⟨hm, -, -, -, -⟩ := launch_core
    (-(Real.tan (maxField S.fields * Hx * (Real.pi / 180)) * (startOffset S + EPL S.psys)))
    (Real.tan (maxField S.fields * Hy * (Real.pi / 180)) * (startOffset S + EPL S.psys))
    (startOffset S + EPL S.psys - posOf S.psys.surfs 1) (ne_of_gt hD)
  exact ⟨_, _, hg, hg', rfl, rfl, rfl, rfl, div_pos hD hm⟩

/-- **infinite_object_direction** for the usual layout `positions[1] = 0` (first surface at the
origin, which is where `EPL` is measured from): the direction is `(−tx, ty, 1)/√(tx² + ty² + 1)`,
i.e. `M/N = tan(θy)`, `L/N = −tan(θx)` with `θ = max_field·H` in degrees. -/
theorem infinite_object_direction_tan (S : RGSys ℝ) (Hx Hy Px Py : ℝ)
    (hx : S.fields.any (fun f => !(Num.isZero f.x)) = false)
    (hinf : S.psys.objInf = true) (hf : S.psys.fieldType = .angle) (ht : S.telecentric = false)
    (hp1 : posOf S.psys.surfs 1 = 0) (hD : 0 < startOffset S + EPL S.psys) :
    let tx := Real.tan (maxField S.fields * Hx * (Real.pi / 180))
    let ty := Real.tan (maxField S.fields * Hy * (Real.pi / 180))
    let q := Real.sqrt (tx^2 + ty^2 + 1)
    ∃ r, generateRay S Hx Hy Px Py = .ok r ∧
      r.L = -tx / q ∧ r.M = ty / q ∧ r.N = 1 / q ∧ 0 < r.N ∧ r.M / r.N = ty ∧ r.L / r.N = -tx := by
  intro tx ty q
  have hD' : 0 < startOffset S + EPL S.psys - posOf S.psys.surfs 1 := by rw [hp1]; linarith
  obtain ⟨r, hr, hL, hM, hN, -, hpos⟩ := infinite_object_direction S Hx Hy Px Py hx hinf hf ht hD'
  simp only [hp1, sub_zero] at hL hM hN
  set D := startOffset S + EPL S.psys with hDdef
  have hq0 : 0 < tx^2 + ty^2 + 1 := by positivity
  have hq : 0 < q := Real.sqrt_pos.mpr hq0
  have hs : Real.sqrt ((-(tx * D))^2 + (ty * D)^2 + D^2) = D * q := by
    rw [show (-(tx * D))^2 + (ty * D)^2 + D^2 = D^2 * (tx^2 + ty^2 + 1) by ring,
      Real.sqrt_mul (sq_nonneg D), Real.sqrt_sq hD.le]
  rw [hs] at hL hM hN
  have hDne : D ≠ 0 := ne_of_gt hD
  have hqne : q ≠ 0 := ne_of_gt hq
  have hL2 : r.L = -(tx * D) / (D * q) := hL
  have hM2 : r.M = ty * D / (D * q) := hM
  have hL' : r.L = -tx / q := by rw [hL2]; field_simp
  have hM' : r.M = ty / q := by rw [hM2]; field_simp
  have hN' : r.N = 1 / q := by rw [hN]; field_simp
  refine ⟨r, hr, hL', hM', hN', hpos, ?_, ?_⟩
  · rw [hM', hN']; field_simp
  · rw [hL', hN']; field_simp

/-- **direction cosines** of a meridional field (`Hx = 0`, `|θ| < 90°`, `θ = max_field·Hy` degrees),
layout as above: `(L, M, N) = (0, sin θ, cos θ)` for every `(Px, Py)`. -/
theorem infinite_object_direction_cosines (S : RGSys ℝ) (Hy Px Py : ℝ)
    (hx : S.fields.any (fun f => !(Num.isZero f.x)) = false)
    (hinf : S.psys.objInf = true) (hf : S.psys.fieldType = .angle) (ht : S.telecentric = false)
    (hp1 : posOf S.psys.surfs 1 = 0) (hD : 0 < startOffset S + EPL S.psys)
    (hθ : 0 < Real.cos (maxField S.fields * Hy * (Real.pi / 180))) :
    ∃ r, generateRay S 0 Hy Px Py = .ok r ∧ r.L = 0 ∧
      r.M = Real.sin (maxField S.fields * Hy * (Real.pi / 180)) ∧
      r.N = Real.cos (maxField S.fields * Hy * (Real.pi / 180)) := by
  obtain ⟨r, hr, hL, hM, hN, -, -, -⟩ :=
    infinite_object_direction_tan S 0 Hy Px Py hx hinf hf ht hp1 hD
  simp only [mul_zero, zero_mul, Real.tan_zero] at hL hM hN
  set θ := maxField S.fields * Hy * (Real.pi / 180) with hθdef
  have hc : Real.cos θ ≠ 0 := ne_of_gt hθ
  have hq : Real.sqrt (0^2 + (Real.tan θ)^2 + 1) = 1 / Real.cos θ := by
    rw [Real.sqrt_eq_iff_mul_self_eq (by positivity) (by positivity), Real.tan_eq_sin_div_cos]
    field_simp
    linear_combination Real.sin_sq_add_cos_sq θ
  rw [hq] at hL hM hN
  refine ⟨r, hr, ?_, ?_, ?_⟩
  · rw [hL]; simp
  · rw [hM, Real.tan_eq_sin_div_cos]; field_simp
  · rw [hN]; field_simp

/-! ## 2. object at infinity: the bundle fills the vignetted entrance pupil -/

/-- **infinite_object_fills_pupil.**  Same configuration.  The ray starts in the plane
`z = positions[1] − offset` at `(Px·EPD/2·(1−vx) + tx·D, Py·EPD/2·(1−vy) − ty·D)` and after the path
length `mag` it is at the pupil point `(Px·EPD/2·(1−vx), Py·EPD/2·(1−vy), EPL)`:
the start points are the (vignetted) pupil shifted back along the field direction, so the bundle
fills exactly the ellipse with half-axes `EPD/2·(1−vx)`, `EPD/2·(1−vy)` in the plane `z = EPL`. -/
theorem infinite_object_fills_pupil (S : RGSys ℝ) (Hx Hy Px Py : ℝ)
    (hx : S.fields.any (fun f => !(Num.isZero f.x)) = false)
    (hinf : S.psys.objInf = true) (hf : S.psys.fieldType = .angle) (ht : S.telecentric = false)
    (hD : startOffset S + EPL S.psys - posOf S.psys.surfs 1 ≠ 0) :
    let v := vigFactor S.fields Hx Hy
    let tx := Real.tan (maxField S.fields * Hx * (Real.pi / 180))
    let ty := Real.tan (maxField S.fields * Hy * (Real.pi / 180))
    let D := startOffset S + EPL S.psys
    let Dz := D - posOf S.psys.surfs 1
    let mag := Real.sqrt ((-(tx * D))^2 + (ty * D)^2 + Dz^2)
    ∃ r, generateRay S Hx Hy Px Py = .ok r ∧ 0 < mag ∧
      r.x = Px * EPD S.psys / 2 * (1 - v.1) + tx * D ∧
      r.y = Py * EPD S.psys / 2 * (1 - v.2) - ty * D ∧
      r.z = posOf S.psys.surfs 1 - startOffset S ∧
      r.x + mag * r.L = Px * EPD S.psys / 2 * (1 - v.1) ∧
      r.y + mag * r.M = Py * EPD S.psys / 2 * (1 - v.2) ∧
      r.z + mag * r.N = EPL S.psys := by
  intro v tx ty D Dz mag
  have ho := rayOrigin_infinite S Hx Hy Px Py (1 - (vigFactor S.fields Hx Hy).1)
    (1 - (vigFactor S.fields Hx Hy).2) hinf hf ht
  have hg := generateRay_nontele_dir S Hx Hy Px Py _ _ _ (-(tx * D)) (ty * D) Dz hx ht ho
    (by simp only [tx, D]; ring) (by simp only [ty, D]; ring) (by simp only [Dz, D]; ring)
  obtain ⟨hm, -, h1, h2, h3⟩ := launch_core (-(tx * D)) (ty * D) Dz hD
  refine ⟨_, hg, hm, ?_, ?_, ?_, ?_, ?_, ?_⟩
  · simp only [tx, D, v]
  · simp only [ty, D, v]; ring
  · rfl
  · show _ + mag * (-(tx * D) / mag) = _
    rw [h1]; simp only [tx, D, v]; ring
  · show _ + mag * ((ty * D) / mag) = _
    rw [h2]; simp only [ty, D, v]; ring
  · show _ + mag * (Dz / mag) = _
    rw [h3]; simp only [Dz, D]; ring

/-! ## 3. finite object -/

/-- **generateRay_hits_pupil** (all non-telecentric configurations at once): whenever `generateRay`
succeeds and the start plane is not the pupil plane, the direction is a unit vector and the ray
passes through `(Px·EPD/2·(1−vx), Py·EPD/2·(1−vy), EPL)`; `(1−v)` enters exactly once. -/
theorem generateRay_hits_pupil (S : RGSys ℝ) (Hx Hy Px Py : ℝ) (r : Ray ℝ)
    (ht : S.telecentric = false) (h : generateRay S Hx Hy Px Py = .ok r) (hz : r.z ≠ EPL S.psys) :
    ∃ mag, 0 < mag ∧ r.L^2 + r.M^2 + r.N^2 = 1 ∧
      r.x + mag * r.L = Px * EPD S.psys / 2 * (1 - (vigFactor S.fields Hx Hy).1) ∧
      r.y + mag * r.M = Py * EPD S.psys / 2 * (1 - (vigFactor S.fields Hx Hy).2) ∧
      r.z + mag * r.N = EPL S.psys := by
  cases hx : S.fields.any (fun f => !(Num.isZero f.x)) with
  | true => rw [generateRay_fields_error S Hx Hy Px Py hx] at h; exact absurd h (by simp)
  | false =>
    cases ho : rayOrigin S Hx Hy Px Py (1 - (vigFactor S.fields Hx Hy).1)
        (1 - (vigFactor S.fields Hx Hy).2) with
    | error e => rw [generateRay_origin_error S Hx Hy Px Py e hx ho] at h; exact absurd h (by simp)
    | ok o =>
      obtain ⟨x0, y0, z0⟩ := o
      rw [generateRay_nontele_dir S Hx Hy Px Py x0 y0 z0 _ _ _ hx ht ho rfl rfl rfl] at h
      injection h with h
      subst h
      simp only at hz ⊢
      have hc : EPL S.psys - z0 ≠ 0 := fun e => hz (by linarith)
      obtain ⟨hm, hu, h1, h2, h3⟩ := launch_core
        (Px * EPD S.psys * (1 - (vigFactor S.fields Hx Hy).1) / 2 - x0)
        (Py * EPD S.psys * (1 - (vigFactor S.fields Hx Hy).2) / 2 - y0) (EPL S.psys - z0) hc
      refine ⟨_, hm, hu, ?_, ?_, ?_⟩
      · rw [h1]; ring
      · rw [h2]; ring
      · rw [h3]; ring

/-- **finite_object_start_and_aim**, object-height fields: the ray starts at
`(max_field·Hx, max_field·Hy)` (both with a plus sign) on the object surface — `z = sag + cs.z`, the
sag being 0 for a plane and the conic sag otherwise —, its direction is the normalised difference to
the pupil point, a unit vector, and it reaches the pupil point after `mag`.
Guard: the object point is not in the plane `z = EPL` (there `mag` may vanish). -/
theorem finite_object_start_and_aim_height (S : RGSys ℝ) (Hx Hy Px Py : ℝ)
    (hx : S.fields.any (fun f => !(Num.isZero f.x)) = false)
    (hinf : S.psys.objInf = false) (hf : S.psys.fieldType = .objectHeight) (ht : S.telecentric = false)
    (hz : (if S.objPlane then 0 else conicSag S.objR S.objK (maxField S.fields * Hx) (maxField S.fields * Hy))
            + posOf S.psys.surfs 0 ≠ EPL S.psys) :
    let v := vigFactor S.fields Hx Hy
    let x0 := maxField S.fields * Hx
    let y0 := maxField S.fields * Hy
    let z0 := (if S.objPlane then 0 else conicSag S.objR S.objK (maxField S.fields * Hx) (maxField S.fields * Hy))
                + posOf S.psys.surfs 0
    let x1 := Px * EPD S.psys / 2 * (1 - v.1)
    let y1 := Py * EPD S.psys / 2 * (1 - v.2)
    let z1 := EPL S.psys
    let mag := Real.sqrt ((x1 - x0)^2 + (y1 - y0)^2 + (z1 - z0)^2)
    ∃ r, generateRay S Hx Hy Px Py = .ok r ∧ r.x = x0 ∧ r.y = y0 ∧ r.z = z0 ∧ 0 < mag ∧
      r.L = (x1 - x0) / mag ∧ r.M = (y1 - y0) / mag ∧ r.N = (z1 - z0) / mag ∧
      r.L^2 + r.M^2 + r.N^2 = 1 ∧
      r.x + mag * r.L = x1 ∧ r.y + mag * r.M = y1 ∧ r.z + mag * r.N = z1 := by
  intro v x0 y0 z0 x1 y1 z1 mag
  have ho := rayOrigin_finite_height S Hx Hy Px Py (1 - (vigFactor S.fields Hx Hy).1)
    (1 - (vigFactor S.fields Hx Hy).2) hinf hf
  have hg := generateRay_nontele_dir S Hx Hy Px Py _ _ _ (x1 - x0) (y1 - y0) (z1 - z0) hx ht ho
    (by simp only [x1, x0, v]; ring) (by simp only [y1, y0, v]; ring) rfl
  have hc : z1 - z0 ≠ 0 := fun e => hz (by simp only [z1, z0] at e; linarith)
  obtain ⟨hm, hu, h1, h2, h3⟩ := launch_core (x1 - x0) (y1 - y0) (z1 - z0) hc
  refine ⟨_, hg, rfl, rfl, rfl, hm, rfl, rfl, rfl, hu, ?_, ?_, ?_⟩
  · show x0 + mag * ((x1 - x0) / mag) = x1
    rw [h1]; ring
  · show y0 + mag * ((y1 - y0) / mag) = y1
    rw [h2]; ring
  · show z0 + mag * ((z1 - z0) / mag) = z1
    rw [h3]; ring

/-- **finite_object_start_and_aim**, angle fields: the object point is at the object vertex plane
`z = positions[0]`, at height `(+tan θx · d, −tan θy · d)` with `d = EPL − z` the distance to the
entrance pupil (so that the chief ray `Px = Py = 0` has `M/N = +tan θy`, `L/N = −tan θx`: same sign
convention as for the infinite object).  Direction, unit length and aim as before. -/
theorem finite_object_start_and_aim_angle (S : RGSys ℝ) (Hx Hy Px Py : ℝ)
    (hx : S.fields.any (fun f => !(Num.isZero f.x)) = false)
    (hinf : S.psys.objInf = false) (hf : S.psys.fieldType = .angle) (ht : S.telecentric = false)
    (hz : posOf S.psys.surfs 0 ≠ EPL S.psys) :
    let v := vigFactor S.fields Hx Hy
    let d := EPL S.psys - posOf S.psys.surfs 0
    let x0 := Real.tan (maxField S.fields * Hx * (Real.pi / 180)) * d
    let y0 := -Real.tan (maxField S.fields * Hy * (Real.pi / 180)) * d
    let z0 := posOf S.psys.surfs 0
    let x1 := Px * EPD S.psys / 2 * (1 - v.1)
    let y1 := Py * EPD S.psys / 2 * (1 - v.2)
    let z1 := EPL S.psys
    let mag := Real.sqrt ((x1 - x0)^2 + (y1 - y0)^2 + (z1 - z0)^2)
    ∃ r, generateRay S Hx Hy Px Py = .ok r ∧ r.x = x0 ∧ r.y = y0 ∧ r.z = z0 ∧ 0 < mag ∧
      r.L = (x1 - x0) / mag ∧ r.M = (y1 - y0) / mag ∧ r.N = (z1 - z0) / mag ∧
      r.L^2 + r.M^2 + r.N^2 = 1 ∧
      r.x + mag * r.L = x1 ∧ r.y + mag * r.M = y1 ∧ r.z + mag * r.N = z1 := by
  intro v d x0 y0 z0 x1 y1 z1 mag
  have ho := rayOrigin_finite_angle S Hx Hy Px Py (1 - (vigFactor S.fields Hx Hy).1)
    (1 - (vigFactor S.fields Hx Hy).2) hinf hf
  have hg := generateRay_nontele_dir S Hx Hy Px Py _ _ _ (x1 - x0) (y1 - y0) (z1 - z0) hx ht ho
    (by simp only [x1, x0, d, v]; ring) (by simp only [y1, y0, d, v]; ring) rfl
  have hc : z1 - z0 ≠ 0 := fun e => hz (by simp only [z1, z0] at e; linarith)
  obtain ⟨hm, hu, h1, h2, h3⟩ := launch_core (x1 - x0) (y1 - y0) (z1 - z0) hc
  refine ⟨_, hg, rfl, rfl, rfl, hm, rfl, rfl, rfl, hu, ?_, ?_, ?_⟩
  · show x0 + mag * ((x1 - x0) / mag) = x1
    rw [h1]; ring
  · show y0 + mag * ((y1 - y0) / mag) = y1
    rw [h2]; ring
  · show z0 + mag * ((z1 - z0) / mag) = z1
    rw [h3]; ring

/-- chief ray of a finite object with angle fields: `M/N = tan θy`, `L/N = −tan θx` -/
theorem finite_object_angle_chief (S : RGSys ℝ) (Hx Hy : ℝ)
    (hx : S.fields.any (fun f => !(Num.isZero f.x)) = false)
    (hinf : S.psys.objInf = false) (hf : S.psys.fieldType = .angle) (ht : S.telecentric = false)
    (hz : posOf S.psys.surfs 0 ≠ EPL S.psys) :
    ∃ r, generateRay S Hx Hy 0 0 = .ok r ∧
      r.M / r.N = Real.tan (maxField S.fields * Hy * (Real.pi / 180)) ∧
      r.L / r.N = -Real.tan (maxField S.fields * Hx * (Real.pi / 180)) := by
  obtain ⟨r, hr, -, -, -, hm, hL, hM, hN, -, -, -, -⟩ :=
    finite_object_start_and_aim_angle S Hx Hy 0 0 hx hinf hf ht hz
  have hd : EPL S.psys - posOf S.psys.surfs 0 ≠ 0 := fun e => hz (by linarith)
  refine ⟨r, hr, ?_, ?_⟩
  · rw [hM, hN]; field_simp; ring
  · rw [hL, hN]; field_simp; ring

/-! ## 4. telecentric object space -/

/-- **telecentric_object_space.**  Finite object, object-height fields, aperture given as object
NA `s = aperture.value`, telecentric flag set.  What the code does: the object point is as for
object-height fields; the aim point is `(Px·(1−vx), Py·(1−vy), √(1−s²)/s)` *relative to the object
point* — pupil coordinates are used as lengths, no `EPD`, no `EPL`.  Hence the direction
`(Px(1−vx), Py(1−vy), √(1−s²)/s)/‖·‖` does not depend on the field point at all (only through the
vignetting factors): every field sends the same cone, centred on the axis direction.
Guards `0 < s < 1` (`s = 0`: division by zero; `s ≥ 1`: `√` of a non-positive number). -/
theorem telecentric_object_space (S : RGSys ℝ) (Hx Hy Px Py : ℝ)
    (hx : S.fields.any (fun f => !(Num.isZero f.x)) = false)
    (hinf : S.psys.objInf = false) (hf : S.psys.fieldType = .objectHeight) (ht : S.telecentric = true)
    (hap : S.psys.apType = .objectNA) (hs0 : 0 < S.psys.apValue) (hs1 : S.psys.apValue < 1) :
    let v := vigFactor S.fields Hx Hy
    let a := Px * (1 - v.1)
    let b := Py * (1 - v.2)
    let c := Real.sqrt (1 - S.psys.apValue * S.psys.apValue) / S.psys.apValue
    let mag := Real.sqrt (a^2 + b^2 + c^2)
    ∃ r, generateRay S Hx Hy Px Py = .ok r ∧
      r.x = maxField S.fields * Hx ∧ r.y = maxField S.fields * Hy ∧
      r.z = (if S.objPlane then 0 else conicSag S.objR S.objK (maxField S.fields * Hx) (maxField S.fields * Hy))
              + posOf S.psys.surfs 0 ∧
      0 < c ∧ 0 < mag ∧ r.L = a / mag ∧ r.M = b / mag ∧ r.N = c / mag ∧
      r.L^2 + r.M^2 + r.N^2 = 1 ∧ 0 < r.N := by
  intro v a b c mag
  have ho := rayOrigin_finite_height S Hx Hy Px Py (1 - (vigFactor S.fields Hx Hy).1)
    (1 - (vigFactor S.fields Hx Hy).2) hinf hf
  have hg := generateRay_tele_dir S Hx Hy Px Py _ _ _ a b c hx ht hf hap ho
    (by simp only [a, v]; ring) (by simp only [b, v]; ring) (by simp only [c]; ring)
  have h1 : 0 < 1 - S.psys.apValue * S.psys.apValue := by nlinarith
  have hc : 0 < c := div_pos (Real.sqrt_pos.mpr h1) hs0
  obtain ⟨hm, hu, -, -, -⟩ := launch_core a b c (ne_of_gt hc)
  exact ⟨_, hg, rfl, rfl, rfl, hc, hm, rfl, rfl, rfl, hu, div_pos hc hm⟩

/-- the telecentric chief ray (`Px = Py = 0`) of every field is parallel to the axis -/
theorem telecentric_chief_parallel (S : RGSys ℝ) (Hx Hy : ℝ)
    (hx : S.fields.any (fun f => !(Num.isZero f.x)) = false)
    (hinf : S.psys.objInf = false) (hf : S.psys.fieldType = .objectHeight) (ht : S.telecentric = true)
    (hap : S.psys.apType = .objectNA) (hs0 : 0 < S.psys.apValue) (hs1 : S.psys.apValue < 1) :
    ∃ r, generateRay S Hx Hy 0 0 = .ok r ∧ r.L = 0 ∧ r.M = 0 ∧ r.N = 1 := by
  obtain ⟨r, hr, -, -, -, hc, -, hL, hM, hN, -, -⟩ :=
    telecentric_object_space S Hx Hy 0 0 hx hinf hf ht hap hs0 hs1
  refine ⟨r, hr, ?_, ?_, ?_⟩
  · rw [hL]; simp
  · rw [hM]; simp
  · rw [hN]
    simp only [zero_mul, ne_eq, OfNat.ofNat_ne_zero, not_false_eq_true, zero_pow, zero_add]
    rw [Real.sqrt_sq hc.le, div_self (ne_of_gt hc)]

/-- the marginal cone has the stated numerical aperture: for a pupil point on the unit circle and a
field without vignetting, `sin θ = √(L² + M²) = s`, i.e. `L² + M² = s²` -/
theorem telecentric_na (S : RGSys ℝ) (Hx Hy Px Py : ℝ)
    (hx : S.fields.any (fun f => !(Num.isZero f.x)) = false)
    (hinf : S.psys.objInf = false) (hf : S.psys.fieldType = .objectHeight) (ht : S.telecentric = true)
    (hap : S.psys.apType = .objectNA) (hs0 : 0 < S.psys.apValue) (hs1 : S.psys.apValue < 1)
    (hP : Px^2 + Py^2 = 1) (hv : vigFactor S.fields Hx Hy = (0, 0)) :
    ∃ r, generateRay S Hx Hy Px Py = .ok r ∧ r.L^2 + r.M^2 = S.psys.apValue^2 ∧
      r.N^2 = 1 - S.psys.apValue^2 := by
  obtain ⟨r, hr, -, -, -, hc, hm, hL, hM, hN, -, -⟩ :=
    telecentric_object_space S Hx Hy Px Py hx hinf hf ht hap hs0 hs1
  rw [hv] at hL hM hN hm
  simp only [sub_zero, mul_one] at hL hM hN hm
  set s := S.psys.apValue with hsdef
  have h1 : 0 < 1 - s * s := by nlinarith
  set c := Real.sqrt (1 - s * s) / s with hcdef
  have hc2 : c^2 = (1 - s * s) / s^2 := by
    rw [hcdef, div_pow, Real.sq_sqrt h1.le]
  set mag := Real.sqrt (Px^2 + Py^2 + c^2) with hmag
  have hmm : mag^2 = Px^2 + Py^2 + c^2 := Real.sq_sqrt (by positivity)
  have hsne : s ≠ 0 := ne_of_gt hs0
  have hmne : mag ≠ 0 := ne_of_gt hm
  have hm2 : mag^2 = 1 / s^2 := by
    rw [hmm, hP, hc2]; field_simp; ring
  refine ⟨r, hr, ?_, ?_⟩
  · rw [hL, hM, div_pow, div_pow, ← add_div, hP, hm2]; field_simp
  · rw [hN, div_pow, hm2, hc2]; field_simp

/-! ## 5. vignetting factors: sorting, end points, linear interpolation, hull, order independence -/

/-- **sortBy_perm**: the insertion sort only rearranges -/
theorem sortBy_perm {β : Type} (l : List (ℝ × β)) : (sortBy l).Perm l := sortBy_perm' l

/-- **sortBy_sorted**: its result is sorted by the key; strictly if the keys are distinct -/
theorem sortBy_sorted {β : Type} (l : List (ℝ × β)) :
    (sortBy l).Pairwise (fun a b => a.1 ≤ b.1) ∧
    ((l.map (·.1)).Nodup → (sortBy l).Pairwise (fun a b => a.1 < b.1)) :=
  ⟨sortBy_sorted' l, sortBy_strict l⟩

/-- **sortBy_order_independent**: with distinct keys the result does not depend on the order in
which the entries were given (`np.argsort` on distinct keys).  With equal keys NumPy's default
(unstable) sort gives no such guarantee; the model's insertion sort would not either. -/
theorem sortBy_order_independent {β : Type} (l₁ l₂ : List (ℝ × β)) (hp : l₁.Perm l₂)
    (hd : (l₁.map (·.1)).Nodup) : sortBy l₁ = sortBy l₂ := sortBy_eq_of_perm l₁ l₂ hp hd

/-- **vigFactor_order_independent**: the vignetting factors of a field point do not depend on the
order in which the fields were added, provided their `y` are distinct -/
theorem vigFactor_order_independent (fs₁ fs₂ : List (FieldRec ℝ)) (Hx Hy : ℝ) (hp : fs₁.Perm fs₂)
    (hd : (fs₁.map (·.y)).Nodup) : vigFactor fs₁ Hx Hy = vigFactor fs₂ Hx Hy := by
  rw [vigFactor_eq, vigFactor_eq, vigKnots_perm fs₁ fs₂ _ hp hd, vigKnots_perm fs₁ fs₂ _ hp hd]

/-- **vigFactor_endpoints**: at a defined field — normalised radius `√(Hx²+Hy²) = y_f / max_y` —
the factors are exactly that field's `(vx, vy)`.  Guards: distinct `y`, positive largest `y`.
(The radius is non-negative, so a field with `y_f < 0` is never hit by any `(Hx, Hy)`.) -/
theorem vigFactor_endpoints (fs : List (FieldRec ℝ)) (f : FieldRec ℝ) (Hx Hy : ℝ) (hf : f ∈ fs)
    (hd : (fs.map (·.y)).Nodup) (hm : 0 < npMaxL (fs.map (·.y)))
    (hh : Real.sqrt (Hx * Hx + Hy * Hy) = f.y / npMaxL (fs.map (·.y))) :
    vigFactor fs Hx Hy = (f.vx, f.vy) := by
  rw [vigFactor_eq, hh]
  have h1 := interp_at_knot _ (vigKnots_strict fs Prod.fst hd hm) _ (vigKnots_mem fs Prod.fst f hf (ne_of_gt hm))
  have h2 := interp_at_knot _ (vigKnots_strict fs Prod.snd hd hm) _ (vigKnots_mem fs Prod.snd f hf (ne_of_gt hm))
  simp only at h1 h2
  rw [h1, h2]

/-- the same at the field's own normalised coordinates `(0, y_f / max_y)`, `y_f ≥ 0` -/
theorem vigFactor_at_field (fs : List (FieldRec ℝ)) (f : FieldRec ℝ) (hf : f ∈ fs)
    (hd : (fs.map (·.y)).Nodup) (hm : 0 < npMaxL (fs.map (·.y))) (hy : 0 ≤ f.y) :
    vigFactor fs 0 (f.y / npMaxL (fs.map (·.y))) = (f.vx, f.vy) := by
  apply vigFactor_endpoints fs f _ _ hf hd hm
  rw [mul_zero, zero_add, Real.sqrt_mul_self (div_nonneg hy hm.le)]

/-- **vigFactor_linear**: between two neighbouring defined fields `f`, `g` (no defined field has its
`y` strictly between theirs) both factors are the linear interpolation in the normalised radius `h`:
`v = v_f + t·(v_g − v_f)`, `t = (h − h_f)/(h_g − h_f)`. -/
theorem vigFactor_linear (fs : List (FieldRec ℝ)) (f g : FieldRec ℝ) (Hx Hy : ℝ)
    (hf : f ∈ fs) (hg : g ∈ fs) (hd : (fs.map (·.y)).Nodup) (hm : 0 < npMaxL (fs.map (·.y)))
    (hfg : f.y < g.y) (hno : ∀ e ∈ fs, ¬ (f.y < e.y ∧ e.y < g.y))
    (h1 : f.y / npMaxL (fs.map (·.y)) ≤ Real.sqrt (Hx * Hx + Hy * Hy))
    (h2 : Real.sqrt (Hx * Hx + Hy * Hy) ≤ g.y / npMaxL (fs.map (·.y))) :
    let m := npMaxL (fs.map (·.y))
    let t := (Real.sqrt (Hx * Hx + Hy * Hy) - f.y / m) / (g.y / m - f.y / m)
    vigFactor fs Hx Hy = (f.vx + t * (g.vx - f.vx), f.vy + t * (g.vy - f.vy)) ∧ 0 ≤ t ∧ t ≤ 1 := by
  intro m t
  have hmne : m ≠ 0 := ne_of_gt hm
  have hkeys : f.y / m < g.y / m := div_lt_div_of_pos_right hfg hm
  have hnone : ∀ sel : ℝ × ℝ → ℝ, ∀ r ∈ vigKnots fs sel, ¬ (f.y / m < r.1 ∧ r.1 < g.y / m) := by
    intro sel r hr ⟨ha, hb⟩
    obtain ⟨e, he, -, hk⟩ := vigKnots_value fs sel r hr
    rw [if_neg hmne] at hk
    rw [hk] at ha hb
    exact hno e he ⟨(div_lt_div_iff_of_pos_right hm).mp ha, (div_lt_div_iff_of_pos_right hm).mp hb⟩
  have e1 := interp_between_closed (Real.sqrt (Hx * Hx + Hy * Hy)) (f.y / m, f.vx) (g.y / m, g.vx)
    (vigKnots fs Prod.fst) (vigKnots_strict fs Prod.fst hd hm) (vigKnots_mem fs Prod.fst f hf hmne)
    (vigKnots_mem fs Prod.fst g hg hmne) hkeys (hnone Prod.fst) h1 h2
  have e2 := interp_between_closed (Real.sqrt (Hx * Hx + Hy * Hy)) (f.y / m, f.vy) (g.y / m, g.vy)
    (vigKnots fs Prod.snd) (vigKnots_strict fs Prod.snd hd hm) (vigKnots_mem fs Prod.snd f hf hmne)
    (vigKnots_mem fs Prod.snd g hg hmne) hkeys (hnone Prod.snd) h1 h2
  simp only at e1 e2
  have hpos : 0 < g.y / m - f.y / m := by linarith
  refine ⟨?_, div_nonneg (by linarith) hpos.le, (div_le_one hpos).mpr (by linarith)⟩
  rw [vigFactor_eq, e1, e2]

/-- **vigFactor_in_hull**: both interpolated factors lie between the smallest and the largest
factor of the defined fields — for *every* non-empty field list and every `(Hx, Hy)` (no ordering or
distinctness needed: the hull property survives clamping, `max_y = 0`, even unsorted knots). -/
theorem vigFactor_in_hull (fs : List (FieldRec ℝ)) (Hx Hy lo hi : ℝ) (hne : fs ≠ [])
    (hvx : ∀ f ∈ fs, lo ≤ f.vx ∧ f.vx ≤ hi) (hvy : ∀ f ∈ fs, lo ≤ f.vy ∧ f.vy ≤ hi) :
    (lo ≤ (vigFactor fs Hx Hy).1 ∧ (vigFactor fs Hx Hy).1 ≤ hi) ∧
    (lo ≤ (vigFactor fs Hx Hy).2 ∧ (vigFactor fs Hx Hy).2 ≤ hi) := by
  rw [vigFactor_eq]
  constructor
  · apply interp_hull _ lo hi _ (vigKnots_ne_nil fs _ hne)
    intro p hp
    obtain ⟨f, hf, hv, -⟩ := vigKnots_value fs _ p hp
    rw [hv]; exact hvx f hf
  · apply interp_hull _ lo hi _ (vigKnots_ne_nil fs _ hne)
    intro p hp
    obtain ⟨f, hf, hv, -⟩ := vigKnots_value fs _ p hp
    rw [hv]; exact hvy f hf

/-- factors in `[0,1]` for all defined fields ⇒ in `[0,1]` everywhere, so the pupil only shrinks -/
theorem vigFactor_unit_interval (fs : List (FieldRec ℝ)) (Hx Hy : ℝ) (hne : fs ≠ [])
    (hv : ∀ f ∈ fs, (0 ≤ f.vx ∧ f.vx ≤ 1) ∧ (0 ≤ f.vy ∧ f.vy ≤ 1)) (P : ℝ) :
    |P * (1 - (vigFactor fs Hx Hy).1)| ≤ |P| ∧ |P * (1 - (vigFactor fs Hx Hy).2)| ≤ |P| := by
  obtain ⟨h1, h2⟩ := vigFactor_in_hull fs Hx Hy 0 1 hne (fun f hf => (hv f hf).1) (fun f hf => (hv f hf).2)
  exact ⟨vig_only_shrinks P _ h1.1 h1.2, vig_only_shrinks P _ h2.1 h2.2⟩


/-- **vigFactor_beyond_edge** (clamping): at and beyond the largest defined field (`h ≥ 1`) the
factors are those of the field with the largest `y` -/
theorem vigFactor_beyond_edge (fs : List (FieldRec ℝ)) (g : FieldRec ℝ) (Hx Hy : ℝ) (hg : g ∈ fs)
    (hd : (fs.map (·.y)).Nodup) (hm : 0 < npMaxL (fs.map (·.y))) (hgy : g.y = npMaxL (fs.map (·.y)))
    (hh : 1 ≤ Real.sqrt (Hx * Hx + Hy * Hy)) : vigFactor fs Hx Hy = (g.vx, g.vy) := by
  have hmne := ne_of_gt hm
  have hmax : ∀ sel : ℝ × ℝ → ℝ, ∀ r ∈ vigKnots fs sel, r.1 ≤ g.y / npMaxL (fs.map (·.y)) := by
    intro sel r hr
    obtain ⟨e, he, -, hk⟩ := vigKnots_value fs sel r hr
    rw [if_neg hmne] at hk
    rw [hk]
    exact div_le_div_of_nonneg_right (hgy ▸ npMaxL_ge _ _ (List.mem_map.mpr ⟨e, he, rfl⟩)) hm.le
  have hx : g.y / npMaxL (fs.map (·.y)) ≤ Real.sqrt (Hx * Hx + Hy * Hy) := by
    rw [hgy, div_self hmne]; exact hh
  rw [vigFactor_eq,
    interp_clamp_right _ (g.y / npMaxL (fs.map (·.y)), g.vx) _ (vigKnots_strict fs Prod.fst hd hm)
      (vigKnots_mem fs Prod.fst g hg hmne) (hmax Prod.fst) hx,
    interp_clamp_right _ (g.y / npMaxL (fs.map (·.y)), g.vy) _ (vigKnots_strict fs Prod.snd hd hm)
      (vigKnots_mem fs Prod.snd g hg hmne) (hmax Prod.snd) hx]

/-- **vigFactor_below_first** (clamping): when no field is defined on axis, every field point inside
the smallest defined field gets that field's factors -/
theorem vigFactor_below_first (fs : List (FieldRec ℝ)) (f : FieldRec ℝ) (Hx Hy : ℝ) (hf : f ∈ fs)
    (hd : (fs.map (·.y)).Nodup) (hm : 0 < npMaxL (fs.map (·.y))) (hmin : ∀ e ∈ fs, f.y ≤ e.y)
    (hh : Real.sqrt (Hx * Hx + Hy * Hy) ≤ f.y / npMaxL (fs.map (·.y))) :
    vigFactor fs Hx Hy = (f.vx, f.vy) := by
  have hmne := ne_of_gt hm
  have hmin' : ∀ sel : ℝ × ℝ → ℝ, ∀ r ∈ vigKnots fs sel, f.y / npMaxL (fs.map (·.y)) ≤ r.1 := by
    intro sel r hr
    obtain ⟨e, he, -, hk⟩ := vigKnots_value fs sel r hr
    rw [if_neg hmne] at hk
    rw [hk]
    exact div_le_div_of_nonneg_right (hmin e he) hm.le
  rw [vigFactor_eq,
    interp_clamp_left' _ (f.y / npMaxL (fs.map (·.y)), f.vx) _ (vigKnots_strict fs Prod.fst hd hm)
      (vigKnots_mem fs Prod.fst f hf hmne) (hmin' Prod.fst) hh,
    interp_clamp_left' _ (f.y / npMaxL (fs.map (·.y)), f.vy) _ (vigKnots_strict fs Prod.snd hd hm)
      (vigKnots_mem fs Prod.snd f hf hmne) (hmin' Prod.snd) hh]

/-- a single field (e.g. only the on-axis field, `max_y = 0`): its factors everywhere -/
theorem vigFactor_single_field (f : FieldRec ℝ) (Hx Hy : ℝ) : vigFactor [f] Hx Hy = (f.vx, f.vy) := by
  rw [vigFactor_eq]
  simp [vigKnots, sortBy, insertBy, interp]

/-! ## 6. how often `(1 − v)` is applied by each entry point -/

/-- `trace_generic` is `generate_rays` on pupil coordinates already multiplied by `(1 − v)` (also in
the error cases) -/
theorem genericLaunch_eq (S : RGSys ℝ) (Hx Hy Px Py : ℝ) :
    genericLaunch S Hx Hy Px Py =
      generateRay S Hx Hy (Px * (1 - (vigFactor S.fields Hx Hy).1)) (Py * (1 - (vigFactor S.fields Hx Hy).2)) := by
  unfold genericLaunch
  cases hx : S.fields.any (fun f => !(Num.isZero f.x)) with
  | true => rw [if_pos rfl, generateRay_fields_error S Hx Hy _ _ hx]
  | false => simp only [Bool.false_eq_true, if_false]

theorem vig_shrinks_twice (P v : ℝ) (h0 : 0 ≤ v) (h1 : v ≤ 1) : |P * (1 - v)^2| ≤ |P| := by
  rw [sq, ← mul_assoc]
  exact le_trans (vig_only_shrinks _ v h0 h1) (vig_only_shrinks P v h0 h1)

theorem vig_shrinks_thrice (P v : ℝ) (h0 : 0 ≤ v) (h1 : v ≤ 1) : |P * (1 - v)^3| ≤ |P| := by
  rw [show P * (1 - v)^3 = P * (1 - v)^2 * (1 - v) by ring]
  exact le_trans (vig_only_shrinks _ v h0 h1) (vig_shrinks_twice P v h0 h1)

/-- **genericLaunch_scaling.**  Pupil point hit in the plane `z = EPL`, in units of `EPD/2`, for a
requested normalised pupil coordinate `(Px, Py)` (non-telecentric, start plane ≠ pupil plane):
* `generate_rays`      : `(Px·(1−vx),  Py·(1−vy))`   — `generateRay_hits_pupil`;
* `Optic.trace_generic`: `(Px·(1−vx)², Py·(1−vy)²)`  — this theorem;
* `Optic.trace` with a named distribution: `(px·(1−vx)³, py·(1−vy)³)` for the raw distribution point
  `(px, py)` — `traceLaunch_scaling`.
In each case, for factors in `[0,1]`, `|launched| ≤ |requested|`. -/
theorem genericLaunch_scaling (S : RGSys ℝ) (Hx Hy Px Py : ℝ) (r : Ray ℝ)
    (ht : S.telecentric = false) (h : genericLaunch S Hx Hy Px Py = .ok r) (hz : r.z ≠ EPL S.psys) :
    let v := vigFactor S.fields Hx Hy
    (∃ mag, 0 < mag ∧ r.L^2 + r.M^2 + r.N^2 = 1 ∧
      r.x + mag * r.L = (Px * (1 - v.1)^2) * (EPD S.psys / 2) ∧
      r.y + mag * r.M = (Py * (1 - v.2)^2) * (EPD S.psys / 2) ∧
      r.z + mag * r.N = EPL S.psys) ∧
    (0 ≤ v.1 → v.1 ≤ 1 → |Px * (1 - v.1)^2| ≤ |Px|) ∧
    (0 ≤ v.2 → v.2 ≤ 1 → |Py * (1 - v.2)^2| ≤ |Py|) := by
  intro v
  rw [genericLaunch_eq] at h
  obtain ⟨mag, hm, hu, h1, h2, h3⟩ := generateRay_hits_pupil S Hx Hy _ _ r ht h hz
  refine ⟨⟨mag, hm, hu, ?_, ?_, h3⟩, vig_shrinks_twice Px v.1, vig_shrinks_twice Py v.2⟩
  · rw [h1]; ring
  · rw [h2]; ring

/-- the same for `Optic.trace` with a named distribution (`Launch.traceLaunch`, raw distribution
point `(px, py)` as produced by the model's `dist*`): third power -/
theorem traceLaunch_scaling (S : RGSys ℝ) (Hx Hy px py : ℝ) (r : Ray ℝ)
    (ht : S.telecentric = false) (h : traceLaunch S Hx Hy px py = .ok r) (hz : r.z ≠ EPL S.psys) :
    let v := vigFactor S.fields Hx Hy
    (∃ mag, 0 < mag ∧ r.L^2 + r.M^2 + r.N^2 = 1 ∧
      r.x + mag * r.L = (px * (1 - v.1)^3) * (EPD S.psys / 2) ∧
      r.y + mag * r.M = (py * (1 - v.2)^3) * (EPD S.psys / 2) ∧
      r.z + mag * r.N = EPL S.psys) ∧
    (0 ≤ v.1 → v.1 ≤ 1 → |px * (1 - v.1)^3| ≤ |px|) ∧
    (0 ≤ v.2 → v.2 ≤ 1 → |py * (1 - v.2)^3| ≤ |py|) := by
  intro v
  unfold traceLaunch at h
  obtain ⟨mag, hm, hu, h1, h2, h3⟩ := generateRay_hits_pupil S Hx Hy _ _ r ht h hz
  refine ⟨⟨mag, hm, hu, ?_, ?_, h3⟩, vig_shrinks_thrice px v.1, vig_shrinks_thrice py v.2⟩
  · rw [h1]; ring
  · rw [h2]; ring

/-- `trace` on the raw point = `trace_generic` on the point scaled once = `generate_rays` on the
point scaled twice -/
theorem traceLaunch_eq (S : RGSys ℝ) (Hx Hy px py : ℝ) :
    traceLaunch S Hx Hy px py =
      genericLaunch S Hx Hy (px * (1 - (vigFactor S.fields Hx Hy).1)) (py * (1 - (vigFactor S.fields Hx Hy).2)) := by
  rw [genericLaunch_eq]; rfl

/-! ## non-vacuity of the extensions (concrete systems: `Proofs/LaunchEx.lean`) -/

/-- 1. a 5°/10° field of the infinite-object system, pupil point (0.3, −0.4) -/
example := infinite_object_direction exInf 0.5 1 0.3 (-0.4) exhx rfl rfl rfl
  (by rw [exInfD, exInfPos1]; norm_num)
example := infinite_object_direction_same exInf 0.5 1 0.3 (-0.4) (-1) 0 exhx rfl rfl rfl
  (by rw [exInfD, exInfPos1]; norm_num)
example := infinite_object_direction_tan exInf 0.5 1 0.3 (-0.4) exhx rfl rfl rfl exInfPos1
  (by rw [exInfD]; norm_num)
/-- the 10° field: direction `(0, sin 10°, cos 10°)` -/
example : ∃ r, generateRay exInf 0 1 0.3 (-0.4) = .ok r ∧ r.L = 0 ∧
    r.M = Real.sin (10 * 1 * (Real.pi / 180)) ∧ r.N = Real.cos (10 * 1 * (Real.pi / 180)) := by
  have := infinite_object_direction_cosines exInf 1 0.3 (-0.4) exhx rfl rfl rfl exInfPos1
    (by rw [exInfD]; norm_num)
    (by
      apply Real.cos_pos_of_mem_Ioo
      show -(Real.pi/2) < maxField exFields * 1 * (Real.pi / 180) ∧ maxField exFields * 1 * (Real.pi / 180) < Real.pi / 2
      rw [exMaxField]
      constructor <;> nlinarith [Real.pi_pos])
  rw [show maxField exInf.fields = 10 from exMaxField] at this
  exact this
/-- 2. -/
example := infinite_object_fills_pupil exInf 0.5 1 0.3 (-0.4) exhx rfl rfl rfl
  (by rw [exInfD, exInfPos1]; norm_num)
/-- 3. -/
example := finite_object_start_and_aim_height exFinH 0.5 1 0.3 (-0.4) exhx rfl rfl rfl
  (by rw [exFinHEPL]; show (0:ℝ) + posOf (exSurfs (-100)) 0 ≠ 0; rw [exPos0]; norm_num)
example := finite_object_start_and_aim_angle exFinA 0.5 1 0.3 (-0.4) exhx rfl rfl rfl
  (by rw [exFinAEPL]; show posOf (exSurfs (-100)) 0 ≠ 0; rw [exPos0]; norm_num)
example := finite_object_angle_chief exFinA 0.5 1 exhx rfl rfl rfl
  (by rw [exFinAEPL]; show posOf (exSurfs (-100)) 0 ≠ 0; rw [exPos0]; norm_num)
/-- 4. -/
example := telecentric_object_space exTele 0.5 1 0.3 (-0.4) exhx rfl rfl rfl rfl
  (by show (0:ℝ) < 0.1; norm_num) (by show (0.1:ℝ) < 1; norm_num)
example := telecentric_chief_parallel exTele 0.5 1 exhx rfl rfl rfl rfl
  (by show (0:ℝ) < 0.1; norm_num) (by show (0.1:ℝ) < 1; norm_num)
/-- at the edge field `(Hx, Hy) = (0, 1)` and at `(0.6, 0.8)`: the edge field's factors -/
example : vigFactor exFields 0 1 = (0.1, 0.2) := by
  have := vigFactor_at_field exFields ⟨0, 10, 0.1, 0.2⟩ exField1 exNodup exMaxPos (by norm_num)
  rw [exMaxY] at this
  simpa using this
example : vigFactor exFields 0.6 0.8 = (0.1, 0.2) :=
  vigFactor_endpoints exFields ⟨0, 10, 0.1, 0.2⟩ 0.6 0.8 exField1 exNodup exMaxPos (by
    rw [exMaxY, show (0.6 * 0.6 + 0.8 * 0.8 : ℝ) = 1 by norm_num, Real.sqrt_one]; norm_num)
/-- half-way between the two fields: half the edge factors -/
example : vigFactor exFields 0.3 0.4 = (0.05, 0.1) := by
  have := (vigFactor_linear exFields ⟨0, 0, 0, 0⟩ ⟨0, 10, 0.1, 0.2⟩ 0.3 0.4 exField0 exField1 exNodup exMaxPos
    (by norm_num) (by simp [exFields])
    (by rw [exMaxY, exSqrt]; norm_num) (by rw [exMaxY, exSqrt]; norm_num)).1
  rw [this, exMaxY, exSqrt]; norm_num
/-- the order in which the two fields were added does not matter -/
example (Hx Hy : ℝ) : vigFactor exFields Hx Hy = vigFactor [⟨0, 10, 0.1, 0.2⟩, ⟨0, 0, 0, 0⟩] Hx Hy :=
  vigFactor_order_independent _ _ Hx Hy (List.Perm.swap _ _ _) exNodup
example (Hx Hy : ℝ) := vigFactor_in_hull exFields Hx Hy 0 0.2 (by simp [exFields])
  (by simp [exFields]; norm_num) (by simp [exFields]; norm_num)
example (Hx Hy P : ℝ) := vigFactor_unit_interval exFields Hx Hy (by simp [exFields])
  (by simp [exFields]; norm_num) P
example : (sortBy [((3:ℝ), 'a'), (1, 'b'), (2, 'c')]).Perm [(3, 'a'), (1, 'b'), (2, 'c')] := sortBy_perm _
example : (sortBy [((3:ℝ), 'a'), (1, 'b'), (2, 'c')]).Pairwise (fun a b => a.1 < b.1) :=
  (sortBy_sorted _).2 (by simp)
example : sortBy [((3:ℝ), 'a'), (1, 'b'), (2, 'c')] = sortBy [(1, 'b'), (2, 'c'), (3, 'a')] :=
  sortBy_order_independent _ _ ((List.Perm.swap _ _ _).trans ((List.Perm.swap _ _ _).cons _))
    (by simp)
/-- 4. (continued) on-axis field, marginal pupil point (0.6, 0.8): `L² + M² = NA²` -/
example := telecentric_na exTele 0 0 0.6 0.8 exhx rfl rfl rfl rfl
  (by show (0:ℝ) < 0.1; norm_num) (by show (0.1:ℝ) < 1; norm_num) (by norm_num)
  (by show vigFactor exFields 0 0 = (0, 0)
      simpa using vigFactor_at_field exFields ⟨0, 0, 0, 0⟩ exField0 exNodup exMaxPos (by norm_num))
/-- 3./6. a successful launch with start plane ≠ pupil plane, for each entry point -/
example : ∃ r, generateRay exFinH 0.5 1 0.3 (-0.4) = .ok r ∧ r.z ≠ EPL exFinH.psys := by
  obtain ⟨r, hr, -, -, hz, -⟩ := finite_object_start_and_aim_height exFinH 0.5 1 0.3 (-0.4) exhx rfl rfl rfl
    (by rw [exFinHEPL]; show (0:ℝ) + posOf (exSurfs (-100)) 0 ≠ 0; rw [exPos0]; norm_num)
  refine ⟨r, hr, ?_⟩
  rw [hz, exFinHEPL]; show (0:ℝ) + posOf (exSurfs (-100)) 0 ≠ 0; rw [exPos0]; norm_num
example : ∃ r, genericLaunch exFinH 0.5 1 0.3 (-0.4) = .ok r ∧ r.z ≠ EPL exFinH.psys := by
  rw [genericLaunch_eq]
  obtain ⟨r, hr, -, -, hz, -⟩ := finite_object_start_and_aim_height exFinH 0.5 1
    (0.3 * (1 - (vigFactor exFinH.fields 0.5 1).1)) (-0.4 * (1 - (vigFactor exFinH.fields 0.5 1).2)) exhx rfl rfl rfl
    (by rw [exFinHEPL]; show (0:ℝ) + posOf (exSurfs (-100)) 0 ≠ 0; rw [exPos0]; norm_num)
  refine ⟨r, hr, ?_⟩
  rw [hz, exFinHEPL]; show (0:ℝ) + posOf (exSurfs (-100)) 0 ≠ 0; rw [exPos0]; norm_num
example : ∃ r, traceLaunch exFinH 0.5 1 0.3 (-0.4) = .ok r ∧ r.z ≠ EPL exFinH.psys := by
  unfold traceLaunch
  obtain ⟨r, hr, -, -, hz, -⟩ := finite_object_start_and_aim_height exFinH 0.5 1
    (0.3 * (1 - (vigFactor exFinH.fields 0.5 1).1) * (1 - (vigFactor exFinH.fields 0.5 1).1))
    (-0.4 * (1 - (vigFactor exFinH.fields 0.5 1).2) * (1 - (vigFactor exFinH.fields 0.5 1).2)) exhx rfl rfl rfl
    (by rw [exFinHEPL]; show (0:ℝ) + posOf (exSurfs (-100)) 0 ≠ 0; rw [exPos0]; norm_num)
  refine ⟨r, hr, ?_⟩
  rw [hz, exFinHEPL]; show (0:ℝ) + posOf (exSurfs (-100)) 0 ≠ 0; rw [exPos0]; norm_num
example : |(0.3:ℝ) * (1 - 0.1)^2| ≤ |0.3| ∧ |(0.3:ℝ) * (1 - 0.1)^3| ≤ |0.3| :=
  ⟨vig_shrinks_twice 0.3 0.1 (by norm_num) (by norm_num), vig_shrinks_thrice 0.3 0.1 (by norm_num) (by norm_num)⟩
/-- a field with non-zero `x` is refused -/
example := rejected_nonsymmetric_fields ⟨exInf.psys, [⟨1, 0, 0, 0⟩], false, true, 0, 0⟩ 0 0 0 0
  (by simp [Num.isZero, NumReal.le_decide, NumReal.fzero_eq])

/-- 5. (continued) clamping beyond the edge field, e.g. `(Hx, Hy) = (0.9, 0.8)` -/
example : vigFactor exFields 0.9 0.8 = (0.1, 0.2) :=
  vigFactor_beyond_edge exFields ⟨0, 10, 0.1, 0.2⟩ 0.9 0.8 exField1 exNodup exMaxPos exMaxY.symm (by
    rw [show (1:ℝ) = Real.sqrt 1 from Real.sqrt_one.symm]
    exact Real.sqrt_le_sqrt (by norm_num))
/-- fields `y = 5, 10` only: inside the first field its factors are used -/
example : vigFactor ([⟨0, 5, 0.05, 0.1⟩, ⟨0, 10, 0.1, 0.2⟩] : List (FieldRec ℝ)) 0 0 = (0.05, 0.1) := by
  have hmax : npMaxL (([⟨0, 5, 0.05, 0.1⟩, ⟨0, 10, 0.1, 0.2⟩] : List (FieldRec ℝ)).map (·.y)) = 10 := by
    simp [npMaxL, NumReal.lt_decide]; norm_num
  exact vigFactor_below_first [⟨0, 5, 0.05, 0.1⟩, ⟨0, 10, 0.1, 0.2⟩] ⟨0, 5, 0.05, 0.1⟩ 0 0
    (by simp) (by simp) (by rw [hmax]; norm_num) (by simp; norm_num) (by rw [hmax]; simp; norm_num)
example (Hx Hy : ℝ) : vigFactor [(⟨0, 0, 0.3, 0.4⟩ : FieldRec ℝ)] Hx Hy = (0.3, 0.4) :=
  vigFactor_single_field _ Hx Hy

end C03
