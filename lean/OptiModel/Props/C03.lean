import OptiModel.Model.RayGen
import OptiModel.Proofs.NumReal
import Mathlib.Tactic.FieldSimp
import Mathlib.Tactic.Ring
import Mathlib.Tactic.LinearCombination
import Mathlib.Tactic.Positivity
import Mathlib.Tactic.Linarith
/-!
# C03  Rays start at the requested field point and aim at the requested pupil point
Theorems over ℝ about `Model/RayGen.lean`.
-/
namespace C03
open Model

/-! ### the launch: origin + mag · direction = aim point, unit direction -/

/-- **ray_hits_aim_point** (algebraic core of `generate_rays`): whatever origin `(x0,y0,z0)` and aim
point `(x1,y1,z1)` were computed, the direction is a unit vector and the ray passes through the
aim point at parameter `mag`, provided the two points differ. -/
theorem launch_hits_aim (x0 y0 z0 x1 y1 z1 : ℝ)
    (hne : (x1 - x0)*(x1 - x0) + (y1 - y0)*(y1 - y0) + (z1 - z0)*(z1 - z0) ≠ 0) :
    let mag := Real.sqrt ((x1 - x0)*(x1 - x0) + (y1 - y0)*(y1 - y0) + (z1 - z0)*(z1 - z0))
    let L := (x1 - x0)/mag
    let M := (y1 - y0)/mag
    let N := (z1 - z0)/mag
    L^2 + M^2 + N^2 = 1 ∧ x0 + mag*L = x1 ∧ y0 + mag*M = y1 ∧ z0 + mag*N = z1 := by
  intro mag L M N
  have hpos : 0 < (x1 - x0)*(x1 - x0) + (y1 - y0)*(y1 - y0) + (z1 - z0)*(z1 - z0) := by
    rcases lt_or_gt_of_ne hne with h | h
    · nlinarith [mul_self_nonneg (x1 - x0), mul_self_nonneg (y1 - y0), mul_self_nonneg (z1 - z0)]
    · exact h
  have hm : 0 < mag := Real.sqrt_pos.mpr hpos
  have hmm : mag^2 = (x1 - x0)*(x1 - x0) + (y1 - y0)*(y1 - y0) + (z1 - z0)*(z1 - z0) :=
    Real.sq_sqrt hpos.le
  have hne' : mag ≠ 0 := ne_of_gt hm
  simp only [L, M, N]
  refine ⟨?_, ?_, ?_, ?_⟩
  · field_simp; linear_combination -hmm
  · field_simp; ring
  · field_simp; ring
  · field_simp; ring

/-- the model's `generateRay`, when it succeeds in the non-telecentric branch, returns exactly this
launch towards `(Px·EPD·vx/2, Py·EPD·vy/2, EPL)` with intensity 1 and path 0 -/
theorem generateRay_start_values (S : RGSys ℝ) (Hx Hy Px Py : ℝ) (r : Ray ℝ)
    (h : generateRay S Hx Hy Px Py = .ok r) : r.i = 1 ∧ r.opd = 0 := by
  unfold generateRay at h
  split at h
  · exact absurd h (by simp)
  · simp only at h
    split at h
    · exact absurd h (by simp)
    · split at h
      · exact absurd h (by simp)
      · injection h with h
        rw [← h]
        exact ⟨rfl, rfl⟩

/-! ### rejected combinations -/

/-- **rejected_combinations**: the four unrepresentable combinations are errors, for every lens
and every requested ray -/
theorem rejected_infinite_height (S : RGSys ℝ) (Hx Hy Px Py vx vy : ℝ)
    (hinf : S.psys.objInf = true) (hf : S.psys.fieldType = .objectHeight) :
    rayOrigin S Hx Hy Px Py vx vy = .error .valueError := by
  unfold rayOrigin; simp [hinf, hf]

theorem rejected_infinite_telecentric (S : RGSys ℝ) (Hx Hy Px Py vx vy : ℝ)
    (hinf : S.psys.objInf = true) (ht : S.telecentric = true) :
    ∃ e, rayOrigin S Hx Hy Px Py vx vy = .error e := by
  unfold rayOrigin
  cases hf : S.psys.fieldType <;> simp [hinf, hf, ht]

theorem rejected_generate (S : RGSys ℝ) (Hx Hy Px Py : ℝ)
    (h : (S.psys.objInf = true ∧ S.psys.fieldType = .objectHeight) ∨
         (S.psys.objInf = true ∧ S.telecentric = true) ∨
         (S.telecentric = true ∧ S.psys.fieldType = .angle) ∨
         (S.telecentric = true ∧ (S.psys.apType = .EPD ∨ S.psys.apType = .imageFNO))) :
    ∃ e, generateRay S Hx Hy Px Py = .error e := by
  unfold generateRay
  split
  · exact ⟨_, rfl⟩
  · simp only
    cases ho : rayOrigin S Hx Hy Px Py (1 - (vigFactor S.fields Hx Hy).1) (1 - (vigFactor S.fields Hx Hy).2) with
    | error e => exact ⟨e, rfl⟩
    | ok p =>
      obtain ⟨x0, y0, z0⟩ := p
      simp only
      rcases h with h | h | h | h
      · rw [rejected_infinite_height S _ _ _ _ _ _ h.1 h.2] at ho; exact absurd ho (by simp)
      · obtain ⟨e, he⟩ := rejected_infinite_telecentric S Hx Hy Px Py
          (1 - (vigFactor S.fields Hx Hy).1) (1 - (vigFactor S.fields Hx Hy).2) h.1 h.2
        rw [he] at ho; exact absurd ho (by simp)
      · simp only [h.1, if_true, h.2]
        exact ⟨_, rfl⟩
      · simp only [h.1, if_true]
        rcases h.2 with ha | ha <;> (cases hf : S.psys.fieldType <;> simp only [ha] <;> exact ⟨_, rfl⟩)

/-! ### pupil samplings: counts and the unit disk -/

theorem linspace_length (a b : ℝ) (n : Nat) : (linspace a b n).length = n := by
  unfold linspace
  match n with
  | 0 => rfl
  | 1 => rfl
  | n+2 => simp

theorem count_line_x (n : Nat) (p : Bool) : (distLineX (α := ℝ) n p).length = n := by
  simp [distLineX, linspace_length]
theorem count_line_y (n : Nat) (p : Bool) : (distLineY (α := ℝ) n p).length = n := by
  simp [distLineY, linspace_length]
theorem count_cross (n : Nat) : (distCross (α := ℝ) n).length = 2 * n := by
  simp [distCross, linspace_length]; omega
theorem count_ring (n : Nat) : (distRing (α := ℝ) n).length = n := by
  simp [distRing, linspace_length]

theorem sum_range_succ_mul (r : Nat) :
    ((List.range r).map fun i => 6 * (i + 1)).sum = 3 * r * (r + 1) := by
  induction r with
  | zero => rfl
  | succ r ih => rw [List.range_succ, List.map_append, List.sum_append, ih]; simp; ring

/-- **count_hexapolar**: `1 + 3 n (n+1)` points for `n` rings -/
theorem count_hexapolar (rings : Nat) : (distHexapolar (α := ℝ) rings).length = countHexapolar rings := by
  unfold distHexapolar countHexapolar
  simp only [List.length_cons, List.length_flatMap, List.length_map, List.length_dropLast, linspace_length]
  have : (List.map (fun i => 6 * (i + 1) + 1 - 1) (List.range rings)) =
      (List.range rings).map fun i => 6 * (i + 1) := by
    apply List.map_congr_left; intro i _; omega
  rw [this, sum_range_succ_mul]; omega

/-- every point of the ring sampling is on the unit circle -/
theorem ring_on_unit_circle (n : Nat) : ∀ p ∈ distRing (α := ℝ) n, p.1^2 + p.2^2 = 1 := by
  intro p hp
  simp only [distRing, List.mem_map] at hp
  obtain ⟨t, _, rfl⟩ := hp
  num_real
  exact Real.cos_sq_add_sin_sq t

/-- a point `r (cos t, sin t)` with `0 ≤ r ≤ 1` is inside the unit disk (hexapolar, random, GQ) -/
theorem polar_in_unit_disk (r t : ℝ) (h0 : 0 ≤ r) (h1 : r ≤ 1) :
    (r * Real.cos t)^2 + (r * Real.sin t)^2 ≤ 1 := by
  have : (r * Real.cos t)^2 + (r * Real.sin t)^2 = r^2 := by
    linear_combination r^2 * Real.cos_sq_add_sin_sq t
  rw [this]; nlinarith

/-- the uniform sampling keeps only points of the unit disk -/
theorem uniform_in_unit_disk (n : Nat) : ∀ p ∈ distUniform (α := ℝ) n, p.1*p.1 + p.2*p.2 ≤ 1 := by
  intro p hp
  simp only [distUniform, List.mem_filter] at hp
  have := hp.2
  num_real
  exact this

/-- the `i`-th radius `i/n` of the hexapolar rings is at most 1 -/
theorem hexapolar_radius_le_one (i n : Nat) (hi : i ≤ n) (hn : 0 < n) :
    (0:ℝ) ≤ (i:ℝ) * ((1 - 0) / (n:ℝ)) + 0 ∧ (i:ℝ) * ((1 - 0) / (n:ℝ)) + 0 ≤ 1 := by
  have hn' : (0:ℝ) < n := by exact_mod_cast hn
  have hi' : (i:ℝ) ≤ n := by exact_mod_cast hi
  constructor
  · positivity
  · rw [add_zero, sub_zero, mul_one_div, div_le_one hn']; exact hi'

/-! ### vignetting -/

/-- **vig_only_shrinks** -/
theorem vig_only_shrinks (P v : ℝ) (h0 : 0 ≤ v) (h1 : v ≤ 1) : |P * (1 - v)| ≤ |P| := by
  rw [abs_mul]
  have : |1 - v| ≤ 1 := by rw [abs_le]; constructor <;> linarith
  calc |P| * |1 - v| ≤ |P| * 1 := by apply mul_le_mul_of_nonneg_left this (abs_nonneg _)
    _ = |P| := mul_one _

/-- all ordinates lie in [lo, hi] -/
def Within (lo hi : ℝ) (l : List (ℝ × ℝ)) : Prop := ∀ p ∈ l, lo ≤ p.2 ∧ p.2 ≤ hi
/-- knots strictly increasing -/
def Incr : List (ℝ × ℝ) → Prop
  | [] => True
  | [_] => True
  | p :: q :: rest => p.1 < q.1 ∧ Incr (q :: rest)

/-- **interp_in_hull**: the interpolated vignetting factor never leaves the hull of the field
factors -/
theorem interp_in_hull (x lo hi : ℝ) : ∀ (l : List (ℝ × ℝ)), l ≠ [] → Incr l → Within lo hi l →
    lo ≤ interp x l ∧ interp x l ≤ hi
  | [], h, _, _ => absurd rfl h
  | [p], _, _, hw => by simpa [interp] using hw p (by simp)
  | p :: q :: rest, _, hinc, hw => by
      have hp := hw p (by simp)
      have hq := hw q (by simp)
      unfold interp
      num_real
      split_ifs with h1 h2 h3
      · exact hp
      · exact hp
      · have hpos : 0 < q.1 - p.1 := by linarith [hinc.1]
        have hx0 : 0 ≤ x - p.1 := by linarith [not_lt.mp h1]
        have hx1 : x - p.1 ≤ q.1 - p.1 := by linarith
        set w := (x - p.1) / (q.1 - p.1) with hwdef
        have hw0 : 0 ≤ w := div_nonneg hx0 hpos.le
        have hw1 : w ≤ 1 := (div_le_one hpos).mpr hx1
        have e : (q.2 - p.2) / (q.1 - p.1) * (x - p.1) + p.2 = p.2 + w * (q.2 - p.2) := by
          rw [hwdef]; field_simp; ring
        rw [e]
        constructor <;> nlinarith [hp.1, hp.2, hq.1, hq.2]
      · exact interp_in_hull x lo hi (q :: rest) (by simp) hinc.2
          (fun r hr => hw r (by simp [List.mem_cons] at hr ⊢; tauto))

/-- at and left of the first knot the first table value is returned (clamping) -/
theorem interp_clamp_left (x : ℝ) (p : ℝ × ℝ) (rest : List (ℝ × ℝ)) (h : x < p.1) :
    interp x (p :: rest) = p.2 := by
  cases rest with
  | nil => simp [interp]
  | cons q r => unfold interp; num_real; simp [h]

/-! ### non-vacuity -/
example : (1 - 0)*(1 - 0) + (0.5 - 0)*(0.5 - 0) + (10 - (0:ℝ))*(10 - 0) ≠ 0 := by norm_num

end C03
