import OptiModel.Model.Parax
import OptiModel.Proofs.NumReal
import OptiModel.Proofs.Cardinal
import Mathlib.Tactic.FieldSimp
import Mathlib.Tactic.Ring
import Mathlib.Tactic.LinearCombination
import Mathlib.Tactic.NormNum
import Mathlib.Tactic.Linarith
/-!
# C04  Paraxial properties equal matrix optics

Theorems about `Model/Parax.lean` over ℝ.  Planes are encoded as `r = 0` (curvature
`1/r = 0` in Mathlib), matching `(n2-n1)/inf = 0` over `Float`.

Specification side: 2×2 ray-transfer matrices, `T(t) = [[1,t],[0,1]]`,
`R(n,n',c) = [[1,0],[-(n'-n)c/n', n/n']]`, mirror `[[1,0],[-2c,-1]]` (index sign reversal).
-/
namespace C04
open Model Cardinal

/-- 2×2 real matrix `[[a,b],[c,d]]` -/
structure M2 where
  a : ℝ
  b : ℝ
  c : ℝ
  d : ℝ

def M2.one : M2 := ⟨1, 0, 0, 1⟩
def M2.mul (m n : M2) : M2 :=
  ⟨m.a*n.a + m.b*n.c, m.a*n.b + m.b*n.d, m.c*n.a + m.d*n.c, m.c*n.b + m.d*n.d⟩
def M2.det (m : M2) : ℝ := m.a*m.d - m.b*m.c
/-- apply to the column vector (y,u) -/
def M2.ap (m : M2) (y u : ℝ) : ℝ × ℝ := (m.a*y + m.b*u, m.c*y + m.d*u)

/-- transfer over axial distance `t` -/
def T (t : ℝ) : M2 := ⟨1, t, 0, 1⟩
/-- refraction from index `n` to `n'` at a surface of curvature `c` -/
noncomputable def R (n n' c : ℝ) : M2 := ⟨1, 0, -((n' - n) * c) / n', n / n'⟩
/-- mirror of curvature `c` (the refraction matrix with `n' = -n`) -/
def Mir (c : ℝ) : M2 := ⟨1, 0, -(2*c), -1⟩

theorem mirror_is_index_reversal (n c : ℝ) (hn : n ≠ 0) : R n (-n) c = Mir c := by
  simp only [R, Mir, M2.mk.injEq, true_and]
  constructor <;> field_simp <;> ring

/-- element matrix of a surface reached after an axial transfer `t` -/
noncomputable def elem (s : PSurf ℝ) (t : ℝ) : M2 :=
  match s.kind with
  | .object => M2.one
  | .standard => (if s.refl then Mir (1 / s.r) else R s.n1 s.n2 (1 / s.r)).mul (T t)
  | .image => T t

/-- axially symmetric, standard-or-object surfaces with non-zero back index -/
def WF (ss : List (PSurf ℝ)) : Prop :=
  ∀ s ∈ ss, s.dy = 0 ∧ s.kind ≠ .image ∧ s.n2 ≠ 0

/-! ### one surface = one matrix -/

theorem pstepStd_eq_matrix (r : PRay ℝ) (s : PSurf ℝ) (hdy : s.dy = 0) (hk : s.kind = .standard)
    (hn : s.n2 ≠ 0) :
    ((pstepStd r s).y, (pstepStd r s).u) = (elem s (s.z - r.z)).ap r.y r.u ∧ (pstepStd r s).z = s.z := by
  unfold pstepStd elem
  rw [hk]
  num_real
  rcases Bool.eq_false_or_eq_true s.refl with h | h
  · simp only [h, if_true, M2.mul, Mir, T, M2.ap, hdy, Prod.mk.injEq]
    refine ⟨⟨by ring, by ring⟩, by ring⟩
  · simp only [h, Bool.false_eq_true, if_false, M2.mul, R, T, M2.ap, hdy, Prod.mk.injEq]
    refine ⟨⟨by ring, ?_⟩, by ring⟩
    field_simp
    ring

theorem pstepImg_eq_matrix (r : PRay ℝ) (s : PSurf ℝ) (hdy : s.dy = 0) :
    ((pstepImg r s).y, (pstepImg r s).u) = (T (s.z - r.z)).ap r.y r.u := by
  unfold pstepImg
  num_real
  simp only [T, M2.ap, hdy, Prod.mk.injEq]
  constructor <;> ring

/-! ### the whole trace = running matrix product -/

/-- records predicted by matrix optics: `M` is the matrix accumulated so far from the launch
vector `(y0,u0)`, `z` the axial position of the ray -/
noncomputable def mrecs (M : M2) (z y0 u0 : ℝ) : List (PSurf ℝ) → List (PRay ℝ)
  | [] => []
  | s :: ss =>
    match s.kind with
    | .object => ⟨(M.ap y0 u0).1, (M.ap y0 u0).2, z⟩ :: mrecs M z y0 u0 ss
    | _ =>
      let M' := (elem s (s.z - z)).mul M
      ⟨(M'.ap y0 u0).1, (M'.ap y0 u0).2, s.z⟩ :: mrecs M' s.z y0 u0 ss

theorem ap_mul (m n : M2) (y u : ℝ) : (m.mul n).ap y u = m.ap (n.ap y u).1 (n.ap y u).2 := by
  simp only [M2.mul, M2.ap, Prod.mk.injEq]; constructor <;> ring

/-- **ptrace_eq_matrix**: every recorded (y,u) is the product of the element matrices applied to
the launch vector. -/
theorem ptrace_eq_matrix : ∀ (ss : List (PSurf ℝ)) (M : M2) (z y0 u0 : ℝ), WF ss →
    ptrace ⟨(M.ap y0 u0).1, (M.ap y0 u0).2, z⟩ ss = mrecs M z y0 u0 ss
  | [], _, _, _, _, _ => by simp [ptrace, mrecs]
  | s :: ss, M, z, y0, u0, hwf => by
    have hs := hwf s (by simp)
    have hwf' : WF ss := fun t ht => hwf t (by simp [ht])
    cases hk : s.kind with
    | object =>
      simp only [ptrace, pstep, hk, mrecs]
      rw [ptrace_eq_matrix ss M z y0 u0 hwf']
    | image => exact absurd hk hs.2.1
    | standard =>
      have h := pstepStd_eq_matrix ⟨(M.ap y0 u0).1, (M.ap y0 u0).2, z⟩ s hs.1 hk hs.2.2
      simp only [ptrace, pstep, hk, mrecs]
      obtain ⟨hyu, hz⟩ := h
      have e : pstepStd ⟨(M.ap y0 u0).1, (M.ap y0 u0).2, z⟩ s =
          ⟨(((elem s (s.z - z)).mul M).ap y0 u0).1, (((elem s (s.z - z)).mul M).ap y0 u0).2, s.z⟩ := by
        rw [ap_mul]
        cases hp : pstepStd ⟨(M.ap y0 u0).1, (M.ap y0 u0).2, z⟩ s with
        | mk y u z' =>
          rw [hp] at hyu hz
          simp only at hz hyu
          have hyu' := Prod.mk.inj hyu
          simp only [M2.ap] at hyu' ⊢
          rw [hyu'.1, hyu'.2, hz]
      rw [e, ptrace_eq_matrix ss _ s.z y0 u0 hwf']

/-- the trace started from an arbitrary ray -/
theorem ptrace_eq_matrix' (ss : List (PSurf ℝ)) (r : PRay ℝ) (hwf : WF ss) :
    ptrace r ss = mrecs M2.one r.z r.y r.u ss := by
  have := ptrace_eq_matrix ss M2.one r.z r.y r.u hwf
  simpa [M2.one, M2.ap] using this

/-! ### linearity -/

/-- linear combination of two rays given at the same axial position -/
def lin (c1 c2 : ℝ) (a b : PRay ℝ) : PRay ℝ := ⟨c1*a.y + c2*b.y, c1*a.u + c2*b.u, a.z⟩

/-- `AllLin c1 c2 as bs cs`: record-wise, `cs = c1·as + c2·bs` in height and slope -/
def AllLin (c1 c2 : ℝ) : List (PRay ℝ) → List (PRay ℝ) → List (PRay ℝ) → Prop
  | [], [], [] => True
  | a :: as, b :: bs, c :: cs => c.y = c1*a.y + c2*b.y ∧ c.u = c1*a.u + c2*b.u ∧ AllLin c1 c2 as bs cs
  | _, _, _ => False

theorem mrecs_linear (c1 c2 : ℝ) : ∀ (ss : List (PSurf ℝ)) (M : M2) (z ya ua yb ub : ℝ),
    AllLin c1 c2 (mrecs M z ya ua ss) (mrecs M z yb ub ss) (mrecs M z (c1*ya + c2*yb) (c1*ua + c2*ub) ss)
  | [], _, _, _, _, _, _ => by simp [mrecs, AllLin]
  | s :: ss, M, z, ya, ua, yb, ub => by
    cases hk : s.kind <;> simp only [mrecs, hk, AllLin, M2.ap] <;>
      refine ⟨by ring, by ring, mrecs_linear c1 c2 ss _ _ ya ua yb ub⟩

/-- **ptrace_linear**: paraxial ray data are linear in launch height and slope. -/
theorem ptrace_linear (ss : List (PSurf ℝ)) (a b : PRay ℝ) (c1 c2 : ℝ) (hz : a.z = b.z) (hwf : WF ss) :
    AllLin c1 c2 (ptrace a ss) (ptrace b ss) (ptrace (lin c1 c2 a b) ss) := by
  rw [ptrace_eq_matrix' ss a hwf, ptrace_eq_matrix' ss b hwf, ptrace_eq_matrix' ss _ hwf]
  simp only [lin, ← hz]
  exact mrecs_linear c1 c2 ss M2.one a.z a.y a.u b.y b.u

/-! ### Lagrange invariant -/

/-- running orientation after a surface: mirrors flip it (index sign reversal) -/
noncomputable def sgnIdx (σ : ℝ) (s : PSurf ℝ) : ℝ :=
  if s.kind = .standard ∧ s.refl = true then -σ else σ

/-- Lagrange invariant of two rays in the medium of index `n`, orientation `σ` -/
def lag (σ n : ℝ) (a b : PRay ℝ) : ℝ := σ * n * (b.y * a.u - a.y * b.u)

/-- media chain, mirrors keep the index, object/image surfaces have one medium -/
def Chained : ℝ → List (PSurf ℝ) → Prop
  | _, [] => True
  | n, s :: ss => s.n1 = n ∧ (s.kind ≠ .standard ∨ s.refl = true → s.n2 = s.n1) ∧ Chained s.n2 ss

theorem pstep_lagrange (a b : PRay ℝ) (s : PSurf ℝ) (σ : ℝ) (hz : a.z = b.z) (hdy : s.dy = 0)
    (hn2 : s.n2 ≠ 0) (hmir : s.kind ≠ .standard ∨ s.refl = true → s.n2 = s.n1) :
    lag (sgnIdx σ s) s.n2 (pstep a s) (pstep b s) = lag σ s.n1 a b ∧ (pstep a s).z = (pstep b s).z := by
  unfold lag sgnIdx pstep
  cases hk : s.kind with
  | object =>
    simp only [reduceCtorEq, false_and, if_false]
    rw [hmir (Or.inl (by simp [hk]))]; exact ⟨rfl, hz⟩
  | image =>
    simp only [reduceCtorEq, false_and, if_false, pstepImg]
    num_real
    rw [hmir (Or.inl (by simp [hk])), hz, hdy]; exact ⟨by ring, rfl⟩
  | standard =>
    simp only [pstepStd, true_and]
    num_real
    rcases Bool.eq_false_or_eq_true s.refl with h | h
    · simp only [h, if_true]; rw [hmir (Or.inr h), hz, hdy]; exact ⟨by ring, rfl⟩
    · simp only [h, Bool.false_eq_true, if_false]; rw [hz, hdy]
      refine ⟨?_, rfl⟩
      field_simp; ring

/-- `AllInv σ H ss as bs`: every recorded pair of rays has signed invariant `H` in the medium
behind its surface -/
def AllInv : ℝ → ℝ → List (PSurf ℝ) → List (PRay ℝ) → List (PRay ℝ) → Prop
  | _, _, [], [], [] => True
  | σ, H, s :: ss, a :: as, b :: bs =>
      lag (sgnIdx σ s) s.n2 a b = H ∧ AllInv (sgnIdx σ s) H ss as bs
  | _, _, _, _, _ => False

def WFL (ss : List (PSurf ℝ)) : Prop := ∀ s ∈ ss, s.dy = 0 ∧ s.n2 ≠ 0

/-- **lagrange_invariant**: for any two rays launched at one axial position, the signed
invariant `σ_k n_k (ȳ_k u_k − y_k ū_k)` has the same value at every surface. -/
theorem lagrange_invariant : ∀ (ss : List (PSurf ℝ)) (a b : PRay ℝ) (σ n : ℝ),
    a.z = b.z → Chained n ss → WFL ss →
    AllInv σ (lag σ n a b) ss (ptrace a ss) (ptrace b ss)
  | [], _, _, _, _, _, _, _ => by simp [ptrace, AllInv]
  | s :: ss, a, b, σ, n, hz, hch, hwf => by
      obtain ⟨hn1, hmir, hch'⟩ := hch
      have hs := hwf s (by simp)
      obtain ⟨hstep, hz'⟩ := pstep_lagrange a b s σ hz hs.1 hs.2 hmir
      simp only [ptrace, AllInv]
      refine ⟨by rw [hstep, hn1], ?_⟩
      have ih := lagrange_invariant ss (pstep a s) (pstep b s) (sgnIdx σ s) s.n2 hz' hch'
        (fun t ht => hwf t (by simp [ht]))
      rw [hstep, hn1] at ih
      exact ih

/-! ### focal length and back focal distance from the system matrix -/

/-- system matrix of a surface list for a ray given at axial position `z` -/
noncomputable def sysMat (z : ℝ) : List (PSurf ℝ) → M2
  | [] => M2.one
  | s :: ss =>
    match s.kind with
    | .object => sysMat z ss
    | _ => (sysMat s.z ss).mul (elem s (s.z - z))

theorem mul_assoc' (a b c : M2) : (a.mul b).mul c = a.mul (b.mul c) := by
  simp only [M2.mul, M2.mk.injEq]; refine ⟨?_, ?_, ?_, ?_⟩ <;> ring
theorem mul_one' (a : M2) : a.mul M2.one = a := by
  cases a; simp [M2.mul, M2.one]

theorem getLast?_cons_ne {β : Type} {l : List β} (h : l ≠ []) (a : β) : (a :: l).getLast? = l.getLast? := by
  cases l with
  | nil => contradiction
  | cons b l => simp [List.getLast?_cons_cons]

theorem mrecs_ne_nil (ss : List (PSurf ℝ)) (M : M2) (z y0 u0 : ℝ) (h : ss ≠ []) :
    mrecs M z y0 u0 ss ≠ [] := by
  cases ss with
  | nil => contradiction
  | cons s ss => cases hk : s.kind <;> simp [mrecs, hk]

/-- the last record of `mrecs` is the system matrix applied to the accumulated vector -/
theorem mrecs_last : ∀ (ss : List (PSurf ℝ)) (M : M2) (z y0 u0 : ℝ), ss ≠ [] →
    ((mrecs M z y0 u0 ss).map fun r => (r.y, r.u)).getLast? = some (((sysMat z ss).mul M).ap y0 u0)
  | [], _, _, _, _, h => absurd rfl h
  | s :: ss, M, z, y0, u0, _ => by
    by_cases hss : ss = []
    · subst hss
      cases hk : s.kind <;> simp [mrecs, hk, sysMat, M2.mul, M2.one, M2.ap]
    · have ih := fun M' z' => mrecs_last ss M' z' y0 u0 hss
      have hne := fun M' z' => mrecs_ne_nil ss M' z' y0 u0 hss
      cases hk : s.kind with
      | object =>
        simp only [mrecs, hk, sysMat, List.map_cons]
        rw [getLast?_cons_ne (by simpa using hne M z)]
        exact ih M z
      | image =>
        simp only [mrecs, hk, sysMat, List.map_cons]
        rw [getLast?_cons_ne (by simpa using hne _ s.z), mul_assoc']
        exact ih _ s.z
      | standard =>
        simp only [mrecs, hk, sysMat, List.map_cons]
        rw [getLast?_cons_ne (by simpa using hne _ s.z), mul_assoc']
        exact ih _ s.z

/-- the code's `-y[0]/u[-1]` and `-y[-1]/u[-1]` for the ray `(1,0)` launched one unit in front
of the first surface of `obj :: rest`: they are `-1/C` and `-A/C` of the system matrix.
(Before the repair of F8 `f2` returned the absolute value.) -/
theorem f2_F2_eq_matrix (obj : PSurf ℝ) (rest : List (PSurf ℝ)) (ap : ApType) (v : ℝ) (ft : FieldType)
    (my : ℝ) (oi : Bool) (hobj : obj.kind = .object) (hne : rest ≠ []) (hwf : WF (obj :: rest)) :
    let S : PSys ℝ := ⟨obj :: rest, ap, v, ft, my, oi⟩
    let M := sysMat (posOf S.surfs 1 - 1) rest
    f2 S = -1 / M.c ∧ F2 S = -M.a / M.c := by
  intro S M
  have hrs : traceGeneric S.surfs 1 0 (posOf S.surfs 1 - 1) false 0 =
      mrecs M2.one (posOf S.surfs 1 - 1) 1 0 (obj :: rest) := by
    simp only [traceGeneric, Bool.false_eq_true, if_false, List.drop_zero]
    exact ptrace_eq_matrix' _ _ hwf
  have hlast := mrecs_last rest M2.one (posOf S.surfs 1 - 1) 1 0 hne
  rw [mul_one'] at hlast
  have hfirst : first (ys (mrecs M2.one (posOf S.surfs 1 - 1) 1 0 (obj :: rest))) = 1 := by
    simp [mrecs, hobj, ys, first, M2.ap, M2.one]
  have hl : ∀ rs : List (PRay ℝ), (rs.map fun r => (r.y, r.u)).getLast? = some (M.ap 1 0) →
      last (ys rs) = M.a ∧ last (us rs) = M.c := by
    intro rs h
    have h1 : (ys rs).getLast? = some M.a := by
      have := congrArg (Option.map Prod.fst) h
      simpa [ys, M2.ap, List.getLast?_map, Function.comp_def] using this
    have h2 : (us rs).getLast? = some M.c := by
      have := congrArg (Option.map Prod.snd) h
      simpa [us, M2.ap, List.getLast?_map, Function.comp_def] using this
    simp only [last, List.getLastD_eq_getLast?, h1, h2, Option.getD_some, and_self]
  have hrec : mrecs M2.one (posOf S.surfs 1 - 1) 1 0 (obj :: rest) =
      ⟨1, 0, posOf S.surfs 1 - 1⟩ :: mrecs M2.one (posOf S.surfs 1 - 1) 1 0 rest := by
    simp [mrecs, hobj, M2.ap, M2.one]
  have hl' := hl (mrecs M2.one (posOf S.surfs 1 - 1) 1 0 (obj :: rest)) (by
    rw [hrec, List.map_cons]
    cases hm : (mrecs M2.one (posOf S.surfs 1 - 1) 1 0 rest) with
    | nil =>
      rw [hm] at hlast; simp at hlast
    | cons x xs =>
      rw [hm] at hlast
      rw [List.map_cons, List.getLast?_cons_cons]
      exact hlast)
  have e1 : f2 S = -1 / M.c := by
    simp only [f2, f2raw]
    num_real
    rw [hrs, hfirst, hl'.2]
  refine ⟨e1, ?_⟩
  simp only [F2]
  num_real
  rw [hrs, hl'.1, hl'.2]

/-! ### time reversal: the inverted system undoes the forward trace (entrance pupil = stop conjugate) -/

/-- final ray state after a list of surfaces -/
noncomputable def pfinal (r : PRay ℝ) (ss : List (PSurf ℝ)) : PRay ℝ := ss.foldl pstep r

/-- one surface as `SurfaceGroup.inverted` rewrites it (`zl` = vertex of the last surface) -/
noncomputable def rv (zl : ℝ) (s : PSurf ℝ) : PSurf ℝ :=
  { s with r := s.r * (-1), z := zl - s.z, n1 := s.n2, n2 := s.n1 }

/-- standard surfaces of an axially symmetric lens with non-zero indices -/
def Std (ss : List (PSurf ℝ)) : Prop :=
  ∀ s ∈ ss, s.kind = .standard ∧ s.dy = 0 ∧ s.n1 ≠ 0 ∧ s.n2 ≠ 0

theorem inverted_eq (ss : List (PSurf ℝ)) (l : PSurf ℝ) (h : ss.getLast? = some l) :
    inverted ss = ss.reverse.map (rv l.z) := by
  unfold inverted rv
  rw [h]

/-- `pstepStd` only sees the ray through its height and slope at the surface: sliding the start point
along the ray changes nothing -/
theorem pstepStd_slide (y u z z' : ℝ) (s : PSurf ℝ) :
    pstepStd ⟨y, u, z⟩ s = pstepStd ⟨y + (z' - z) * u, u, z'⟩ s := by
  unfold pstepStd
  num_real
  have e : y - s.dy + -(z - s.z) * u = y + (z' - z) * u - s.dy + -(z' - s.z) * u := by ring
  simp only [e, PRay.mk.injEq, true_and]
  ring

/-- **time reversal at one surface**: entering the inverted surface with the outgoing ray reversed gives
back the incoming ray reversed (refraction and mirror) -/
theorem pstep_reverse (r : PRay ℝ) (s : PSurf ℝ) (zl : ℝ) (hdy : s.dy = 0) (hn1 : s.n1 ≠ 0) (hn2 : s.n2 ≠ 0) :
    let r' := pstepStd r s
    pstepStd ⟨r'.y, -r'.u, zl - s.z⟩ (rv zl s) = ⟨r'.y, -r.u, zl - s.z⟩ := by
  intro r'
  simp only [r', pstepStd, rv]
  num_real
  rw [hdy]
  rcases Bool.eq_false_or_eq_true s.refl with h | h
  · simp only [h, if_true, PRay.mk.injEq]
    refine ⟨by ring, ?_, by ring⟩
    by_cases hr : s.r = 0
    · simp [hr]
    · field_simp; ring
  · simp only [h, Bool.false_eq_true, if_false, PRay.mk.injEq]
    refine ⟨by ring, ?_, by ring⟩
    by_cases hr : s.r = 0
    · simp [hr]; field_simp
    · field_simp; ring

theorem pstepStd_z (r : PRay ℝ) (s : PSurf ℝ) : (pstepStd r s).z = s.z := by
  unfold pstepStd; num_real; ring

/-- **reverse_trace**: tracing the final ray, reversed, through the inverted surfaces ends on the first
surface with the height the forward ray had there and the launch slope reversed. -/
theorem reverse_trace : ∀ (ss : List (PSurf ℝ)) (s1 : PSurf ℝ) (r0 : PRay ℝ) (zl : ℝ), Std (s1 :: ss) →
    let rf := pfinal r0 (s1 :: ss)
    pfinal ⟨rf.y, -rf.u, zl - rf.z⟩ ((s1 :: ss).reverse.map (rv zl)) =
      ⟨r0.y + (s1.z - r0.z) * r0.u, -r0.u, zl - s1.z⟩
  | [], s1, r0, zl, hstd => by
    have h1 := hstd s1 (by simp)
    intro rf
    simp only [rf, pfinal, List.foldl_cons, List.foldl_nil, pstep, h1.1, List.reverse_cons, List.reverse_nil,
      List.nil_append, List.map_cons, List.map_nil, rv]
    have hz := pstepStd_z r0 s1
    have hrev := pstep_reverse r0 s1 zl h1.2.1 h1.2.2.1 h1.2.2.2
    simp only [rv, h1.1] at hrev
    rw [hz, hrev]
    simp only [PRay.mk.injEq, and_true, true_and]
    unfold pstepStd; num_real; rw [h1.2.1]; ring
  | s2 :: ss, s1, r0, zl, hstd => by
    have h1 := hstd s1 (by simp)
    have hstd' : Std (s2 :: ss) := fun t ht => hstd t (by simp [ht])
    intro rf
    have ih := reverse_trace ss s2 (pstepStd r0 s1) zl hstd'
    simp only at ih
    have e0 : pfinal r0 (s1 :: s2 :: ss) = pfinal (pstepStd r0 s1) (s2 :: ss) := by
      simp only [pfinal, List.foldl_cons, pstep, h1.1]
    simp only [rf, e0]
    rw [List.reverse_cons, List.map_append, pfinal, List.foldl_append]
    rw [show List.foldl pstep _ (List.map (rv zl) (s2 :: ss).reverse) =
        pfinal ⟨(pfinal (pstepStd r0 s1) (s2 :: ss)).y, -(pfinal (pstepStd r0 s1) (s2 :: ss)).u,
          zl - (pfinal (pstepStd r0 s1) (s2 :: ss)).z⟩ ((s2 :: ss).reverse.map (rv zl)) from rfl]
    rw [ih]
    simp only [List.map_cons, List.map_nil, List.foldl_cons, List.foldl_nil, pstep]
    have hk : (rv zl s1).kind = .standard := h1.1
    simp only [hk]
    -- slide the ray from surface 2 back to surface 1, then undo the refraction at surface 1
    have hz1 := pstepStd_z r0 s1
    rw [pstepStd_slide _ _ _ (zl - s1.z)]
    have hy : (pstepStd r0 s1).y + (s2.z - (pstepStd r0 s1).z) * (pstepStd r0 s1).u +
        (zl - s1.z - (zl - s2.z)) * -(pstepStd r0 s1).u = (pstepStd r0 s1).y := by
      rw [hz1]; ring
    rw [hy]
    have hrev := pstep_reverse r0 s1 zl h1.2.1 h1.2.2.1 h1.2.2.2
    simp only at hrev
    rw [hrev]
    simp only [PRay.mk.injEq, and_true, true_and]
    unfold pstepStd; num_real; rw [h1.2.1]; ring

/-- **EPL_is_stop_conjugate**: let a forward ray leave the axial point `zE` with slope `u0 ≠ 0` and,
after the surfaces in front of the stop, pass through the stop centre (height 0 at `zs`).  Then the
reverse trace the code performs — from the stop centre, through the inverted front surfaces — ends on
the first surface with height/slope ratio `y/u = zE − z₁`: `EPL` (measured from the first vertex)
is the axial position of the point conjugate to the stop centre. -/
theorem EPL_is_stop_conjugate (ss : List (PSurf ℝ)) (s1 : PSurf ℝ) (zE u0 zs zl : ℝ) (hstd : Std (s1 :: ss))
    (hu : u0 ≠ 0)
    (hstop : (pfinal ⟨0, u0, zE⟩ (s1 :: ss)).y + (zs - (pfinal ⟨0, u0, zE⟩ (s1 :: ss)).z) *
      (pfinal ⟨0, u0, zE⟩ (s1 :: ss)).u = 0) :
    let rf := pfinal ⟨0, u0, zE⟩ (s1 :: ss)
    let e := pfinal ⟨0, -rf.u, zl - zs⟩ ((s1 :: ss).reverse.map (rv zl))
    e.y / e.u = zE - s1.z := by
  intro rf e
  have hrt := reverse_trace ss s1 ⟨0, u0, zE⟩ zl hstd
  simp only at hrt
  -- the code starts on the stop plane; slide the start to the last front surface
  have hslide : e = pfinal ⟨rf.y, -rf.u, zl - rf.z⟩ ((s1 :: ss).reverse.map (rv zl)) := by
    simp only [e]
    cases hl : ((s1 :: ss).reverse.map (rv zl)) with
    | nil => simp at hl
    | cons a l =>
      have ha : a ∈ (s1 :: ss).reverse.map (rv zl) := by rw [hl]; simp
      obtain ⟨t, ht, hta⟩ := List.mem_map.mp ha
      have hka : a.kind = .standard := by
        rw [← hta]; exact (hstd t (List.mem_reverse.mp ht)).1
      simp only [pfinal, List.foldl_cons, pstep, hka]
      congr 1
      rw [pstepStd_slide 0 (-rf.u) (zl - zs) (zl - rf.z)]
      congr 1
      have : (0:ℝ) + (zl - rf.z - (zl - zs)) * -rf.u = rf.y := by
        have := hstop
        simp only [rf] at this ⊢
        linarith [this]
      rw [this]
  rw [hslide, hrt]
  simp only
  field_simp
  ring

/-! ### non-vacuity: a singlet with a mirror behind it meets every hypothesis -/
example :
    WF [⟨.object, 0, -100, 0, 1, 1, false, false⟩, ⟨.standard, 0, 0, 50, 1, 1.5, false, true⟩,
        ⟨.standard, 0, 5, -80, 1.5, 1.5, true, false⟩] ∧
    Chained 1 [⟨.object, 0, -100, 0, 1, 1, false, false⟩, ⟨.standard, 0, 0, 50, 1, 1.5, false, true⟩,
        ⟨.standard, 0, 5, -80, 1.5, 1.5, true, false⟩] := by
  constructor
  · intro s hs; simp at hs; rcases hs with rfl | rfl | rfl <;> (refine ⟨rfl, by simp, by norm_num⟩)
  · simp [Chained]

/-! ## Pupils, cardinal points, marginal/chief ray, invariant, aperture and magnification
(the model's own functions `XPL EPL f1 f2 F1 F2 P1 P2 N1 N2 marginalRay chiefRay invariant EPD FNO
magnification` over ℝ)

Layout assumed by the theorems below (optiland's): `S.surfs = obj :: … ++ [img]`, the object surface only
records, the image surface only transfers the ray to its plane (`pstepImg`).  `pfinal r ss` is the ray
recorded on the last surface of `ss`; on an image surface `y` is the height in the image plane.
List plumbing (`y[-1]`, `y[k]`, `positions[k]`, `stop_index`) is in `Proofs/Cardinal.lean`. -/

theorem pfinal_nil (r : PRay ℝ) : pfinal r [] = r := rfl
theorem pfinal_cons (r : PRay ℝ) (s : PSurf ℝ) (ss : List (PSurf ℝ)) :
    pfinal r (s :: ss) = pfinal (pstep r s) ss := rfl
theorem pfinal_append (r : PRay ℝ) (a b : List (PSurf ℝ)) :
    pfinal r (a ++ b) = pfinal (pfinal r a) b := by
  simp only [pfinal, List.foldl_append]

/-- one surface is linear in the ray (any kind of surface, axially symmetric) -/
theorem pstep_lin (a b : PRay ℝ) (s : PSurf ℝ) (c1 c2 : ℝ) (hz : a.z = b.z) (hdy : s.dy = 0) :
    pstep (lin c1 c2 a b) s = lin c1 c2 (pstep a s) (pstep b s) ∧ (pstep a s).z = (pstep b s).z := by
  unfold pstep lin
  cases hk : s.kind with
  | object => exact ⟨rfl, hz⟩
  | image =>
    simp only [pstepImg]
    num_real
    rw [hdy, ← hz]
    simp only [PRay.mk.injEq, and_true]
    ring
  | standard =>
    simp only [pstepStd]
    num_real
    rw [hdy, ← hz]
    rcases Bool.eq_false_or_eq_true s.refl with h | h
    · simp only [h, if_true, PRay.mk.injEq, and_true]
      refine ⟨by ring, by ring⟩
    · simp only [h, Bool.false_eq_true, if_false, PRay.mk.injEq, and_true]
      refine ⟨by ring, by ring⟩

def DY0 (ss : List (PSurf ℝ)) : Prop := ∀ s ∈ ss, s.dy = 0

/-- **pfinal_lin**: the ray leaving a list of axially symmetric surfaces (of any kind, image surface
included) is linear in the launch ray -/
theorem pfinal_lin : ∀ (ss : List (PSurf ℝ)) (a b : PRay ℝ) (c1 c2 : ℝ), a.z = b.z → DY0 ss →
    pfinal (lin c1 c2 a b) ss = lin c1 c2 (pfinal a ss) (pfinal b ss) ∧ (pfinal a ss).z = (pfinal b ss).z
  | [], a, b, c1, c2, hz, _ => ⟨rfl, hz⟩
  | s :: ss, a, b, c1, c2, hz, h => by
    obtain ⟨h1, h2⟩ := pstep_lin a b s c1 c2 hz (h s (by simp))
    simp only [pfinal_cons]
    rw [h1]
    exact pfinal_lin ss _ _ c1 c2 h2 (fun t ht => h t (by simp [ht]))

/-- scaling the launch ray scales the outgoing ray -/
theorem pfinal_scale (ss : List (PSurf ℝ)) (y u z c : ℝ) (h : DY0 ss) :
    (pfinal ⟨c * y, c * u, z⟩ ss).y = c * (pfinal ⟨y, u, z⟩ ss).y ∧
    (pfinal ⟨c * y, c * u, z⟩ ss).u = c * (pfinal ⟨y, u, z⟩ ss).u := by
  have := (pfinal_lin ss ⟨y, u, z⟩ ⟨y, u, z⟩ c 0 rfl h).1
  have e : lin c 0 ⟨y, u, z⟩ ⟨y, u, z⟩ = ⟨c * y, c * u, z⟩ := by
    simp only [lin, PRay.mk.injEq, and_true]; constructor <;> ring
  rw [e] at this
  rw [this]
  simp only [lin]
  constructor <;> ring

theorem XPL_is_stop_conjugate (S : PSys ℝ) (front back : List (PSurf ℝ)) (stop img : PSurf ℝ)
    (hS : S.surfs = front ++ stop :: (back ++ [img]))
    (hfront : ∀ s ∈ front, s.stop = false) (hstop : stop.stop = true)
    (hdy : DY0 back) (himg : img.kind = .image) (himgdy : img.dy = 0)
    (hu : back ≠ [] → (pfinal ⟨0, 1/10, stop.z⟩ (back ++ [img])).u ≠ 0)
    (u0 : ℝ) :
    let rf := pfinal ⟨0, u0, stop.z⟩ (back ++ [img])
    rf.y + XPL S * rf.u = 0 := by
  intro rf
  have hsi : stopIndex S.surfs = some front.length := by
    rw [hS]; exact stopIndex_append front stop _ hfront hstop
  have hlen : S.surfs.length = front.length + (back.length + 2) := by
    rw [hS]; simp; 
  unfold XPL
  simp only [hsi, Option.getD_some, hlen]
  by_cases hb : back = []
  · subst hb
    rw [if_pos (by simp)]
    have p1 : posOf S.surfs (front.length + (([]:List (PSurf ℝ)).length + 2) - 2) = stop.z := by
      rw [hS]; simpa using posOf_append front stop [img]
    have p2 : posOf S.surfs (front.length + (([]:List (PSurf ℝ)).length + 2) - 1) = img.z := by
      rw [hS]
      have := posOf_append (front ++ [stop]) img []
      simpa using this
    rw [p1, p2]
    simp only [rf, List.nil_append, pfinal, List.foldl_cons, List.foldl_nil, pstep, himg, pstepImg]
    num_real
    rw [himgdy]; ring
  · have hl : 0 < back.length := List.length_pos_of_ne_nil hb
    rw [if_neg (by omega)]
    have hdrop : S.surfs.drop (front.length + 1) = back ++ [img] := by
      rw [hS]
      rw [show front ++ stop :: (back ++ [img]) = (front ++ [stop]) ++ (back ++ [img]) by simp]
      rw [List.drop_append_of_le_length (by simp)]
      simp
    simp only [traceGeneric, Bool.false_eq_true, if_false, hdrop]
    rw [last_ys _ _ (by simp), last_us _ _ (by simp), hS, posOf_append]
    have hd : DY0 (back ++ [img]) := by
      intro s hs
      rcases List.mem_append.mp hs with h | h
      · exact hdy s h
      · simp at h; rw [h]; exact himgdy
    have hsc := pfinal_scale (back ++ [img]) 0 (1/10) stop.z (10 * u0) hd
    have e : (⟨10 * u0 * 0, 10 * u0 * (1/10), stop.z⟩ : PRay ℝ) = ⟨0, u0, stop.z⟩ := by
      simp only [PRay.mk.injEq, and_true]; constructor <;> ring
    rw [e] at hsc
    have hu' := hu hb
    simp only [rf, tenth]
    num_real
    have e10 : ((1:ℕ):ℝ) / ((10:ℕ):ℝ) = 1/10 := by norm_num
    rw [e10]
    show (pfinal ⟨0, u0, stop.z⟩ (back ++ [img])).y + -(pfinal ⟨0, 1/10, stop.z⟩ (back ++ [img])).y /
      (pfinal ⟨0, 1/10, stop.z⟩ (back ++ [img])).u * (pfinal ⟨0, u0, stop.z⟩ (back ++ [img])).u = 0
    rw [hsc.1, hsc.2]
    field_simp
    ring

/-- launch ray of `Paraxial.marginal_ray` -/
noncomputable def marginalLaunch (S : PSys ℝ) : PRay ℝ :=
  if S.objInf then ⟨EPD S / 2, 0, posOf S.surfs 1 - 10⟩
  else ⟨0, EPD S / (2 * (EPL S - posOf S.surfs 0)), posOf S.surfs 0⟩

theorem marginalRay_eq (S : PSys ℝ) : marginalRay S = ptrace (marginalLaunch S) S.surfs := by
  unfold marginalRay marginalLaunch traceGeneric
  num_real
  cases S.objInf <;> simp

/-- the reverse trace from the stop centre that `EPL` and `chief_ray` perform (last record) -/
noncomputable def stopBack (S : PSys ℝ) (u : ℝ) : List (PRay ℝ) :=
  let inv := inverted S.surfs
  let si := (stopIndex inv).getD 0
  traceGeneric S.surfs 0 u (posOf inv si) true (si + 1)

/-- the slope `u1` that `chief_ray` gives the second reverse trace -/
noncomputable def chiefU1 (S : PSys ℝ) : ℝ :=
  match S.fieldType with
  | .objectHeight =>
    1/10 * S.maxYField / (last (ys (stopBack S (1/10))) + last (us (stopBack S (1/10))) *
      (posOf S.surfs 1 - posOf S.surfs 0))
  | .angle => 1/10 * Real.tan (S.maxYField * (Real.pi / 180)) / last (us (stopBack S (1/10)))

/-- launch ray of the forward trace in `Paraxial.chief_ray` -/
noncomputable def chiefLaunch (S : PSys ℝ) : PRay ℝ :=
  ⟨-last (ys (stopBack S (chiefU1 S))), last (us (stopBack S (chiefU1 S))), posOf S.surfs 1⟩

theorem tenth_eq : (tenth : ℝ) = 1/10 := by
  unfold tenth; num_real; norm_num

theorem chiefRay_eq (S : PSys ℝ) : chiefRay S = ptrace (chiefLaunch S) S.surfs := by
  unfold chiefRay chiefLaunch chiefU1 stopBack deg2rad
  simp only [tenth_eq]
  num_real
  simp only [traceGeneric, Bool.false_eq_true, if_false, List.drop_zero, if_true, Nat.cast_ofNat,
    Nat.cast_one, div_one]
  cases S.fieldType <;> rfl

theorem EPL_eq (S : PSys ℝ) (h : stopIndex S.surfs ≠ some 0) :
    EPL S = last (ys (stopBack S (1/10))) / last (us (stopBack S (1/10))) := by
  unfold EPL stopBack
  simp only [tenth_eq]


/-- **invariant_is_lagrange**: `Paraxial.invariant` is `n (ȳ u − y ū)` of the model's marginal ray
`(y,u)` and chief ray `(ȳ,ū)` in the medium behind surface 1 (`lag 1 n₁ a₁ b₁`; the property text writes
the opposite overall sign, `n (ū y − u ȳ)`), and the same value is found behind every later surface
(with the orientation sign `σ` that flips at each mirror). -/
theorem invariant_is_lagrange (S : PSys ℝ) (obj s1 : PSurf ℝ) (rest : List (PSurf ℝ))
    (hS : S.surfs = obj :: s1 :: rest) (hobj : obj.kind = .object) (hk : s1.kind = .standard)
    (hch : Chained s1.n2 rest) (hwf : WFL rest) :
    let a1 := pstep (marginalLaunch S) s1
    let b1 := pstep (chiefLaunch S) s1
    marginalRay S = marginalLaunch S :: a1 :: ptrace a1 rest ∧
    chiefRay S = chiefLaunch S :: b1 :: ptrace b1 rest ∧
    invariant S = s1.n2 * (b1.y * a1.u - a1.y * b1.u) ∧
    AllInv 1 (invariant S) rest (ptrace a1 rest) (ptrace b1 rest) := by
  intro a1 b1
  have ha : marginalRay S = marginalLaunch S :: a1 :: ptrace a1 rest := by
    rw [marginalRay_eq, hS]; simp only [ptrace, pstep, hobj, a1]
  have hb : chiefRay S = chiefLaunch S :: b1 :: ptrace b1 rest := by
    rw [chiefRay_eq, hS]; simp only [ptrace, pstep, hobj, b1]
  have hinv : invariant S = s1.n2 * (b1.y * a1.u - a1.y * b1.u) := by
    unfold invariant
    rw [ha, hb]
    simp only [nList, hS, nth, ys, us, List.map_cons, List.getD_cons_succ, List.getD_cons_zero]
    num_real
    ring
  refine ⟨ha, hb, hinv, ?_⟩
  have hz : a1.z = b1.z := by
    simp only [a1, b1, pstep, hk, pstepStd_z]
  have := lagrange_invariant rest a1 b1 1 s1.n2 hz hch hwf
  have e : lag 1 s1.n2 a1 b1 = invariant S := by rw [hinv]; simp only [lag]; ring
  rw [e] at this
  exact this


theorem drop_append_cons {β : Type} (a : List β) (s : β) (b : List β) :
    (a ++ s :: b).drop (a.length + 1) = b := by
  rw [show a ++ s :: b = (a ++ [s]) ++ b by simp]
  rw [List.drop_append_of_le_length (by simp)]
  simp

theorem rv_rv (zl : ℝ) (s : PSurf ℝ) : rv zl (rv zl s) = s := by
  cases s
  simp only [rv, PSurf.mk.injEq, true_and, and_true]
  constructor <;> ring

theorem rv_involution (zl : ℝ) (L : List (PSurf ℝ)) : (L.reverse.map (rv zl)).reverse.map (rv zl) = L := by
  rw [← List.map_reverse, List.reverse_reverse, List.map_map]
  have : rv zl ∘ rv zl = id := by funext s; exact rv_rv zl s
  rw [this, List.map_id]

theorem Std_rv (zl : ℝ) (L : List (PSurf ℝ)) (h : Std L) : Std (L.reverse.map (rv zl)) := by
  intro s hs
  obtain ⟨t, ht, hts⟩ := List.mem_map.mp hs
  have := h t (List.mem_reverse.mp ht)
  rw [← hts]
  exact ⟨this.1, this.2.1, this.2.2.2, this.2.2.1⟩

theorem pfinal_z (L : List (PSurf ℝ)) (s : PSurf ℝ) (r : PRay ℝ) (hs : s.kind = .standard) :
    (pfinal r (L ++ [s])).z = s.z := by
  rw [pfinal_append]
  simp only [pfinal, List.foldl_cons, List.foldl_nil, pstep, hs, pstepStd_z]

/-- what the reverse trace from the stop centre returns as `y[-1]`, `u[-1]`: the ray leaving the
inverted front group (the surfaces between object and stop) -/
theorem stopBack_last (S : PSys ℝ) (obj stop l : PSurf ℝ) (front back : List (PSurf ℝ))
    (hS : S.surfs = obj :: front ++ stop :: back) (hl : S.surfs.getLast? = some l)
    (hobj : obj.kind = .object) (hstop : stop.stop = true) (hback : ∀ s ∈ back, s.stop = false) (u : ℝ) :
    last (ys (stopBack S u)) = (pfinal ⟨0, u, l.z - stop.z⟩ (front.reverse.map (rv l.z))).y ∧
    last (us (stopBack S u)) = (pfinal ⟨0, u, l.z - stop.z⟩ (front.reverse.map (rv l.z))).u := by
  have hinv : inverted S.surfs = (back.reverse.map (rv l.z)) ++ rv l.z stop ::
      (front.reverse.map (rv l.z) ++ [rv l.z obj]) := by
    rw [inverted_eq S.surfs l hl, hS]
    simp [List.reverse_append, List.map_append]
  have hlen : (back.reverse.map (rv l.z)).length = back.length := by simp
  have hsi : stopIndex (inverted S.surfs) = some back.length := by
    rw [hinv, ← hlen]
    apply stopIndex_append
    · intro x hx
      obtain ⟨t, ht, htx⟩ := List.mem_map.mp hx
      rw [← htx]; exact hback t (List.mem_reverse.mp ht)
    · exact hstop
  have hpos : posOf (inverted S.surfs) back.length = l.z - stop.z := by
    rw [hinv, ← hlen, posOf_append]; rfl
  have hdrop : (inverted S.surfs).drop (back.length + 1) = front.reverse.map (rv l.z) ++ [rv l.z obj] := by
    rw [hinv, ← hlen, drop_append_cons]
  simp only [stopBack, traceGeneric, if_true, hsi, Option.getD_some, hpos, hdrop]
  rw [last_ys _ _ (by simp), last_us _ _ (by simp)]
  have : ∀ r : PRay ℝ, List.foldl pstep r (front.reverse.map (rv l.z) ++ [rv l.z obj]) =
      pfinal r (front.reverse.map (rv l.z)) := by
    intro r
    rw [List.foldl_append]
    have hk : (rv l.z obj).kind = .object := hobj
    simp only [List.foldl_cons, List.foldl_nil, pstep, hk, pfinal]
  rw [this]
  exact ⟨rfl, rfl⟩


theorem pfinal_scale_z (ss : List (PSurf ℝ)) (y u z c : ℝ) (h : DY0 ss) :
    (pfinal ⟨c * y, c * u, z⟩ ss).z = (pfinal ⟨y, u, z⟩ ss).z := by
  have := (pfinal_lin ss ⟨y, u, z⟩ ⟨y, u, z⟩ c 0 rfl h).1
  have e : lin c 0 ⟨y, u, z⟩ ⟨y, u, z⟩ = ⟨c * y, c * u, z⟩ := by
    simp only [lin, PRay.mk.injEq, and_true]; constructor <;> ring
  rw [e] at this
  rw [this]
  simp only [lin]

/-- sliding the launch point along the ray does not change the trace (first surface standard) -/
theorem pfinal_slide (s1 : PSurf ℝ) (fs : List (PSurf ℝ)) (y u z z' : ℝ) (hk : s1.kind = .standard) :
    pfinal ⟨y, u, z⟩ (s1 :: fs) = pfinal ⟨y + (z' - z) * u, u, z'⟩ (s1 :: fs) := by
  simp only [pfinal_cons, pstep, hk]
  rw [pstepStd_slide y u z z']

theorem Std_DY0 (L : List (PSurf ℝ)) (h : Std L) : DY0 L := fun s hs => (h s hs).2.1

/-- **time reversal, converse direction**: take the ray that leaves the inverted front group when
launched from the stop centre, reverse it and trace it forward through the front group: it comes back
to the stop centre. -/
theorem front_roundtrip (s1 : PSurf ℝ) (fs : List (PSurf ℝ)) (zl zs u : ℝ) (hstd : Std (s1 :: fs)) :
    let e := pfinal ⟨0, u, zl - zs⟩ ((s1 :: fs).reverse.map (rv zl))
    let g := pfinal ⟨e.y, -e.u, s1.z⟩ (s1 :: fs)
    g.y + (zs - g.z) * g.u = 0 := by
  intro e g
  have hstd' := Std_rv zl (s1 :: fs) hstd
  have hinv := rv_involution zl (s1 :: fs)
  have hez : e.z = zl - s1.z := by
    simp only [e, List.reverse_cons, List.map_append, List.map_cons, List.map_nil]
    rw [pfinal_z _ _ _ (show (rv zl s1).kind = .standard from (hstd s1 (by simp)).1)]
    rfl
  cases hFR : (s1 :: fs).reverse.map (rv zl) with
  | nil => simp at hFR
  | cons t1 ts =>
    rw [hFR] at hstd' hinv
    have hrt := reverse_trace ts t1 ⟨0, u, zl - zs⟩ zl hstd'
    simp only at hrt
    rw [hinv, ← hFR] at hrt
    have hg : g = ⟨0 + (t1.z - (zl - zs)) * u, -u, zl - t1.z⟩ := by
      rw [← hrt]
      simp only [g]
      congr 2
      rw [show pfinal ⟨0, u, zl - zs⟩ ((s1 :: fs).reverse.map (rv zl)) = e from rfl, hez]
      ring
    rw [hg]
    ring

/-- **chiefRay_def**: the chief ray the model returns has height 0 on the stop surface, whatever the
field type and field value. -/
theorem chiefRay_def (S : PSys ℝ) (obj stop l : PSurf ℝ) (front back : List (PSurf ℝ))
    (hS : S.surfs = obj :: front ++ stop :: back) (hl : S.surfs.getLast? = some l)
    (hobj : obj.kind = .object) (hstop : stop.stop = true) (hback : ∀ s ∈ back, s.stop = false)
    (hstd : Std front) (hsk : stop.kind = .standard) :
    nth (ys (chiefRay S)) (front.length + 1) = 0 := by
  rw [chiefRay_eq, hS]
  have := nth_ys_append (chiefLaunch S) (obj :: front) stop back
  simp only [List.length_cons] at this
  rw [this]
  simp only [List.foldl_cons, pstep, hobj, hsk]
  obtain ⟨hy, hu⟩ := stopBack_last S obj stop l front back hS hl hobj hstop hback (chiefU1 S)
  unfold chiefLaunch
  rw [hy, hu]
  cases front with
  | nil =>
    have hp : posOf S.surfs 1 = stop.z := by rw [hS]; simp [posOf]
    rw [hp]
    simp only [List.reverse_nil, List.map_nil, pfinal_nil, List.foldl_nil, pstepStd]
    num_real
    ring
  | cons s1 fs =>
    have hp : posOf S.surfs 1 = s1.z := by rw [hS]; simp [posOf]
    rw [hp]
    have hrt := front_roundtrip s1 fs l.z stop.z (chiefU1 S) hstd
    simp only at hrt
    set e := pfinal ⟨0, chiefU1 S, l.z - stop.z⟩ ((s1 :: fs).reverse.map (rv l.z)) with he
    have hd := Std_DY0 _ hstd
    have h1 := pfinal_scale (s1 :: fs) e.y (-e.u) s1.z (-1) hd
    have h2 := pfinal_scale_z (s1 :: fs) e.y (-e.u) s1.z (-1) hd
    have e1 : (⟨-1 * e.y, -1 * -e.u, s1.z⟩ : PRay ℝ) = ⟨-e.y, e.u, s1.z⟩ := by
      simp only [PRay.mk.injEq, and_true]; constructor <;> ring
    rw [e1] at h1 h2
    show (pstepStd (pfinal ⟨-e.y, e.u, s1.z⟩ (s1 :: fs)) stop).y = 0
    simp only [pstepStd]
    num_real
    rw [h1.1, h1.2, h2]
    linear_combination (-1) * hrt


/-- **EPL (the model's function) is the stop conjugate**: every forward ray launched from the axial point
`EPL S` behind the first vertex passes, after the surfaces in front of the stop, through the centre of the
stop.  Guard `hu`: the reverse ray of slope 0.1 does not leave the front group parallel to the axis
(entrance pupil at infinity: the code divides by `u[-1] = 0`). -/
theorem EPL_model_is_stop_conjugate (S : PSys ℝ) (obj stop l : PSurf ℝ) (front back : List (PSurf ℝ))
    (hS : S.surfs = obj :: front ++ stop :: back) (hl : S.surfs.getLast? = some l)
    (hobj : obj.kind = .object) (hos : obj.stop = false) (hstop : stop.stop = true)
    (hback : ∀ s ∈ back, s.stop = false) (hstd : Std front)
    (hu : (pfinal ⟨0, 1/10, l.z - stop.z⟩ (front.reverse.map (rv l.z))).u ≠ 0) (u0 : ℝ) :
    let g := pfinal ⟨0, u0, posOf S.surfs 1 + EPL S⟩ front
    g.y + (stop.z - g.z) * g.u = 0 := by
  intro g
  have hsi : stopIndex S.surfs ≠ some 0 := by
    rw [hS]; simp [stopIndex, List.findIdx?_cons, hos]
  obtain ⟨hy, hu'⟩ := stopBack_last S obj stop l front back hS hl hobj hstop hback (1/10)
  have hE := EPL_eq S hsi
  rw [hy, hu'] at hE
  simp only [g, hE]
  cases front with
  | nil =>
    have hp : posOf S.surfs 1 = stop.z := by rw [hS]; simp [posOf]
    simp [hp, pfinal_nil]
  | cons s1 fs =>
    have hp : posOf S.surfs 1 = s1.z := by rw [hS]; simp [posOf]
    rw [hp]
    have hrt := front_roundtrip s1 fs l.z stop.z (1/10) hstd
    simp only at hrt
    set e := pfinal ⟨0, 1/10, l.z - stop.z⟩ ((s1 :: fs).reverse.map (rv l.z)) with he
    have hd := Std_DY0 _ hstd
    have h1 := pfinal_scale (s1 :: fs) e.y (-e.u) s1.z (-u0 / e.u) hd
    have h2 := pfinal_scale_z (s1 :: fs) e.y (-e.u) s1.z (-u0 / e.u) hd
    rw [pfinal_slide s1 fs 0 u0 (s1.z + e.y / e.u) s1.z (hstd s1 (by simp)).1]
    have e1 : (⟨0 + (s1.z - (s1.z + e.y / e.u)) * u0, u0, s1.z⟩ : PRay ℝ) =
        ⟨-u0 / e.u * e.y, -u0 / e.u * -e.u, s1.z⟩ := by
      simp only [PRay.mk.injEq, and_true]; constructor <;> field_simp <;> ring
    rw [e1, h1.1, h1.2, h2]
    linear_combination (-u0 / e.u) * hrt

/-- **marginalRay_def** (object at infinity): the marginal ray is the trace of a ray parallel to the axis
at height `EPD/2` — its height in object space, in particular in the entrance-pupil plane, is `EPD/2`. -/
theorem marginalRay_def_infinite (S : PSys ℝ) (hinf : S.objInf = true) :
    marginalRay S = ptrace (marginalLaunch S) S.surfs ∧ (marginalLaunch S).u = 0 ∧
    ∀ z, (marginalLaunch S).y + (z - (marginalLaunch S).z) * (marginalLaunch S).u = EPD S / 2 := by
  refine ⟨marginalRay_eq S, ?_, ?_⟩ <;> simp [marginalLaunch, hinf]

/-- **marginalRay_def** (finite object): the marginal ray starts on the axis in the object plane and
has height `EPD/2` in the plane `z = EPL S`.  (`EPL` is measured from the first vertex; the code uses it as
a global coordinate, which is the entrance-pupil plane when the first surface sits at `z = 0` —
optiland's convention.)  Guard: the pupil is not in the object plane (the code divides by `EPL − z_obj`). -/
theorem marginalRay_def_finite (S : PSys ℝ) (hfin : S.objInf = false) (hz : EPL S ≠ posOf S.surfs 0) :
    marginalRay S = ptrace (marginalLaunch S) S.surfs ∧ (marginalLaunch S).y = 0 ∧
    (marginalLaunch S).z = posOf S.surfs 0 ∧
    (marginalLaunch S).y + (EPL S - (marginalLaunch S).z) * (marginalLaunch S).u = EPD S / 2 := by
  refine ⟨marginalRay_eq S, ?_, ?_, ?_⟩ <;> simp only [marginalLaunch, hfin, Bool.false_eq_true, if_false]
  have : EPL S - posOf S.surfs 0 ≠ 0 := sub_ne_zero.mpr hz
  field_simp
  ring

/-- field angle: the chief ray enters with slope `tan(field angle)` -/
theorem chiefRay_field_angle (S : PSys ℝ) (obj stop l : PSurf ℝ) (front back : List (PSurf ℝ))
    (hS : S.surfs = obj :: front ++ stop :: back) (hl : S.surfs.getLast? = some l)
    (hobj : obj.kind = .object) (hstop : stop.stop = true) (hback : ∀ s ∈ back, s.stop = false)
    (hstd : Std front) (hft : S.fieldType = .angle)
    (hu : (pfinal ⟨0, 1/10, l.z - stop.z⟩ (front.reverse.map (rv l.z))).u ≠ 0) :
    (chiefLaunch S).u = Real.tan (S.maxYField * (Real.pi / 180)) := by
  obtain ⟨_, hu1⟩ := stopBack_last S obj stop l front back hS hl hobj hstop hback (1/10)
  obtain ⟨_, hu2⟩ := stopBack_last S obj stop l front back hS hl hobj hstop hback (chiefU1 S)
  have hd := Std_DY0 _ (Std_rv l.z front hstd)
  have hsc := pfinal_scale (front.reverse.map (rv l.z)) 0 (1/10) (l.z - stop.z) (10 * chiefU1 S) hd
  have e : (⟨10 * chiefU1 S * 0, 10 * chiefU1 S * (1/10), l.z - stop.z⟩ : PRay ℝ) =
      ⟨0, chiefU1 S, l.z - stop.z⟩ := by
    simp only [PRay.mk.injEq, and_true]; constructor <;> ring
  rw [e] at hsc
  simp only [chiefLaunch]
  rw [hu2, hsc.2]
  simp only [chiefU1, hft]
  rw [hu1]
  field_simp

/-- object-height field: the chief ray comes from the object point at height `−maxYField` -/
theorem chiefRay_field_height (S : PSys ℝ) (obj stop l : PSurf ℝ) (front back : List (PSurf ℝ))
    (hS : S.surfs = obj :: front ++ stop :: back) (hl : S.surfs.getLast? = some l)
    (hobj : obj.kind = .object) (hstop : stop.stop = true) (hback : ∀ s ∈ back, s.stop = false)
    (hstd : Std front) (hft : S.fieldType = .objectHeight)
    (hden : (pfinal ⟨0, 1/10, l.z - stop.z⟩ (front.reverse.map (rv l.z))).y +
      (pfinal ⟨0, 1/10, l.z - stop.z⟩ (front.reverse.map (rv l.z))).u * (posOf S.surfs 1 - posOf S.surfs 0) ≠ 0) :
    (chiefLaunch S).y + (posOf S.surfs 0 - (chiefLaunch S).z) * (chiefLaunch S).u = -S.maxYField := by
  obtain ⟨hy1, hu1⟩ := stopBack_last S obj stop l front back hS hl hobj hstop hback (1/10)
  obtain ⟨hy2, hu2⟩ := stopBack_last S obj stop l front back hS hl hobj hstop hback (chiefU1 S)
  have hd := Std_DY0 _ (Std_rv l.z front hstd)
  have hsc := pfinal_scale (front.reverse.map (rv l.z)) 0 (1/10) (l.z - stop.z) (10 * chiefU1 S) hd
  have e : (⟨10 * chiefU1 S * 0, 10 * chiefU1 S * (1/10), l.z - stop.z⟩ : PRay ℝ) =
      ⟨0, chiefU1 S, l.z - stop.z⟩ := by
    simp only [PRay.mk.injEq, and_true]; constructor <;> ring
  rw [e] at hsc
  simp only [chiefLaunch]
  rw [hy2, hu2, hsc.1, hsc.2]
  simp only [chiefU1, hft]
  rw [hy1, hu1]
  field_simp
  ring


/-! ### demonstration systems for the non-vacuity examples: a thick biconvex singlet (R = ±50, t = 5,
n = 3/2), finite object at z = −100, image surface in the paraxial image plane z = 105 (1:1 imaging); `demo` has the stop (a plane dummy surface)
behind the lens, `demo2` in front of it. -/
noncomputable def dObj : PSurf ℝ := ⟨.object, 0, -100, 0, 1, 1, false, false⟩
noncomputable def dS1 : PSurf ℝ := ⟨.standard, 0, 0, 50, 1, 3/2, false, false⟩
noncomputable def dS2 : PSurf ℝ := ⟨.standard, 0, 5, -50, 3/2, 1, false, false⟩
noncomputable def dStop : PSurf ℝ := ⟨.standard, 0, 10, 0, 1, 1, false, true⟩
noncomputable def dStopF : PSurf ℝ := ⟨.standard, 0, -5, 0, 1, 1, false, true⟩
noncomputable def dImg : PSurf ℝ := ⟨.image, 0, 105, 0, 1, 1, false, false⟩
noncomputable def demo : PSys ℝ := ⟨[dObj, dS1, dS2, dStop, dImg], .EPD, 10, .angle, 5, false⟩
noncomputable def demo2 : PSys ℝ := ⟨[dObj, dStopF, dS1, dS2, dImg], .EPD, 10, .objectHeight, 5, false⟩

theorem demo_std : Std [dS1, dS2] := by
  intro s hs; simp at hs
  rcases hs with rfl | rfl <;> simp [dS1, dS2]

/-- non-vacuity of `XPL_is_stop_conjugate`, special branch (stop is the last surface before the image) -/
example (u0 : ℝ) : (pfinal ⟨0, u0, dStop.z⟩ ([] ++ [dImg])).y + XPL demo * (pfinal ⟨0, u0, dStop.z⟩ ([] ++ [dImg])).u = 0 :=
  XPL_is_stop_conjugate demo [dObj, dS1, dS2] [] dStop dImg rfl (by simp [dObj, dS1, dS2]) rfl
    (by simp [DY0]) rfl rfl (by simp) u0

/-- non-vacuity of `XPL_is_stop_conjugate`, general branch (two refracting surfaces behind the stop) -/
example (u0 : ℝ) : (pfinal ⟨0, u0, dStopF.z⟩ ([dS1, dS2] ++ [dImg])).y +
    XPL demo2 * (pfinal ⟨0, u0, dStopF.z⟩ ([dS1, dS2] ++ [dImg])).u = 0 :=
  XPL_is_stop_conjugate demo2 [dObj] [dS1, dS2] dStopF dImg rfl (by simp [dObj]) rfl
    (Std_DY0 _ demo_std) rfl rfl (by
      intro _
      simp only [pfinal, List.cons_append, List.nil_append, List.foldl_cons, List.foldl_nil, pstep, pstepStd,
        pstepImg, dS1, dS2, dImg, dStopF]
      num_real
      norm_num) u0


theorem demo_last : demo.surfs.getLast? = some dImg := rfl
theorem demo2_last : demo2.surfs.getLast? = some dImg := rfl

/-- the reverse ray from the stop centre of `demo` leaves the lens towards the axis point 4900/521 behind
the first vertex -/
theorem demo_back : (pfinal ⟨0, 1/10, dImg.z - dStop.z⟩ ([dS1, dS2].reverse.map (rv dImg.z))).u = 521/6000 ∧
    (pfinal ⟨0, 1/10, dImg.z - dStop.z⟩ ([dS1, dS2].reverse.map (rv dImg.z))).y = 49/60 := by
  simp only [pfinal, List.reverse_cons, List.reverse_nil, List.nil_append, List.cons_append, List.map_cons,
    List.map_nil, List.foldl_cons, List.foldl_nil, pstep, pstepStd, rv, dS1, dS2, dImg, dStop]
  num_real
  norm_num

theorem demo_EPL : EPL demo = 4900/521 := by
  have hsi : stopIndex demo.surfs ≠ some 0 := by
    simp [demo, stopIndex, List.findIdx?_cons, dObj, dS1, dS2, dStop]
  rw [EPL_eq demo hsi]
  obtain ⟨hy, hu⟩ := stopBack_last demo dObj dStop dImg [dS1, dS2] [dImg] rfl demo_last rfl rfl
    (by simp [dImg]) (1/10)
  rw [hy, hu, demo_back.1, demo_back.2]
  norm_num

/-- non-vacuity of `EPL_model_is_stop_conjugate` -/
example (u0 : ℝ) : (pfinal ⟨0, u0, posOf demo.surfs 1 + EPL demo⟩ [dS1, dS2]).y +
    (dStop.z - (pfinal ⟨0, u0, posOf demo.surfs 1 + EPL demo⟩ [dS1, dS2]).z) *
      (pfinal ⟨0, u0, posOf demo.surfs 1 + EPL demo⟩ [dS1, dS2]).u = 0 :=
  EPL_model_is_stop_conjugate demo dObj dStop dImg [dS1, dS2] [dImg] rfl demo_last rfl rfl rfl
    (by simp [dImg]) demo_std (by rw [demo_back.1]; norm_num) u0

/-- non-vacuity of `chiefRay_def`: stop behind the lens, and stop in front of it (empty front group) -/
example : nth (ys (chiefRay demo)) 3 = 0 :=
  chiefRay_def demo dObj dStop dImg [dS1, dS2] [dImg] rfl demo_last rfl rfl (by simp [dImg]) demo_std rfl
example : nth (ys (chiefRay demo2)) 1 = 0 :=
  chiefRay_def demo2 dObj dStopF dImg [] [dS1, dS2, dImg] rfl demo2_last rfl rfl
    (by simp [dImg, dS1, dS2]) (by intro s hs; simp at hs) rfl

/-- non-vacuity of `chiefRay_field_angle` -/
example : (chiefLaunch demo).u = Real.tan (5 * (Real.pi / 180)) :=
  chiefRay_field_angle demo dObj dStop dImg [dS1, dS2] [dImg] rfl demo_last rfl rfl (by simp [dImg])
    demo_std rfl (by rw [demo_back.1]; norm_num)

/-- non-vacuity of `chiefRay_field_height` (`demo2`: the stop is the first surface, empty front group) -/
example : (chiefLaunch demo2).y + (posOf demo2.surfs 0 - (chiefLaunch demo2).z) * (chiefLaunch demo2).u = -5 :=
  chiefRay_field_height demo2 dObj dStopF dImg [] [dS1, dS2, dImg] rfl demo2_last rfl rfl
    (by simp [dImg, dS1, dS2]) (by intro s hs; simp at hs) rfl (by
      simp [pfinal_nil, posOf, demo2, dObj, dStopF]; norm_num)

/-- non-vacuity of `marginalRay_def_finite` -/
example : (marginalLaunch demo).y + (EPL demo - (marginalLaunch demo).z) * (marginalLaunch demo).u = EPD demo / 2 :=
  (marginalRay_def_finite demo rfl (by rw [demo_EPL]; simp [posOf, demo, dObj]; norm_num)).2.2.2

/-- non-vacuity of `marginalRay_def_infinite` -/
example : (marginalLaunch { demo with objInf := true }).u = 0 :=
  (marginalRay_def_infinite { demo with objInf := true } rfl).2.1

/-- non-vacuity of `invariant_is_lagrange` -/
example : AllInv 1 (invariant demo) [dS2, dStop, dImg]
    (ptrace (pstep (marginalLaunch demo) dS1) [dS2, dStop, dImg])
    (ptrace (pstep (chiefLaunch demo) dS1) [dS2, dStop, dImg]) :=
  (invariant_is_lagrange demo dObj dS1 [dS2, dStop, dImg] rfl rfl rfl
    (by simp [Chained, dS1, dS2, dStop, dImg])
    (by intro s hs; simp at hs; rcases hs with rfl | rfl | rfl <;> simp [dS2, dStop, dImg])).2.2.2


theorem Std_WF (L : List (PSurf ℝ)) (h : Std L) : WF L := fun s hs =>
  ⟨(h s hs).2.1, by rw [(h s hs).1]; simp, (h s hs).2.2.2⟩

/-- the ray leaving a list of surfaces is the system matrix applied to the launch ray -/
theorem pfinal_eq_sysMat (L : List (PSurf ℝ)) (r : PRay ℝ) (hwf : WF L) (hne : L ≠ []) :
    (pfinal r L).y = (sysMat r.z L).a * r.y + (sysMat r.z L).b * r.u ∧
    (pfinal r L).u = (sysMat r.z L).c * r.y + (sysMat r.z L).d * r.u := by
  have h1 := ptrace_getLast? r L hne
  rw [ptrace_eq_matrix' L r hwf] at h1
  have h2 := mrecs_last L M2.one r.z r.y r.u hne
  rw [mul_one', List.getLast?_map, h1] at h2
  simp only [Option.map_some, Option.some.injEq, M2.ap, Prod.mk.injEq] at h2
  exact h2

theorem pfinal_z_last (L : List (PSurf ℝ)) (sk : PSurf ℝ) (r : PRay ℝ) (hstd : Std L)
    (hk : L.getLast? = some sk) : (pfinal r L).z = sk.z := by
  obtain ⟨init, rfl⟩ := List.getLast?_eq_some_iff.mp hk
  exact pfinal_z init sk r (hstd sk (by simp)).1

/-- the four traces behind `f2`, `F2`, `f1`, `F1`, as rays leaving the lens `L` (forward) and the
inverted lens (backward) -/
theorem cardinal_eval (S : PSys ℝ) (obj img s1 sk : PSurf ℝ) (L : List (PSurf ℝ))
    (hS : S.surfs = obj :: L ++ [img]) (hobj : obj.kind = .object) (himg : img.kind = .image)
    (himgdy : img.dy = 0) (hstd : Std L) (h1 : L.head? = some s1) (hk : L.getLast? = some sk) :
    let p := pfinal ⟨1, 0, s1.z⟩ L
    let q := pfinal ⟨1, 0, 0⟩ (L.reverse.map (rv img.z))
    f2 S = -1 / p.u ∧ F2 S = -(p.y + (img.z - sk.z) * p.u) / p.u ∧ f1 S = 1 / q.u ∧ F1 S = q.y / q.u := by
  intro p q
  cases L with
  | nil => simp at h1
  | cons s1' ss =>
  simp only [List.head?_cons, Option.some.injEq] at h1
  subst h1
  have hk1 := (hstd s1' (by simp)).1
  have hp1 : posOf S.surfs 1 = s1'.z := by rw [hS]; simp [posOf]
  -- forward trace
  have hfw : pfinal ⟨1, 0, s1'.z - 1⟩ S.surfs = pstepImg p img := by
    rw [hS, pfinal_append]
    rw [show pfinal (⟨1, 0, s1'.z - 1⟩ : PRay ℝ) (obj :: s1' :: ss) =
      pfinal (pstep ⟨1, 0, s1'.z - 1⟩ obj) (s1' :: ss) from rfl]
    have e0 : pstep (⟨1, 0, s1'.z - 1⟩ : PRay ℝ) obj = ⟨1, 0, s1'.z - 1⟩ := by simp only [pstep, hobj]
    rw [e0, pfinal_slide s1' ss 1 0 (s1'.z - 1) s1'.z hk1]
    have e : (⟨1 + (s1'.z - (s1'.z - 1)) * 0, 0, s1'.z⟩ : PRay ℝ) = ⟨1, 0, s1'.z⟩ := by
      congr 1; ring
    rw [e]
    show pfinal p [img] = _
    simp only [pfinal_cons, pfinal_nil, pstep, himg]
  have hne : S.surfs ≠ [] := by rw [hS]; simp
  have hpz : p.z = sk.z := pfinal_z_last _ sk _ hstd hk
  have e2 : f2 S = -1 / p.u := by
    simp only [f2, f2raw, traceGeneric, Bool.false_eq_true, if_false, List.drop_zero]
    num_real
    rw [hp1, last_us _ _ hne]
    rw [show List.foldl pstep ⟨1, 0, s1'.z - 1⟩ S.surfs = pfinal ⟨1, 0, s1'.z - 1⟩ S.surfs from rfl, hfw]
    conv_lhs => rw [hS]
    rw [List.cons_append, first_ys]
    simp only [pstep, hobj, pstepImg]
  have e2' : F2 S = -(p.y + (img.z - sk.z) * p.u) / p.u := by
    simp only [F2, traceGeneric, Bool.false_eq_true, if_false, List.drop_zero]
    num_real
    rw [hp1, last_us _ _ hne, last_ys _ _ hne]
    rw [show List.foldl pstep ⟨1, 0, s1'.z - 1⟩ S.surfs = pfinal ⟨1, 0, s1'.z - 1⟩ S.surfs from rfl, hfw]
    simp only [pstepImg]
    num_real
    rw [himgdy, hpz]
    congr 1; ring
  -- backward trace
  have hl : S.surfs.getLast? = some img := by rw [hS]; exact List.getLast?_concat
  have hinv : inverted S.surfs = rv img.z img :: ((s1' :: ss).reverse.map (rv img.z) ++ [rv img.z obj]) := by
    rw [inverted_eq S.surfs img hl, hS]
    simp [List.reverse_append, List.map_append]
  have hp0 : posOf (inverted S.surfs) 0 = img.z - img.z := by rw [hinv]; simp [posOf, rv]
  have hbw : pfinal ⟨1, 0, img.z - img.z - 1⟩ (inverted S.surfs) = q := by
    rw [hinv, pfinal_cons, pfinal_append]
    have hko : (rv img.z obj).kind = .object := hobj
    have hki : (rv img.z img).kind = .image := himg
    simp only [pstep, hko, hki, pfinal_cons, pfinal_nil, pstepImg]
    num_real
    simp only [q]
    have hstd' := Std_rv img.z (s1' :: ss) hstd
    cases hFR : (s1' :: ss).reverse.map (rv img.z) with
    | nil => simp at hFR
    | cons t1 ts =>
      rw [hFR] at hstd'
      rw [pfinal_slide t1 ts _ _ _ 0 (hstd' t1 (by simp)).1]
      congr 2
      have : (rv img.z img).dy = 0 := himgdy
      rw [this]; ring
  have hnei : inverted S.surfs ≠ [] := by rw [hinv]; simp
  have e1 : f1 S = 1 / q.u := by
    simp only [f1, traceGeneric, if_true, List.drop_zero]
    num_real
    rw [hp0, last_us _ _ hnei]
    rw [show List.foldl pstep ⟨1, 0, img.z - img.z - 1⟩ (inverted S.surfs) =
      pfinal ⟨1, 0, img.z - img.z - 1⟩ (inverted S.surfs) from rfl, hbw]
    conv_lhs => rw [hinv]
    rw [first_ys]
    have hki : (rv img.z img).kind = .image := himg
    have : (rv img.z img).dy = 0 := himgdy
    simp only [pstep, hki, pstepImg]
    num_real
    rw [this]
    congr 1; ring
  have e1' : F1 S = q.y / q.u := by
    simp only [F1, traceGeneric, if_true, List.drop_zero]
    num_real
    rw [hp0, last_us _ _ hnei, last_ys _ _ hnei]
    rw [show List.foldl pstep ⟨1, 0, img.z - img.z - 1⟩ (inverted S.surfs) =
      pfinal ⟨1, 0, img.z - img.z - 1⟩ (inverted S.surfs) from rfl, hbw]
  exact ⟨e2, e2', e1, e1'⟩

/-- time reversal for the unit-height parallel ray: the ray `q` leaving the inverted lens, reversed and
traced forward, leaves the lens at height 1 parallel to the axis -/
theorem cardinal_roundtrip (L : List (PSurf ℝ)) (s1 : PSurf ℝ) (zl : ℝ) (hstd : Std L)
    (h1 : L.head? = some s1) :
    let q := pfinal ⟨1, 0, 0⟩ (L.reverse.map (rv zl))
    (pfinal ⟨q.y, -q.u, s1.z⟩ L).y = 1 ∧ (pfinal ⟨q.y, -q.u, s1.z⟩ L).u = 0 := by
  intro q
  cases L with
  | nil => simp at h1
  | cons s1' ss =>
  simp only [List.head?_cons, Option.some.injEq] at h1
  subst h1
  have hstd' := Std_rv zl (s1' :: ss) hstd
  have hinv := rv_involution zl (s1' :: ss)
  have hqz : q.z = zl - s1'.z := by
    simp only [q, List.reverse_cons, List.map_append, List.map_cons, List.map_nil]
    rw [pfinal_z _ _ _ (show (rv zl s1').kind = .standard from (hstd s1' (by simp)).1)]
    rfl
  cases hFR : (s1' :: ss).reverse.map (rv zl) with
  | nil => simp at hFR
  | cons t1 ts =>
    rw [hFR] at hstd' hinv
    have hrt := reverse_trace ts t1 ⟨1, 0, 0⟩ zl hstd'
    simp only at hrt
    rw [hinv, ← hFR] at hrt
    have hg : pfinal ⟨q.y, -q.u, s1'.z⟩ (s1' :: ss) = ⟨1 + (t1.z - 0) * 0, -0, zl - t1.z⟩ := by
      rw [← hrt]
      congr 2
      rw [show pfinal ⟨1, 0, 0⟩ ((s1' :: ss).reverse.map (rv zl)) = q from rfl, hqz]
      ring
    rw [hg]
    constructor <;> simp


/-- `S` is a lens in optiland's layout: object surface, a non-empty list `L` of axially symmetric standard
surfaces with non-zero indices (first `s1`, last `sk`; refracting or reflecting), image surface -/
structure IsLens (S : PSys ℝ) (obj img s1 sk : PSurf ℝ) (L : List (PSurf ℝ)) : Prop where
  surfs : S.surfs = obj :: L ++ [img]
  hobj : obj.kind = .object
  himg : img.kind = .image
  himgdy : img.dy = 0
  std : Std L
  head : L.head? = some s1
  last : L.getLast? = some sk

theorem IsLens.ne_nil {S : PSys ℝ} {obj img s1 sk : PSurf ℝ} {L : List (PSurf ℝ)}
    (h : IsLens S obj img s1 sk L) : L ≠ [] := by
  intro hn; have := h.head; rw [hn] at this; simp at this

theorem IsLens.cons {S : PSys ℝ} {obj img s1 sk : PSurf ℝ} {L : List (PSurf ℝ)}
    (h : IsLens S obj img s1 sk L) : ∃ ss, L = s1 :: ss := by
  cases L with
  | nil => exact absurd rfl h.ne_nil
  | cons a ss => have := h.head; simp at this; exact ⟨ss, by rw [this]⟩

/-- a ray given on the first vertex plane leaves the lens as the vertex-to-vertex matrix says -/
theorem IsLens.matrix {S : PSys ℝ} {obj img s1 sk : PSurf ℝ} {L : List (PSurf ℝ)}
    (h : IsLens S obj img s1 sk L) (y u : ℝ) :
    pfinal ⟨y, u, s1.z⟩ L = ⟨(sysMat s1.z L).a * y + (sysMat s1.z L).b * u,
      (sysMat s1.z L).c * y + (sysMat s1.z L).d * u, sk.z⟩ := by
  have h1 := pfinal_eq_sysMat L ⟨y, u, s1.z⟩ (Std_WF L h.std) h.ne_nil
  have h2 := pfinal_z_last L sk ⟨y, u, s1.z⟩ h.std h.last
  cases hp : pfinal ⟨y, u, s1.z⟩ L with
  | mk y' u' z' =>
    rw [hp] at h1 h2
    simp only at h1 h2
    rw [h1.1, h1.2, h2]

/-- the same for a ray given at any axial position in object space -/
theorem IsLens.matrix_at {S : PSys ℝ} {obj img s1 sk : PSurf ℝ} {L : List (PSurf ℝ)}
    (h : IsLens S obj img s1 sk L) (y u z : ℝ) :
    pfinal ⟨y, u, z⟩ L = ⟨(sysMat s1.z L).a * (y + (s1.z - z) * u) + (sysMat s1.z L).b * u,
      (sysMat s1.z L).c * (y + (s1.z - z) * u) + (sysMat s1.z L).d * u, sk.z⟩ := by
  obtain ⟨ss, hL⟩ := h.cons
  rw [← h.matrix]
  conv_lhs => rw [hL]
  conv_rhs => rw [hL]
  exact pfinal_slide s1 ss y u z s1.z (h.std s1 (by rw [hL]; simp)).1

/-- the image surface only transfers the ray to its plane -/
theorem IsLens.to_image {S : PSys ℝ} {obj img s1 sk : PSurf ℝ} {L : List (PSurf ℝ)}
    (h : IsLens S obj img s1 sk L) (r : PRay ℝ) :
    (pfinal r (L ++ [img])).y = (pfinal r L).y + (img.z - (pfinal r L).z) * (pfinal r L).u ∧
    (pfinal r (L ++ [img])).u = (pfinal r L).u := by
  rw [pfinal_append]
  simp only [pfinal_cons, pfinal_nil, pstep, h.himg, pstepImg]
  num_real
  rw [h.himgdy]
  refine ⟨by ring, ?_⟩
  trivial

/-- **f2, F2 from the matrix.**  Convention (read off `pstepStd`): the ray vector is `(y, u)` with the
*unreduced* slope `u`; refraction is `[[1,0],[−(n'−n)c/n', n/n']]`, so `C = −Φ/n'` and `det M = n/n'`.
The model's `f2 = −1/C = n'/Φ` is the rear focal length (distance from `P2` to `F2`), and `F2` is the back
focal distance `−A/C` from the last vertex, re-measured from the image surface. -/
theorem f2_F2_from_matrix (S : PSys ℝ) (obj img s1 sk : PSurf ℝ) (L : List (PSurf ℝ))
    (h : IsLens S obj img s1 sk L) :
    let M := sysMat s1.z L
    f2 S = -1 / M.c ∧ (M.c ≠ 0 → F2 S = -M.a / M.c - (img.z - sk.z)) := by
  intro M
  simp only [M]
  clear M
  obtain ⟨e2, e2', _, _⟩ := cardinal_eval S obj img s1 sk L h.surfs h.hobj h.himg h.himgdy h.std h.head h.last
  have hm := h.matrix 1 0
  rw [hm] at e2 e2'
  simp only [mul_one, mul_zero, add_zero] at e2 e2'
  refine ⟨e2, fun hC => ?_⟩
  rw [e2']
  field_simp
  ring

/-- **F2 is the back focal point and P2 the back principal plane**: a ray entering parallel to the axis at
height `h` (launched anywhere in object space) reaches the image surface as `rf`; continued over the
distance `F2` it is on the axis, continued over `P2 = F2 − f2` it has its entering height `h`
(unit lateral magnification between the principal planes).  Guard `C ≠ 0`: the lens has power (for an
afocal lens the code divides by `u[-1] = 0`). -/
theorem principal_plane_unit_magnification (S : PSys ℝ) (obj img s1 sk : PSurf ℝ) (L : List (PSurf ℝ))
    (h : IsLens S obj img s1 sk L) (hC : (sysMat s1.z L).c ≠ 0) (ht z0 : ℝ) :
    let rf := pfinal ⟨ht, 0, z0⟩ (L ++ [img])
    rf.y + F2 S * rf.u = 0 ∧ rf.y + P2 S * rf.u = ht := by
  intro rf
  obtain ⟨e2, e2'⟩ := f2_F2_from_matrix S obj img s1 sk L h
  have e2'' := e2' hC
  obtain ⟨hy, hu⟩ := h.to_image ⟨ht, 0, z0⟩
  simp only [rf, P2, hy, hu, e2, e2'', h.matrix_at]
  num_real
  constructor <;> field_simp <;> ring

/-- **f1, F1 from the matrix** (through the inverted lens and time reversal): `f1 = det M / C = −n/Φ`
is the front focal length (negative for a positive lens: distance from `P1` to `F1`), `F1 = D/C` the
position of the front focal point measured from the first vertex. -/
theorem f1_F1_from_matrix (S : PSys ℝ) (obj img s1 sk : PSurf ℝ) (L : List (PSurf ℝ))
    (h : IsLens S obj img s1 sk L) (hC : (sysMat s1.z L).c ≠ 0) :
    let M := sysMat s1.z L
    f1 S = M.det / M.c ∧ F1 S = M.d / M.c ∧ M.det ≠ 0 := by
  intro M
  simp only [M]
  clear M
  obtain ⟨_, _, e1, e1'⟩ := cardinal_eval S obj img s1 sk L h.surfs h.hobj h.himg h.himgdy h.std h.head h.last
  obtain ⟨hy, hu⟩ := cardinal_roundtrip L s1 img.z h.std h.head
  set q := pfinal ⟨1, 0, 0⟩ (L.reverse.map (rv img.z)) with hq
  rw [h.matrix] at hy hu
  simp only at hy hu
  have hdet : (sysMat s1.z L).det * q.u = (sysMat s1.z L).c := by
    simp only [M2.det]
    linear_combination (sysMat s1.z L).c * hy - (sysMat s1.z L).a * hu
  have hqu : q.u ≠ 0 := by
    intro h0; rw [h0, mul_zero] at hdet; exact hC hdet.symm
  have hd : (sysMat s1.z L).det ≠ 0 := by
    intro h0; rw [h0, zero_mul] at hdet; exact hC hdet.symm
  refine ⟨?_, ?_, hd⟩
  · rw [e1, ← hdet]; field_simp
  · rw [e1']
    have : q.y = (sysMat s1.z L).d * q.u / (sysMat s1.z L).c := by
      rw [eq_div_iff hC]; linear_combination hu
    rw [this]; field_simp

/-- **F1 is the front focal point and P1 the front principal plane**: a ray from the axial point `F1`
(behind the first vertex) with any slope leaves the lens parallel to the axis, at the height it had (when
continued) in the plane `P1 = F1 − f1`. -/
theorem front_principal_plane_unit_magnification (S : PSys ℝ) (obj img s1 sk : PSurf ℝ) (L : List (PSurf ℝ))
    (h : IsLens S obj img s1 sk L) (hC : (sysMat s1.z L).c ≠ 0) (u0 : ℝ) :
    let g := pfinal ⟨0, u0, s1.z + F1 S⟩ L
    g.u = 0 ∧ g.y = 0 + (s1.z + P1 S - (s1.z + F1 S)) * u0 := by
  intro g
  obtain ⟨e1, e1', _⟩ := f1_F1_from_matrix S obj img s1 sk L h hC
  simp only [g, P1, e1, e1', h.matrix_at, M2.det]
  constructor <;> field_simp <;> ring

/-- **nodal points, positions**: both are displaced from the principal planes by `f1 + f2
= (det M − 1)/C` (`= (n' − n)/Φ` for a refracting lens; `f1` is negative for a positive lens, so in air the
nodal points coincide with the principal points). -/
theorem nodal_points_positions (S : PSys ℝ) (obj img s1 sk : PSurf ℝ) (L : List (PSurf ℝ))
    (h : IsLens S obj img s1 sk L) (hC : (sysMat s1.z L).c ≠ 0) :
    N1 S - P1 S = f1 S + f2 S ∧ N2 S - P2 S = f1 S + f2 S ∧
    f1 S + f2 S = ((sysMat s1.z L).det - 1) / (sysMat s1.z L).c := by
  obtain ⟨e1, _, _⟩ := f1_F1_from_matrix S obj img s1 sk L h hC
  obtain ⟨e2, _⟩ := f2_F2_from_matrix S obj img s1 sk L h
  simp only [N1, N2]
  num_real
  refine ⟨by ring, by ring, ?_⟩
  rw [e1, e2]; field_simp; ring

/-- **nodal points, unit angular magnification**: a ray aimed at `N1` (measured from the first vertex)
reaches the image surface with its slope unchanged and, continued over the distance `N2`, is on the axis:
it emerges from `N2` parallel to itself.  No restriction to `n = n'` (nor to refracting lenses) is needed:
the code's `N = P + f1 + f2` is right in general because `f1` comes from the reverse trace, `f1 = det M/C`. -/
theorem nodal_points_unit_angular_magnification (S : PSys ℝ) (obj img s1 sk : PSurf ℝ) (L : List (PSurf ℝ))
    (h : IsLens S obj img s1 sk L) (hC : (sysMat s1.z L).c ≠ 0) (u0 : ℝ) :
    let rf := pfinal ⟨0, u0, s1.z + N1 S⟩ (L ++ [img])
    rf.u = u0 ∧ rf.y + N2 S * rf.u = 0 := by
  intro rf
  obtain ⟨e1, e1', _⟩ := f1_F1_from_matrix S obj img s1 sk L h hC
  obtain ⟨e2, e2'⟩ := f2_F2_from_matrix S obj img s1 sk L h
  have e2'' := e2' hC
  obtain ⟨hy, hu⟩ := h.to_image ⟨0, u0, s1.z + N1 S⟩
  simp only [rf, hy, hu, h.matrix_at]
  simp only [N1, N2, P1, P2, e1, e1', e2, e2'', M2.det]
  num_real
  constructor <;> field_simp <;> ring


/-- index behind the last surface of `L` (entered from index `n`) -/
noncomputable def nOut (n : ℝ) (L : List (PSurf ℝ)) : ℝ := (L.getLast?.map (·.n2)).getD n

theorem nOut_cons (n : ℝ) (s : PSurf ℝ) (ss : List (PSurf ℝ)) : nOut n (s :: ss) = nOut s.n2 ss := by
  cases ss with
  | nil => simp [nOut]
  | cons a l =>
    simp only [nOut, List.getLast?_cons_cons]
    cases h : (a :: l).getLast? with
    | none => simp at h
    | some x => rfl

theorem det_mul (a b : M2) : (a.mul b).det = a.det * b.det := by
  simp only [M2.mul, M2.det]; ring

/-- **determinant of the system matrix** of a refracting lens: `det M = n/n'` (unreduced slopes) -/
theorem sysMat_det_refracting : ∀ (L : List (PSurf ℝ)) (n z : ℝ), Chained n L → Std L →
    (∀ s ∈ L, s.refl = false) → n ≠ 0 → (sysMat z L).det = n / nOut n L
  | [], n, z, _, _, _, hn => by simp [sysMat, M2.one, M2.det, nOut, hn]
  | s :: ss, n, z, hch, hstd, hr, hn => by
    obtain ⟨hn1, _, hch'⟩ := hch
    have hs := hstd s (by simp)
    have ih := sysMat_det_refracting ss s.n2 s.z hch' (fun t ht => hstd t (by simp [ht]))
      (fun t ht => hr t (by simp [ht])) hs.2.2.2
    have hrs := hr s (by simp)
    simp only [sysMat, hs.1, det_mul, ih, nOut_cons, elem, hrs, Bool.false_eq_true, if_false]
    simp only [R, T, M2.det]
    have := hs.2.2.2
    rw [← hn1]
    field_simp
    ring

/-- **f1/n = −f2/n'** for a refracting lens between media `n` (object space) and `n'` (image space) -/
theorem focal_length_ratio (S : PSys ℝ) (obj img s1 sk : PSurf ℝ) (L : List (PSurf ℝ))
    (h : IsLens S obj img s1 sk L) (hC : (sysMat s1.z L).c ≠ 0) (hch : Chained s1.n1 L)
    (hr : ∀ s ∈ L, s.refl = false) :
    f1 S = -(s1.n1 / sk.n2) * f2 S := by
  obtain ⟨e1, _, _⟩ := f1_F1_from_matrix S obj img s1 sk L h hC
  obtain ⟨e2, _⟩ := f2_F2_from_matrix S obj img s1 sk L h
  obtain ⟨ss, hL⟩ := h.cons
  have hn1 : s1.n1 ≠ 0 := (h.std s1 (by rw [hL]; simp)).2.2.1
  have hd := sysMat_det_refracting L s1.n1 s1.z hch h.std hr hn1
  have ho : nOut s1.n1 L = sk.n2 := by simp [nOut, h.last]
  rw [e1, e2, hd, ho]
  field_simp

/-! ### non-vacuity: the singlet `demo` (lens + stop plane) is a lens with power -/
theorem demo_lens : IsLens demo dObj dImg dS1 dStop [dS1, dS2, dStop] where
  surfs := rfl
  hobj := rfl
  himg := rfl
  himgdy := rfl
  std := by
    intro s hs; simp at hs
    rcases hs with rfl | rfl | rfl <;> simp [dS1, dS2, dStop]
  head := rfl
  last := rfl

theorem demo_matrix : sysMat dS1.z [dS1, dS2, dStop] = ⟨521/600, 49/6, -59/3000, 29/30⟩ := by
  simp only [sysMat, elem, dS1, dS2, dStop, R, T, M2.mul, M2.one, Bool.false_eq_true, if_false, M2.mk.injEq]
  norm_num

theorem demo_power : (sysMat dS1.z [dS1, dS2, dStop]).c ≠ 0 := by rw [demo_matrix]; norm_num

/-- the cardinal data of the demonstration singlet: rear focal length 3000/59 ≈ 50.85, front focal length
the negative of it (lens in air), nodal points = principal points -/
example : f2 demo = 3000/59 ∧ f1 demo = -(3000/59) ∧ N1 demo = P1 demo := by
  obtain ⟨e2, _⟩ := f2_F2_from_matrix demo dObj dImg dS1 dStop _ demo_lens
  obtain ⟨e1, _, _⟩ := f1_F1_from_matrix demo dObj dImg dS1 dStop _ demo_lens demo_power
  obtain ⟨n1, _, n3⟩ := nodal_points_positions demo dObj dImg dS1 dStop _ demo_lens demo_power
  simp only [demo_matrix, M2.det] at e1 e2 n3
  refine ⟨by rw [e2]; norm_num, by rw [e1]; norm_num, ?_⟩
  have : f1 demo + f2 demo = 0 := by rw [n3]; norm_num
  linarith

example (ht z0 : ℝ) : (pfinal ⟨ht, 0, z0⟩ ([dS1, dS2, dStop] ++ [dImg])).y +
    P2 demo * (pfinal ⟨ht, 0, z0⟩ ([dS1, dS2, dStop] ++ [dImg])).u = ht :=
  (principal_plane_unit_magnification demo dObj dImg dS1 dStop _ demo_lens demo_power ht z0).2

example (u0 : ℝ) : (pfinal ⟨0, u0, dS1.z + F1 demo⟩ [dS1, dS2, dStop]).u = 0 :=
  (front_principal_plane_unit_magnification demo dObj dImg dS1 dStop _ demo_lens demo_power u0).1

example (u0 : ℝ) : (pfinal ⟨0, u0, dS1.z + N1 demo⟩ ([dS1, dS2, dStop] ++ [dImg])).u = u0 :=
  (nodal_points_unit_angular_magnification demo dObj dImg dS1 dStop _ demo_lens demo_power u0).1

example : f1 demo = -(dS1.n1 / dStop.n2) * f2 demo :=
  focal_length_ratio demo dObj dImg dS1 dStop _ demo_lens demo_power (by simp [Chained, dS1, dS2, dStop])
    (by intro s hs; simp at hs; rcases hs with rfl | rfl | rfl <;> rfl)


/-- **EPD_def / FNO_def, aperture given as entrance-pupil diameter** -/
theorem EPD_FNO_def_EPD (S : PSys ℝ) (h : S.apType = .EPD) :
    EPD S = S.apValue ∧ FNO S = |f2 S| / S.apValue := by
  simp only [EPD, FNO, h]
  num_real
  exact ⟨trivial, trivial⟩

/-- **EPD_def / FNO_def, aperture given as image-space F-number**; the two are consistent
(`FNO = |f2|/EPD`) when the lens has a non-zero focal length and the F-number is not 0 -/
theorem EPD_FNO_def_imageFNO (S : PSys ℝ) (h : S.apType = .imageFNO) :
    FNO S = S.apValue ∧ EPD S = |f2 S| / S.apValue ∧
    (f2 S ≠ 0 → S.apValue ≠ 0 → FNO S = |f2 S| / EPD S) := by
  simp only [EPD, FNO, h]
  num_real
  refine ⟨trivial, trivial, fun h2 hv => ?_⟩
  have : |f2 S| ≠ 0 := abs_ne_zero.mpr h2
  field_simp

/-- **EPD_def / FNO_def, aperture given as object-space NA**: the marginal ray leaves the axial object
point at the angle `asin(NA/n₀)` and the pupil diameter is twice its height `z·tan` in the plane `EPL`
(taken as a global coordinate, as in `marginal_ray`); `tan(asin x) = x/√(1−x²)`. -/
theorem EPD_FNO_def_objectNA (S : PSys ℝ) (obj : PSurf ℝ) (rest : List (PSurf ℝ)) (hS : S.surfs = obj :: rest)
    (h : S.apType = .objectNA) :
    EPD S = 2 * (EPL S - obj.z) * Real.tan (Real.arcsin (S.apValue / obj.n2)) ∧
    EPD S = 2 * (EPL S - obj.z) * ((S.apValue / obj.n2) / Real.sqrt (1 - (S.apValue / obj.n2) ^ 2)) ∧
    FNO S = |f2 S| / EPD S := by
  have e : EPD S = 2 * (EPL S - obj.z) * Real.tan (Real.arcsin (S.apValue / obj.n2)) := by
    simp only [EPD, h, hS, posOf, List.map_cons, List.getD_cons_zero, List.headD_cons]
    num_real
  refine ⟨e, ?_, ?_⟩
  · rw [e, Real.tan_arcsin]
  · simp only [FNO, h]
    num_real

/-! ### magnification -/

/-- Lagrange invariant between launch and exit of a surface list -/
theorem pfinal_lagrange : ∀ (ss : List (PSurf ℝ)) (a b : PRay ℝ) (σ n : ℝ), a.z = b.z → Chained n ss →
    WFL ss → lag (ss.foldl sgnIdx σ) (nOut n ss) (pfinal a ss) (pfinal b ss) = lag σ n a b
  | [], _, _, _, _, _, _, _ => by simp [nOut, pfinal_nil]
  | s :: ss, a, b, σ, n, hz, hch, hwf => by
    obtain ⟨hn1, hmir, hch'⟩ := hch
    have hs := hwf s (by simp)
    obtain ⟨hstep, hz'⟩ := pstep_lagrange a b s σ hz hs.1 hs.2 hmir
    rw [nOut_cons, pfinal_cons, pfinal_cons, List.foldl_cons,
      pfinal_lagrange ss _ _ _ _ hz' hch' (fun t ht => hwf t (by simp [ht])), hstep, hn1]

/-- a list without mirrors keeps the orientation -/
theorem sgn_refracting (σ : ℝ) : ∀ (ss : List (PSurf ℝ)), (∀ s ∈ ss, s.refl = false) → ss.foldl sgnIdx σ = σ
  | [], _ => rfl
  | s :: ss, h => by
    have hs := h s (by simp)
    rw [List.foldl_cons]
    have : sgnIdx σ s = σ := by simp [sgnIdx, hs]
    rw [this]
    exact sgn_refracting σ ss (fun t ht => h t (by simp [ht]))

/-- the running orientation is `σ` or `−σ` -/
theorem sgn_pm (σ : ℝ) : ∀ (ss : List (PSurf ℝ)), ss.foldl sgnIdx σ = σ ∨ ss.foldl sgnIdx σ = -σ
  | [] => Or.inl rfl
  | s :: ss => by
    rw [List.foldl_cons]
    by_cases h : s.kind = .standard ∧ s.refl = true
    · have : sgnIdx σ s = -σ := by simp [sgnIdx, h]
      rw [this]
      rcases sgn_pm (-σ) ss with h1 | h1
      · exact Or.inr h1
      · exact Or.inl (by rw [h1, neg_neg])
    · have : sgnIdx σ s = σ := by simp only [sgnIdx, if_neg h]
      rw [this]
      exact sgn_pm σ ss

/-- `(-1)**num_mirrors` as the code counts it (`is_reflective` of every surface) is the orientation used in the
Lagrange-invariant theorems, provided only standard surfaces are reflective (object and image surfaces never are) -/
theorem mirrorSign_fold (σ : ℝ) : ∀ (ss : List (PSurf ℝ)), (∀ s ∈ ss, s.refl = true → s.kind = .standard) →
    ss.foldl (fun σ s => if s.refl then Num.neg σ else σ) σ = ss.foldl sgnIdx σ
  | [], _ => rfl
  | s :: ss, h => by
    rw [List.foldl_cons, List.foldl_cons]
    have hs := h s (by simp)
    have e : (if s.refl then Num.neg σ else σ) = sgnIdx σ s := by
      by_cases hr : s.refl = true
      · have hk := hs hr
        simp only [sgnIdx, hr, hk, if_true, and_self]
        rfl
      · have hr' : s.refl = false := by simpa using hr
        simp [sgnIdx, hr']
    rw [e]
    exact mirrorSign_fold _ ss (fun t ht => h t (by simp [ht]))

theorem mirrorSign_eq (S : PSys ℝ) (obj img : PSurf ℝ) (L : List (PSurf ℝ))
    (hS : S.surfs = obj :: L ++ [img]) (hobjr : obj.refl = false)
    (hstd : ∀ s ∈ L ++ [img], s.refl = true → s.kind = .standard) :
    mirrorSign S.surfs = (L ++ [img]).foldl sgnIdx 1 := by
  simp only [mirrorSign, hS, List.cons_append, List.foldl_cons, hobjr]
  have : (if false = true then Num.neg (Num.one : ℝ) else Num.one) = (1:ℝ) := by simp; rfl
  rw [this]
  exact mirrorSign_fold 1 (L ++ [img]) hstd

/-- the code's expression: `n[0]·u[0] / ((−1)^{#mirrors}·n[-1]·u[-1])` of the marginal ray -/
theorem magnification_eq (S : PSys ℝ) (obj img : PSurf ℝ) (L : List (PSurf ℝ))
    (hS : S.surfs = obj :: L ++ [img]) (hobj : obj.kind = .object) :
    magnification S = obj.n2 * (marginalLaunch S).u /
      (mirrorSign S.surfs * img.n2 * (pfinal (marginalLaunch S) (L ++ [img])).u) := by
  simp only [magnification, marginalRay_eq]
  num_real
  have hne : S.surfs ≠ [] := by rw [hS]; simp
  rw [last_us _ _ hne]
  have e1 : first (us (ptrace (marginalLaunch S) S.surfs)) = (marginalLaunch S).u := by
    rw [hS, List.cons_append, first_us]; simp only [pstep, hobj]
  have e2 : List.foldl pstep (marginalLaunch S) S.surfs = pfinal (marginalLaunch S) (L ++ [img]) := by
    rw [hS, List.cons_append, List.foldl_cons]; simp only [pstep, hobj]; rfl
  have e3 : first (nList S) = obj.n2 := by simp [first, nList, hS]
  have e4 : last (nList S) = img.n2 := by
    simp only [last, nList, hS, List.map_append, List.map_cons, List.map_nil]
    rw [List.getLastD_eq_getLast?, List.getLast?_concat]
    rfl
  rw [e1, e2, e3, e4]

/-- **magnification_def**: finite object; `b` is any ray from the object point at height `ht`; if the image
surface is the paraxial image plane (the marginal ray meets the axis there), `b` reaches the image surface
at height `m·ht`, where `m` is the model's `magnification` — for refracting lenses and for any number of
mirrors (the code takes the image-space index with the sign `(−1)^{number of mirrors}`; before the repair
0658796 it did not, and the sign was wrong after an odd number of mirrors: example below). -/
theorem magnification_def (S : PSys ℝ) (obj img : PSurf ℝ) (L : List (PSurf ℝ))
    (hS : S.surfs = obj :: L ++ [img]) (hobj : obj.kind = .object) (hobjr : obj.refl = false)
    (hstd : ∀ s ∈ L ++ [img], s.refl = true → s.kind = .standard) (hfin : S.objInf = false)
    (hch : Chained obj.n2 (L ++ [img])) (hwf : WFL (L ++ [img]))
    (himage : (pfinal (marginalLaunch S) (L ++ [img])).y = 0)
    (hu : (pfinal (marginalLaunch S) (L ++ [img])).u ≠ 0) (ht ub : ℝ) :
    (pfinal ⟨ht, ub, obj.z⟩ (L ++ [img])).y = magnification S * ht := by
  have hml : marginalLaunch S = ⟨0, (marginalLaunch S).u, obj.z⟩ := by
    simp [marginalLaunch, hfin, hS, posOf]
  have hlag := pfinal_lagrange (L ++ [img]) (marginalLaunch S) ⟨ht, ub, obj.z⟩ 1 obj.n2
    (by rw [hml]) hch hwf
  have ho : nOut obj.n2 (L ++ [img]) = img.n2 := by simp [nOut]
  have hn : img.n2 ≠ 0 := (hwf img (by simp)).2
  rw [magnification_eq S obj img L hS hobj, mirrorSign_eq S obj img L hS hobjr hstd]
  simp only [lag, ho, himage] at hlag
  rw [hml] at hlag
  simp only at hlag
  rw [← hml] at hlag
  have hσ : (L ++ [img]).foldl sgnIdx 1 ≠ 0 := by
    rcases sgn_pm 1 (L ++ [img]) with h | h <;> rw [h] <;> norm_num
  field_simp
  linear_combination hlag

/-- refracting lens: no orientation factor at all -/
theorem magnification_def_refracting (S : PSys ℝ) (obj img : PSurf ℝ) (L : List (PSurf ℝ))
    (hS : S.surfs = obj :: L ++ [img]) (hobj : obj.kind = .object) (hobjr : obj.refl = false)
    (hfin : S.objInf = false)
    (hch : Chained obj.n2 (L ++ [img])) (hwf : WFL (L ++ [img])) (hr : ∀ s ∈ L ++ [img], s.refl = false)
    (himage : (pfinal (marginalLaunch S) (L ++ [img])).y = 0)
    (hu : (pfinal (marginalLaunch S) (L ++ [img])).u ≠ 0) (ht ub : ℝ) :
    (pfinal ⟨ht, ub, obj.z⟩ (L ++ [img])).y = magnification S * ht :=
  magnification_def S obj img L hS hobj hobjr (fun s hs h => by rw [hr s hs] at h; cases h) hfin hch hwf
    himage hu ht ub


/-! ### non-vacuity for the aperture definitions and the magnification -/
example : EPD demo = 10 ∧ FNO demo = |f2 demo| / 10 := EPD_FNO_def_EPD demo rfl
example : FNO { demo with apType := .imageFNO, apValue := 4 } = 4 :=
  (EPD_FNO_def_imageFNO { demo with apType := .imageFNO, apValue := 4 } rfl).1
example : EPD { demo with apType := .objectNA, apValue := 1/20 } =
    2 * (EPL { demo with apType := .objectNA, apValue := 1/20 } - dObj.z) *
      Real.tan (Real.arcsin (1/20 / dObj.n2)) :=
  (EPD_FNO_def_objectNA { demo with apType := .objectNA, apValue := 1/20 } dObj _ rfl rfl).1

theorem demo_ml : marginalLaunch demo = ⟨0, 10 / (2 * (4900/521 - -100)), -100⟩ := by
  unfold marginalLaunch
  rw [demo_EPL]
  simp [EPD, demo, posOf, dObj]

/-- every ray from the axial object point of `demo` meets the axis again on the image surface, with the
slope reversed: the image surface of `demo` is the paraxial image plane and the imaging is 1:1 -/
theorem demo_axial (u : ℝ) : (pfinal ⟨0, u, -100⟩ ([dS1, dS2, dStop] ++ [dImg])).y = 0 ∧
    (pfinal ⟨0, u, -100⟩ ([dS1, dS2, dStop] ++ [dImg])).u = -u := by
  simp only [pfinal, List.cons_append, List.nil_append, List.foldl_cons, List.foldl_nil, pstep, pstepStd,
    pstepImg, dS1, dS2, dStop, dImg, Bool.false_eq_true, if_false]
  num_real
  constructor <;> ring

theorem demo_chain : Chained dObj.n2 ([dS1, dS2, dStop] ++ [dImg]) ∧ WFL ([dS1, dS2, dStop] ++ [dImg]) ∧
    ∀ s ∈ [dS1, dS2, dStop] ++ [dImg], s.refl = false := by
  refine ⟨by simp [Chained, dObj, dS1, dS2, dStop, dImg], ?_, ?_⟩ <;>
  · intro s hs; simp at hs
    rcases hs with rfl | rfl | rfl | rfl <;> simp [dS1, dS2, dStop, dImg]

/-- non-vacuity of `magnification_def_refracting`: the demonstration singlet images 1:1 inverted -/
example (ht ub : ℝ) : (pfinal ⟨ht, ub, dObj.z⟩ ([dS1, dS2, dStop] ++ [dImg])).y = magnification demo * ht :=
  magnification_def_refracting demo dObj dImg [dS1, dS2, dStop] rfl rfl rfl rfl demo_chain.1 demo_chain.2.1
    demo_chain.2.2 (by rw [demo_ml]; exact (demo_axial _).1)
    (by rw [demo_ml, (demo_axial _).2]; norm_num) ht ub

theorem demo_mirrorSign : mirrorSign demo.surfs = 1 := by
  rw [mirrorSign_eq demo dObj dImg [dS1, dS2, dStop] rfl rfl
    (fun s hs h => by rw [demo_chain.2.2 s hs] at h; cases h)]
  exact sgn_refracting 1 _ demo_chain.2.2

example : magnification demo = -1 := by
  rw [magnification_eq demo dObj dImg [dS1, dS2, dStop] rfl rfl, demo_ml, (demo_axial _).2, demo_mirrorSign]
  simp only [dObj, dImg]
  norm_num

/-! ### one mirror.  A concave mirror (R = −100) with the object in its centre of curvature images it onto
itself, inverted: lateral magnification −1, and the model's `magnification` is −1 as well.  (Before the repair
0658796 `Paraxial.magnification` used the unsigned image-space index and returned +1 here: the slope changes sign at
the mirror while `optic.n()` does not.  `magnificationUnsigned` below is that expression.) -/
noncomputable def mObj : PSurf ℝ := ⟨.object, 0, -100, 0, 1, 1, false, false⟩
noncomputable def mMir : PSurf ℝ := ⟨.standard, 0, 0, -100, 1, 1, true, true⟩
noncomputable def mImg : PSurf ℝ := ⟨.image, 0, -100, 0, 1, 1, false, false⟩
noncomputable def mirrorDemo : PSys ℝ := ⟨[mObj, mMir, mImg], .EPD, 10, .objectHeight, 5, false⟩

theorem mirror_EPL : EPL mirrorDemo = 0 := by
  have hsi : stopIndex mirrorDemo.surfs ≠ some 0 := by
    simp [mirrorDemo, stopIndex, List.findIdx?_cons, mObj, mMir]
  rw [EPL_eq mirrorDemo hsi]
  obtain ⟨hy, hu⟩ := stopBack_last mirrorDemo mObj mMir mImg [] [mImg] rfl rfl rfl rfl
    (by simp [mImg]) (1/10)
  rw [hy, hu]
  simp [pfinal_nil]

theorem mirror_mirrorSign : mirrorSign mirrorDemo.surfs = -1 := by
  simp [mirrorSign, mirrorDemo, mObj, mMir, mImg]
  rfl

/-- what the tree computed before the repair 0658796 (kept as the negation witness) -/
noncomputable def magnificationUnsigned (S : PSys ℝ) : ℝ := mirrorSign S.surfs * magnification S

example : magnification mirrorDemo = -1 ∧ magnificationUnsigned mirrorDemo = 1 ∧
    (∀ ht ub : ℝ, (pfinal ⟨ht, ub, mObj.z⟩ ([mMir] ++ [mImg])).y = magnification mirrorDemo * ht) ∧
    (pfinal (marginalLaunch mirrorDemo) ([mMir] ++ [mImg])).y = 0 := by
  have hml : marginalLaunch mirrorDemo = ⟨0, 1/20, -100⟩ := by
    unfold marginalLaunch
    rw [mirror_EPL]
    simp [EPD, mirrorDemo, posOf, mObj]; norm_num
  have htr : ∀ y u : ℝ, pfinal ⟨y, u, -100⟩ ([mMir] ++ [mImg]) = ⟨-y, u + y / 50, 0⟩ := by
    intro y u
    simp only [pfinal, List.cons_append, List.nil_append, List.foldl_cons, List.foldl_nil, pstep, pstepStd,
      pstepImg, mMir, mImg, if_true]
    num_real
    simp only [PRay.mk.injEq]
    refine ⟨by ring, by ring, by ring⟩
  have hm : magnification mirrorDemo = -1 := by
    rw [magnification_eq mirrorDemo mObj mImg [mMir] rfl rfl, hml, htr, mirror_mirrorSign]
    simp [mObj, mImg]
  refine ⟨hm, ?_, ?_, ?_⟩
  · rw [magnificationUnsigned, hm, mirror_mirrorSign]; norm_num
  · intro ht ub
    rw [show mObj.z = -100 from rfl, htr, hm]; ring
  · rw [hml, htr]; simp


/-- **the invariant in object space**: with a refracting first surface, `invariant S` is
`n (ȳ u − y ū)` of the marginal ray `(y,u)` and the chief ray `(ȳ,ū)` as launched, both taken in the plane of
the first vertex, in the object-space index `n = n1` of surface 1. -/
theorem invariant_object_space (S : PSys ℝ) (obj s1 : PSurf ℝ) (rest : List (PSurf ℝ))
    (hS : S.surfs = obj :: s1 :: rest) (hobj : obj.kind = .object) (hk : s1.kind = .standard)
    (hr : s1.refl = false) (hdy : s1.dy = 0) (hn2 : s1.n2 ≠ 0) :
    let a := marginalLaunch S
    let b := chiefLaunch S
    invariant S = s1.n1 * ((b.y + (s1.z - b.z) * b.u) * a.u - (a.y + (s1.z - a.z) * a.u) * b.u) := by
  intro a b
  have ha : marginalRay S = a :: pstep a s1 :: ptrace (pstep a s1) rest := by
    rw [marginalRay_eq, hS]; simp only [ptrace, pstep, hobj, a]
  have hb : chiefRay S = b :: pstep b s1 :: ptrace (pstep b s1) rest := by
    rw [chiefRay_eq, hS]; simp only [ptrace, pstep, hobj, b]
  have hinv : invariant S = lag 1 s1.n2 (pstep a s1) (pstep b s1) := by
    unfold invariant
    rw [ha, hb]
    simp only [nList, hS, nth, ys, us, List.map_cons, List.getD_cons_succ, List.getD_cons_zero, lag]
    num_real
    ring
  have sa : pstep a s1 = pstep ⟨a.y + (s1.z - a.z) * a.u, a.u, s1.z⟩ s1 := by
    simp only [pstep, hk]; exact pstepStd_slide a.y a.u a.z s1.z s1
  have sb : pstep b s1 = pstep ⟨b.y + (s1.z - b.z) * b.u, b.u, s1.z⟩ s1 := by
    simp only [pstep, hk]; exact pstepStd_slide b.y b.u b.z s1.z s1
  have hl := (pstep_lagrange ⟨a.y + (s1.z - a.z) * a.u, a.u, s1.z⟩ ⟨b.y + (s1.z - b.z) * b.u, b.u, s1.z⟩
    s1 1 rfl hdy hn2 (by
      rintro (h | h)
      · exact absurd hk h
      · rw [hr] at h; exact absurd h (by simp))).1
  have hs : sgnIdx 1 s1 = 1 := by simp [sgnIdx, hr]
  rw [hs, ← sa, ← sb] at hl
  rw [hinv, hl]
  simp only [lag]
  ring

/-- **object at infinity, field angle θ**: `invariant S = −n · (EPD/2) · tan θ` -/
theorem invariant_infinite_angle (S : PSys ℝ) (obj stop l s1 : PSurf ℝ) (front back rest : List (PSurf ℝ))
    (hS : S.surfs = obj :: front ++ stop :: back) (hS1 : S.surfs = obj :: s1 :: rest)
    (hl : S.surfs.getLast? = some l)
    (hobj : obj.kind = .object) (hstop : stop.stop = true) (hback : ∀ s ∈ back, s.stop = false)
    (hstd : Std front) (hft : S.fieldType = .angle) (hinf : S.objInf = true)
    (hu : (pfinal ⟨0, 1/10, l.z - stop.z⟩ (front.reverse.map (rv l.z))).u ≠ 0)
    (hk : s1.kind = .standard) (hr : s1.refl = false) (hdy : s1.dy = 0) (hn2 : s1.n2 ≠ 0) :
    invariant S = -(s1.n1 * (EPD S / 2) * Real.tan (S.maxYField * (Real.pi / 180))) := by
  have h1 := invariant_object_space S obj s1 rest hS1 hobj hk hr hdy hn2
  have h2 := chiefRay_field_angle S obj stop l front back hS hl hobj hstop hback hstd hft hu
  obtain ⟨_, h3, h4⟩ := marginalRay_def_infinite S hinf
  simp only at h1
  rw [h1, h4 s1.z, h3, h2]
  ring

/-- non-vacuity of `invariant_object_space` and `invariant_infinite_angle` -/
example : invariant { demo with objInf := true } =
    -(dS1.n1 * (EPD { demo with objInf := true } / 2) * Real.tan (5 * (Real.pi / 180))) :=
  invariant_infinite_angle { demo with objInf := true } dObj dStop dImg dS1 [dS1, dS2] [dImg] [dS2, dStop, dImg]
    rfl rfl rfl rfl rfl (by simp [dImg]) demo_std rfl rfl (by rw [demo_back.1]; norm_num) rfl rfl rfl
    (by simp [dS1])


end C04
