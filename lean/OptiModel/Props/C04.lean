import OptiModel.Model.Parax
import OptiModel.Proofs.NumReal
import Mathlib.Tactic.FieldSimp
import Mathlib.Tactic.Ring
import Mathlib.Tactic.LinearCombination
/-!
# C04  Paraxial properties equal matrix optics

Theorems about `Model/Parax.lean` over ℝ.  Planes are encoded as `r = 0` (curvature
`1/r = 0` in Mathlib), matching `(n2-n1)/inf = 0` over `Float`.

Specification side: 2×2 ray-transfer matrices, `T(t) = [[1,t],[0,1]]`,
`R(n,n',c) = [[1,0],[-(n'-n)c/n', n/n']]`, mirror `[[1,0],[-2c,-1]]` (index sign reversal).
-/
namespace C04
open Model

/-- 2×2 real matrix `[[a,b],[c,d]]` -/
structure M2 where
  a : ℝ
  b : ℝ
  c : ℝ
  d : ℝ

def M2.one : M2 := ⟨1, 0, 0, 1⟩
def M2.mul (m n : M2) : M2 :=
  ⟨m.a*n.a + m.b*n.c, m.a*n.b + m.b*n.d, m.c*n.a + m.d*n.c, m.c*n.b + m.d*n.d⟩
def M2.det (m : M2) : ℝ := m.a*m.d - m.b*m.c
/-- apply to the column vector (y,u) -/
def M2.ap (m : M2) (y u : ℝ) : ℝ × ℝ := (m.a*y + m.b*u, m.c*y + m.d*u)

/-- transfer over axial distance `t` -/
def T (t : ℝ) : M2 := ⟨1, t, 0, 1⟩
/-- refraction from index `n` to `n'` at a surface of curvature `c` -/
noncomputable def R (n n' c : ℝ) : M2 := ⟨1, 0, -((n' - n) * c) / n', n / n'⟩
/-- mirror of curvature `c` (the refraction matrix with `n' = -n`) -/
def Mir (c : ℝ) : M2 := ⟨1, 0, -(2*c), -1⟩

theorem mirror_is_index_reversal (n c : ℝ) (hn : n ≠ 0) : R n (-n) c = Mir c := by
  simp only [R, Mir, M2.mk.injEq, true_and]
  constructor <;> field_simp <;> ring

/-- element matrix of a surface reached after an axial transfer `t` -/
noncomputable def elem (s : PSurf ℝ) (t : ℝ) : M2 :=
  match s.kind with
  | .object => M2.one
  | .standard => (if s.refl then Mir (1 / s.r) else R s.n1 s.n2 (1 / s.r)).mul (T t)
  | .image => T t

/-- axially symmetric, standard-or-object surfaces with non-zero back index -/
def WF (ss : List (PSurf ℝ)) : Prop :=
  ∀ s ∈ ss, s.dy = 0 ∧ s.kind ≠ .image ∧ s.n2 ≠ 0

/-! ### one surface = one matrix -/

theorem pstepStd_eq_matrix (r : PRay ℝ) (s : PSurf ℝ) (hdy : s.dy = 0) (hk : s.kind = .standard)
    (hn : s.n2 ≠ 0) :
    ((pstepStd r s).y, (pstepStd r s).u) = (elem s (s.z - r.z)).ap r.y r.u ∧ (pstepStd r s).z = s.z := by
  unfold pstepStd elem
  rw [hk]
  num_real
  rcases Bool.eq_false_or_eq_true s.refl with h | h
  · simp only [h, if_true, M2.mul, Mir, T, M2.ap, hdy, Prod.mk.injEq]
    refine ⟨⟨by ring, by ring⟩, by ring⟩
  · simp only [h, Bool.false_eq_true, if_false, M2.mul, R, T, M2.ap, hdy, Prod.mk.injEq]
    refine ⟨⟨by ring, ?_⟩, by ring⟩
    field_simp
    ring

theorem pstepImg_eq_matrix (r : PRay ℝ) (s : PSurf ℝ) (hdy : s.dy = 0) :
    ((pstepImg r s).y, (pstepImg r s).u) = (T (s.z - r.z)).ap r.y r.u := by
  unfold pstepImg
  num_real
  simp only [T, M2.ap, hdy, Prod.mk.injEq]
  constructor <;> ring

/-! ### the whole trace = running matrix product -/

/-- records predicted by matrix optics: `M` is the matrix accumulated so far from the launch
vector `(y0,u0)`, `z` the axial position of the ray -/
noncomputable def mrecs (M : M2) (z y0 u0 : ℝ) : List (PSurf ℝ) → List (PRay ℝ)
  | [] => []
  | s :: ss =>
    match s.kind with
    | .object => ⟨(M.ap y0 u0).1, (M.ap y0 u0).2, z⟩ :: mrecs M z y0 u0 ss
    | _ =>
      let M' := (elem s (s.z - z)).mul M
      ⟨(M'.ap y0 u0).1, (M'.ap y0 u0).2, s.z⟩ :: mrecs M' s.z y0 u0 ss

theorem ap_mul (m n : M2) (y u : ℝ) : (m.mul n).ap y u = m.ap (n.ap y u).1 (n.ap y u).2 := by
  simp only [M2.mul, M2.ap, Prod.mk.injEq]; constructor <;> ring

/-- **ptrace_eq_matrix**: every recorded (y,u) is the product of the element matrices applied to
the launch vector. -/
theorem ptrace_eq_matrix : ∀ (ss : List (PSurf ℝ)) (M : M2) (z y0 u0 : ℝ), WF ss →
    ptrace ⟨(M.ap y0 u0).1, (M.ap y0 u0).2, z⟩ ss = mrecs M z y0 u0 ss
  | [], _, _, _, _, _ => by simp [ptrace, mrecs]
  | s :: ss, M, z, y0, u0, hwf => by
    have hs := hwf s (by simp)
    have hwf' : WF ss := fun t ht => hwf t (by simp [ht])
    cases hk : s.kind with
    | object =>
      simp only [ptrace, pstep, hk, mrecs]
      rw [ptrace_eq_matrix ss M z y0 u0 hwf']
    | image => exact absurd hk hs.2.1
    | standard =>
      have h := pstepStd_eq_matrix ⟨(M.ap y0 u0).1, (M.ap y0 u0).2, z⟩ s hs.1 hk hs.2.2
      simp only [ptrace, pstep, hk, mrecs]
      obtain ⟨hyu, hz⟩ := h
      have e : pstepStd ⟨(M.ap y0 u0).1, (M.ap y0 u0).2, z⟩ s =
          ⟨(((elem s (s.z - z)).mul M).ap y0 u0).1, (((elem s (s.z - z)).mul M).ap y0 u0).2, s.z⟩ := by
        rw [ap_mul]
        cases hp : pstepStd ⟨(M.ap y0 u0).1, (M.ap y0 u0).2, z⟩ s with
        | mk y u z' =>
          rw [hp] at hyu hz
          simp only at hz hyu
          have hyu' := Prod.mk.inj hyu
          simp only [M2.ap] at hyu' ⊢
          rw [hyu'.1, hyu'.2, hz]
      rw [e, ptrace_eq_matrix ss _ s.z y0 u0 hwf']

/-- the trace started from an arbitrary ray -/
theorem ptrace_eq_matrix' (ss : List (PSurf ℝ)) (r : PRay ℝ) (hwf : WF ss) :
    ptrace r ss = mrecs M2.one r.z r.y r.u ss := by
  have := ptrace_eq_matrix ss M2.one r.z r.y r.u hwf
  simpa [M2.one, M2.ap] using this

/-! ### linearity -/

/-- linear combination of two rays given at the same axial position -/
def lin (c1 c2 : ℝ) (a b : PRay ℝ) : PRay ℝ := ⟨c1*a.y + c2*b.y, c1*a.u + c2*b.u, a.z⟩

/-- `AllLin c1 c2 as bs cs`: record-wise, `cs = c1·as + c2·bs` in height and slope -/
def AllLin (c1 c2 : ℝ) : List (PRay ℝ) → List (PRay ℝ) → List (PRay ℝ) → Prop
  | [], [], [] => True
  | a :: as, b :: bs, c :: cs => c.y = c1*a.y + c2*b.y ∧ c.u = c1*a.u + c2*b.u ∧ AllLin c1 c2 as bs cs
  | _, _, _ => False

theorem mrecs_linear (c1 c2 : ℝ) : ∀ (ss : List (PSurf ℝ)) (M : M2) (z ya ua yb ub : ℝ),
    AllLin c1 c2 (mrecs M z ya ua ss) (mrecs M z yb ub ss) (mrecs M z (c1*ya + c2*yb) (c1*ua + c2*ub) ss)
  | [], _, _, _, _, _, _ => by simp [mrecs, AllLin]
  | s :: ss, M, z, ya, ua, yb, ub => by
    cases hk : s.kind <;> simp only [mrecs, hk, AllLin, M2.ap] <;>
      refine ⟨by ring, by ring, mrecs_linear c1 c2 ss _ _ ya ua yb ub⟩

/-- **ptrace_linear**: paraxial ray data are linear in launch height and slope. -/
theorem ptrace_linear (ss : List (PSurf ℝ)) (a b : PRay ℝ) (c1 c2 : ℝ) (hz : a.z = b.z) (hwf : WF ss) :
    AllLin c1 c2 (ptrace a ss) (ptrace b ss) (ptrace (lin c1 c2 a b) ss) := by
  rw [ptrace_eq_matrix' ss a hwf, ptrace_eq_matrix' ss b hwf, ptrace_eq_matrix' ss _ hwf]
  simp only [lin, ← hz]
  exact mrecs_linear c1 c2 ss M2.one a.z a.y a.u b.y b.u

/-! ### Lagrange invariant -/

/-- running orientation after a surface: mirrors flip it (index sign reversal) -/
noncomputable def sgnIdx (σ : ℝ) (s : PSurf ℝ) : ℝ :=
  if s.kind = .standard ∧ s.refl = true then -σ else σ

/-- Lagrange invariant of two rays in the medium of index `n`, orientation `σ` -/
def lag (σ n : ℝ) (a b : PRay ℝ) : ℝ := σ * n * (b.y * a.u - a.y * b.u)

/-- media chain, mirrors keep the index, object/image surfaces have one medium -/
def Chained : ℝ → List (PSurf ℝ) → Prop
  | _, [] => True
  | n, s :: ss => s.n1 = n ∧ (s.kind ≠ .standard ∨ s.refl = true → s.n2 = s.n1) ∧ Chained s.n2 ss

theorem pstep_lagrange (a b : PRay ℝ) (s : PSurf ℝ) (σ : ℝ) (hz : a.z = b.z) (hdy : s.dy = 0)
    (hn2 : s.n2 ≠ 0) (hmir : s.kind ≠ .standard ∨ s.refl = true → s.n2 = s.n1) :
    lag (sgnIdx σ s) s.n2 (pstep a s) (pstep b s) = lag σ s.n1 a b ∧ (pstep a s).z = (pstep b s).z := by
  unfold lag sgnIdx pstep
  cases hk : s.kind with
  | object =>
    simp only [reduceCtorEq, false_and, if_false]
    rw [hmir (Or.inl (by simp [hk]))]; exact ⟨rfl, hz⟩
  | image =>
    simp only [reduceCtorEq, false_and, if_false, pstepImg]
    num_real
    rw [hmir (Or.inl (by simp [hk])), hz, hdy]; exact ⟨by ring, rfl⟩
  | standard =>
    simp only [pstepStd, true_and]
    num_real
    rcases Bool.eq_false_or_eq_true s.refl with h | h
    · simp only [h, if_true]; rw [hmir (Or.inr h), hz, hdy]; exact ⟨by ring, rfl⟩
    · simp only [h, Bool.false_eq_true, if_false]; rw [hz, hdy]
      refine ⟨?_, rfl⟩
      field_simp; ring

/-- `AllInv σ H ss as bs`: every recorded pair of rays has signed invariant `H` in the medium
behind its surface -/
def AllInv : ℝ → ℝ → List (PSurf ℝ) → List (PRay ℝ) → List (PRay ℝ) → Prop
  | _, _, [], [], [] => True
  | σ, H, s :: ss, a :: as, b :: bs =>
      lag (sgnIdx σ s) s.n2 a b = H ∧ AllInv (sgnIdx σ s) H ss as bs
  | _, _, _, _, _ => False

def WFL (ss : List (PSurf ℝ)) : Prop := ∀ s ∈ ss, s.dy = 0 ∧ s.n2 ≠ 0

/-- **lagrange_invariant**: for any two rays launched at one axial position, the signed
invariant `σ_k n_k (ȳ_k u_k − y_k ū_k)` has the same value at every surface. -/
theorem lagrange_invariant : ∀ (ss : List (PSurf ℝ)) (a b : PRay ℝ) (σ n : ℝ),
    a.z = b.z → Chained n ss → WFL ss →
    AllInv σ (lag σ n a b) ss (ptrace a ss) (ptrace b ss)
  | [], _, _, _, _, _, _, _ => by simp [ptrace, AllInv]
  | s :: ss, a, b, σ, n, hz, hch, hwf => by
      obtain ⟨hn1, hmir, hch'⟩ := hch
      have hs := hwf s (by simp)
      obtain ⟨hstep, hz'⟩ := pstep_lagrange a b s σ hz hs.1 hs.2 hmir
      simp only [ptrace, AllInv]
      refine ⟨by rw [hstep, hn1], ?_⟩
      have ih := lagrange_invariant ss (pstep a s) (pstep b s) (sgnIdx σ s) s.n2 hz' hch'
        (fun t ht => hwf t (by simp [ht]))
      rw [hstep, hn1] at ih
      exact ih

/-! ### focal length and back focal distance from the system matrix -/

/-- system matrix of a surface list for a ray given at axial position `z` -/
noncomputable def sysMat (z : ℝ) : List (PSurf ℝ) → M2
  | [] => M2.one
  | s :: ss =>
    match s.kind with
    | .object => sysMat z ss
    | _ => (sysMat s.z ss).mul (elem s (s.z - z))

theorem mul_assoc' (a b c : M2) : (a.mul b).mul c = a.mul (b.mul c) := by
  simp only [M2.mul, M2.mk.injEq]; refine ⟨?_, ?_, ?_, ?_⟩ <;> ring
theorem mul_one' (a : M2) : a.mul M2.one = a := by
  cases a; simp [M2.mul, M2.one]

theorem getLast?_cons_ne {β : Type} {l : List β} (h : l ≠ []) (a : β) : (a :: l).getLast? = l.getLast? := by
  cases l with
  | nil => contradiction
  | cons b l => simp [List.getLast?_cons_cons]

theorem mrecs_ne_nil (ss : List (PSurf ℝ)) (M : M2) (z y0 u0 : ℝ) (h : ss ≠ []) :
    mrecs M z y0 u0 ss ≠ [] := by
  cases ss with
  | nil => contradiction
  | cons s ss => cases hk : s.kind <;> simp [mrecs, hk]

/-- the last record of `mrecs` is the system matrix applied to the accumulated vector -/
theorem mrecs_last : ∀ (ss : List (PSurf ℝ)) (M : M2) (z y0 u0 : ℝ), ss ≠ [] →
    ((mrecs M z y0 u0 ss).map fun r => (r.y, r.u)).getLast? = some (((sysMat z ss).mul M).ap y0 u0)
  | [], _, _, _, _, h => absurd rfl h
  | s :: ss, M, z, y0, u0, _ => by
    by_cases hss : ss = []
    · subst hss
      cases hk : s.kind <;> simp [mrecs, hk, sysMat, M2.mul, M2.one, M2.ap]
    · have ih := fun M' z' => mrecs_last ss M' z' y0 u0 hss
      have hne := fun M' z' => mrecs_ne_nil ss M' z' y0 u0 hss
      cases hk : s.kind with
      | object =>
        simp only [mrecs, hk, sysMat, List.map_cons]
        rw [getLast?_cons_ne (by simpa using hne M z)]
        exact ih M z
      | image =>
        simp only [mrecs, hk, sysMat, List.map_cons]
        rw [getLast?_cons_ne (by simpa using hne _ s.z), mul_assoc']
        exact ih _ s.z
      | standard =>
        simp only [mrecs, hk, sysMat, List.map_cons]
        rw [getLast?_cons_ne (by simpa using hne _ s.z), mul_assoc']
        exact ih _ s.z

/-- the code's `-y[0]/u[-1]` and `-y[-1]/u[-1]` for the ray `(1,0)` launched one unit in front
of the first surface of `obj :: rest`: they are `-1/C` and `-A/C` of the system matrix.
(Before the repair of F8 `f2` returned the absolute value.) -/
theorem f2_F2_eq_matrix (obj : PSurf ℝ) (rest : List (PSurf ℝ)) (ap : ApType) (v : ℝ) (ft : FieldType)
    (my : ℝ) (oi : Bool) (hobj : obj.kind = .object) (hne : rest ≠ []) (hwf : WF (obj :: rest)) :
    let S : PSys ℝ := ⟨obj :: rest, ap, v, ft, my, oi⟩
    let M := sysMat (posOf S.surfs 1 - 1) rest
    f2 S = -1 / M.c ∧ F2 S = -M.a / M.c := by
  intro S M
  have hrs : traceGeneric S.surfs 1 0 (posOf S.surfs 1 - 1) false 0 =
      mrecs M2.one (posOf S.surfs 1 - 1) 1 0 (obj :: rest) := by
    simp only [traceGeneric, Bool.false_eq_true, if_false, List.drop_zero]
    exact ptrace_eq_matrix' _ _ hwf
  have hlast := mrecs_last rest M2.one (posOf S.surfs 1 - 1) 1 0 hne
  rw [mul_one'] at hlast
  have hfirst : first (ys (mrecs M2.one (posOf S.surfs 1 - 1) 1 0 (obj :: rest))) = 1 := by
    simp [mrecs, hobj, ys, first, M2.ap, M2.one]
  have hl : ∀ rs : List (PRay ℝ), (rs.map fun r => (r.y, r.u)).getLast? = some (M.ap 1 0) →
      last (ys rs) = M.a ∧ last (us rs) = M.c := by
    intro rs h
    have h1 : (ys rs).getLast? = some M.a := by
      have := congrArg (Option.map Prod.fst) h
      simpa [ys, M2.ap, List.getLast?_map, Function.comp_def] using this
    have h2 : (us rs).getLast? = some M.c := by
      have := congrArg (Option.map Prod.snd) h
      simpa [us, M2.ap, List.getLast?_map, Function.comp_def] using this
    simp only [last, List.getLastD_eq_getLast?, h1, h2, Option.getD_some, and_self]
  have hrec : mrecs M2.one (posOf S.surfs 1 - 1) 1 0 (obj :: rest) =
      ⟨1, 0, posOf S.surfs 1 - 1⟩ :: mrecs M2.one (posOf S.surfs 1 - 1) 1 0 rest := by
    simp [mrecs, hobj, M2.ap, M2.one]
  have hl' := hl (mrecs M2.one (posOf S.surfs 1 - 1) 1 0 (obj :: rest)) (by
    rw [hrec, List.map_cons]
    cases hm : (mrecs M2.one (posOf S.surfs 1 - 1) 1 0 rest) with
    | nil =>
      rw [hm] at hlast; simp at hlast
    | cons x xs =>
      rw [hm] at hlast
      rw [List.map_cons, List.getLast?_cons_cons]
      exact hlast)
  have e1 : f2 S = -1 / M.c := by
    simp only [f2, f2raw]
    num_real
    rw [hrs, hfirst, hl'.2]
  refine ⟨e1, ?_⟩
  simp only [F2]
  num_real
  rw [hrs, hl'.1, hl'.2]

/-! ### time reversal: the inverted system undoes the forward trace (entrance pupil = stop conjugate) -/

/-- final ray state after a list of surfaces -/
noncomputable def pfinal (r : PRay ℝ) (ss : List (PSurf ℝ)) : PRay ℝ := ss.foldl pstep r

/-- one surface as `SurfaceGroup.inverted` rewrites it (`zl` = vertex of the last surface) -/
noncomputable def rv (zl : ℝ) (s : PSurf ℝ) : PSurf ℝ :=
  { s with r := s.r * (-1), z := zl - s.z, n1 := s.n2, n2 := s.n1 }

/-- standard surfaces of an axially symmetric lens with non-zero indices -/
def Std (ss : List (PSurf ℝ)) : Prop :=
  ∀ s ∈ ss, s.kind = .standard ∧ s.dy = 0 ∧ s.n1 ≠ 0 ∧ s.n2 ≠ 0

theorem inverted_eq (ss : List (PSurf ℝ)) (l : PSurf ℝ) (h : ss.getLast? = some l) :
    inverted ss = ss.reverse.map (rv l.z) := by
  unfold inverted rv
  rw [h]

/-- `pstepStd` only sees the ray through its height and slope at the surface: sliding the start point
along the ray changes nothing -/
theorem pstepStd_slide (y u z z' : ℝ) (s : PSurf ℝ) :
    pstepStd ⟨y, u, z⟩ s = pstepStd ⟨y + (z' - z) * u, u, z'⟩ s := by
  unfold pstepStd
  num_real
  have e : y - s.dy + -(z - s.z) * u = y + (z' - z) * u - s.dy + -(z' - s.z) * u := by ring
  simp only [e, PRay.mk.injEq, true_and]
  ring

/-- **time reversal at one surface**: entering the inverted surface with the outgoing ray reversed gives
back the incoming ray reversed (refraction and mirror) -/
theorem pstep_reverse (r : PRay ℝ) (s : PSurf ℝ) (zl : ℝ) (hdy : s.dy = 0) (hn1 : s.n1 ≠ 0) (hn2 : s.n2 ≠ 0) :
    let r' := pstepStd r s
    pstepStd ⟨r'.y, -r'.u, zl - s.z⟩ (rv zl s) = ⟨r'.y, -r.u, zl - s.z⟩ := by
  intro r'
  simp only [r', pstepStd, rv]
  num_real
  rw [hdy]
  rcases Bool.eq_false_or_eq_true s.refl with h | h
  · simp only [h, if_true, PRay.mk.injEq]
    refine ⟨by ring, ?_, by ring⟩
    by_cases hr : s.r = 0
    · simp [hr]
    · field_simp; ring
  · simp only [h, Bool.false_eq_true, if_false, PRay.mk.injEq]
    refine ⟨by ring, ?_, by ring⟩
    by_cases hr : s.r = 0
    · simp [hr]; field_simp
    · field_simp; ring

theorem pstepStd_z (r : PRay ℝ) (s : PSurf ℝ) : (pstepStd r s).z = s.z := by
  unfold pstepStd; num_real; ring

/-- **reverse_trace**: tracing the final ray, reversed, through the inverted surfaces ends on the first
surface with the height the forward ray had there and the launch slope reversed. -/
theorem reverse_trace : ∀ (ss : List (PSurf ℝ)) (s1 : PSurf ℝ) (r0 : PRay ℝ) (zl : ℝ), Std (s1 :: ss) →
    let rf := pfinal r0 (s1 :: ss)
    pfinal ⟨rf.y, -rf.u, zl - rf.z⟩ ((s1 :: ss).reverse.map (rv zl)) =
      ⟨r0.y + (s1.z - r0.z) * r0.u, -r0.u, zl - s1.z⟩
  | [], s1, r0, zl, hstd => by
    have h1 := hstd s1 (by simp)
    intro rf
    simp only [rf, pfinal, List.foldl_cons, List.foldl_nil, pstep, h1.1, List.reverse_cons, List.reverse_nil,
      List.nil_append, List.map_cons, List.map_nil, rv]
    have hz := pstepStd_z r0 s1
    have hrev := pstep_reverse r0 s1 zl h1.2.1 h1.2.2.1 h1.2.2.2
    simp only [rv, h1.1] at hrev
    rw [hz, hrev]
    simp only [PRay.mk.injEq, and_true, true_and]
    unfold pstepStd; num_real; rw [h1.2.1]; ring
  | s2 :: ss, s1, r0, zl, hstd => by
    have h1 := hstd s1 (by simp)
    have hstd' : Std (s2 :: ss) := fun t ht => hstd t (by simp [ht])
    intro rf
    have ih := reverse_trace ss s2 (pstepStd r0 s1) zl hstd'
    simp only at ih
    have e0 : pfinal r0 (s1 :: s2 :: ss) = pfinal (pstepStd r0 s1) (s2 :: ss) := by
      simp only [pfinal, List.foldl_cons, pstep, h1.1]
    simp only [rf, e0]
    rw [List.reverse_cons, List.map_append, pfinal, List.foldl_append]
    rw [show List.foldl pstep _ (List.map (rv zl) (s2 :: ss).reverse) =
        pfinal ⟨(pfinal (pstepStd r0 s1) (s2 :: ss)).y, -(pfinal (pstepStd r0 s1) (s2 :: ss)).u,
          zl - (pfinal (pstepStd r0 s1) (s2 :: ss)).z⟩ ((s2 :: ss).reverse.map (rv zl)) from rfl]
    rw [ih]
    simp only [List.map_cons, List.map_nil, List.foldl_cons, List.foldl_nil, pstep]
    have hk : (rv zl s1).kind = .standard := h1.1
    simp only [hk]
    -- slide the ray from surface 2 back to surface 1, then undo the refraction at surface 1
    have hz1 := pstepStd_z r0 s1
    rw [pstepStd_slide _ _ _ (zl - s1.z)]
    have hy : (pstepStd r0 s1).y + (s2.z - (pstepStd r0 s1).z) * (pstepStd r0 s1).u +
        (zl - s1.z - (zl - s2.z)) * -(pstepStd r0 s1).u = (pstepStd r0 s1).y := by
      rw [hz1]; ring
    rw [hy]
    have hrev := pstep_reverse r0 s1 zl h1.2.1 h1.2.2.1 h1.2.2.2
    simp only at hrev
    rw [hrev]
    simp only [PRay.mk.injEq, and_true, true_and]
    unfold pstepStd; num_real; rw [h1.2.1]; ring

/-- **EPL_is_stop_conjugate**: let a forward ray leave the axial point `zE` with slope `u0 ≠ 0` and,
after the surfaces in front of the stop, pass through the stop centre (height 0 at `zs`).  Then the
reverse trace the code performs — from the stop centre, through the inverted front surfaces — ends on
the first surface with height/slope ratio `y/u = zE − z₁`: `EPL` (measured from the first vertex)
is the axial position of the point conjugate to the stop centre. -/
theorem EPL_is_stop_conjugate (ss : List (PSurf ℝ)) (s1 : PSurf ℝ) (zE u0 zs zl : ℝ) (hstd : Std (s1 :: ss))
    (hu : u0 ≠ 0)
    (hstop : (pfinal ⟨0, u0, zE⟩ (s1 :: ss)).y + (zs - (pfinal ⟨0, u0, zE⟩ (s1 :: ss)).z) *
      (pfinal ⟨0, u0, zE⟩ (s1 :: ss)).u = 0) :
    let rf := pfinal ⟨0, u0, zE⟩ (s1 :: ss)
    let e := pfinal ⟨0, -rf.u, zl - zs⟩ ((s1 :: ss).reverse.map (rv zl))
    e.y / e.u = zE - s1.z := by
  intro rf e
  have hrt := reverse_trace ss s1 ⟨0, u0, zE⟩ zl hstd
  simp only at hrt
  -- the code starts on the stop plane; slide the start to the last front surface
  have hslide : e = pfinal ⟨rf.y, -rf.u, zl - rf.z⟩ ((s1 :: ss).reverse.map (rv zl)) := by
    simp only [e]
    cases hl : ((s1 :: ss).reverse.map (rv zl)) with
    | nil => simp at hl
    | cons a l =>
      have ha : a ∈ (s1 :: ss).reverse.map (rv zl) := by rw [hl]; simp
      obtain ⟨t, ht, hta⟩ := List.mem_map.mp ha
      have hka : a.kind = .standard := by
        rw [← hta]; exact (hstd t (List.mem_reverse.mp ht)).1
      simp only [pfinal, List.foldl_cons, pstep, hka]
      congr 1
      rw [pstepStd_slide 0 (-rf.u) (zl - zs) (zl - rf.z)]
      congr 1
      have : (0:ℝ) + (zl - rf.z - (zl - zs)) * -rf.u = rf.y := by
        have := hstop
        simp only [rf] at this ⊢
        linarith [this]
      rw [this]
  rw [hslide, hrt]
  simp only
  field_simp
  ring

/-! ### non-vacuity: a singlet with a mirror behind it meets every hypothesis -/
example :
    WF [⟨.object, 0, -100, 0, 1, 1, false, false⟩, ⟨.standard, 0, 0, 50, 1, 1.5, false, true⟩,
        ⟨.standard, 0, 5, -80, 1.5, 1.5, true, false⟩] ∧
    Chained 1 [⟨.object, 0, -100, 0, 1, 1, false, false⟩, ⟨.standard, 0, 0, 50, 1, 1.5, false, true⟩,
        ⟨.standard, 0, 5, -80, 1.5, 1.5, true, false⟩] := by
  constructor
  · intro s hs; simp at hs; rcases hs with rfl | rfl | rfl <;> (refine ⟨rfl, by simp, by norm_num⟩)
  · simp [Chained]

end C04
